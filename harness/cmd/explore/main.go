package main

import (
	"fmt"
	"math/rand"
	"os"
	"strings"

	"verif/harness/lib/cfgnorm"
	"verif/harness/lib/sem"
	"verif/harness/lib/pipeline"
	"verif/harness/lib/world"
)

func diverges(dir string, h [][]pipeline.Change) (bool, []string) {
	os.RemoveAll(dir)
	p := pipeline.New(pipeline.Options{Dir: dir + "/p", WatchWithoutClass: true, DefaultService: "ns1/svc1"})
	defer p.Close()
	for _, b := range h {
		if err := p.Apply(b); err != nil {
			return false, []string{"apply error: " + err.Error()}
		}
	}
	nf, err := cfgnorm.Load(p.Dir(), p.Prefix())
	if err != nil {
		return false, []string{"load: " + err.Error()}
	}
	q, err := p.Fresh(dir + "/q")
	if err != nil {
		return false, []string{"fresh: " + err.Error()}
	}
	defer q.Close()
	nf2, err := cfgnorm.Load(q.Dir(), q.Prefix())
	if err != nil {
		return false, []string{"load2: " + err.Error()}
	}
	u := sem.DefaultUniverse(world.Hosts, world.Paths)
	b1, b2 := sem.Of(nf, u), sem.Of(nf2, u)
	if sem.Equal(b1, b2) {
		return false, nil
	}
	return true, sem.Diff(b1, b2, 4)
}

func main() {
	dir := "/verif/.work/explore_c01"
	if f := os.Getenv("REPLAY"); f != "" {
		replayFile(f)
		return
	}
	fails := 0
	lo, hi := int64(1), int64(400)
	if v := os.Getenv("SEED"); v != "" {
		fmt.Sscan(v, &lo)
		hi = lo
	}
	for seed := lo; seed <= hi; seed++ {
		rng := rand.New(rand.NewSource(seed))
		cfg := world.Full()
		h := world.GenHistory(rng, cfg, 4, 3)
		bad, _ := diverges(dir, h)
		if !bad {
			continue
		}
		fails++
		m := world.Shrink(h, func(x [][]pipeline.Change) bool { b, _ := diverges(dir, x); return b }, 400)
		_, d := diverges(dir, m)
		fmt.Printf("seed %d: minimal history:\n", seed)
		for i, b := range m {
			var parts []string
			for _, c := range b {
				parts = append(parts, fmt.Sprintf("%s %s", c.Op, world.Key(c.Obj)))
			}
			fmt.Printf("  batch %d: %s\n", i, strings.Join(parts, "; "))
		}
		for _, l := range d {
			fmt.Println("   diff:", l[:min(len(l),200)])
		}
		if os.Getenv("SEED") != "" {
			debugHistory(dir, m)
		}

	}
	fmt.Println("failing seeds:", fails)
}
