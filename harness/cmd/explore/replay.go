package main

import (
	"encoding/json"
	"fmt"
	"os"

	"verif/harness/lib/pipeline"
	"verif/harness/lib/world"
)

func replayFile(path string) {
	b, err := os.ReadFile(path)
	if err != nil {
		panic(err)
	}
	var doc struct {
		Input struct {
			History [][]world.ChangeJSON `json:"history"`
		} `json:"input"`
	}
	if err := json.Unmarshal(b, &doc); err != nil {
		panic(err)
	}
	h := world.DecodeHistory(doc.Input.History)
	for i, bt := range h {
		for _, c := range bt {
			js, _ := json.Marshal(world.EncodeObj(c.Obj))
			fmt.Printf("batch %d %s %s\n", i, c.Op, string(js))
		}
	}
	bad, d := diverges("/verif/.work/explore_c01", h)
	fmt.Println("diverges:", bad)
	for _, l := range d {
		fmt.Println("   diff:", l[:min(len(l), 500)])
	}
	debugHistory("/verif/.work/explore_c01", h)
	_ = pipeline.Create
}
