// c14: correspondence and oracle for C14 (every Kubernetes event lands in exactly one
// reconciliation batch).
//
// Histories of events over a small pool of objects of all handled kinds are fired through
// the REAL watchers (pkg/controller/reconciler, hook VerifNewWatchers / Fire* / Swap /
// Notifications) with swaps interleaved. Every delivered batch is projected to observables
// and compared with the model inside Coq; a direct oracle (no model) checks the partition
// property on histories whose events all carry a unique name; a concurrent run (8 firing
// goroutines, 1 swapping) checks the same property under real interleavings.
package main

import (
	"context"
	"encoding/json"
	"flag"
	"fmt"
	"math/rand"
	"os"
	"os/exec"
	"path/filepath"
	"reflect"
	"sort"
	"strings"
	"sync"
	"sync/atomic"
	"time"

	api "k8s.io/api/core/v1"
	discoveryv1 "k8s.io/api/discovery/v1"
	networking "k8s.io/api/networking/v1"
	metav1 "k8s.io/apimachinery/pkg/apis/meta/v1"
	"sigs.k8s.io/controller-runtime/pkg/client"
	gatewayv1 "sigs.k8s.io/gateway-api/apis/v1"
	gatewayv1alpha2 "sigs.k8s.io/gateway-api/apis/v1alpha2"
	gatewayv1beta1 "sigs.k8s.io/gateway-api/apis/v1beta1"

	"github.com/jcmoraisjr/haproxy-ingress/pkg/controller/config"
	"github.com/jcmoraisjr/haproxy-ingress/pkg/controller/reconciler"
	convtypes "github.com/jcmoraisjr/haproxy-ingress/pkg/converters/types"

	"verif/harness/lib/hx"
)

// ---------------------------------------------------------------- replayable input

var kinds = []string{"ConfigMap", "Service", "Endpoints", "EndpointSlice", "Secret", "Pod",
	"Ingress", "IngressClass",
	"GatewayA2", "GatewayClassA2", "HTTPRouteA2",
	"GatewayB1", "GatewayClassB1", "HTTPRouteB1",
	"GatewayV1", "GatewayClassV1", "HTTPRouteV1", "TCPRouteA2"}

var coqKind = map[string]string{}

func init() {
	for _, k := range kinds {
		coqKind[k] = "K" + k
	}
}

// obj is the description of one object version: everything the predicates and handlers read.
type obj struct {
	ID    int    `json:"id"` // identity of the Go object (pointer)
	NS    string `json:"ns"`
	Name  string `json:"name"`
	Svc   string `json:"svc,omitempty"` // label kubernetes.io/service-name
	Gen   int64  `json:"gen"`
	Ann   int    `json:"ann"`   // annotation variant (0 = nil, 1 = empty map: both equal for maps.Equal)
	Body  int    `json:"body"`  // Endpoints.Subsets / EndpointSlice.Endpoints variant (0 = nil); Pod: 0 = no deletion timestamp, else identity of the *Time
	Valid bool   `json:"valid"` // label valid=true: what the fake IsValidResource answers
	Data  int    `json:"data"`  // ConfigMap.Data variant: 0 = nil, 1 = empty, 2.. contents
}

type stepIn struct {
	Op   string `json:"op"` // create | update | delete | generic | swap
	Kind string `json:"kind,omitempty"`
	Old  *obj   `json:"old,omitempty"`
	New  *obj   `json:"new,omitempty"`
}

type cfgIn struct {
	CM, TCP, Publish        string
	Slice, A2, B1, V1, TCPR bool
}

type input struct {
	Cfg    cfgIn    `json:"cfg"`
	Unique bool     `json:"unique_names"`
	Steps  []stepIn `json:"steps"`
}

// ---------------------------------------------------------------- fake validator

type validator struct{}

func isValid(o client.Object) bool { return o.GetLabels()["valid"] == "true" }

func (validator) IsValidGatewayA2(o *gatewayv1alpha2.Gateway) bool           { return isValid(o) }
func (validator) IsValidGatewayClassA2(o *gatewayv1alpha2.GatewayClass) bool { return isValid(o) }
func (validator) IsValidGatewayB1(o *gatewayv1beta1.Gateway) bool            { return isValid(o) }
func (validator) IsValidGatewayClassB1(o *gatewayv1beta1.GatewayClass) bool  { return isValid(o) }
func (validator) IsValidGateway(o *gatewayv1.Gateway) bool                   { return isValid(o) }
func (validator) IsValidGatewayClass(o *gatewayv1.GatewayClass) bool         { return isValid(o) }
func (validator) IsValidIngress(o *networking.Ingress) bool                  { return isValid(o) }
func (validator) IsValidIngressClass(o *networking.IngressClass) bool        { return isValid(o) }

// ---------------------------------------------------------------- building real objects

var annVariants = []map[string]string{nil, {}, {"k": "1"}, {"k": "2"}, {"k": "1", "j": "x"}}
var dataVariants = []map[string]string{nil, {}, {"timeout-client": "10s"}, {"timeout-client": "20s"}, {"max-connections": "100"}, {"8080": "default/echo:8080"}}

// annToken: maps.Equal treats nil and empty alike
func annToken(v int) int {
	if v <= 1 {
		return 0
	}
	return v
}

type builder struct {
	objs  map[int]client.Object // by id
	ids   map[client.Object]int
	times map[int]*metav1.Time // pod deletion timestamps by identity
}

func newBuilder() *builder {
	return &builder{objs: map[int]client.Object{}, ids: map[client.Object]int{}, times: map[int]*metav1.Time{}}
}

func copyMap(m map[string]string) map[string]string {
	if m == nil {
		return nil
	}
	c := map[string]string{}
	for k, v := range m {
		c[k] = v
	}
	return c
}

func (b *builder) build(kind string, o *obj) client.Object {
	if c, ok := b.objs[o.ID]; ok {
		return c
	}
	labels := map[string]string{}
	if o.Valid {
		labels["valid"] = "true"
	}
	if o.Svc != "" {
		labels["kubernetes.io/service-name"] = o.Svc
	}
	if len(labels) == 0 && o.ID%2 == 0 {
		labels = nil
	}
	meta := metav1.ObjectMeta{Namespace: o.NS, Name: o.Name, Generation: o.Gen, Labels: labels,
		Annotations: copyMap(annVariants[o.Ann%len(annVariants)])}
	var c client.Object
	switch kind {
	case "ConfigMap":
		c = &api.ConfigMap{ObjectMeta: meta, Data: copyMap(dataVariants[o.Data%len(dataVariants)])}
	case "Service":
		c = &api.Service{ObjectMeta: meta}
	case "Endpoints":
		e := &api.Endpoints{ObjectMeta: meta}
		if o.Body > 0 {
			e.Subsets = []api.EndpointSubset{{Addresses: []api.EndpointAddress{{IP: fmt.Sprintf("10.0.0.%d", o.Body)}}}}
		}
		c = e
	case "EndpointSlice":
		e := &discoveryv1.EndpointSlice{ObjectMeta: meta}
		if o.Body > 0 {
			e.Endpoints = []discoveryv1.Endpoint{{Addresses: []string{fmt.Sprintf("10.0.1.%d", o.Body)}}}
		}
		c = e
	case "Secret":
		c = &api.Secret{ObjectMeta: meta}
	case "Pod":
		if o.Body > 0 {
			t, ok := b.times[o.Body]
			if !ok {
				tt := metav1.NewTime(time.Unix(1700000000, 0))
				t = &tt
				b.times[o.Body] = t
			}
			meta.DeletionTimestamp = t
		}
		c = &api.Pod{ObjectMeta: meta}
	case "Ingress":
		c = &networking.Ingress{ObjectMeta: meta}
	case "IngressClass":
		c = &networking.IngressClass{ObjectMeta: meta}
	case "GatewayA2":
		c = &gatewayv1alpha2.Gateway{ObjectMeta: meta}
	case "GatewayClassA2":
		c = &gatewayv1alpha2.GatewayClass{ObjectMeta: meta}
	case "HTTPRouteA2":
		c = &gatewayv1alpha2.HTTPRoute{ObjectMeta: meta}
	case "GatewayB1":
		c = &gatewayv1beta1.Gateway{ObjectMeta: meta}
	case "GatewayClassB1":
		c = &gatewayv1beta1.GatewayClass{ObjectMeta: meta}
	case "HTTPRouteB1":
		c = &gatewayv1beta1.HTTPRoute{ObjectMeta: meta}
	case "GatewayV1":
		c = &gatewayv1.Gateway{ObjectMeta: meta}
	case "GatewayClassV1":
		c = &gatewayv1.GatewayClass{ObjectMeta: meta}
	case "HTTPRouteV1":
		c = &gatewayv1.HTTPRoute{ObjectMeta: meta}
	case "TCPRouteA2":
		c = &gatewayv1alpha2.TCPRoute{ObjectMeta: meta}
	default:
		panic("kind " + kind)
	}
	b.objs[o.ID] = c
	b.ids[c] = o.ID
	return c
}

// ---------------------------------------------------------------- running a history on the real watchers

type batchObs struct {
	GCur, GNew, TCur, TNew int                 `json:"-"` // data tokens, -1 = nil
	Data                   [4]int              `json:"data_cur_new_tcpcur_tcpnew"`
	Lists                  map[string][]int    `json:"lists"`
	Full                   bool                `json:"full"`
	Objects                []string            `json:"objects"`
	Links                  map[string][]string `json:"links"`
}

type stepObs struct {
	Accepted int       `json:"accepted"`
	Notifs   []bool    `json:"notifs"`
	Batch    *batchObs `json:"batch,omitempty"`
}

func dataToken(m map[string]string) int {
	if m == nil {
		return -1
	}
	for i, v := range dataVariants {
		if v != nil && len(v) == len(m) {
			same := true
			for k, x := range v {
				if m[k] != x {
					same = false
				}
			}
			if same {
				return i
			}
		}
	}
	return 1000 // unknown content
}

var lnames = []string{"IngAdd", "IngUpd", "IngDel", "GwA2Add", "GwA2Upd", "GwA2Del", "GwcA2Add", "GwcA2Upd", "GwcA2Del",
	"GwB1Add", "GwB1Upd", "GwB1Del", "GwcB1Add", "GwcB1Upd", "GwcB1Del"}

func idsOf[T client.Object](b *builder, l []T) []int {
	out := []int{}
	for _, o := range l {
		id, ok := b.ids[client.Object(o)]
		if !ok {
			id = -1
		}
		out = append(out, id)
	}
	return out
}

// other counts what the batch holds in the lists no handler of this controller fills
func project(b *builder, ch *convtypes.ChangedObjects) (*batchObs, int) {
	o := &batchObs{Lists: map[string][]int{}, Links: map[string][]string{}}
	o.Data = [4]int{dataToken(ch.GlobalConfigMapDataCur), dataToken(ch.GlobalConfigMapDataNew), dataToken(ch.TCPConfigMapDataCur), dataToken(ch.TCPConfigMapDataNew)}
	o.Lists["IngAdd"] = idsOf(b, ch.IngressesAdd)
	o.Lists["IngUpd"] = idsOf(b, ch.IngressesUpd)
	o.Lists["IngDel"] = idsOf(b, ch.IngressesDel)
	o.Lists["GwA2Add"] = idsOf(b, ch.GatewaysA2Add)
	o.Lists["GwA2Upd"] = idsOf(b, ch.GatewaysA2Upd)
	o.Lists["GwA2Del"] = idsOf(b, ch.GatewaysA2Del)
	o.Lists["GwcA2Add"] = idsOf(b, ch.GatewayClassesA2Add)
	o.Lists["GwcA2Upd"] = idsOf(b, ch.GatewayClassesA2Upd)
	o.Lists["GwcA2Del"] = idsOf(b, ch.GatewayClassesA2Del)
	o.Lists["GwB1Add"] = idsOf(b, ch.GatewaysB1Add)
	o.Lists["GwB1Upd"] = idsOf(b, ch.GatewaysB1Upd)
	o.Lists["GwB1Del"] = idsOf(b, ch.GatewaysB1Del)
	o.Lists["GwcB1Add"] = idsOf(b, ch.GatewayClassesB1Add)
	o.Lists["GwcB1Upd"] = idsOf(b, ch.GatewayClassesB1Upd)
	o.Lists["GwcB1Del"] = idsOf(b, ch.GatewayClassesB1Del)
	other := len(ch.IngressClassesAdd) + len(ch.IngressClassesUpd) + len(ch.IngressClassesDel) +
		len(ch.HTTPRoutesA2Add) + len(ch.HTTPRoutesA2Upd) + len(ch.HTTPRoutesA2Del) +
		len(ch.HTTPRoutesB1Add) + len(ch.HTTPRoutesB1Upd) + len(ch.HTTPRoutesB1Del) +
		len(ch.EndpointsNew) + len(ch.EndpointSlicesUpd) + len(ch.ServicesAdd) + len(ch.ServicesUpd) + len(ch.ServicesDel) +
		len(ch.SecretsAdd) + len(ch.SecretsUpd) + len(ch.SecretsDel) + len(ch.ConfigMapsAdd) + len(ch.ConfigMapsUpd) + len(ch.ConfigMapsDel) + len(ch.PodsNew)
	o.Full = ch.NeedFullSync
	o.Objects = append([]string{}, ch.Objects...)
	for r, ns := range ch.Links {
		o.Links[string(r)] = append([]string{}, ns...)
	}
	return o, other
}

func mkConfig(c cfgIn) *config.Config {
	return &config.Config{ConfigMapName: c.CM, TCPConfigMapName: c.TCP, PublishService: c.Publish,
		EnableEndpointSliceAPI: c.Slice, HasGatewayA2: c.A2, HasGatewayB1: c.B1, HasGatewayV1: c.V1, HasTCPRouteA2: c.TCPR}
}

// delivered is one batch exactly as getChangedObjects returned it (no copy), with the deep
// snapshot taken at delivery time.
type delivered struct {
	ch   *convtypes.ChangedObjects
	snap *batchObs
	step int
}

// diffBatch tells which part of a delivered batch differs from its snapshot.
func diffBatch(snap, cur *batchObs) string {
	var parts []string
	if snap.Data != cur.Data {
		parts = append(parts, fmt.Sprintf("ConfigMap data tokens %v -> %v", snap.Data, cur.Data))
	}
	if !reflect.DeepEqual(snap.Objects, cur.Objects) {
		parts = append(parts, fmt.Sprintf("Objects %v -> %v", snap.Objects, cur.Objects))
	}
	if !reflect.DeepEqual(snap.Links, cur.Links) {
		parts = append(parts, fmt.Sprintf("Links %v -> %v", snap.Links, cur.Links))
	}
	if !reflect.DeepEqual(snap.Lists, cur.Lists) {
		parts = append(parts, fmt.Sprintf("per-kind lists %v -> %v", snap.Lists, cur.Lists))
	}
	if snap.Full != cur.Full {
		parts = append(parts, "NeedFullSync")
	}
	return strings.Join(parts, "; ")
}

// run fires the history on the real watchers. Every delivered batch is kept as returned;
// all of them are read again at every later swap and at the end of the history: `final` are
// the re-reads at the end, `mutated` describes the first difference with a snapshot.
func run(in input) (obs []stepObs, final []*batchObs, mutated string, otherLists int) {
	b := newBuilder()
	w := reconciler.VerifNewWatchers(context.Background(), mkConfig(in.Cfg), validator{})
	var dl []delivered
	reread := func(at string) {
		for k, d := range dl {
			cur, _ := project(b, d.ch)
			if df := diffBatch(d.snap, cur); df != "" && mutated == "" {
				mutated = fmt.Sprintf("batch %d (delivered by step %d) read again %s differs from what was delivered: %s", k, d.step, at, df)
			}
		}
	}
	for i, s := range in.Steps {
		var so stepObs
		switch s.Op {
		case "swap":
			ch := w.Swap()
			bo, other := project(b, ch)
			otherLists += other
			so.Batch = bo
			reread(fmt.Sprintf("at the swap of step %d", i))
			dl = append(dl, delivered{ch: ch, snap: bo, step: i})
		case "create":
			so.Accepted = w.FireCreate(b.build(s.Kind, s.New))
		case "update":
			so.Accepted = w.FireUpdate(b.build(s.Kind, s.Old), b.build(s.Kind, s.New))
		case "delete":
			so.Accepted = w.FireDelete(b.build(s.Kind, s.New))
		case "generic":
			so.Accepted = w.FireGeneric(b.build(s.Kind, s.New))
		}
		so.Notifs = w.Notifications()
		if so.Notifs == nil {
			so.Notifs = []bool{}
		}
		obs = append(obs, so)
	}
	reread("at the end of the history")
	for _, d := range dl {
		cur, _ := project(b, d.ch)
		final = append(final, cur)
	}
	return
}

// ---------------------------------------------------------------- oracle (no model)

// On histories whose events all carry a unique name: the name of every accepted event
// (other than generic) occurs in the links and in the object list of exactly one batch, the
// one delivered by the first swap after it; a rejected event occurs nowhere; every object
// handed over in a per-kind list occurs in exactly one batch; an event fired after the
// last swap is in no batch (it is pending). ConfigMap data chain: Cur of a batch is the New
// of the previous one if present else its Cur.
func oracle(in input, obs []stepObs) (key, what string) {
	type occ struct{ links, objects []int }
	var batches []*batchObs
	batchOfStep := map[int]int{} // step index -> index of the batch that must hold it
	n := 0
	for i, s := range in.Steps {
		if s.Op == "swap" {
			batches = append(batches, obs[i].Batch)
			n++
		} else {
			batchOfStep[i] = n
		}
	}
	// chain
	prevG, prevT := -1, -1
	for k, b := range batches {
		if b.Data[0] != prevG || b.Data[2] != prevT {
			return "configmap-chain", fmt.Sprintf("batch %d sees ConfigMap data (global %d, tcp %d) as current, the previous batches delivered (%d, %d)", k, b.Data[0], b.Data[2], prevG, prevT)
		}
		if b.Data[1] != -1 {
			prevG = b.Data[1]
		}
		if b.Data[3] != -1 {
			prevT = b.Data[3]
		}
	}
	// change descriptions and links, on every history (pooled names too): the Objects of a
	// batch are exactly the entries "<change>/<Resource>:<ns/name>" of the accepted events
	// that landed in it, each once (two events of the same change kind on one object share an
	// entry, events of different kinds do not), and its Links exactly their names
	for k, b := range batches {
		wantObj, wantLink := map[string]bool{}, map[string]bool{}
		for i, s := range in.Steps {
			if s.Op == "swap" || s.Op == "generic" || batchOfStep[i] != k || obs[i].Accepted == 0 {
				continue
			}
			res, name := describe(s)
			wantObj[map[string]string{"create": "add", "update": "update", "delete": "del"}[s.Op]+"/"+res+":"+name] = true
			wantLink[res+" "+name] = true
		}
		seen := map[string]bool{}
		for _, e := range b.Objects {
			if seen[e] {
				return "description", fmt.Sprintf("batch %d lists the change description %s twice", k, e)
			}
			seen[e] = true
			if !wantObj[e] {
				return "description", fmt.Sprintf("batch %d lists the change description %s but no accepted event between its two swaps is that change of that object", k, e)
			}
		}
		for _, e := range hx.SortedKeys(wantObj) {
			if !seen[e] {
				return "description", fmt.Sprintf("batch %d lacks the change description %s of an accepted event that landed in it (it lists %v)", k, e, b.Objects)
			}
		}
		seenL := map[string]bool{}
		for res, ns := range b.Links {
			for _, nm := range ns {
				key := res + " " + nm
				if seenL[key] {
					return "link", fmt.Sprintf("batch %d links %s twice", k, key)
				}
				seenL[key] = true
				if !wantLink[key] {
					return "link", fmt.Sprintf("batch %d links %s but no accepted event between its two swaps touched it", k, key)
				}
			}
		}
		for _, e := range hx.SortedKeys(wantLink) {
			if !seenL[e] {
				return "link", fmt.Sprintf("batch %d lacks the link %s of an accepted event that landed in it", k, e)
			}
		}
	}
	if !in.Unique {
		return "", ""
	}
	for i, s := range in.Steps {
		if s.Op == "swap" || s.Op == "generic" {
			continue
		}
		token := s.New.Name
		if s.Kind == "EndpointSlice" && s.New.Svc != "" {
			token = s.New.Svc
		}
		var inLinks, inObjects []int
		for k, b := range batches {
			for _, ns := range b.Links {
				for _, nm := range ns {
					if nm == token || strings.HasSuffix(nm, "/"+token) {
						inLinks = append(inLinks, k)
					}
				}
			}
			for _, e := range b.Objects {
				if strings.HasSuffix(e, ":"+token) || strings.HasSuffix(e, "/"+token) {
					inObjects = append(inObjects, k)
				}
			}
		}
		want := []int{}
		if obs[i].Accepted > 0 && batchOfStep[i] < len(batches) {
			want = []int{batchOfStep[i]}
		}
		if fmt.Sprint(inLinks) != fmt.Sprint(want) {
			return "link-partition", fmt.Sprintf("event %d (%s %s %s, accepted by %d handlers) has its link in batches %v, expected %v", i, s.Op, s.Kind, token, obs[i].Accepted, inLinks, want)
		}
		if fmt.Sprint(inObjects) != fmt.Sprint(want) {
			return "object-partition", fmt.Sprintf("event %d (%s %s %s, accepted by %d handlers) has its object entry in batches %v, expected %v", i, s.Op, s.Kind, token, obs[i].Accepted, inObjects, want)
		}
		if obs[i].Accepted > 1 {
			return "accepted-twice", fmt.Sprintf("event %d was accepted by %d handlers", i, obs[i].Accepted)
		}
		if len(obs[i].Notifs) != obs[i].Accepted {
			return "notification", fmt.Sprintf("event %d accepted by %d handlers produced %d queue notifications", i, obs[i].Accepted, len(obs[i].Notifs))
		}
	}
	// every object delivered in a per-kind list: once overall, in the batch of an event that carries it
	seen := map[string]int{}
	for k, b := range batches {
		for ln, ids := range b.Lists {
			for _, id := range ids {
				key := fmt.Sprintf("%s/%d", ln, id)
				if _, dup := seen[key]; dup {
					return "description-duplicated", fmt.Sprintf("object %d is in list %s of batch %d and again of batch %d", id, ln, seen[key], k)
				}
				seen[key] = k
				ok := false
				for i, s := range in.Steps {
					if s.Op != "swap" && batchOfStep[i] == k && ((s.New != nil && s.New.ID == id) || (s.Old != nil && s.Old.ID == id)) {
						ok = true
					}
				}
				if !ok {
					return "description-misplaced", fmt.Sprintf("object %d is in list %s of batch %d but no event between the two swaps carries it", id, ln, k)
				}
			}
		}
	}
	// class transitions of ingresses (each object id is used by one event in unique mode)
	for i, s := range in.Steps {
		if s.Kind != "Ingress" || s.Op != "update" || batchOfStep[i] >= len(batches) {
			continue
		}
		b := batches[batchOfStep[i]]
		has := func(ln string, id int) bool {
			for _, x := range b.Lists[ln] {
				if x == id {
					return true
				}
			}
			return false
		}
		acc := obs[i].Accepted > 0
		add, upd, del := has("IngAdd", s.New.ID), has("IngUpd", s.New.ID), has("IngDel", s.Old.ID)
		var wa, wu, wd bool
		switch {
		case s.Old.Valid && s.New.Valid:
			wu = acc
		case !s.Old.Valid && s.New.Valid:
			wa = acc
		case s.Old.Valid && !s.New.Valid:
			wd = acc
		}
		if add != wa || upd != wu || del != wd {
			return "class-transition", fmt.Sprintf("ingress update %d (valid %v -> %v, accepted %v) delivered as add=%v upd=%v del=%v", i, s.Old.Valid, s.New.Valid, acc, add, upd, del)
		}
		if !s.Old.Valid && !s.New.Valid && acc {
			return "class-transition", fmt.Sprintf("ingress update %d between two versions outside the class was accepted", i)
		}
	}
	return "", ""
}

// describe gives the resource type and the name under which an event is described:
// namespace/name (name alone for cluster scoped objects), an EndpointSlice under the name of
// its service (label kubernetes.io/service-name).
func describe(s stepIn) (res, name string) {
	res = map[string]string{"ConfigMap": "ConfigMap", "Service": "Service", "Endpoints": "Endpoints", "EndpointSlice": "Endpoints",
		"Secret": "Secret", "Pod": "Pod", "Ingress": "Ingress", "IngressClass": "IngressClass",
		"GatewayA2": "Gateway", "GatewayB1": "Gateway", "GatewayV1": "Gateway",
		"GatewayClassA2": "GatewayClass", "GatewayClassB1": "GatewayClass", "GatewayClassV1": "GatewayClass",
		"HTTPRouteA2": "HTTPRoute", "HTTPRouteB1": "HTTPRoute", "HTTPRouteV1": "HTTPRoute", "TCPRouteA2": "TCPRoute"}[s.Kind]
	name = s.New.Name
	if s.Kind == "EndpointSlice" && s.New.Svc != "" {
		name = s.New.Svc
	}
	if s.New.NS != "" {
		name = s.New.NS + "/" + name
	}
	return
}

// ---------------------------------------------------------------- generator

type world struct {
	rng    *rand.Rand
	nextID int
	cur    map[string]*obj // kind + "|" + ns/name -> current version
	unique bool
	uniq   int
}

var nsPool = []string{"default", "ingress"}
var namePool = []string{"app", "echo", "cfg", "tcp", "pub"}

func clusterScoped(kind string) bool {
	return kind == "IngressClass" || strings.HasPrefix(kind, "GatewayClass")
}

func (w *world) fresh(kind string) *obj {
	w.nextID++
	o := &obj{ID: w.nextID}
	if w.unique {
		w.uniq++
		o.Name = fmt.Sprintf("u%04d", w.uniq)
		o.NS = nsPool[w.rng.Intn(len(nsPool))]
	} else {
		o.NS = nsPool[w.rng.Intn(len(nsPool))]
		o.Name = namePool[w.rng.Intn(len(namePool))]
	}
	if clusterScoped(kind) || (kind != "ConfigMap" && w.rng.Intn(12) == 0) {
		o.NS = ""
	}
	if kind == "ConfigMap" && !w.unique && w.rng.Intn(2) == 0 {
		// the two watched config maps
		o.NS = "ingress"
		o.Name = []string{"cfg", "tcp"}[w.rng.Intn(2)]
	}
	if kind == "EndpointSlice" {
		if w.unique {
			if w.rng.Intn(3) > 0 {
				w.uniq++
				o.Svc = fmt.Sprintf("u%04d", w.uniq)
			}
		} else if w.rng.Intn(3) > 0 {
			o.Svc = namePool[w.rng.Intn(len(namePool))]
		}
	}
	o.Gen = int64(1 + w.rng.Intn(3))
	o.Ann = w.rng.Intn(len(annVariants))
	o.Valid = w.rng.Intn(3) > 0
	switch kind {
	case "Endpoints", "EndpointSlice":
		o.Body = w.rng.Intn(3)
	case "Pod":
		if w.rng.Intn(2) == 0 {
			o.Body = 1000 + o.ID
		}
	case "ConfigMap":
		o.Data = w.rng.Intn(len(dataVariants))
	}
	return o
}

func (w *world) mutate(kind string, old *obj) *obj {
	w.nextID++
	n := *old
	n.ID = w.nextID
	if w.unique {
		// a new unique name: the link of the event is the name of the new object
		w.uniq++
		n.Name = fmt.Sprintf("u%04d", w.uniq)
		if n.Svc != "" {
			w.uniq++
			n.Svc = fmt.Sprintf("u%04d", w.uniq)
		}
	}
	if w.rng.Intn(2) == 0 {
		n.Gen += int64(w.rng.Intn(2))
	}
	if w.rng.Intn(3) == 0 {
		n.Ann = w.rng.Intn(len(annVariants))
	}
	if w.rng.Intn(3) == 0 {
		n.Valid = !n.Valid
	}
	switch kind {
	case "Endpoints", "EndpointSlice":
		if w.rng.Intn(2) == 0 {
			n.Body = w.rng.Intn(3)
		}
	case "Pod":
		switch w.rng.Intn(3) {
		case 0:
			n.Body = 1000 + n.ID // a new timestamp pointer
		case 1:
			n.Body = 0
		}
	case "ConfigMap":
		if w.rng.Intn(2) == 0 {
			n.Data = w.rng.Intn(len(dataVariants))
		}
	}
	return &n
}

func genCfg(rng *rand.Rand) cfgIn {
	c := cfgIn{CM: "ingress/cfg", TCP: "ingress/tcp"}
	switch rng.Intn(8) {
	case 0:
		c.TCP = ""
	case 1:
		c.TCP = "ingress/cfg" // same object for both: the global one wins
	case 2:
		c.CM = ""
	}
	if rng.Intn(2) == 0 {
		c.Publish = "ingress/pub"
	}
	c.Slice = rng.Intn(2) == 0
	c.A2, c.B1, c.V1, c.TCPR = rng.Intn(2) == 0, rng.Intn(2) == 0, rng.Intn(2) == 0, rng.Intn(2) == 0
	return c
}

var kindWeights = map[string]int{"Ingress": 6, "ConfigMap": 5, "Service": 3, "Secret": 2, "Endpoints": 2, "EndpointSlice": 2, "Pod": 2, "IngressClass": 2}

func genHistory(rng *rand.Rand, unique bool) input {
	in := input{Cfg: genCfg(rng), Unique: unique}
	w := &world{rng: rng, cur: map[string]*obj{}, unique: unique}
	var bag []string
	for _, k := range kinds {
		n := kindWeights[k]
		if n == 0 {
			n = 1
		}
		for i := 0; i < n; i++ {
			bag = append(bag, k)
		}
	}
	n := 5 + rng.Intn(30)
	for i := 0; i < n; i++ {
		if rng.Intn(6) == 0 {
			in.Steps = append(in.Steps, stepIn{Op: "swap"})
			continue
		}
		kind := bag[rng.Intn(len(bag))]
		if unique && kind == "ConfigMap" {
			kind = "Secret" // config maps are accepted by name only: not for the unique-name oracle
		}
		var s stepIn
		s.Kind = kind
		pick := func() *obj {
			// an existing version of an object of this kind, or a fresh one
			var ks []string
			for k := range w.cur {
				if strings.HasPrefix(k, kind+"|") {
					ks = append(ks, k)
				}
			}
			sort.Strings(ks)
			if len(ks) > 0 && rng.Intn(4) > 0 && !unique {
				return w.cur[ks[rng.Intn(len(ks))]]
			}
			return w.fresh(kind)
		}
		switch r := rng.Intn(10); {
		case r < 3:
			s.Op = "create"
			s.New = w.fresh(kind)
			w.cur[kind+"|"+s.New.NS+"/"+s.New.Name] = s.New
		case r < 8:
			s.Op = "update"
			s.Old = pick()
			s.New = w.mutate(kind, s.Old)
			if !unique && rng.Intn(15) == 0 {
				s.New = s.Old // a resync: same object on both sides
			}
			w.cur[kind+"|"+s.New.NS+"/"+s.New.Name] = s.New
		case r < 9:
			s.Op = "delete"
			s.New = pick()
			delete(w.cur, kind+"|"+s.New.NS+"/"+s.New.Name)
		default:
			s.Op = "generic"
			s.New = pick()
		}
		if unique && s.Op != "create" && s.Op != "update" {
			// unique mode: every event needs its own name
			s.New = w.fresh(kind)
		}
		in.Steps = append(in.Steps, s)
	}
	if rng.Intn(3) > 0 {
		in.Steps = append(in.Steps, stepIn{Op: "swap"})
	}
	return in
}

// corpus: hand-written histories that run first
func corpus() []input {
	cfg := cfgIn{CM: "ingress/cfg", TCP: "ingress/tcp", Slice: true, B1: true, V1: true}
	i1 := &obj{ID: 1, NS: "default", Name: "app", Gen: 1, Valid: true}
	i2 := &obj{ID: 2, NS: "default", Name: "app", Gen: 2, Valid: false}
	i3 := &obj{ID: 3, NS: "default", Name: "app", Gen: 3, Valid: true}
	c1 := &obj{ID: 4, NS: "ingress", Name: "cfg", Gen: 1, Data: 2}
	c2 := &obj{ID: 5, NS: "ingress", Name: "cfg", Gen: 1, Data: 3}
	c3 := &obj{ID: 6, NS: "ingress", Name: "cfg", Gen: 1, Data: 0}
	t1 := &obj{ID: 7, NS: "ingress", Name: "tcp", Gen: 1, Data: 5}
	s1 := &obj{ID: 8, NS: "default", Name: "tls", Gen: 0}
	m1 := &obj{ID: 101, NS: "ns1", Name: "ing1", Gen: 1, Valid: true}
	m2 := &obj{ID: 102, NS: "ns1", Name: "ing1", Gen: 1, Valid: true}
	sc := &obj{ID: 103, NS: "ns1", Name: "tls", Gen: 0}
	return []input{
		// an ingress created, deleted and created again between two swaps: three descriptions
		{Cfg: cfg, Steps: []stepIn{{Op: "swap"}, {Op: "create", Kind: "Ingress", New: m1}, {Op: "delete", Kind: "Ingress", New: m1}, {Op: "create", Kind: "Ingress", New: m2}, {Op: "swap"}}},
		// a secret created then updated
		{Cfg: cfg, Steps: []stepIn{{Op: "create", Kind: "Secret", New: sc}, {Op: "update", Kind: "Secret", Old: sc, New: sc}, {Op: "swap"}}},
		{Cfg: cfg, Steps: []stepIn{
			{Op: "create", Kind: "Ingress", New: i1}, {Op: "update", Kind: "ConfigMap", Old: c1, New: c1}, {Op: "swap"},
			{Op: "update", Kind: "Ingress", Old: i1, New: i2}, {Op: "update", Kind: "Secret", Old: s1, New: s1}, {Op: "swap"},
			{Op: "update", Kind: "ConfigMap", Old: c1, New: c2}, {Op: "create", Kind: "ConfigMap", New: t1}, {Op: "swap"},
			{Op: "update", Kind: "ConfigMap", Old: c2, New: c3}, {Op: "update", Kind: "Ingress", Old: i2, New: i3}, {Op: "swap"}, {Op: "swap"},
			// deleting the global ConfigMap delivers empty (non-nil) data
			{Op: "delete", Kind: "ConfigMap", New: c3}, {Op: "swap"}, {Op: "delete", Kind: "ConfigMap", New: t1}, {Op: "swap"}, {Op: "swap"},
		}}}
}

// ---------------------------------------------------------------- Coq printing

func coqObj(o *obj) string {
	data := "None"
	if o.Data > 0 {
		data = "(Some " + hx.N(o.Data) + ")"
	}
	return fmt.Sprintf("{| o_ns := %s; o_name := %s; o_svc := %s; o_id := %s; o_gen := %s; o_ann := %s; o_body := %s; o_valid := %s; o_data := %s |}",
		hx.Str(o.NS), hx.Str(o.Name), hx.Str(o.Svc), hx.N(o.ID), hx.Z(o.Gen), hx.N(annToken(o.Ann)), hx.N(o.Body), hx.Bool(o.Valid), data)
}

func tok(t int) string {
	if t < 0 {
		return "None"
	}
	return "(Some " + hx.N(t) + ")"
}

func coqBatch(b *batchObs) string {
	var lists []string
	for _, ln := range lnames {
		var ids []string
		for _, x := range b.Lists[ln] {
			if x < 0 {
				x = 999999
			}
			ids = append(ids, hx.N(x))
		}
		lists = append(lists, hx.Tuple(ln, hx.List(ids)))
	}
	var objs []string
	for _, e := range b.Objects {
		objs = append(objs, hx.Str(e))
	}
	var links []string
	for _, r := range hx.SortedKeys(b.Links) {
		var ns []string
		for _, n := range b.Links[r] {
			ns = append(ns, hx.Str(n))
		}
		links = append(links, hx.Tuple(hx.Str(r), hx.List(ns)))
	}
	return fmt.Sprintf("{| b_gcur := %s; b_gnew := %s; b_tcur := %s; b_tnew := %s; b_lists := %s; b_full := %s; b_objects := %s; b_links := %s |}",
		tok(b.Data[0]), tok(b.Data[1]), tok(b.Data[2]), tok(b.Data[3]), hx.List(lists), hx.Bool(b.Full), hx.List(objs), hx.List(links))
}

func coqCase(id int, in input, obs []stepObs, final []*batchObs) string {
	var steps, os []string
	for i, s := range in.Steps {
		if s.Op == "swap" {
			steps = append(steps, "Swap")
			os = append(os, "OSwap "+coqBatch(obs[i].Batch))
			continue
		}
		ty := map[string]string{"create": "ECreate", "update": "EUpdate", "delete": "EDelete", "generic": "EGeneric"}[s.Op]
		old := s.Old
		if old == nil {
			old = s.New
		}
		steps = append(steps, fmt.Sprintf("Ev {| e_kind := %s; e_type := %s; e_old := %s; e_new := %s |}", coqKind[s.Kind], ty, coqObj(old), coqObj(s.New)))
		var nt []string
		for _, x := range obs[i].Notifs {
			nt = append(nt, hx.Bool(x))
		}
		os = append(os, fmt.Sprintf("OEv %s %s", hx.N(obs[i].Accepted), hx.List(nt)))
	}
	var fin []string
	for _, b := range final {
		fin = append(fin, coqBatch(b))
	}
	c := in.Cfg
	return fmt.Sprintf("WC {| wid := %s; wcfg := {| cm_name := %s; tcp_name := %s; publish := %s; slice_api := %s; has_a2 := %s; has_b1 := %s; has_v1 := %s; has_tcp := %s |};\n   wsteps := %s;\n   wobs_l := %s;\n   wfinal := %s |}",
		hx.N(id), hx.Str(c.CM), hx.Str(c.TCP), hx.Str(c.Publish), hx.Bool(c.Slice), hx.Bool(c.A2), hx.Bool(c.B1), hx.Bool(c.V1), hx.Bool(c.TCPR),
		hx.List(steps), hx.List(os), hx.List(fin))
}

// ---------------------------------------------------------------- concurrent run

type concResult struct {
	Events       int    `json:"events"`
	Accepted     int    `json:"accepted"`
	Swaps        int    `json:"swaps"`
	NonEmpty     int    `json:"non_empty_batches"`
	Failure      string `json:"failure,omitempty"`
	Mutated      string `json:"mutated_after_delivery,omitempty"`
	MaxBatchSize int    `json:"max_batch_links"`
}

// concurrent fires events with unique names from `workers` goroutines while one goroutine
// swaps; every accepted event must be in exactly one batch, whose index lies between the
// number of swaps completed when the delivery started and the number completed when it
// returned (+1: a swap may have left the mutex without having been counted yet).
func concurrent(seed int64, workers, perWorker int) concResult {
	w := reconciler.VerifNewWatchers(context.Background(), mkConfig(cfgIn{CM: "ingress/cfg", TCP: "ingress/tcp", Slice: true, V1: true}), validator{})
	type ev struct {
		name     string
		accepted int
		c0, c1   int64
		ing      *networking.Ingress
	}
	var completed int64
	var batches []*convtypes.ChangedObjects // kept exactly as returned
	type csnap struct {
		objects []string
		links   map[string][]string
		ingAdd  []*networking.Ingress
	}
	var snaps []csnap // deep copies taken by the swapper right after each Swap, as a reconciliation would read it
	snapshot := func(b *convtypes.ChangedObjects) csnap {
		c := csnap{objects: append([]string{}, b.Objects...), links: map[string][]string{}, ingAdd: append([]*networking.Ingress{}, b.IngressesAdd...)}
		for r, ns := range b.Links {
			c.links[string(r)] = append([]string{}, ns...)
		}
		return c
	}
	stop := make(chan struct{})
	swapperDone := make(chan struct{})
	go func() {
		defer close(swapperDone)
		for {
			select {
			case <-stop:
				return
			default:
			}
			b := w.Swap()
			batches = append(batches, b)
			snaps = append(snaps, snapshot(b))
			atomic.AddInt64(&completed, 1)
			time.Sleep(time.Duration(20+len(batches)%7*15) * time.Microsecond)
		}
	}()
	evs := make([][]ev, workers)
	var wg sync.WaitGroup
	for g := 0; g < workers; g++ {
		wg.Add(1)
		go func(g int) {
			defer wg.Done()
			rng := rand.New(rand.NewSource(seed*1000 + int64(g)))
			for i := 0; i < perWorker; i++ {
				name := fmt.Sprintf("g%d-e%05d", g, i)
				e := ev{name: name}
				e.c0 = atomic.LoadInt64(&completed)
				switch rng.Intn(5) {
				case 0:
					e.accepted = w.FireCreate(&api.Secret{ObjectMeta: metav1.ObjectMeta{Namespace: "default", Name: name}})
				case 1:
					valid := map[string]string{"valid": "true"}
					if rng.Intn(4) == 0 {
						valid = nil
					}
					e.ing = &networking.Ingress{ObjectMeta: metav1.ObjectMeta{Namespace: "default", Name: name, Labels: valid}}
					e.accepted = w.FireCreate(e.ing)
				case 2:
					old := &api.Service{ObjectMeta: metav1.ObjectMeta{Namespace: "default", Name: name, Generation: 1}}
					cur := &api.Service{ObjectMeta: metav1.ObjectMeta{Namespace: "default", Name: name, Generation: int64(1 + rng.Intn(2))}}
					e.accepted = w.FireUpdate(old, cur)
				case 3:
					e.accepted = w.FireDelete(&gatewayv1.HTTPRoute{ObjectMeta: metav1.ObjectMeta{Namespace: "default", Name: name}})
				case 4:
					e.accepted = w.FireCreate(&api.Pod{ObjectMeta: metav1.ObjectMeta{Namespace: "default", Name: name}})
				}
				e.c1 = atomic.LoadInt64(&completed)
				evs[g] = append(evs[g], e)
				if rng.Intn(8) == 0 {
					time.Sleep(time.Duration(rng.Intn(30)) * time.Microsecond)
				}
			}
		}(g)
	}
	wg.Wait()
	close(stop)
	<-swapperDone
	last := w.Swap()
	batches = append(batches, last)
	snaps = append(snaps, snapshot(last))
	res := concResult{Swaps: len(batches)}
	// delivered batches read again now, after every later event: unchanged
	for k, b := range batches {
		cur := snapshot(b)
		if !reflect.DeepEqual(cur.objects, snaps[k].objects) || !reflect.DeepEqual(cur.links, snaps[k].links) || !reflect.DeepEqual(cur.ingAdd, snaps[k].ingAdd) {
			res.Mutated = fmt.Sprintf("batch %d of %d read again at the end differs from what was delivered (Objects %d -> %d entries, first difference %s)", k, len(batches), len(snaps[k].objects), len(cur.objects), firstDiff(snaps[k].objects, cur.objects))
			break
		}
	}
	where := map[string][]int{}
	whereObj := map[string][]int{}
	ingWhere := map[*networking.Ingress][]int{}
	for k, b := range batches {
		n := 0
		for _, ns := range b.Links {
			for _, nm := range ns {
				where[nm] = append(where[nm], k)
				n++
			}
		}
		if n > 0 {
			res.NonEmpty++
		}
		if n > res.MaxBatchSize {
			res.MaxBatchSize = n
		}
		for _, ing := range b.IngressesAdd {
			ingWhere[ing] = append(ingWhere[ing], k)
		}
		for _, e := range b.Objects {
			if j := strings.Index(e, ":"); j >= 0 {
				whereObj[e[j+1:]] = append(whereObj[e[j+1:]], k)
			}
		}
	}
	for g := range evs {
		for _, e := range evs[g] {
			res.Events++
			got := where["default/"+e.name]
			gotObj := whereObj["default/"+e.name]
			if e.accepted == 0 {
				if len(got) != 0 || len(gotObj) != 0 {
					res.Failure = fmt.Sprintf("rejected event %s is in batches %v (links) %v (objects)", e.name, got, gotObj)
				}
				continue
			}
			res.Accepted++
			if len(got) != 1 {
				res.Failure = fmt.Sprintf("accepted event %s is in batches %v (lost or duplicated)", e.name, got)
				continue
			}
			if len(gotObj) != 1 || gotObj[0] != got[0] {
				res.Failure = fmt.Sprintf("accepted event %s has its link in batch %d and its object entry in batches %v (lost, duplicated or overwritten)", e.name, got[0], gotObj)
				continue
			}
			if int64(got[0]) < e.c0 || int64(got[0]) > e.c1+1 {
				res.Failure = fmt.Sprintf("event %s delivered while swaps %d..%d completed is in batch %d", e.name, e.c0, e.c1, got[0])
			}
			if e.ing != nil {
				if iw := ingWhere[e.ing]; len(iw) != 1 || iw[0] != got[0] {
					res.Failure = fmt.Sprintf("ingress %s has its link in batch %d and its object in batches %v", e.name, got[0], iw)
				}
			}
		}
	}
	return res
}

func firstDiff(a, b []string) string {
	for i := 0; i < len(a) && i < len(b); i++ {
		if a[i] != b[i] {
			return fmt.Sprintf("[%d] %q -> %q", i, a[i], b[i])
		}
	}
	return fmt.Sprintf("lengths %d -> %d", len(a), len(b))
}

// raceRun builds this harness with the race detector and runs the concurrent scenario in it.
func raceRun(o *hx.Opts) map[string]interface{} {
	out := map[string]interface{}{}
	bin := filepath.Join(o.Out, "c14race")
	cmd := exec.Command("go", "build", "-race", "-tags", "verif", "-o", bin, "./cmd/c14")
	cmd.Env = append(os.Environ(), "CGO_ENABLED=1")
	if b, err := cmd.CombinedOutput(); err != nil {
		out["skipped"] = "go build -race failed (needs cgo): " + strings.TrimSpace(string(b))
		return out
	}
	run := exec.Command(bin, "--out", filepath.Join(o.Out, "race"), "--seed", fmt.Sprint(o.Seed), "--concurrent-only")
	b, err := run.CombinedOutput()
	out["output"] = string(b)
	if err != nil {
		out["error"] = err.Error()
	}
	out["data_race_reported"] = strings.Contains(string(b), "DATA RACE")
	return out
}

var concurrentOnly = flag.Bool("concurrent-only", false, "run only the concurrent scenario and print its result (used for the -race build)")

// ---------------------------------------------------------------- main

func main() {
	o := hx.Parse()
	if *concurrentOnly {
		r := concurrent(o.Seed, 8, 4000)
		b, _ := json.Marshal(r)
		fmt.Println(string(b))
		lr := legConcurrent(o.Seed, 8, 4000)
		b, _ = json.Marshal(lr)
		fmt.Println(string(b))
		if r.Failure != "" || r.Mutated != "" || lr.Failure != "" {
			os.Exit(3)
		}
		return
	}
	rng := o.Rng()
	res := hx.NewResult("C14", "sequential histories of 5..35 create/update/delete/generic events over all 18 handled kinds (pooled names incl. the two watched ConfigMaps and the publish service, or unique names per event) with swaps interleaved, random controller configuration (gateway API versions, EndpointSlice API, ConfigMap names), fired through the real watchers; non-trivial = at least two non-empty batches; distinct by canonical text of the history")
	cw := hx.NewCaseWriter(o, res, "From HI Require Import Corr.Corr_C14.", "ccase14", 120)

	var inputs []input
	var leginputs []legInput
	replayConcurrent := false
	if o.Replay != "" {
		var probe struct {
			Legacy     bool `json:"legacy"`
			Concurrent bool `json:"concurrent"`
		}
		hx.ReadReplay(o.Replay, &probe)
		if probe.Concurrent {
			replayConcurrent = true // concurrent streams are not step-by-step replayable: run them again
		} else if probe.Legacy {
			var in legInput
			hx.ReadReplay(o.Replay, &in)
			leginputs = append(leginputs, in)
		} else {
			var in input
			hx.ReadReplay(o.Replay, &in)
			inputs = append(inputs, in)
		}
	} else {
		leginputs = append(leginputs, legCorpus()...)
		nl := o.Count(350, 3000)
		if o.Search {
			nl = o.Count(8000, 40000)
		}
		if o.N > 0 {
			nl = o.N / 3
		}
		for i := 0; i < nl; i++ {
			leginputs = append(leginputs, genLegacy(rng, i%3 == 0))
		}
		inputs = append(inputs, corpus()...)
		n := o.Count(1000, 6000)
		if o.Search {
			n = o.Count(20000, 100000)
		}
		for i := 0; i < n; i++ {
			inputs = append(inputs, genHistory(rng, i%3 == 0))
		}
	}
	for _, in := range inputs {
		obs, final, mutated, other := run(in)
		nonEmpty, accepted := 0, 0
		for i, s := range in.Steps {
			if s.Op == "swap" {
				if len(obs[i].Batch.Objects) > 0 {
					nonEmpty++
				}
			} else {
				res.Count("event=" + s.Op)
				res.Count("kind=" + s.Kind)
				if obs[i].Accepted > 0 {
					accepted++
					res.Count("accepted=yes")
				} else {
					res.Count("accepted=no")
				}
			}
		}
		b, _ := json.Marshal(in)
		res.Seen(string(b), nonEmpty >= 2)
		if in.Unique {
			res.Count("names=unique")
		} else {
			res.Count("names=pooled")
		}
		res.Count(fmt.Sprintf("non_empty_batches=%d", min(nonEmpty, 5)))
		if o.Replay != "" || (len(res.Samples) < 3 && nonEmpty >= 2 && len(in.Steps) < 12) {
			res.Sample(5, map[string]interface{}{"input": in, "observed": obs})
		}
		res.OracleChecks++
		if k, what := oracle(in, obs); k != "" {
			res.Count("oracle_fail_" + k)
			res.Fail(hx.Failure{Key: "C14/" + k, What: what, Input: in, Observed: obs})
		}
		// a delivered batch must not change while the rest of the history is fired
		if mutated != "" {
			res.Count("oracle_fail_batch-mutated-after-delivery")
			res.Fail(hx.Failure{Key: "C14/batch-mutated-after-delivery", What: mutated, Input: in, Observed: map[string]interface{}{"at_delivery": obs, "read_again_at_the_end": final}})
		}
		// and the partition property must hold of the batches as a reconciliation reads them later
		obsEnd := append([]stepObs{}, obs...)
		nb := 0
		for i, s := range in.Steps {
			if s.Op == "swap" {
				obsEnd[i].Batch = final[nb]
				nb++
			}
		}
		if k, what := oracle(in, obsEnd); k != "" {
			res.Count("oracle_fail_late_" + k)
			res.Fail(hx.Failure{Key: "C14/" + k, What: "batches read again at the end of the history: " + what, Input: in, Observed: obsEnd})
		}
		if other > 0 {
			res.Count("lists_outside_model_filled")
			res.Fail(hx.Failure{Key: "C14/unmodelled-list", What: "a per-kind list that no handler fills in the model was not empty", Input: in, Observed: obs})
		}
		if !o.Search {
			in, obs, final := in, obs, final
			cw.Add(func(id int) string { return coqCase(id, in, obs, final) }, in)
		}
	}
	// the legacy controller's event path
	for _, in := range leginputs {
		obs, final, mutated, notifs, wantNotifs := legRun(in)
		var batches []*legBatch
		stepBatch := map[int]int{}
		nonEmpty := 0
		for i, s := range in.Steps {
			if s.Op == "swap" {
				batches = append(batches, obs[i].Batch)
				if len(obs[i].Batch.Objects) > 0 {
					nonEmpty++
				}
			} else {
				stepBatch[i] = len(batches)
				res.Count("legacy notify kind=" + s.Kind)
			}
		}
		res.Seen(legJSON(in), nonEmpty >= 2)
		res.Count("legacy history")
		if o.Replay != "" || (len(res.Samples) < 5 && nonEmpty >= 2 && len(in.Steps) < 12) {
			res.Sample(5, map[string]interface{}{"legacy_input": in, "observed": obs})
		}
		res.OracleChecks++
		if k, what := legOracle(in, batches, stepBatch); k != "" {
			res.Count("oracle_fail_legacy_" + k)
			res.Fail(hx.Failure{Key: "C14/legacy/" + k, What: what, Input: in, Observed: obs})
		} else if k, what := legOracle(in, final, stepBatch); k != "" {
			res.Count("oracle_fail_legacy_late_" + k)
			res.Fail(hx.Failure{Key: "C14/legacy/" + k, What: "batches read again at the end of the history: " + what, Input: in, Observed: final})
		}
		if mutated != "" {
			res.Fail(hx.Failure{Key: "C14/legacy/batch-mutated-after-delivery", What: mutated, Input: in, Observed: map[string]interface{}{"at_delivery": obs, "read_again_at_the_end": final}})
		}
		if notifs != wantNotifs {
			res.Fail(hx.Failure{Key: "C14/legacy/notification", What: fmt.Sprintf("%d reconciliations were asked for, %d events arrived while nothing was pending", notifs, wantNotifs), Input: in})
		}
		if !o.Search {
			in, obs, final, notifs := in, obs, final, notifs
			cw.Add(func(id int) string { return coqLegCase(id, in, obs, final, notifs) }, in)
		}
	}
	cw.Flush()

	if o.Replay == "" || replayConcurrent {
		// concurrent deliveries and swaps: partition property on real interleavings
		rounds, per := 3, 1500
		if o.Thorough() {
			rounds, per = 20, 4000
		}
		var crs []concResult
		for r := 0; r < rounds; r++ {
			cr := concurrent(o.Seed+int64(r), 8, per)
			crs = append(crs, cr)
			res.OracleChecks++
			if cr.Mutated != "" {
				res.Fail(hx.Failure{Key: "C14/batch-mutated-after-delivery", What: "concurrent run: " + cr.Mutated, Input: map[string]interface{}{"concurrent": true, "seed": o.Seed + int64(r), "workers": 8, "per_worker": per}})
			}
			if cr.Failure != "" {
				res.Fail(hx.Failure{Key: "C14/concurrent-partition", What: cr.Failure, Input: map[string]interface{}{"concurrent": true, "seed": o.Seed + int64(r), "workers": 8, "per_worker": per}})
			}
		}
		res.Extra["concurrent_runs"] = crs
		// the same for the legacy path: Notify from 8 goroutines, SwapChangedObjects from one
		var lcrs []legConcResult
		for r := 0; r < rounds; r++ {
			lr := legConcurrent(o.Seed+int64(r), 8, per)
			lcrs = append(lcrs, lr)
			res.OracleChecks++
			if lr.Failure != "" {
				res.Fail(hx.Failure{Key: "C14/legacy/concurrent-partition", What: fmt.Sprintf("%s (%d of %d events in no batch, %d in several, %d swaps)", lr.Failure, lr.Lost, lr.Events, lr.Dup, lr.Swaps),
					Input: map[string]interface{}{"concurrent": true, "legacy": true, "seed": o.Seed + int64(r), "workers": 8, "per_worker": per}})
			}
		}
		res.Extra["legacy_concurrent_runs"] = lcrs
		if o.Thorough() {
			rr := raceRun(o)
			res.Extra["race_detector_run"] = rr
			if rr["data_race_reported"] == true || rr["error"] != nil {
				res.Fail(hx.Failure{Key: "C14/data-race", What: "the race-detector build of the concurrent scenario reported a data race or failed", Input: map[string]interface{}{"concurrent": true, "race": true, "seed": o.Seed}, Observed: rr})
			}
		} else {
			res.Extra["race_detector_run"] = "thorough tier only"
		}
	}
	res.Write(o)
}
