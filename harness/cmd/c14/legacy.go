package main

// The legacy controller's event path (pkg/controller/legacy/cache.go): the REAL
// k8scache.Notify, called by the listers on every event, fills c.changed; the REAL
// k8scache.SwapChangedObjects, called by a reconciliation, describes the batch and hands it
// over (hook VerifNewLegacyEvents). Sequential histories are compared with
// Model/WatchLegacy.v inside Coq and checked by a direct oracle; a concurrent stream
// (goroutines calling Notify with uniquely named events of all kinds while one goroutine
// swaps) checks that every event is in exactly one delivered batch, that the ConfigMap data
// chains and that nothing is left behind -- i.e. it TESTS the atomicity of Notify and of the
// swap that the model assumes.

import (
	"encoding/json"
	"fmt"
	"math/rand"
	"reflect"
	"sort"
	"strings"
	"sync"
	"sync/atomic"
	"time"

	api "k8s.io/api/core/v1"
	discoveryv1 "k8s.io/api/discovery/v1"
	networking "k8s.io/api/networking/v1"
	metav1 "k8s.io/apimachinery/pkg/apis/meta/v1"
	"k8s.io/client-go/tools/cache"
	"sigs.k8s.io/controller-runtime/pkg/client"
	gatewayv1alpha2 "sigs.k8s.io/gateway-api/apis/v1alpha2"

	"github.com/jcmoraisjr/haproxy-ingress/pkg/controller/legacy"
	convtypes "github.com/jcmoraisjr/haproxy-ingress/pkg/converters/types"

	"verif/harness/lib/hx"
)

var legKinds = []string{"Ingress", "IngressClass", "GatewayA2", "GatewayClassA2", "HTTPRouteA2",
	"Service", "Secret", "ConfigMap", "Endpoints", "EndpointSlice", "Pod", "Unknown"}

type lobjIn struct {
	ID   int    `json:"id"`
	NS   string `json:"ns"`
	Name string `json:"name"`
	Svc  string `json:"svc,omitempty"`
	Data int    `json:"data"` // ConfigMap.Data variant: 0 = nil, 1 = empty, 2.. contents
}

type legStep struct {
	Op   string  `json:"op"` // notify | swap
	Kind string  `json:"kind,omitempty"`
	Old  *lobjIn `json:"old,omitempty"`
	Cur  *lobjIn `json:"cur,omitempty"`
}

type legInput struct {
	Legacy bool      `json:"legacy"`
	GKey   string    `json:"global_configmap_key"`
	TKey   string    `json:"tcp_configmap_key"`
	Unique bool      `json:"unique_names"`
	Steps  []legStep `json:"steps"`
}

type legBuilder struct {
	objs map[int]interface{}
	ids  map[interface{}]int
}

func (b *legBuilder) build(kind string, o *lobjIn) interface{} {
	if o == nil {
		return nil
	}
	if c, ok := b.objs[o.ID]; ok {
		return c
	}
	meta := metav1.ObjectMeta{Namespace: o.NS, Name: o.Name}
	if o.Svc != "" {
		meta.Labels = map[string]string{"kubernetes.io/service-name": o.Svc}
	}
	var c interface{}
	switch kind {
	case "Ingress":
		c = &networking.Ingress{ObjectMeta: meta}
	case "IngressClass":
		c = &networking.IngressClass{ObjectMeta: meta}
	case "GatewayA2":
		c = &gatewayv1alpha2.Gateway{ObjectMeta: meta}
	case "GatewayClassA2":
		c = &gatewayv1alpha2.GatewayClass{ObjectMeta: meta}
	case "HTTPRouteA2":
		c = &gatewayv1alpha2.HTTPRoute{ObjectMeta: meta}
	case "Service":
		c = &api.Service{ObjectMeta: meta}
	case "Secret":
		c = &api.Secret{ObjectMeta: meta}
	case "ConfigMap":
		c = &api.ConfigMap{ObjectMeta: meta, Data: copyMap(dataVariants[o.Data%len(dataVariants)])}
	case "Endpoints":
		c = &api.Endpoints{ObjectMeta: meta}
	case "EndpointSlice":
		c = &discoveryv1.EndpointSlice{ObjectMeta: meta}
	case "Pod":
		c = &api.Pod{ObjectMeta: meta}
	case "Unknown":
		c = cache.DeletedFinalStateUnknown{Key: o.NS + "/" + o.Name, Obj: &api.Pod{ObjectMeta: meta}}
		b.objs[o.ID] = c
		return c
	default:
		panic("legacy kind " + kind)
	}
	b.objs[o.ID] = c
	b.ids[c] = o.ID
	return c
}

var llistNames = []string{"LIngDel", "LIngUpd", "LIngAdd", "LClsDel", "LClsUpd", "LClsAdd",
	"LGwDel", "LGwUpd", "LGwAdd", "LGwcDel", "LGwcUpd", "LGwcAdd", "LHrDel", "LHrUpd", "LHrAdd",
	"LEpNew", "LEpsUpd", "LSvcDel", "LSvcUpd", "LSvcAdd", "LSecDel", "LSecUpd", "LSecAdd",
	"LCmDel", "LCmUpd", "LCmAdd", "LPodNew"}

type legBatch struct {
	Data    [4]int              `json:"data_cur_new_tcpcur_tcpnew"`
	Lists   map[string][]int    `json:"lists"`
	Full    bool                `json:"full"`
	Objects []string            `json:"objects"`
	Links   map[string][]string `json:"links"`
	Other   int                 `json:"other_lists"`
}

func lids[T any](ids map[interface{}]int, l []T) []int {
	out := []int{}
	for _, o := range l {
		id, ok := ids[interface{}(o)]
		if !ok {
			id = -1
		}
		out = append(out, id)
	}
	return out
}

func legProject(ids map[interface{}]int, ch *convtypes.ChangedObjects) *legBatch {
	o := &legBatch{Lists: map[string][]int{}, Links: map[string][]string{}}
	o.Data = [4]int{dataToken(ch.GlobalConfigMapDataCur), dataToken(ch.GlobalConfigMapDataNew), dataToken(ch.TCPConfigMapDataCur), dataToken(ch.TCPConfigMapDataNew)}
	o.Lists["LIngDel"], o.Lists["LIngUpd"], o.Lists["LIngAdd"] = lids(ids, ch.IngressesDel), lids(ids, ch.IngressesUpd), lids(ids, ch.IngressesAdd)
	o.Lists["LClsDel"], o.Lists["LClsUpd"], o.Lists["LClsAdd"] = lids(ids, ch.IngressClassesDel), lids(ids, ch.IngressClassesUpd), lids(ids, ch.IngressClassesAdd)
	o.Lists["LGwDel"], o.Lists["LGwUpd"], o.Lists["LGwAdd"] = lids(ids, ch.GatewaysA2Del), lids(ids, ch.GatewaysA2Upd), lids(ids, ch.GatewaysA2Add)
	o.Lists["LGwcDel"], o.Lists["LGwcUpd"], o.Lists["LGwcAdd"] = lids(ids, ch.GatewayClassesA2Del), lids(ids, ch.GatewayClassesA2Upd), lids(ids, ch.GatewayClassesA2Add)
	o.Lists["LHrDel"], o.Lists["LHrUpd"], o.Lists["LHrAdd"] = lids(ids, ch.HTTPRoutesA2Del), lids(ids, ch.HTTPRoutesA2Upd), lids(ids, ch.HTTPRoutesA2Add)
	o.Lists["LEpNew"], o.Lists["LEpsUpd"] = lids(ids, ch.EndpointsNew), lids(ids, ch.EndpointSlicesUpd)
	o.Lists["LSvcDel"], o.Lists["LSvcUpd"], o.Lists["LSvcAdd"] = lids(ids, ch.ServicesDel), lids(ids, ch.ServicesUpd), lids(ids, ch.ServicesAdd)
	o.Lists["LSecDel"], o.Lists["LSecUpd"], o.Lists["LSecAdd"] = lids(ids, ch.SecretsDel), lids(ids, ch.SecretsUpd), lids(ids, ch.SecretsAdd)
	o.Lists["LCmDel"], o.Lists["LCmUpd"], o.Lists["LCmAdd"] = lids(ids, ch.ConfigMapsDel), lids(ids, ch.ConfigMapsUpd), lids(ids, ch.ConfigMapsAdd)
	o.Lists["LPodNew"] = lids(ids, ch.PodsNew)
	o.Other = len(ch.GatewaysB1Add) + len(ch.GatewaysB1Upd) + len(ch.GatewaysB1Del) + len(ch.GatewayClassesB1Add) + len(ch.GatewayClassesB1Upd) + len(ch.GatewayClassesB1Del) +
		len(ch.HTTPRoutesB1Add) + len(ch.HTTPRoutesB1Upd) + len(ch.HTTPRoutesB1Del)
	o.Full = ch.NeedFullSync
	o.Objects = append([]string{}, ch.Objects...)
	for r, ns := range ch.Links {
		o.Links[string(r)] = append([]string{}, ns...)
	}
	return o
}

type legObs struct {
	Clear bool      `json:"clear_after"`
	Batch *legBatch `json:"batch,omitempty"`
}

// legRun fires a sequential history on the real legacy path. Delivered batches are kept as
// returned and read again at every later swap and at the end.
func legRun(in legInput) (obs []legObs, final []*legBatch, mutated string, notifs, wantNotifs int) {
	b := &legBuilder{objs: map[int]interface{}{}, ids: map[interface{}]int{}}
	v := legacy.VerifNewLegacyEvents(in.GKey, in.TKey, 0)
	type dlv struct {
		ch   *convtypes.ChangedObjects
		snap *legBatch
		step int
	}
	var dl []dlv
	reread := func(at string) {
		for k, d := range dl {
			cur := legProject(b.ids, d.ch)
			if !reflect.DeepEqual(cur, d.snap) && mutated == "" {
				mutated = fmt.Sprintf("legacy batch %d (delivered by step %d) read again %s differs from what was delivered", k, d.step, at)
			}
		}
	}
	for i, s := range in.Steps {
		var so legObs
		if s.Op == "swap" {
			ch := v.SwapChangedObjects()
			so.Batch = legProject(b.ids, ch)
			reread(fmt.Sprintf("at the swap of step %d", i))
			dl = append(dl, dlv{ch: ch, snap: so.Batch, step: i})
		} else {
			if v.Clear() {
				wantNotifs++ // model-free: Notify asks for a reconciliation when nothing was pending
			}
			v.Notify(b.build(s.Kind, s.Old), b.build(s.Kind, s.Cur))
		}
		so.Clear = v.Clear()
		obs = append(obs, so)
	}
	reread("at the end of the history")
	for _, d := range dl {
		final = append(final, legProject(b.ids, d.ch))
	}
	// time.AfterFunc(waitBeforeUpdate = 0): the notifications arrive from timer goroutines
	deadline := time.Now().Add(2 * time.Second)
	for v.Notifications() != wantNotifs && time.Now().Before(deadline) {
		time.Sleep(50 * time.Microsecond)
	}
	notifs = v.Notifications()
	return
}

// leaves tells whether a Notify is meant to leave a trace in the batch: any current object,
// or the removal of an object of a kind whose removals are tracked.
func leaves(s legStep) (token string, id int, ok bool) {
	if s.Kind == "Unknown" {
		return "", 0, false
	}
	if s.Cur != nil {
		t := s.Cur.Name
		if s.Kind == "EndpointSlice" {
			t = s.Cur.Svc
		}
		return t, s.Cur.ID, true
	}
	if s.Old != nil {
		switch s.Kind {
		case "Ingress", "IngressClass", "GatewayA2", "GatewayClassA2", "HTTPRouteA2", "Service", "Secret", "ConfigMap":
			return s.Old.Name, s.Old.ID, true
		}
	}
	return "", 0, false
}

// legOracle: ConfigMap chain on every history; on unique-name histories every event that
// leaves a trace has its object in exactly one slice of exactly one batch (the next one
// swapped), its name once in Objects and once in Links of that batch and nowhere else.
func legOracle(in legInput, batches []*legBatch, stepBatch map[int]int) (key, what string) {
	prevG, prevT := -1, -1
	for k, b := range batches {
		if b.Data[0] != prevG || b.Data[2] != prevT {
			return "configmap-chain", fmt.Sprintf("legacy batch %d sees ConfigMap data (global %d, tcp %d) as current, the previous batches delivered (%d, %d)", k, b.Data[0], b.Data[2], prevG, prevT)
		}
		if b.Data[1] != -1 {
			prevG = b.Data[1]
		}
		if b.Data[3] != -1 {
			prevT = b.Data[3]
		}
		if b.Other != 0 {
			return "unmodelled-list", fmt.Sprintf("legacy batch %d has objects in slices Notify never fills", k)
		}
	}
	if !in.Unique {
		return "", ""
	}
	for i, s := range in.Steps {
		if s.Op == "swap" {
			continue
		}
		token, id, ok := leaves(s)
		var inLists, inObjects, inLinks []int
		idOld := -1
		if s.Old != nil {
			idOld = s.Old.ID
		}
		for k, b := range batches {
			for _, ids := range b.Lists {
				for _, x := range ids {
					if (ok && x == id) || (!ok && ((idOld >= 0 && x == idOld) || (s.Cur != nil && x == s.Cur.ID))) {
						inLists = append(inLists, k)
					}
				}
			}
			if token != "" {
				for _, e := range b.Objects {
					if strings.HasSuffix(e, ":"+token) || strings.HasSuffix(e, "/"+token) {
						inObjects = append(inObjects, k)
					}
				}
				for _, ns := range b.Links {
					for _, nm := range ns {
						if nm == token || strings.HasSuffix(nm, "/"+token) {
							inLinks = append(inLinks, k)
						}
					}
				}
			}
		}
		want := []int{}
		if ok && stepBatch[i] < len(batches) {
			want = []int{stepBatch[i]}
		}
		if fmt.Sprint(inLists) != fmt.Sprint(want) || (token != "" && (fmt.Sprint(inObjects) != fmt.Sprint(want) || fmt.Sprint(inLinks) != fmt.Sprint(want))) {
			return "partition", fmt.Sprintf("legacy event %d (Notify %s old=%v cur=%v, name %s): object in batches %v, object list entry in %v, link in %v; expected %v", i, s.Kind, s.Old != nil, s.Cur != nil, token, inLists, inObjects, inLinks, want)
		}
	}
	return "", ""
}

// ---------------------------------------------------------------- generator

func genLegacy(rng *rand.Rand, unique bool) legInput {
	in := legInput{Legacy: true, GKey: "ingress/cfg", TKey: "ingress/tcp", Unique: unique}
	switch rng.Intn(8) {
	case 0:
		in.TKey = ""
	case 1:
		in.TKey = "ingress/cfg"
	}
	nextID, uniq := 0, 0
	cur := map[string]*lobjIn{}
	fresh := func(kind string) *lobjIn {
		nextID++
		o := &lobjIn{ID: nextID, NS: nsPool[rng.Intn(len(nsPool))]}
		if unique {
			uniq++
			o.Name = fmt.Sprintf("u%04d", uniq)
			uniq++
			if kind == "EndpointSlice" {
				o.Svc = fmt.Sprintf("u%04d", uniq)
			}
		} else {
			o.Name = namePool[rng.Intn(len(namePool))]
			if kind == "EndpointSlice" && rng.Intn(4) > 0 {
				o.Svc = namePool[rng.Intn(len(namePool))]
			}
			if kind == "ConfigMap" && rng.Intn(2) == 0 {
				o.NS, o.Name = "ingress", []string{"cfg", "tcp"}[rng.Intn(2)]
			}
		}
		if kind == "ConfigMap" {
			o.Data = rng.Intn(len(dataVariants))
		}
		return o
	}
	n := 5 + rng.Intn(30)
	for i := 0; i < n; i++ {
		if rng.Intn(6) == 0 {
			in.Steps = append(in.Steps, legStep{Op: "swap"})
			continue
		}
		kind := legKinds[rng.Intn(len(legKinds))]
		if rng.Intn(3) == 0 {
			kind = []string{"Ingress", "ConfigMap", "Service", "Secret", "Endpoints"}[rng.Intn(5)]
		}
		if unique && kind == "ConfigMap" {
			kind = "Secret"
		}
		s := legStep{Op: "notify", Kind: kind}
		key := func(o *lobjIn) string { return kind + "|" + o.NS + "/" + o.Name }
		pick := func() *lobjIn {
			var ks []string
			for k := range cur {
				if strings.HasPrefix(k, kind+"|") {
					ks = append(ks, k)
				}
			}
			sort.Strings(ks)
			if !unique && len(ks) > 0 && rng.Intn(3) > 0 {
				return cur[ks[rng.Intn(len(ks))]]
			}
			return fresh(kind)
		}
		switch r := rng.Intn(20); {
		case r < 6: // add
			s.Cur = fresh(kind)
			cur[key(s.Cur)] = s.Cur
		case r < 14: // update
			s.Old = pick()
			nextID++
			c := *s.Old
			c.ID = nextID
			if unique {
				uniq++
				c.Name = fmt.Sprintf("u%04d", uniq)
				if c.Svc != "" {
					uniq++
					c.Svc = fmt.Sprintf("u%04d", uniq)
				}
			}
			if kind == "ConfigMap" && rng.Intn(2) == 0 {
				c.Data = rng.Intn(len(dataVariants))
			}
			s.Cur = &c
			if !unique && rng.Intn(10) == 0 {
				s.Cur = s.Old // resync: same object on both sides
			}
			cur[key(s.Cur)] = s.Cur
		case r < 19: // delete
			s.Old = pick()
			delete(cur, key(s.Old))
		default: // Notify(nil, nil)
		}
		in.Steps = append(in.Steps, s)
	}
	if rng.Intn(3) > 0 {
		in.Steps = append(in.Steps, legStep{Op: "swap"})
	}
	return in
}

func legCorpus() []legInput {
	i1 := &lobjIn{ID: 1, NS: "default", Name: "app"}
	i2 := &lobjIn{ID: 2, NS: "default", Name: "app"}
	c1 := &lobjIn{ID: 3, NS: "ingress", Name: "cfg", Data: 2}
	c2 := &lobjIn{ID: 4, NS: "ingress", Name: "cfg", Data: 3}
	c3 := &lobjIn{ID: 5, NS: "ingress", Name: "cfg", Data: 0}
	t1 := &lobjIn{ID: 6, NS: "ingress", Name: "tcp", Data: 5}
	s1 := &lobjIn{ID: 7, NS: "default", Name: "tls"}
	e1 := &lobjIn{ID: 8, NS: "default", Name: "echo"}
	return []legInput{{Legacy: true, GKey: "ingress/cfg", TKey: "ingress/tcp", Steps: []legStep{
		{Op: "notify", Kind: "Ingress", Cur: i1}, {Op: "notify", Kind: "ConfigMap", Old: c1, Cur: c1}, {Op: "swap"},
		{Op: "notify", Kind: "Secret", Old: s1}, {Op: "notify", Kind: "Ingress", Old: i1, Cur: i2}, {Op: "notify", Kind: "Endpoints", Old: e1, Cur: e1}, {Op: "swap"},
		{Op: "notify", Kind: "ConfigMap", Old: c1, Cur: c2}, {Op: "notify", Kind: "ConfigMap", Cur: t1}, {Op: "swap"},
		{Op: "notify", Kind: "ConfigMap", Old: c2, Cur: c3}, {Op: "swap"}, {Op: "notify", Kind: "Ingress"}, {Op: "swap"}, {Op: "swap"},
	}}}
}

// ---------------------------------------------------------------- Coq printing

func coqLobj(o *lobjIn) string {
	if o == nil {
		return "None"
	}
	data := "None"
	if o.Data > 0 {
		data = "(Some " + hx.N(o.Data) + ")"
	}
	return fmt.Sprintf("(Some {| lo_ns := %s; lo_name := %s; lo_svc := %s; lo_id := %s; lo_data := %s |})", hx.Str(o.NS), hx.Str(o.Name), hx.Str(o.Svc), hx.N(o.ID), data)
}

func coqLegBatch(b *legBatch) string {
	var lists []string
	for _, ln := range llistNames {
		var ids []string
		for _, x := range b.Lists[ln] {
			if x < 0 {
				x = 999999
			}
			ids = append(ids, hx.N(x))
		}
		lists = append(lists, hx.Tuple(ln, hx.List(ids)))
	}
	var objs []string
	for _, e := range b.Objects {
		objs = append(objs, hx.Str(e))
	}
	var links []string
	for _, r := range hx.SortedKeys(b.Links) {
		var ns []string
		for _, n := range b.Links[r] {
			ns = append(ns, hx.Str(n))
		}
		links = append(links, hx.Tuple(hx.Str(r), hx.List(ns)))
	}
	return fmt.Sprintf("{| lb_gcur := %s; lb_gnew := %s; lb_tcur := %s; lb_tnew := %s; lb_lists := %s; lb_full := %s; lb_objects := %s; lb_links := %s |}",
		tok(b.Data[0]), tok(b.Data[1]), tok(b.Data[2]), tok(b.Data[3]), hx.List(lists), hx.Bool(b.Full), hx.List(objs), hx.List(links))
}

func coqLegCase(id int, in legInput, obs []legObs, final []*legBatch, notifs int) string {
	var steps, os []string
	for i, s := range in.Steps {
		if s.Op == "swap" {
			steps = append(steps, "LSwap")
			os = append(os, "LOSwap "+coqLegBatch(obs[i].Batch))
			continue
		}
		steps = append(steps, fmt.Sprintf("LEv {| l_kind := L%s; l_old := %s; l_cur := %s |}", s.Kind, coqLobj(s.Old), coqLobj(s.Cur)))
		os = append(os, "LOEv "+hx.Bool(obs[i].Clear))
	}
	var fin []string
	for _, b := range final {
		fin = append(fin, coqLegBatch(b))
	}
	return fmt.Sprintf("LG {| gid := %s; gcfg := {| lg_key := %s; lt_key := %s |};\n   gsteps := %s;\n   gobs := %s;\n   gfinal := %s; gnotifs := %s |}",
		hx.N(id), hx.Str(in.GKey), hx.Str(in.TKey), hx.List(steps), hx.List(os), hx.List(fin), hx.N(notifs))
}

// ---------------------------------------------------------------- concurrent legacy stream

type legConcResult struct {
	Events   int    `json:"events"`
	Swaps    int    `json:"swaps"`
	NonEmpty int    `json:"non_empty_batches"`
	Failure  string `json:"failure,omitempty"`
	Lost     int    `json:"events_in_no_batch"`
	Dup      int    `json:"events_in_several_batches"`
}

// legConcurrent: `workers` goroutines call the real Notify with uniquely named events of all
// kinds while one goroutine calls the real SwapChangedObjects. Every event must have its
// object in exactly one slice of exactly one batch -- with its object list entry and its
// link in that same batch -- whose index lies in the window of swaps completed around the
// Notify call; the global / tcp ConfigMap data must chain; nothing is left behind.
func legConcurrent(seed int64, workers, perWorker int) legConcResult {
	const gkey, tkey = "ingress/cfg", "ingress/tcp"
	v := legacy.VerifNewLegacyEvents(gkey, tkey, 50*time.Microsecond)
	type ev struct {
		name   string
		obj    interface{} // the pointer that must show up in a slice
		entry  bool        // has an object list entry / link under its name
		c0, c1 int64
		gseq   string // global ConfigMap update: its data
		tseq   string
	}
	var completed int64
	var batches []*convtypes.ChangedObjects
	stop := make(chan struct{})
	swapperDone := make(chan struct{})
	go func() {
		defer close(swapperDone)
		for {
			select {
			case <-stop:
				return
			default:
			}
			batches = append(batches, v.SwapChangedObjects())
			atomic.AddInt64(&completed, 1)
			time.Sleep(time.Duration(10+len(batches)%5*10) * time.Microsecond)
		}
	}()
	evs := make([][]ev, workers)
	var wg sync.WaitGroup
	for g := 0; g < workers; g++ {
		wg.Add(1)
		go func(g int) {
			defer wg.Done()
			rng := rand.New(rand.NewSource(seed*1000 + int64(g)))
			for i := 0; i < perWorker; i++ {
				name := fmt.Sprintf("g%d-e%05d", g, i)
				meta := metav1.ObjectMeta{Namespace: "ns1", Name: name}
				e := ev{name: name, entry: true}
				var old, cur interface{}
				switch rng.Intn(10) {
				case 0:
					o := &networking.Ingress{ObjectMeta: meta}
					cur, e.obj = o, o
				case 1:
					o := &networking.Ingress{ObjectMeta: meta}
					c := o.DeepCopy()
					old, cur, e.obj = o, c, c
				case 2:
					o := &networking.Ingress{ObjectMeta: meta}
					old, e.obj = o, o
				case 3:
					o := &api.Service{ObjectMeta: meta}
					old, e.obj = o, o
				case 4:
					o := &api.Service{ObjectMeta: meta}
					cur, e.obj = o, o
				case 5:
					o := &api.Endpoints{ObjectMeta: meta}
					old, cur, e.obj = o, o, o
				case 6:
					o := &api.Secret{ObjectMeta: meta}
					old, cur, e.obj = o, o, o
				case 7:
					o := &api.Pod{ObjectMeta: meta}
					old, cur, e.obj = o, o, o
				case 8:
					o := &api.ConfigMap{ObjectMeta: metav1.ObjectMeta{Namespace: "ingress", Name: "cfg"}, Data: map[string]string{"seq": name}}
					old, cur, e.obj, e.entry, e.gseq = o, o, o, false, name
				case 9:
					o := &api.ConfigMap{ObjectMeta: metav1.ObjectMeta{Namespace: "ingress", Name: "tcp"}, Data: map[string]string{"seq": name}}
					old, cur, e.obj, e.entry, e.tseq = o, o, o, false, name
				}
				e.c0 = atomic.LoadInt64(&completed)
				v.Notify(old, cur)
				e.c1 = atomic.LoadInt64(&completed)
				evs[g] = append(evs[g], e)
				if rng.Intn(16) == 0 {
					time.Sleep(time.Duration(rng.Intn(20)) * time.Microsecond)
				}
			}
		}(g)
	}
	wg.Wait()
	close(stop)
	<-swapperDone
	batches = append(batches, v.SwapChangedObjects())
	res := legConcResult{Swaps: len(batches)}
	left := v.SwapChangedObjects()

	whereObj := map[interface{}][]int{}
	whereEntry := map[string][]int{}
	whereLink := map[string][]int{}
	addAll := func(k int, b *convtypes.ChangedObjects) int {
		n := 0
		put := func(o interface{}) { whereObj[o] = append(whereObj[o], k); n++ }
		for _, o := range b.IngressesAdd {
			put(o)
		}
		for _, o := range b.IngressesUpd {
			put(o)
		}
		for _, o := range b.IngressesDel {
			put(o)
		}
		for _, o := range b.ServicesAdd {
			put(o)
		}
		for _, o := range b.ServicesUpd {
			put(o)
		}
		for _, o := range b.ServicesDel {
			put(o)
		}
		for _, o := range b.EndpointsNew {
			put(o)
		}
		for _, o := range b.SecretsAdd {
			put(o)
		}
		for _, o := range b.SecretsUpd {
			put(o)
		}
		for _, o := range b.SecretsDel {
			put(o)
		}
		for _, o := range b.PodsNew {
			put(o)
		}
		for _, o := range b.ConfigMapsAdd {
			put(o)
		}
		for _, o := range b.ConfigMapsUpd {
			put(o)
		}
		for _, o := range b.ConfigMapsDel {
			put(o)
		}
		for _, e := range b.Objects {
			if j := strings.Index(e, ":"); j >= 0 {
				whereEntry[e[j+1:]] = append(whereEntry[e[j+1:]], k)
			}
		}
		for _, ns := range b.Links {
			for _, nm := range ns {
				whereLink[nm] = append(whereLink[nm], k)
			}
		}
		return n
	}
	for k, b := range batches {
		if addAll(k, b) > 0 {
			res.NonEmpty++
		}
	}
	if n := addAll(len(batches), left); n > 0 || len(left.Objects) > 0 {
		res.Failure = fmt.Sprintf("%d objects were left behind after the last swap", n)
	}
	// ConfigMap chain: Cur of every batch is the last non-nil New delivered before (same map)
	var prevG, prevT map[string]string
	for k, b := range append(append([]*convtypes.ChangedObjects{}, batches...), left) {
		if !reflect.DeepEqual(b.GlobalConfigMapDataCur, prevG) || !reflect.DeepEqual(b.TCPConfigMapDataCur, prevT) {
			if res.Failure == "" {
				res.Failure = fmt.Sprintf("batch %d sees ConfigMap data (global %v, tcp %v) as current but the previous batches delivered (%v, %v)", k, b.GlobalConfigMapDataCur, b.TCPConfigMapDataCur, prevG, prevT)
			}
		}
		if b.GlobalConfigMapDataNew != nil {
			prevG = b.GlobalConfigMapDataNew
		}
		if b.TCPConfigMapDataNew != nil {
			prevT = b.TCPConfigMapDataNew
		}
	}
	for g := range evs {
		for _, e := range evs[g] {
			res.Events++
			got := whereObj[e.obj]
			if len(got) == 0 {
				res.Lost++
			}
			if len(got) > 1 {
				res.Dup++
			}
			if len(got) != 1 {
				if res.Failure == "" || strings.Contains(res.Failure, "ConfigMap data") {
					res.Failure = fmt.Sprintf("event %s (Notify while swaps %d..%d completed) has its object in batches %v of %d: want exactly one", e.name, e.c0, e.c1, got, len(batches))
				}
				continue
			}
			if int64(got[0]) < e.c0 || int64(got[0]) > e.c1+1 {
				res.Failure = fmt.Sprintf("event %s delivered while swaps %d..%d completed is in batch %d", e.name, e.c0, e.c1, got[0])
			}
			if e.entry {
				en, ln := whereEntry["ns1/"+e.name], whereLink["ns1/"+e.name]
				if len(en) != 1 || en[0] != got[0] || len(ln) != 1 || ln[0] != got[0] {
					res.Failure = fmt.Sprintf("event %s has its object in batch %d, its object list entry in %v and its link in %v", e.name, got[0], en, ln)
				}
			}
		}
	}
	return res
}

func legJSON(in legInput) string {
	b, _ := json.Marshal(in)
	return string(b)
}

var _ client.Object = (*api.Pod)(nil)
