// Dynamic-scaling histories of C05: the real Instance talks to lib/fakehaproxy through the
// admin socket, so endpoint changes that fit in the empty slots are applied through the
// runtime api (no reload) and the reloads that follow top up the empty slots of every
// backend (alignSlots). After every successful update every server line of every loaded
// backend (name, address, disabled, weight) must be the one of the in-memory model, and
// everything else what a fresh instance writes.  Oracle only: Model/ConfigSM.v abstracts a
// backend to its content version and does not model slots.
package main

import (
	"fmt"
	"math/rand"
	"os"
	"sort"

	"verif/harness/lib/cfgsm"
	"verif/harness/lib/fakehaproxy"
)

func dynBackend(rng *rand.Rand) B {
	b := B{Dyn: true, MinFree: []int{1, 2, 2, 3, 6}[rng.Intn(5)], Block: []int{0, 1, 1, 2, 4}[rng.Intn(5)]}
	for i, n := 0, 1+rng.Intn(2); i < n; i++ {
		b.Eps = append(b.Eps, 10+rng.Intn(40))
	}
	sort.Ints(b.Eps)
	return b
}

func genDyn(rng *rand.Rand, wide bool) History {
	h := History{Dyn: true, Shards: []int{3, 8, 8}[rng.Intn(3)]}
	cur := S{Hosts: map[string]H{}, Backends: map[string]B{}, TCP: map[string]cfgsm.TCPSpec{}}
	addHost := func() {
		i := rng.Intn(len(cfgsm.BackPool))
		hn, bn := fmt.Sprintf("h%d", i%5), cfgsm.BackPool[i]
		if _, ok := cur.Backends[bn]; !ok {
			cur.Backends[bn] = dynBackend(rng)
		}
		cur.Hosts[hn] = H{Paths: []P{{Path: "/", Backend: bn}}}
	}
	for i := 0; i < 2+rng.Intn(2); i++ {
		addHost()
	}
	cur.Normalize(false)
	h.Steps = append(h.Steps, cfgsm.Step{Full: true, State: cur.Clone()})
	n := 4 + rng.Intn(5)
	if wide {
		n = 5 + rng.Intn(10)
	}
	for s := 0; s < n; s++ {
		st := cfgsm.Step{}
		switch k := rng.Intn(10); {
		case k < 5: // scale one backend by one endpoint (fits in the empty slots most of the time)
			if ks := cfgsm.SortedKeys(cur.Backends); len(ks) > 0 {
				bn := ks[rng.Intn(len(ks))]
				b := cur.Backends[bn]
				eps := append([]int(nil), b.Eps...)
				if len(eps) > 0 && rng.Intn(3) == 0 {
					j := rng.Intn(len(eps))
					eps = append(eps[:j], eps[j+1:]...)
				} else {
					eps = append(eps, 60+rng.Intn(150))
					sort.Ints(eps)
				}
				b.Eps = eps
				cur.Backends[bn] = b
			}
		case k < 8: // an unrelated host and backend appear: reload
			addHost()
		case k < 9: // a host goes away
			if ks := cfgsm.SortedKeys(cur.Hosts); len(ks) > 1 {
				delete(cur.Hosts, ks[rng.Intn(len(ks))])
			}
		default: // something else of a backend changes: reload
			if ks := cfgsm.SortedKeys(cur.Backends); len(ks) > 0 {
				bn := ks[rng.Intn(len(ks))]
				b := cur.Backends[bn]
				b.Mark++
				cur.Backends[bn] = b
			}
		}
		cur.Normalize(false)
		st.State = cur.Clone()
		h.Steps = append(h.Steps, st)
	}
	return h
}

// dynCorpus: backend b0 written with free slots, scaled up through the runtime api, then an
// unrelated backend of another shard appears and haproxy reloads (alignSlots tops b0 up).
func dynCorpus() []History {
	var out []History
	for _, mf := range []int{1, 2, 6} {
		b0 := func(eps ...int) B { return B{Dyn: true, MinFree: mf, Block: 1, Eps: eps} }
		hosts := func(names ...string) map[string]H {
			m := map[string]H{}
			for i, n := range names {
				m[fmt.Sprintf("h%d", i)] = H{Paths: []P{{Path: "/", Backend: n}}}
			}
			return m
		}
		mk := func(hs map[string]H, bs map[string]B) cfgsm.Step {
			s := S{Hosts: hs, Backends: bs}
			s.Normalize(false)
			return cfgsm.Step{State: s}
		}
		first := mk(hosts("b0", "b1"), map[string]B{"b0": b0(11), "b1": b0(21)})
		first.Full = true
		out = append(out, History{Dyn: true, Shards: 8, Steps: []cfgsm.Step{
			first,
			mk(hosts("b0", "b1"), map[string]B{"b0": b0(11, 12), "b1": b0(21)}),
			mk(hosts("b0", "b1", "b2"), map[string]B{"b0": b0(11, 12), "b1": b0(21), "b2": b0(31)}),
			mk(hosts("b0", "b1", "b2", "b4"), map[string]B{"b0": b0(11, 12), "b1": b0(21), "b2": b0(31), "b4": b0(41)}),
		}})
	}
	return out
}

type dynResult struct {
	Key, What        string
	Dynamic, Reloads int
	Steps            int
	Files            []string
}

func runDyn(base string, h History) dynResult {
	if err := os.MkdirAll(base, 0o755); err != nil {
		panic(err)
	}
	if err := os.Chdir(base); err != nil {
		panic(err)
	}
	_ = os.RemoveAll("dyna")
	// the fake haproxy loads the certificates of the crt-list
	if err := os.WriteFile("default-crt", []byte("-----BEGIN CERTIFICATE-----\nAAAA\n-----END CERTIFICATE-----\n"), 0o644); err != nil {
		panic(err)
	}
	saved := cfgsm.DefaultCrtFile
	cfgsm.DefaultCrtFile = "default-crt"
	defer func() { cfgsm.DefaultCrtFile = saved }()
	fake := fakehaproxy.New("dyna/cfg")
	socks, err := fakehaproxy.Serve(fake, "adm.sock", "mst.sock")
	if err != nil {
		panic(err)
	}
	defer socks.Close()
	e := cfgsm.NewEnv(base, "dyna", cfgsm.Options{Shards: h.Shards, AdminSocket: "adm.sock"})
	r := dynResult{}
	fail := func(k, what string) {
		if r.Key == "" {
			r.Key, r.What = k, what
		}
	}
	for i, step := range h.Steps {
		step.State.Normalize(false)
		h.Steps[i] = step
		e.Sync(step)
		q := e.Queue.Adds
		e.Stamp()
		uerr := e.Update()
		written := e.Written()
		where := fmt.Sprintf("step %d", i)
		if uerr != nil {
			fail("update-error", where+": fault-free update failed: "+uerr.Error())
			continue
		}
		r.Steps++
		if e.Queue.Adds > q {
			r.Reloads++
			where += " (reload)"
			if rerr := fake.Reload(); rerr != nil {
				fail("unloadable-files", where+": the fake haproxy refuses the files: "+rerr.Error())
			}
		} else if len(written) > 0 {
			r.Dynamic++
			where += " (applied through the runtime api, no reload)"
		} else {
			where += " (no-op)"
		}
		d := e.ReadDisk()
		// every backend of the state exactly once, none that was removed
		count := map[string]int{}
		for _, f := range d.Files {
			for _, b := range f.Backends {
				count[b.Name]++
				if _, ok := step.State.Backends[b.Name]; !ok {
					fail("stale-backend", fmt.Sprintf("%s: backend %s was removed but %s still holds it", where, b.Name, f.File))
				}
			}
		}
		for _, b := range cfgsm.SortedKeys(step.State.Backends) {
			if count[b] != 1 {
				fail("missing-or-duplicate-backend", fmt.Sprintf("%s: backend %s is in %d loaded sections", where, b, count[b]))
			}
		}
		// the server lines of every loaded backend are those of the in-memory model
		model := e.ModelServers()
		for _, f := range d.Files {
			for _, b := range f.Backends {
				if fmt.Sprint(b.Servers) != fmt.Sprint(model[b.Name]) {
					fail("stale-server-slots", fmt.Sprintf("%s: backend %s in %s has servers %v, the model has %v", where, b.Name, f.File, b.Servers, model[b.Name]))
				}
			}
		}
		// everything else is what a fresh instance writes
		f := cfgsm.NewEnv(base, "dynf", cfgsm.Options{Shards: h.Shards})
		f.Interner = e.Interner
		f.Sync(cfgsm.Step{Full: true, State: step.State})
		if ferr := f.Update(); ferr != nil {
			panic(ferr)
		}
		if a, b := d.CanonNS(), f.ReadDisk().CanonNS(); a != b {
			fail("differs-from-fresh", where+": besides the server lines the files differ from a fresh rendering: "+firstDiff(a, b))
		}
		r.Files = nil
		for _, fo := range d.Files {
			for _, b := range fo.Backends {
				r.Files = append(r.Files, fmt.Sprintf("%s:%s %v", fo.File, b.Name, b.Servers))
			}
		}
	}
	return r
}
