// c05: correspondence and oracle for C05 (files on disk hold exactly the current model).
// Histories of full / partial syncs are run on the real haproxy.Instance (public API,
// real templates) for shard counts 0, 1, 3, 8; after every update the written files are
// projected (which backend sections each *.cfg holds, referenced map key sets ...).
package main

import (
	"encoding/json"
	"fmt"
	"math/rand"
	"os"
	"path/filepath"
	"strings"

	"verif/harness/lib/cfgsm"
	"verif/harness/lib/hx"
)

// History is the replayable input.
type History struct {
	Shards int          `json:"shards"`
	Steps  []cfgsm.Step `json:"steps"`
	// Faults[i] = files made unwritable during the update of step i (classes of lib/cfgsm:
	// tcpmaps, front:crt, front:host, front:rootredir, front:rootssl, backmaps, tcpcrt, main, shard:<j>)
	Faults [][]string `json:"faults,omitempty"`
	// Dyn: dynamic-scaling history, run against the fake haproxy's admin socket (dyn.go)
	Dyn bool `json:"dyn,omitempty"`
}

func (h History) faultsOf(i int) []string {
	if i < len(h.Faults) {
		return h.Faults[i]
	}
	return nil
}

var allBacks = append(append(append([]string{}, cfgsm.BackPool...), cfgsm.TCPBackPool...), cfgsm.DefaultName)
var allPorts = []int{7001, 7002}

// withFaults arms faults in some updates of a generated history and inserts, after each of
// them, the updates that must repair what the failed one left: an empty batch, a batch that
// re-acquires an unchanged backend (removed and added again: Shrink drops the pair), or just
// the next changes of the history.
func withFaults(rng *rand.Rand, h History) History {
	out := History{Shards: h.Shards}
	classes := append([]string{}, cfgsm.FaultClasses...)
	for j := 0; j < h.Shards; j++ {
		classes = append(classes, fmt.Sprintf("shard:%d", j), fmt.Sprintf("shard:%d", j))
	}
	classes = append(classes, "main", "main")
	for i, st := range h.Steps {
		out.Steps = append(out.Steps, st)
		var fl []string
		if i > 0 && rng.Intn(4) == 0 {
			fl = []string{classes[rng.Intn(len(classes))]}
			if rng.Intn(4) == 0 {
				fl = append(fl, classes[rng.Intn(len(classes))])
			}
		}
		out.Faults = append(out.Faults, fl)
		if fl == nil {
			continue
		}
		for rep := 1 + rng.Intn(2); rep > 0; rep-- {
			follow := cfgsm.Step{Full: rng.Intn(6) == 0, State: st.State.Clone()}
			switch rng.Intn(3) {
			case 0: // empty batch
			case 1, 2: // an unchanged backend (or host) is parsed again
				if ks := cfgsm.SortedKeys(st.State.Backends); len(ks) > 0 {
					follow.Dirty = append(follow.Dirty, "b:"+ks[rng.Intn(len(ks))])
				}
			}
			var ffl []string
			if rep > 1 && rng.Intn(3) == 0 {
				ffl = []string{classes[rng.Intn(len(classes))]}
			}
			out.Steps = append(out.Steps, follow)
			out.Faults = append(out.Faults, ffl)
		}
	}
	return out
}

type S = cfgsm.State
type H = cfgsm.HostSpec
type P = cfgsm.PathSpec
type B = cfgsm.BackendSpec

func st(full bool, hosts map[string]H, backs map[string]B, def string, dirty ...string) cfgsm.Step {
	s := S{Hosts: hosts, Backends: backs, Default: def}
	s.Normalize(false)
	return cfgsm.Step{Full: full, State: s, Dirty: dirty}
}

func respSteps() []cfgsm.Step {
	var out []cfgsm.Step
	for _, r := range []int{0, 1, 2, 2, 3, 0} {
		s := st(true, map[string]H{"h0": {Paths: []P{{Path: "/", Backend: "b0"}}}}, map[string]B{"b0": {Eps: []int{1}}}, "")
		s.State.Resp = r
		out = append(out, s)
	}
	return out
}

// aclPaths: two paths with distinct per path configuration, so the backend needs idpath maps
func aclPaths(b string) []P {
	return []P{{Path: "/", Backend: b}, {Path: "/a", Backend: b, SSLRedirect: true}}
}

var twoB = map[string]B{"b0": {Eps: []int{1}}, "b1": {Eps: []int{2}}}

func aliasSteps(re bool) []cfgsm.Step {
	hs := func(alias, re string) map[string]H {
		return map[string]H{
			"h0": {Paths: []P{{Path: "/", Backend: "b0"}, {Path: "/a", Backend: "b0", SSLRedirect: true}}, Alias: alias, AliasRe: re},
			"h1": {Paths: []P{{Path: "/", Backend: "b1"}}}}
	}
	bs := map[string]B{"b0": {Eps: []int{1}}, "b1": {Eps: []int{2}}}
	if re {
		return []cfgsm.Step{st(true, hs("a0", "^r0$"), bs, ""), st(false, hs("a0", "^r1$"), bs, ""), st(false, hs("a1", ""), bs, ""),
			st(false, hs("", "^r0$"), bs, "")}
	}
	return []cfgsm.Step{st(true, hs("a0", ""), bs, ""), st(false, hs("a1", ""), bs, ""), st(false, hs("", ""), bs, ""), st(false, hs("a0", ""), bs, "")}
}

// corpus: minimised past failures, run first forever.
func corpus() []History {
	one := map[string]H{"h0": {Paths: []P{{Path: "/", Backend: "b0"}}}}
	oneB := map[string]B{"b0": {Eps: []int{1}}}
	return []History{
		// Backends.Clear flagged the new (empty) shards: a full sync that removes the only
		// backend of a shard left the old shard file in place
		{Shards: 8, Steps: []cfgsm.Step{st(true, one, oneB, ""), st(true, nil, nil, "")}},
		{Shards: 1, Steps: []cfgsm.Step{st(true, one, oneB, ""), st(true, nil, nil, "")}},
		{Shards: 3, Steps: []cfgsm.Step{
			st(true, map[string]H{"h0": {Paths: []P{{Path: "/", Backend: "b0"}, {Path: "/a", Backend: "b1"}}}}, map[string]B{"b0": {Eps: []int{1}}, "b1": {Eps: []int{2}}}, ""),
			st(true, one, oneB, "")}},
		// the only change removes a backend nothing else points to (the default backend's
		// service went away): the update was taken for a no-op and nothing was written
		{Shards: 4, Steps: []cfgsm.Step{
			st(true, one, map[string]B{"b0": {Eps: []int{1}}, "bd": {Eps: []int{2}}}, "bd"),
			st(false, one, oneB, "")}},
		{Shards: 0, Steps: []cfgsm.Step{
			st(true, one, map[string]B{"b0": {Eps: []int{1}}, "bd": {Eps: []int{2}}}, "bd"),
			st(false, one, oneB, "")}},
		// the default service resolves to another backend, both already existing and unchanged
		// (service ports reordered): taken for a no-op until d8ef0ec, default_backend stayed the old one
		{Shards: 3, Steps: []cfgsm.Step{
			st(true, map[string]H{"h0": {Paths: []P{{Path: "/", Backend: "b0"}, {Path: "/a", Backend: "b1"}}}}, map[string]B{"b0": {Eps: []int{1}}, "b1": {Eps: []int{2}}}, "b0"),
			st(false, map[string]H{"h0": {Paths: []P{{Path: "/", Backend: "b0"}, {Path: "/a", Backend: "b1"}}}}, map[string]B{"b0": {Eps: []int{1}}, "b1": {Eps: []int{2}}}, "b1")}},
		// ssl-redirect of the root path changes (backend side) while the host, which has a
		// root redirect, is re-created identical: _front_redir_root_ssl was not rewritten
		{Shards: 0, Steps: []cfgsm.Step{
			st(true, one, oneB, ""),
			st(false, map[string]H{"h0": {Paths: []P{{Path: "/", Backend: "b0", SSLRedirect: true}}}}, oneB, "")}},
		{Shards: 3, Steps: []cfgsm.Step{
			st(true, map[string]H{"h0": {Paths: []P{{Path: "/", Backend: "b0", SSLRedirect: true}}}}, oneB, ""),
			st(false, one, oneB, "")}},
		// a failed update, then successful ones: the partial sync that removes the only backend of a
		// shard cannot write the main file; the retry has an empty batch
		{Shards: 8, Steps: []cfgsm.Step{
			st(true, map[string]H{"h0": {Paths: []P{{Path: "/", Backend: "b0"}, {Path: "/a", Backend: "b1"}}}}, map[string]B{"b0": {Eps: []int{1}}, "b1": {Eps: []int{2}}}, ""),
			st(false, one, oneB, ""), st(false, one, oneB, "")},
			Faults: [][]string{nil, {"main"}, nil}},
		// ... or the next update parses an unchanged backend again (Shrink drops the pair and recomputes the changed shards)
		{Shards: 8, Steps: []cfgsm.Step{
			st(true, map[string]H{"h0": {Paths: []P{{Path: "/", Backend: "b0"}, {Path: "/a", Backend: "b1"}}}}, map[string]B{"b0": {Eps: []int{1}}, "b1": {Eps: []int{2}}}, ""),
			st(false, one, oneB, ""), st(false, one, oneB, "", "b:b0")},
			Faults: [][]string{nil, {"main"}, nil}},
		{Shards: 3, Steps: []cfgsm.Step{
			st(true, map[string]H{"h0": {Paths: []P{{Path: "/", Backend: "b0"}, {Path: "/a", Backend: "b1"}}}}, map[string]B{"b0": {Eps: []int{1}}, "b1": {Eps: []int{2}}}, ""),
			st(false, map[string]H{"h0": {Paths: []P{{Path: "/", Backend: "b0"}, {Path: "/a", Backend: "b1"}}}}, map[string]B{"b0": {Eps: []int{1, 2}}, "b1": {Eps: []int{3}}}, ""),
			st(false, map[string]H{"h0": {Paths: []P{{Path: "/", Backend: "b0"}, {Path: "/a", Backend: "b1"}}}}, map[string]B{"b0": {Eps: []int{1, 2}}, "b1": {Eps: []int{3}}}, "", "b:b1")},
			Faults: [][]string{nil, {"shard:" + fmt.Sprint(cfgsm.ShardOf(cfgsm.BackendID("b1"), 3))}, nil}},
		{Shards: 0, Steps: []cfgsm.Step{
			st(true, map[string]H{"h0": {Paths: []P{{Path: "/", Backend: "b0"}, {Path: "/a", Backend: "b1"}}}}, map[string]B{"b0": {Eps: []int{1}}, "b1": {Eps: []int{2}}}, ""),
			st(false, one, oneB, ""), st(false, one, oneB, "")},
			Faults: [][]string{nil, {"front:host"}, nil}},
		// only the host side of the idpath maps of a backend changes (server alias / alias regex renamed,
		// removed, added) while the backend - which needs per path acls - is
		// parsed again with the very same content: its maps must follow the host
		{Shards: 0, Steps: aliasSteps(false)},
		{Shards: 3, Steps: aliasSteps(false)},
		{Shards: 3, Steps: aliasSteps(true)},
		// a contended server alias moves to the host that stays when the one that had it goes away
		// (h0 and h1 both ask for a0, h0 has it; h0 is removed): the frontend maps route a0 to the
		// backend of h1, whose idpath maps - not built again - did not know a0
		{Shards: 0, Steps: []cfgsm.Step{
			st(true, map[string]H{"h0": {Paths: aclPaths("b0"), Alias: "a0"}, "h1": {Paths: aclPaths("b1"), Alias: "a0"}}, twoB, ""),
			st(false, map[string]H{"h1": {Paths: aclPaths("b1"), Alias: "a0"}}, twoB, "")}},
		// ... and an alias that is a declared hostname is not answered by its host while that
		// hostname exists: h1 asks for h0; h0 is created, then removed
		{Shards: 3, Steps: []cfgsm.Step{
			st(true, map[string]H{"h1": {Paths: aclPaths("b1"), Alias: "h0"}}, twoB, ""),
			st(false, map[string]H{"h0": {Paths: []P{{Path: "/", Backend: "b0"}}}, "h1": {Paths: aclPaths("b1"), Alias: "h0"}}, twoB, ""),
			st(false, map[string]H{"h1": {Paths: aclPaths("b1"), Alias: "h0"}}, twoB, "")}},
		// the custom responses of the global config appear, change (one write fails in between), lose
		// one file and go away: errorfiles/<code>.http follow after every successful update
		{Shards: 3, Steps: respSteps(), Faults: [][]string{nil, nil, {"resp"}, nil, nil, nil}},
		// identical re-creation of an acl backend; revert within one batch
		{Shards: 3, Steps: []cfgsm.Step{
			st(true, map[string]H{"h0": {Paths: []P{{Path: "/", Backend: "b0"}, {Path: "/a", Backend: "b0", SSLRedirect: true}}}}, oneB, ""),
			st(false, map[string]H{"h0": {Paths: []P{{Path: "/", Backend: "b0"}, {Path: "/a", Backend: "b0", SSLRedirect: true}}}}, oneB, "", "b:b0"),
			st(false, one, oneB, "", "h:h0")}},
	}
}

// ---------------------------------------------------------------- oracle

type stepObs struct {
	LastFailed bool
	Err        string
	Reload     bool
	Written    []string
	Disk       cfgsm.Disk
	Ops        []cfgsm.Op
}

// oracle checks the property directly on what was written, without any model:
// (1) every current backend is in exactly one loaded file and no other one is;
// (2) everything `haproxy -f <dir>` would load means the same as what a fresh
// instance fed the same state writes.
func oracle(step cfgsm.Step, o stepObs, fresh cfgsm.Disk) (string, string) {
	count := map[string]int{}
	where := map[string]string{}
	for _, f := range o.Disk.Files {
		for _, b := range f.Backends {
			count[b.Name]++
			where[b.Name] = f.File
		}
	}
	for _, b := range cfgsm.SortedKeys(count) {
		if _, ok := step.State.Backends[b]; !ok {
			mainWritten := false
			for _, w := range o.Written {
				if w == "cfg/haproxy.cfg" {
					mainWritten = true
				}
			}
			switch {
			case !mainWritten:
				return "removed-backend-noop-update", fmt.Sprintf("backend %s was removed, the update was taken for a no-op (no configuration file written) and %s still holds it", b, where[b])
			case step.Full:
				return "stale-shard-after-full-sync", fmt.Sprintf("backend %s was removed by a full sync but %s still holds it", b, where[b])
			default:
				return "stale-backend", fmt.Sprintf("backend %s was removed but %s still holds it", b, where[b])
			}
		}
		if count[b] > 1 {
			return "duplicate-backend", fmt.Sprintf("backend %s is in %d loaded sections", b, count[b])
		}
	}
	for _, b := range cfgsm.SortedKeys(step.State.Backends) {
		if count[b] == 0 {
			return "missing-backend", fmt.Sprintf("backend %s of the current state is in no loaded file", b)
		}
	}
	if len(o.Disk.Missing) > 0 {
		return "missing-map", fmt.Sprintf("referenced files do not exist: %v", o.Disk.Missing)
	}
	if o.Disk.Canon() == fresh.Canon() {
		return "", ""
	}
	// classify the first component that differs
	fb := map[string]cfgsm.BackRef{}
	for _, f := range fresh.Files {
		for _, b := range f.Backends {
			fb[b.Name] = b
		}
	}
	for _, f := range o.Disk.Files {
		for _, b := range f.Backends {
			if fb[b.Name].Body != b.Body {
				return "stale-backend-content", fmt.Sprintf("section of backend %s in %s differs from a fresh rendering", b.Name, f.File)
			}
			if cfgsm.ShardOf(cfgsm.BackendID(b.Name), shardsOf(o.Disk)) != f.Shard && f.Shard >= 0 {
				return "wrong-shard", fmt.Sprintf("backend %s is in %s", b.Name, f.File)
			}
		}
	}
	if fmt.Sprint(o.Disk.RootSSL) != fmt.Sprint(fresh.RootSSL) {
		return "front-map-root-ssl-stale", fmt.Sprintf("_front_redir_root_ssl lists %v, a fresh instance writes %v", o.Disk.RootSSL, fresh.RootSSL)
	}
	if fmt.Sprint(o.Disk.RootRedir) != fmt.Sprint(fresh.RootRedir) || fmt.Sprint(o.Disk.HTTPHost) != fmt.Sprint(fresh.HTTPHost) || fmt.Sprint(o.Disk.CrtList) != fmt.Sprint(fresh.CrtList) {
		return "front-map-stale", "frontend maps / crt-list differ from a fresh rendering"
	}
	if fmt.Sprint(o.Disk.BackMaps) != fmt.Sprint(fresh.BackMaps) {
		return "back-map-stale", fmt.Sprintf("backend maps %v, a fresh instance writes %v", o.Disk.BackMaps, fresh.BackMaps)
	}
	if fmt.Sprint(o.Disk.TCPMaps) != fmt.Sprint(fresh.TCPMaps) || fmt.Sprint(o.Disk.TCPCrt) != fmt.Sprint(fresh.TCPCrt) {
		return "tcp-map-stale", "tcp maps / crt-lists differ from a fresh rendering"
	}
	if o.Disk.DefaultBE != fresh.DefaultBE {
		return "default-backend-stale", fmt.Sprintf("default_backend %s, a fresh instance writes %s", o.Disk.DefaultBE, fresh.DefaultBE)
	}
	if o.Disk.MainRest != fresh.MainRest {
		return "main-stale", "main file differs from a fresh rendering: " + firstDiff(o.Disk.MainRest, fresh.MainRest)
	}
	if fmt.Sprint(o.Disk.ErrorFiles) != fmt.Sprint(fresh.ErrorFiles) {
		return "error-file-stale", fmt.Sprintf("custom response files %q, a fresh instance writes %q", o.Disk.ErrorFiles, fresh.ErrorFiles)
	}
	for _, k := range cfgsm.SortedKeys(fresh.MapFiles) {
		if fmt.Sprint(o.Disk.MapFiles[k]) != fmt.Sprint(fresh.MapFiles[k]) {
			return "map-file-stale", fmt.Sprintf("%s holds %v, a fresh instance writes %v", k, o.Disk.MapFiles[k], fresh.MapFiles[k])
		}
	}
	return "differs-from-fresh", firstDiff(o.Disk.Canon(), fresh.Canon())
}

func shardsOf(d cfgsm.Disk) int { return curShards }

var curShards int

func firstDiff(a, b string) string {
	la, lb := strings.Split(a, "\n"), strings.Split(b, "\n")
	for i := 0; i < len(la) || i < len(lb); i++ {
		var x, y string
		if i < len(la) {
			x = la[i]
		}
		if i < len(lb) {
			y = lb[i]
		}
		if x != y {
			return fmt.Sprintf("line %d: %q vs fresh %q", i, x, y)
		}
	}
	return ""
}

// ---------------------------------------------------------------- run

type runResult struct {
	Failed   int
	Obs      []stepObs
	FailStep int
	Key      string
	What     string
}

func runHistory(base string, h History, withFresh bool) runResult {
	curShards = h.Shards
	e := cfgsm.NewEnv(base, "a", cfgsm.Options{Shards: h.Shards})
	r := runResult{FailStep: -1}
	failedBefore := "" // fault of a failed update not yet followed by a successful one
	for i, step := range h.Steps {
		step.State.Normalize(false)
		h.Steps[i] = step
		ops := e.Sync(step)
		q := e.Queue.Adds
		faults := cfgsm.EffectiveFaults(h.faultsOf(i), step.State)
		if i < len(h.Faults) {
			h.Faults[i] = faults
		}
		unblock := e.Block(faults, allBacks, allPorts)
		e.Stamp()
		err := e.Update()
		unblock()
		o := stepObs{Ops: ops, Written: e.Written(), Disk: e.ReadDisk(), Reload: e.Queue.Adds > q, LastFailed: e.LastFailed()}
		if err != nil {
			o.Err = err.Error()
		}
		r.Obs = append(r.Obs, o)
		if err != nil {
			r.Failed++
			if len(faults) == 0 && r.FailStep < 0 {
				r.FailStep, r.Key, r.What = i, "update-error", "fault-free update failed: "+err.Error()
			}
			if failedBefore == "" && len(faults) > 0 {
				failedBefore = faults[0]
			}
			continue
		}
		// the property is about every successful update, the one that follows a failed one included
		if withFresh && r.FailStep < 0 {
			f := cfgsm.NewEnv(base, "f", cfgsm.Options{Shards: h.Shards})
			f.Interner = e.Interner
			f.Sync(cfgsm.Step{Full: true, State: step.State})
			if ferr := f.Update(); ferr != nil {
				panic(ferr)
			}
			k, what := oracle(step, o, f.ReadDisk())
			if k == "" {
				// the server lines of every loaded backend are those of the in-memory model
				model := e.ModelServers()
				for _, fo := range o.Disk.Files {
					for _, b := range fo.Backends {
						if fmt.Sprint(b.Servers) != fmt.Sprint(model[b.Name]) {
							k, what = "stale-server-slots", fmt.Sprintf("backend %s in %s has servers %v, the model has %v", b.Name, fo.File, b.Servers, model[b.Name])
						}
					}
				}
			}
			if k != "" {
				where := fmt.Sprintf("step %d (%s)", i, map[bool]string{true: "full sync", false: "partial sync"}[step.Full])
				if failedBefore != "" {
					k += "-after-failed-update"
					where += fmt.Sprintf(", first successful update after a failed one (unwritable %s)", failedBefore)
				}
				r.FailStep, r.Key, r.What = i, k, where+": "+what
			}
		}
		failedBefore = ""
	}
	return r
}

func main() {
	o := hx.Parse()
	rng := o.Rng()
	res := hx.NewResult("C05", "histories of 3..8 (search: ..14) full/partial syncs + updates on the real Instance (a third of the histories with updates made to fail by an unwritable map / crt-list / main / shard file, each followed by updates with an empty batch or parsing an unchanged backend again), shard counts 0/1/3/8, pools of 5 hosts, 10 backends, 3 paths, 3 tcp services; non-trivial = at least 3 steps of which one partial step changes something; distinct by canonical JSON of the history")
	base, _ := filepath.Abs(filepath.Join(o.Out, "scratch"))
	var inputs []History
	if o.Replay != "" {
		var h History
		hx.ReadReplay(o.Replay, &h)
		inputs = append(inputs, h)
	} else {
		inputs = append(inputs, corpus()...)
		n := o.Count(260, 6000)
		if o.Search {
			n = o.Count(1500, 6000)
		}
		for i := 0; i < n; i++ {
			sh, steps := cfgsm.Gen(rng, o.Search)
			h := History{Shards: sh, Steps: steps}
			if i%3 == 0 {
				h = withFaults(rng, h)
			}
			inputs = append(inputs, h)
		}
	}
	if o.Replay == "" {
		inputs = append(inputs, dynCorpus()...)
		nd := o.Count(60, 2000)
		if o.Search {
			nd = o.Count(400, 2000)
		}
		for i := 0; i < nd; i++ {
			inputs = append(inputs, genDyn(rng, o.Search))
		}
	}
	cw := newCaseWriter(o, res)
	for _, h := range inputs {
		if h.Dyn {
			r := runDyn(base, h)
			b, _ := json.Marshal(h)
			res.Seen(string(b), r.Dynamic > 0 && r.Reloads > 1)
			res.Count("dyn_histories")
			res.Distribution["dyn_updates_through_runtime_api"] += r.Dynamic
			res.Distribution["dyn_reloads"] += r.Reloads
			res.OracleChecks += r.Steps
			if len(res.Samples) < 6 && r.Dynamic > 0 {
				res.Sample(6, map[string]interface{}{"history": h, "servers_after_last_step": r.Files})
			}
			if r.Key != "" {
				res.Count("oracle_fail_" + r.Key)
				res.Fail(hx.Failure{Key: "C05/" + r.Key, What: r.What, Input: h, Observed: r.Files})
			}
			continue
		}
		r := runHistory(base, h, true)
		b, _ := json.Marshal(h)
		partialChange := false
		for i, ob := range r.Obs {
			if i > 0 && !h.Steps[i].Full && len(ob.Written) > 0 {
				partialChange = true
			}
			if len(ob.Written) == 0 {
				res.Count("step_wrote_nothing")
			}
			if h.Steps[i].Full {
				res.Count("step_full")
			} else {
				res.Count("step_partial")
			}
		}
		res.Seen(string(b), len(h.Steps) >= 3 && partialChange)
		res.Count(fmt.Sprintf("shards=%d", h.Shards))
		res.Count(fmt.Sprintf("steps=%d", len(h.Steps)))
		res.Count(fmt.Sprintf("failed_updates=%d", r.Failed))
		res.OracleChecks += len(h.Steps) - r.Failed
		last := r.Obs[len(r.Obs)-1]
		var files []string
		for _, f := range last.Disk.Files {
			var bs []string
			for _, b := range f.Backends {
				bs = append(bs, fmt.Sprintf("%s@%d", b.Name, b.Ver))
			}
			files = append(files, f.File+":"+strings.Join(bs, ","))
		}
		res.Sample(4, map[string]interface{}{"history": h, "files_after_last_step": files})
		if r.Key != "" {
			res.Count("oracle_fail_" + r.Key)
			res.Fail(hx.Failure{Key: "C05/" + r.Key, What: r.What, Input: h, Observed: files})
		}
		if cfgsm.UsesAliasRe(h.Steps) {
			res.Count("oracle_only_alias_regex_or_contended")
		} else if !o.Search {
			cw.add(h, r)
		}
	}
	cw.flush()
	_ = os.RemoveAll(base)
	res.Write(o)
}
