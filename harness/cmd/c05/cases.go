package main

import (
	"verif/harness/lib/cfgsm"
	"verif/harness/lib/hx"
)

type caseWriter struct{ cw *hx.CaseWriter }

func newCaseWriter(o *hx.Opts, res *hx.Result) *caseWriter {
	return &caseWriter{cw: hx.NewCaseWriter(o, res, "From HI Require Import Corr.Corr_C05.", "hcase", 40)}
}

func (c *caseWriter) add(h History, r runResult) {
	c.cw.Add(func(id int) string {
		var steps []string
		for i, ob := range r.Obs {
			steps = append(steps, cfgsm.CoqStep(false, ob.Ops, h.faultsOf(i), 0, true, cfgsm.CoqObs(ob.Disk, ob.Err != "", ob.Reload, false, ob.LastFailed)))
		}
		return cfgsm.CoqCase(id, h.Shards, false, steps)
	}, h)
}

func (c *caseWriter) flush() { c.cw.Flush() }
