// c18: correspondence and oracle for C18 (external authentication fails closed).
//
// Two kinds of cases, both on the REAL code of /repo:
//
//   - "pipeline": Ingress/Service objects with auth-url / auth-external-placement / oauth
//     annotations through the real converters (ingress converter + annotations updater) and
//     the real templates.  The oracle (no model) checks the property on the resulting
//     objects (per path AuthExternal / AuthExt, auth proxy binds) and on the rendered
//     haproxy.cfg: the http-request rules of the frontend and of the backend section are
//     evaluated for probe requests that route to each protected path, for a client every
//     authentication service rejects: the request must not be served.
//   - "updater": a sequence of annotations.Updater calls (UpdateGlobalConfig,
//     UpdateHostConfig, UpdateBackendConfig) in a controlled order on hosts/backends built
//     with the real model types; observed: per path decisions, the auth proxy bind list,
//     and the rules the real template renders.  These are the correspondence cases
//     (Corr_C18.v) and they are also checked by the oracle.
package main

import (
	"encoding/json"
	"fmt"
	"math/rand"
	"net"
	"os"
	"path/filepath"
	"regexp"
	"sort"
	"strconv"
	"strings"

	hatypes "github.com/jcmoraisjr/haproxy-ingress/pkg/haproxy/types"

	"verif/harness/lib/c1819"
	"verif/harness/lib/cfgnorm"
	"verif/harness/lib/hx"
)

type ingIn struct {
	// Step > 0: the Ingress is not there at the first (full) sync, it is added by the
	// Step-th partial sync (an `added` notification on top of the current state)
	Step      int               `json:"step,omitempty"`
	Namespace string            `json:"namespace,omitempty"` // "" = default
	Name      string            `json:"name"`
	Ann       map[string]string `json:"ann,omitempty"` // keys without the annotation prefix
	Rules     []c1819.Rule      `json:"rules"`
}

func (g ingIn) ns() string {
	if g.Namespace == "" {
		return "default"
	}
	return g.Namespace
}

func (g ingIn) id() string { return g.ns() + "/" + g.Name }

// namespaces of a case, "default" first when used
func namespacesOf(in input) []string {
	seen := map[string]bool{}
	var out []string
	for _, g := range in.Ingresses {
		if !seen[g.ns()] {
			seen[g.ns()] = true
			out = append(out, g.ns())
		}
	}
	sort.Strings(out)
	return out
}

// every namespace has the same services; their endpoints differ by namespace
func nsIP(ns string, last int) string {
	n := map[string]int{"default": 0, "team-a": 1, "team-b": 2}[ns]
	return fmt.Sprintf("172.17.%d.%d", n, last)
}

type input struct {
	Kind      string            `json:"kind"` // pipeline | updater
	Global    map[string]string `json:"global,omitempty"`
	External  bool              `json:"external,omitempty"` // external haproxy (needs external-has-lua)
	PathType  string            `json:"path_type,omitempty"`
	Services  []string          `json:"services,omitempty"`
	Ingresses []ingIn           `json:"ingresses,omitempty"`
	UBackends []ubackend        `json:"backends,omitempty"`                 // updater kind, see updater.go
	Calls     []call            `json:"calls,omitempty"`                    // updater kind
	PassHosts []string          `json:"passthrough_hosts,omitempty"`        // updater kind: ssl-passthrough hosts
	CrossNS   bool              `json:"cross_namespace_services,omitempty"` // DynamicConfig.CrossNamespaceServices
	Redirects []upath           `json:"redirect_paths,omitempty"`           // updater kind: redirect-only host paths (no backend)
}

const (
	kURL    = "auth-url"
	kPlace  = "auth-external-placement"
	kOAuth  = "oauth"
	kPrefix = "oauth-uri-prefix"
	kSignin = "auth-signin"
)

// ---------------------------------------------------------------- declarations (from the input only)

type decl struct {
	url      string
	place    string // backend | frontend | other
	oauth    bool
	declared bool // the property speaks about this path
}

// effAnn: what config.Get answers for a path: its annotations, else the global ConfigMap
// for the keys that are honoured without a source.  `oauth` and `oauth-uri-prefix` are
// only honoured when they come from an annotation (Source != nil), so a global value of
// these is not a declaration.
func effAnn(in input, ann map[string]string) map[string]string {
	out := map[string]string{}
	for _, k := range []string{kURL, kPlace, kSignin} {
		if v, ok := in.Global[k]; ok {
			out[k] = v
		}
	}
	for k, v := range ann {
		out[k] = v
	}
	return out
}

func declOf(ann map[string]string) decl {
	d := decl{url: ann[kURL], place: "backend"}
	if v, ok := ann[kPlace]; ok {
		switch strings.ToLower(v) {
		case "backend":
			d.place = "backend"
		case "frontend":
			d.place = "frontend"
		default:
			d.place = "other"
		}
	}
	_, d.oauth = ann[kOAuth]
	d.declared = d.oauth || (d.url != "" && d.place != "other")
	return d
}

// ---------------------------------------------------------------- generator

var goodURLs = []string{"http://10.0.0.2:8000/auth", "http://10.0.0.3:8000/auth", "https://10.0.0.4/check", "http://10.0.0.5", "http://localhost:8000/auth",
	"svc://authsvc:8080/auth", "service://authsvc:8080", "http://10.0.0.6:81/a", "http://10.0.0.7:82/a",
	"svc://authsvc:8080/auth", "svc://authsvc:9090/auth", "http://10.0.0.2:8001/auth"}
var badURLs = []string{"http://unresolvable.invalid/auth", "https://nx.invalid:8443/", "10.0.0.2:8000/auth", "http:/10.0.0.2", "ftp://10.0.0.2/auth", "tcp://10.0.0.2:80",
	"svc://nosuch:8080/auth", "svc://authsvc/auth", "svc://authsvc:9999", "http://10.0.0.2:8000/au th", "http://[::1]:80/", "HTTP://10.0.0.2/", "svc://other/authsvc:8080", "://", "http://"}
var proxyRanges = []string{"", "", "", "_front__auth__local:14415-14415", "_front__auth__local:14415-14416", "bogus", "_front__auth__local:14420-14410", "p:1-0", "_front__auth__local:14415-14417"}

func pick(rng *rand.Rand, p []string) string { return p[rng.Intn(len(p))] }

func genJunkURL(rng *rand.Rand) string {
	alpha := "htpsvc:/.-_ 0123456789'\"[]#%?ab"
	n := rng.Intn(20)
	b := make([]byte, n)
	for i := range b {
		b[i] = alpha[rng.Intn(len(alpha))]
	}
	return string(b)
}

func genAnn(rng *rand.Rand) map[string]string {
	ann := map[string]string{}
	r := rng.Intn(100)
	switch {
	case r < 18: // unprotected
	case r < 50: // auth-url
		switch q := rng.Intn(10); {
		case q < 6:
			ann[kURL] = pick(rng, goodURLs)
		case q < 9:
			ann[kURL] = pick(rng, badURLs)
		default:
			ann[kURL] = genJunkURL(rng)
		}
	case r < 75: // oauth
		switch q := rng.Intn(10); {
		case q < 7:
			ann[kOAuth] = "oauth2_proxy"
		case q < 8:
			ann[kOAuth] = "oauth2-proxy"
		default:
			ann[kOAuth] = pick(rng, []string{"none", "", "OAuth2_Proxy"})
		}
		if rng.Intn(5) == 0 {
			ann[kPrefix] = pick(rng, []string{"/oauth2", "/auth2", "/oauth2/", "", "/", "//", " ", "oauth2"})
		}
	default: // both
		ann[kOAuth] = "oauth2_proxy"
		if rng.Intn(2) == 0 {
			ann[kURL] = pick(rng, goodURLs)
		} else {
			ann[kURL] = pick(rng, badURLs)
		}
	}
	if _, has := ann[kURL]; has || rng.Intn(12) == 0 {
		switch q := rng.Intn(20); {
		case q < 7:
			ann[kPlace] = "frontend"
		case q < 10:
			ann[kPlace] = "backend"
		case q < 11:
			ann[kPlace] = pick(rng, []string{"Frontend", "BACKEND"})
		case q < 12:
			ann[kPlace] = pick(rng, []string{"front", "", "both"})
		}
	}
	// per path features of siblings that bring conditions on the method into the backend
	if rng.Intn(5) == 0 {
		ann["cors-enable"] = "true"
		if rng.Intn(2) == 0 {
			ann["cors-allow-origin"] = "https://a.example,https://b.example"
		}
	}
	// present but empty or blank: the way to opt out of a value of the global ConfigMap
	if rng.Intn(8) == 0 {
		k := pick(rng, []string{kURL, kURL, kOAuth, kPlace, kPrefix})
		ann[k] = pick(rng, []string{"", "", " ", "\t", "  "})
	}
	if _, has := ann[kURL]; has && rng.Intn(5) == 0 {
		ann[kSignin] = pick(rng, []string{"/login", "http://sso.local/login?rd=%[path]", "bad 'url"})
	}
	return ann
}

// defaults of the global ConfigMap for the authentication keys
func genGlobalAuth(rng *rand.Rand, g map[string]string) {
	if rng.Intn(6) != 0 {
		return
	}
	switch rng.Intn(4) {
	case 0, 1:
		if rng.Intn(3) == 0 {
			g[kURL] = pick(rng, badURLs)
		} else {
			g[kURL] = pick(rng, goodURLs)
		}
	case 2:
		g[kOAuth] = "oauth2_proxy" // no source: not honoured by the code, see effAnn
	case 3:
		g[kURL] = pick(rng, goodURLs)
		g[kOAuth] = "oauth2_proxy"
	}
	if rng.Intn(3) == 0 {
		g[kPlace] = pick(rng, []string{"frontend", "backend", "", "both"})
	}
}

func genPipeline(rng *rand.Rand) input {
	in := input{Kind: "pipeline", Global: map[string]string{}, Services: []string{"app1", "app2", "authsvc", "oauth2proxy"}}
	in.PathType = pick(rng, []string{"Prefix", "Prefix", "ImplementationSpecific", "Exact"})
	if r := pick(rng, proxyRanges); r != "" {
		in.Global["auth-proxy"] = r
	}
	if rng.Intn(8) == 0 {
		in.External = true
		if rng.Intn(2) == 0 {
			in.Global["external-has-lua"] = "true"
		}
	}
	genGlobalAuth(rng, in.Global)
	hosts := []string{"h1.local", "h2.local"}
	if rng.Intn(4) == 0 {
		hosts[1] = "*.w.local" // a wildcard host: requests come with any label in front
	}
	paths := []string{"/", "/app", "/api", "/app/sub", "/App", "/x"}
	used := map[string]bool{}
	n := 1 + rng.Intn(4)
	oauthSeen := false
	if rng.Intn(5) == 0 {
		// an ssl-passthrough host: its root goes to a TLS port in tcp mode, its other paths
		// are plain http paths of port 80 like any other
		hosts[0] = "pass.local"
		used["pass.local/"] = true
		in.Services = append(in.Services, "tls")
		in.Ingresses = append(in.Ingresses, ingIn{Name: "ingpass", Ann: map[string]string{"ssl-passthrough": "true"},
			Rules: []c1819.Rule{{Host: "pass.local", Path: "/", Service: "tls", Port: 8443}}})
	}
	for i := 0; i < n; i++ {
		g := ingIn{Name: fmt.Sprintf("ing%d", i+1), Ann: genAnn(rng)}
		if _, ok := g.Ann[kOAuth]; ok {
			oauthSeen = true
		}
		host := hosts[rng.Intn(2)]
		if rng.Intn(3) != 0 {
			host = hosts[0]
		}
		for j := 0; j < 1+rng.Intn(2); j++ {
			p := paths[rng.Intn(len(paths))]
			if used[host+strings.ToLower(p)] {
				continue
			}
			used[host+strings.ToLower(p)] = true
			g.Rules = append(g.Rules, c1819.Rule{Host: host, Path: p, Service: pick(rng, []string{"app1", "app1", "app2"}), Port: 8080})
		}
		if rng.Intn(6) == 0 && !strings.HasPrefix(host, "*") {
			g.Ann["server-alias"] = "alias-" + host // the same paths answer to another name
		}
		if len(g.Rules) > 0 {
			in.Ingresses = append(in.Ingresses, g)
		}
	}
	// several tenants: the same manifests (names, annotations, svc://name:port urls) in other
	// namespaces, on hosts of their own; every namespace has its own authsvc / oauth2proxy
	switch rng.Intn(4) {
	case 0:
		for i := range in.Ingresses {
			in.Ingresses[i].Namespace = pick(rng, []string{"", "team-a", "team-b"})
		}
	case 1:
		base := append([]ingIn{}, in.Ingresses...)
		for i := range in.Ingresses {
			in.Ingresses[i].Namespace = "team-a"
		}
		for _, g := range base {
			c := ingIn{Namespace: "team-b", Name: g.Name, Ann: g.Ann}
			for _, r := range g.Rules {
				r.Host = "b-" + r.Host
				c.Rules = append(c.Rules, r)
			}
			in.Ingresses = append(in.Ingresses, c)
		}
	}
	// some ingresses only arrive with partial syncs; with a short auth-proxy range the binds
	// of the untouched backends are then in the way of the new ones
	if rng.Intn(4) == 0 && len(in.Ingresses) > 1 {
		for i := 1; i < len(in.Ingresses); i++ {
			if in.Ingresses[i].Name != "ingpass" && rng.Intn(2) == 0 {
				in.Ingresses[i].Step = 1 + rng.Intn(2)
			}
		}
		if rng.Intn(2) == 0 {
			in.Global["auth-proxy"] = pick(rng, []string{"_front__auth__local:14415-14415", "_front__auth__local:14415-14416"})
		}
	}
	oauthNS := ""
	for _, g := range in.Ingresses {
		if _, ok := g.Ann[kOAuth]; ok {
			oauthNS = g.Namespace
		}
	}
	if oauthSeen && rng.Intn(4) != 0 {
		host := hosts[0]
		if rng.Intn(4) == 0 {
			host = hosts[1]
		}
		prefix := "/oauth2"
		if rng.Intn(6) == 0 {
			prefix = "/auth2"
		}
		if !used[host+prefix] {
			in.Ingresses = append(in.Ingresses, ingIn{Namespace: oauthNS, Name: "ingoauth", Rules: []c1819.Rule{{Host: host, Path: prefix, Service: "oauth2proxy", Port: 8080}}})
		}
	}
	if oauthSeen && rng.Intn(4) == 0 {
		// the oauth prefix exists as a redirect-only path (redirect-to: a host path without
		// backend), on a host sorted before the others
		in.CrossNS = rng.Intn(2) == 0
		in.Ingresses = append(in.Ingresses, ingIn{Namespace: oauthNS, Name: "ingredir", Ann: map[string]string{"redirect-to": "http://other.example/x"},
			Rules: []c1819.Rule{{Host: "a0.local", Path: pick(rng, []string{"/oauth2", "/auth2"}), Service: "app2", Port: 8080}}})
	} else if rng.Intn(6) == 0 {
		in.CrossNS = true
	}
	if rng.Intn(3) == 0 { // authsvc exposed too (makes svc:// urls resolvable without the pre-build)
		in.Ingresses = append(in.Ingresses, ingIn{Name: "ingauthsvc", Rules: []c1819.Rule{{Host: "auth.local", Path: "/", Service: "authsvc", Port: 8080}}})
	}
	return in
}

func annOf(kv ...string) map[string]string {
	m := map[string]string{}
	for i := 0; i+1 < len(kv); i += 2 {
		m[kv[i]] = kv[i+1]
	}
	return m
}

func corpus() []input {
	svcs := []string{"app1", "app2", "authsvc", "oauth2proxy"}
	r := func(h, p, s string) []c1819.Rule { return []c1819.Rule{{Host: h, Path: p, Service: s, Port: 8080}} }
	oauthIng := ingIn{Name: "ingoauth", Rules: r("h1.local", "/oauth2", "oauth2proxy")}
	return []input{
		// DESIGN §8.4: oauth + own auth-url that fails validation -> no rule at all
		{Kind: "pipeline", PathType: "Prefix", Services: svcs, Ingresses: []ingIn{
			{Name: "ing1", Ann: annOf(kOAuth, "oauth2_proxy", kURL, "http://unresolvable.invalid/auth"), Rules: r("h1.local", "/", "app1")}, oauthIng}},
		// ... and the sibling variant: another path of the same backend declares auth-url
		{Kind: "pipeline", PathType: "Prefix", Services: svcs, Ingresses: []ingIn{
			{Name: "ing1", Ann: annOf(kOAuth, "oauth2_proxy"), Rules: r("h1.local", "/", "app1")},
			{Name: "ing3", Ann: annOf(kURL, "http://10.0.0.2:8000/auth"), Rules: r("h1.local", "/other", "app1")}, oauthIng}},
		// backend placement, three paths sharing one backend: good, unprotected, dangling
		{Kind: "pipeline", PathType: "Prefix", Services: svcs, Ingresses: []ingIn{
			{Name: "ing1", Ann: annOf(kURL, "http://10.0.0.2:8000/auth"), Rules: r("h1.local", "/app", "app1")},
			{Name: "ing2", Rules: r("h1.local", "/pub", "app1")},
			{Name: "ing3", Ann: annOf(kURL, "http://bad.invalid/auth"), Rules: r("h1.local", "/bad", "app1")}}},
		// frontend placement
		{Kind: "pipeline", PathType: "Prefix", Services: svcs, Ingresses: []ingIn{
			{Name: "ing1", Ann: annOf(kURL, "http://10.0.0.2:8000/auth", kPlace, "frontend"), Rules: r("h1.local", "/app", "app1")}}},
		// frontend placement lost to the placement of a sibling ingress of the same host
		{Kind: "pipeline", PathType: "Prefix", Services: svcs, Ingresses: []ingIn{
			{Name: "ing0", Ann: annOf(kURL, "http://10.0.0.3:8000/auth", kPlace, "backend"), Rules: r("h1.local", "/pub", "app1")},
			{Name: "ing1", Ann: annOf(kURL, "http://10.0.0.2:8000/auth", kPlace, "frontend"), Rules: r("h1.local", "/app", "app1")}}},
		// two tenants with identical manifests: svc://authsvc:8080 is another service in each
		// namespace (a seeded BackendID.Equals without the namespace shared one bind)
		{Kind: "pipeline", PathType: "Prefix", Services: svcs, Ingresses: []ingIn{
			{Namespace: "team-a", Name: "ing1", Ann: annOf(kURL, "svc://authsvc:8080/check"), Rules: r("a.local", "/", "app1")},
			{Namespace: "team-b", Name: "ing1", Ann: annOf(kURL, "svc://authsvc:8080/check"), Rules: r("b.local", "/", "app1")}}},
		// same service, two ports; frontend placement next to backend placement
		{Kind: "pipeline", PathType: "Prefix", Services: svcs, Ingresses: []ingIn{
			{Namespace: "team-a", Name: "ing1", Ann: annOf(kURL, "svc://authsvc:8080/check", kPlace, "frontend"), Rules: r("a.local", "/", "app1")},
			{Namespace: "team-a", Name: "ing2", Ann: annOf(kURL, "svc://authsvc:9090/check"), Rules: r("a2.local", "/", "app1")},
			{Namespace: "team-b", Name: "ing1", Ann: annOf(kURL, "svc://authsvc:9090/check", kPlace, "frontend"), Rules: r("b.local", "/", "app1")}}},
		// oauth next to an auth-url that is present but empty (opting out of a global auth-url)
		{Kind: "pipeline", PathType: "Prefix", Services: svcs, Ingresses: []ingIn{
			{Name: "ing1", Ann: annOf(kOAuth, "oauth2_proxy", kURL, ""), Rules: r("h1.local", "/", "app1")}, oauthIng}},
		{Kind: "pipeline", PathType: "Prefix", Global: map[string]string{kURL: "http://10.0.0.2:8000/auth"}, Services: svcs, Ingresses: []ingIn{
			{Name: "ing1", Ann: annOf(kOAuth, "oauth2_proxy", kURL, ""), Rules: r("h1.local", "/", "app1")},
			{Name: "ing2", Rules: r("h1.local", "/inherits", "app1")},
			{Name: "ing3", Ann: annOf(kURL, "http://10.0.0.3:8000/auth"), Rules: r("h1.local", "/other", "app2")}, oauthIng}},
		// oauth-uri-prefix "/" : the allowed path would be "/"
		{Kind: "pipeline", PathType: "Prefix", Services: svcs, Ingresses: []ingIn{
			{Name: "ing1", Ann: annOf(kOAuth, "oauth2_proxy", kPrefix, "/"), Rules: r("h1.local", "/", "app1")}, oauthIng}},
		// a protected path sharing its backend with a path that enables CORS
		{Kind: "pipeline", PathType: "Prefix", Services: svcs, Ingresses: []ingIn{
			{Name: "ing1", Ann: annOf("cors-enable", "true"), Rules: r("d1.local", "/api", "app1")},
			{Name: "ing2", Ann: annOf(kURL, "http://10.0.0.2:8000/auth"), Rules: r("d1.local", "/admin", "app1")},
			{Name: "ing3", Ann: annOf(kOAuth, "oauth2_proxy", "cors-enable", "true"), Rules: r("d1.local", "/both", "app1")},
			{Name: "ingoauth", Rules: r("d1.local", "/oauth2", "oauth2proxy")}}},
		// an ssl-passthrough host with protected http paths sharing a backend with an open one
		{Kind: "pipeline", PathType: "Prefix", Services: append(append([]string{}, svcs...), "tls"), Ingresses: []ingIn{
			{Name: "ingpass", Ann: annOf("ssl-passthrough", "true"), Rules: []c1819.Rule{{Host: "pass.local", Path: "/", Service: "tls", Port: 8443}}},
			{Name: "ing1", Ann: annOf(kURL, "http://10.0.0.2:8000/auth"), Rules: r("pass.local", "/admin", "app1")},
			{Name: "ing2", Ann: annOf(kURL, "http://unresolvable.invalid/auth"), Rules: r("pass.local", "/bad", "app1")},
			{Name: "ing3", Rules: r("pass.local", "/pub", "app1")}}},
		// a server alias and a wildcard host: the protected path answers to other host names
		{Kind: "pipeline", PathType: "Prefix", Services: svcs, Ingresses: []ingIn{
			{Name: "ing1", Ann: annOf(kURL, "http://10.0.0.2:8000/auth", "server-alias", "alias-h1.local"), Rules: r("h1.local", "/a", "app1")},
			{Name: "ing2", Rules: r("h1.local", "/b", "app1")},
			{Name: "ing3", Ann: annOf(kOAuth, "oauth2_proxy"), Rules: r("*.w.local", "/w", "app1")}}},
		// one auth proxy port, taken at the full sync; a partial sync brings another tenant: the
		// bind of the untouched backend stays, the newcomer is denied
		{Kind: "pipeline", PathType: "Prefix", Global: map[string]string{"auth-proxy": "_front__auth__local:14415-14415"}, Services: svcs, Ingresses: []ingIn{
			{Namespace: "team-a", Name: "ing1", Ann: annOf(kURL, "http://10.0.0.1/auth"), Rules: r("a.example", "/", "app1")},
			{Namespace: "team-b", Name: "ing2", Step: 1, Ann: annOf(kURL, "http://10.0.0.2/auth"), Rules: r("b.example", "/", "app2")}}},
		// the oauth prefix only exists as a redirect-to path (no backend), cross namespace allowed
		{Kind: "pipeline", PathType: "Prefix", CrossNS: true, Services: svcs, Ingresses: []ingIn{
			{Name: "ing1", Ann: annOf(kOAuth, "oauth2_proxy"), Rules: r("h1.local", "/", "app1")},
			{Name: "ing2", Rules: r("h1.local", "/pub", "app1")},
			{Name: "ingredir", Ann: annOf("redirect-to", "http://other.example/x"), Rules: r("a0.local", "/oauth2", "app2")}}},
		// empty auth-proxy range
		{Kind: "pipeline", PathType: "Prefix", Global: map[string]string{"auth-proxy": "_front__auth__local:14420-14410"}, Services: svcs, Ingresses: []ingIn{
			{Name: "ing1", Ann: annOf(kURL, "http://10.0.0.2:8000/auth"), Rules: r("h1.local", "/app", "app1")}}},
		// external haproxy without lua
		{Kind: "pipeline", PathType: "Prefix", External: true, Services: svcs, Ingresses: []ingIn{
			{Name: "ing1", Ann: annOf(kURL, "http://10.0.0.2:8000/auth"), Rules: r("h1.local", "/app", "app1")},
			{Name: "ing2", Ann: annOf(kOAuth, "oauth2_proxy"), Rules: r("h1.local", "/", "app2")}, oauthIng}},
	}
}

// ---------------------------------------------------------------- running the pipeline

type pathObs struct {
	Ingress  string `json:"ingress"`
	Host     string `json:"host"`
	Path     string `json:"path"`
	Backend  string `json:"backend"`
	PathID   string `json:"path_id"`
	Deny     bool   `json:"always_deny"`
	Name     string `json:"auth_backend_name"`
	Allowed  string `json:"allowed_path,omitempty"`
	FeSet    bool   `json:"frontend_auth_set"`
	FeDeny   bool   `json:"frontend_always_deny,omitempty"`
	FeName   string `json:"frontend_auth_backend_name,omitempty"`
	Declared string `json:"declared"`
}

type pipeObs struct {
	Paths []pathObs         `json:"paths"`
	Binds map[string]string `json:"binds"` // _auth_N -> backend id
	Warn  []string          `json:"warnings,omitempty"`
	cfg   string
	pipe  *c1819.Pipe
	links map[string]*hatypes.PathLink
}

func matchOf(pathType string) hatypes.MatchType {
	switch pathType {
	case "Exact":
		return hatypes.MatchExact
	case "Prefix":
		return hatypes.MatchPrefix
	}
	return hatypes.MatchBegin
}

// upTo is the input as it stands after the partial sync number `step`
func upTo(in input, step int) input {
	sub := in
	sub.Ingresses = nil
	for _, g := range in.Ingresses {
		if g.Step <= step {
			sub.Ingresses = append(sub.Ingresses, g)
		}
	}
	return sub
}

// runPipeline runs the full sync and then one partial sync per step; after each of them the
// files are written and `judge` looks at the whole state (every path of every backend,
// also those the partial sync did not touch)
func runPipeline(in input, scratch string, judge func(step int, sub input, obs *pipeObs)) *pipeObs {
	p, err := c1819.NewPipe(c1819.PipeOptions{Dir: scratch, Global: in.Global, Render: true, IsExternal: in.External})
	if err != nil {
		panic(err)
	}
	p.Options.DynamicConfig.CrossNamespaceServices = in.CrossNS
	for _, ns := range namespacesOf(in) {
		for i, s := range in.Services {
			if s == "authsvc" {
				p.AddServicePorts(ns+"/"+s, []int{8080, 9090}, nsIP(ns, 21))
			} else if s == "tls" {
				p.AddServicePorts(ns+"/"+s, []int{8443}, nsIP(ns, 31))
			} else {
				p.AddService(ns+"/"+s, "8080", nsIP(ns, 11+i), nil)
			}
		}
	}
	steps := 0
	for _, g := range in.Ingresses {
		if g.Step > steps {
			steps = g.Step
		}
	}
	var last *pipeObs
	for step := 0; step <= steps; step++ {
		for _, g := range in.Ingresses {
			if g.Step != step {
				continue
			}
			ann := map[string]string{}
			for k, v := range g.Ann {
				ann[c1819.AnnPrefix+"/"+k] = v
			}
			if step == 0 {
				p.AddIngressPT(g.ns(), g.Name, ann, g.Rules, in.PathType)
			} else {
				p.AddIngressLater(g.ns(), g.Name, ann, g.Rules, in.PathType)
			}
		}
		p.Sync()
		cfg, err := p.Write()
		if err != nil {
			panic(fmt.Sprintf("pipeline write: %v", err))
		}
		sub := upTo(in, step)
		last = observePipeline(sub, p, cfg)
		judge(step, sub, last)
	}
	return last
}

func observePipeline(in input, p *c1819.Pipe, cfg string) *pipeObs {
	obs := &pipeObs{cfg: cfg, pipe: p, Warn: p.Log.Msgs, Binds: map[string]string{}, links: map[string]*hatypes.PathLink{}}
	hc := p.Instance.Config()
	for _, b := range hc.Frontend().AuthProxy.BindList {
		obs.Binds[b.AuthBackendName] = b.Backend.String()
	}
	for _, g := range in.Ingresses {
		d := declOf(effAnn(in, g.Ann))
		for _, r := range g.Rules {
			link := hatypes.CreateHostPathLink(r.Host, r.Path, matchOf(in.PathType))
			be := hc.Backends().FindBackend(g.ns(), r.Service, strconv.Itoa(r.Port))
			if be == nil {
				continue
			}
			bp := be.FindBackendPath(link)
			if bp == nil {
				continue
			}
			po := pathObs{Ingress: g.id(), Host: r.Host, Path: r.Path, Backend: be.ID, PathID: bp.ID,
				Deny: bp.AuthExternal.AlwaysDeny, Name: bp.AuthExternal.AuthBackendName, Allowed: bp.AuthExternal.AllowedPath}
			if h := hc.Hosts().FindHost(r.Host); h != nil {
				if hp := h.FindPathWithLink(link); hp != nil && hp.AuthExt != nil {
					po.FeSet, po.FeDeny, po.FeName = true, hp.AuthExt.AlwaysDeny, hp.AuthExt.AuthBackendName
				}
			}
			switch {
			case !d.declared:
				po.Declared = "no"
			case d.oauth && d.url != "":
				po.Declared = "oauth+url/" + d.place
			case d.oauth:
				po.Declared = "oauth"
			default:
				po.Declared = "url/" + d.place
			}
			obs.Paths = append(obs.Paths, po)
		}
	}
	return obs
}

// ---------------------------------------------------------------- oracle (no model)

type fail struct{ key, what string }

// expected target of an auth-url, computed from the text only: list of "ip:port"
// (http/https) or a backend id (svc); ok=false when the url cannot designate a service.
func urlTarget(url, srcNS string) (ips []string, port int, backendID string, ok bool) {
	i := strings.Index(url, "://")
	if i <= 0 {
		return nil, 0, "", false
	}
	proto, rest := url[:i], url[i+3:]
	if j := strings.Index(rest, "/"); j >= 0 && proto != "svc" && proto != "service" {
		rest = rest[:j]
	}
	switch proto {
	case "http", "https":
		host, portStr := rest, ""
		if k := strings.LastIndex(rest, ":"); k >= 0 {
			host, portStr = rest[:k], rest[k+1:]
		}
		port, _ = strconv.Atoi(portStr)
		if port == 0 {
			port = 80
			if proto == "https" {
				port = 443
			}
		}
		if net.ParseIP(host) != nil {
			return []string{host}, port, "", true
		}
		addrs, err := net.LookupHost(host)
		if err != nil {
			return nil, 0, "", false
		}
		sort.Strings(addrs)
		return addrs, port, "", true
	case "svc", "service":
		// [namespace/]name:port[/path]
		name := rest
		if k := strings.Index(rest, ":"); k >= 0 {
			name = rest[:k]
			portStr := rest[k+1:]
			if j := strings.Index(portStr, "/"); j >= 0 {
				portStr = portStr[:j]
			}
			ns := srcNS
			if j := strings.Index(name, "/"); j >= 0 {
				ns, name = name[:j], name[j+1:]
			}
			return nil, 0, ns + "_" + name + "_" + portStr, true
		}
	}
	return nil, 0, "", false
}

// routes says which declared path of the host a URL path is routed to (the longest
// match; every path of a case has the same type, so precedence between types never
// matters).  Written from the documentation of path types, not from the maps.
func routes(in input, host, url string) string {
	if strings.HasPrefix(host, "*.") {
		// Wildcard hostnames (and alias-regex) match with the regex path type whatever the
		// type of the path (docs, keys.md, "Path type"): case sensitive, anchored at the
		// start only.  Which of two overlapping rules of such a host answers is not
		// documented: a URL more than one declared path matches is left unjudged.
		hit, n := "", 0
		for _, g := range in.Ingresses {
			for _, r := range g.Rules {
				if r.Host != host {
					continue
				}
				m := false
				if in.PathType == "Exact" {
					m = url == r.Path
				} else {
					m = strings.HasPrefix(url, r.Path)
				}
				if m {
					hit = r.Path
					n++
				}
			}
		}
		if n == 1 {
			return hit
		}
		return ""
	}
	best := ""
	for _, g := range in.Ingresses {
		for _, r := range g.Rules {
			if r.Host != host {
				continue
			}
			m := false
			switch in.PathType {
			case "Exact":
				m = url == r.Path
			case "Prefix":
				m = url == r.Path || strings.HasPrefix(url, strings.TrimSuffix(r.Path, "/")+"/")
			default:
				// begin: documented case insensitive on plain hosts
				m = strings.HasPrefix(strings.ToLower(url), strings.ToLower(r.Path))
			}
			if m && len(r.Path) > len(best) {
				best = r.Path
			}
		}
	}
	return best
}

// hostVariants: the names a request can carry in its Host header to reach the paths of a
// declared host: the host itself, a label in front of a wildcard, the server aliases
func hostVariants(in input, host string) []string {
	out := []string{host}
	if strings.HasPrefix(host, "*.") {
		out = []string{"zz9" + host[1:]}
	}
	seen := map[string]bool{}
	for _, g := range in.Ingresses {
		a := g.Ann["server-alias"]
		if a == "" || seen[a] {
			continue
		}
		for _, r := range g.Rules {
			if r.Host == host && !seen[a] {
				seen[a] = true
				out = append(out, a)
			}
		}
	}
	return out
}

func probes(in input, host, path string) []string {
	cands := []string{path, strings.TrimSuffix(path, "/") + "/zz9"}
	if in.PathType == "ImplementationSpecific" {
		cands = append(cands, path+"zz9", strings.ToUpper(path), strings.ToLower(path))
	}
	var out []string
	seen := map[string]bool{}
	for _, c := range cands {
		if !seen[c] && routes(in, host, c) == path {
			seen[c] = true
			out = append(out, c)
		}
	}
	return out
}

func hostConflict(in input, g ingIn) bool {
	for _, o := range in.Ingresses {
		if o.id() == g.id() {
			continue
		}
		share := false
		for _, r := range o.Rules {
			for _, q := range g.Rules {
				if r.Host == q.Host {
					share = true
				}
			}
		}
		if !share {
			continue
		}
		for _, k := range []string{kURL, kPlace} {
			if v, ok := o.Ann[k]; ok && v != g.Ann[k] {
				return true
			}
		}
		// the frontend placement is host wide: the same relative svc:// url declared from
		// two namespaces on one host is resolved once, in the namespace registered first
		if v := o.Ann[kURL]; v != "" && o.ns() != g.ns() && (strings.HasPrefix(v, "svc://") || strings.HasPrefix(v, "service://")) {
			return true
		}
	}
	return false
}

func siblingHasURL(in input, g ingIn, service string) bool {
	for _, o := range in.Ingresses {
		if o.id() == g.id() || o.Ann[kURL] == "" || o.ns() != g.ns() {
			continue
		}
		for _, r := range o.Rules {
			if r.Service == service {
				return true
			}
		}
	}
	return false
}

func oraclePipeline(in input, obs *pipeObs) []fail {
	var fs []fail
	hc := obs.pipe.Instance.Config()
	secs := map[string]*c1819.Section{}
	for _, s := range c1819.Sections(obs.cfg) {
		secs[s.Kind+" "+s.Name] = s
	}
	byIng := map[string]ingIn{}
	for _, g := range in.Ingresses {
		byIng[g.id()] = g
	}
	nf, err := cfgnorm.Load(obs.pipe.Dir, "")
	if err != nil {
		panic(fmt.Sprintf("cfgnorm: %v", err))
	}
	for _, po := range obs.Paths {
		g := byIng[po.Ingress]
		d := declOf(effAnn(in, g.Ann))
		if !d.declared {
			continue
		}
		if b := hc.Backends().Items()[po.Backend]; b != nil && b.ModeTCP {
			// the root of an ssl-passthrough host: TLS is forwarded in tcp mode, there is no
			// http request to authenticate (plain http to it is redirected to https)
			continue
		}
		id := fmt.Sprintf("%s %s%s (%s, declared %s)", po.Ingress, po.Host, po.Path, po.Backend, po.Declared)
		beProt := po.Deny || po.Name != ""
		feProt := po.FeSet && (po.FeDeny || po.FeName != "")
		// 1. objects: a deny marker or an auth backend, where the declaration puts it
		// (after fixes/C18-placement-fail-closed.patch a frontend placement the host did not
		// take is denied in the backend, so either side may hold the protection)
		objOK := beProt || feProt
		if !objOK {
			key := "backend-path-unprotected"
			switch {
			case d.oauth && (d.url != "" || siblingHasURL(in, g, serviceOf(g, po))):
				key = "oauth-reset-by-auth-url"
			case d.oauth:
				key = "oauth-path-unprotected"
			case d.place == "frontend" && !po.FeSet && hostConflict(in, g):
				key = "frontend-placement-lost-on-host-conflict"
			case d.place == "frontend":
				key = "frontend-path-unprotected"
			}
			fs = append(fs, fail{key, id + ": neither AlwaysDeny nor an auth backend on the path object"})
			continue
		}
		if po.Allowed == "/" && !po.Deny {
			fs = append(fs, fail{"oauth-allowed-path-root", id + ": the oauth configuration exempts path_beg / , that is every request, from the authentication"})
			continue
		}
		// 2. the auth backend is the one the declaration names
		own := map[string]bool{}
		checkName := func(name, url string) {
			if name == "" {
				return
			}
			own[name] = true
			if !strings.HasPrefix(name, "_auth_") {
				return // oauth: a backend id, checked below
			}
			target, found := obs.Binds[name]
			if !found {
				fs = append(fs, fail{"auth-backend-dangling", fmt.Sprintf("%s: %s has no bind in the auth proxy", id, name)})
				return
			}
			// the same through the written configuration: backend _auth_N -> its server
			// 127.0.0.1:P -> the bind of the auth proxy -> use_backend
			if rb, found := followAuthName(secs, name); !found {
				fs = append(fs, fail{"auth-backend-dangling", fmt.Sprintf("%s: %s cannot be followed to a backend in the rendered configuration", id, name)})
				return
			} else if rb != target {
				fs = append(fs, fail{"wrong-auth-service", fmt.Sprintf("%s: rendered %s reaches backend %s, the bind list says %s", id, name, rb, target)})
				return
			}
			urlNS := g.ns()
			if _, own := g.Ann[kURL]; !own {
				urlNS = "" // inherited from the global ConfigMap: no source, no namespace
			}
			ips, port, backendID, ok := urlTarget(url, urlNS)
			if !ok {
				fs = append(fs, fail{"wrong-auth-service", fmt.Sprintf("%s: %q cannot designate a service but %s -> %s was configured", id, url, name, target)})
				return
			}
			if backendID != "" {
				if backendID != target {
					fs = append(fs, fail{"wrong-auth-service", fmt.Sprintf("%s: %q is served by %s", id, url, target)})
				}
				return
			}
			var got []string
			for _, b := range hc.Backends().Items() {
				if b.ID == target {
					for _, ep := range b.Endpoints {
						got = append(got, fmt.Sprintf("%s:%d", ep.IP, ep.Port))
					}
				}
			}
			var want []string
			for _, ip := range ips {
				want = append(want, fmt.Sprintf("%s:%d", ip, port))
			}
			sort.Strings(got)
			sort.Strings(want)
			if strings.Join(got, ",") != strings.Join(want, ",") {
				fs = append(fs, fail{"wrong-auth-service", fmt.Sprintf("%s: %q should reach %v, %s -> %s reaches %v", id, url, want, name, target, got)})
			}
		}
		if strings.HasPrefix(po.Name, "_auth_") {
			checkName(po.Name, d.url)
		} else if po.Name != "" {
			own[po.Name] = true
			if hc.Backends().Items()[po.Name] == nil {
				fs = append(fs, fail{"auth-backend-dangling", fmt.Sprintf("%s: oauth backend %s does not exist", id, po.Name)})
			}
		}
		if po.FeSet && d.place == "frontend" && !hostConflict(in, g) {
			checkName(po.FeName, d.url)
		} else if po.FeName != "" {
			own[po.FeName] = true
		}
		// 3. rendered rules, for requests that route to this path
		be := secs["backend "+po.Backend]
		if be == nil {
			fs = append(fs, fail{"rendered-backend-missing", id + ": no backend section"})
			continue
		}
		beRules := c1819.ParseAuthRules(be.Lines)
		// the rules of the backend are scoped by path ids
		needID := false
		for _, r := range beRules {
			for _, c := range r.Conds {
				if c.Kind == "pathid" {
					needID = true
				}
			}
		}
		for _, fe := range []string{"frontend _front_http", "frontend _front_https"} {
			fsec := secs[fe]
			if fsec == nil {
				continue
			}
			rules := append(c1819.ParseAuthRules(fsec.Lines), beRules...)
			served := false
			for i, u := range probes(in, po.Host, po.Path) {
				if po.Allowed != "" && strings.HasPrefix(u, po.Allowed) {
					continue // the oauth sign-in prefix is exempt by design of the declaration
				}
				for _, hv := range hostVariants(in, po.Host) {
					// txn.pathID as HAProxy derives it: the frontend maps pick the backend, the
					// idpath maps of that backend, read from disk, give the id (lib/cfgnorm)
					rt := cfgnorm.Route(nf, cfgnorm.Request{Scheme: "http", Host: hv, Path: u})
					if rt.Backend != po.Backend {
						continue // redirected, refused or answered elsewhere: not this path's business
					}
					pathID := rt.Vars["txn.pathID"]
					for _, meth := range []string{"GET", "POST", "OPTIONS", "HEAD", "PUT"} {
						q := c1819.Request{Base: strings.ToLower(hv) + "#" + u, Path: u, PathID: pathID, Method: meth}
						// a client every authentication service rejects
						v := c1819.RunAuth(rules, q, func(string) bool { return false })
						if v.Served {
							key := "rendered-rule-missing"
							switch {
							case pathID != po.PathID && needID && c1819.RunAuth(rules, c1819.Request{Base: q.Base, Path: u, PathID: po.PathID, Method: meth}, func(string) bool { return false }).Served == false:
								// with the id of the path the rules hold: the id was not derived
								key = "rendered-pathid-not-derived"
							case meth != "GET":
								// the same request with GET is covered: a condition on the method
								key = "rendered-rule-skips-method"
							case (i > 0 || hv != po.Host) && feProt && !beProt:
								// the exact path is covered, this request of the same path is not,
								// and only the frontend holds the rule
								key = "frontend-rule-exact-match-only"
							case i > 0:
								key = "rendered-rule-misses-request"
							}
							fs = append(fs, fail{key, fmt.Sprintf("%s: %s %s%s through %s reaches %s with txn.pathID=%q and is served without authentication (no deny, no auth-intercept+deny applies)", id, meth, hv, u, fe, rt.Backend, pathID)})
							served = true
							break
						}
						// a client only the other services accept
						v = c1819.RunAuth(rules, q, func(n string) bool { return !own[n] })
						if v.Served {
							fs = append(fs, fail{"rendered-rule-other-service", fmt.Sprintf("%s: %s %s%s through %s is served when only foreign auth services accept it (%v ran)", id, meth, hv, u, fe, v.Checked)})
							served = true
							break
						}
					}
					if served {
						break
					}
				}
				if served {
					break
				}
			}
		}
	}
	return fs
}

var bindRe = regexp.MustCompile(`^\s*bind 127\.0\.0\.1:(\d+)(?: id (\d+))?\s*$`)
var useRe = regexp.MustCompile(`^\s*use_backend (\S+)(?: if \{ so_id (\d+) \})?\s*$`)
var srvRe = regexp.MustCompile(`^\s*server \S+ 127\.0\.0\.1:(\d+)\s*$`)

// followAuthName resolves an `_auth_<port>` name in the rendered configuration to the
// backend the auth proxy sends its requests to.
func followAuthName(secs map[string]*c1819.Section, name string) (string, bool) {
	be := secs["backend "+name]
	if be == nil {
		return "", false
	}
	port := ""
	for _, l := range be.Lines {
		if m := srvRe.FindStringSubmatch(l); m != nil {
			port = m[1]
		}
	}
	if port == "" {
		return "", false
	}
	for _, s := range secs {
		if s.Kind != "frontend" {
			continue
		}
		sid, has := "", false
		for _, l := range s.Lines {
			if m := bindRe.FindStringSubmatch(l); m != nil && m[1] == port {
				sid, has = m[2], true
			}
		}
		if !has {
			continue
		}
		for _, l := range s.Lines {
			if m := useRe.FindStringSubmatch(l); m != nil && m[2] == sid {
				return m[1], true
			}
		}
	}
	return "", false
}

func serviceOf(g ingIn, po pathObs) string {
	for _, r := range g.Rules {
		if r.Host == po.Host && r.Path == po.Path {
			return r.Service
		}
	}
	return ""
}

// ---------------------------------------------------------------- main

func main() {
	o := hx.Parse()
	abs, err := filepath.Abs(o.Out)
	if err != nil {
		panic(err)
	}
	o.Out = abs
	scratch := filepath.Join(abs, "scratch")
	rng := o.Rng()
	res := hx.NewResult("C18", "1..5 Ingresses on 2 hosts / 6 paths / 2 application services (paths of several Ingresses share backends), each Ingress annotated with nothing | auth-url (well-formed http/https/svc to IP literals, localhost or services; unresolvable names; unknown protocol; missing port or service; malformed; junk) | oauth (valid/invalid implementation, custom prefix, with or without an exposed oauth2 path) | both; placement absent/backend/frontend/odd; auth-proxy ranges default, 1, 2, 3 ports, empty, invalid; external haproxy with/without lua; one path type per case; plus sequences of updater calls in a fixed order; non-trivial = at least one path with declared external authentication; distinct by canonical JSON of the input")
	cw := hx.NewCaseWriter(o, res, "From HI Require Import Corr.Corr_C18.", "ucase", 80)
	var inputs []input
	if o.Replay != "" {
		var in input
		hx.ReadReplay(o.Replay, &in)
		inputs = append(inputs, in)
	} else {
		for _, f := range c1819.CorpusFiles("c18") {
			var in input
			hx.ReadReplay(f, &in)
			inputs = append(inputs, in)
		}
		inputs = append(inputs, corpus()...)
		inputs = append(inputs, updaterCorpus()...)
		np, nu := o.Count(1000, 12000), o.Count(600, 8000)
		if o.Search {
			np, nu = 12000, 6000
		}
		for i := 0; i < np+nu; i++ {
			if i%2 == 0 && i/2 < nu {
				inputs = append(inputs, genUpdater(rng))
			} else {
				inputs = append(inputs, genPipeline(rng))
			}
		}
	}
	perKey := map[string]int{} // keep a few failures of every cause, not 50 of the first one
	for _, in := range inputs {
		canon, _ := json.Marshal(in)
		res.Count("kind=" + in.Kind)
		var fails []fail
		var observed interface{}
		nontrivial := false
		if in.Kind == "updater" {
			uo := runUpdater(in, scratch)
			fails = oracleUpdater(in, uo)
			observed = uo
			nontrivial = countUpdater(in, uo, res)
			if !o.Search {
				in, uo := in, uo
				cw.Add(func(id int) string { return coqCase(id, in, uo) }, in)
			}
			res.Sample(2, map[string]interface{}{"input": in, "observed": uo})
		} else {
			in.Kind = "pipeline"
			po := runPipeline(in, scratch, func(step int, sub input, obs *pipeObs) {
				for _, f := range oraclePipeline(sub, obs) {
					if step > 0 {
						f.what = fmt.Sprintf("after partial sync %d: %s", step, f.what)
					}
					fails = append(fails, f)
				}
			})
			observed = po
			for _, p := range po.Paths {
				res.Count("declared=" + p.Declared)
				if p.Declared != "no" {
					nontrivial = true
					switch {
					case p.Deny || (p.FeSet && p.FeDeny):
						res.Count("outcome=deny")
					case p.Name != "" || p.FeName != "":
						res.Count("outcome=auth-backend")
					default:
						res.Count("outcome=nothing")
					}
				}
			}
			if v, ok := in.Global["auth-proxy"]; ok {
				res.Count("auth-proxy=" + v)
			}
			res.Sample(4, map[string]interface{}{"input": in, "observed": po})
		}
		res.Seen(string(canon), nontrivial)
		res.OracleChecks++
		seen := map[string]bool{}
		for _, f := range fails {
			res.Count("oracle_fail_" + f.key)
			if !seen[f.key] && perKey[f.key] < 4 {
				seen[f.key] = true
				perKey[f.key]++
				res.Fail(hx.Failure{Key: "C18/" + f.key, What: f.what, Input: in, Observed: observed})
			}
		}
	}
	cw.Flush()
	if os.Getenv("VERIF_KEEP") == "" {
		_ = os.RemoveAll(scratch)
	}
	res.Write(o)
}
