package main

// "updater" cases: the real annotations.Updater driven call by call (see main.go).

import (
	"encoding/json"
	"fmt"
	"math/rand"
	"net"
	"os"
	"path/filepath"
	"regexp"
	"sort"
	"strconv"
	"strings"

	"github.com/jcmoraisjr/haproxy-ingress/pkg/converters/ingress/annotations"
	ingutils "github.com/jcmoraisjr/haproxy-ingress/pkg/converters/ingress/utils"
	hatypes "github.com/jcmoraisjr/haproxy-ingress/pkg/haproxy/types"

	"verif/harness/lib/c1819"
	"verif/harness/lib/hx"
)

type upath struct {
	Host string `json:"host"`
	Path string `json:"path"`
	Ing  int    `json:"ing"` // index in input.Ingresses of the annotation set of this path
}

type ubackend struct {
	Name  string  `json:"name"`
	Paths []upath `json:"paths"`
}

// call is one updater call; the backends/hosts are those of input.UBackends.
type call struct {
	Kind string `json:"kind"` // host | backend | commit (the instance update between two syncs)
	Name string `json:"name"`
	// Shift > 0: the backend is processed again as after a partial sync: its paths are reset
	// and path i now carries the annotation set (Ing+Shift) mod len(Ingresses)
	Shift int `json:"shift,omitempty"`
}

// ---------------------------------------------------------------- generator

func genUpdater(rng *rand.Rand) input {
	in := input{Kind: "updater", Global: map[string]string{}, PathType: pick(rng, []string{"Prefix", "ImplementationSpecific", "Exact"})}
	if r := pick(rng, proxyRanges); r != "" {
		in.Global["auth-proxy"] = r
	}
	if rng.Intn(8) == 0 {
		in.External = true
		if rng.Intn(2) == 0 {
			in.Global["external-has-lua"] = "true"
		}
	}
	genGlobalAuth(rng, in.Global)
	nann := 1 + rng.Intn(4)
	oauth := false
	for i := 0; i < nann; i++ {
		g := ingIn{Name: fmt.Sprintf("ing%d", i+1), Ann: genAnn(rng)}
		if _, ok := g.Ann[kOAuth]; ok {
			oauth = true
		}
		// an empty oauth prefix designates every "/" path: which one findBackend returns
		// depends on the iteration order of a Go map; not part of this property
		_ = strings.TrimRight
		switch rng.Intn(6) {
		case 0, 1:
			g.Namespace = pick(rng, []string{"team-a", "team-b"})
		case 2:
			// the same manifest as an earlier one, in another namespace
			if i > 0 {
				o := in.Ingresses[rng.Intn(i)]
				g.Ann = o.Ann
				g.Namespace = map[string]string{"default": "team-a", "team-a": "team-b", "team-b": ""}[o.ns()]
				if _, ok := g.Ann[kOAuth]; ok {
					oauth = true
				}
			}
		}
		in.Ingresses = append(in.Ingresses, g)
	}
	hosts := []string{"h1.local", "h2.local"}
	pool := []string{"/", "/app", "/api", "/app/sub", "/x", "/y", "/z"}
	used := map[string]bool{}
	nb := 1 + rng.Intn(3)
	for b := 0; b < nb; b++ {
		ub := ubackend{Name: fmt.Sprintf("app%d", b+1)}
		np := 1 + rng.Intn(4)
		big := rng.Intn(25) == 0
		if big {
			np = 31 + rng.Intn(8) // more than one chain of path ids
		}
		bigIng := rng.Intn(nann)
		for j := 0; j < np; j++ {
			h := hosts[rng.Intn(2)]
			p := pool[rng.Intn(len(pool))]
			ing := rng.Intn(nann)
			if big {
				p = fmt.Sprintf("/b%d/p%02d", b, j)
				if j > 0 {
					ing = bigIng
				}
			}
			if used[h+p] {
				continue
			}
			used[h+p] = true
			ub.Paths = append(ub.Paths, upath{Host: h, Path: p, Ing: ing})
		}
		if len(ub.Paths) > 0 {
			in.UBackends = append(in.UBackends, ub)
		}
	}
	if oauth && rng.Intn(4) != 0 {
		prefix := "/oauth2"
		if rng.Intn(6) == 0 {
			prefix = "/auth2"
		}
		h := hosts[rng.Intn(2)]
		if !used[h+prefix] {
			in.UBackends = append(in.UBackends, ubackend{Name: "oauth2proxy", Paths: []upath{{Host: h, Path: prefix, Ing: -1}}})
		}
	}
	if rng.Intn(5) == 0 {
		in.PassHosts = []string{hosts[rng.Intn(2)]}
	}
	if oauth && rng.Intn(3) == 0 {
		// the oauth prefix as a redirect-only path, alone or on a host sorted before the real one
		in.CrossNS = rng.Intn(2) == 0
		for _, pfx := range []string{"/oauth2", "/auth2"} {
			h := pick(rng, []string{"a0.local", "a0.local", hosts[0]})
			if !used[h+pfx] && rng.Intn(2) == 0 {
				used[h+pfx] = true
				in.Redirects = append(in.Redirects, upath{Host: h, Path: pfx, Ing: -1})
			}
		}
	} else if rng.Intn(6) == 0 {
		in.CrossNS = true
	}
	// hosts first (any order), then backends (any order): what the converter does, where
	// the order inside each group is the iteration order of a Go map
	hs := map[string]bool{}
	for _, b := range in.UBackends {
		for _, p := range b.Paths {
			hs[p.Host] = true
		}
	}
	var hl []string
	for h := range hs {
		hl = append(hl, h)
	}
	sort.Strings(hl)
	rng.Shuffle(len(hl), func(i, j int) { hl[i], hl[j] = hl[j], hl[i] })
	for _, h := range hl {
		in.Calls = append(in.Calls, call{Kind: "host", Name: h})
	}
	perm := rng.Perm(len(in.UBackends))
	for _, i := range perm {
		in.Calls = append(in.Calls, call{Kind: "backend", Name: in.UBackends[i].Name})
	}
	if rng.Intn(3) == 0 && len(in.Calls) > 2 {
		// the controller writes and commits between two syncs: the rest happens in a later one
		at := 1 + rng.Intn(len(in.Calls)-1)
		in.Calls = append(in.Calls[:at], append([]call{{Kind: "commit"}}, in.Calls[at:]...)...)
		if rng.Intn(2) == 0 {
			in.Global["auth-proxy"] = pick(rng, []string{"_front__auth__local:14415-14415", "_front__auth__local:14415-14416"})
		}
	}
	if rng.Intn(3) == 0 && nann > 1 {
		if rng.Intn(2) == 0 {
			// a short range, so that the binds the first pass leaves behind are in the way
			in.Global["auth-proxy"] = pick(rng, []string{"_front__auth__local:14415-14415", "_front__auth__local:14415-14416"})
		}
		for k := 0; k < 1+rng.Intn(3); k++ {
			in.Calls = append(in.Calls, call{Kind: "backend", Name: in.UBackends[rng.Intn(len(in.UBackends))].Name, Shift: 1 + rng.Intn(nann-1)})
		}
	}
	return in
}

func updaterCorpus() []input {
	std := func(g map[string]string, ings []ingIn, bs []ubackend, calls ...string) input {
		in := input{Kind: "updater", Global: g, PathType: "Prefix", Ingresses: ings, UBackends: bs}
		for _, c := range calls {
			f := strings.SplitN(c, ":", 2)
			in.Calls = append(in.Calls, call{Kind: f[0], Name: f[1]})
		}
		return in
	}
	return []input{
		// oauth + failing auth-url, sibling with auth-url, unprotected sibling
		std(nil, []ingIn{{Name: "ing1", Ann: annOf(kOAuth, "oauth2_proxy", kURL, "http://unresolvable.invalid/auth")},
			{Name: "ing2", Ann: annOf(kURL, "http://10.0.0.2:8000/auth")}, {Name: "ing3"}, {Name: "ing4", Ann: annOf(kOAuth, "oauth2_proxy")}},
			[]ubackend{{Name: "app1", Paths: []upath{{"h1.local", "/", 0}, {"h1.local", "/other", 1}, {"h1.local", "/pub", 2}, {"h1.local", "/o", 3}}},
				{Name: "oauth2proxy", Paths: []upath{{"h1.local", "/oauth2", -1}}}},
			"host:h1.local", "backend:app1", "backend:oauth2proxy"),
		// one port: the frontend placement takes it, a backend placement of another service is denied
		std(map[string]string{"auth-proxy": "_front__auth__local:14415-14415"},
			[]ingIn{{Name: "ing1", Ann: annOf(kURL, "http://localhost:8000/auth", kPlace, "frontend")}, {Name: "ing2", Ann: annOf(kURL, "http://10.0.0.5")}},
			[]ubackend{{Name: "app1", Paths: []upath{{"h1.local", "/app", 0}}}, {Name: "app2", Paths: []upath{{"h2.local", "/App", 1}}}},
			"host:h1.local", "host:h2.local", "backend:app2", "backend:app1"),
		// a full auth proxy whose only bind became unreferenced: the clean up releases it
		func() input {
			in := std(map[string]string{"auth-proxy": "_front__auth__local:14415-14415"},
				[]ingIn{{Name: "ing1", Ann: annOf(kURL, "http://10.0.0.2:8000/auth")}, {Name: "ing2", Ann: annOf(kURL, "http://10.0.0.3:8000/auth")}},
				[]ubackend{{Name: "app1", Paths: []upath{{"h1.local", "/app", 0}}}, {Name: "app2", Paths: []upath{{"h1.local", "/x", 0}}}},
				"host:h1.local", "backend:app1")
			in.Calls = append(in.Calls, call{Kind: "backend", Name: "app1", Shift: 1}, call{Kind: "backend", Name: "app2"})
			return in
		}(),
		// two tenants, same manifest: svc://authsvc:8080 is a different service in each namespace,
		// same service on another port, both placements
		std(nil, []ingIn{{Namespace: "team-a", Name: "ing1", Ann: annOf(kURL, "svc://authsvc:8080/check")},
			{Namespace: "team-b", Name: "ing1", Ann: annOf(kURL, "svc://authsvc:8080/check")},
			{Namespace: "team-b", Name: "ing2", Ann: annOf(kURL, "svc://authsvc:9090/check", kPlace, "frontend")}},
			[]ubackend{{Name: "app1", Paths: []upath{{"a.local", "/", 0}}}, {Name: "app2", Paths: []upath{{"b.local", "/", 1}}}, {Name: "app3", Paths: []upath{{"c.local", "/", 2}}}},
			"host:a.local", "host:b.local", "host:c.local", "backend:app1", "backend:app2", "backend:app3"),
		// one port; app1 takes it, the changes are committed, then app2 of another service comes:
		// the bind of the untouched app1 is referenced and stays, app2 is denied
		func() input {
			in := std(map[string]string{"auth-proxy": "_front__auth__local:14415-14415"},
				[]ingIn{{Name: "ing1", Ann: annOf(kURL, "http://10.0.0.1/auth")}, {Name: "ing2", Ann: annOf(kURL, "http://10.0.0.2/auth")}},
				[]ubackend{{Name: "app1", Paths: []upath{{"a.local", "/", 0}}}, {Name: "app2", Paths: []upath{{"b.local", "/", 1}}}},
				"host:a.local", "host:b.local", "backend:app1")
			in.Calls = append(in.Calls, call{Kind: "commit"}, call{Kind: "backend", Name: "app2"})
			return in
		}(),
		// oauth whose prefix only exists as a redirect-only path, cross namespace allowed: a path
		// without backend is never the oauth2 proxy, the declaring path stays denied
		func() input {
			in := std(nil, []ingIn{{Name: "ing1", Ann: annOf(kOAuth, "oauth2_proxy")}, {Name: "ing2"}},
				[]ubackend{{Name: "app1", Paths: []upath{{"h1.local", "/", 0}, {"h1.local", "/pub", 1}}}},
				"host:h1.local", "backend:app1")
			in.CrossNS = true
			in.Redirects = []upath{{Host: "a0.local", Path: "/oauth2", Ing: -1}}
			return in
		}(),
		// frontend placement lost to a sibling of the same host
		std(nil, []ingIn{{Name: "ing0", Ann: annOf(kURL, "http://10.0.0.3:8000/auth", kPlace, "backend")}, {Name: "ing1", Ann: annOf(kURL, "http://10.0.0.2:8000/auth", kPlace, "frontend")}},
			[]ubackend{{Name: "app1", Paths: []upath{{"h1.local", "/pub", 0}, {"h1.local", "/app", 1}}}},
			"host:h1.local", "backend:app1"),
	}
}

// ---------------------------------------------------------------- running

type authObs struct {
	Deny    bool   `json:"deny"`
	Name    string `json:"name,omitempty"`
	Allowed string `json:"allowed,omitempty"`
	Rest    string `json:"rest,omitempty"` // canonical text of the remaining fields
	vars    int
	redir   bool
}

type upathObs struct {
	Host string   `json:"host"`
	Path string   `json:"path"`
	ID   string   `json:"id"`
	Back authObs  `json:"backend"`
	Fe   *authObs `json:"frontend,omitempty"`
}

// corsObs: hatypes.Cors of a path as far as the request rules go
type corsObs struct {
	ID   string
	On   bool
	Dyn  bool
	Text string // the whole struct, for DeepEqual
}

// probeObs: one request run through the rendered rules by the Go evaluator
type probeObs struct {
	Key, ID, Path string
	Exact         bool
	Method        string
	OK            bool // every authentication service answers ok / none does
	Verdict       string
}

type ubackObs struct {
	idmap  [][2]string // the real idpath maps of the backend: key, path id
	cors   []corsObs
	xrules []c1819.AuthRule
	probes []probeObs
	Name   string     `json:"name"`
	ID     string     `json:"id"`
	Paths  []upathObs `json:"paths"`
	Rules  []ruleObs  `json:"rules"`
	raw    []c1819.AuthRule
	be     *hatypes.Backend
	call   int
	shift  int
}

type ruleObs struct {
	Act  string   `json:"act"`
	Name string   `json:"name,omitempty"`
	Ids  []string `json:"ids,omitempty"`
	Key  string   `json:"key,omitempty"`
	All  bool     `json:"all,omitempty"`
	Skip string   `json:"skip,omitempty"`
	Bad  string   `json:"unparsed,omitempty"`
}

type uhostObs struct {
	Name  string     `json:"name"`
	Paths []upathObs `json:"paths"` // host.Paths order
	call  int
}

type bindObs struct {
	Port   int    `json:"port"`
	Target string `json:"target"`
}

type updObs struct {
	Hosts    []uhostObs `json:"hosts"`    // call order
	Backs    []ubackObs `json:"backends"` // call order
	Binds    []bindObs  `json:"binds"`
	Front    []ruleObs  `json:"frontend_rules"`
	Warn     []string   `json:"warnings,omitempty"`
	frontRaw map[string][]c1819.AuthRule
	xfront   []c1819.AuthRule
	fprobes  []probeObs
	released int
	used     [][]int        // per host/backend call: ports of the names the real objects reference
	targets  map[string]int // target key -> id
	urls     map[string]urlInfo
}

type urlInfo struct {
	parse                     bool
	proto                     string
	dns, port, ns, xns, found bool
	target                    int
}

func projAuth(a *hatypes.AuthExternal) authObs {
	rest := ""
	if a.AuthPath != "" || a.Method != "" || a.RedirectOnFail != "" || len(a.HeadersFail)+len(a.HeadersRequest)+len(a.HeadersSucceed)+len(a.HeadersVars) > 0 {
		var vars []string
		for k, v := range a.HeadersVars {
			vars = append(vars, k+"="+v)
		}
		sort.Strings(vars)
		rest = fmt.Sprintf("%q %q %q %q %q %q %q", a.AuthPath, a.Method, a.RedirectOnFail, a.HeadersFail, a.HeadersRequest, a.HeadersSucceed, vars)
	}
	return authObs{Deny: a.AlwaysDeny, Name: a.AuthBackendName, Allowed: a.AllowedPath, Rest: rest,
		vars: len(a.HeadersVars), redir: a.RedirectOnFail != ""}
}

var duoKeys = []string{kPlace, "auth-headers-fail", "auth-headers-request", "auth-headers-succeed", "auth-method", kSignin, kURL}

var updDefaults = map[string]string{
	kPlace: "backend", "auth-headers-fail": "*", "auth-headers-request": "*", "auth-headers-succeed": "*",
	"auth-method": "GET", "oauth-headers": "X-Auth-Request-Email",
}

func projRules(rs []c1819.AuthRule) []ruleObs {
	var out []ruleObs
	for _, r := range rs {
		if r.Act == "service" || r.Act == "setvar" || r.Act == "setheader" {
			continue // not a rule of the decision model (see xrules)
		}
		o := ruleObs{Name: r.Name}
		switch r.Act {
		case "deny":
			o.Act = "deny"
		case "intercept":
			o.Act = "intercept"
		default:
			o.Act = "guard"
		}
		o.All = true
		for _, c := range r.Conds {
			switch {
			case c.Kind == "authok" && c.Neg:
			case c.Kind == "pathid" && !c.Neg && c.Method == "str" && !c.ICase:
				o.Ids, o.All = c.Pats, false
			case c.Kind == "base" && !c.Neg && c.Method == "str" && !c.ICase && len(c.Pats) == 2:
				// the template prints `-m str <method> '<key>'`: two patterns, exact match
				o.Key, o.All = c.Pats[1], false
			case c.Kind == "pathbeg" && c.Neg && len(c.Pats) == 1:
				o.Skip = c.Pats[0]
			default:
				o.Bad = c.Raw
			}
		}
		out = append(out, o)
	}
	return out
}

// ingAt: the annotation set of a path for a call with the given shift
func ingAt(in input, base, shift int) int {
	if base < 0 {
		return -1
	}
	return (base + shift) % len(in.Ingresses)
}

func runUpdater(in input, scratch string) *updObs {
	p, err := c1819.NewPipe(c1819.PipeOptions{Dir: scratch, Global: in.Global, Render: true, IsExternal: in.External})
	if err != nil {
		panic(err)
	}
	p.Sync() // the real UpdateGlobalConfig: auth-proxy range, external-has-lua
	hc := p.Instance.Config()
	upd := annotations.NewUpdater(hc, p.Options)
	// every namespace has its own authsvc, on two ports, with endpoints of its own
	for _, ns := range []string{"default", "team-a", "team-b"} {
		for _, port := range []int{8080, 9090} {
			auth := hc.Backends().AcquireBackend(ns, "authsvc", strconv.Itoa(port))
			auth.AcquireEndpoint(nsIP(ns, 21), port, "")
		}
	}
	match := matchOf(in.PathType)
	dflt := map[string]string{}
	for k, v := range updDefaults {
		dflt[k] = v
	}
	for _, k := range []string{kURL, kPlace, kSignin, kOAuth} {
		if v, ok := in.Global[k]; ok {
			dflt[k] = v // as the converter does: built-in defaults overridden by the ConfigMap
		}
	}
	builder := annotations.NewMapBuilder(p.Log, dflt)
	src := func(i int) *annotations.Source {
		return &annotations.Source{Namespace: in.Ingresses[i].ns(), Name: in.Ingresses[i].Name, Type: "Ingress"}
	}
	backs := map[string]*hatypes.Backend{}
	ubs := map[string]ubackend{}
	links := map[string]*hatypes.PathLink{}
	hmap := map[string]*annotations.Mapper{}
	hostIngs := map[string][]int{}
	for _, ub := range in.UBackends {
		be := hc.Backends().AcquireBackend("default", ub.Name, "8080")
		be.AcquireEndpoint("172.17.0.11", 8080, "")
		backs[ub.Name] = be
		ubs[ub.Name] = ub
		for _, up := range ub.Paths {
			h := hc.Hosts().AcquireHost(up.Host)
			hp := h.AddPath(be, up.Path, match)
			links[up.Host+" "+up.Path] = hp.Link
			if _, ok := hmap[up.Host]; !ok {
				hmap[up.Host] = builder.NewMapper()
			}
			if up.Ing >= 0 {
				hostIngs[up.Host] = append(hostIngs[up.Host], up.Ing)
			}
		}
	}
	p.Options.DynamicConfig.CrossNamespaceServices = in.CrossNS
	// redirect-only host paths: Host.AddRedirect, a path without backend (redirect-to)
	for _, rp := range in.Redirects {
		hc.Hosts().AcquireHost(rp.Host).AddRedirect(rp.Path, match, "http://other.example/x")
		if _, ok := hmap[rp.Host]; !ok {
			hmap[rp.Host] = builder.NewMapper()
		}
	}
	// ssl-passthrough hosts: their non root paths are http paths like the others
	for _, h := range in.PassHosts {
		if host := hc.Hosts().FindHost(h); host != nil {
			host.SetSSLPassthrough(true)
		}
	}
	// host wide annotations: every ingress of the host adds its duo keys on the same link,
	// in the order of the ingresses (the converter sorts them)
	for host, ings := range hostIngs {
		sort.Ints(ings)
		seen := map[int]bool{}
		for _, i := range ings {
			if seen[i] {
				continue
			}
			seen[i] = true
			ann := map[string]string{}
			for _, k := range duoKeys {
				if v, ok := in.Ingresses[i].Ann[k]; ok {
					ann[k] = v
				}
			}
			hmap[host].AddAnnotations(src(i), hatypes.CreateHostPathLink(host, "/", hatypes.MatchExact), ann)
		}
	}
	obs := &updObs{targets: map[string]int{}, urls: map[string]urlInfo{}, frontRaw: map[string][]c1819.AuthRule{}}
	// outcomes of the validation of every url of the case, before any call
	for _, g := range in.Ingresses {
		if u := g.Ann[kURL]; u != "" {
			obs.urls[g.ns()+"|"+u] = classifyURL(u, g.ns(), hc, obs.targets)
		}
	}
	if u := in.Global[kURL]; u != "" {
		obs.urls["|"+u] = classifyURL(u, "", hc, obs.targets) // no source: no namespace
	}
	p.Log.Msgs = nil
	called := map[string]bool{}
	stale := map[string]bool{} // acquired before the last commit
	for ci, c := range in.Calls {
		switch c.Kind {
		case "commit":
			// maps and files written, changes committed: what was added so far is not
			// "added in the current sync" any more
			if _, err := p.Write(); err != nil {
				panic(fmt.Sprintf("updater commit: %v", err))
			}
			for name := range backs {
				stale[name] = true
			}
		case "host":
			h := hc.Hosts().FindHost(c.Name)
			if h == nil || hmap[c.Name] == nil || called["h "+c.Name] {
				continue
			}
			called["h "+c.Name] = true
			obs.used = append(obs.used, realUsed(hc))
			upd.UpdateHostConfig(h, hmap[c.Name])
			ho := uhostObs{Name: c.Name, call: ci}
			for _, hp := range h.Paths {
				po := upathObs{Host: c.Name, Path: hp.Link.Key()}
				if hp.AuthExt != nil {
					a := projAuth(hp.AuthExt)
					po.Fe = &a
				}
				ho.Paths = append(ho.Paths, po)
			}
			obs.Hosts = append(obs.Hosts, ho)
		case "backend":
			be := backs[c.Name]
			if be == nil {
				continue
			}
			if stale[c.Name] {
				// a backend touched by a later sync is removed and built again, as the partial
				// sync of the converter does: it is one of the backends "added" in this sync,
				// the others are untouched
				id := be.ID
				hc.Backends().RemoveAll([]string{id})
				be = hc.Backends().AcquireBackend("default", c.Name, "8080")
				be.AcquireEndpoint("172.17.0.11", 8080, "")
				for _, up := range ubs[c.Name].Paths {
					be.AddBackendPath(links[up.Host+" "+up.Path])
				}
				backs[c.Name] = be
				stale[c.Name] = false
			} else if called["b "+c.Name] {
				// processed again: as a rebuilt backend, the paths start from scratch
				for _, bp := range be.Paths {
					bp.AuthExternal = hatypes.AuthExternal{}
				}
			}
			called["b "+c.Name] = true
			mapper := builder.NewMapper()
			for _, up := range ubs[c.Name].Paths {
				if i := ingAt(in, up.Ing, c.Shift); i >= 0 {
					ann := map[string]string{}
					for k, v := range in.Ingresses[i].Ann {
						ann[k] = v
					}
					mapper.AddAnnotations(src(i), links[up.Host+" "+up.Path], ann)
				}
			}
			obs.used = append(obs.used, realUsed(hc))
			before := map[string]string{}
			for _, b := range hc.Frontend().AuthProxy.BindList {
				before[b.AuthBackendName] = b.Backend.String()
			}
			upd.UpdateBackendConfig(be, mapper)
			after := map[string]string{}
			for _, b := range hc.Frontend().AuthProxy.BindList {
				after[b.AuthBackendName] = b.Backend.String()
			}
			for n, t := range before {
				if after[n] != t {
					obs.released++ // the clean up of a full auth proxy released or reassigned a bind
				}
			}
			bo := ubackObs{Name: c.Name, ID: be.ID, be: be, call: ci, shift: c.Shift}
			for _, bp := range be.Paths {
				po := upathObs{Host: bp.Hostname(), Path: bp.Link.Key(), ID: bp.ID, Back: projAuth(&bp.AuthExternal)}
				if h := hc.Hosts().FindHost(bp.Hostname()); h != nil {
					if hp := h.FindPathWithLink(bp.Link); hp != nil && hp.AuthExt != nil {
						a := projAuth(hp.AuthExt)
						po.Fe = &a
					}
				}
				bo.Paths = append(bo.Paths, po)
			}
			// keep the last result of each backend, at the position of its last call
			var kept []ubackObs
			for _, o := range obs.Backs {
				if o.Name != c.Name {
					kept = append(kept, o)
				}
			}
			obs.Backs = append(kept, bo)
		}
	}
	obs.Warn = p.Log.Msgs
	cfg, err := p.Write()
	if err != nil {
		panic(fmt.Sprintf("updater write: %v", err))
	}
	secs := map[string]*c1819.Section{}
	for _, s := range c1819.Sections(cfg) {
		secs[s.Kind+" "+s.Name] = s
	}
	for _, fe := range []string{"frontend _front_http", "frontend _front_https"} {
		if s := secs[fe]; s != nil {
			obs.frontRaw[fe] = c1819.ParseAuthRules(s.Lines)
		}
	}
	obs.Front = projRules(obs.frontRaw["frontend _front_http"])
	for _, b := range hc.Frontend().AuthProxy.BindList {
		obs.Binds = append(obs.Binds, bindObs{Port: b.LocalPort, Target: targetKeyOfBackend(hc, b.Backend.String())})
	}
	for i := range obs.Backs {
		bo := &obs.Backs[i]
		if s := secs["backend "+bo.ID]; s != nil {
			bo.raw = c1819.ParseAuthRules(s.Lines)
			bo.Rules = projRules(bo.raw)
		}
		bo.xrules = xfilter(bo.raw)
		files, _ := filepath.Glob(filepath.Join(p.Dir, "etc", "haproxy", "maps", "_back_"+bo.ID+"_idpath*.map"))
		sort.Strings(files)
		for _, f := range files {
			data, err := os.ReadFile(f)
			if err != nil {
				continue
			}
			for _, ln := range strings.Split(string(data), "\n") {
				if fld := strings.Fields(ln); len(fld) == 2 && !strings.HasPrefix(fld[0], "#") {
					bo.idmap = append(bo.idmap, [2]string{fld[0], fld[1]})
				}
			}
		}
		for _, bp := range bo.be.Paths {
			c := bp.Cors
			bo.cors = append(bo.cors, corsObs{ID: bp.ID, On: c.Enabled && len(c.AllowOrigin) > 0,
				Dyn: len(c.AllowOriginRegex) > 0 || len(c.AllowOrigin) > 1, Text: fmt.Sprintf("%+v", c)})
		}
		for i, po := range bo.Paths {
			if i < 5 || i == len(bo.Paths)-1 { // the big backends would only repeat themselves
				bo.probes = append(bo.probes, probesFor(bo.xrules, po.Path, po.ID, po.Back.Allowed, true)...)
			}
		}
	}
	obs.xfront = xfilter(obs.frontRaw["frontend _front_http"])
	for _, ho := range obs.Hosts {
		for i, po := range ho.Paths {
			if i >= 4 {
				break
			}
			allowed := ""
			if po.Fe != nil {
				allowed = po.Fe.Allowed
			}
			obs.fprobes = append(obs.fprobes, probesFor(obs.xfront, po.Path, "path01", allowed, true)...)
			obs.fprobes = append(obs.fprobes, probesFor(obs.xfront, po.Path, "path01", allowed, false)...)
		}
	}
	return obs
}

// realUsed: what setAuthExternal would hand to RemoveAuthBackendExcept right now: the real
// Backends().BuildUsedAuthBackends() plus the names held by the host paths
func realUsed(hc interface {
	Backends() *hatypes.Backends
	Hosts() *hatypes.Hosts
}) []int {
	names := hc.Backends().BuildUsedAuthBackends()
	for _, h := range hc.Hosts().Items() {
		for _, hp := range h.Paths {
			if hp.AuthExt != nil && hp.AuthExt.AuthBackendName != "" {
				names[hp.AuthExt.AuthBackendName] = true
			}
		}
	}
	var out []int
	for n := range names {
		if m := authNameRe.FindStringSubmatch(n); m != nil {
			p, _ := strconv.Atoi(m[1])
			out = append(out, p)
		}
	}
	sort.Ints(out)
	return out
}

// xfilter keeps the rules the Cors and AuthExternal blocks emit (Model/AuthRules.v)
func xfilter(rs []c1819.AuthRule) []c1819.AuthRule {
	var out []c1819.AuthRule
	for _, r := range rs {
		switch r.Act {
		case "setvar":
			if !strings.HasPrefix(r.Args[0], "set-var(txn.cors_max_age)") && !strings.HasPrefix(r.Args[0], "set-var(txn.hdr_origin") {
				continue
			}
		case "setheader":
			found := false
			for _, c := range r.Conds {
				if c.Kind == "varfound" {
					found = true
				}
			}
			if !found {
				continue
			}
		case "service":
			if len(r.Args) == 0 || r.Args[0] != "lua.send-cors-preflight" {
				continue
			}
		}
		out = append(out, r)
	}
	return out
}

// probesFor runs requests of one path through rules with the Go evaluator: the path itself
// and a URL under its allowed prefix, four methods, services all ok / all failing
func probesFor(rules []c1819.AuthRule, key, id, allowed string, exact bool) []probeObs {
	var out []probeObs
	i := strings.Index(key, "#")
	if i < 0 {
		return nil
	}
	host, path := key[:i], key[i+1:]
	urls := []string{path}
	if allowed != "" {
		urls = append(urls, allowed+"zz9")
	}
	for _, u := range urls {
		base := host + "#" + u
		if !exact {
			base += "zz9"
		}
		for _, m := range []string{"GET", "OPTIONS", "POST"} {
			for _, ok := range []bool{false, true} {
				ok := ok
				v := c1819.RunAuth(rules, c1819.Request{Base: base, Path: u, PathID: id, Method: m}, func(string) bool { return ok })
				verdict := "Denied"
				if v.Served {
					verdict = "Served"
				} else if v.Proxy {
					verdict = "AnsweredByProxy"
				}
				out = append(out, probeObs{Key: key, ID: id, Path: u, Exact: exact && u == path, Method: m, OK: ok, Verdict: verdict})
			}
		}
	}
	return out
}

// target key of an auth backend created by AcquireAuthBackend, or the id of a service backend
func targetKeyOfBackend(hc interface {
	Backends() *hatypes.Backends
}, id string) string {
	be := hc.Backends().Items()[id]
	if be == nil {
		return "?" + id
	}
	if be.Namespace != "_auth" {
		return "svc:" + id
	}
	var eps []string
	for _, ep := range be.Endpoints {
		eps = append(eps, fmt.Sprintf("%s:%d", ep.IP, ep.Port))
	}
	sort.Strings(eps)
	host := ""
	for _, l := range be.CustomConfig {
		if strings.HasPrefix(l, "http-request set-header Host ") {
			host = strings.TrimPrefix(l, "http-request set-header Host ")
		}
	}
	return "http:" + strings.Join(eps, ",") + ":" + host
}

func classifyURL(u, srcNS string, hc interface {
	Backends() *hatypes.Backends
}, targets map[string]int) urlInfo {
	info := urlInfo{ns: true}
	proto, host, port, _, err := ingutils.ParseURL(u)
	_ = host
	if err != nil {
		info.proto = "other"
		return info
	}
	info.parse = true
	key := ""
	switch proto {
	case "http", "https":
		info.proto = "http"
		var ips []string
		name := ""
		if net.ParseIP(host) != nil {
			ips = []string{host}
		} else if addrs, err := net.LookupHost(host); err == nil {
			ips, name = addrs, host
		}
		if len(ips) > 0 {
			info.dns = true
			pn, _ := strconv.Atoi(port)
			if pn == 0 {
				pn = 80
				if proto == "https" {
					pn = 443
				}
			}
			var eps []string
			for _, ip := range ips {
				eps = append(eps, fmt.Sprintf("%s:%d", ip, pn))
			}
			sort.Strings(eps)
			key = "http:" + strings.Join(eps, ",") + ":" + name
		}
	case "service", "svc":
		info.proto = "svc"
		info.port = port != ""
		ns, name := srcNS, host
		if f := strings.Split(host, "/"); len(f) == 2 {
			ns, name = f[0], f[1]
		}
		info.ns = ns != ""
		info.xns = ns == srcNS || srcNS == "" // no cross namespace check without a source
		if info.port && hc.Backends().FindBackend(ns, name, port) != nil {
			info.found = true
			key = "svc:" + ns + "_" + name + "_" + port
		}
	default:
		info.proto = "other"
	}
	if key != "" {
		if _, ok := targets[key]; !ok {
			targets[key] = len(targets) + 1
		}
		info.target = targets[key]
	}
	return info
}

// ---------------------------------------------------------------- oracle

func oracleUpdater(in input, uo *updObs) []fail {
	var fs []fail
	for _, bo := range uo.Backs {
		var ub *ubackend
		for i := range in.UBackends {
			if in.UBackends[i].Name == bo.Name {
				ub = &in.UBackends[i]
			}
		}
		if ub == nil {
			continue
		}
		for _, po := range bo.Paths {
			// which annotation set
			ing := -1
			upath := ""
			for _, up := range ub.Paths {
				l := hatypes.CreateHostPathLink(up.Host, up.Path, matchOf(in.PathType))
				if l.Key() == po.Path && up.Host == po.Host {
					ing, upath = ingAt(in, up.Ing, bo.shift), up.Path
				}
			}
			if ing < 0 {
				continue
			}
			d := declOf(effAnn(in, in.Ingresses[ing].Ann))
			urlNS := in.Ingresses[ing].ns()
			if _, own := in.Ingresses[ing].Ann[kURL]; !own {
				urlNS = ""
			}
			if !d.oauth && d.url == "" {
				continue
			}
			id := fmt.Sprintf("%s %s (%s %s)", in.Ingresses[ing].Name, po.Path, bo.ID, po.ID)
			beProt := po.Back.Deny || po.Back.Name != ""
			feProt := po.Fe != nil && (po.Fe.Deny || po.Fe.Name != "")
			if !beProt && !feProt {
				key := "backend-path-unprotected"
				if d.oauth {
					key = "oauth-path-unprotected"
				} else if d.place == "frontend" {
					key = "frontend-path-unprotected"
				}
				fs = append(fs, fail{key, id + ": neither AlwaysDeny nor an auth backend on the path object"})
				continue
			}
			// the auth backend name of the path leads to the service its own auth-url names
			if m := authNameRe.FindStringSubmatch(po.Back.Name); m != nil && d.url != "" {
				want := uo.urls[urlNS+"|"+d.url].target
				got := -1
				for _, b := range uo.Binds {
					if strconv.Itoa(b.Port) == m[1] {
						got = uo.targets[b.Target]
					}
				}
				if got != want || want == 0 {
					fs = append(fs, fail{"wrong-auth-service", fmt.Sprintf("%s: %s is bound to target %d, %q of namespace %q resolves to target %d (%v)", id, po.Back.Name, got, d.url, urlNS, want, uo.Binds)})
				}
			}
			for fe, frules := range uo.frontRaw {
				rules := append(append([]c1819.AuthRule{}, frules...), bo.raw...)
				if po.Back.Allowed != "" && strings.HasPrefix(upath, po.Back.Allowed) {
					continue
				}
				stop := false
				for _, meth := range []string{"GET", "POST", "OPTIONS", "HEAD", "PUT"} {
					q := c1819.Request{Base: strings.ToLower(po.Host) + "#" + upath, Path: upath, PathID: po.ID, Method: meth}
					if v := c1819.RunAuth(rules, q, func(string) bool { return false }); v.Served {
						key := "rendered-rule-missing"
						if meth != "GET" {
							key = "rendered-rule-skips-method"
						}
						fs = append(fs, fail{key, fmt.Sprintf("%s: %s %s%s through %s is served without authentication", id, meth, po.Host, upath, fe)})
						stop = true
						break
					}
				}
				if stop {
					break
				}
			}
		}
	}
	return fs
}

func countUpdater(in input, uo *updObs, res *hx.Result) bool {
	nontrivial := false
	for _, bo := range uo.Backs {
		res.Count(fmt.Sprintf("upd_backend_paths=%s", bucket(len(bo.Paths))))
		for _, po := range bo.Paths {
			switch {
			case po.Back.Deny:
				res.Count("upd_backend_path=deny")
				nontrivial = true
			case po.Back.Name != "":
				res.Count("upd_backend_path=auth-backend")
				nontrivial = true
			default:
				res.Count("upd_backend_path=nothing")
			}
		}
	}
	for _, ho := range uo.Hosts {
		for _, po := range ho.Paths {
			if po.Fe != nil {
				nontrivial = true
				if po.Fe.Deny {
					res.Count("upd_host_path=deny")
				} else {
					res.Count("upd_host_path=auth-backend")
				}
			}
		}
	}
	res.Count(fmt.Sprintf("upd_binds=%d", len(uo.Binds)))
	if uo.released > 0 {
		res.Count("upd_cleanup_released_a_bind")
	}
	for _, c := range in.Calls {
		if c.Shift > 0 {
			res.Count("upd_backend_processed_again")
			break
		}
	}
	return nontrivial
}

func bucket(n int) string {
	switch {
	case n <= 4:
		return strconv.Itoa(n)
	case n <= 30:
		return "5-30"
	}
	return ">30"
}

// ---------------------------------------------------------------- Coq printing

type coqCtx struct {
	in      input
	uo      *updObs
	keys    map[string]int // host-path key string -> id
	tags    map[string]int // rest text -> tag
	prefix  map[string]int // AllowedPath -> id
	backIdx map[string]int // backend id string -> index
	extras  map[int]string // tag -> extra
	ctags   map[string]int // Cors struct text -> tag
	hostIdx map[string]int
}

func (c *coqCtx) tag(rest string) int {
	if rest == "" {
		return 0
	}
	if _, ok := c.tags[rest]; !ok {
		c.tags[rest] = len(c.tags) + 1
	}
	return c.tags[rest]
}

func (c *coqCtx) pfx(s string) int {
	if _, ok := c.prefix[s]; !ok {
		c.prefix[s] = len(c.prefix) + 1
	}
	return c.prefix[s]
}

func (c *coqCtx) key(s string) int {
	if _, ok := c.keys[s]; !ok {
		c.keys[s] = len(c.keys) + 1
	}
	return c.keys[s]
}

var authNameRe = regexp.MustCompile(`^_auth_(\d+)$`)

func (c *coqCtx) name(n string) string {
	if n == "" {
		return "None"
	}
	if m := authNameRe.FindStringSubmatch(n); m != nil {
		p, _ := strconv.Atoi(m[1])
		return "(Some (NAuth " + hx.Z(int64(p)) + "))"
	}
	if i, ok := c.backIdx[n]; ok {
		return "(Some (NBack " + hx.N(i) + "))"
	}
	return "(Some (NBack 999999%N))"
}

func (c *coqCtx) auth(a authObs) string {
	al := "None"
	if a.Allowed != "" {
		al = "(Some " + hx.N(c.pfx(a.Allowed)) + ")"
	}
	if t := c.tag(a.Rest); t != 0 {
		c.extras[t] = fmt.Sprintf("{| e_vars := %s; e_redirect := %s |}", hx.Nat(a.vars), hx.Bool(a.redir))
	}
	return fmt.Sprintf("{| a_deny := %s; a_name := %s; a_allowed := %s; a_tag := %s |}", hx.Bool(a.Deny), c.name(a.Name), al, hx.N(c.tag(a.Rest)))
}

var methCoq = map[string]string{"GET": "MGet", "HEAD": "MHead", "POST": "MPost", "PUT": "MPut", "DELETE": "MDelete", "OPTIONS": "MOptions"}

func methOf(m string) string {
	if v, ok := methCoq[m]; ok {
		return v
	}
	return "MOther"
}

// xrule prints a parsed rule in the language of Model/AuthRules.v, terms in rendered order
func (c *coqCtx) xrule(r c1819.AuthRule) string {
	act := "XDeny"
	switch r.Act {
	case "guard-redirect":
		act = "XRedirect"
	case "service":
		act = "XUseService"
	case "setvar":
		act = "XSetVar"
	case "setheader":
		act = "XSetHeader"
	case "intercept":
		n := c.name(r.Name)
		act = "(XIntercept " + strings.TrimSuffix(strings.TrimPrefix(n, "(Some "), ")") + ")"
		if n == "None" {
			act = "(XIntercept (NBack 999998%N))"
		}
	}
	var terms []string
	for _, cd := range r.Conds {
		switch {
		case cd.Kind == "authok" && cd.Neg:
			terms = append(terms, "TAuthFailed")
		case cd.Kind == "pathid" && !cd.Neg && cd.Method == "str" && !cd.ICase:
			var ids []string
			for _, id := range cd.Pats {
				ids = append(ids, hx.N(pathNum(id)))
			}
			terms = append(terms, "TIds "+hx.List(ids))
		case cd.Kind == "base" && !cd.Neg && cd.Method == "str" && !cd.ICase && len(cd.Pats) == 2:
			terms = append(terms, "TKey "+hx.N(c.key(cd.Pats[1])))
		case cd.Kind == "pathbeg" && cd.Neg && len(cd.Pats) == 1:
			terms = append(terms, "TNotUnder "+hx.N(c.pfx(cd.Pats[0])))
		case cd.Kind == "meth" && !cd.ICase:
			var ms []string
			for _, m := range cd.Pats {
				ms = append(ms, methOf(m))
			}
			terms = append(terms, "TMeth "+hx.Bool(cd.Neg)+" "+hx.List(ms))
		case cd.Kind == "varfound" && !cd.Neg:
			terms = append(terms, "TVarFound")
		default:
			terms = append(terms, "TIds [999999%N]") // a condition the model does not know
		}
	}
	return fmt.Sprintf("{| x_act := %s; x_if := %s |}", act, hx.List(terms))
}

func (c *coqCtx) xrules(rs []c1819.AuthRule) string {
	var out []string
	for _, r := range rs {
		out = append(out, c.xrule(r))
	}
	return hx.List(out)
}

func (c *coqCtx) probe(b int, p probeObs) string {
	var under []int
	for pfx, id := range c.prefix {
		if strings.HasPrefix(p.Path, pfx) {
			under = append(under, id)
		}
	}
	sort.Ints(under)
	var us []string
	for _, u := range under {
		us = append(us, hx.N(u))
	}
	q := fmt.Sprintf("{| xq := {| q_path := %s; q_id := %s; q_exact := %s; q_under := %s |}; xmeth := %s; xfound := false |}",
		hx.N(c.key(p.Key)), hx.N(pathNum(p.ID)), hx.Bool(p.Exact), hx.List(us), methOf(p.Method))
	return hx.Tuple(hx.N(b), q, hx.Bool(p.OK), p.Verdict)
}

func pathNum(id string) int {
	n, _ := strconv.Atoi(strings.TrimPrefix(id, "path"))
	return n
}

func (c *coqCtx) rule(r ruleObs) string {
	act := "ADeny"
	switch r.Act {
	case "intercept":
		n := c.name(r.Name)
		act = "(AIntercept " + strings.TrimSuffix(strings.TrimPrefix(n, "(Some "), ")") + ")"
		if n == "None" {
			act = "(AIntercept (NBack 999998%N))"
		}
	case "guard":
		act = "AGuard"
	}
	cond := "CAll"
	switch {
	case r.Bad != "":
		cond = "(CKey 999999%N)"
	case r.Key != "":
		cond = "(CKey " + hx.N(c.key(r.Key)) + ")"
	case !r.All:
		var ids []string
		for _, id := range r.Ids {
			ids = append(ids, hx.N(pathNum(id)))
		}
		cond = "(CIds " + hx.List(ids) + ")"
	}
	skip := "None"
	if r.Skip != "" {
		skip = "(Some " + hx.N(c.pfx(r.Skip)) + ")"
	}
	return fmt.Sprintf("{| r_act := %s; r_cond := %s; r_skip := %s |}", act, cond, skip)
}

func (c *coqCtx) url(ns, u string, tag int) string {
	i := c.uo.urls[ns+"|"+u]
	proto := map[string]string{"http": "PHttp", "svc": "PSvc", "other": "POther", "": "POther"}[i.proto]
	return fmt.Sprintf("(Some ({| u_parse := %s; u_proto := %s; u_dns := %s; u_port := %s; u_ns := %s; u_xns := %s; u_found := %s; u_target := %s |}, %s))",
		hx.Bool(i.parse), proto, hx.Bool(i.dns), hx.Bool(i.port), hx.Bool(i.ns), hx.Bool(i.xns), hx.Bool(i.found), hx.N(i.target), hx.N(tag))
}

func placeCoq(d decl, has bool) string {
	if !has {
		return "PlBackend" // the default of the mapper
	}
	switch d.place {
	case "backend":
		return "PlBackend"
	case "frontend":
		return "PlFrontend"
	}
	return "PlOther"
}

func coqCase(id int, in input, uo *updObs) string {
	c := &coqCtx{in: in, uo: uo, keys: map[string]int{}, tags: map[string]int{}, prefix: map[string]int{}, backIdx: map[string]int{}, hostIdx: map[string]int{},
		extras: map[int]string{}, ctags: map[string]int{}}
	for i, ub := range in.UBackends {
		c.backIdx["default_"+ub.Name+"_8080"] = i + 1
	}
	var hostNames []string
	seenH := map[string]bool{}
	for _, ub := range in.UBackends {
		for _, up := range ub.Paths {
			if !seenH[up.Host] {
				seenH[up.Host] = true
				hostNames = append(hostNames, up.Host)
			}
		}
	}
	sort.Strings(hostNames)
	for i, h := range hostNames {
		c.hostIdx[h] = i + 1
	}
	match := matchOf(in.PathType)
	// which annotation set a host-path key belongs to, and where the oauth prefix is served
	ingOf := map[string]int{}
	prefixBackend := map[string]int{}
	prefixByHost := map[string]map[string]int{}
	for bi, ub := range in.UBackends {
		for _, up := range ub.Paths {
			k := hatypes.CreateHostPathLink(up.Host, up.Path, match).Key()
			ingOf[k] = up.Ing
			prefixBackend[strings.TrimRight(up.Path, "/")] = bi + 1
			if prefixByHost[up.Host] == nil {
				prefixByHost[up.Host] = map[string]int{}
			}
			prefixByHost[up.Host][strings.TrimRight(up.Path, "/")] = bi + 1
		}
	}
	var calls, hostsObs, backsObs, rulesObs, horder []string
	for _, h := range hostNames {
		horder = append(horder, hx.N(c.hostIdx[h]))
	}
	hostObsBy := map[string]uhostObs{}
	for _, ho := range uo.Hosts {
		hostObsBy[ho.Name] = ho
	}
	backObsBy := map[string]ubackObs{}
	for _, bo := range uo.Backs {
		backObsBy[bo.Name] = bo
	}
	lastCall := map[string]int{}
	for ci, cl := range in.Calls {
		if cl.Kind == "backend" {
			lastCall[cl.Name] = ci
		}
	}
	hostDone := map[string]bool{}
	for ci, cl := range in.Calls {
		switch cl.Kind {
		case "commit":
			calls = append(calls, "UCommit")
		case "host":
			ho, ok := hostObsBy[cl.Name]
			if !ok || hostDone[cl.Name] {
				continue
			}
			hostDone[cl.Name] = true
			// what the host wide mapper answers: the first ingress (in order) carrying each key
			var ings []int
			seen := map[int]bool{}
			for _, ub := range in.UBackends {
				for _, up := range ub.Paths {
					if up.Host == cl.Name && up.Ing >= 0 && !seen[up.Ing] {
						seen[up.Ing] = true
						ings = append(ings, up.Ing)
					}
				}
			}
			sort.Ints(ings)
			hplace, hurl, hurlNS, hasURL := "PlBackend", "", "", false
			gotPlace := false
			for _, i := range ings {
				ann := in.Ingresses[i].Ann
				if _, ok := ann[kPlace]; ok && !gotPlace {
					gotPlace = true
					hplace = placeCoq(declOf(ann), true)
				}
				if v, ok := ann[kURL]; ok && !hasURL {
					hasURL = true
					hurl, hurlNS = v, in.Ingresses[i].ns()
				}
			}
			// no ingress of the host carries the key: the global ConfigMap answers
			if v, ok := in.Global[kPlace]; ok && !gotPlace {
				hplace = placeCoq(declOf(map[string]string{kPlace: v}), true)
			}
			if v, ok := in.Global[kURL]; ok && !hasURL {
				hurl, hurlNS = v, ""
			}
			var keys, pobs []string
			feTag := 0
			for _, po := range ho.Paths {
				keys = append(keys, hx.N(c.key(po.Path)))
				if po.Fe != nil {
					pobs = append(pobs, hx.Tuple(hx.N(c.key(po.Path)), "Some "+c.auth(*po.Fe)))
					if po.Fe.Rest != "" {
						feTag = c.tag(po.Fe.Rest)
					}
				} else {
					pobs = append(pobs, hx.Tuple(hx.N(c.key(po.Path)), "None"))
				}
			}
			urlCoq := "None"
			if hurl != "" {
				urlCoq = c.url(hurlNS, hurl, feTag)
			}
			calls = append(calls, fmt.Sprintf("UHost %s %s %s %s", hx.N(c.hostIdx[cl.Name]), hplace, urlCoq, hx.List(keys)))
			hostsObs = append(hostsObs, hx.Tuple(hx.N(c.hostIdx[cl.Name]), hx.List(pobs)))
		case "backend":
			bo, ok := backObsBy[cl.Name]
			if !ok {
				continue
			}
			last := lastCall[cl.Name] == ci
			var ds []string
			for _, po := range bo.Paths {
				ing := ingAt(in, ingOf[po.Path], cl.Shift)
				var ann map[string]string
				if ing >= 0 {
					ann = in.Ingresses[ing].Ann
				}
				eff := effAnn(in, ann)
				d := declOf(eff)
				_, hasPlace := eff[kPlace]
				urlNS := ""
				if _, own := ann[kURL]; own && ing >= 0 {
					urlNS = in.Ingresses[ing].ns()
				}
				tag := 0
				if last {
					// the tag stands for the remaining fields of the configuration this call
					// leaves; the result of an earlier call of the same backend is overwritten
					tag = c.tag(po.Back.Rest)
				}
				urlCoq := "None"
				if d.url != "" {
					urlCoq = c.url(urlNS, d.url, tag)
				}
				oauth := "None"
				if v, ok := ann[kOAuth]; ok {
					prefix := "/oauth2"
					if pv, ok := ann[kPrefix]; ok {
						prefix = pv
					}
					prefix = strings.TrimRight(prefix, "/")
					ob := "None"
					// findBackend looks for the prefix among the paths whose backend is in the
					// namespace of the declaration; the application backends are in "default"
					// ... the host of the path first, then the hosts in sorted order
					bi, ok := prefixByHost[po.Host][prefix]
					for _, h := range hostNames {
						if !ok {
							bi, ok = prefixByHost[h][prefix]
						}
					}
					if ok && in.Ingresses[ing].ns() == "default" {
						ob = "(Some " + hx.N(bi) + ")"
					}
					oauth = fmt.Sprintf("(Some {| o_impl := %s; o_prefix_ok := %s; o_backend := %s; o_prefix := %s; o_tag := %s |})",
						hx.Bool(v == "oauth2_proxy" || v == "oauth2-proxy"), hx.Bool(prefix != ""), ob, hx.N(c.pfx(prefix+"/")), hx.N(tag))
				}
				ds = append(ds, fmt.Sprintf("{| d_id := %s; d_url := %s; d_place := %s; d_host := %s; d_key := %s; d_oauth := %s |}",
					hx.N(pathNum(po.ID)), urlCoq, placeCoq(d, hasPlace), hx.N(c.hostIdx[po.Host]), hx.N(c.key(po.Path)), oauth))
			}
			calls = append(calls, fmt.Sprintf("UBackend %s %s", hx.N(c.backIdx[bo.ID]), hx.List(ds)))
		}
	}
	// final state of the backends, in the order of their last call
	for _, bo := range uo.Backs {
		var pobs, rs []string
		for _, po := range bo.Paths {
			pobs = append(pobs, hx.Tuple(hx.N(pathNum(po.ID)), c.auth(po.Back)))
		}
		for _, r := range bo.Rules {
			rs = append(rs, c.rule(r))
		}
		backsObs = append(backsObs, hx.Tuple(hx.N(c.backIdx[bo.ID]), hx.List(pobs)))
		rulesObs = append(rulesObs, hx.Tuple(hx.N(c.backIdx[bo.ID]), hx.List(rs)))
	}
	var binds, front []string
	for _, b := range uo.Binds {
		binds = append(binds, hx.Tuple(hx.Z(int64(b.Port)), hx.N(uo.targets[b.Target])))
	}
	for _, r := range uo.Front {
		front = append(front, c.rule(r))
	}
	start, end := 0, -1
	rangeStr, ok := in.Global["auth-proxy"]
	if !ok {
		rangeStr = "_front__auth__local:14415-14499"
	}
	if m := regexp.MustCompile(`^([A-Za-z_-]+):([0-9]{1,5})-([0-9]{1,5})$`).FindStringSubmatch(rangeStr); m != nil {
		start, _ = strconv.Atoi(m[2])
		end, _ = strconv.Atoi(m[3])
	}
	lua := !(in.External && in.Global["external-has-lua"] != "true")
	for i := range calls {
		calls[i] = "(" + calls[i] + ")"
	}
	// rendered rules in the language of Model/AuthRules.v, observed Cors, evaluator probes
	var xbacks, probes, extras []string
	for _, bo := range uo.Backs {
		var crs []string
		for _, co := range bo.cors {
			if _, ok := c.ctags[co.Text]; !ok {
				c.ctags[co.Text] = len(c.ctags) + 1
			}
			crs = append(crs, hx.Tuple(hx.N(pathNum(co.ID)), fmt.Sprintf("{| c_on := %s; c_dyn := %s; c_tag := %s |}", hx.Bool(co.On), hx.Bool(co.Dyn), hx.N(c.ctags[co.Text]))))
		}
		xbacks = append(xbacks, hx.Tuple(hx.N(c.backIdx[bo.ID]), hx.Tuple(hx.List(crs), c.xrules(bo.xrules))))
	}
	xfront := c.xrules(uo.xfront)
	// the prefixes are all known now: the probes can say which ones their URL is under
	for _, bo := range uo.Backs {
		for _, p := range bo.probes {
			probes = append(probes, c.probe(c.backIdx[bo.ID], p))
		}
	}
	for _, p := range uo.fprobes {
		probes = append(probes, c.probe(0, p))
	}
	var idmaps []string
	for _, bo := range uo.Backs {
		var es []string
		for _, e := range bo.idmap {
			es = append(es, hx.Tuple(hx.N(c.key(e[0])), hx.N(pathNum(e[1]))))
		}
		idmaps = append(idmaps, hx.Tuple(hx.N(c.backIdx[bo.ID]), hx.List(es)))
	}
	var used []string
	for _, u := range uo.used {
		var ps []string
		for _, p := range u {
			ps = append(ps, hx.Z(int64(p)))
		}
		used = append(used, hx.List(ps))
	}
	var tags []int
	for t := range c.extras {
		tags = append(tags, t)
	}
	sort.Ints(tags)
	for _, t := range tags {
		extras = append(extras, hx.Tuple(hx.N(t), c.extras[t]))
	}
	return fmt.Sprintf("{| uid := %s; ulua := %s; ustart := %s; uend := %s;\n   ucalls := %s;\n   uhosts := %s;\n   ubacks := %s;\n   ubinds := %s; uhorder := %s;\n   ufront := %s;\n   urules := %s;\n   uextras := %s;\n   uxbacks := %s;\n   uxfront := %s;\n   uprobes := %s;\n   uidmaps := %s;\n   uused := %s |}",
		hx.N(id), hx.Bool(lua), hx.Z(int64(start)), hx.Z(int64(end)), hx.List(calls), hx.List(hostsObs), hx.List(backsObs),
		hx.List(binds), hx.List(horder), hx.List(front), hx.List(rulesObs), hx.List(extras), hx.List(xbacks), xfront, hx.List(probes), hx.List(idmaps), hx.List(used))
}

var _ = json.Marshal
