package main

import (
	"crypto/x509"
	"fmt"
	"math/rand"
	"net"
	"strings"
	"time"

	"github.com/jcmoraisjr/haproxy-ingress/pkg/acme"

	"verif/harness/lib/hx"
)

// signerIn is one call of signer.Notify(item) on a given certificate state.
type signerIn struct {
	Item        string   `json:"item"`         // "secret,chain,domain,domain..."
	NoAccount   bool     `json:"no_account"`   // signer without acme client
	ExpiringSec int64    `json:"expiring_sec"` // the configured window
	SecretErr   bool     `json:"secret_err"`   // GetTLSSecretContent fails (missing / unreadable)
	CertDNS     []string `json:"cert_dns"`     // SANs of the stored certificate
	RawCert     bool     `json:"raw_cert"`     // certificate struct not round-tripped through DER (odd SANs)
	// notAfter = floor_to_second(now) + expiring + DeltaSec; |DeltaSec| >= 2 (the signer reads
	// time.Now() itself, the harness cannot freeze it)
	DeltaSec int64 `json:"delta_sec"`
	SignCrt  bool  `json:"sign_crt"`
	SignKey  bool  `json:"sign_key"`
	SignErr  bool  `json:"sign_err"`
	SetErr   bool  `json:"set_err"`
}

type signerObs struct {
	NowNs      int64      `json:"now_ns"`
	NotAfterNs int64      `json:"not_after_ns"`
	Signs      []signCall `json:"signs"`
	Sets       []setCall  `json:"sets"`
	Gets       []string   `json:"gets"`
	Err        string     `json:"err"` // none | no-account | sign | store | other
	Reason     string     `json:"reason"`
	Success    bool       `json:"success"`
	Need       string     `json:"need"` // the oracle's own evaluation: none|missing|expiring|outdated
}

func splitItem(item string) (secret, chain string, domains []string, ok bool) {
	p := strings.Split(item, ",")
	if len(p) < 2 {
		return "", "", nil, false
	}
	return p[0], p[1], p[2:], true
}

func isIPLike(h string) bool {
	c := h
	if len(h) >= 3 && h[0] == '[' && h[len(h)-1] == ']' {
		c = h[1 : len(h)-1]
	}
	return net.ParseIP(c) != nil
}

func runSigner(in *signerIn) (*signerObs, string) {
	_, _, domains, ok := splitItem(in.Item)
	if !ok {
		return nil, "item-without-chain" // Notify indexes cert[1]: not an input the queue can hold
	}
	for _, d := range domains {
		if isIPLike(d) {
			return nil, "ip-domain" // IP SAN matching is outside the model
		}
	}
	cache := &stubCache{secretErr: in.SecretErr, setErr: in.SetErr}
	client := &stubClient{crt: in.SignCrt, key: in.SignKey, err: in.SignErr}
	metrics := &recMetrics{}
	expiring := time.Duration(in.ExpiringSec) * time.Second
	var cl acme.Client
	if !in.NoAccount {
		cl = client
	}
	signer := acme.VerifNewSigner(nopLogger{}, cache, metrics, cl, expiring)
	obs := &signerObs{}
	now := time.Now()
	if !in.SecretErr {
		notAfter := now.Truncate(time.Second).Add(expiring).Add(time.Duration(in.DeltaSec) * time.Second)
		if in.RawCert {
			cache.crt = &x509.Certificate{DNSNames: in.CertDNS, NotAfter: notAfter}
		} else {
			crt, err := makeCert(in.CertDNS, now.Add(-time.Hour), notAfter)
			if err != nil {
				return nil, "cert-not-creatable"
			}
			cache.crt = crt
		}
		obs.NotAfterNs = cache.crt.NotAfter.UnixNano()
	}
	now = time.Now()
	obs.NowNs = now.UnixNano()
	err := signer.Notify(in.Item)
	if time.Since(now) > 1500*time.Millisecond {
		return nil, "too-slow" // the margin around the boundary would not hold
	}
	obs.Signs, obs.Sets, obs.Gets = client.calls, cache.sets, cache.gets
	switch {
	case err == nil:
		obs.Err = "none"
	case err == errSign:
		obs.Err = "sign"
	case err == errStore:
		obs.Err = "store"
	case strings.Contains(err.Error(), "account was not properly initialized"):
		obs.Err = "no-account"
	default:
		obs.Err = "other"
	}
	obs.Reason, obs.Success = metrics.reason, metrics.success
	// the oracle's own reading of the certificate state (Go's x509 decides "covers")
	obs.Need = "none"
	switch {
	case in.SecretErr:
		obs.Need = "missing"
	case in.DeltaSec < 0:
		obs.Need = "expiring"
	default:
		for _, d := range domains {
			if cache.crt.VerifyHostname(d) != nil {
				obs.Need = "outdated"
			}
		}
	}
	return obs, ""
}

// oracleSigner: the property on the observed calls, no model involved.
func oracleSigner(in *signerIn, obs *signerObs) (string, string) {
	secret, chain, domains, _ := splitItem(in.Item)
	if in.NoAccount {
		if len(obs.Signs)+len(obs.Sets) > 0 {
			return "sign-iff", "signer without account called the acme client or wrote a secret"
		}
		return "", ""
	}
	need := obs.Need != "none"
	if need != (len(obs.Signs) == 1) || len(obs.Signs) > 1 {
		return "sign-iff", fmt.Sprintf("certificate state %q but Sign was called %d time(s)", obs.Need, len(obs.Signs))
	}
	if need {
		c := obs.Signs[0]
		if !eqStrs(c.Domains, domains) || c.Chain != chain {
			return "sign-args", fmt.Sprintf("Sign called with %v / %q instead of %v / %q", c.Domains, c.Chain, domains, chain)
		}
		if obs.Reason != obs.Need {
			return "sign-reason", fmt.Sprintf("certificate state %q counted as %q", obs.Need, obs.Reason)
		}
	}
	wantSet := need && in.SignCrt && in.SignKey
	if wantSet != (len(obs.Sets) == 1) || len(obs.Sets) > 1 {
		return "store-only-complete", fmt.Sprintf("need=%v crt=%v key=%v but the secret was written %d time(s)", need, in.SignCrt, in.SignKey, len(obs.Sets))
	}
	if wantSet {
		s := obs.Sets[0]
		if s.Secret != secret || s.Crt != "CRT" || s.Key != "KEY" {
			return "store-only-complete", fmt.Sprintf("secret written as %+v", s)
		}
	}
	// a valid covering certificate is left alone and reports no error
	if !need && obs.Err != "none" {
		return "sign-iff", "valid covering certificate but Notify returned an error"
	}
	return "", ""
}

// ---- generator ----

var baseDomains = []string{"a.example", "b.example", "www.a.example", "api.a.example", "x.y.a.example", "a.example.", "A.Example", "c.test", "www.c.test", "under_score.c.test", "-dash.c.test", "*.a.example", "a..example", "1.2.3.4.example", "xn--caf-dma.example"}
var sanPool = []string{"a.example", "b.example", "*.a.example", "*.example", "www.a.example", "api.a.example", "*.y.a.example", "c.test", "*.c.test", "A.EXAMPLE", "a.example.", "*", "w*.a.example", "*.*.a.example", "under_score.c.test", "a..example", "xn--caf-dma.example", "*.A.example"}
var oddSans = []string{"", ".", "a.example ", "*.", "a_b", "*a.example", "a.example\t", "~.a.example"}
var deltas = []int64{-400 * 86400, -86400, -3600, -5, -3, -2, 3, 4, 5, 3600, 86400, 30 * 86400, 90 * 86400, 365 * 86400}
var expirings = []int64{0, 1, 3600, 7 * 86400, 30 * 86400, 30 * 86400, 90 * 86400}

func genSigner(rng *rand.Rand) *signerIn {
	in := &signerIn{}
	nd := 1 + rng.Intn(3)
	if rng.Intn(25) == 0 {
		nd = 0
	}
	var doms []string
	for i := 0; i < nd; i++ {
		doms = append(doms, pick(rng, baseDomains))
	}
	chain := ""
	if rng.Intn(4) == 0 {
		chain = pick(rng, []string{"ISRG Root X1", "chain2"})
	}
	in.Item = strings.Join(append([]string{"d/s" + fmt.Sprint(rng.Intn(3)), chain}, doms...), ",")
	in.ExpiringSec = expirings[rng.Intn(len(expirings))]
	in.NoAccount = rng.Intn(30) == 0
	in.SecretErr = rng.Intn(6) == 0
	in.DeltaSec = deltas[rng.Intn(len(deltas))]
	if rng.Intn(3) != 0 && in.DeltaSec < 0 {
		in.DeltaSec = deltas[6+rng.Intn(len(deltas)-6)] // more not-expiring states, so covering decides
	}
	// SANs: cover all / some / a superset / wildcards of the domains
	switch rng.Intn(6) {
	case 0: // exactly the domains
		in.CertDNS = append([]string{}, doms...)
	case 1: // a strict subset
		in.CertDNS = subset(rng, doms, 0.5)
	case 2: // superset
		in.CertDNS = append(append([]string{}, doms...), pick(rng, sanPool))
	case 3: // wildcards of the parents
		for _, d := range doms {
			if i := strings.Index(d, "."); i >= 0 {
				in.CertDNS = append(in.CertDNS, "*"+d[i:])
			} else {
				in.CertDNS = append(in.CertDNS, d)
			}
		}
	default:
		n := rng.Intn(4)
		for i := 0; i < n; i++ {
			in.CertDNS = append(in.CertDNS, pick(rng, sanPool))
		}
	}
	if rng.Intn(12) == 0 { // malformed stream: SANs no CA would issue, on a bare certificate struct
		in.RawCert = true
		in.CertDNS = append(in.CertDNS, pick(rng, oddSans))
	}
	if in.CertDNS == nil {
		in.CertDNS = []string{}
	}
	r := rng.Intn(10)
	in.SignCrt, in.SignKey, in.SignErr = true, true, false
	switch {
	case r == 0:
		in.SignCrt, in.SignKey, in.SignErr = false, false, true
	case r == 1:
		in.SignCrt = false
	case r == 2:
		in.SignKey = false
	case r == 3:
		in.SignErr = true // both obtained, with a warning
	case r == 4:
		in.SignCrt, in.SignKey = false, false // nothing and no error
	}
	in.SetErr = rng.Intn(8) == 0
	return in
}

// ---- Coq case ----

func coqStrs(l []string) string {
	items := make([]string, len(l))
	for i, s := range l {
		items[i] = hx.Str(s)
	}
	return hx.List(items)
}

func errClass(e string) int {
	switch e {
	case "none":
		return 0
	case "no-account":
		return 1
	case "sign":
		return 2
	case "store":
		return 3
	}
	return 9
}

func reasonClass(r string) int {
	switch r {
	case "missing":
		return 1
	case "expiring":
		return 2
	case "outdated":
		return 3
	}
	return 0
}

func coqSigner(id int, in *signerIn, obs *signerObs) string {
	secret := "None"
	if !in.SecretErr {
		secret = "(Some " + hx.Tuple(hx.Z(obs.NotAfterNs), coqStrs(in.CertDNS)) + ")"
	}
	var signs, sets []string
	for _, s := range obs.Signs {
		signs = append(signs, hx.Tuple(coqStrs(s.Domains), hx.Str(s.Chain)))
	}
	for _, s := range obs.Sets {
		sets = append(sets, hx.Str(s.Secret))
	}
	return fmt.Sprintf("CSigner %s %s %s %s %s %s %s %s %s %s %s %s %s %s", hx.N(id), hx.Str(in.Item), hx.Bool(!in.NoAccount),
		hx.Z(obs.NowNs), hx.Z(in.ExpiringSec*1000000000), secret,
		hx.Bool(in.SignCrt), hx.Bool(in.SignKey), hx.Bool(in.SignErr), hx.Bool(in.SetErr),
		hx.List(signs), hx.List(sets), hx.N(errClass(obs.Err)), hx.N(reasonClass(obs.Reason)))
}
