// c17: correspondence and oracles for C17 (ACME: sign decision, storage, queue follows the cluster).
//
// Three kinds of inputs, all drawn from one PRNG:
//   - signer:  one certificate state + one stubbed acme client answer, run through the real
//     acme signer (hook acme.VerifNewSigner);
//   - queue:   a history of AcmeStorages operations / AcmeUpdate / Commit / Clear on the real
//     haproxy.Instance with a recording queue facade;
//   - ingress: a history of Ingress add/update/delete batches run through the real
//     converters.NewConverter(...).Sync() + AcmeUpdate + Commit (as Services.ReconcileIngress does).
//
// signer and queue inputs also become Coq cases (model evaluated by vm_compute).
package main

import (
	"encoding/json"
	"fmt"
	"math/rand"
	"path/filepath"
	"sort"
	"strings"

	"verif/harness/lib/hx"
)

type input struct {
	Kind    string     `json:"kind"`
	Signer  *signerIn  `json:"signer,omitempty"`
	Queue   *queueIn   `json:"queue,omitempty"`
	Ingress *ingressIn `json:"ingress,omitempty"`
	Account *accountIn `json:"account,omitempty"`
}

func canon(v interface{}) string {
	b, _ := json.Marshal(v)
	return string(b)
}

func corpus() []input {
	var ins []input
	// signer: the six certificate states named by the property
	day := int64(86400)
	mk := func(item string, secretErr bool, dns []string, delta int64, crt, key, serr, seterr bool) input {
		return input{Kind: "signer", Signer: &signerIn{Item: item, ExpiringSec: 30 * day, SecretErr: secretErr, CertDNS: dns, DeltaSec: delta,
			SignCrt: crt, SignKey: key, SignErr: serr, SetErr: seterr}}
	}
	ins = append(ins,
		mk("d/s1,,a.example", true, nil, 0, true, true, false, false),
		mk("d/s1,,a.example", false, []string{"a.example"}, -40*day, true, true, false, false),
		mk("d/s1,,a.example", false, []string{"a.example"}, -2, true, true, false, false),
		mk("d/s1,,a.example", false, []string{"a.example"}, 3, true, true, false, false),
		mk("d/s1,,a.example,b.example", false, []string{"a.example"}, 60*day, true, true, false, false),
		mk("d/s1,,a.example", false, []string{"a.example", "b.example"}, 60*day, true, true, false, false),
		mk("d/s1,chain1,www.a.example,api.a.example", false, []string{"*.a.example"}, 60*day, true, true, false, false),
		mk("d/s1,,a.example", false, []string{"*.a.example"}, 60*day, true, false, false, false),
		mk("d/s1,,x.y.a.example", false, []string{"*.a.example"}, 60*day, false, true, true, false),
		mk("d/s1,,a.example", true, nil, 0, true, true, true, true),
	)
	// queue: the two histories that showed defects on the unrepaired tree
	ins = append(ins,
		// a committed storage acquired again without RemoveAll and given one more domain
		// (what the ingress converter does when a new Ingress shares the TLS secret of an untouched one)
		input{Kind: "queue", Queue: &queueIn{Shaped: true, Ops: []qop{
			{Op: "acquire", Name: "d/s1", Domains: []string{"a.example"}},
			{Op: "update", Leader: true, Account: true}, {Op: "commit"},
			{Op: "remove", Names: []string{}},
			{Op: "acquire", Name: "d/s1", Domains: []string{"b.example"}},
			{Op: "update", Leader: true, Account: true}, {Op: "commit"}}}},
		// a storage disappears during a full sync
		input{Kind: "queue", Queue: &queueIn{Shaped: true, Ops: []qop{
			{Op: "acquire", Name: "d/s1", Domains: []string{"a.example"}},
			{Op: "acquire", Name: "d/s2", Domains: []string{"b.example"}},
			{Op: "update", Leader: true, Account: true}, {Op: "commit"},
			{Op: "clear"},
			{Op: "acquire", Name: "d/s1", Domains: []string{"a.example"}},
			{Op: "update", Leader: true, Account: true}, {Op: "commit"}}}},
	)
	// ingress: the same two, through the real converter
	a := ingSpec{Name: "a", Host: "a.example", Svc: "echo0", Acme: true, TLS: []tlsSpec{{Secret: "s1", Hosts: []string{"a.example"}}}}
	b := ingSpec{Name: "b", Host: "b.example", Svc: "echo1", Acme: true, TLS: []tlsSpec{{Secret: "s1", Hosts: []string{"b.example"}}}}
	c := ingSpec{Name: "c", Host: "c.example", Svc: "echo2", Acme: true, TLS: []tlsSpec{{Secret: "s2", Hosts: []string{"c.example"}}}}
	ins = append(ins,
		input{Kind: "ingress", Ingress: &ingressIn{Steps: []ingStep{
			{Full: true, Leader: true, Add: []ingSpec{a}},
			{Leader: true, Add: []ingSpec{b}}}}},
		input{Kind: "ingress", Ingress: &ingressIn{Steps: []ingStep{
			{Full: true, Leader: true, Add: []ingSpec{a, c}},
			{Full: true, Leader: true, Del: []string{"c"}}}}},
	)
	// account life cycle: the first load fails once (directory answers 503), then the cause clears
	// and a storage appears; the acme configuration is removed and configured again; another
	// account fails to load and the first one is configured back
	acq := func(name string, doms ...string) qop { return qop{Op: "acquire", Name: name, Domains: doms} }
	ins = append(ins,
		input{Kind: "account", Account: &accountIn{Steps: []acctStep{
			{Server: "503", Cfg: 1, Full: true, Leader: true, Acqs: []qop{acq("d/s1", "a.example")}},
			{Server: "up", Cfg: 1, Leader: true, Dirty: []string{}, Acqs: []qop{acq("d/s2", "b.example")}},
			{Server: "up", Cfg: 1, Leader: true, Dirty: []string{"d/s2"}, Acqs: []qop{acq("d/s2", "b.example", "c.example")}}}}},
		input{Kind: "account", Account: &accountIn{Steps: []acctStep{
			{Server: "up", Cfg: 1, Full: true, Leader: true, Acqs: []qop{acq("d/s1", "a.example")}},
			{Server: "up", Cfg: 0, Leader: true, Dirty: []string{}},
			{Server: "up", Cfg: 1, Leader: true, Dirty: []string{}, Acqs: []qop{acq("d/s2", "b.example")}}}}},
		input{Kind: "account", Account: &accountIn{Steps: []acctStep{
			{Server: "up", Cfg: 1, Full: true, Leader: true, Acqs: []qop{acq("d/s1", "a.example")}},
			{Server: "closed", Cfg: 3, Leader: true, Dirty: []string{}},
			{Server: "up", KeyErr: true, Cfg: 1, Leader: true, Dirty: []string{}},
			{Server: "up", Cfg: 1, Leader: true, Dirty: []string{}, Acqs: []qop{acq("d/s2", "b.example")}}}}},
	)
	return ins
}

// corpusFiles loads the replay files kept in /verif/corpus/C17 (past failures), if any.
func corpusFiles() []input {
	var ins []input
	files, _ := filepath.Glob("../corpus/C17/*.json")
	sort.Strings(files)
	for _, f := range files {
		var in input
		hx.ReadReplay(f, &in)
		ins = append(ins, in)
	}
	return ins
}

func main() {
	o := hx.Parse()
	rng := o.Rng()
	res := hx.NewResult("C17", "three input kinds: signer = (item string, certificate state incl. notAfter just before/after the expiring boundary, SANs subset/superset/wildcard of the domains, stub Sign/Set answers); queue = histories of AcmeStorages Acquire/RemoveAll + AcmeUpdate + Commit/Clear on the real Instance; ingress = histories of Ingress add/update/delete batches through the real converter. Non-trivial = signer case with a readable certificate, or history with at least two updates on the leader; distinct by canonical JSON of the input")
	cw := hx.NewCaseWriter(o, res, "From HI Require Import Corr.Corr_C17.", "ccase", 250)
	var inputs []input
	if o.Replay != "" {
		var in input
		hx.ReadReplay(o.Replay, &in)
		inputs = append(inputs, in)
	} else {
		inputs = append(inputs, corpus()...)
		inputs = append(inputs, corpusFiles()...)
		nS, nQ, nI := o.Count(900, 40000), o.Count(900, 40000), o.Count(500, 20000)
		if o.Search {
			nS, nQ, nI = 20000, 20000, 20000
		}
		for i := 0; i < nS; i++ {
			inputs = append(inputs, input{Kind: "signer", Signer: genSigner(rng)})
		}
		for i := 0; i < nQ; i++ {
			inputs = append(inputs, input{Kind: "queue", Queue: genQueue(rng)})
		}
		for i := 0; i < nI; i++ {
			inputs = append(inputs, input{Kind: "ingress", Ingress: genIngress(rng)})
		}
		nA := o.Count(600, 20000)
		if o.Search {
			nA = 10000
		}
		for i := 0; i < nA; i++ {
			inputs = append(inputs, input{Kind: "account", Account: genAccount(rng)})
		}
	}
	for _, in := range inputs {
		in := in
		switch in.Kind {
		case "signer":
			obs, skip := runSigner(in.Signer)
			if skip != "" {
				res.Count("signer_skipped_" + skip)
				continue
			}
			res.Seen(canon(in), !in.Signer.SecretErr && !in.Signer.NoAccount)
			res.Count("signer")
			res.Count("signer_need=" + obs.Need)
			res.Sample(2, map[string]interface{}{"input": in, "observed": obs})
			res.OracleChecks++
			if k, what := oracleSigner(in.Signer, obs); k != "" {
				res.Count("oracle_fail_" + k)
				res.Fail(hx.Failure{Key: "C17/" + k, What: what, Input: in, Observed: obs})
			}
			if !o.Search {
				cw.Add(func(id int) string { return coqSigner(id, in.Signer, obs) }, in)
			}
		case "queue":
			obs := runQueue(in.Queue)
			leaderUpdates := 0
			for _, op := range in.Queue.Ops {
				if op.Op == "update" && op.Leader && op.Account {
					leaderUpdates++
				}
			}
			res.Seen(canon(in), leaderUpdates >= 2)
			res.Count("queue")
			if in.Queue.Shaped {
				res.Count("queue_shaped")
			} else {
				res.Count("queue_unshaped")
			}
			res.Sample(4, map[string]interface{}{"input": in, "observed": obs})
			if in.Queue.Shaped {
				res.OracleChecks++
				if k, what := oracleQueue(in.Queue, obs); k != "" {
					res.Count("oracle_fail_" + k)
					res.Fail(hx.Failure{Key: "C17/" + k, What: what, Input: in, Observed: obs})
				}
			}
			if !o.Search {
				cw.Add(func(id int) string { return coqQueue(id, in.Queue, obs) }, in)
			}
		case "ingress":
			obs := runIngress(in.Ingress)
			res.Seen(canon(in), len(in.Ingress.Steps) >= 2)
			res.Count("ingress")
			res.Sample(5, map[string]interface{}{"input": in, "observed": obs})
			res.OracleChecks++
			if k, what := oracleIngress(in.Ingress, obs); k != "" {
				res.Count("oracle_fail_" + k)
				res.Fail(hx.Failure{Key: "C17/" + k, What: what, Input: in, Observed: obs})
			}
		case "account":
			obs := runAccount(in.Account)
			res.Seen(canon(in), len(in.Account.Steps) >= 2)
			res.Count("account")
			for _, st := range in.Account.Steps {
				if !envOK(st) {
					res.Count("account_history_with_failed_load")
					break
				}
			}
			res.Sample(7, map[string]interface{}{"input": in, "observed": obs})
			res.OracleChecks++
			if k, what := oracleAccount(in.Account, obs); k != "" {
				res.Count("oracle_fail_" + k)
				res.Fail(hx.Failure{Key: "C17/" + k, What: what, Input: in, Observed: obs})
			}
			if !o.Search {
				cw.Add(func(id int) string { return coqAccount(id, in.Account, obs, theFakeACME) }, in)
			}
		default:
			panic("unknown input kind " + in.Kind)
		}
	}
	cw.Flush()
	res.Write(o)
}

// ---- helpers shared by the oracles ----

// viewMap turns BuildAcmeStorages strings into name -> string (names carry no comma here).
func viewMap(view []string) map[string]string {
	m := map[string]string{}
	for _, s := range view {
		m[strings.SplitN(s, ",", 2)[0]] = s
	}
	return m
}

func sorted(l []string) []string {
	out := append([]string{}, l...)
	sort.Strings(out)
	return out
}

func eqStrs(a, b []string) bool {
	if len(a) != len(b) {
		return false
	}
	for i := range a {
		if a[i] != b[i] {
			return false
		}
	}
	return true
}

// diffViews is the property: what must be enqueued / removed when the cluster's wanted
// storages go from v0 to v1.
func diffViews(v0, v1 map[string]string) (changedNew, changedOld []string) {
	for n, s := range v1 {
		if v0[n] != s {
			changedNew = append(changedNew, s)
		}
	}
	for n, s := range v0 {
		if v1[n] != s {
			changedOld = append(changedOld, s)
		}
	}
	sort.Strings(changedNew)
	sort.Strings(changedOld)
	if changedNew == nil {
		changedNew = []string{}
	}
	if changedOld == nil {
		changedOld = []string{}
	}
	return
}

// checkCalls compares the recorded queue calls of one update with the property.
// full = the sync re-created the whole model (re-enqueueing unchanged storages is allowed then).
func checkCalls(v0, v1 map[string]string, full, active bool, adds, removes []string) (string, string) {
	if !active {
		if len(adds)+len(removes) > 0 {
			return "non-leader-call", fmt.Sprintf("not leading (or no account) but queue calls were made: add=%v remove=%v", adds, removes)
		}
		return "", ""
	}
	wantAdd, wantDel := diffViews(v0, v1)
	if !full {
		if !eqStrs(sorted(adds), wantAdd) {
			key := "partial-sync-add"
			for _, w := range wantAdd {
				if !contains(adds, w) {
					key = "changed-storage-not-enqueued"
				}
			}
			return key, fmt.Sprintf("Add calls %v, but the storages that appeared or changed are %v (before=%v after=%v)", adds, wantAdd, values(v0), values(v1))
		}
	}
	if !eqStrs(sorted(removes), wantDel) {
		key := "partial-sync-remove"
		if full {
			key = "full-sync-no-remove"
		}
		return key, fmt.Sprintf("Remove calls %v, but the storages that disappeared or changed are %v (before=%v after=%v)", removes, wantDel, values(v0), values(v1))
	}
	if !full {
		return "", ""
	}
	// full sync: every appeared/changed storage enqueued, nothing enqueued that is not wanted, no duplicates
	seen := map[string]int{}
	for _, a := range adds {
		seen[a]++
		if seen[a] > 1 {
			return "full-sync-add", fmt.Sprintf("storage %q enqueued twice by one update", a)
		}
		found := false
		for _, s := range v1 {
			if s == a {
				found = true
			}
		}
		if !found {
			return "full-sync-add", fmt.Sprintf("storage %q enqueued but not wanted (after=%v)", a, values(v1))
		}
	}
	for _, w := range wantAdd {
		if seen[w] == 0 {
			return "full-sync-add", fmt.Sprintf("storage %q appeared or changed but was not enqueued (adds=%v)", w, adds)
		}
	}
	return "", ""
}

func contains(l []string, s string) bool {
	for _, x := range l {
		if x == s {
			return true
		}
	}
	return false
}

func values(m map[string]string) []string {
	var out []string
	for _, v := range m {
		out = append(out, v)
	}
	sort.Strings(out)
	return out
}

func pick(rng *rand.Rand, l []string) string { return l[rng.Intn(len(l))] }

func subset(rng *rand.Rand, l []string, p float64) []string {
	out := []string{}
	for _, s := range l {
		if rng.Float64() < p {
			out = append(out, s)
		}
	}
	return out
}
