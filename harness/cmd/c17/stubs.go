package main

import (
	"context"
	"crypto"
	"crypto/ecdsa"
	"crypto/elliptic"
	"crypto/rand"
	"crypto/x509"
	"crypto/x509/pkix"
	"errors"
	"math/big"
	"sort"
	"time"

	"github.com/jcmoraisjr/haproxy-ingress/pkg/acme"
)

// ---- logger / metrics ----

type nopLogger struct{}

func (nopLogger) InfoV(v int, msg string, args ...interface{}) {}
func (nopLogger) Info(msg string, args ...interface{})         {}
func (nopLogger) Warn(msg string, args ...interface{})         {}
func (nopLogger) Error(msg string, args ...interface{})        {}
func (nopLogger) Fatal(msg string, args ...interface{})        {}

// recMetrics records which signing counter was raised (missing/expiring/outdated) and its success flag.
type recMetrics struct {
	reason  string
	success bool
	count   int
}

func (m *recMetrics) HAProxyShowInfoResponseTime(time.Duration)           {}
func (m *recMetrics) HAProxySetServerResponseTime(time.Duration)          {}
func (m *recMetrics) HAProxySetSSLCertResponseTime(time.Duration)         {}
func (m *recMetrics) ControllerProcTime(string, time.Duration)            {}
func (m *recMetrics) AddIdleFactor(int)                                   {}
func (m *recMetrics) IncUpdateNoop()                                      {}
func (m *recMetrics) IncUpdateDynamic()                                   {}
func (m *recMetrics) IncUpdateFull()                                      {}
func (m *recMetrics) UpdateSuccessful(bool)                               {}
func (m *recMetrics) SetCertExpireDate(string, string, *time.Time)        {}
func (m *recMetrics) ClearCertExpire()                                    {}
func (m *recMetrics) IncCertSigningMissing(domains string, success bool)  { m.set("missing", success) }
func (m *recMetrics) IncCertSigningExpiring(domains string, success bool) { m.set("expiring", success) }
func (m *recMetrics) IncCertSigningOutdated(domains string, success bool) { m.set("outdated", success) }
func (m *recMetrics) set(r string, s bool)                                { m.reason, m.success = r, s; m.count++ }

// ---- acme client and cache stubs ----

var errSign = errors.New("stub: sign failed")
var errStore = errors.New("stub: store failed")
var errSecret = errors.New("stub: secret not found")

type signCall struct {
	Domains []string `json:"domains"`
	Chain   string   `json:"chain"`
}

type stubClient struct {
	crt, key bool
	err      bool
	calls    []signCall
}

func (c *stubClient) Sign(dnsnames []string, preferredChain string) (crt, key []byte, err error) {
	c.calls = append(c.calls, signCall{append([]string{}, dnsnames...), preferredChain})
	if c.crt {
		crt = []byte("CRT")
	}
	if c.key {
		key = []byte("KEY")
	}
	if c.err {
		err = errSign
	}
	return crt, key, err
}

type setCall struct {
	Secret string `json:"secret"`
	Crt    string `json:"crt"`
	Key    string `json:"key"`
}

type stubCache struct {
	secretErr bool
	crt       *x509.Certificate
	setErr    bool
	gets      []string
	sets      []setCall
}

func (c *stubCache) GetKey() (crypto.Signer, error)                  { return nil, errors.New("unused") }
func (c *stubCache) SetToken(domain string, uri, token string) error { return nil }
func (c *stubCache) GetToken(domain, uri string) string              { return "" }
func (c *stubCache) GetTLSSecretContent(secretName string) (*acme.TLSSecret, error) {
	c.gets = append(c.gets, secretName)
	if c.secretErr {
		return nil, errSecret
	}
	return &acme.TLSSecret{Crt: c.crt}, nil
}
func (c *stubCache) SetTLSSecretContent(secretName string, pemCrt, pemKey []byte) error {
	c.sets = append(c.sets, setCall{secretName, string(pemCrt), string(pemKey)})
	if c.setErr {
		return errStore
	}
	return nil
}

// ---- real certificates, generated offline ----

var caKey *ecdsa.PrivateKey

func init() {
	k, err := ecdsa.GenerateKey(elliptic.P256(), rand.Reader)
	if err != nil {
		panic(err)
	}
	caKey = k
}

var serial int64

// makeCert creates and parses back a real self-signed ECDSA certificate.
func makeCert(dns []string, notBefore, notAfter time.Time) (*x509.Certificate, error) {
	serial++
	tmpl := &x509.Certificate{
		SerialNumber: big.NewInt(serial),
		Subject:      pkix.Name{CommonName: "c17"},
		NotBefore:    notBefore,
		NotAfter:     notAfter,
		DNSNames:     dns,
		KeyUsage:     x509.KeyUsageDigitalSignature,
	}
	der, err := x509.CreateCertificate(rand.Reader, tmpl, tmpl, &caKey.PublicKey, caKey)
	if err != nil {
		return nil, err
	}
	return x509.ParseCertificate(der)
}

// ---- queue / leader / signer stubs for the instance ----

type recQueue struct {
	adds, removes []string
	others        int
}

func (q *recQueue) Add(item interface{})                       { q.adds = append(q.adds, item.(string)) }
func (q *recQueue) AddAfter(item interface{}, d time.Duration) { q.others++ }
func (q *recQueue) Remove(item interface{})                    { q.removes = append(q.removes, item.(string)) }
func (q *recQueue) Start(context.Context) error                { return nil }
func (q *recQueue) take() (adds, removes []string) {
	adds, removes = q.adds, q.removes
	q.adds, q.removes = nil, nil
	sort.Strings(adds)
	sort.Strings(removes)
	if adds == nil {
		adds = []string{}
	}
	if removes == nil {
		removes = []string{}
	}
	return
}

type leader struct{ is bool }

func (l *leader) IsLeader() bool             { return l.is }
func (l *leader) LeaderName() string         { return "other" }
func (l *leader) Run(stopCh <-chan struct{}) {}

type stubSigner struct{ has bool }

func (s *stubSigner) AcmeAccount(endpoint, emails string, termsAgreed bool) {}
func (s *stubSigner) AcmeConfig(expiring time.Duration)                     {}
func (s *stubSigner) HasAccount() bool                                      { return s.has }
func (s *stubSigner) Notify(item interface{}) error                         { return nil }
