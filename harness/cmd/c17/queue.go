package main

import (
	"fmt"
	"math/rand"

	"github.com/jcmoraisjr/haproxy-ingress/pkg/haproxy"

	"verif/harness/lib/hx"
)

// qop is one call on the real objects:
//
//	acquire: Storages().Acquire(Name) + AddDomains(Domains) + AssignPreferredChain(Chain) when Chain != ""
//	remove:  Storages().RemoveAll(Names)
//	update:  Instance.AcmeUpdate() with LeaderElector.IsLeader()=Leader, Signer.HasAccount()=Account
//	commit:  Config().Commit()
//	clear:   Config().Clear()           (what a full sync starts with)
type qop struct {
	Op      string   `json:"op"`
	Name    string   `json:"name,omitempty"`
	Domains []string `json:"domains,omitempty"`
	Chain   string   `json:"chain,omitempty"`
	Names   []string `json:"names,omitempty"`
	Leader  bool     `json:"leader,omitempty"`
	Account bool     `json:"account,omitempty"`
}

// queueIn: Shaped = rounds of the form [clear | remove] acquire* update commit, the call pattern of
// converters.Sync + ReconcileIngress; the oracle is applied to those. Unshaped histories only feed
// the correspondence with the model.
type queueIn struct {
	Ops    []qop `json:"ops"`
	Shaped bool  `json:"shaped"`
}

type updObs struct {
	Adds    []string `json:"adds"`
	Removes []string `json:"removes"`
	View    []string `json:"view"` // BuildAcmeStorages() when the update was called
}

type queueObs struct {
	Updates []updObs `json:"updates"`
	Final   []string `json:"final"`
}

func runQueue(in *queueIn) *queueObs {
	q := &recQueue{}
	le := &leader{}
	sg := &stubSigner{}
	inst := haproxy.CreateInstance(nopLogger{}, haproxy.InstanceOptions{AcmeQueue: q, LeaderElector: le, AcmeSigner: sg})
	obs := &queueObs{Updates: []updObs{}}
	for _, op := range in.Ops {
		st := inst.Config().AcmeData().Storages()
		switch op.Op {
		case "acquire":
			c := st.Acquire(op.Name)
			c.AddDomains(op.Domains)
			if op.Chain != "" {
				_ = c.AssignPreferredChain(op.Chain)
			}
		case "remove":
			st.RemoveAll(op.Names)
		case "update":
			le.is, sg.has = op.Leader, op.Account
			view := sorted(st.BuildAcmeStorages())
			inst.AcmeUpdate()
			adds, removes := q.take()
			obs.Updates = append(obs.Updates, updObs{adds, removes, view})
		case "commit":
			inst.Config().Commit()
		case "clear":
			inst.Config().Clear()
		default:
			panic("unknown op " + op.Op)
		}
	}
	obs.Final = sorted(inst.Config().AcmeData().Storages().BuildAcmeStorages())
	return obs
}

// oracleQueue: on shaped histories, each update on the leader must enqueue exactly the storages
// that appeared or changed since the previous commit and remove those that disappeared or changed.
func oracleQueue(in *queueIn, obs *queueObs) (string, string) {
	v0 := map[string]string{}
	full := false
	u := 0
	var v1 map[string]string
	for _, op := range in.Ops {
		switch op.Op {
		case "clear":
			full = true
		case "update":
			o := obs.Updates[u]
			u++
			v1 = viewMap(o.View)
			if k, what := checkCalls(v0, v1, full, op.Leader && op.Account, o.Adds, o.Removes); k != "" {
				return k, fmt.Sprintf("update #%d: %s", u, what)
			}
		case "commit":
			if v1 != nil {
				v0 = v1
			}
			v1 = nil
			full = false
		}
	}
	return "", ""
}

// ---- generator ----

var qNames = []string{"d/s0", "d/s1", "d/s2", "e/s0", "d/s3"}
var qDomains = []string{"a.example", "b.example", "c.example", "www.a.example", "*.b.example", "z.test"}
var qChains = []string{"", "", "", "ISRG Root X1", "chain2"}

func genDomains(rng *rand.Rand) []string {
	n := 1 + rng.Intn(3)
	if rng.Intn(15) == 0 {
		n = 0
	}
	out := []string{}
	for i := 0; i < n; i++ {
		out = append(out, pick(rng, qDomains))
	}
	return out
}

func genQueue(rng *rand.Rand) *queueIn {
	in := &queueIn{Shaped: rng.Intn(6) != 0}
	if !in.Shaped {
		// malformed stream: any interleaving of the calls
		n := 3 + rng.Intn(14)
		for i := 0; i < n; i++ {
			switch r := rng.Intn(12); {
			case r < 5:
				in.Ops = append(in.Ops, qop{Op: "acquire", Name: pick(rng, qNames), Domains: genDomains(rng), Chain: pick(rng, qChains)})
			case r < 7:
				in.Ops = append(in.Ops, qop{Op: "remove", Names: subset(rng, qNames, 0.4)})
			case r < 10:
				in.Ops = append(in.Ops, qop{Op: "update", Leader: rng.Intn(5) != 0, Account: rng.Intn(8) != 0})
			case r < 11:
				in.Ops = append(in.Ops, qop{Op: "commit"})
			default:
				in.Ops = append(in.Ops, qop{Op: "clear"})
			}
		}
		return in
	}
	// shaped: a simulated cluster of wanted storages; each storage is the union of the tls blocks
	// of one or two "ingresses" (so the same name may be acquired twice in a round)
	type want struct {
		parts [][]string
		chain string
	}
	cluster := map[string]*want{}
	rounds := 2 + rng.Intn(5)
	for r := 0; r < rounds; r++ {
		full := r == 0 || rng.Intn(6) == 0
		dirty := map[string]bool{}
		// the cluster changes
		nchg := rng.Intn(3)
		if r == 0 {
			nchg = 1 + rng.Intn(3)
		}
		fresh := map[string]bool{}   // new storages
		touched := map[string]bool{} // acquired again without having been removed (shared secret)
		for i := 0; i < nchg; i++ {
			n := pick(rng, qNames)
			w := cluster[n]
			switch k := rng.Intn(6); {
			case w == nil:
				cluster[n] = &want{parts: [][]string{genDomains(rng)}, chain: pick(rng, qChains)}
				fresh[n] = true
				dirty[n] = rng.Intn(2) == 0 // removing an unknown name is harmless
			case k == 0:
				delete(cluster, n)
				dirty[n] = true
			case k == 1 && len(w.parts) < 3:
				// another ingress starts using the same secret: the converter does not mark it dirty
				w.parts = append(w.parts, genDomains(rng))
				touched[n] = true
			case k == 2:
				w.parts[rng.Intn(len(w.parts))] = genDomains(rng)
				dirty[n] = true
			case k == 3:
				w.chain = pick(rng, qChains)
				dirty[n] = true
			default:
				dirty[n] = true // re-synced without change
			}
		}
		if full {
			in.Ops = append(in.Ops, qop{Op: "clear"})
		} else {
			names := []string{}
			for _, n := range qNames {
				if dirty[n] {
					names = append(names, n)
				}
			}
			if rng.Intn(10) == 0 {
				names = append(names, "d/unknown")
			}
			in.Ops = append(in.Ops, qop{Op: "remove", Names: names})
		}
		for _, n := range qNames {
			w := cluster[n]
			if w == nil {
				continue
			}
			switch {
			case full || dirty[n] || fresh[n]:
				for _, p := range w.parts {
					in.Ops = append(in.Ops, qop{Op: "acquire", Name: n, Domains: p, Chain: w.chain})
				}
			case touched[n]:
				in.Ops = append(in.Ops, qop{Op: "acquire", Name: n, Domains: w.parts[len(w.parts)-1], Chain: w.chain})
			}
		}
		in.Ops = append(in.Ops, qop{Op: "update", Leader: rng.Intn(6) != 0, Account: rng.Intn(12) != 0})
		in.Ops = append(in.Ops, qop{Op: "commit"})
	}
	return in
}

// ---- Coq case ----

func coqQueue(id int, in *queueIn, obs *queueObs) string {
	var ops []string
	for _, op := range in.Ops {
		switch op.Op {
		case "acquire":
			ops = append(ops, fmt.Sprintf("OAcquire %s %s %s", hx.Str(op.Name), coqStrs(op.Domains), hx.Str(op.Chain)))
		case "remove":
			ops = append(ops, "ORemove "+coqStrs(op.Names))
		case "update":
			ops = append(ops, fmt.Sprintf("OUpdate %s %s", hx.Bool(op.Leader), hx.Bool(op.Account)))
		case "commit":
			ops = append(ops, "OCommit")
		case "clear":
			ops = append(ops, "OClear")
		}
	}
	var ups []string
	for _, u := range obs.Updates {
		ups = append(ups, hx.Tuple(coqStrs(u.Adds), coqStrs(u.Removes), coqStrs(u.View)))
	}
	return fmt.Sprintf("CQueue %s %s %s %s", hx.N(id), hx.List(ops), hx.List(ups), coqStrs(obs.Final))
}
