package main

import (
	"crypto/x509"
	"fmt"
	"math/rand"
	"sort"
	"strings"

	networking "k8s.io/api/networking/v1"
	metav1 "k8s.io/apimachinery/pkg/apis/meta/v1"

	"github.com/jcmoraisjr/haproxy-ingress/pkg/converters"
	conv_helper "github.com/jcmoraisjr/haproxy-ingress/pkg/converters/helper_test"
	"github.com/jcmoraisjr/haproxy-ingress/pkg/converters/tracker"
	convtypes "github.com/jcmoraisjr/haproxy-ingress/pkg/converters/types"
	"github.com/jcmoraisjr/haproxy-ingress/pkg/haproxy"
	"github.com/jcmoraisjr/haproxy-ingress/pkg/utils"
)

const ingNS = "d"

type tlsSpec struct {
	Secret string   `json:"secret"`
	Hosts  []string `json:"hosts"`
}

// ingSpec is one Ingress of namespace "d": one rule host -> service, tls blocks, and the
// cert-signer annotation.
type ingSpec struct {
	Name  string    `json:"name"`
	Host  string    `json:"host"`
	Svc   string    `json:"svc"`
	Acme  bool      `json:"acme"`
	Chain string    `json:"chain,omitempty"`
	TLS   []tlsSpec `json:"tls"`
}

// ingStep is one reconciliation: a batch of notifications, then Sync, AcmeUpdate (if leading), Commit.
type ingStep struct {
	Full   bool      `json:"full"`   // NeedFullSync set by the watchers
	Leader bool      `json:"leader"` // this controller leads
	Gate   bool      `json:"gate"`   // not leading is seen by Services (AcmeUpdate not called) instead of by the LeaderElector
	Add    []ingSpec `json:"add,omitempty"`
	Upd    []ingSpec `json:"upd,omitempty"`
	Del    []string  `json:"del,omitempty"`
}

type ingressIn struct {
	Steps []ingStep `json:"steps"`
}

type stepObs struct {
	Adds    []string `json:"adds"`
	Removes []string `json:"removes"`
	View    []string `json:"view"`
	Want    []string `json:"want"` // name + domains evaluated from the Ingress list, no chain
}

type ingressObs struct {
	Steps []stepObs `json:"steps"`
}

func mkIngress(s ingSpec) *networking.Ingress {
	pt := networking.PathTypePrefix
	ing := &networking.Ingress{ObjectMeta: metav1.ObjectMeta{Namespace: ingNS, Name: s.Name, Annotations: map[string]string{}}}
	if s.Acme {
		ing.Annotations["ingress.kubernetes.io/cert-signer"] = "acme"
	}
	if s.Chain != "" {
		ing.Annotations["ingress.kubernetes.io/acme-preferred-chain"] = s.Chain
	}
	ing.Spec.Rules = []networking.IngressRule{{Host: s.Host, IngressRuleValue: networking.IngressRuleValue{HTTP: &networking.HTTPIngressRuleValue{
		Paths: []networking.HTTPIngressPath{{Path: "/", PathType: &pt, Backend: networking.IngressBackend{
			Service: &networking.IngressServiceBackend{Name: s.Svc, Port: networking.ServiceBackendPort{Number: 8080}}}}}}}}}
	for _, t := range s.TLS {
		ing.Spec.TLS = append(ing.Spec.TLS, networking.IngressTLS{Hosts: t.Hosts, SecretName: t.Secret})
	}
	return ing
}

var ingSvcs = []string{"echo0", "echo1", "echo2", "echo3"}
var ingSecrets = []string{"s0", "s1", "s2"}
var ingHosts = []string{"a.example", "b.example", "c.example", "d.example", "e.example", "f.example"}

func runIngress(in *ingressIn) *ingressObs {
	q := &recQueue{}
	le := &leader{}
	inst := haproxy.CreateInstance(nopLogger{}, haproxy.InstanceOptions{AcmeQueue: q, LeaderElector: le, AcmeSigner: &stubSigner{true}})
	tr := tracker.NewTracker()
	cache := conv_helper.NewCacheMock(tr)
	for i, s := range ingSvcs {
		svc, ep, _ := conv_helper.CreateService(ingNS+"/"+s, "8080", fmt.Sprintf("172.17.0.%d", 11+i))
		cache.SvcList = append(cache.SvcList, svc)
		cache.EpList[ingNS+"/"+s] = ep
	}
	for _, s := range ingSecrets {
		cache.SecretTLSPath[ingNS+"/"+s] = "/tls/" + s + ".pem"
	}
	opts := &convtypes.ConverterOptions{Cache: cache, Logger: nopLogger{}, Tracker: tr, DynamicConfig: &convtypes.DynamicConfig{},
		AnnotationPrefix: []string{"ingress.kubernetes.io"},
		FakeCrtFile:      convtypes.CrtFile{Filename: "/tls/fake.pem", SHA1Hash: "f4k3", Certificate: &x509.Certificate{}}}
	metrics := &recMetrics{}
	current := map[string]ingSpec{}
	obs := &ingressObs{}
	for i, st := range in.Steps {
		changed := &convtypes.ChangedObjects{Links: convtypes.TrackingLinks{}, NeedFullSync: st.Full || i == 0,
			GlobalConfigMapDataCur: map[string]string{}}
		link := func(name string) {
			changed.Links[convtypes.ResourceIngress] = append(changed.Links[convtypes.ResourceIngress], ingNS+"/"+name)
		}
		for _, n := range st.Del {
			if s, ok := current[n]; ok {
				changed.IngressesDel = append(changed.IngressesDel, mkIngress(s))
				delete(current, n)
				link(n)
			}
		}
		for _, s := range st.Upd {
			if _, ok := current[s.Name]; ok {
				changed.IngressesUpd = append(changed.IngressesUpd, mkIngress(s))
				current[s.Name] = s
				link(s.Name)
			}
		}
		for _, s := range st.Add {
			if _, ok := current[s.Name]; !ok {
				changed.IngressesAdd = append(changed.IngressesAdd, mkIngress(s))
				current[s.Name] = s
				link(s.Name)
			}
		}
		names := []string{}
		for n := range current {
			names = append(names, n)
		}
		sort.Strings(names)
		cache.IngList = nil
		for _, n := range names {
			cache.IngList = append(cache.IngList, mkIngress(current[n]))
		}
		// Services.ReconcileIngress
		timer := utils.NewTimer(metrics.ControllerProcTime)
		converters.NewConverter(timer, inst.Config(), changed, opts).Sync()
		view := sorted(inst.Config().AcmeData().Storages().BuildAcmeStorages())
		le.is = st.Leader || st.Gate
		if st.Leader || !st.Gate {
			inst.AcmeUpdate()
		}
		inst.Config().Commit()
		adds, removes := q.take()
		// independent evaluation of the wanted storages from the Ingress list
		want := map[string]map[string]bool{}
		for _, n := range names {
			s := current[n]
			if !s.Acme {
				continue
			}
			for _, t := range s.TLS {
				if t.Secret == "" {
					continue
				}
				k := ingNS + "/" + t.Secret
				if want[k] == nil {
					want[k] = map[string]bool{}
				}
				for _, h := range t.Hosts {
					want[k][h] = true
				}
			}
		}
		wl := []string{}
		for k, hs := range want {
			var l []string
			for h := range hs {
				l = append(l, h)
			}
			sort.Strings(l)
			wl = append(wl, k+","+strings.Join(l, ","))
		}
		sort.Strings(wl)
		obs.Steps = append(obs.Steps, stepObs{adds, removes, view, wl})
	}
	return obs
}

func stripChain(view []string) []string {
	out := []string{}
	for _, s := range view {
		p := strings.SplitN(s, ",", 3)
		if len(p) == 3 {
			out = append(out, p[0]+","+p[2])
		} else {
			out = append(out, s)
		}
	}
	sort.Strings(out)
	return out
}

func oracleIngress(in *ingressIn, obs *ingressObs) (string, string) {
	v0 := map[string]string{}
	for i, st := range in.Steps {
		o := obs.Steps[i]
		if !eqStrs(stripChain(o.View), o.Want) {
			return "view-not-cluster", fmt.Sprintf("step %d: acme storages %v but the Ingress list declares %v", i, o.View, o.Want)
		}
		v1 := viewMap(o.View)
		if k, what := checkCalls(v0, v1, st.Full || i == 0, st.Leader, o.Adds, o.Removes); k != "" {
			return k, fmt.Sprintf("step %d: %s", i, what)
		}
		v0 = v1
	}
	return "", ""
}

// ---- generator ----

func genSpec(rng *rand.Rand, name string) ingSpec {
	s := ingSpec{Name: name, Host: pick(rng, ingHosts), Svc: pick(rng, ingSvcs), Acme: rng.Intn(5) != 0, TLS: []tlsSpec{}}
	if rng.Intn(6) == 0 {
		s.Chain = pick(rng, []string{"ISRG Root X1", "chain2"})
	}
	nt := rng.Intn(3)
	for i := 0; i < nt; i++ {
		t := tlsSpec{Secret: pick(rng, ingSecrets), Hosts: []string{}}
		if rng.Intn(12) == 0 {
			t.Secret = ""
		}
		if rng.Intn(3) != 0 {
			t.Hosts = append(t.Hosts, s.Host)
		}
		if rng.Intn(3) == 0 {
			t.Hosts = append(t.Hosts, pick(rng, ingHosts))
		}
		s.TLS = append(s.TLS, t)
	}
	return s
}

func genIngress(rng *rand.Rand) *ingressIn {
	in := &ingressIn{}
	names := []string{"i0", "i1", "i2", "i3", "i4"}
	live := map[string]bool{}
	steps := 2 + rng.Intn(5)
	for i := 0; i < steps; i++ {
		st := ingStep{Full: rng.Intn(6) == 0, Leader: rng.Intn(6) != 0, Gate: rng.Intn(2) == 0}
		n := 1 + rng.Intn(2)
		if i == 0 {
			n = 1 + rng.Intn(3)
		}
		used := map[string]bool{}
		for j := 0; j < n; j++ {
			name := pick(rng, names)
			if used[name] {
				continue
			}
			used[name] = true
			switch {
			case !live[name]:
				st.Add = append(st.Add, genSpec(rng, name))
				live[name] = true
			case rng.Intn(3) == 0:
				st.Del = append(st.Del, name)
				live[name] = false
			default:
				st.Upd = append(st.Upd, genSpec(rng, name))
			}
		}
		in.Steps = append(in.Steps, st)
	}
	return in
}
