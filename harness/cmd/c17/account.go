package main

import (
	"crypto"
	"crypto/ecdsa"
	"crypto/elliptic"
	"crypto/rand"
	"errors"
	"fmt"
	mrand "math/rand"
	"net/http"
	"net/http/httptest"
	"strings"
	"sync/atomic"

	"github.com/jcmoraisjr/haproxy-ingress/pkg/acme"
	"github.com/jcmoraisjr/haproxy-ingress/pkg/haproxy"

	"verif/harness/lib/hx"
)

// Account life cycle: histories of reconciliations on the real haproxy.Instance with the REAL acme
// signer (acme.NewSigner: the account and its client are loaded by signer.AcmeAccount through
// acme.NewClient against a local fake ACME directory) while the directory goes down and comes
// back, the account key becomes unreadable, and the acme configuration changes.

// acctStep is one reconciliation: environment, configuration, what the sync did to the storages,
// then Instance.AcmeUpdate and Commit.
type acctStep struct {
	Server string   `json:"server"`  // state of the ACME directory: up | 503 | closed
	KeyErr bool     `json:"key_err"` // the account key cannot be read (cache.GetKey fails)
	Cfg    int      `json:"cfg"`     // acme configuration of the global config, index in acctConfigs
	Full   bool     `json:"full"`
	Dirty  []string `json:"dirty,omitempty"`
	Acqs   []qop    `json:"acqs,omitempty"` // Op is always "acquire"
	Leader bool     `json:"leader"`
}

type accountIn struct {
	Steps []acctStep `json:"steps"`
}

type acctCfg struct {
	Endpoint string // "" or a path prefix on the fake directory
	Emails   string
	Terms    bool
}

// 0 = acme not configured
var acctConfigs = []acctCfg{
	{"", "", false},
	{"/", "admin@example.com", true},
	{"/", "ops@example.com", true},
	{"/alt", "admin@example.com", true},
}

type acctObs struct {
	Adds       []string `json:"adds"`
	Removes    []string `json:"removes"`
	View       []string `json:"view"`
	HasAccount bool     `json:"has_account"`
}

type accountObs struct {
	Steps []acctObs `json:"steps"`
}

// fakeACME is a minimal ACME v2 directory: enough to retrieve (or update) an existing account.
type fakeACME struct {
	srv   *httptest.Server
	state atomic.Value // string
	nonce atomic.Int64
}

func newFakeACME() *fakeACME {
	f := &fakeACME{}
	f.state.Store("up")
	f.srv = httptest.NewServer(http.HandlerFunc(func(w http.ResponseWriter, r *http.Request) {
		switch f.state.Load().(string) {
		case "503":
			http.Error(w, "service unavailable", http.StatusServiceUnavailable)
			return
		case "closed":
			if hj, ok := w.(http.Hijacker); ok {
				if c, _, err := hj.Hijack(); err == nil {
					c.Close()
					return
				}
			}
			http.Error(w, "closed", http.StatusBadGateway)
			return
		}
		prefix := ""
		path := r.URL.Path
		if strings.HasPrefix(path, "/alt/") {
			prefix, path = "/alt", strings.TrimPrefix(path, "/alt")
		}
		base := f.srv.URL + prefix
		w.Header().Set("Replay-Nonce", fmt.Sprintf("nonce-%d", f.nonce.Add(1)))
		switch path {
		case "/directory":
			w.Header().Set("Content-Type", "application/json")
			fmt.Fprintf(w, `{"newNonce":"%[1]s/new-nonce","newAccount":"%[1]s/new-account","newOrder":"%[1]s/new-order"}`, base)
		case "/new-nonce":
			w.WriteHeader(http.StatusOK)
		case "/new-account", "/acct/1":
			w.Header().Set("Content-Type", "application/json")
			w.Header().Set("Location", base+"/acct/1")
			fmt.Fprint(w, `{"status":"valid","contact":["mailto:admin@example.com"]}`)
		default:
			http.NotFound(w, r)
		}
	}))
	return f
}

func (f *fakeACME) endpoint(c acctCfg) string {
	switch c.Endpoint {
	case "":
		return ""
	case "/":
		return f.srv.URL
	}
	return f.srv.URL + c.Endpoint
}

// keyCache is the acme.Cache of the signer: only the account key matters here.
type keyCache struct {
	stubCache
	key    crypto.Signer
	keyErr bool
}

func (c *keyCache) GetKey() (crypto.Signer, error) {
	if c.keyErr {
		return nil, errors.New("stub: account key secret cannot be read")
	}
	return c.key, nil
}

var theFakeACME *fakeACME
var theAcctKey crypto.Signer

func runAccount(in *accountIn) *accountObs {
	if theFakeACME == nil {
		theFakeACME = newFakeACME()
		k, err := ecdsa.GenerateKey(elliptic.P256(), rand.Reader)
		if err != nil {
			panic(err)
		}
		theAcctKey = k
	}
	f := theFakeACME
	cache := &keyCache{key: theAcctKey}
	signer := acme.NewSigner(nopLogger{}, cache, &recMetrics{})
	q := &recQueue{}
	le := &leader{}
	inst := haproxy.CreateInstance(nopLogger{}, haproxy.InstanceOptions{AcmeQueue: q, LeaderElector: le, AcmeSigner: signer})
	obs := &accountObs{}
	for _, st := range in.Steps {
		f.state.Store(st.Server)
		cache.keyErr = st.KeyErr
		// converters.Sync
		if st.Full {
			inst.Config().Clear()
		} else {
			inst.Config().AcmeData().Storages().RemoveAll(st.Dirty)
		}
		// UpdateGlobalConfig writes the acme keys of the global config on every sync that reads it
		cfg := acctConfigs[st.Cfg]
		ad := inst.Config().AcmeData()
		ad.Endpoint, ad.Emails, ad.TermsAgreed = f.endpoint(cfg), cfg.Emails, cfg.Terms
		for _, a := range st.Acqs {
			c := ad.Storages().Acquire(a.Name)
			c.AddDomains(a.Domains)
			if a.Chain != "" {
				_ = c.AssignPreferredChain(a.Chain)
			}
		}
		view := sorted(ad.Storages().BuildAcmeStorages())
		le.is = st.Leader
		inst.AcmeUpdate()
		adds, removes := q.take()
		obs.Steps = append(obs.Steps, acctObs{adds, removes, view, signer.HasAccount()})
		inst.Config().Commit()
	}
	f.state.Store("up")
	return obs
}

func envOK(st acctStep) bool { return st.Server == "up" && !st.KeyErr }

// oracleAccount: the property on the account life cycle. On the leader, a configured account whose
// endpoint is reachable and whose key is readable is loaded (now, or earlier for this very
// configuration); from then on the queue follows the cluster.
func oracleAccount(in *accountIn, obs *accountObs) (string, string) {
	v0 := map[string]string{}
	loadedFor := 0 // configuration the loaded account belongs to; 0 = none
	known := false // the signer was ever asked (a non-leader never loads the account)
	_ = known
	for i, st := range in.Steps {
		o := obs.Steps[i]
		v1 := viewMap(o.View)
		active := false
		if st.Leader {
			switch {
			case st.Cfg == 0:
				loadedFor = 0
			case loadedFor == st.Cfg:
			case envOK(st):
				loadedFor = st.Cfg
			default:
				loadedFor = 0
			}
			want := loadedFor != 0
			if o.HasAccount != want {
				if want {
					return "account-load-not-retried", fmt.Sprintf("step %d: acme is configured (configuration %d), the directory answers and the key is readable, but the signer has no account", i, st.Cfg)
				}
				return "account-unexpected", fmt.Sprintf("step %d: the signer reports an account although none could be loaded (configuration %d, server %s, key_err %v)", i, st.Cfg, st.Server, st.KeyErr)
			}
			active = want
		}
		if k, what := checkCalls(v0, v1, st.Full || i == 0, active, o.Adds, o.Removes); k != "" {
			return k, fmt.Sprintf("step %d: %s", i, what)
		}
		v0 = v1
	}
	return "", ""
}

// ---- generator ----

func genAccount(rng *mrand.Rand) *accountIn {
	in := &accountIn{}
	cluster := map[string][]string{}
	cfg := 1
	if rng.Intn(5) == 0 {
		cfg = rng.Intn(len(acctConfigs))
	}
	n := 3 + rng.Intn(5)
	for i := 0; i < n; i++ {
		st := acctStep{Server: "up", Cfg: cfg, Leader: rng.Intn(7) != 0, Full: i == 0 || rng.Intn(7) == 0, Dirty: []string{}, Acqs: []qop{}}
		if rng.Intn(3) == 0 {
			st.Server = pick(rng, []string{"503", "closed", "503"})
		}
		st.KeyErr = rng.Intn(8) == 0
		if rng.Intn(3) == 0 {
			cfg = rng.Intn(len(acctConfigs))
			st.Cfg = cfg
		}
		// the cluster changes
		dirty := map[string]bool{}
		for c := rng.Intn(3); c > 0; c-- {
			name := pick(rng, qNames)
			switch {
			case cluster[name] == nil:
				cluster[name] = genDomains(rng)
			case rng.Intn(3) == 0:
				delete(cluster, name)
			default:
				cluster[name] = genDomains(rng)
			}
			dirty[name] = true
		}
		for _, name := range qNames {
			if dirty[name] && !st.Full {
				st.Dirty = append(st.Dirty, name)
			}
			if d, ok := cluster[name]; ok && (st.Full || dirty[name]) {
				st.Acqs = append(st.Acqs, qop{Op: "acquire", Name: name, Domains: d})
			}
		}
		in.Steps = append(in.Steps, st)
	}
	return in
}

// ---- Coq case ----

func coqAccount(id int, in *accountIn, obs *accountObs, f *fakeACME) string {
	var steps, out []string
	for i, st := range in.Steps {
		var acqs []string
		for _, a := range st.Acqs {
			acqs = append(acqs, hx.Tuple(hx.Str(a.Name), coqStrs(a.Domains), hx.Str(a.Chain)))
		}
		sync := fmt.Sprintf("(Partial %s %s)", coqStrs(st.Dirty), hx.List(acqs))
		if st.Full {
			sync = fmt.Sprintf("(Full %s)", hx.List(acqs))
		}
		c := acctConfigs[st.Cfg]
		steps = append(steps, fmt.Sprintf("{| as_sync := %s; as_leader := %s; as_config := {| ac_endpoint := %s; ac_emails := %s; ac_terms := %s |}; as_load_ok := %s |}",
			sync, hx.Bool(st.Leader), hx.Str(f.endpoint(c)), hx.Str(c.Emails), hx.Bool(c.Terms), hx.Bool(envOK(st))))
		o := obs.Steps[i]
		out = append(out, hx.Tuple(coqStrs(o.Adds), coqStrs(o.Removes), coqStrs(o.View), hx.Bool(o.HasAccount)))
	}
	return fmt.Sprintf("CAccount %s %s %s", hx.N(id), hx.List(steps), hx.List(out))
}
