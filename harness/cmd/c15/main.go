// c15: oracle and correspondence for C15 (each TLS host is served with the certificate
// its Ingress declares, else the default one; rotation is local).
//
// Oracle (no model): histories of Ingress / Secret changes run through the real pipeline
// (watchers, cache writing real PEM files, converter, instance, templates); after every
// reconciliation the crt-list of the https bind is read back (lib/cfgnorm: certificate
// CONTENT hashes) and HAProxy's SNI selection (lib/sem.SNICert) is evaluated for a universe
// of names; it must select the content of the secret of the first ingress, in (creation,
// ns/name) order, declaring tls for that host - computed here from the cluster alone - or
// the default certificate. A step that only replaces secrets must change exactly the names
// using them. In socket mode (thorough tier) the simulated HAProxy of lib/fakehaproxy
// receives the runtime commands: the running process must hold the content of the files.
//
// Correspondence: the same runs restricted to the feature subset of coq/Model/Conv.v; every
// reconciliation is recorded as (cluster, batch, crt-list lines, served certificate labels)
// and coqc checks that Model/CrtList.v computes the same from the model state.
package main

import (
	"encoding/json"
	"fmt"
	"os"
	"path/filepath"
	"sort"
	"strings"

	hatypes "github.com/jcmoraisjr/haproxy-ingress/pkg/haproxy/types"

	"sigs.k8s.io/controller-runtime/pkg/client"

	"verif/harness/lib/cfgnorm"
	"verif/harness/lib/fakehaproxy"
	"verif/harness/lib/hx"
	"verif/harness/lib/pipeline"
	"verif/harness/lib/sem"
)

var workdir string

// ---------------------------------------------------------------- running one history

type lineObs struct {
	Cert    string `json:"cert"`
	Options string `json:"options,omitempty"`
	Filter  string `json:"filter"`
}

type stepObs struct {
	Lines   []lineObs         `json:"lines"`   // crt-list entries, content hashes
	Served  map[string]string `json:"served"`  // sni name -> content hash
	Reloads int               `json:"reloads"` // reloads asked for by this step
	Cmds    []string          `json:"cmds,omitempty"`
	// Running / Loaded: socket mode, certificate content (hash) per name selected in the
	// simulated running process and in a fresh load of the files
	Running map[string]string `json:"running,omitempty"`
	Loaded  map[string]string `json:"loaded,omitempty"`
	Partial bool              `json:"partial"`
	coq     string
	dyn     string      // Coq term of the kdyn record of this step ("" = none)
	DynJS   interface{} `json:"dyn,omitempty"`
	inst    string      // Coq term of the kinst record of this step (hosts level)
	// Raw: ssl-passthrough: backend the raw TLS stream of the name is sent to ("" = none)
	Raw map[string]string `json:"raw,omitempty"`
}

type runner struct {
	names   []string
	extra   []client.Object
	wantCoq bool
	p       *pipeline.Pipeline
	fake    *fakehaproxy.Fake
	socks   *fakehaproxy.Sockets
	dir     string
}

var runSeq int

func newRunner(in input, tag string) (*runner, error) {
	runSeq++
	dir := filepath.Join(workdir, fmt.Sprintf("%s%d", tag, runSeq%4))
	os.RemoveAll(dir)
	r := &runner{dir: dir, names: universe(in), extra: extraObjects(in)}
	opt := pipeline.Options{Dir: dir + "/p", WatchWithoutClass: true, DefaultSSLCertificate: in.DefaultSecret, AllowCrossNamespace: in.CrossNS, HasGatewayV1: in.Gateway}
	if in.Socket {
		if err := os.MkdirAll(dir+"/s", 0o755); err != nil {
			return nil, err
		}
		opt.MasterSocket = dir + "/s/m.sock"
		opt.AdminSocket = dir + "/s/a.sock"
		r.fake = fakehaproxy.New(opt.Dir + "/etc/haproxy")
		socks, err := fakehaproxy.Serve(r.fake, opt.AdminSocket, opt.MasterSocket)
		if err != nil {
			return nil, err
		}
		r.socks = socks
	}
	p, err := pipeline.NewE(opt)
	if err != nil {
		if r.socks != nil {
			r.socks.Close()
		}
		return nil, err
	}
	r.p = p
	return r, nil
}

func (r *runner) close() {
	if r.socks != nil {
		r.socks.Close()
	}
	r.p.Close()
	os.RemoveAll(r.dir)
}

func httpsCrtList(nf *cfgnorm.NF) []cfgnorm.CrtEntry {
	for _, f := range nf.Frontends {
		for _, b := range f.Binds {
			if len(b.CrtList) > 0 && strings.Contains(b.Addr, "443") {
				return b.CrtList
			}
		}
	}
	for _, f := range nf.Frontends {
		for _, b := range f.Binds {
			if len(b.CrtList) > 0 {
				return b.CrtList
			}
		}
	}
	return nil
}

// step applies one batch and observes.
func (r *runner) step(b []op, first bool) (*stepObs, error) {
	before := r.p.Reloads()
	oldHosts := map[string]*hatypes.Host{}
	if r.fake != nil && !first {
		for k, v := range r.p.Config().Hosts().Items() {
			oldHosts[k] = v
		}
	}
	if r.fake != nil {
		r.fake.Begin(nil)
	}
	if err := r.p.Apply(toBatch(b, first, r.extra...)); err != nil {
		return nil, fmt.Errorf("apply: %v", err)
	}
	o := &stepObs{Served: map[string]string{}, Reloads: r.p.Reloads() - before}
	nf, err := cfgnorm.Load(r.p.Dir(), r.p.Prefix())
	if err != nil {
		return nil, err
	}
	crt := httpsCrtList(nf)
	if len(crt) == 0 {
		return nil, fmt.Errorf("no crt-list on the https bind")
	}
	for _, e := range crt {
		for _, f := range e.Filters {
			o.Lines = append(o.Lines, lineObs{Cert: e.Cert, Options: e.Options, Filter: f})
		}
	}
	for _, n := range r.names {
		o.Served[n] = sem.SNICert(crt, n)
	}
	if nf.Frontend("_front__tls") != nil {
		o.Raw = map[string]string{}
		for _, n := range r.names {
			if rt := cfgnorm.Route(nf, cfgnorm.Request{Scheme: "https", Host: n, Path: "/"}); rt.Detail == "ssl-passthrough" {
				o.Raw[n] = rt.Backend
			}
		}
	}
	o.inst = coqInst(r.p)
	if os.Getenv("C15_DEBUG") != "" {
		var hs []string
		for n, h := range r.p.Config().Hosts().Items() {
			hs = append(hs, fmt.Sprintf("%s[tls=%s paths=%d]", n, filepath.Base(h.TLS.TLSFilename), len(h.Paths)))
		}
		sort.Strings(hs)
		fmt.Fprintf(os.Stderr, "DEBUG hosts=%v fullsync=%v links=%v\n  conv=%v\n", hs, r.p.Last.Runs[0].Changed.NeedFullSync, r.p.Last.Runs[0].Changed.Links, r.p.ConvLog.Take())
	}
	if r.fake != nil {
		ex, _ := r.fake.Snapshot()
		for _, e := range ex {
			if strings.HasPrefix(e.Target, "cert:") {
				o.Cmds = append(o.Cmds, firstWords(e.Cmd, 4)+" => "+lastLine(e.Answer))
			}
		}
		if o.Reloads > 0 {
			// the reload queue would run the reload now
			if err := r.fake.Reload(); err != nil {
				return nil, fmt.Errorf("simulated reload: %v", err)
			}
		}
		if !first && len(b) > 0 && onlySecrets(b) && len(r.p.Last.Runs) == 1 {
			o.dyn, o.DynJS = coqDyn(oldHosts, r.p.Config().Hosts().Items(), o.Reloads > 0, ex)
		}
		o.Running = selection(r.fake.St)
		loaded, err := fakehaproxy.LoadDir(r.fake.CfgDir)
		if err != nil {
			return nil, fmt.Errorf("load of the written files: %v", err)
		}
		o.Loaded = selection(loaded)
	}
	if len(r.p.Last.Runs) == 1 {
		o.Partial = !first && !r.p.Last.Runs[0].Changed.NeedFullSync
	}
	if r.wantCoq {
		// after the observation: reading the secrets through the cache rewrites the PEM files
		if c, ok := coqStep(r.p, o, first); ok {
			o.coq = c
		}
	}
	return o, nil
}

// crtAllowed / caAllowed: the permission the configuration documents for tls certificates
// (cross-namespace-secrets-crt) and for CA bundles (cross-namespace-secrets-ca);
// --allow-cross-namespace turns both on.
func (in input) crtAllowed() bool { return in.CrossNS || strings.EqualFold(in.XCrt, "allow") }
func (in input) caAllowed() bool  { return in.CrossNS || strings.EqualFold(in.XCa, "allow") }

// universe: the SNI names looked at.
func universe(in input) []string {
	names := append([]string{}, sniNames...)
	seen := map[string]bool{}
	for _, n := range names {
		seen[n] = true
	}
	add := func(n string) {
		if n != "" && !seen[n] {
			seen[n] = true
			names = append(names, n)
		}
	}
	if in.Gateway {
		for _, n := range gwHosts {
			add(n)
		}
		add("x.gw.example")
	}
	for _, b := range in.History {
		for _, o := range b {
			for _, h := range o.Rules {
				add(h)
			}
			for _, t := range o.TLS {
				for _, h := range t.Hosts {
					add(h)
				}
			}
			for _, l := range o.Listeners {
				add(l.Host)
				for _, h := range l.Routes {
					add(h)
				}
			}
		}
	}
	return names
}

func firstWords(s string, n int) string {
	w := strings.Fields(strings.SplitN(s, "\n", 2)[0])
	if len(w) > n {
		w = w[:n]
	}
	for i := range w {
		if j := strings.LastIndex(w[i], "/"); j >= 0 {
			w[i] = w[i][j+1:]
		}
	}
	return strings.Join(w, " ")
}

func lastLine(s string) string {
	l := strings.Split(strings.TrimSpace(s), "\n")
	return l[len(l)-1]
}

// selection: per SNI name the content (hash) of the certificate a (simulated) process
// state holds, selected with the same SNI rules over its crt-list.
func selection(st *fakehaproxy.State) map[string]string {
	var entries []cfgnorm.CrtEntry
	def := st.HostCert[""]
	entries = append(entries, cfgnorm.CrtEntry{Cert: def, Filters: []string{"!*"}})
	var hosts []string
	for h := range st.HostCert {
		if h != "" {
			hosts = append(hosts, h)
		}
	}
	sort.Strings(hosts)
	for _, h := range hosts {
		entries = append(entries, cfgnorm.CrtEntry{Cert: st.HostCert[h], Filters: []string{h}})
	}
	out := map[string]string{}
	for _, n := range sniNames {
		out[n] = canonHash(st.Certs[sem.SNICert(entries, n)])
	}
	return out
}

// ---------------------------------------------------------------- oracle on one history

type failure struct {
	key, what string
	step      int
	observed  interface{}
	expected  interface{}
}

// check runs a history and returns the failures of the oracle (at most one per key).
func check(in input, res *hx.Result, count, wantCoq bool) ([]failure, []*stepObs, error) {
	r, err := newRunner(in, "o")
	if err != nil {
		return nil, nil, err
	}
	r.wantCoq = wantCoq
	defer r.close()
	var fails []failure
	seen := map[string]bool{}
	add := func(f failure) {
		if !seen[f.key] {
			seen[f.key] = true
			fails = append(fails, f)
		}
	}
	c := newCluster()
	var prev *stepObs
	var prevView *view
	prevBad := map[string]bool{}
	var all []*stepObs
	for i, b := range in.History {
		o, err := r.step(b, i == 0)
		if err != nil {
			return nil, nil, err
		}
		all = append(all, o)
		c.apply(b)
		v := newView(c.clone(), in.DefaultSecret, in.crtAllowed(), in.caAllowed())
		bad := map[string]bool{}
		for _, n := range r.names {
			e := v.expect(n)
			got := o.Served[n]
			if count {
				res.OracleChecks++
				res.Count("name_" + e.Class)
				if e.Content != v.defContent {
					res.Count("name_served_custom")
				}
				if e.Note != "" {
					res.Count("note_" + e.Note)
				}
			}
			if e.Passthrough {
				// the TLS stream of the name is routed raw; HAProxy has no certificate for it
				if o.Raw[n] != e.Backend {
					bad[n] = true
					add(failure{key: "C15/passthrough-not-raw", step: i, what: fmt.Sprintf("step %d: ssl-passthrough host %s: the raw TLS stream goes to %q, expected backend %s", i, n, o.Raw[n], e.Backend),
						observed: map[string]interface{}{"raw": o.Raw, "crt_list": o.Lines}, expected: e})
				}
				for _, l := range o.Lines {
					if l.Filter == n {
						bad[n] = true
						add(failure{key: "C15/passthrough-has-crt-list-line", step: i, what: fmt.Sprintf("step %d: ssl-passthrough host %s has a crt-list line (%s)", i, n, l.Cert),
							observed: map[string]interface{}{"crt_list": o.Lines}, expected: e})
					}
				}
				continue
			}
			if o.Raw[n] != "" {
				bad[n] = true
				if db, ok := v.passthrough(""); ok && o.Raw[n] == db {
					// the default host asks for ssl-passthrough: names that are no https host go there
					if e.Class == "unknown" || (e.Class == "host-without-tls" && !e.HTTPS) {
						continue
					}
					add(failure{key: "C15/default-host-passthrough-captures-all-sni", step: i,
						what:     fmt.Sprintf("step %d: %s (%s) terminates TLS on HAProxy with its own certificate, but an ingress with an empty host and ssl-passthrough makes the TCP frontend send EVERY SNI raw to %s", i, n, e.Class, db),
						observed: map[string]interface{}{"raw": o.Raw}, expected: e})
					continue
				}
				add(failure{key: "C15/raw-routing-of-terminated-host", step: i, what: fmt.Sprintf("step %d: %s is no ssl-passthrough host but its TLS stream is sent raw to %s", i, n, o.Raw[n]),
					observed: map[string]interface{}{"raw": o.Raw}, expected: e})
				continue
			}
			if e.CA != "" {
				found := false
				for _, l := range o.Lines {
					if l.Filter == n && strings.Contains(l.Options, "ca-file <pem:"+e.CA+">") {
						found = true
					}
				}
				if count {
					res.OracleChecks++
					res.Count("name_auth_tls")
				}
				if e.CAForbidden && found {
					add(failure{key: "C15/auth-tls-ca-of-forbidden-namespace", step: i, what: fmt.Sprintf("step %d: auth-tls host %s: its crt-list line carries the CA bundle %s of another namespace although cross-namespace-secrets-ca denies reading it", i, n, e.CA),
						observed: map[string]interface{}{"crt_list": o.Lines}, expected: e})
				}
				if !e.CAForbidden && !found {
					add(failure{key: "C15/auth-tls-ca-missing", step: i, what: fmt.Sprintf("step %d: auth-tls host %s: no crt-list line of the host carries ca-file with the content %s of its CA secret", i, n, e.CA),
						observed: map[string]interface{}{"crt_list": o.Lines}, expected: e})
				}
			}
			if len(e.Allowed) > 0 {
				ok := false
				for _, a := range e.Allowed {
					ok = ok || a == got
				}
				if ok {
					continue
				}
			} else if got == e.Content {
				continue
			}
			bad[n] = true
			key := "C15/sni-wrong-certificate"
			what := fmt.Sprintf("step %d: SNI %s is served with certificate content %s, expected %s", i, n, got, e.Content)
			if e.Decl != nil && e.Class == "declared" && e.Decl.Forbidden && got != v.defContent {
				if c, ok := v.secretContent(strings.TrimPrefix(e.Decl.Raw, "secret://")); ok && c == got {
					key = "C15/forbidden-cross-namespace-secret-served"
					what = fmt.Sprintf("step %d: host %s declares tls with secret %q of another namespace (ingress %s); cross-namespace-secrets-crt denies reading it, so the default certificate must be served, but SNI selects that secret's certificate %s", i, n, e.Decl.Raw, e.Decl.Ingress, got)
				}
			}
			if e.Decl != nil && e.Class == "declared" && e.SecretKey != "" && got == v.defContent && strings.Contains(strings.TrimPrefix(e.Decl.Raw, "secret://"), "/") {
				key = "C15/permitted-cross-namespace-secret-refused"
				what = fmt.Sprintf("step %d: host %s declares tls with secret %q (ingress %s), readable under the configured permission and valid, but SNI selects the default certificate", i, n, e.Decl.Raw, e.Decl.Ingress)
			}
			if e.Wild != "" && got == e.WildContent && e.Content == v.defContent {
				switch {
				case e.Class == "declared":
					key = "C15/wildcard-cert-shadows-default-of-tls-host"
					what = fmt.Sprintf("step %d: host %s declares tls (ingress %s, secret %q: absent, invalid, forbidden or none) and must get the default certificate, but SNI selects the certificate %s of the wildcard host %s", i, n, e.Decl.Ingress, e.Decl.Raw, got, e.Wild)
				case e.HTTPS:
					key = "C15/wildcard-cert-shadows-default-of-https-host"
					what = fmt.Sprintf("step %d: host %s has no tls entry and ssl-always-add-https (https with the default certificate), but SNI selects the certificate %s of the wildcard host %s", i, n, got, e.Wild)
				default:
					key = "C15/wildcard-cert-covers-sibling"
					what = fmt.Sprintf("step %d: host %s has rules but no tls entry and must get the default certificate, but SNI selects the certificate %s declared for the wildcard host %s", i, n, got, e.Wild)
				}
			}
			add(failure{key: key, what: what, step: i, observed: map[string]interface{}{"sni": n, "served": got, "crt_list": o.Lines}, expected: e})
		}
		// rotation: a step made of secret changes only alters exactly the names using them
		if prev != nil && len(b) > 0 && onlySecrets(b) {
			touched := map[string]bool{}
			for _, x := range b {
				touched[x.NS+"/"+x.Name] = true
			}
			for _, n := range r.names {
				if count {
					res.OracleChecks++
				}
				if bad[n] || prevBad[n] || prev.Served[n] == o.Served[n] {
					continue
				}
				if e0, e1 := prevView.expect(n), v.expect(n); e0.Passthrough || e1.Passthrough || len(e0.Allowed) > 0 || len(e1.Allowed) > 0 {
					continue
				}
				k0, k1 := prevView.effectiveKey(n), v.effectiveKey(n)
				d0, d1 := prevView.winner(n), v.winner(n)
				uses := touched[k0] || touched[k1] || (d0 != nil && touched[d0.Secret]) || (d1 != nil && touched[d1.Secret])
				if e := v.expect(n); e.Class == "wildcard" {
					if d := v.winner(e.Wild); d != nil && touched[d.Secret] {
						uses = true
					}
				}
				if in.DefaultSecret != "" && touched[in.DefaultSecret] {
					uses = true
				}
				if !uses {
					add(failure{key: "C15/rotation-not-local", step: i,
						what:     fmt.Sprintf("step %d changes only secrets %v but the certificate served for %s changed from %s to %s although its declaration does not use them", i, keysOf(touched), n, prev.Served[n], o.Served[n]),
						observed: map[string]string{"before": prev.Served[n], "after": o.Served[n]}})
				}
			}
			if count {
				res.Count("rotation_steps")
			}
		}
		// runtime part: what the (simulated) running process holds equals what the files say
		if o.Running != nil {
			for _, n := range sniNames {
				if count {
					res.OracleChecks++
				}
				// the SNI oracle on the running process: the content it holds for the name is
				// the content of the secret the winning declaration names
				if e := v.expect(n); !bad[n] && e.SecretKey != "" && len(e.Allowed) == 0 && !e.Passthrough {
					if want, ok := v.runningContent(e.SecretKey); ok && o.Running[n] != want {
						add(failure{key: "C15/running-serves-wrong-certificate", step: i,
							what:     fmt.Sprintf("step %d: the running haproxy serves %s with certificate content %s, the secret %s its declaration names holds %s (reloads asked: %d, commands: %v)", i, n, o.Running[n], e.SecretKey, want, o.Reloads, o.Cmds),
							observed: map[string]interface{}{"running": o.Running[n], "files": o.Loaded[n], "cmds": o.Cmds}, expected: e})
					}
				}
				if o.Running[n] != o.Loaded[n] {
					add(failure{key: "C15/running-certificate-stale", step: i,
						what:     fmt.Sprintf("step %d: the running haproxy serves %s with content %s but the files written say %s (reloads asked: %d, commands: %v)", i, n, o.Running[n], o.Loaded[n], o.Reloads, o.Cmds),
						observed: map[string]interface{}{"running": o.Running[n], "files": o.Loaded[n], "cmds": o.Cmds}})
				}
			}
			// only the content of already served secrets changed: applied without reload
			if prev != nil && len(b) > 0 && contentOnly(b, prevView, v) {
				if count {
					res.Count("socket_content_only_steps")
				}
				if o.Reloads > 0 {
					if count {
						res.Count("socket_content_only_reloaded")
					}
				} else if count && len(o.Cmds) > 0 {
					res.Count("socket_content_only_dynamic")
				}
			}
		}
		prev, prevView, prevBad = o, v, bad
	}
	return fails, all, nil
}

func keysOf(m map[string]bool) []string {
	var out []string
	for k := range m {
		out = append(out, k)
	}
	sort.Strings(out)
	return out
}

func onlySecrets(b []op) bool {
	for _, o := range b {
		if o.Kind != "Secret" {
			return false
		}
	}
	return true
}

// contentOnly: every op replaces a secret that was valid and stays valid.
func contentOnly(b []op, before, after *view) bool {
	if !onlySecrets(b) {
		return false
	}
	for _, o := range b {
		if o.Op == "delete" {
			return false
		}
		_, ok0 := before.secretContent(o.NS + "/" + o.Name)
		_, ok1 := after.secretContent(o.NS + "/" + o.Name)
		if !ok0 || !ok1 {
			return false
		}
	}
	return true
}

func canonHash(content string) string {
	if content == "" {
		return "missing"
	}
	return "canon:" + hashStr(content)
}

// ---------------------------------------------------------------- main

func loadCorpus() []input {
	files, _ := filepath.Glob("/verif/corpus/C15/*.json")
	sort.Strings(files)
	var out []input
	for _, f := range files {
		var in input
		hx.ReadReplay(f, &in)
		in.History = normalise(in.History)
		out = append(out, in)
	}
	return out
}

func main() {
	o := hx.Parse()
	workdir = filepath.Join(o.Out, "scratch")
	os.MkdirAll(workdir, 0o755)
	defer os.RemoveAll(workdir)
	rng := o.Rng()
	res := hx.NewResult("C15", "histories: initial cluster (3 namespaces, secrets tls-1/tls-2/tls-bad/tls-absent with content from 5 real ECDSA certificates or malformed, up to 5 ingresses with 0-2 rule hosts and 0-2 tls blocks over 7 hosts incl. 2 wildcards with exact siblings, empty secretName, foreign ns/name references) + 1..4 batches of secret add/replace/delete and ingress add/replace/delete, some with a second event for one object; wider inputs add annotations (ssl-always-add-https, ssl-passthrough, auth-tls-secret), --default-ssl-certificate with that secret replaced/removed/broken, --allow-cross-namespace, Gateway API gateways with two HTTPS listeners (1-2 certificateRefs, local / cross-namespace / absent, certificates whose SAN matches a host or not) changed and deleted, socket mode; corpus: replicated secret rotated / rolled back / deleted / re-created, near-colliding pem file names; observed per reconciliation: crt-list entries (content hashes, options) and the SNI-selected certificate for 14+ names, raw routing of ssl-passthrough names, the hosts of the haproxy model; non-trivial = at least one name served with a custom certificate and at least one partial reconciliation; distinct by input text")
	os.MkdirAll(workdir, 0o755)
	cw := hx.NewCaseWriter(o, res, casePrelude(), "kcase", 25)

	type job struct {
		in     input
		corpus bool
		corr   bool
	}
	var jobs []job
	if o.Replay != "" {
		var in input
		hx.ReadReplay(o.Replay, &in)
		in.History = normalise(in.History)
		jobs = append(jobs, job{in: in, corpus: true})
	} else {
		for _, in := range loadCorpus() {
			jobs = append(jobs, job{in: in, corpus: true, corr: !o.Search})
		}
		nCorr := o.Count(170, 2500)
		nX := o.Count(70, 900)
		nWide := o.Count(90, 1500)
		nSock := o.Count(40, 600)
		if o.Search {
			nCorr, nWide, nSock, nX = o.Count(1500, 6000), o.Count(500, 2000), 200, o.Count(400, 1500)
		}
		for i := 0; i < nCorr; i++ {
			jobs = append(jobs, job{in: input{History: genHistory(rng, genCfg{foreign: true}, 1+rng.Intn(4))}, corr: !o.Search})
		}
		for i := 0; i < nWide; i++ {
			cfg := genCfg{foreign: true, ann: true}
			var in input
			if i%3 == 0 {
				in.DefaultSecret = "ns1/tls-2"
				cfg.defsec = in.DefaultSecret
			}
			if i%4 == 1 {
				in.CrossNS = true
			}
			if i%5 >= 3 {
				in.Gateway = true
				cfg.gateway = true
				cfg.ann = i%5 == 4
			}
			in.History = genHistory(rng, cfg, 1+rng.Intn(4))
			jobs = append(jobs, job{in: in, corr: !o.Search})
		}
		// cross-namespace references under the four combinations of the two global keys
		// (and --allow-cross-namespace): the crt key governs tls secrets, the ca key the CA
		// bundles of auth-tls
		for i := 0; i < nX; i++ {
			cfg := genCfg{foreign: true, xns: true, ann: i%3 == 2}
			in := input{}
			switch i % 4 {
			case 1:
				in.XCrt = "allow"
			case 2:
				in.XCa = "allow"
			case 3:
				in.XCrt, in.XCa = "Allow", "allow"
			}
			if i%8 == 4 {
				in.XCrt, in.XCa = "deny", "denied"
			}
			if i%9 == 8 {
				in.CrossNS = true
			}
			in.History = genHistory(rng, cfg, 1+rng.Intn(4))
			jobs = append(jobs, job{in: in, corr: !o.Search})
		}
		for i := 0; i < nSock; i++ {
			jobs = append(jobs, job{in: input{History: genHistory(rng, genCfg{foreign: true, replicated: i%2 == 0}, 1+rng.Intn(4)), Socket: true}, corr: !o.Search})
		}
	}

	seenKeys := map[string]bool{}
	certCmds, certCmdSteps := 0, 0
	var certSample []interface{}
	var probes []interface{}
	for ji, j := range jobs {
		in := j.in
		canon, _ := json.Marshal(in)
		conv := j.corr && in.DefaultSecret == "" && !in.Gateway && !in.Probe
		fails, obs, err := check(in, res, true, conv)
		if err != nil {
			res.Count("harness_error")
			res.Fail(hx.Failure{Key: "C15/update-error", What: "running the history failed: " + err.Error(), Input: in})
			continue
		}
		custom, partial := false, false
		for si, so := range obs {
			if len(so.Cmds) > 0 {
				certCmds += len(so.Cmds)
				certCmdSteps++
				if len(certSample) < 3 {
					certSample = append(certSample, map[string]interface{}{"batch": describe(in.History[si : si+1]), "commands": so.Cmds, "reloads": so.Reloads})
				}
			}
			for _, c := range so.Served {
				if c != fakeDefault {
					custom = true
				}
			}
			partial = partial || so.Partial
		}
		res.Seen(string(canon), custom && partial)
		res.Count(fmt.Sprintf("batches=%d", len(in.History)))
		if in.Socket {
			res.Count("mode_socket")
		} else if in.DefaultSecret != "" {
			res.Count("mode_default_secret")
		}
		if in.CrossNS {
			res.Count("mode_allow_cross_namespace")
		}
		if in.Gateway {
			res.Count("mode_gateway")
		}
		if in.XCrt != "" || in.XCa != "" {
			res.Count(fmt.Sprintf("mode_xns_crt=%v_ca=%v", in.crtAllowed(), in.caAllowed()))
		}
		for _, b := range in.History[min(1, len(in.History)):] {
			for _, x := range b {
				res.Count("change_" + x.Op + "_" + x.Kind)
			}
		}
		if ji < 3 || (len(res.Samples) < 5 && custom && partial) {
			res.Sample(5, map[string]interface{}{"history": describe(in.History), "observed_last": obs[len(obs)-1]})
		}
		if in.Probe {
			var ob []string
			for _, f := range fails {
				ob = append(ob, f.key+": "+f.what)
			}
			probes = append(probes, map[string]interface{}{"input": describe(in.History), "observations": ob})
			fails = nil
		}
		for _, f := range fails {
			res.Count("oracle_fail_" + f.key)
			if seenKeys[f.key] && !j.corpus {
				continue
			}
			seenKeys[f.key] = true
			m := in
			if !j.corpus {
				key := f.key
				m.History = shrink(in.History, func(h [][]op) bool {
					x := in
					x.History = h
					fs, _, err := check(x, res, false, false)
					if err != nil {
						return false
					}
					for _, g := range fs {
						if g.key == key {
							return true
						}
					}
					return false
				}, 120)
				if fs, _, err := check(m, res, false, false); err == nil {
					for _, g := range fs {
						if g.key == key {
							f = g
						}
					}
				}
			}
			res.Fail(hx.Failure{Key: f.key, What: f.what + " -- " + strings.Join(describe(m.History), " / "), Input: m, Observed: f.observed, Expected: f.expected})
		}
		if j.corr {
			emitCase(cw, res, in, obs, conv)
		}
	}
	res.Extra["runtime"] = map[string]interface{}{
		"what":                        "socket mode: real instance over unix sockets against lib/fakehaproxy; `set ssl cert` / `commit ssl cert` commands received",
		"cert_commands":               certCmds,
		"steps_with_cert_commands":    certCmdSteps,
		"sample":                      certSample,
		"content_only_steps":          res.Distribution["socket_content_only_steps"],
		"content_only_without_reload": res.Distribution["socket_content_only_dynamic"],
		"content_only_with_reload":    res.Distribution["socket_content_only_reloaded"],
	}
	if len(probes) > 0 {
		res.Extra["probes_with_names_kubernetes_rejects"] = probes
	}
	cw.Flush()
	res.Write(o)
}
