package main

// Coq term printers of the correspondence cases (cluster and batch in the form of
// coq/Model/Conv.v; the printers of the cluster are those of harness/cmd/c01).

import (
	"crypto/sha256"
	"encoding/hex"
	"fmt"
	"os"
	"path/filepath"
	"reflect"
	"sort"
	"strconv"
	"strings"

	api "k8s.io/api/core/v1"
	networking "k8s.io/api/networking/v1"

	convtypes "github.com/jcmoraisjr/haproxy-ingress/pkg/converters/types"
	hatypes "github.com/jcmoraisjr/haproxy-ingress/pkg/haproxy/types"

	"verif/harness/lib/fakehaproxy"
	"verif/harness/lib/hx"
	"verif/harness/lib/pipeline"
)

func hashStr(s string) string {
	h := sha256.Sum256([]byte(s))
	return hex.EncodeToString(h[:8])
}

func coqPtype(p networking.HTTPIngressPath) string {
	if p.PathType != nil {
		switch *p.PathType {
		case networking.PathTypeExact:
			return "Exact"
		case networking.PathTypePrefix:
			return "Prefix"
		}
	}
	return "Begin"
}

func coqIngress(ing *networking.Ingress) string {
	var rules []string
	for _, r := range ing.Spec.Rules {
		if r.HTTP == nil {
			continue
		}
		var paths []string
		for _, p := range r.HTTP.Paths {
			if p.Backend.Service == nil {
				continue
			}
			port := p.Backend.Service.Port.Name
			if port == "" {
				port = strconv.Itoa(int(p.Backend.Service.Port.Number))
			}
			paths = append(paths, fmt.Sprintf("{| r_path := %s; r_type := %s; r_svc := %s; r_port := %s |}",
				hx.Str(p.Path), coqPtype(p), hx.Str(p.Backend.Service.Name), hx.Str(port)))
		}
		rules = append(rules, hx.Tuple(hx.Str(r.Host), hx.List(paths)))
	}
	var tls []string
	for _, t := range ing.Spec.TLS {
		var hs []string
		for _, h := range t.Hosts {
			hs = append(hs, hx.Str(h))
		}
		tls = append(tls, hx.Tuple(hx.List(hs), hx.Str(t.SecretName)))
	}
	class := "None"
	if ing.Spec.IngressClassName != nil {
		class = "(Some " + hx.Str(*ing.Spec.IngressClassName) + ")"
	}
	return fmt.Sprintf("{| i_ns := %s; i_name := %s; i_stamp := %s; i_class := %s; i_rules := %s; i_tls := %s |}",
		hx.Str(ing.Namespace), hx.Str(ing.Name), hx.Z(ing.CreationTimestamp.Unix()), class, hx.List(rules), hx.List(tls))
}

// coqWorld prints the cluster as the model sees it and returns the map from the content
// hash of a certificate file (cfgnorm form) to the label the model uses for it (the SHA1
// the real cache computed).
func coqWorld(p *pipeline.Pipeline) (string, map[string]string) {
	var ings, svcs, eps, secs []string
	labels := map[string]string{fakeDefault: "DEFAULT"}
	objs := p.Objects()
	sort.Slice(objs, func(i, j int) bool { return p.Key(objs[i]) < p.Key(objs[j]) })
	for _, o := range objs {
		switch x := o.(type) {
		case *networking.Ingress:
			if p.IsValidIngress(x) {
				ings = append(ings, coqIngress(x))
			}
		case *api.Service:
			svcs = append(svcs, coqService(x))
		case *api.Endpoints:
			eps = append(eps, coqEndpoints(x))
		case *api.Secret:
			// the content hash the real cache computes; no tracking (nil track list)
			if f, err := p.Cache.GetTLSSecretPath(x.Namespace, x.Name, nil); err == nil {
				// the label is a prefix of the SHA1 (shorter Coq terms)
				secs = append(secs, hx.Tuple(hx.Str(x.Namespace+"/"+x.Name), hx.Str(short12(f.SHA1Hash))))
				labels[contentHash(x.Data[api.TLSCertKey], x.Data[api.TLSPrivateKeyKey])] = short12(f.SHA1Hash)
			}
		}
	}
	sv, ep := hx.List(svcs), hx.List(eps)
	if sv == baseSvcs {
		sv = "base_svcs"
	}
	if ep == baseEps {
		ep = "base_eps"
	}
	return fmt.Sprintf("{| w_ings := %s; w_svcs := %s; w_eps := %s; w_secrets := %s |}", hx.List(ings), sv, ep, hx.List(secs)), labels
}

// the services and endpoints every history starts with, printed once per cases file
var baseSvcs, baseEps string

func casePrelude() string {
	dir := workdir + "/prelude"
	p := pipeline.New(pipeline.Options{Dir: dir, WatchWithoutClass: true})
	defer p.Close()
	if err := p.Apply(toBatch(nil, true)); err != nil {
		panic(err)
	}
	var svcs, eps []string
	objs := p.Objects()
	sort.Slice(objs, func(i, j int) bool { return p.Key(objs[i]) < p.Key(objs[j]) })
	for _, o := range objs {
		switch x := o.(type) {
		case *api.Service:
			svcs = append(svcs, coqService(x))
		case *api.Endpoints:
			eps = append(eps, coqEndpoints(x))
		}
	}
	baseSvcs, baseEps = hx.List(svcs), hx.List(eps)
	return "From HI Require Import Corr.Corr_C15.\nDefinition base_svcs : list service := " + baseSvcs + ".\nDefinition base_eps : list (string * list subset) := " + baseEps + "."
}

func coqService(x *api.Service) string {
	var ports []string
	for _, sp := range x.Spec.Ports {
		ports = append(ports, fmt.Sprintf("{| sp_name := %s; sp_port := %s; sp_target := %s |}",
			hx.Str(sp.Name), hx.Z(int64(sp.Port)), hx.Str(sp.TargetPort.String())))
	}
	return fmt.Sprintf("{| s_ns := %s; s_name := %s; s_ports := %s |}", hx.Str(x.Namespace), hx.Str(x.Name), hx.List(ports))
}

func coqEndpoints(x *api.Endpoints) string {
	var subs []string
	for _, ss := range x.Subsets {
		for _, pt := range ss.Ports {
			if pt.Protocol != api.ProtocolTCP {
				continue
			}
			var ips []string
			for _, a := range ss.Addresses {
				ips = append(ips, hx.Str(a.IP))
			}
			subs = append(subs, fmt.Sprintf("{| ss_name := %s; ss_port := %s; ss_ready := %s |}", hx.Str(pt.Name), hx.Z(int64(pt.Port)), hx.List(ips)))
		}
	}
	return hx.Tuple(hx.Str(x.Namespace+"/"+x.Name), hx.List(subs))
}

var kindName = map[convtypes.ResourceType]string{
	convtypes.ResourceIngress: "KIngress", convtypes.ResourceIngressClass: "KClass", convtypes.ResourceConfigMap: "KConfigMap",
	convtypes.ResourceService: "KService", convtypes.ResourceEndpoints: "KEndpoints", convtypes.ResourceSecret: "KSecret", convtypes.ResourcePod: "KPod",
}

func coqBatch(ch *convtypes.ChangedObjects) (string, bool) {
	var links []string
	var kinds []string
	for k := range ch.Links {
		kinds = append(kinds, string(k))
	}
	sort.Strings(kinds)
	for _, k := range kinds {
		kn, ok := kindName[convtypes.ResourceType(k)]
		if !ok {
			return "", false
		}
		for _, n := range ch.Links[convtypes.ResourceType(k)] {
			links = append(links, hx.Tuple(kn, hx.Str(n)))
		}
	}
	var add, upd, del []string
	for _, i := range ch.IngressesAdd {
		add = append(add, coqIngress(i))
	}
	for _, i := range ch.IngressesUpd {
		upd = append(upd, coqIngress(i))
	}
	for _, i := range ch.IngressesDel {
		del = append(del, hx.Str(i.Namespace+"/"+i.Name))
	}
	return fmt.Sprintf("{| b_links := %s; b_add := %s; b_upd := %s; b_del := %s |}", hx.List(links), hx.List(add), hx.List(upd), hx.List(del)), true
}

// coqStep prints one reconciliation: (KFull w | KPartial w b, observation). ok=false when
// the run left the feature subset of the model.
func coqStep(p *pipeline.Pipeline, o *stepObs, first bool) (string, bool) {
	if len(p.Last.Runs) != 1 {
		return "", false
	}
	run := p.Last.Runs[0]
	for _, o := range p.Objects() {
		// the feature subset of Model/Conv.v: no annotations, no default backend
		if ing, ok := o.(*networking.Ingress); ok && (len(ing.Annotations) > 0 || ing.Spec.DefaultBackend != nil) {
			return "", false
		}
	}
	w, labels := coqWorld(p)
	label := func(h string) string {
		if l, ok := labels[h]; ok {
			return l
		}
		return "content:" + h
	}
	var lines, served []string
	for _, l := range o.Lines {
		lines = append(lines, hx.Tuple(hx.Str(label(l.Cert)), hx.Str(l.Filter)))
	}
	for _, n := range sniNames { // the gateway names are outside the converter model
		served = append(served, hx.Tuple(hx.Str(n), hx.Str(label(o.Served[n]))))
	}
	obs := fmt.Sprintf("{| ko_lines := %s; ko_served := %s |}", hx.List(lines), hx.List(served))
	if first {
		return hx.Tuple("KFull "+w, obs), true
	}
	if run.Changed.NeedFullSync {
		return "", false
	}
	bt, ok := coqBatch(run.Changed)
	if !ok {
		return "", false
	}
	return hx.Tuple("KPartial "+w+" "+bt, obs), true
}

// coqDyn prints the host pairs the dynamic updater compared in this step (hosts present
// before and after; "other" = every field but the certificate file, hash, CN and expiry,
// compared with reflect.DeepEqual as checkHostPair does) and what the simulated HAProxy
// saw: a reload asked for, the files of `set ssl cert`.
func coqDyn(old, cur map[string]*hatypes.Host, reload bool, ex []fakehaproxy.Exchange) (string, interface{}) {
	structural := false
	var names []string
	for n := range old {
		if _, ok := cur[n]; !ok {
			structural = true
		} else {
			names = append(names, n)
		}
	}
	for n := range cur {
		if _, ok := old[n]; !ok {
			structural = true
		}
	}
	sort.Strings(names)
	view := func(other, file, hash string) string {
		return fmt.Sprintf("{| hv_other := %s; hv_file := %s; hv_hash := %s |}", hx.Str(other), hx.Str(file), hx.Str(hash))
	}
	var pairs []string
	var js []string
	for _, n := range names {
		o, c := old[n], cur[n]
		oc := *o
		oc.TLS.TLSCommonName = c.TLS.TLSCommonName
		oc.TLS.TLSHash = c.TLS.TLSHash
		oc.TLS.TLSNotAfter = c.TLS.TLSNotAfter
		oc.TLS.TLSFilename = c.TLS.TLSFilename
		other := "same"
		if !reflect.DeepEqual(&oc, c) {
			other = "changed"
		}
		pairs = append(pairs, hx.Tuple(view("same", o.TLS.TLSFilename, o.TLS.TLSHash), view(other, c.TLS.TLSFilename, c.TLS.TLSHash)))
		if o.TLS.TLSFilename != c.TLS.TLSFilename || o.TLS.TLSHash != c.TLS.TLSHash || other != "same" {
			js = append(js, fmt.Sprintf("%s: %s %s -> %s %s (%s)", n, filepath.Base(o.TLS.TLSFilename), short(o.TLS.TLSHash), filepath.Base(c.TLS.TLSFilename), short(c.TLS.TLSHash), other))
		}
	}
	var files []string
	for _, e := range ex {
		w := strings.Fields(strings.SplitN(e.Cmd, "\n", 2)[0])
		if len(w) >= 4 && w[0] == "set" && w[1] == "ssl" && w[2] == "cert" {
			files = append(files, hx.Str(w[3]))
		}
	}
	term := fmt.Sprintf("{| kd_pairs := %s; kd_structural := %s; kd_reload := %s; kd_files := %s |}", hx.List(pairs), hx.Bool(structural), hx.Bool(reload), hx.List(files))
	return term, map[string]interface{}{"changed_pairs": js, "structural": structural, "reload": reload, "set_ssl_cert": len(files)}
}

func short12(s string) string {
	if len(s) > 12 {
		return s[:12]
	}
	return s
}

func short(s string) string {
	if len(s) > 8 {
		return s[:8]
	}
	return s
}

// coqInst prints the hosts level case of the current state: the hosts of the real haproxy
// model as the crt-list part of WriteFrontendMaps reads them (files by base name) and the
// crt-list file as written, line by line.
func coqInst(p *pipeline.Pipeline) string {
	cfg := p.Config()
	base := func(f string) string {
		if f == "" {
			return ""
		}
		return filepath.Base(f)
	}
	hosts := cfg.Hosts().Items()
	var names []string
	for n := range hosts {
		names = append(names, n)
	}
	sort.Strings(names)
	var hs []string
	for _, n := range names {
		h := hosts[n]
		t := h.TLS
		hs = append(hs, fmt.Sprintf("{| hc_name := %s; hc_crt := %s; hc_hastls := %s; hc_pass := %s; hc_alpn := %s; hc_ca := %s; hc_crl := %s; hc_ciphers := %s; hc_suites := %s; hc_options := %s |}",
			hx.Str(h.Hostname), hx.Str(base(t.TLSFilename)), hx.Bool(h.HasTLS()), hx.Bool(h.SSLPassthrough()), hx.Str(t.ALPN), hx.Str(base(t.CAFilename)), hx.Str(base(t.CRLFilename)),
			hx.Str(t.Ciphers), hx.Str(t.CipherSuites), hx.Str(t.Options)))
	}
	raw, err := os.ReadFile(p.RealPath(cfg.Frontend().CrtListFile))
	if err != nil {
		return ""
	}
	var lines []string
	for _, l := range strings.Split(string(raw), "\n") {
		l = strings.TrimSpace(l)
		if l == "" || strings.HasPrefix(l, "#") {
			continue
		}
		opts := ""
		if i := strings.Index(l, " ["); i >= 0 {
			if j := strings.Index(l[i:], "] "); j >= 0 {
				w := strings.Fields(l[i+2 : i+j])
				for k := range w {
					if strings.Contains(w[k], "/") {
						w[k] = filepath.Base(w[k])
					}
				}
				opts = strings.Join(w, " ")
				l = l[:i] + l[i+j+1:]
			}
		}
		w := strings.Fields(l)
		if len(w) != 2 {
			return ""
		}
		lines = append(lines, hx.Tuple(hx.Str(filepath.Base(w[0])), hx.Str(opts), hx.Str(w[1])))
	}
	return fmt.Sprintf("{| ki_default := %s; ki_hosts := %s; ki_lines := %s |}", hx.Str(base(cfg.Frontend().DefaultCrtFile)), hx.List(hs), hx.List(lines))
}

// emitCase writes the correspondence case of one history (already run by the oracle: the
// Coq steps were recorded then).
func emitCase(cw *hx.CaseWriter, res *hx.Result, in input, obs []*stepObs, conv bool) {
	var steps, dyns, insts []string
	for _, o := range obs {
		if o.inst != "" {
			insts = append(insts, o.inst)
		}
	}
	if conv {
		for _, o := range obs {
			if o.coq == "" {
				res.Count("corr_skipped_outside_model")
				steps, dyns = nil, nil
				break
			}
			steps = append(steps, o.coq)
			if o.dyn != "" {
				dyns = append(dyns, o.dyn)
				res.Count("corr_dyn_steps")
			}
		}
	}
	if len(steps) == 0 && len(insts) == 0 {
		return
	}
	if len(steps) > 0 {
		res.Count(fmt.Sprintf("corr_steps=%d", len(steps)))
	}
	res.Count(fmt.Sprintf("corr_hosts_level_steps=%d", len(insts)))
	var js []interface{}
	for _, o := range obs {
		js = append(js, map[string]interface{}{"lines": o.Lines, "served": o.Served, "dyn": o.DynJS, "cmds": o.Cmds, "reloads": o.Reloads})
	}
	cw.Add(func(id int) string {
		return fmt.Sprintf("{| kid := %s; kx := %s; ksteps := %s; kdyns := %s; kinsts := %s |}", hx.N(id), hx.Tuple(hx.Bool(in.crtAllowed()), hx.Bool(in.caAllowed())), hx.List(steps), hx.List(dyns), hx.List(insts))
	}, map[string]interface{}{"input": in, "describe": describe(in.History), "observed": js})
}
