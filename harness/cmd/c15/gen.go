package main

// Compact, replayable form of the inputs of C15 and their generator: histories of
// Ingress and Secret changes over small pools chosen so that sharing is the common case
// (one secret used by several ingresses and namespaces, several ingresses declaring tls
// for one host, wildcard hosts next to exact siblings, absent / malformed / foreign
// secrets, secrets replaced by new content, deleted and re-created).

import (
	"fmt"
	"math/rand"
	"sort"
	"strings"

	api "k8s.io/api/core/v1"
	networking "k8s.io/api/networking/v1"
	metav1 "k8s.io/apimachinery/pkg/apis/meta/v1"
	"k8s.io/apimachinery/pkg/util/intstr"
	"sigs.k8s.io/controller-runtime/pkg/client"
	gatewayv1 "sigs.k8s.io/gateway-api/apis/v1"

	"verif/harness/lib/pipeline"
	"verif/harness/lib/world"
)

type tlsBlk struct {
	Hosts  []string `json:"hosts"`
	Secret string   `json:"secret"`
}

// op is one change. Kind Ingress: Stamp, Rules (hosts, each with path / -> svc1:80), TLS,
// Ann (oracle-only inputs, outside the Coq model). Kind Secret: CN names the certificate
// content (one real ECDSA certificate per CN and process), Variant 0 valid, 1 malformed,
// 2 without tls.crt/tls.key.
type op struct {
	Op      string            `json:"op"` // create | update | delete
	Kind    string            `json:"kind"`
	NS      string            `json:"ns"`
	Name    string            `json:"name"`
	Stamp   int               `json:"stamp,omitempty"`
	Rules   []string          `json:"rules,omitempty"`
	TLS     []tlsBlk          `json:"tls,omitempty"`
	Ann     map[string]string `json:"ann,omitempty"`
	CN      string            `json:"cn,omitempty"`
	Variant int               `json:"variant,omitempty"`
	// Svc: the service of the rules (default svc1; ssl-passthrough ingresses use svcp so that
	// the tcp mode of their backend stays theirs)
	Svc string `json:"svc,omitempty"`
	// Kind Gateway: two HTTPS listeners, each with one HTTPRoute <name>-<listener>
	Listeners []gwL `json:"listeners,omitempty"`
}

// gwL is one HTTPS listener of a Gateway with the HTTPRoute attached to it.
type gwL struct {
	Name   string   `json:"name"`
	Host   string   `json:"host,omitempty"` // listener hostname ("" = the hostnames of the route)
	Certs  []string `json:"certs"`          // certificateRefs: "name" or "namespace/name"
	Routes []string `json:"routes"`         // hostnames of the route
}

type input struct {
	History [][]op `json:"history"`
	// Socket: run with master/admin sockets served by lib/fakehaproxy (runtime part).
	Socket bool `json:"socket,omitempty"`
	// DefaultSecret: --default-ssl-certificate (oracle only).
	DefaultSecret string `json:"default_secret,omitempty"`
	// CrossNS: --allow-cross-namespace (oracle only): "ns/name" references are allowed.
	CrossNS bool `json:"cross_ns,omitempty"`
	// XCrt / XCa: values of the global ConfigMap keys cross-namespace-secrets-crt and
	// cross-namespace-secrets-ca ("" = key absent = deny)
	XCrt string `json:"xcrt,omitempty"`
	XCa  string `json:"xca,omitempty"`
	// Gateway: the Gateway API (v1) is watched; a GatewayClass of this controller exists.
	Gateway bool `json:"gateway,omitempty"`
	// Probe: the input uses names Kubernetes would reject (namespaces with '_'): what the
	// oracle finds is recorded as an observation, not as a failure.
	Probe bool `json:"probe,omitempty"`
}

func (o op) key() string { return o.Kind + "|" + o.NS + "|" + o.Name }

func (o op) String() string {
	if o.Kind == "Secret" {
		if o.Op == "delete" {
			return fmt.Sprintf("delete Secret %s/%s", o.NS, o.Name)
		}
		return fmt.Sprintf("%s Secret %s/%s cn=%s variant=%d", o.Op, o.NS, o.Name, o.CN, o.Variant)
	}
	if o.Kind == "Gateway" {
		if o.Op == "delete" {
			return fmt.Sprintf("delete Gateway %s/%s", o.NS, o.Name)
		}
		var ls []string
		for _, l := range o.Listeners {
			ls = append(ls, fmt.Sprintf("%s{host=%q certs=%q routes=%q}", l.Name, l.Host, l.Certs, l.Routes))
		}
		return fmt.Sprintf("%s Gateway %s/%s t=%d %s", o.Op, o.NS, o.Name, o.Stamp, strings.Join(ls, " "))
	}
	if o.Op == "delete" {
		return fmt.Sprintf("delete Ingress %s/%s", o.NS, o.Name)
	}
	var t []string
	for _, b := range o.TLS {
		t = append(t, fmt.Sprintf("%v=>%q", b.Hosts, b.Secret))
	}
	s := fmt.Sprintf("%s Ingress %s/%s t=%d rules=%q tls=[%s]", o.Op, o.NS, o.Name, o.Stamp, o.Rules, strings.Join(t, " "))
	if len(o.Ann) > 0 {
		s += fmt.Sprintf(" ann=%v", o.Ann)
	}
	return s
}

func describe(h [][]op) []string {
	var out []string
	for i, b := range h {
		var parts []string
		for _, o := range b {
			parts = append(parts, o.String())
		}
		out = append(out, fmt.Sprintf("batch %d: %s", i, strings.Join(parts, "; ")))
	}
	return out
}

var (
	namespaces = []string{"ns1", "ns2", "ns3"}
	hostPool   = []string{"a.wild.example", "b.wild.example", "*.wild.example", "a.example", "sub.a.example", "*.a.example", "b.example"}
	// universe of SNI names: the hosts, neighbours, sub-domains of the wildcards, unknown names
	sniNames    = []string{"a.wild.example", "b.wild.example", "*.wild.example", "a.example", "sub.a.example", "*.a.example", "b.example", "c.wild.example", "x.a.wild.example", "wild.example", "c.a.example", "x.sub.a.example", "unknown.example", "example"}
	secretNames = []string{"tls-1", "tls-2", "tls-bad", "tls-absent"}
	cnPool      = []string{"cn1", "cn2", "cn3", "cn4", "cn5"}
	ingNames    = []string{"ing1", "ing2", "ing3", "ing4", "ing5"}
)

// toObject builds the Kubernetes object of an op (the first one for a Gateway).
func toObject(o op) client.Object { return toObjects(o)[0] }

// caSecret is a secret with ca.crt only (auth-tls-secret); one content per namespace.
func caSecret(ns string) *api.Secret {
	crt, _ := world.Cert("ca-of-" + ns)
	s := &api.Secret{}
	s.Namespace, s.Name = ns, "ca-1"
	s.Data = map[string][]byte{"ca.crt": crt}
	return s
}

func toObjects(o op) []client.Object {
	if o.Kind == "Secret" {
		return []client.Object{world.TLSSecret(o.NS, o.Name, o.CN, o.Variant)}
	}
	if o.Kind == "Gateway" {
		return gatewayObjects(o)
	}
	svc := o.Svc
	if svc == "" {
		svc = "svc1"
	}
	var rules []world.IngRule
	for _, h := range o.Rules {
		rules = append(rules, world.IngRule{Host: h, Paths: []world.IngPath{{Path: "/", Type: "Prefix", Service: svc, PortNum: 80}}})
	}
	ing := world.Ingress(o.NS, o.Name, o.Stamp, rules...)
	for _, b := range o.TLS {
		ing.Spec.TLS = append(ing.Spec.TLS, networking.IngressTLS{Hosts: append([]string{}, b.Hosts...), SecretName: b.Secret})
	}
	if len(o.Ann) > 0 {
		ing.Annotations = map[string]string{}
		for k, v := range o.Ann {
			ing.Annotations[world.AnnPrefix+k] = v
		}
	}
	return []client.Object{ing}
}

func gatewayObjects(o op) []client.Object {
	same := gatewayv1.NamespacesFromSame
	gw := &gatewayv1.Gateway{ObjectMeta: metav1.ObjectMeta{Namespace: o.NS, Name: o.Name, CreationTimestamp: world.Stamp(o.Stamp)},
		Spec: gatewayv1.GatewaySpec{GatewayClassName: "gwc"}}
	objs := []client.Object{gw}
	for i, l := range o.Listeners {
		li := gatewayv1.Listener{Name: gatewayv1.SectionName(l.Name), Port: 443, Protocol: gatewayv1.HTTPSProtocolType,
			AllowedRoutes: &gatewayv1.AllowedRoutes{Namespaces: &gatewayv1.RouteNamespaces{From: &same}},
			TLS:           &gatewayv1.GatewayTLSConfig{}}
		if l.Host != "" {
			h := gatewayv1.Hostname(l.Host)
			li.Hostname = &h
		}
		for _, c := range l.Certs {
			ref := gatewayv1.SecretObjectReference{Name: gatewayv1.ObjectName(c)}
			if j := strings.Index(c, "/"); j >= 0 {
				n := gatewayv1.Namespace(c[:j])
				ref.Namespace, ref.Name = &n, gatewayv1.ObjectName(c[j+1:])
			}
			li.TLS.CertificateRefs = append(li.TLS.CertificateRefs, ref)
		}
		gw.Spec.Listeners = append(gw.Spec.Listeners, li)
		section := gatewayv1.SectionName(l.Name)
		port := gatewayv1.PortNumber(80)
		rt := &gatewayv1.HTTPRoute{ObjectMeta: metav1.ObjectMeta{Namespace: o.NS, Name: o.Name + "-" + l.Name, CreationTimestamp: world.Stamp(o.Stamp + i)}}
		rt.Spec.ParentRefs = []gatewayv1.ParentReference{{Name: gatewayv1.ObjectName(o.Name), SectionName: &section}}
		for _, h := range l.Routes {
			rt.Spec.Hostnames = append(rt.Spec.Hostnames, gatewayv1.Hostname(h))
		}
		rt.Spec.Rules = []gatewayv1.HTTPRouteRule{{BackendRefs: []gatewayv1.HTTPBackendRef{{BackendRef: gatewayv1.BackendRef{
			BackendObjectReference: gatewayv1.BackendObjectReference{Name: "svc1", Port: &port}}}}}}
		objs = append(objs, rt)
	}
	return objs
}

// baseObjects are the services every history starts with (svc1 in every namespace).
func baseObjects() []client.Object {
	var out []client.Object
	for i, ns := range namespaces {
		out = append(out, world.Service(ns, "svc1", world.SvcPort{Name: "http", Port: 80, TargetPort: intstr.FromInt(8080)}))
		out = append(out, world.Endpoints(ns, "svc1", world.EpPort{Name: "http", Port: 8080, Ready: []string{fmt.Sprintf("10.0.%d.1", i+1)}}))
	}
	return out
}

// extraObjects: what the wider inputs need on top (outside the Coq model of the
// converter): the service of ssl-passthrough ingresses, the CA secrets of auth-tls,
// the GatewayClass.
func extraObjects(in input) []client.Object {
	var out []client.Object
	ann := in.Gateway
	for _, b := range in.History {
		for _, o := range b {
			if len(o.Ann) > 0 {
				ann = true
			}
		}
	}
	if ann {
		for i, ns := range namespaces {
			out = append(out, world.Service(ns, "svcp", world.SvcPort{Name: "https", Port: 80, TargetPort: intstr.FromInt(8443)}))
			out = append(out, world.Endpoints(ns, "svcp", world.EpPort{Name: "https", Port: 8443, Ready: []string{fmt.Sprintf("10.0.%d.2", i+1)}}))
			out = append(out, caSecret(ns))
		}
	}
	if in.XCrt != "" || in.XCa != "" {
		cm := &api.ConfigMap{}
		cm.Namespace, cm.Name = "ingress-controller", "haproxy-ingress"
		cm.Data = map[string]string{}
		if in.XCrt != "" {
			cm.Data["cross-namespace-secrets-crt"] = in.XCrt
		}
		if in.XCa != "" {
			cm.Data["cross-namespace-secrets-ca"] = in.XCa
		}
		out = append(out, cm)
	}
	if in.Gateway {
		out = append(out, &gatewayv1.GatewayClass{ObjectMeta: metav1.ObjectMeta{Name: "gwc"},
			Spec: gatewayv1.GatewayClassSpec{ControllerName: "haproxy-ingress.github.io/controller"}})
	}
	return out
}

func toBatch(b []op, first bool, extra ...client.Object) []pipeline.Change {
	var out []pipeline.Change
	if first {
		for _, o := range baseObjects() {
			out = append(out, pipeline.Change{Op: pipeline.Create, Obj: o})
		}
		for _, o := range extra {
			out = append(out, pipeline.Change{Op: pipeline.Create, Obj: o})
		}
	}
	for _, o := range b {
		for _, obj := range toObjects(o) {
			c := pipeline.Change{Obj: obj}
			switch o.Op {
			case "update":
				c.Op = pipeline.Update
			case "delete":
				c.Op = pipeline.Delete
			default:
				c.Op = pipeline.Create
			}
			out = append(out, c)
		}
	}
	return out
}

// cluster is the harness' own view of what exists (independent of the pipeline).
type cluster struct {
	objs map[string]op // key -> last create/update op
}

func newCluster() *cluster { return &cluster{objs: map[string]op{}} }

func (c *cluster) apply(b []op) {
	for _, o := range b {
		if o.Op == "delete" {
			delete(c.objs, o.key())
		} else {
			c.objs[o.key()] = o
		}
	}
}

func (c *cluster) clone() *cluster {
	n := newCluster()
	for k, v := range c.objs {
		n.objs[k] = v
	}
	return n
}

func (c *cluster) ofKind(kind string) []op {
	var out []op
	for _, o := range c.objs {
		if o.Kind == kind {
			out = append(out, o)
		}
	}
	sort.Slice(out, func(i, j int) bool { return out[i].key() < out[j].key() })
	return out
}

// normalise makes a history self-consistent (create of an existing object = update, update
// of a missing one = create, delete of a missing one dropped; an updated ingress keeps its
// creation stamp), so that every sub-sequence of a history is a valid input (shrinking).
func normalise(h [][]op) [][]op {
	c := newCluster()
	var out [][]op
	for _, b := range h {
		var nb []op
		for _, o := range b {
			old, ok := c.objs[o.key()]
			switch {
			case o.Op == "delete" && !ok:
				continue
			case o.Op == "delete":
			case ok:
				o.Op = "update"
				if o.Kind == "Ingress" || o.Kind == "Gateway" {
					o.Stamp = old.Stamp
				}
			default:
				o.Op = "create"
			}
			c.apply([]op{o})
			nb = append(nb, o)
		}
		if len(nb) > 0 || len(out) == 0 {
			out = append(out, nb)
		}
	}
	return out
}

type genCfg struct {
	foreign bool   // cross-namespace secret references "ns/name"
	ann     bool   // annotations (ssl-always-add-https, ssl-passthrough, auth-tls-secret)
	gateway bool   // Gateway API listeners with certificateRefs
	defsec  string // the --default-ssl-certificate secret: changed more often
	// replicated: one certificate copied into several namespaces (identical content under
	// distinct secrets) and batches that renew all the copies together, to the same new
	// content or to different ones
	replicated bool
	// xns: many cross-namespace references, in the forms ns/name, secret://ns/name and
	// (own namespace)/name; auth-tls-secret of another namespace
	xns bool
}

var (
	gwHosts   = []string{"g1.gw.example", "g2.gw.example", "g3.gw.example"}
	gwSecrets = []string{"tls-g1", "tls-g2", "tls-1", "tls-absent"}
	gwCNs     = []string{"g1.gw.example", "g2.gw.example", "*.gw.example", "cn1", "cn2"}
)

func hasWildcard(o op) bool {
	for _, h := range o.Rules {
		if strings.HasPrefix(h, "*") {
			return true
		}
	}
	for _, b := range o.TLS {
		for _, h := range b.Hosts {
			if strings.HasPrefix(h, "*") {
				return true
			}
		}
	}
	return false
}

// genGateway: a gateway with two HTTPS listeners; the hosts of the listeners of one cluster
// are mostly distinct (taken round robin from gwHosts starting at a random place).
func genGateway(rng *rand.Rand, ns, name string, stamp int) op {
	o := op{Op: "create", Kind: "Gateway", NS: ns, Name: name, Stamp: stamp}
	start := rng.Intn(len(gwHosts))
	for i := 0; i < 2; i++ {
		l := gwL{Name: fmt.Sprintf("l%d", i+1)}
		h := gwHosts[(start+i)%len(gwHosts)]
		switch rng.Intn(3) {
		case 0:
			l.Host, l.Routes = h, []string{h}
		case 1:
			l.Routes = []string{h}
		default:
			l.Routes = []string{h, gwHosts[(start+2)%len(gwHosts)]}
		}
		for j, m := 0, 1+rng.Intn(2); j < m; j++ {
			c := pickS(rng, gwSecrets)
			if rng.Intn(10) == 0 {
				other := namespaces[(indexOf(namespaces, ns)+1)%len(namespaces)]
				c = other + "/" + pickS(rng, gwSecrets[:3])
			}
			l.Certs = append(l.Certs, c)
		}
		o.Listeners = append(o.Listeners, l)
	}
	return o
}

func pickS(rng *rand.Rand, xs []string) string { return xs[rng.Intn(len(xs))] }

func genNS(rng *rand.Rand) string {
	if rng.Intn(2) == 0 {
		return namespaces[0]
	}
	return pickS(rng, namespaces)
}

func genIngress(rng *rand.Rand, cfg genCfg, ns, name string, stamp int) op {
	o := op{Op: "create", Kind: "Ingress", NS: ns, Name: name, Stamp: stamp}
	for i, n := 0, rng.Intn(3); i < n; i++ {
		h := pickS(rng, hostPool)
		if rng.Intn(10) == 0 {
			h = ""
		}
		o.Rules = append(o.Rules, h)
	}
	nb := rng.Intn(3)
	if len(o.Rules) == 0 && nb == 0 {
		nb = 1
	}
	for i := 0; i < nb; i++ {
		b := tlsBlk{Hosts: []string{}}
		m := rng.Intn(3)
		if m == 0 && rng.Intn(4) > 0 {
			m = 1
		}
		for j := 0; j < m; j++ {
			h := pickS(rng, hostPool)
			if len(o.Rules) > 0 && rng.Intn(2) == 0 {
				if r := o.Rules[rng.Intn(len(o.Rules))]; r != "" {
					h = r
				}
			}
			b.Hosts = append(b.Hosts, h)
		}
		switch k := rng.Intn(12); {
		case k == 0:
			b.Secret = ""
		case (k == 1 || (cfg.xns && k < 5)) && cfg.foreign:
			other := pickS(rng, namespaces)
			if other == ns {
				other = namespaces[(indexOf(namespaces, ns)+1)%len(namespaces)]
			}
			b.Secret = other + "/" + pickS(rng, secretNames[:2])
			if cfg.xns {
				switch rng.Intn(4) {
				case 0:
					b.Secret = "secret://" + b.Secret
				case 1:
					// qualified reference into the own namespace: always readable
					b.Secret = ns + "/" + pickS(rng, secretNames[:2])
				}
			}
		case k < 6:
			b.Secret = "tls-1"
		default:
			b.Secret = pickS(rng, secretNames)
		}
		o.TLS = append(o.TLS, b)
	}
	if cfg.ann {
		o.Ann = map[string]string{}
		if rng.Intn(4) == 0 {
			o.Ann["ssl-always-add-https"] = "true"
		}
		if rng.Intn(4) == 0 {
			o.Ann["auth-tls-secret"] = "ca-1"
			if cfg.xns && rng.Intn(2) == 0 {
				o.Ann["auth-tls-secret"] = namespaces[(indexOf(namespaces, ns)+1)%len(namespaces)] + "/ca-1"
			}
		}
		if rng.Intn(6) == 0 && !hasWildcard(o) && len(o.Rules) > 0 {
			o.Ann["ssl-passthrough"] = "true"
			o.Svc = "svcp"
		}
		if len(o.Ann) == 0 {
			o.Ann = nil
		}
	}
	return o
}

func indexOf(xs []string, x string) int {
	for i, y := range xs {
		if x == y {
			return i
		}
	}
	return 0
}

func genSecret(rng *rand.Rand, ns, name string) op {
	o := op{Op: "create", Kind: "Secret", NS: ns, Name: name, CN: pickS(rng, cnPool)}
	if strings.HasPrefix(name, "tls-g") {
		o.CN = pickS(rng, gwCNs)
	}
	switch {
	case name == "tls-bad" && rng.Intn(4) > 0:
		o.Variant = 1 + rng.Intn(2)
	case rng.Intn(8) == 0:
		o.Variant = 1 + rng.Intn(2)
	}
	return o
}

// genHistory: initial cluster + n batches.
func genHistory(rng *rand.Rand, cfg genCfg, n int) [][]op {
	var first []op
	for _, ns := range namespaces {
		for _, s := range secretNames[:3] {
			if rng.Intn(6) > 0 {
				first = append(first, genSecret(rng, ns, s))
			}
		}
	}
	if cfg.replicated {
		// tls-1 exists everywhere with the same content
		cn := pickS(rng, cnPool)
		var nf []op
		for _, o := range first {
			if !(o.Kind == "Secret" && o.Name == "tls-1") {
				nf = append(nf, o)
			}
		}
		first = nf
		for _, ns := range namespaces {
			first = append(first, op{Op: "create", Kind: "Secret", NS: ns, Name: "tls-1", CN: cn})
		}
	}
	used := map[string]bool{}
	for i, k := 0, 1+rng.Intn(5); i < k; i++ {
		ns, name := genNS(rng), pickS(rng, ingNames)
		if used[ns+"/"+name] {
			continue
		}
		used[ns+"/"+name] = true
		stamp := 10 + rng.Intn(6)
		first = append(first, genIngress(rng, cfg, ns, name, stamp))
	}
	if cfg.gateway {
		for _, ns := range namespaces[:2] {
			for _, sname := range gwSecrets[:2] {
				if rng.Intn(5) > 0 {
					first = append(first, genSecret(rng, ns, sname))
				}
			}
		}
		first = append(first, genGateway(rng, "ns1", "gw1", 10+rng.Intn(4)))
		if rng.Intn(2) == 0 {
			first = append(first, genGateway(rng, "ns2", "gw2", 10+rng.Intn(4)))
		}
	}
	h := [][]op{first}
	c := newCluster()
	c.apply(first)
	for i := 0; i < n; i++ {
		var b []op
		for j, m := 0, 1+rng.Intn(2); j < m; j++ {
			var o op
			if cfg.replicated && rng.Intn(3) == 0 {
				// every copy of one secret name is renewed in this batch
				name := pickS(rng, secretNames[:2])
				if rng.Intn(3) > 0 {
					name = "tls-1"
				}
				cn, same := pickS(rng, cnPool), rng.Intn(3) > 0
				for _, sec := range c.ofKind("Secret") {
					if sec.Name != name {
						continue
					}
					if !same {
						cn = pickS(rng, cnPool)
					}
					u := op{Op: "update", Kind: "Secret", NS: sec.NS, Name: name, CN: cn}
					b = append(b, u)
					c.apply([]op{u})
				}
				if len(b) > 0 {
					break
				}
			}
			k := rng.Intn(10)
			if cfg.gateway && rng.Intn(2) == 0 {
				// gateway mode: half of the changes concern the gateways and their secrets
				switch g := rng.Intn(6); {
				case g < 3:
					ns, name := pickS(rng, namespaces[:2]), pickS(rng, gwSecrets[:3])
					o = genSecret(rng, ns, name)
					if _, ok := c.objs[o.key()]; ok && rng.Intn(4) == 0 {
						o = op{Op: "delete", Kind: "Secret", NS: ns, Name: name}
					}
				case g < 5:
					if rng.Intn(2) == 0 {
						o = genGateway(rng, "ns1", "gw1", 10+rng.Intn(4))
					} else {
						o = genGateway(rng, "ns2", "gw2", 10+rng.Intn(4))
					}
				default:
					if gws := c.ofKind("Gateway"); len(gws) > 0 {
						gw := gws[rng.Intn(len(gws))]
						o = op{Op: "delete", Kind: "Gateway", NS: gw.NS, Name: gw.Name}
					} else {
						o = genGateway(rng, "ns1", "gw1", 10+rng.Intn(4))
					}
				}
				b = append(b, o)
				c.apply([]op{o})
				continue
			}
			if cfg.defsec != "" && rng.Intn(4) == 0 {
				// the default certificate itself is replaced / removed / broken
				i := strings.Index(cfg.defsec, "/")
				o = genSecret(rng, cfg.defsec[:i], cfg.defsec[i+1:])
				if _, ok := c.objs[o.key()]; ok && rng.Intn(5) == 0 {
					o = op{Op: "delete", Kind: "Secret", NS: o.NS, Name: o.Name}
				}
				b = append(b, o)
				c.apply([]op{o})
				continue
			}
			switch {
			case k < 6: // secret add / replace / delete
				ns, name := genNS(rng), pickS(rng, secretNames)
				// prefer secrets that some ingress references
				if ings := c.ofKind("Ingress"); len(ings) > 0 && rng.Intn(3) > 0 {
					ing := ings[rng.Intn(len(ings))]
					if len(ing.TLS) > 0 {
						ref := ing.TLS[rng.Intn(len(ing.TLS))].Secret
						if ref != "" && !strings.Contains(ref, "/") {
							ns, name = ing.NS, ref
						}
					}
				}
				o = genSecret(rng, ns, name)
				if _, ok := c.objs[o.key()]; ok && rng.Intn(4) == 0 {
					o = op{Op: "delete", Kind: "Secret", NS: ns, Name: name}
				}
			case k < 9: // ingress add / replace
				ns, name := genNS(rng), pickS(rng, ingNames)
				o = genIngress(rng, cfg, ns, name, 10+rng.Intn(8))
				if k == 8 {
					// an ingress OLDER than everything (stamps are data) - or an existing one
					// updated - that starts to declare tls WITHOUT secretName for a host another
					// ingress already declares tls for, the host not being among its rules
					o.Stamp = 1 + rng.Intn(8)
					var owned []string
					for _, ing := range c.ofKind("Ingress") {
						for _, t := range ing.TLS {
							if t.Secret != "" && (ing.NS != ns || ing.Name != name) {
								owned = append(owned, t.Hosts...)
							}
						}
					}
					if len(owned) > 0 {
						o.TLS = append(o.TLS, tlsBlk{Hosts: []string{owned[rng.Intn(len(owned))]}, Secret: ""})
					}
				}
			default:
				if ings := c.ofKind("Ingress"); len(ings) > 0 {
					ing := ings[rng.Intn(len(ings))]
					o = op{Op: "delete", Kind: "Ingress", NS: ing.NS, Name: ing.Name}
				} else {
					o = genSecret(rng, genNS(rng), pickS(rng, secretNames))
				}
			}
			b = append(b, o)
			c.apply([]op{o})
		}
		if rng.Intn(6) == 0 {
			// a second event for one object of the batch: delete + re-create, or a second update
			o := b[rng.Intn(len(b))]
			if o.Op == "delete" {
				if o.Kind == "Secret" {
					b = append(b, genSecret(rng, o.NS, o.Name))
				}
			} else if o.Kind == "Secret" {
				b = append(b, op{Op: "delete", Kind: "Secret", NS: o.NS, Name: o.Name}, genSecret(rng, o.NS, o.Name))
			}
			c.apply(b)
		}
		h = append(h, b)
	}
	return normalise(h)
}

// secretOf / ingressOf give typed access for the oracle.
func secretData(o op) (crt, key []byte) {
	s := toObject(o).(*api.Secret)
	return s.Data[api.TLSCertKey], s.Data[api.TLSPrivateKeyKey]
}

// shrink is delta debugging over the ops of a history (batch boundaries kept).
func shrink(h [][]op, fails func([][]op) bool, budget int) [][]op {
	type item struct{ b, i int }
	var items []item
	for b := range h {
		for i := range h[b] {
			items = append(items, item{b, i})
		}
	}
	build := func(keep []item) [][]op {
		out := make([][]op, 0, len(h))
		last := -1
		for _, it := range keep {
			for last < it.b {
				out = append(out, nil)
				last++
			}
			out[len(out)-1] = append(out[len(out)-1], h[it.b][it.i])
		}
		// drop empty batches except the first
		var res [][]op
		for i, b := range out {
			if i == 0 || len(b) > 0 {
				res = append(res, b)
			}
		}
		return normalise(res)
	}
	calls := 0
	test := func(keep []item) bool {
		if calls >= budget {
			return false
		}
		calls++
		return fails(build(keep))
	}
	n := 2
	for len(items) >= 2 && calls < budget {
		chunk := (len(items) + n - 1) / n
		reduced := false
		for start := 0; start < len(items); start += chunk {
			end := start + chunk
			if end > len(items) {
				end = len(items)
			}
			comp := append(append([]item{}, items[:start]...), items[end:]...)
			if len(comp) > 0 && test(comp) {
				items = comp
				if n > 2 {
					n--
				}
				reduced = true
				break
			}
		}
		if !reduced {
			if n >= len(items) {
				break
			}
			n *= 2
			if n > len(items) {
				n = len(items)
			}
		}
	}
	return build(items)
}
