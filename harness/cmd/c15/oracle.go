package main

// The oracle of C15, computed from the cluster alone (no model, no controller code):
// which certificate content every SNI name must be served with.

import (
	"verif/harness/lib/fakehaproxy"

	"crypto/sha256"
	"crypto/tls"
	"crypto/x509"
	"encoding/hex"
	"encoding/pem"
	"sort"
	"strings"
)

const fakeDefault = "fake-default" // cfgnorm's name of the auto-generated default certificate

// contentHash is cfgnorm's hash of the file the controller writes for a valid secret:
// tls.crt, a line break, tls.key.
func contentHash(crt, key []byte) string {
	out := append(append(append([]byte{}, crt...), '\n'), key...)
	s := sha256.Sum256(out)
	return hex.EncodeToString(s[:8])
}

// validPair tells whether tls.crt / tls.key hold a usable certificate and key.
func validPair(crt, key []byte) bool {
	if len(crt) == 0 || len(key) == 0 {
		return false
	}
	rest := crt
	n := 0
	for len(rest) > 0 {
		var blk *pem.Block
		blk, rest = pem.Decode(rest)
		if blk == nil {
			if n == 0 {
				return false
			}
			if len(strings.TrimSpace(string(rest))) > 0 {
				return false
			}
			break
		}
		if blk.Type != "CERTIFICATE" {
			return false
		}
		if _, err := x509.ParseCertificate(blk.Bytes); err != nil {
			return false
		}
		n++
	}
	_, err := tls.X509KeyPair(crt, key)
	return err == nil
}

// decl is the winning tls declaration of a host.
type decl struct {
	Ingress string `json:"ingress"` // ns/name
	Secret  string `json:"secret"`  // ns/name of the secret it resolves to; "" = none / forbidden
	Raw     string `json:"raw"`     // secretName as written
	// Forbidden: the reference names another namespace and the permission is deny
	Forbidden bool `json:"forbidden,omitempty"`
}

type expectation struct {
	Content string `json:"content"` // content hash or fake-default
	Class   string `json:"class"`   // declared | host-without-tls | wildcard | unknown
	Decl    *decl  `json:"decl,omitempty"`
	// SecretKey: the secret whose content decides Content ("" = the default certificate)
	SecretKey string `json:"secret_key,omitempty"`
	// Wild: for an undeclared name, the wildcard host covering it and what that one declares
	Wild        string `json:"wild,omitempty"`
	WildContent string `json:"wild_content,omitempty"`
	// HTTPS: the host is served over https although it has no tls entry (ssl-always-add-https)
	HTTPS bool `json:"https,omitempty"`
	// Allowed: when set, any of these contents is accepted (Gateway listeners whose
	// certificateRefs do not all resolve, or that reference another namespace)
	Allowed []string `json:"allowed,omitempty"`
	// Passthrough: ssl-passthrough host: no certificate of HAProxy is involved; Backend is
	// where the raw TLS stream must go
	Passthrough bool   `json:"passthrough,omitempty"`
	Backend     string `json:"backend,omitempty"`
	// CA: auth-tls: content hash of the ca.crt the crt-list line of the host must carry
	CA          string `json:"ca,omitempty"`
	CAForbidden bool   `json:"ca_forbidden,omitempty"`
	// Note: observations that are not failures
	Note string `json:"note,omitempty"`
}

// view is the cluster seen by the oracle.
type view struct {
	c           *cluster
	defContent  string // content label of the default certificate
	defSecret   string
	crossNS     bool // tls certificates may be read across namespaces (crt key / --allow-cross-namespace)
	caCross     bool // CA bundles may be read across namespaces (ca key / --allow-cross-namespace)
	ingsSorted  []op
	ruleHosts   map[string]bool
	httpsAlways map[string]bool
	ruleOwner   map[string]op // first ingress, in order, with a rule for the host
	gateways    []op
}

func newView(c *cluster, defaultSecret string, crtAllowed, caAllowed bool) *view {
	v := &view{c: c, crossNS: crtAllowed, caCross: caAllowed, defContent: fakeDefault, defSecret: defaultSecret, ruleHosts: map[string]bool{}, httpsAlways: map[string]bool{}}
	v.ingsSorted = c.ofKind("Ingress")
	sort.SliceStable(v.ingsSorted, func(i, j int) bool {
		a, b := v.ingsSorted[i], v.ingsSorted[j]
		if a.Stamp != b.Stamp {
			return a.Stamp < b.Stamp
		}
		return a.NS+"/"+a.Name < b.NS+"/"+b.Name
	})
	v.ruleOwner = map[string]op{}
	v.gateways = c.ofKind("Gateway")
	sort.SliceStable(v.gateways, func(i, j int) bool {
		a, b := v.gateways[i], v.gateways[j]
		if a.Stamp != b.Stamp {
			return a.Stamp < b.Stamp
		}
		return a.NS+"/"+a.Name < b.NS+"/"+b.Name
	})
	for _, ing := range v.ingsSorted {
		for _, h := range ing.Rules {
			if h == "" {
				if _, ok := v.ruleOwner[""]; !ok {
					v.ruleOwner[""] = ing
				}
			}
			if h != "" {
				if _, ok := v.ruleOwner[h]; !ok {
					v.ruleOwner[h] = ing
				}
				v.ruleHosts[h] = true
				if ing.Ann["ssl-always-add-https"] == "true" {
					v.httpsAlways[h] = true
				}
			}
		}
	}
	if defaultSecret != "" {
		if h, ok := v.secretContent(defaultSecret); ok {
			v.defContent = h
		}
	}
	return v
}

// secretContent: content hash of the secret ns/name if it exists and is valid.
func (v *view) secretContent(full string) (string, bool) {
	i := strings.Index(full, "/")
	o, ok := v.c.objs["Secret|"+full[:i]+"|"+full[i+1:]]
	if !ok {
		return "", false
	}
	crt, key := secretData(o)
	if !validPair(crt, key) {
		return "", false
	}
	return contentHash(crt, key), true
}

// winner: the first ingress, in (creation, ns/name) order, declaring tls for host.
func (v *view) winner(host string) *decl {
	for _, ing := range v.ingsSorted {
		for _, b := range ing.TLS {
			for _, h := range b.Hosts {
				if h != host {
					continue
				}
				d := &decl{Ingress: ing.NS + "/" + ing.Name, Raw: b.Secret}
				// the documented permission of tls secrets: cross-namespace-secrets-crt
				ref := strings.TrimPrefix(b.Secret, "secret://")
				switch {
				case b.Secret == "":
				case strings.Contains(ref, "://"):
				case strings.Count(ref, "/") > 1:
				case strings.Contains(ref, "/"):
					ns := ref[:strings.Index(ref, "/")]
					if ns == ing.NS || v.crossNS {
						d.Secret = ref
					} else {
						d.Forbidden = true
					}
				default:
					d.Secret = ing.NS + "/" + ref
				}
				return d
			}
		}
	}
	return nil
}

func (v *view) declContent(d *decl) (string, string) {
	if d.Secret != "" {
		if h, ok := v.secretContent(d.Secret); ok {
			return h, d.Secret
		}
	}
	return v.defContent, ""
}

func wildOf(name string) string {
	if i := strings.Index(name, "."); i >= 0 {
		return "*" + name[i:]
	}
	return ""
}

// expect: what the property says the SNI name must be served with.
func (v *view) expect(name string) expectation {
	if g, ok := v.expectGateway(name); ok {
		return g
	}
	e := v.expectIngress(name)
	if b, ok := v.passthrough(name); ok {
		e.Passthrough, e.Backend = true, b
		e.Class = "passthrough"
	} else if v.ruleHosts[name] || v.winner(name) != nil {
		e.CA, e.CAForbidden = v.caOf(name)
	}
	return e
}

func (v *view) expectIngress(name string) expectation {
	e := expectation{Content: v.defContent}
	if w := wildOf(name); w != "" && w != name {
		if d := v.winner(w); d != nil {
			e.Wild = w
			e.WildContent, _ = v.declContent(d)
		}
	}
	if d := v.winner(name); d != nil {
		c, k := v.declContent(d)
		return expectation{Content: c, Class: "declared", Decl: d, SecretKey: k, Wild: e.Wild, WildContent: e.WildContent}
	}
	if v.ruleHosts[name] {
		// a host without a tls entry: the default certificate (property text), whatever a
		// wildcard host of somebody else declares
		e.Class = "host-without-tls"
		e.HTTPS = v.httpsAlways[name]
		return e
	}
	if e.Wild != "" {
		// not a host of the cluster: the name belongs to the wildcard host covering it
		d := v.winner(e.Wild)
		c, k := v.declContent(d)
		return expectation{Content: c, Class: "wildcard", Decl: d, SecretKey: k, Wild: e.Wild, WildContent: c}
	}
	e.Class = "unknown"
	return e
}

// effectiveKey: the secret whose content decides what name is served with ("" = none).
func (v *view) effectiveKey(name string) string {
	return v.expect(name).SecretKey
}

// declaring: the ingresses, in order, that name host in a rule or in a tls block (these are
// the ones whose host scoped annotations apply to it).
func (v *view) declaring(host string) []op {
	var out []op
	for _, ing := range v.ingsSorted {
		found := false
		for _, h := range ing.Rules {
			found = found || h == host
		}
		for _, b := range ing.TLS {
			for _, h := range b.Hosts {
				found = found || h == host
			}
		}
		if found {
			out = append(out, ing)
		}
	}
	return out
}

// annOf: the value of a host scoped annotation: the first declaring ingress that carries it.
func (v *view) annOf(host, key string) (string, op, bool) {
	for _, ing := range v.declaring(host) {
		if val, ok := ing.Ann[key]; ok {
			return val, ing, true
		}
	}
	return "", op{}, false
}

// passthrough: the host asks for ssl-passthrough and has a root path.
func (v *view) passthrough(host string) (string, bool) {
	val, _, ok := v.annOf(host, "ssl-passthrough")
	if !ok || val != "true" {
		return "", false
	}
	owner, has := v.ruleOwner[host]
	if !has {
		return "", false
	}
	svc := owner.Svc
	if svc == "" {
		svc = "svc1"
	}
	port := "8080"
	if svc == "svcp" {
		port = "8443"
	}
	return owner.NS + "_" + svc + "_" + port, true
}

// caOf: the content hash of the CA file of an auth-tls host ("" = none); forbidden = the
// annotation names a CA secret of another namespace and cross-namespace-secrets-ca denies
// it: the crt-list line of the host must carry no ca-file of it.
func (v *view) caOf(host string) (ca string, forbidden bool) {
	val, ing, ok := v.annOf(host, "auth-tls-secret")
	if !ok {
		return "", false
	}
	ns := ing.NS
	if i := strings.Index(val, "/"); i >= 0 {
		ns, val = val[:i], val[i+1:]
	}
	if val != "ca-1" || indexOfStrict(namespaces, ns) < 0 {
		return "", false
	}
	if ns != ing.NS && !v.caCross {
		return hashBytes(caSecret(ns).Data["ca.crt"]), true
	}
	return hashBytes(caSecret(ns).Data["ca.crt"]), false
}

func indexOfStrict(xs []string, x string) int {
	for i, y := range xs {
		if x == y {
			return i
		}
	}
	return -1
}

func hashBytes(b []byte) string {
	s := sha256.Sum256(b)
	return hex.EncodeToString(s[:8])
}

// certMatches: the certificate of the secret verifies the host name.
func (v *view) certMatches(full, host string) bool {
	i := strings.Index(full, "/")
	o, ok := v.c.objs["Secret|"+full[:i]+"|"+full[i+1:]]
	if !ok {
		return false
	}
	crt, _ := secretData(o)
	blk, _ := pem.Decode(crt)
	if blk == nil {
		return false
	}
	c, err := x509.ParseCertificate(blk.Bytes)
	return err == nil && c.VerifyHostname(host) == nil
}

// listenersOf: the listeners whose hosts include name: the listener hostname if it has
// one, else the hostnames of its route.
func (v *view) listenersOf(name string) (ls []gwL, nss []string) {
	for _, gw := range v.gateways {
		for _, l := range gw.Listeners {
			hosts := l.Routes
			if l.Host != "" {
				hosts = []string{l.Host}
			}
			for _, h := range hosts {
				if h == name {
					ls, nss = append(ls, l), append(nss, gw.NS)
					break
				}
			}
		}
	}
	return
}

// expectGateway: a host of Gateway listeners. One listener, all its certificateRefs in the
// namespace of the Gateway and valid: the first one whose certificate verifies the host
// name, else the first one. Otherwise (several listeners claim the host, a reference does
// not resolve, a reference names another namespace - the converter has no ReferenceGrant
// support and reads the name in the Gateway's namespace): the default certificate or any
// valid secret of the Gateway's own namespace named by the listener, never anything else.
func (v *view) expectGateway(name string) (expectation, bool) {
	ls, nss := v.listenersOf(name)
	if len(ls) == 0 {
		return expectation{}, false
	}
	e := expectation{Class: "gateway"}
	exact := len(ls) == 1
	allowed := map[string]bool{v.defContent: true}
	for i, l := range ls {
		for _, c := range l.Certs {
			local := c
			if j := strings.Index(c, "/"); j >= 0 {
				exact = false
				e.Note = "cross-namespace certificateRef"
				local = c[j+1:]
			}
			if h, ok := v.secretContent(nss[i] + "/" + local); ok {
				allowed[h] = true
			} else {
				exact = false
			}
		}
		if len(l.Certs) == 0 {
			exact = false
		}
	}
	if exact {
		l, ns := ls[0], nss[0]
		pick := ns + "/" + l.Certs[0]
		for _, c := range l.Certs {
			if v.certMatches(ns+"/"+c, name) {
				pick = ns + "/" + c
				break
			}
		}
		e.Content, _ = v.secretContent(pick)
		e.SecretKey = pick
		return e, true
	}
	for k := range allowed {
		e.Allowed = append(e.Allowed, k)
	}
	sort.Strings(e.Allowed)
	e.Content = v.defContent
	return e, true
}

// runningContent: the content of the pem file of a valid secret in the form the simulated
// process holds it (fakehaproxy.CanonPEM), hashed as selection() does.
func (v *view) runningContent(full string) (string, bool) {
	i := strings.Index(full, "/")
	o, ok := v.c.objs["Secret|"+full[:i]+"|"+full[i+1:]]
	if !ok {
		return "", false
	}
	crt, key := secretData(o)
	if !validPair(crt, key) {
		return "", false
	}
	return canonHash(fakehaproxy.CanonPEM(string(crt) + "\n" + string(key))), true
}
