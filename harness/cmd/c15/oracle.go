package main

// The oracle of C15, computed from the cluster alone (no model, no controller code):
// which certificate content every SNI name must be served with.

import (
	"crypto/sha256"
	"crypto/tls"
	"crypto/x509"
	"encoding/hex"
	"encoding/pem"
	"sort"
	"strings"
)

const fakeDefault = "fake-default" // cfgnorm's name of the auto-generated default certificate

// contentHash is cfgnorm's hash of the file the controller writes for a valid secret:
// tls.crt, a line break, tls.key.
func contentHash(crt, key []byte) string {
	out := append(append(append([]byte{}, crt...), '\n'), key...)
	s := sha256.Sum256(out)
	return hex.EncodeToString(s[:8])
}

// validPair tells whether tls.crt / tls.key hold a usable certificate and key.
func validPair(crt, key []byte) bool {
	if len(crt) == 0 || len(key) == 0 {
		return false
	}
	rest := crt
	n := 0
	for len(rest) > 0 {
		var blk *pem.Block
		blk, rest = pem.Decode(rest)
		if blk == nil {
			if n == 0 {
				return false
			}
			if len(strings.TrimSpace(string(rest))) > 0 {
				return false
			}
			break
		}
		if blk.Type != "CERTIFICATE" {
			return false
		}
		if _, err := x509.ParseCertificate(blk.Bytes); err != nil {
			return false
		}
		n++
	}
	_, err := tls.X509KeyPair(crt, key)
	return err == nil
}

// decl is the winning tls declaration of a host.
type decl struct {
	Ingress string `json:"ingress"` // ns/name
	Secret  string `json:"secret"`  // ns/name of the secret it resolves to; "" = none / forbidden
	Raw     string `json:"raw"`     // secretName as written
}

type expectation struct {
	Content string `json:"content"` // content hash or fake-default
	Class   string `json:"class"`   // declared | host-without-tls | wildcard | unknown
	Decl    *decl  `json:"decl,omitempty"`
	// SecretKey: the secret whose content decides Content ("" = the default certificate)
	SecretKey string `json:"secret_key,omitempty"`
	// Wild: for an undeclared name, the wildcard host covering it and what that one declares
	Wild        string `json:"wild,omitempty"`
	WildContent string `json:"wild_content,omitempty"`
	// HTTPS: the host is served over https although it has no tls entry (ssl-always-add-https)
	HTTPS bool `json:"https,omitempty"`
}

// view is the cluster seen by the oracle.
type view struct {
	c           *cluster
	defContent  string // content label of the default certificate
	defSecret   string
	crossNS     bool
	ingsSorted  []op
	ruleHosts   map[string]bool
	httpsAlways map[string]bool
}

func newView(c *cluster, defaultSecret string, crossNS bool) *view {
	v := &view{c: c, crossNS: crossNS, defContent: fakeDefault, defSecret: defaultSecret, ruleHosts: map[string]bool{}, httpsAlways: map[string]bool{}}
	v.ingsSorted = c.ofKind("Ingress")
	sort.SliceStable(v.ingsSorted, func(i, j int) bool {
		a, b := v.ingsSorted[i], v.ingsSorted[j]
		if a.Stamp != b.Stamp {
			return a.Stamp < b.Stamp
		}
		return a.NS+"/"+a.Name < b.NS+"/"+b.Name
	})
	for _, ing := range v.ingsSorted {
		for _, h := range ing.Rules {
			if h != "" {
				v.ruleHosts[h] = true
				if ing.Ann["ssl-always-add-https"] == "true" {
					v.httpsAlways[h] = true
				}
			}
		}
	}
	if defaultSecret != "" {
		if h, ok := v.secretContent(defaultSecret); ok {
			v.defContent = h
		}
	}
	return v
}

// secretContent: content hash of the secret ns/name if it exists and is valid.
func (v *view) secretContent(full string) (string, bool) {
	i := strings.Index(full, "/")
	o, ok := v.c.objs["Secret|"+full[:i]+"|"+full[i+1:]]
	if !ok {
		return "", false
	}
	crt, key := secretData(o)
	if !validPair(crt, key) {
		return "", false
	}
	return contentHash(crt, key), true
}

// winner: the first ingress, in (creation, ns/name) order, declaring tls for host.
func (v *view) winner(host string) *decl {
	for _, ing := range v.ingsSorted {
		for _, b := range ing.TLS {
			for _, h := range b.Hosts {
				if h != host {
					continue
				}
				d := &decl{Ingress: ing.NS + "/" + ing.Name, Raw: b.Secret}
				switch {
				case b.Secret == "":
				case strings.Contains(b.Secret, "/"):
					ns := b.Secret[:strings.Index(b.Secret, "/")]
					if ns == ing.NS || v.crossNS {
						d.Secret = b.Secret
					}
				default:
					d.Secret = ing.NS + "/" + b.Secret
				}
				return d
			}
		}
	}
	return nil
}

func (v *view) declContent(d *decl) (string, string) {
	if d.Secret != "" {
		if h, ok := v.secretContent(d.Secret); ok {
			return h, d.Secret
		}
	}
	return v.defContent, ""
}

func wildOf(name string) string {
	if i := strings.Index(name, "."); i >= 0 {
		return "*" + name[i:]
	}
	return ""
}

// expect: what the property says the SNI name must be served with.
func (v *view) expect(name string) expectation {
	e := expectation{Content: v.defContent}
	if w := wildOf(name); w != "" && w != name {
		if d := v.winner(w); d != nil {
			e.Wild = w
			e.WildContent, _ = v.declContent(d)
		}
	}
	if d := v.winner(name); d != nil {
		c, k := v.declContent(d)
		return expectation{Content: c, Class: "declared", Decl: d, SecretKey: k, Wild: e.Wild, WildContent: e.WildContent}
	}
	if v.ruleHosts[name] {
		// a host without a tls entry: the default certificate (property text), whatever a
		// wildcard host of somebody else declares
		e.Class = "host-without-tls"
		e.HTTPS = v.httpsAlways[name]
		return e
	}
	if e.Wild != "" {
		// not a host of the cluster: the name belongs to the wildcard host covering it
		d := v.winner(e.Wild)
		c, k := v.declContent(d)
		return expectation{Content: c, Class: "wildcard", Decl: d, SecretKey: k, Wild: e.Wild, WildContent: c}
	}
	e.Class = "unknown"
	return e
}

// effectiveKey: the secret whose content decides what name is served with ("" = none).
func (v *view) effectiveKey(name string) string {
	return v.expect(name).SecretKey
}
