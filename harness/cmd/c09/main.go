// c09: correspondence and oracle for C09 (cross-namespace isolation).
//
// Two kinds of inputs, both run on the real code of /repo:
//   - grid: a setting of the four cross-namespace-* keys (any spelling) and of
//     --allow-cross-namespace is applied through the real global-config updater
//     (annotations.NewUpdater via the real converters), then reference strings of every
//     shape are resolved through every getter of the real cache facade (fake client with
//     secrets/services in two namespaces, real PEM certificates) and through the legacy
//     copy of buildResourceName; observes the permission bits and, per call, the
//     resolved namespace/name or the class of the error;
//   - sites: two worlds that differ only in an object of namespace b (a Secret or
//     Service that exists and is legitimately used inside b / does not exist); a reader in
//     namespace a references it from one of the keys that accept a resource name; both
//     worlds are converted by the real converters and the part of the haproxy model that
//     belongs to namespace a is compared.
//
// Oracles (no model): a successful resolution of a foreign-namespace object while its
// bit is deny; a difference between the two worlds in namespace a's configuration while
// the bit of the referenced kind is deny.
package main

import (
	"encoding/json"
	"time"
	"errors"
	"flag"
	"fmt"
	"math/rand"
	"os"
	"path/filepath"
	"sort"
	"strings"

	api "k8s.io/api/core/v1"
	networking "k8s.io/api/networking/v1"
	apierrors "k8s.io/apimachinery/pkg/api/errors"
	metav1 "k8s.io/apimachinery/pkg/apis/meta/v1"
	gatewayv1 "sigs.k8s.io/gateway-api/apis/v1"
	gatewayv1alpha2 "sigs.k8s.io/gateway-api/apis/v1alpha2"
	"sigs.k8s.io/controller-runtime/pkg/client"

	"github.com/jcmoraisjr/haproxy-ingress/pkg/common/ingress/controller"
	"github.com/jcmoraisjr/haproxy-ingress/pkg/controller/legacy"
	ingutils "github.com/jcmoraisjr/haproxy-ingress/pkg/converters/ingress/utils"
	"github.com/jcmoraisjr/haproxy-ingress/pkg/converters/gateway"
	convtypes "github.com/jcmoraisjr/haproxy-ingress/pkg/converters/types"

	"verif/harness/lib/c0809"
	"verif/harness/lib/hx"
)

const oursCtrl = "haproxy-ingress.github.io/controller"
const annPrefix = "haproxy-ingress.github.io/"

var keyNames = [4]string{"cross-namespace-secrets-crt", "cross-namespace-secrets-ca", "cross-namespace-secrets-passwd", "cross-namespace-services"}

type setting struct {
	Static bool      `json:"allow_cross_namespace"`
	Vals   [4]string `json:"values"` // crt, ca, passwd, services; "" = key absent
}

type call struct {
	Getter string `json:"getter"` // tls | ca | dh | passwd | service | legacy
	DefNs  string `json:"default_namespace"`
	Ref    string `json:"ref"`
	Allow  bool   `json:"allow,omitempty"` // legacy buildResourceName only
}

type site struct {
	Key string `json:"key"` // tls | auth-tls-secret | secure-crt-secret | secure-verify-ca-secret | auth-secret | auth-url
	Ref string `json:"ref"`
	On  string `json:"on"` // ingress | service
}

// gwRef is one Gateway API object reference written in namespace a: the backendRef of an
// HTTPRoute or TCPRoute, or the certificateRef of a Gateway listener.
type gwRef struct {
	Site string  `json:"site"` // backendref-http | backendref-tcp | certificateref
	Name string  `json:"name"`
	NS   *string `json:"namespace"` // the namespace member of the reference; null = absent
}

type input struct {
	Kind    string  `json:"kind"` // grid | sites
	Setting setting `json:"setting"`
	Calls   []call  `json:"calls,omitempty"`
	// sites
	Reader  *site  `json:"reader,omitempty"`
	BUses   string `json:"b_uses,omitempty"` // "" | same-key | backend (b routes to the service)
	BRef    string `json:"b_ref,omitempty"`  // how b's own ingress spells its reference (default "foreign")
	AOwn    bool   `json:"a_own,omitempty"`  // namespace a has its own object named foreign (in both worlds)
	Flip    bool   `json:"flip,omitempty"`   // the key of the referenced kind is allow during a first reconciliation, then set as in Setting
	// conversion order of b's own ingress/route relative to the reader of namespace a, through
	// metadata.creationTimestamp: "" (equal: a sorts first) | owner-first | owner-last
	Order string `json:"order,omitempty"`
	// both ingresses arrive after the first (full) reconciliation and are converted by one partial sync
	PartialBoth bool `json:"partial_both,omitempty"`
	// gwsites: a Gateway API reference of namespace a
	GW *gwRef `json:"gateway_ref,omitempty"`
	Partial bool   `json:"partial,omitempty"`
	Repeat  int    `json:"repeat,omitempty"`
}

var workDir string
var envSeq int

func nextDir() string {
	envSeq++
	return filepath.Join(workDir, fmt.Sprintf("env%d", envSeq%16))
}

func globalMap(s setting) map[string]string {
	m := map[string]string{}
	for i, v := range s.Vals {
		if v != "" {
			m[keyNames[i]] = v
		}
	}
	return m
}

// ---------- grid ----------

// secrets and services of the grid world: namespaces a and b
var gridSecrets = [][3]string{
	{"a", "crt", "tls"}, {"a", "ca", "ca"}, {"a", "cacrl", "cacrl"}, {"a", "pw", "auth"}, {"a", "dh", "dh"}, {"a", "onlya", "tls"}, {"a", "empty", "empty"},
	{"b", "crt", "tls"}, {"b", "ca", "ca"}, {"b", "cacrl", "cacrl"}, {"b", "pw", "auth"}, {"b", "dh", "dh"}, {"b", "onlyb", "tls"}, {"b", "empty", "empty"},
}
var gridServices = [][2]string{{"a", "svc"}, {"b", "svc"}, {"b", "onlyb"}, {"a", "crt"}}

func gridObjects() []client.Object {
	var objs []client.Object
	for _, s := range gridSecrets {
		objs = append(objs, c0809.Secret(s[0], s[1], c0809.SecretData(s[2], s[0], s[1])))
	}
	for _, s := range gridServices {
		svc, ep := c0809.Service(s[0], s[1], 8080, "172.17.0.11", nil)
		objs = append(objs, svc, ep)
	}
	return objs
}

type callObs struct {
	// ok: resolved object "ns/name"; file: resolved file list; else error class
	Class string `json:"class"` // ok | file | key | cross | proto | notfound | content | nofile | filespec
	Ns    string `json:"ns,omitempty"`
	Name  string `json:"name,omitempty"`
	Files string `json:"files,omitempty"`
	Err   string `json:"err,omitempty"`
}

func classify(err error) callObs {
	msg := err.Error()
	switch {
	case strings.Contains(msg, "cross-namespace reading is disabled"):
		return callObs{Class: "cross", Err: msg}
	case strings.Contains(msg, "unexpected key format"):
		return callObs{Class: "key", Err: msg}
	case strings.Contains(msg, "unsupported protocol"):
		return callObs{Class: "proto", Err: msg}
	case apierrors.IsNotFound(err):
		return callObs{Class: "notfound", Err: msg}
	case errors.Is(err, os.ErrNotExist) || strings.Contains(msg, "no such file") || strings.Contains(msg, "is a directory"):
		return callObs{Class: "nofile", Err: msg}
	case strings.Contains(msg, "empty file name") || strings.Contains(msg, "only one or two filenames"):
		return callObs{Class: "filespec", Err: msg}
	case strings.Contains(msg, "does not have") || strings.Contains(msg, "have neither") || strings.Contains(msg, "dh-param"):
		return callObs{Class: "content", Err: msg}
	}
	return callObs{Class: "other", Err: msg}
}

// which secret a generated file name belongs to
func fromFile(env *c0809.Env, fn string) (string, string, bool) {
	base := strings.TrimSuffix(filepath.Base(fn), ".pem")
	base = strings.TrimPrefix(base, "ca_")
	p := strings.SplitN(base, "_", 2)
	if len(p) != 2 || !strings.HasPrefix(fn, env.Dir) {
		return "", "", false
	}
	return p[0], strings.TrimSuffix(p[1], "_crl"), true
}

func runCall(env *c0809.Env, lc *legacy.VerifLegacyCache, filesDir string, c call) callObs {
	ref := strings.ReplaceAll(c.Ref, "<files>", filesDir)
	canonFiles := func(l ...string) string {
		var out []string
		for _, f := range l {
			if f != "" {
				out = append(out, strings.ReplaceAll(f, filesDir, "<files>"))
			}
		}
		return strings.Join(out, ",")
	}
	switch c.Getter {
	case "tls":
		f, err := env.Cache.GetTLSSecretPath(c.DefNs, ref, nil)
		if err != nil {
			return classify(err)
		}
		if ns, n, ok := fromFile(env, f.Filename); ok {
			return callObs{Class: "ok", Ns: ns, Name: n}
		}
		return callObs{Class: "file", Files: canonFiles(f.Filename)}
	case "ca":
		ca, crl, err := env.Cache.GetCASecretPath(c.DefNs, ref, nil)
		if err != nil {
			return classify(err)
		}
		if ns, n, ok := fromFile(env, ca.Filename); ok {
			return callObs{Class: "ok", Ns: ns, Name: n}
		}
		return callObs{Class: "file", Files: canonFiles(ca.Filename, crl.Filename)}
	case "dh":
		f, err := env.Cache.GetDHSecretPath(c.DefNs, ref)
		if err != nil {
			return classify(err)
		}
		if ns, n, ok := fromFile(env, f.Filename); ok {
			return callObs{Class: "ok", Ns: ns, Name: n}
		}
		return callObs{Class: "file", Files: canonFiles(f.Filename)}
	case "passwd":
		b, err := env.Cache.GetPasswdSecretContent(c.DefNs, ref, nil)
		if err != nil {
			return classify(err)
		}
		s := string(b)
		if strings.HasPrefix(s, "user-") {
			p := strings.SplitN(strings.SplitN(strings.TrimPrefix(s, "user-"), ":", 2)[0], "-", 2)
			return callObs{Class: "ok", Ns: p[0], Name: p[1]}
		}
		if strings.HasPrefix(s, "file-content-") {
			return callObs{Class: "file", Files: "<files>/" + strings.TrimPrefix(s, "file-content-")}
		}
		return callObs{Class: "other", Err: "unexpected content " + s}
	case "service":
		svc, err := env.Cache.GetService(c.DefNs, ref)
		if err != nil {
			return classify(err)
		}
		return callObs{Class: "ok", Ns: svc.Namespace, Name: svc.Name}
	case "legacy":
		ns, n, err := lc.BuildResourceName(c.DefNs, "secret", ref, c.Allow)
		if err != nil {
			return classify(err)
		}
		return callObs{Class: "ok", Ns: ns, Name: n}
	}
	panic("unknown getter " + c.Getter)
}

type gridObs struct {
	Bits  [4]bool   `json:"bits"` // crt, ca, passwd, services
	Calls []callObs `json:"calls"`
}

func prepareFiles(dir string) {
	c0809.Must(os.MkdirAll(dir, 0o755))
	for _, f := range []string{"f1.pem", "f2.pem", "pw.txt"} {
		content := "file-content-" + f
		c0809.Must(os.WriteFile(filepath.Join(dir, f), []byte(content), 0o644))
	}
}

func runGrid(in input) gridObs {
	env := c0809.NewEnv(nextDir(), c0809.CfgIn{IngressClass: "haproxy", ControllerName: oursCtrl, AllowCrossNs: in.Setting.Static}, gridObjects()...)
	p := c0809.NewPipeline(env)
	// the global ConfigMap reaches the converters through the batch, as the ConfigMap watcher delivers it
	p.Reconcile(&convtypes.ChangedObjects{GlobalConfigMapDataNew: globalMap(in.Setting), Links: convtypes.TrackingLinks{}}, nil)
	var obs gridObs
	obs.Bits = [4]bool{env.Dyn.CrossNamespaceSecretCertificate, env.Dyn.CrossNamespaceSecretCA, env.Dyn.CrossNamespaceSecretPasswd, env.Dyn.CrossNamespaceServices}
	lc := legacy.VerifNewLegacyCache(&c0809.Logger{}, &controller.Configuration{}, &convtypes.DynamicConfig{}, nil, nil)
	files := filepath.Join(workDir, "files")
	for _, c := range in.Calls {
		obs.Calls = append(obs.Calls, runCall(env, lc, files, c))
	}
	return obs
}

// ---------- sites ----------

func bitOf(key string) int {
	switch key {
	case "tls", "secure-crt-secret":
		return 0
	case "auth-tls-secret", "secure-verify-ca-secret":
		return 1
	case "auth-secret":
		return 2
	}
	return 3
}

func kindOf(key string) string {
	switch key {
	case "tls", "secure-crt-secret":
		return "tls"
	case "auth-tls-secret", "secure-verify-ca-secret":
		return "ca"
	case "auth-secret":
		return "auth"
	}
	return "service"
}

// annotations (and the tls section) that place ref in the given key
func placeRef(ing *networking.Ingress, ann map[string]string, key, ref string) {
	switch key {
	case "tls":
		if ing != nil {
			ing.Spec.TLS = []networking.IngressTLS{{Hosts: []string{ing.Spec.Rules[0].Host}, SecretName: ref}}
		}
	case "auth-tls-secret":
		ann[annPrefix+"auth-tls-secret"] = ref
	case "secure-crt-secret":
		ann[annPrefix+"secure-backends"] = "true"
		ann[annPrefix+"secure-crt-secret"] = ref
	case "secure-verify-ca-secret":
		ann[annPrefix+"secure-backends"] = "true"
		ann[annPrefix+"secure-verify-ca-secret"] = ref
	case "auth-secret":
		ann[annPrefix+"auth-secret"] = ref
	case "auth-url":
		ann[annPrefix+"auth-url"] = ref
	}
}

type worldObs struct {
	View c0809.NsView `json:"view_of_a"`
	Log  []string     `json:"log,omitempty"`
	// which object namespace a's host/backend uses for the reader's key ("" = none)
	Used     string      `json:"used"`
	// gateway sites with flip: the view right after the ConfigMap went from allow to deny (one reconciliation)
	Window   *c0809.NsView `json:"view_of_a_one_reconciliation_after_deny,omitempty"`
	// the whole haproxy model (every namespace), and the Gets made on b/foreign while the bit is deny
	Full  c0809.NsView `json:"whole_configuration"`
	Reads []string     `json:"reads_of_b_foreign,omitempty"`
	Backends [][3]string `json:"-"`
	Secrets  [][3]string `json:"-"`
	Services [][2]string `json:"-"`
}

// usedBy tells which Secret/Service the configuration of a.local / a_svc_8080 uses for key
func usedBy(p *c0809.Pipeline, key string) string {
	fromFn := func(fn string) string {
		if fn == "" || fn == p.Env.FakeCrt.Filename || fn == p.Env.FakeCA.Filename {
			return ""
		}
		if ns, n, ok := fromFile(p.Env, fn); ok {
			return ns + "/" + n
		}
		return "file:" + fn
	}
	switch key {
	case "tls", "auth-tls-secret":
		for _, h := range p.HAProxy.Hosts().BuildSortedItems() {
			if h.Hostname == "a.local" {
				if key == "tls" {
					return fromFn(h.TLS.TLSFilename)
				}
				return fromFn(h.TLS.CAFilename)
			}
		}
	default:
		for _, b := range p.Backends() {
			if b.ID != "a_svc_8080" {
				continue
			}
			switch key {
			case "secure-crt-secret":
				return fromFn(b.Server.CrtFilename)
			case "secure-verify-ca-secret":
				return fromFn(b.Server.CAFilename)
			case "auth-secret":
				for _, bp := range b.Paths {
					if bp.AuthHTTP.UserlistName == "" {
						continue
					}
					for _, u := range p.HAProxy.Userlists().BuildSortedItems() {
						if u.Name == bp.AuthHTTP.UserlistName && len(u.Users) > 0 {
							q := strings.SplitN(strings.TrimPrefix(u.Users[0].Name, "user-"), "-", 2)
							return q[0] + "/" + q[1]
						}
					}
					return "empty-userlist"
				}
			case "auth-url":
				for _, bp := range b.Paths {
					for _, bind := range p.HAProxy.Frontend().AuthProxy.BindList {
						if bind.AuthBackendName == bp.AuthExternal.AuthBackendName && bind.AuthBackendName != "" {
							return bind.Backend.Namespace + "/" + bind.Backend.Name
						}
					}
				}
			}
		}
	}
	return ""
}

var t0 = time.Date(2026, 1, 1, 0, 0, 0, 0, time.UTC)

// creation timestamps of (owner object of namespace b, reader object of namespace a)
func orderStamps(order string) (metav1.Time, metav1.Time) {
	switch order {
	case "owner-first":
		return metav1.NewTime(t0), metav1.NewTime(t0.Add(time.Hour))
	case "owner-last":
		return metav1.NewTime(t0.Add(time.Hour)), metav1.NewTime(t0)
	}
	return metav1.NewTime(t0), metav1.NewTime(t0)
}

// one world of a sites input; variant: 0 = b/foreign does not exist, 1 and 2 = it exists
// with two different contents
func runWorld(in input, variant int) worldObs {
	foreign := variant != 0
	rd := *in.Reader
	var objs []client.Object
	for _, ns := range []string{"a", "b"} {
		svc, ep := c0809.Service(ns, "svc", 8080, "172.17.0.1"+map[string]string{"a": "1", "b": "2"}[ns], nil)
		if ns == "a" && rd.On == "service" {
			svc.Annotations = map[string]string{}
			placeRef(nil, svc.Annotations, rd.Key, rd.Ref)
		}
		objs = append(objs, svc, ep)
	}
	if foreign {
		if kindOf(rd.Key) == "service" {
			svc, ep := c0809.Service("b", "foreign", 8080, map[int]string{1: "172.17.0.99", 2: "172.17.0.97"}[variant], nil)
			objs = append(objs, svc, ep)
		} else {
			objs = append(objs, c0809.Secret("b", "foreign", c0809.SecretDataV(kindOf(rd.Key), "b", "foreign", variant)))
		}
	}
	if in.AOwn {
		if kindOf(rd.Key) == "service" {
			svc, ep := c0809.Service("a", "foreign", 8080, "172.17.0.98", nil)
			objs = append(objs, svc, ep)
		} else {
			objs = append(objs, c0809.Secret("a", "foreign", c0809.SecretData(kindOf(rd.Key), "a", "foreign")))
		}
	}
	// b's own ingress, legitimately using its own object
	ingb := c0809.Ingress("b", "ingb", map[string]string{c0809.ClassAnn: "haproxy"}, nil, "b.local", "svc", 8080)
	switch in.BUses {
	case "same-key":
		ref := "foreign"
		if rd.Key == "auth-url" {
			ref = "svc://foreign:8080"
		}
		if in.BRef != "" {
			ref = in.BRef
		}
		placeRef(ingb, ingb.Annotations, rd.Key, ref)
	case "backend":
		pt := networking.PathTypePrefix
		ingb.Spec.Rules[0].HTTP.Paths = append(ingb.Spec.Rules[0].HTTP.Paths, networking.HTTPIngressPath{Path: "/foreign", PathType: &pt,
			Backend: networking.IngressBackend{Service: &networking.IngressServiceBackend{Name: "foreign", Port: networking.ServiceBackendPort{Number: 8080}}}})
	}
	// the reader
	inga := c0809.Ingress("a", "inga", map[string]string{c0809.ClassAnn: "haproxy"}, nil, "a.local", "svc", 8080)
	if rd.On == "ingress" {
		placeRef(inga, inga.Annotations, rd.Key, rd.Ref)
	}
	ingb.CreationTimestamp, inga.CreationTimestamp = orderStamps(in.Order)
	env := c0809.NewEnv(nextDir(), c0809.CfgIn{IngressClass: "haproxy", ControllerName: oursCtrl, AllowCrossNs: in.Setting.Static}, objs...)
	p := c0809.NewPipeline(env)
	if !in.PartialBoth {
		c0809.Must(env.Client.Create(env.Ctx, ingb.DeepCopy()))
	}
	if !in.Partial && !in.PartialBoth {
		c0809.Must(env.Client.Create(env.Ctx, inga.DeepCopy()))
	}
	// the global ConfigMap reaches the converters through the real ConfigMap watcher
	cm := c0809.ConfigMap(globalMap(in.Setting))
	if in.Flip {
		first := in.Setting
		first.Vals[bitOf(rd.Key)] = "allow"
		cm0 := c0809.ConfigMap(globalMap(first))
		p.Watchers.FireCreate(cm0)
		p.Reconcile(p.Watchers.Swap(), nil)
		env.Reads.Reset() // from here on the bit is deny
		p.Watchers.FireUpdate(cm0, cm)
	} else {
		p.Watchers.FireCreate(cm)
	}
	p.Reconcile(p.Watchers.Swap(), nil)
	if in.PartialBoth {
		// owner and reader arrive later, in one batch: a partial sync converts both
		c0809.Must(env.Client.Create(env.Ctx, ingb.DeepCopy()))
		c0809.Must(env.Client.Create(env.Ctx, inga.DeepCopy()))
		p.Watchers.Swap()
		p.Watchers.FireCreate(ingb)
		p.Watchers.FireCreate(inga)
		p.Reconcile(p.Watchers.Swap(), nil)
	} else if in.Partial {
		// the reader arrives later: watcher event, partial sync
		c0809.Must(env.Client.Create(env.Ctx, inga.DeepCopy()))
		p.Watchers.Swap()
		p.Watchers.FireCreate(inga)
		ch := p.Watchers.Swap()
		p.Reconcile(ch, nil)
	}
	wo := worldObs{View: p.ViewOf("a", map[string]bool{"a.local": true}), Log: p.Log.Take(), Used: usedBy(p, rd.Key),
		Full: p.ViewAll(), Reads: env.Reads.Of("b/foreign")}
	for _, b := range p.Backends() {
		wo.Backends = append(wo.Backends, [3]string{b.Namespace, b.Name, b.Port})
	}
	for _, o := range objs {
		switch x := o.(type) {
		case *api.Secret:
			wo.Secrets = append(wo.Secrets, [3]string{x.Namespace, x.Name, kindOf(rd.Key)})
		case *api.Service:
			wo.Services = append(wo.Services, [2]string{x.Namespace, x.Name})
		}
	}
	return wo
}

// ---------- Coq printing ----------

func coqWorld(secrets [][3]string, services [][2]string, backends [][3]string, files []string) string {
	kinds := map[string]string{"tls": "KTLS", "ca": "KCA", "cacrl": "KCACRL", "auth": "KAuth", "dh": "KDH", "empty": "KEmpty"}
	var ss, sv, bk, fl []string
	for _, x := range secrets {
		ss = append(ss, hx.Tuple(hx.Str(x[0]), hx.Str(x[1]), kinds[x[2]]))
	}
	for _, x := range services {
		sv = append(sv, hx.Tuple(hx.Str(x[0]), hx.Str(x[1])))
	}
	for _, x := range backends {
		bk = append(bk, hx.Tuple(hx.Str(x[0]), hx.Str(x[1]), hx.Str(x[2])))
	}
	for _, x := range files {
		fl = append(fl, hx.Str(x))
	}
	return fmt.Sprintf("{| w_secrets := %s; w_services := %s; w_backends := %s; w_files := %s |}", hx.List(ss), hx.List(sv), hx.List(bk), hx.List(fl))
}

func coqSetting(s setting) string {
	return fmt.Sprintf("%s %s %s %s %s", hx.Bool(s.Static), hx.Str(s.Vals[0]), hx.Str(s.Vals[1]), hx.Str(s.Vals[2]), hx.Str(s.Vals[3]))
}

func coqRes(o callObs) string {
	errs := map[string]string{"key": "EKey", "cross": "ECross", "proto": "EProto", "notfound": "ENotFound", "content": "EContent", "nofile": "ENoFile", "filespec": "EFileSpec"}
	switch o.Class {
	case "ok":
		return fmt.Sprintf("(ROk %s %s)", hx.Str(o.Ns), hx.Str(o.Name))
	case "file":
		var fl []string
		for _, f := range strings.Split(o.Files, ",") {
			fl = append(fl, hx.Str(f))
		}
		return "(RFile " + hx.List(fl) + ")"
	}
	if e, ok := errs[o.Class]; ok {
		return "(RErr " + e + ")"
	}
	return "(RFile [" + hx.Str("unclassified error: "+o.Err) + "])"
}

func coqCall(c call) string {
	g := map[string]string{"tls": "GTls", "ca": "GCa", "dh": "GDh", "passwd": "GPasswd", "service": "GService"}[c.Getter]
	if c.Getter == "legacy" {
		g = "(GLegacy " + hx.Bool(c.Allow) + ")"
	}
	return fmt.Sprintf("{| g_getter := %s; g_defns := %s; g_ref := %s |}", g, hx.Str(c.DefNs), hx.Str(c.Ref))
}

func coqSite(key, src, val string) (string, bool) {
	k := map[string]string{"tls": "STls", "auth-tls-secret": "SAuthTLS", "secure-crt-secret": "SSecureCrt", "secure-verify-ca-secret": "SSecureCA", "auth-secret": "SAuthSecret", "auth-url": "SAuthURL"}[key]
	port := ""
	if key == "auth-url" {
		proto, host, p, _, err := ingutils.ParseURL(val)
		if err != nil || (proto != "svc" && proto != "service") {
			return "", false
		}
		val, port = host, p
	}
	return fmt.Sprintf("{| st_key := %s; st_src := (Some %s); st_val := %s; st_port := %s |}", k, hx.Str(src), hx.Str(val), hx.Str(port)), true
}

func sameView(a, b c0809.NsView) bool {
	return strings.Join(a.Hosts, "\n") == strings.Join(b.Hosts, "\n") && strings.Join(a.Backends, "\n") == strings.Join(b.Backends, "\n")
}

// ---------- Gateway API sites ----------

var svcIPs = map[string]string{"172.17.0.11": "a/svc", "172.17.0.12": "b/svc", "172.17.0.99": "b/foreign", "172.17.0.97": "b/foreign", "172.17.0.98": "a/foreign"}

func gwBitOf(site string) int {
	if site == "certificateref" {
		return 0
	}
	return 3
}

func gwListener(name string, port int32, proto gatewayv1.ProtocolType, cert *gwRef) gatewayv1.Listener {
	same := gatewayv1.NamespacesFromSame
	l := gatewayv1.Listener{Name: gatewayv1.SectionName(name), Port: gatewayv1.PortNumber(port), Protocol: proto,
		AllowedRoutes: &gatewayv1.AllowedRoutes{Namespaces: &gatewayv1.RouteNamespaces{From: &same}}}
	if cert != nil {
		ref := gatewayv1.SecretObjectReference{Name: gatewayv1.ObjectName(cert.Name)}
		if cert.NS != nil {
			n := gatewayv1.Namespace(*cert.NS)
			ref.Namespace = &n
		}
		l.TLS = &gatewayv1.GatewayTLSConfig{CertificateRefs: []gatewayv1.SecretObjectReference{ref}}
	}
	return l
}

func gwBackendRef(r gwRef) gatewayv1.BackendRef {
	port := gatewayv1.PortNumber(8080)
	br := gatewayv1.BackendRef{BackendObjectReference: gatewayv1.BackendObjectReference{Name: gatewayv1.ObjectName(r.Name), Port: &port}}
	if r.NS != nil {
		n := gatewayv1.Namespace(*r.NS)
		br.Namespace = &n
	}
	return br
}

// gateway + route of one namespace; site tells where ref goes, the other references are the namespace's own svc
func gwObjects(ns, host string, site string, ref gwRef, stamp metav1.Time) []client.Object {
	own := gwRef{Name: "svc"}
	var cert *gwRef
	backend := own
	switch site {
	case "certificateref":
		cert = &ref
	default:
		backend = ref
	}
	gw := &gatewayv1.Gateway{ObjectMeta: metav1.ObjectMeta{Namespace: ns, Name: "gw"}, Spec: gatewayv1.GatewaySpec{GatewayClassName: "haproxy"}}
	gw.Spec.Listeners = []gatewayv1.Listener{gwListener("http", 80, gatewayv1.HTTPProtocolType, nil)}
	section := gatewayv1.SectionName("http")
	if cert != nil {
		gw.Spec.Listeners = append(gw.Spec.Listeners, gwListener("https", 443, gatewayv1.HTTPSProtocolType, cert))
		section = "https"
	}
	tcpPort := int32(9000)
	if ns == "b" {
		tcpPort = 9001
	}
	gw.Spec.Listeners = append(gw.Spec.Listeners, gwListener("tcp", tcpPort, gatewayv1.TCPProtocolType, nil))
	objs := []client.Object{gw}
	if site == "backendref-tcp" {
		tsec := gatewayv1.SectionName("tcp")
		tr := &gatewayv1alpha2.TCPRoute{ObjectMeta: metav1.ObjectMeta{Namespace: ns, Name: "trt", CreationTimestamp: stamp}}
		tr.Spec.ParentRefs = []gatewayv1.ParentReference{{Name: "gw", SectionName: &tsec}}
		tr.Spec.Rules = []gatewayv1alpha2.TCPRouteRule{{BackendRefs: []gatewayv1.BackendRef{gwBackendRef(backend)}}}
		return append(objs, tr)
	}
	hr := &gatewayv1.HTTPRoute{ObjectMeta: metav1.ObjectMeta{Namespace: ns, Name: "rt", CreationTimestamp: stamp}}
	hr.Spec.ParentRefs = []gatewayv1.ParentReference{{Name: "gw", SectionName: &section}}
	hr.Spec.Hostnames = []gatewayv1.Hostname{gatewayv1.Hostname(host)}
	hr.Spec.Rules = []gatewayv1.HTTPRouteRule{{BackendRefs: []gatewayv1.HTTPBackendRef{{BackendRef: gwBackendRef(backend)}}}}
	return append(objs, hr)
}

// one world of a gwsites input; variant as in runWorld
func runGwWorld(in input, variant int) worldObs {
	foreign := variant != 0
	stampB, stampA := orderStamps(in.Order)
	ref := *in.GW
	isCert := ref.Site == "certificateref"
	objs := []client.Object{&gatewayv1.GatewayClass{ObjectMeta: metav1.ObjectMeta{Name: "haproxy"},
		Spec: gatewayv1.GatewayClassSpec{ControllerName: gatewayv1.GatewayController(oursCtrl)}}}
	var secrets [][3]string
	var svcs [][2]string
	addSvc := func(ns, name, ip string, ann map[string]string) {
		svc, ep := c0809.Service(ns, name, 8080, ip, ann)
		objs = append(objs, svc, ep)
		svcs = append(svcs, [2]string{ns, name})
	}
	addSvc("a", "svc", "172.17.0.11", nil)
	addSvc("b", "svc", "172.17.0.12", nil)
	addForeign := func(ns, ip string) {
		if isCert {
			v := 1
			if ns == "b" {
				v = variant
			}
			objs = append(objs, c0809.Secret(ns, "foreign", c0809.SecretDataV("tls", ns, "foreign", v)))
			secrets = append(secrets, [3]string{ns, "foreign", "tls"})
		} else {
			// a service annotation of the foreign service would reach the reader's backend too
			addSvc(ns, "foreign", ip, map[string]string{annPrefix + "secure-backends": "true"})
		}
	}
	if foreign {
		addForeign("b", map[int]string{1: "172.17.0.99", 2: "172.17.0.97"}[variant])
	}
	if in.AOwn {
		addForeign("a", "172.17.0.98")
	}
	objs = append(objs, gwObjects("a", "a.local", ref.Site, ref, stampA)...)
	if in.BUses == "same-key" {
		objs = append(objs, gwObjects("b", "b.local", ref.Site, gwRef{Site: ref.Site, Name: "foreign"}, stampB)...)
	}
	env := c0809.NewEnv(nextDir(), c0809.CfgIn{IngressClass: "haproxy", ControllerName: oursCtrl, AllowCrossNs: in.Setting.Static, Gateway: true}, objs...)
	p := c0809.NewPipeline(env)
	cm := c0809.ConfigMap(globalMap(in.Setting))
	var window *c0809.NsView
	if in.Flip {
		// allow first (two full reconciliations, so that the gateway converter sees it), then deny
		first := in.Setting
		first.Vals[gwBitOf(ref.Site)] = "allow"
		cm0 := c0809.ConfigMap(globalMap(first))
		p.Watchers.FireCreate(cm0)
		p.Reconcile(p.Watchers.Swap(), nil)
		ch0 := p.Watchers.Swap()
		ch0.NeedFullSync = true
		p.Reconcile(ch0, nil)
		p.Watchers.FireUpdate(cm0, cm)
		p.Reconcile(p.Watchers.Swap(), nil)
		v := p.ViewOf("a", map[string]bool{"a.local": true})
		window = &v
	} else {
		p.Watchers.FireCreate(cm)
		p.Reconcile(p.Watchers.Swap(), nil)
	}
	// a second full reconciliation: the gateway converter runs before the global config is
	// parsed, so only now it sees the permission bits of the ConfigMap
	ch := p.Watchers.Swap()
	ch.NeedFullSync = true
	p.Reconcile(ch, nil)
	wo := worldObs{Window: window, Full: p.ViewAll(), Reads: env.Reads.Of("b/foreign"), View: p.ViewOf("a", map[string]bool{"a.local": true}), Log: p.Log.Take(), Secrets: secrets, Services: svcs}
	if isCert {
		wo.Used = usedBy(p, "tls")
	} else {
		for _, b := range p.Backends() {
			if b.Namespace == "a" && (b.Name == "rt" || b.Name == "trt") {
				for _, ep := range b.Endpoints {
					if s, ok := svcIPs[ep.IP]; ok {
						wo.Used = s
					} else {
						wo.Used = "unknown/" + ep.IP
					}
				}
			}
		}
	}
	return wo
}

func coqGwSite(site, src string, r gwRef) string {
	k := "SGwBackend"
	if site == "certificateref" {
		k = "SGwCert"
	}
	ns := ""
	if r.NS != nil {
		ns = *r.NS
	}
	return fmt.Sprintf("{| st_key := %s; st_src := (Some %s); st_val := %s; st_port := %s |}", k, hx.Str(src), hx.Str(r.Name), hx.Str(ns))
}

var gwSites = []string{"backendref-http", "backendref-tcp", "certificateref"}
var gwNames = []string{"foreign", "foreign", "foreign", "b/foreign", "svc", "missing", "a/foreign"}

func genGwSite(rng *rand.Rand) input {
	site := gwSites[rng.Intn(len(gwSites))]
	ref := gwRef{Site: site, Name: gwNames[rng.Intn(len(gwNames))]}
	switch rng.Intn(5) {
	case 0:
	case 1:
		ref.NS = sp("a")
	case 2:
		ref.NS = sp("")
	default:
		ref.NS = sp("b")
	}
	in := input{Kind: "gwsites", Setting: genSetting(rng), GW: &ref}
	if rng.Intn(4) != 0 {
		in.Setting.Vals[gwBitOf(site)] = []string{"", "deny", "DENY", "yes", "allow "}[rng.Intn(5)]
		in.Setting.Static = in.Setting.Static && site != "certificateref"
	}
	if rng.Intn(2) == 0 {
		in.BUses = "same-key"
	}
	in.AOwn = rng.Intn(3) == 0
	in.Order = []string{"", "owner-first", "owner-first", "owner-last"}[rng.Intn(4)]
	in.Flip = rng.Intn(4) == 0
	return in
}

func sp(s string) *string { return &s }

// ---------- Gateway API: is there a partial path? ----------

type probeRow struct {
	Event        string `json:"event"`
	Accepted     int    `json:"handlers_accepting"`
	BatchFull    bool   `json:"batch_need_full_sync"`     // set by the watcher (handler marked full)
	GatewayFull  bool   `json:"gateway_converter_need_full_sync"` // tracker links to the gateway
	FullSync     bool   `json:"full_sync"`
}

// gwProbe drives the real watchers with one change of every kind a Gateway API configuration
// depends on, after the first reconciliation, and records whether the batch takes the full
// path (the gateway converter has no partial one: Sync(false) returns at once).
func gwProbe() []probeRow {
	sel := gatewayv1.NamespacesFromSelector
	gwobjs := gwObjects("a", "a.local", "certificateref", gwRef{Name: "foreign"}, metav1.NewTime(t0))
	gw := gwobjs[0].(*gatewayv1.Gateway)
	gw.Generation = 1
	gw.Spec.Listeners = append(gw.Spec.Listeners, gatewayv1.Listener{Name: "sel", Port: 8081, Protocol: gatewayv1.HTTPProtocolType,
		AllowedRoutes: &gatewayv1.AllowedRoutes{Namespaces: &gatewayv1.RouteNamespaces{From: &sel, Selector: &metav1.LabelSelector{MatchLabels: map[string]string{"team": "x"}}}}})
	hr := gwobjs[1].(*gatewayv1.HTTPRoute)
	hr.Generation = 1
	hr.Spec.ParentRefs = []gatewayv1.ParentReference{{Name: "gw"}}
	tsec := gatewayv1.SectionName("tcp")
	tr := &gatewayv1alpha2.TCPRoute{ObjectMeta: metav1.ObjectMeta{Namespace: "a", Name: "trt", Generation: 1}}
	tr.Spec.ParentRefs = []gatewayv1.ParentReference{{Name: "gw", SectionName: &tsec}}
	tr.Spec.Rules = []gatewayv1alpha2.TCPRouteRule{{BackendRefs: []gatewayv1.BackendRef{gwBackendRef(gwRef{Name: "svc"})}}}
	gc := &gatewayv1.GatewayClass{ObjectMeta: metav1.ObjectMeta{Name: "haproxy", Generation: 1}, Spec: gatewayv1.GatewayClassSpec{ControllerName: gatewayv1.GatewayController(oursCtrl)}}
	svc, ep := c0809.Service("a", "svc", 8080, "172.17.0.11", nil)
	sec := c0809.Secret("a", "foreign", c0809.SecretData("tls", "a", "foreign"))
	nsa := &api.Namespace{ObjectMeta: metav1.ObjectMeta{Name: "a", Labels: map[string]string{"team": "x"}}}
	cm := c0809.ConfigMap(map[string]string{})
	env := c0809.NewEnv(nextDir(), c0809.CfgIn{IngressClass: "haproxy", ControllerName: oursCtrl, Gateway: true}, gc, gw, hr, tr, svc, ep, sec, nsa)
	p := c0809.NewPipeline(env)
	p.Watchers.FireCreate(cm)
	p.Reconcile(p.Watchers.Swap(), nil)
	var rows []probeRow
	fire := func(name string, old, cur client.Object, mutate func()) {
		mutate()
		stored := cur.DeepCopyObject().(client.Object)
		if err := env.Client.Get(env.Ctx, client.ObjectKeyFromObject(cur), stored); err == nil {
			cur.SetResourceVersion(stored.GetResourceVersion())
			c0809.Must(env.Client.Update(env.Ctx, cur.DeepCopyObject().(client.Object)))
		}
		acc := p.Watchers.FireUpdate(old, cur)
		ch := p.Watchers.Swap()
		gwFull := gateway.NewGatewayConverter(p.Opt, p.HAProxy, ch, nil).NeedFullSync()
		rows = append(rows, probeRow{Event: name, Accepted: acc, BatchFull: ch.NeedFullSync, GatewayFull: gwFull, FullSync: ch.NeedFullSync || gwFull})
		p.Reconcile(ch, nil)
	}
	{
		old := gw.DeepCopy()
		fire("Gateway spec change", old, gw, func() { gw.Generation++; gw.Spec.Listeners[0].Port = 8000 })
	}
	{
		old := hr.DeepCopy()
		fire("HTTPRoute spec change", old, hr, func() { hr.Generation++; hr.Spec.Hostnames = []gatewayv1.Hostname{"a2.local"} })
	}
	{
		old := tr.DeepCopy()
		fire("TCPRoute spec change", old, tr, func() { tr.Generation++; tr.Spec.Rules[0].BackendRefs[0].Weight = nil })
	}
	{
		old := gc.DeepCopy()
		fire("GatewayClass spec change", old, gc, func() { gc.Generation++; d := "x"; gc.Spec.Description = &d })
	}
	{
		old := sec.DeepCopy()
		fire("Secret of a listener certificateRef", old, sec, func() { sec.Data = c0809.SecretDataV("tls", "a", "foreign", 2) })
	}
	{
		old := svc.DeepCopy()
		fire("Service of a backendRef (annotation)", old, svc, func() { svc.Annotations = map[string]string{annPrefix + "balance-algorithm": "leastconn"} })
	}
	{
		old := ep.DeepCopy()
		fire("Endpoints of a backendRef", old, ep, func() { ep.Subsets[0].Addresses[0].IP = "172.17.0.21" })
	}
	{
		old := nsa.DeepCopy()
		fire("Namespace label used by an allowedRoutes selector", old, nsa, func() { nsa.Labels = map[string]string{"team": "y"} })
	}
	return rows
}

// ---------- generators ----------

var valPool = []string{"", "", "deny", "allow", "allow", "ALLOW", "Allow", "DENY", "allow ", "yes", "true", "denied", "allowed"}

func genSetting(rng *rand.Rand) setting {
	var s setting
	s.Static = rng.Intn(4) == 0
	for i := range s.Vals {
		s.Vals[i] = valPool[rng.Intn(len(valPool))]
	}
	return s
}

func allSettings() []setting {
	var out []setting
	for _, st := range []bool{false, true} {
		for m := 0; m < 16; m++ {
			var s setting
			s.Static = st
			for i := 0; i < 4; i++ {
				if m&(1<<i) != 0 {
					s.Vals[i] = "allow"
				} else {
					s.Vals[i] = "deny"
				}
			}
			out = append(out, s)
		}
	}
	return out
}

var getters = []string{"tls", "ca", "dh", "passwd", "service"}
var defNsPool = []string{"a", "b", "", "c"}

func refShapes(getter string) []string {
	name := map[string]string{"tls": "crt", "ca": "ca", "dh": "dh", "passwd": "pw", "service": "svc"}[getter]
	shapes := []string{name, "a/" + name, "b/" + name, "/" + name, "b/", "a/b/c", "", "/", "onlyb", "b/onlyb", "onlya", "a/onlya", "c/" + name, "missing", "b/missing",
		"a//" + name, "b/empty", "empty", "A/" + name, "b/" + name + " "}
	if getter == "ca" {
		shapes = append(shapes, "cacrl", "b/cacrl", "crt", "b/crt")
	}
	if getter == "tls" {
		shapes = append(shapes, "ca", "b/ca")
	}
	if getter != "service" {
		shapes = append(shapes, "secret://"+name, "secret://b/"+name, "secret://a/"+name, "secret://", "secret:///"+name, "secret://a/b/c",
			"file://<files>/f1.pem", "file://<files>/missing.pem", "file://", "file://<files>/f1.pem,<files>/f2.pem", "file://<files>/f1.pem,<files>/missing.pem",
			"file://<files>/f1.pem,<files>/f2.pem,<files>/f1.pem", "file://<files>/pw.txt",
			"ftp://"+name, "http://b/"+name, "Secret://"+name, "secret:/"+name, "s3cret://b/"+name, "://b/"+name, "file://<files>/f1.pem\nb/"+name, "secret://b/"+name+"\n")
	}
	return shapes
}

func fullCalls() []call {
	var out []call
	for _, g := range getters {
		for _, d := range defNsPool {
			for _, r := range refShapes(g) {
				out = append(out, call{Getter: g, DefNs: d, Ref: r})
			}
		}
	}
	for _, d := range defNsPool {
		for _, r := range refShapes("tls") {
			for _, al := range []bool{false, true} {
				out = append(out, call{Getter: "legacy", DefNs: d, Ref: r, Allow: al})
			}
		}
	}
	return out
}

func genCalls(rng *rand.Rand, n int) []call {
	all := fullCalls()
	var out []call
	for i := 0; i < n; i++ {
		out = append(out, all[rng.Intn(len(all))])
	}
	return out
}

var siteKeys = []string{"tls", "auth-tls-secret", "secure-crt-secret", "secure-verify-ca-secret", "auth-secret", "auth-url"}

func siteRefs(key string) []string {
	if key == "auth-url" {
		return []string{"svc://b/foreign:8080", "svc://b/foreign:8080/check", "service://b/foreign:8080", "svc://foreign:8080", "svc://b/foreign", "svc://a/b/foreign:8080", "svc:///foreign:8080"}
	}
	return []string{"b/foreign", "secret://b/foreign", "foreign", "/foreign", "secret://foreign", "secret:///foreign", "a/foreign", "b/", "a/b/foreign", "b/foreign/", "secret://b/foreign\n"}
}

func genSite(rng *rand.Rand) input {
	key := siteKeys[rng.Intn(len(siteKeys))]
	refs := siteRefs(key)
	in := input{Kind: "sites", Setting: genSetting(rng), Reader: &site{Key: key, Ref: refs[rng.Intn(len(refs))], On: "ingress"}}
	if rng.Intn(3) != 0 {
		in.Reader.Ref = refs[0] // the plain cross-namespace form most of the time
	}
	if key != "tls" && key != "auth-tls-secret" && rng.Intn(3) == 0 {
		in.Reader.On = "service"
	}
	// most inputs keep the bit of the referenced kind at deny: that is where the property speaks
	if rng.Intn(4) != 0 {
		in.Setting.Vals[bitOf(key)] = []string{"", "deny", "DENY", "yes", "allow "}[rng.Intn(5)]
		in.Setting.Static = in.Setting.Static && kindOf(key) == "service"
	}
	in.BUses = []string{"", "same-key", "same-key", "backend"}[rng.Intn(4)]
	if in.BUses == "backend" && key != "auth-url" {
		in.BUses = "same-key"
	}
	in.Partial = rng.Intn(3) == 0
	in.Repeat = 3
	in.AOwn = rng.Intn(3) == 0
	in.Flip = rng.Intn(4) == 0
	in.Order = []string{"", "owner-first", "owner-first", "owner-last"}[rng.Intn(4)]
	if !in.Partial && rng.Intn(3) == 0 {
		in.PartialBoth = true
	}
	if in.BUses == "same-key" && key != "auth-url" && rng.Intn(3) == 0 {
		in.BRef = []string{"secret://foreign", "/foreign", "b/foreign", "secret:///foreign"}[rng.Intn(4)]
	}
	return in
}

func corpus() []input {
	deny := setting{}
	return []input{
		// DESIGN §8.5: the userlist of b is reused by name before the cross-namespace check
		{Kind: "sites", Setting: deny, Reader: &site{Key: "auth-secret", Ref: "b/foreign", On: "ingress"}, BUses: "same-key", Repeat: 6},
		// DESIGN §8.14: auth-url svc://b/name finds the backend that b's own ingress created
		{Kind: "sites", Setting: deny, Reader: &site{Key: "auth-url", Ref: "svc://b/foreign:8080", On: "ingress"}, BUses: "backend", Repeat: 2},
		{Kind: "sites", Setting: deny, Reader: &site{Key: "auth-url", Ref: "svc://b/foreign:8080", On: "ingress"}, BUses: "same-key", Repeat: 2},
		// userlists are named after the reference as written: "secret://foreign" and "/foreign" mean another secret in each namespace
		{Kind: "sites", Setting: deny, Reader: &site{Key: "auth-secret", Ref: "secret://foreign", On: "ingress"}, BUses: "same-key", BRef: "secret://foreign", AOwn: true, Repeat: 6},
		{Kind: "sites", Setting: deny, Reader: &site{Key: "auth-secret", Ref: "/foreign", On: "ingress"}, BUses: "same-key", BRef: "/foreign", AOwn: true, Repeat: 6},
		// allowed first, then denied: what was read across namespaces has to go away
		{Kind: "sites", Setting: deny, Reader: &site{Key: "tls", Ref: "b/foreign", On: "ingress"}, Flip: true, Repeat: 1},
		{Kind: "sites", Setting: deny, Reader: &site{Key: "auth-secret", Ref: "b/foreign", On: "ingress"}, BUses: "same-key", Flip: true, Repeat: 2},
		// the owner namespace reads its own secret earlier in the same sync (conversion order owner first)
		{Kind: "sites", Setting: deny, Reader: &site{Key: "tls", Ref: "b/foreign", On: "ingress"}, BUses: "same-key", Order: "owner-first"},
		{Kind: "sites", Setting: deny, Reader: &site{Key: "tls", Ref: "secret://b/foreign", On: "ingress"}, BUses: "same-key", Order: "owner-first", PartialBoth: true},
		// the auth-url pre-build looks the Service up: no backend may be built for b/foreign on behalf of a
		{Kind: "sites", Setting: deny, Reader: &site{Key: "auth-url", Ref: "svc://b/foreign:8080", On: "ingress"}},
		// Gateway API: a backendRef / certificateRef of namespace a that carries namespace: b
		{Kind: "gwsites", Setting: deny, GW: &gwRef{Site: "backendref-http", Name: "foreign", NS: sp("b")}, BUses: "same-key"},
		{Kind: "gwsites", Setting: deny, GW: &gwRef{Site: "backendref-tcp", Name: "foreign", NS: sp("b")}},
		{Kind: "gwsites", Setting: deny, GW: &gwRef{Site: "certificateref", Name: "foreign", NS: sp("b")}, BUses: "same-key"},
		{Kind: "gwsites", Setting: deny, GW: &gwRef{Site: "backendref-http", Name: "b/foreign"}},
		{Kind: "gwsites", Setting: deny, GW: &gwRef{Site: "certificateref", Name: "b/foreign"}},
		// secure-crt-secret / secure-verify-ca-secret split ns/name themselves and pass ns as the default namespace
		{Kind: "sites", Setting: deny, Reader: &site{Key: "secure-crt-secret", Ref: "b/foreign", On: "ingress"}, Repeat: 1},
		{Kind: "sites", Setting: deny, Reader: &site{Key: "secure-verify-ca-secret", Ref: "b/foreign", On: "service"}, Repeat: 1},
	}
}

// ---------- main ----------

var dumpCorpus = flag.String("dump-corpus", "", "write the built-in corpus as replay files into this directory and exit")

func main() {
	o := hx.Parse()
	if *dumpCorpus != "" {
		c0809.Must(os.MkdirAll(*dumpCorpus, 0o755))
		for i, in := range corpus() {
			b, _ := json.MarshalIndent(map[string]interface{}{"property": "C09", "input": in}, "", " ")
			c0809.Must(os.WriteFile(filepath.Join(*dumpCorpus, fmt.Sprintf("corpus_%02d.json", i)), b, 0o644))
		}
		return
	}
	rng := o.Rng()
	workDir = filepath.Join(o.Out, "scratch")
	c0809.Must(os.MkdirAll(workDir, 0o755))
	prepareFiles(filepath.Join(workDir, "files"))
	res := hx.NewResult("C09", "grid: settings of the four cross-namespace keys (32 allow/deny x static combinations + random spellings) x reference shapes x getters x default namespaces on the real cache facade; sites: two-world runs of the real converters with a reader in namespace a referencing an object of namespace b from every key that accepts a resource name; non-trivial = the reference names another namespace than the reader's (grid: at least one such call); distinct by canonical text of the input")

	cw := hx.NewCaseWriter(o, res, "From HI Require Import Corr.Corr_C09.", "xcase", 60)
	gridFiles := []string{"<files>/f1.pem", "<files>/f2.pem", "<files>/pw.txt"}
	var gridSecs [][3]string
	for _, x := range gridSecrets {
		gridSecs = append(gridSecs, x)
	}
	var gridSvcs [][2]string
	for _, x := range gridServices {
		gridSvcs = append(gridSvcs, x)
	}

	var inputs []input
	if o.Replay != "" {
		var in input
		hx.ReadReplay(o.Replay, &in)
		inputs = append(inputs, in)
	} else {
		inputs = append(inputs, corpus()...)
		// full grid for the two extreme settings, a sample of calls for the other ones
		inputs = append(inputs, input{Kind: "grid", Setting: setting{}, Calls: fullCalls()})
		inputs = append(inputs, input{Kind: "grid", Setting: setting{Vals: [4]string{"allow", "allow", "allow", "allow"}}, Calls: fullCalls()})
		for _, s := range allSettings() {
			inputs = append(inputs, input{Kind: "grid", Setting: s, Calls: genCalls(rng, o.Count(40, 400))})
		}
		ng, ns := o.Count(60, 2000), o.Count(300, 6000)
		if o.Search {
			ng, ns = ng/2, ns*3
		}
		for i := 0; i < ng; i++ {
			inputs = append(inputs, input{Kind: "grid", Setting: genSetting(rng), Calls: genCalls(rng, 30)})
		}
		for i := 0; i < ns; i++ {
			inputs = append(inputs, genSite(rng))
		}
		// every read site with all keys at deny, while the owner namespace uses the very same object in
		// the same sync: owner converted before / after the reader, full sync, partial sync of the reader
		// only, partial sync of both
		for _, key := range siteKeys {
			ons := []string{"ingress"}
			if key != "tls" && key != "auth-tls-secret" {
				ons = append(ons, "service")
			}
			for _, on := range ons {
				for _, order := range []string{"", "owner-first", "owner-last"} {
					for _, mode := range []string{"full", "partial-reader", "partial-both"} {
						refs := siteRefs(key)[:2]
						for _, ref := range refs {
							in := input{Kind: "sites", Setting: setting{}, Reader: &site{Key: key, Ref: ref, On: on}, BUses: "same-key", Order: order,
								Partial: mode == "partial-reader", PartialBoth: mode == "partial-both", Repeat: 1}
							inputs = append(inputs, in)
							if order == "" {
								// and with b/foreign used by nobody of its own namespace: whole configuration + reads
								in2 := in
								in2.BUses = ""
								inputs = append(inputs, in2)
							}
						}
					}
				}
			}
		}
		// allow -> deny through the ConfigMap watcher: the reference is observed one reconciliation after
		// the change (the window) and after the next full sync (the oracle)
		for _, gsite := range gwSites {
			for _, name := range []string{"foreign", "b/foreign"} {
				inputs = append(inputs, input{Kind: "gwsites", Setting: setting{}, GW: &gwRef{Site: gsite, Name: name, NS: sp("b")}, BUses: "same-key", Flip: true})
			}
		}
		for _, gsite := range gwSites {
			for _, order := range []string{"owner-first", "owner-last"} {
				for _, nsm := range []*string{nil, sp("b")} {
					for _, name := range []string{"foreign", "b/foreign"} {
						inputs = append(inputs, input{Kind: "gwsites", Setting: setting{}, GW: &gwRef{Site: gsite, Name: name, NS: nsm}, BUses: "same-key", Order: order})
					}
				}
			}
		}
		// every Gateway API site x reference form x the deny / allow settings of its key, then random ones
		for _, site := range gwSites {
			for _, name := range []string{"foreign", "b/foreign"} {
				for _, nsm := range []*string{nil, sp("a"), sp("b")} {
					for _, v := range []string{"deny", "allow"} {
						for _, bu := range []string{"", "same-key"} {
							st := setting{}
							st.Vals[gwBitOf(site)] = v
							inputs = append(inputs, input{Kind: "gwsites", Setting: st, GW: &gwRef{Site: site, Name: name, NS: nsm}, BUses: bu})
						}
					}
				}
			}
		}
		for i := 0; i < ns/3; i++ {
			inputs = append(inputs, genGwSite(rng))
		}
	}

	if o.Replay == "" {
		// no partial path of the gateway converter may exist unnoticed: every change a Gateway API
		// configuration depends on has to take the full path (Namespace labels have no watcher at all)
		rows := gwProbe()
		res.Extra["gateway_event_paths"] = rows
		for _, r := range rows {
			res.OracleChecks++
			if !r.FullSync && !strings.HasPrefix(r.Event, "Namespace") {
				res.Fail(hx.Failure{Key: "C09/gateway-partial-path", What: fmt.Sprintf("%s after the first reconciliation is not a full sync: the gateway converter has a partial path (or a stale one) that the C09 grid does not exercise", r.Event),
					Input: input{Kind: "gwprobe"}, Observed: rows})
			}
		}
	}
	for _, in := range inputs {
		in := in
		res.Count("kind=" + in.Kind)
		switch in.Kind {
		case "grid":
			obs := runGrid(in)
			nontrivial := false
			for k, c := range in.Calls {
				ob := obs.Calls[k]
				res.Count("getter=" + c.Getter + "/" + ob.Class)
				res.OracleChecks++
				if c.Getter == "legacy" {
					res.Seen(fmt.Sprintf("legacy %+v", c), strings.Contains(c.Ref, "/"))
					if ob.Class == "ok" && c.DefNs != "" && !c.Allow && ob.Ns != c.DefNs {
						res.Fail(hx.Failure{Key: "C09/facade-legacy", What: fmt.Sprintf("legacy buildResourceName(%q, %q, allow=false) resolved %s/%s", c.DefNs, c.Ref, ob.Ns, ob.Name), Input: in, Observed: ob})
					}
					continue
				}
				bit := map[string]int{"tls": 0, "ca": 1, "passwd": 2, "service": 3, "dh": -1}[c.Getter]
				crossRef := strings.Contains(c.Ref, "/") && !strings.HasPrefix(c.Ref, "file://")
				if crossRef {
					nontrivial = true
				}
				res.Seen(fmt.Sprintf("%+v %+v", in.Setting, c), crossRef)
				// direct oracle: a foreign-namespace object resolved while its bit is deny
				if ob.Class == "ok" && c.DefNs != "" && ob.Ns != c.DefNs && bit >= 0 && !obs.Bits[bit] {
					res.Fail(hx.Failure{Key: "C09/facade-" + c.Getter, What: fmt.Sprintf("%s getter with default namespace %q resolved %q to %s/%s although its cross-namespace bit is deny", c.Getter, c.DefNs, c.Ref, ob.Ns, ob.Name),
						Input: in, Observed: ob})
				}
			}
			// direct oracle on the bits: allow only for a value that reads "allow" (any case), or the static flag for secrets
			for i := 0; i < 4; i++ {
				res.OracleChecks++
				want := strings.ToLower(in.Setting.Vals[i]) == "allow" || (in.Setting.Static && i < 3)
				if obs.Bits[i] != want {
					res.Fail(hx.Failure{Key: "C09/global-dynamic", What: fmt.Sprintf("key %s = %q, --allow-cross-namespace=%v: bit is %v, documented %v", keyNames[i], in.Setting.Vals[i], in.Setting.Static, obs.Bits[i], want),
						Input: in, Observed: obs.Bits})
				}
			}
			_ = nontrivial
			res.Sample(1, map[string]interface{}{"setting": in.Setting, "bits": obs.Bits, "first_calls": in.Calls[:min(5, len(in.Calls))], "observed": obs.Calls[:min(5, len(obs.Calls))]})
			if !o.Search {
				// shards of at most 60 calls keep the terms small
				for lo := 0; lo < len(in.Calls); lo += 60 {
					hi := min(lo+60, len(in.Calls))
					var cs []string
					for k := lo; k < hi; k++ {
						cs = append(cs, hx.Tuple(coqCall(in.Calls[k]), coqRes(obs.Calls[k])))
					}
					part := input{Kind: "grid", Setting: in.Setting, Calls: in.Calls[lo:hi]}
					cw.Add(func(id int) string {
						return fmt.Sprintf("CGrid %s %s (%s, %s, %s, %s) %s %s", hx.N(id), coqSetting(in.Setting),
							hx.Bool(obs.Bits[0]), hx.Bool(obs.Bits[1]), hx.Bool(obs.Bits[2]), hx.Bool(obs.Bits[3]),
							coqWorld(gridSecs, gridSvcs, nil, gridFiles), hx.List(cs))
					}, part)
				}
			}
		case "gwsites":
			ref := *in.GW
			bit := gwBitOf(ref.Site)
			denied := !(strings.ToLower(in.Setting.Vals[bit]) == "allow" || (in.Setting.Static && bit < 3))
			nsm := "<absent>"
			if ref.NS != nil {
				nsm = *ref.NS
			}
			res.Count(fmt.Sprintf("site=gateway-%s/denied=%v", ref.Site, denied))
			res.Seen(fmt.Sprintf("%+v %+v %s", in, ref, nsm), nsm == "b" || strings.Contains(ref.Name, "/"))
			w1 := runGwWorld(in, 1)
			w2 := runGwWorld(in, 0)
			w3 := runGwWorld(in, 2)
			res.OracleChecks += 2
			res.Sample(8, map[string]interface{}{"input": in, "world_with_foreign_object": w1.View, "world_without": w2.View})
			if denied && in.Flip && w1.Window != nil && w2.Window != nil {
				// the window: the gateway converter of a full sync uses the bits parsed by the previous one
				open := !sameView(*w1.Window, *w2.Window)
				res.Count(fmt.Sprintf("gateway_window/%s/name=%s/open=%v", ref.Site, ref.Name, open))
				if open {
					res.Extra["gateway_window_example"] = map[string]interface{}{"input": in, "one_reconciliation_after_deny_with_foreign": w1.Window, "without_foreign": w2.Window, "after_the_next_full_sync": w1.View}
				}
			}
			if denied && in.BUses == "" {
				// nobody of namespace b uses b/foreign: nothing at all may depend on it, and nobody may read it
				key := "C09/site-gateway-backendref"
				if ref.Site == "certificateref" {
					key = "C09/site-gateway-certificateref"
				}
				if !sameView(w1.Full, w2.Full) || !sameView(w1.Full, w3.Full) {
					res.Fail(hx.Failure{Key: key, What: fmt.Sprintf("%s of namespace a names %q with namespace member %s, bit at deny, b/foreign used by nobody in b: the whole configuration depends on b/foreign", ref.Site, ref.Name, nsm),
						Input: in, Observed: map[string]interface{}{"with_foreign": w1, "without_foreign": w2, "with_other_content": w3}})
				}
				if reads := append(append(append([]string{}, w1.Reads...), w2.Reads...), w3.Reads...); len(reads) > 0 && !in.Flip {
					res.Fail(hx.Failure{Key: "C09/foreign-read-gateway", What: fmt.Sprintf("%s of namespace a names %q with namespace member %s, bit at deny: the controller read %v", ref.Site, ref.Name, nsm, reads),
						Input: in, Observed: map[string]interface{}{"with_foreign": w1, "without_foreign": w2}})
				}
			}
			if denied && (!sameView(w1.View, w2.View) || !sameView(w1.View, w3.View)) {
				key := "C09/site-gateway-backendref"
				if ref.Site == "certificateref" {
					key = "C09/site-gateway-certificateref"
				}
				dep := "whether b/foreign exists"
				if sameView(w1.View, w2.View) {
					dep = "the content of b/foreign"
				}
				res.Count("oracle_fail_" + key)
				res.Fail(hx.Failure{Key: key, What: fmt.Sprintf("%s of namespace a names %q with namespace member %s while the cross-namespace bit is deny: the configuration of namespace a depends on %s", ref.Site, ref.Name, nsm, dep),
					Input: in, Observed: map[string]interface{}{"with_foreign": w1, "without_foreign": w2, "with_other_content": w3}})
			}
			if !o.Search {
				for _, w := range []worldObs{w1, w2} {
					w := w
					var sites []string
					if in.BUses == "same-key" {
						sites = append(sites, coqGwSite(ref.Site, "b", gwRef{Name: "foreign"}))
					}
					sites = append(sites, coqGwSite(ref.Site, "a", ref))
					used := "None"
					if w.Used != "" {
						q := strings.SplitN(w.Used, "/", 2)
						used = "(Some " + hx.Tuple(hx.Str(q[0]), hx.Str(q[1])) + ")"
					}
					cw.Add(func(id int) string {
						return fmt.Sprintf("CSites %s %s %s %s %s", hx.N(id), coqSetting(in.Setting), coqWorld(w.Secrets, w.Services, nil, nil), hx.List(sites), used)
					}, in)
				}
			}
		case "sites":
			rep := in.Repeat
			if rep < 1 {
				rep = 1
			}
			denied := false
			{
				v := strings.ToLower(in.Setting.Vals[bitOf(in.Reader.Key)]) == "allow" || (in.Setting.Static && kindOf(in.Reader.Key) != "service")
				denied = !v
			}
			res.Count(fmt.Sprintf("site=%s/on=%s/denied=%v", in.Reader.Key, in.Reader.On, denied))
			res.Seen(fmt.Sprintf("%+v %+v", in, *in.Reader), strings.Contains(in.Reader.Ref, "b/"))
			for r := 0; r < rep; r++ {
				w1 := runWorld(in, 1)
				w2 := runWorld(in, 0)
				w3 := runWorld(in, 2)
				res.OracleChecks += 2
				if r == 0 {
					res.Sample(6, map[string]interface{}{"input": in, "world_with_foreign_object": w1.View, "world_without": w2.View})
					if !o.Search {
						for _, w := range []worldObs{w1, w2} {
							w := w
							var sites []string
							if in.BUses == "same-key" {
								ref := "foreign"
								if in.Reader.Key == "auth-url" {
									ref = "svc://foreign:8080"
								}
								if in.BRef != "" {
									ref = in.BRef
								}
								if t, ok := coqSite(in.Reader.Key, "b", ref); ok {
									sites = append(sites, t)
								}
							}
							t, ok := coqSite(in.Reader.Key, "a", in.Reader.Ref)
							if !ok {
								continue
							}
							sites = append(sites, t)
							used := "None"
							if w.Used != "" {
								q := strings.SplitN(w.Used, "/", 2)
								used = "(Some " + hx.Tuple(hx.Str(q[0]), hx.Str(q[1])) + ")"
							}
							cw.Add(func(id int) string {
								return fmt.Sprintf("CSites %s %s %s %s %s", hx.N(id), coqSetting(in.Setting), coqWorld(w.Secrets, w.Services, w.Backends, nil), hx.List(sites), used)
							}, in)
							// the Service lookup of the auth-url pre-build (addBackendWithClass): does the converter build a
							// backend for b/foreign on behalf of namespace a? (observable when nobody else builds it)
							if in.Reader.Key == "auth-url" && in.Reader.On == "ingress" && in.BUses == "" {
								proto, host, port, _, err := ingutils.ParseURL(in.Reader.Ref)
								if err == nil && (proto == "svc" || proto == "service") && host == "b/foreign" && port != "" {
									built := "None"
									for _, b := range w.Backends {
										if b[0] == "b" && b[1] == "foreign" {
											built = "(Some " + hx.Tuple(hx.Str("b"), hx.Str("foreign")) + ")"
										}
									}
									site := fmt.Sprintf("{| st_key := SBackendSvc; st_src := (Some %s); st_val := %s; st_port := %s |}", hx.Str("a"), hx.Str(host), hx.Str(port))
									cw.Add(func(id int) string {
										return fmt.Sprintf("CSites %s %s %s %s %s", hx.N(id), coqSetting(in.Setting), coqWorld(w.Secrets, w.Services, nil, nil), hx.List([]string{site}), built)
									}, in)
								}
							}
						}
					}
				}
				if denied && in.BUses == "" {
					// nobody of namespace b uses b/foreign: nothing at all of the configuration may depend on
					// it (backends named after it included), and nobody may read it from the cluster
					if !sameView(w1.Full, w2.Full) || !sameView(w1.Full, w3.Full) {
						res.Count("oracle_fail_whole_" + in.Reader.Key)
						res.Fail(hx.Failure{Key: "C09/site-" + in.Reader.Key, What: fmt.Sprintf("reader in namespace a sets %s=%q, bit at deny, b/foreign used by nobody in b: the whole configuration depends on b/foreign", in.Reader.Key, in.Reader.Ref),
							Input: in, Observed: map[string]interface{}{"with_foreign": w1, "without_foreign": w2, "with_other_content": w3}})
						break
					}
					if reads := append(append(append([]string{}, w1.Reads...), w2.Reads...), w3.Reads...); len(reads) > 0 {
						res.Count("oracle_fail_read_" + in.Reader.Key)
						res.Fail(hx.Failure{Key: "C09/foreign-read-" + in.Reader.Key, What: fmt.Sprintf("reader in namespace a sets %s=%q with the cross-namespace bit at deny: the controller read %v", in.Reader.Key, in.Reader.Ref, reads),
							Input: in, Observed: map[string]interface{}{"with_foreign": w1, "without_foreign": w2}})
						break
					}
				}
				if denied && (!sameView(w1.View, w2.View) || !sameView(w1.View, w3.View)) {
					dep := "whether b/foreign exists"
					if sameView(w1.View, w2.View) {
						dep = "the content of b/foreign"
					}
					res.Count("oracle_fail_site_" + in.Reader.Key)
					res.Fail(hx.Failure{Key: "C09/site-" + in.Reader.Key, What: fmt.Sprintf("reader in namespace a sets %s=%q with the cross-namespace bit at deny: the configuration of namespace a depends on %s", in.Reader.Key, in.Reader.Ref, dep),
						Input: in, Observed: map[string]interface{}{"with_foreign": w1, "without_foreign": w2, "with_other_content": w3}})
					break
				}
			}
		}
	}
	cw.Flush()
	res.Write(o)
}

func min(a, b int) int {
	if a < b {
		return a
	}
	return b
}

var _ = sort.Strings
var _ = api.Service{}
