// pipedemo: sanity program for lib/pipeline, lib/world and lib/cfgnorm.
// It builds a small generated world, runs the real controller pipeline on the initial
// cluster and 3 batches of changes, prints the normal form of what was written and
// what a few requests are routed to.
//
//	go build -tags verif -o /verif/.work/bin/pipedemo ./cmd/pipedemo && /verif/.work/bin/pipedemo [-seed N] [-v]
package main

import (
	"flag"
	"fmt"
	"math/rand"
	"os"
	"time"

	"verif/harness/lib/cfgnorm"
	"verif/harness/lib/pipeline"
	"verif/harness/lib/world"
)

func main() {
	seed := flag.Int64("seed", 7, "seed")
	verbose := flag.Bool("v", false, "print the full NF as JSON")
	flag.Parse()
	dir := fmt.Sprintf("/verif/.work/pipedemo/p%d", os.Getpid())
	defer os.RemoveAll(dir)
	rng := rand.New(rand.NewSource(*seed))
	t0 := time.Now()
	p := pipeline.New(pipeline.Options{Dir: dir, WatchWithoutClass: true, DefaultService: "ns1/svc1"})
	defer p.Close()
	fmt.Println("pipeline.New:", time.Since(t0))
	h := world.GenHistory(rng, world.Full(), 3, 4)
	for i, b := range h {
		t0 := time.Now()
		err := p.Apply(b)
		fmt.Printf("batch %d: %d changes in %v, err=%v reloads=%d woken=%v\n", i, len(b), time.Since(t0), err, p.Reloads(), p.Last.Woken)
		for _, r := range p.Last.Runs {
			fmt.Printf("   reconcile fullsync=%v objects=%v\n", r.FullSyncRequested, r.Changed.Objects)
		}
		for _, l := range p.ConvLog.Take() {
			fmt.Println("   conv:", l)
		}
		p.HALog.Take()
	}
	nf, err := cfgnorm.Load(p.Dir(), p.Prefix())
	if err != nil {
		panic(err)
	}
	if *verbose {
		fmt.Println(nf.JSON())
	} else {
		fmt.Print(nf.Text())
	}
	fmt.Println("problems:", nf.Problems)
	for _, r := range []cfgnorm.Request{
		{Scheme: "http", Host: "a.example", Path: "/app/sub/x"},
		{Scheme: "https", Host: "a.example", Path: "/app/sub/x"},
		{Scheme: "http", Host: "b.example", Path: "/api"},
		{Scheme: "http", Host: "B.example:8080", Path: "/api"},
		{Scheme: "http", Host: "sub.a.example", Path: "/App/x"},
		{Scheme: "http", Host: "x.wild.example", Path: "/App"},
		{Scheme: "https", Host: "b.example", Path: "/"},
		{Scheme: "http", Host: "unknown.example", Path: "/zzz"},
	} {
		res := cfgnorm.Route(nf, r)
		fmt.Printf("%-5s %-16s %-12s -> %-8s backend=%-16s via=%-34s servers=%v %s\n", r.Scheme, r.Host, r.Path, res.Verdict, res.Backend, res.Via, res.ServerKeys(), res.Notes)
	}
	// a fresh controller fed the final cluster writes the same normal form
	q, err := p.Fresh(dir + "-fresh")
	if err != nil {
		panic(err)
	}
	defer q.Close()
	nf2, _ := cfgnorm.Load(q.Dir(), q.Prefix())
	fmt.Println("fresh pipeline has equal NF:", cfgnorm.Equal(nf, nf2))
	for _, d := range cfgnorm.Diff(nf, nf2, 10) {
		fmt.Println("  ", d)
	}
}
