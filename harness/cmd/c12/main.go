// c12: correspondence and oracle for C12 (a change is never lost to a transient failure).
// Histories of syncs + updates run on the real haproxy.Instance with faults injected into
// updates: every file written (a directory planted at its path, removed afterwards), the
// reload request and the reload result (fake master socket of an external haproxy). Each
// failed update is followed by the retry the reconciler schedules: same full/partial flag,
// empty batch, no fault.
package main

import (
	"encoding/json"
	"fmt"
	"math/rand"
	"os"
	"path/filepath"
	"strings"

	"verif/harness/lib/cfgsm"
	"verif/harness/lib/hx"
)

// FStep is one reconciliation with the faults armed during its update.
type FStep struct {
	cfgsm.Step
	Restart     bool     `json:"restart,omitempty"`      // the controller restarts first: new Instance over the same directories, full sync
	Faults      []string `json:"faults,omitempty"`       // file classes, "reload-request", "reload-result", "reload-reset", "reload-eof[-ok]", "reload-garbage[-ok]"
	QueueFaults int      `json:"queue_faults,omitempty"` // queue mode: number of failing reloads before the queue's reload succeeds
	// DeferReload (queue mode): the reload queue does not fire during this step; a reload that is
	// (or already was) enqueued waits - rate limiter, retry timer - and fires at the end of a later step
	DeferReload bool   `json:"defer_reload,omitempty"`
	QueueKind   string `json:"queue_kind,omitempty"` // how they fail: "" = reload result, "reset" = connection reset while sending reload
}

// History is the replayable input.
type History struct {
	Shards int     `json:"shards"`
	Inline bool    `json:"inline"` // true: HAProxyUpdate reloads itself; false: through the reload queue
	Steps  []FStep `json:"steps"`
}

type S = cfgsm.State
type H = cfgsm.HostSpec
type P = cfgsm.PathSpec
type B = cfgsm.BackendSpec
type T = cfgsm.TCPSpec

var allBacks = append(append(append([]string{}, cfgsm.BackPool...), cfgsm.TCPBackPool...), cfgsm.DefaultName)
var allPorts = []int{7001, 7002}

func faultKey(class string) string {
	switch {
	case class == "tcpmaps":
		return "commit-after-failed-tcp-map-write"
	case strings.HasPrefix(class, "front:"):
		return "commit-after-failed-map-write"
	case class == "backmaps":
		return "commit-after-failed-backend-map-write"
	case class == "tcpcrt":
		return "commit-after-failed-crt-list-write"
	case class == "resp":
		return "custom-response-lost-after-failed-write"
	case class == "main" || strings.HasPrefix(class, "shard:"):
		return "commit-after-failed-config-write"
	case strings.HasPrefix(class, "reload"):
		return "commit-after-failed-reload"
	}
	return "commit-after-failed-" + class
}

func classes(shards int, inline bool) []string {
	c := append([]string{}, cfgsm.FaultClasses...)
	for j := 0; j < shards; j++ {
		c = append(c, fmt.Sprintf("shard:%d", j))
	}
	if inline {
		// reload-eof / reload-garbage (the master drops the command silently) are not drawn: see corpus()
		c = append(c, "reload-request", "reload-result", "reload-reset", "reload-reset", "reload-eof-ok", "reload-garbage-ok")
	}
	return c
}

// gen draws a history and arms faults in some of its updates; each faulted update is
// followed by retries (same flag, same state, empty batch), the last one fault-free.
func gen(rng *rand.Rand, wide bool) History {
	shards, steps := cfgsm.Gen(rng, wide)
	h := History{Shards: shards, Inline: rng.Intn(3) != 0}
	cls := classes(shards, h.Inline)
	for i, st := range steps {
		fs := FStep{Step: st}
		if i > 0 && rng.Intn(12) == 0 {
			// crash / restart of the controller: the next reconciliation is a full sync of a new instance
			fs.Restart = true
			fs.Full = true
			fs.Dirty = nil
		}
		if i > 0 && rng.Intn(3) == 0 {
			// arm one fault (sometimes two); prefer the classes this update is likely to reach
			n := 1 + rng.Intn(5)/4
			for k := 0; k < n; k++ {
				fs.Faults = append(fs.Faults, cls[rng.Intn(len(cls))])
			}
		}
		if !h.Inline && rng.Intn(3) == 0 {
			fs.DeferReload = true
		}
		if !h.Inline && rng.Intn(4) == 0 {
			fs.QueueFaults = 1 + rng.Intn(2)
			if rng.Intn(2) == 0 {
				fs.QueueKind = "reset"
			}
		}
		h.Steps = append(h.Steps, fs)
		if len(fs.Faults) > 0 {
			// the retry of the reconciler: same rparam (full flag), nothing new in the batch
			for rep := rng.Intn(4) / 3; rep >= 0; rep-- {
				r := FStep{Step: cfgsm.Step{Full: st.Full, State: st.State.Clone()}}
				if rep > 0 {
					r.Faults = []string{cls[rng.Intn(len(cls))]}
				}
				h.Steps = append(h.Steps, r)
			}
		}
	}
	return h
}

func fst(full bool, hosts map[string]H, backs map[string]B, tcp map[string]T, faults ...string) FStep {
	s := S{Hosts: hosts, Backends: backs, TCP: tcp}
	s.Normalize(false)
	return FStep{Step: cfgsm.Step{Full: full, State: s}, Faults: faults}
}

// corpus: one minimal history per fault class (the defect of DESIGN §8 item 2), run first forever.
func corpus() []History {
	h0 := map[string]H{"h0": {Paths: []P{{Path: "/", Backend: "b0"}}}}
	b0 := map[string]B{"b0": {Eps: []int{1}}}
	h01 := map[string]H{"h0": {Paths: []P{{Path: "/", Backend: "b0"}}}, "h1": {Paths: []P{{Path: "/", Backend: "b1", SSLRedirect: true}, {Path: "/a", Backend: "b1"}}}}
	b01 := map[string]B{"b0": {Eps: []int{1}}, "b1": {Eps: []int{2}}}
	tb := map[string]B{"b0": {Eps: []int{1}}, "tb0": {Eps: []int{3}}}
	t0 := map[string]T{"t0:7001": {Backend: "tb0", TLS: true}}
	var out []History
	for _, inline := range []bool{true, false} {
		for _, full := range []bool{false, true} {
			for _, c := range []string{"front:crt", "front:host", "front:rootredir", "front:rootssl", "backmaps", "main", "shard:0", "shard:1", "shard:2", "reload-request", "reload-result"} {
				if !inline && strings.HasPrefix(c, "reload") {
					continue
				}
				out = append(out, History{Shards: 3, Inline: inline, Steps: []FStep{
					fst(true, h0, b0, nil), fst(full, h01, b01, nil, c), fst(full, h01, b01, nil)}})
			}
			for _, c := range []string{"tcpmaps", "tcpcrt"} {
				out = append(out, History{Shards: 3, Inline: inline, Steps: []FStep{
					fst(true, h0, b0, nil), fst(full, h0, tb, t0, c), fst(full, h0, tb, t0)}})
			}
		}
		// a shard loses its only backend and its write fails
		out = append(out, History{Shards: 8, Inline: inline, Steps: []FStep{
			fst(true, h01, b01, nil), fst(false, h0, b0, nil, "shard:"+fmt.Sprint(cfgsm.ShardOf(cfgsm.BackendID("b1"), 8))), fst(false, h0, b0, nil)}})
		// everything removed and the main file cannot be written
		out = append(out, History{Shards: 0, Inline: inline, Steps: []FStep{
			fst(true, h01, b01, nil), fst(false, nil, nil, nil, "main"), fst(false, nil, nil, nil)}})
	}
	// the custom responses of the global config change and the file of one of them cannot be
	// written: the retry (same full flag, empty batch) has to write them; then they go away
	for _, inline := range []bool{true, false} {
		rs := func(resp int, faults ...string) FStep {
			s := fst(true, h01, b01, nil, faults...)
			s.State.Resp = resp
			return s
		}
		out = append(out, History{Shards: 3, Inline: inline, Steps: []FStep{rs(1), rs(2, "resp"), rs(2), rs(3, "resp"), rs(3, "resp"), rs(3), rs(0)}})
		// the responses are new and the very first write of their files fails
		out = append(out, History{Shards: 0, Inline: inline, Steps: []FStep{rs(0), rs(1, "resp"), rs(1)}})
	}
	// crash points: the controller restarts (after a failed update or not) over the same directories
	for _, inline := range []bool{true, false} {
		r := fst(true, h01, b01, nil)
		r.Restart = true
		out = append(out, History{Shards: 3, Inline: inline, Steps: []FStep{fst(true, h0, b0, nil), fst(false, h01, b01, nil, "main"), r}})
		// ... and a shard lost all its backends meanwhile: its file is never rewritten
		r0 := fst(true, h0, b0, nil)
		r0.Restart = true
		out = append(out, History{Shards: 8, Inline: inline, Steps: []FStep{fst(true, h01, b01, nil), r0}})
	}
	// the connection carrying `reload` is reset by the master, which does not reload and keeps
	// answering `show proc` with its old worker: once, twice in a row, then the retry; inline and queue
	for _, n := range []int{1, 2} {
		steps := []FStep{fst(true, h0, b0, nil)}
		for k := 0; k < n; k++ {
			steps = append(steps, fst(false, h01, b01, nil, "reload-reset"))
		}
		steps = append(steps, fst(false, h01, b01, nil))
		out = append(out, History{Shards: 3, Inline: true, Steps: steps})
		qr := fst(false, h01, b01, nil)
		qr.QueueFaults, qr.QueueKind = n, "reset"
		out = append(out, History{Shards: 3, Inline: false, Steps: []FStep{fst(true, h0, b0, nil), qr, fst(false, h0, b0, nil)}})
	}
	// unusual answers of a master that does reload: no answer at all (it re-executes itself), garbage
	for _, c := range []string{"reload-eof-ok", "reload-garbage-ok"} {
		out = append(out, History{Shards: 3, Inline: true, Steps: []FStep{fst(true, h0, b0, nil), fst(false, h01, b01, nil, c), fst(false, h01, b01, nil)}})
	}
	if silentReload {
		// the master drops `reload` without any sign (no answer / garbage, no reload, `show proc` healthy):
		// the real code reports success (C12/silent-reload-drop-undetected, C12_silent_reload_drop_refuted)
		for _, c := range []string{"reload-eof", "reload-garbage"} {
			out = append(out, History{Shards: 3, Inline: true, Steps: []FStep{fst(true, h0, b0, nil), fst(false, h01, b01, nil, c), fst(false, h01, b01, nil)}})
		}
	}
	// a queued reload fires, and succeeds, between a failed update and its retry (empty batch, or
	// unrelated change): step 1 succeeds and its reload waits; step 2 fails at a file write, then the
	// queue fires; step 3 is the retry
	for _, c := range []string{"front:crt", "main", "shard:0", "backmaps"} {
		s1 := fst(false, h01, b01, nil)
		s1.DeferReload = true
		out = append(out, History{Shards: 3, Inline: false, Steps: []FStep{fst(true, h0, b0, nil), s1,
			fst(false, map[string]H{"h0": {Paths: []P{{Path: "/", Backend: "b0"}}}, "h1": {Paths: []P{{Path: "/", Backend: "b1", SSLRedirect: true}, {Path: "/a", Backend: "b1"}}}, "h2": {Paths: []P{{Path: "/", Backend: "b2"}}}},
				map[string]B{"b0": {Eps: []int{1}}, "b1": {Eps: []int{2}}, "b2": {Eps: []int{3}}}, nil, c),
			fst(false, map[string]H{"h0": {Paths: []P{{Path: "/", Backend: "b0"}}}, "h1": {Paths: []P{{Path: "/", Backend: "b1", SSLRedirect: true}, {Path: "/a", Backend: "b1"}}}, "h2": {Paths: []P{{Path: "/", Backend: "b2"}}}},
				map[string]B{"b0": {Eps: []int{1}}, "b1": {Eps: []int{2}}, "b2": {Eps: []int{3}}}, nil)}})
	}
	// reload through the queue fails twice, the queue retries
	q := fst(false, h01, b01, nil)
	q.QueueFaults = 2
	out = append(out, History{Shards: 3, Inline: false, Steps: []FStep{fst(true, h0, b0, nil), q}})
	return out
}

// ---------------------------------------------------------------- run

type stepObs struct {
	LastFailed  bool
	Err         string
	ReloadAsked bool // queue mode: a reload was enqueued
	Reloads     int  // reload commands received by the master socket during the step
	QueueTries  int
	Written     []string
	Disk        cfgsm.Disk
	Running     string // canonical text of what the running haproxy loaded last
	RunningNR   string // Running without the custom response files
	Ops         []cfgsm.Op
}

type runResult struct {
	Obs  []stepObs
	Key  string
	What string
}

func runHistory(base string, h History) runResult {
	sock := "m.sock"
	_ = os.MkdirAll(base, 0o755)
	_ = os.Chdir(base)
	master := cfgsm.NewMaster(sock)
	defer master.Close()
	e := cfgsm.NewEnv(base, "enva", cfgsm.Options{Shards: h.Shards, InlineReload: h.Inline, MasterSocket: sock})
	running := ""
	runningNR := "" // the same without the custom response files, which the Coq model does not have
	master.OnReload = func() { d := e.ReadDisk(); running, runningNR = d.Canon(), d.CanonNoResp() }
	r := runResult{}
	fail := func(key, what string) {
		if r.Key == "" {
			r.Key, r.What = key, what
		}
	}
	pendingFault := "" // first fault of a failed update not yet followed by a successful one
	restarted := false
	reloadPending := false      // queue mode: a reload sits in the reload queue
	reloadAfterFailure := false // a queued reload fired after a failed update not yet followed by a successful one
	lostReload := ""
	newInst := true // the instance has not written a configuration yet
	up := false     // the instance has reloaded haproxy at least once
	for i, st := range h.Steps {
		st.State.Normalize(false)
		if st.Restart {
			st.Full = true
			st.Dirty = nil
			in := e.Interner
			e = cfgsm.NewEnv(base, "enva", cfgsm.Options{Shards: h.Shards, InlineReload: h.Inline, MasterSocket: sock, Keep: true})
			e.Interner = in
			env := e
			master.OnReload = func() { d := env.ReadDisk(); running, runningNR = d.Canon(), d.CanonNoResp() }
			restarted = true
			newInst = true
			up = false
		}
		{
			// until a new instance has written its first configuration it also removes the shard
			// files it does not know: faults on shard files are not armed meanwhile; and until its
			// first reload it waits for the master socket for ever (not a failure of the update)
			var fl []string
			for _, f := range st.Faults {
				if (newInst && strings.HasPrefix(f, "shard:")) || (!up && f == "reload-request") {
					continue
				}
				fl = append(fl, f)
			}
			st.Faults = cfgsm.EffectiveFaults(fl, st.State)
		}
		h.Steps[i] = st
		ops := e.Sync(st.Step)
		var fileClasses []string
		reqFail, resFail := false, false
		mode := ""
		for _, f := range st.Faults {
			switch f {
			case "reload-request":
				reqFail = true
			case "reload-result":
				resFail = true
			case "reload-reset", "reload-eof", "reload-garbage", "reload-eof-ok", "reload-garbage-ok":
				if mode == "" || f == "reload-reset" {
					mode = strings.TrimPrefix(f, "reload-")
				}
			default:
				fileClasses = append(fileClasses, f)
			}
		}
		unblock := e.Block(fileClasses, allBacks, allPorts)
		if reqFail && h.Inline {
			master.Close()
		}
		master.FailResult(resFail && h.Inline)
		if h.Inline {
			master.ReloadMode(mode)
		}
		q := 0
		if e.Queue != nil {
			q = e.Queue.Adds
		}
		rl := master.Reloads()
		e.Stamp()
		err := e.Update()
		unblock()
		master.Listen()
		master.FailResult(false)
		master.ReloadMode("")
		o := stepObs{Ops: ops, Written: e.Written()}
		if err != nil {
			o.Err = err.Error()
		} else {
			for _, w := range o.Written {
				if w == "cfg/haproxy.cfg" {
					newInst = false
				}
			}
		}
		if e.Queue != nil && e.Queue.Adds > q {
			o.ReloadAsked = true
			reloadPending = true
		}
		if st.Restart {
			// the queue of the former controller is gone with it
			reloadPending = o.ReloadAsked
		}
		if e.Queue != nil && reloadPending && !st.DeferReload {
			reloadPending = false
			if err != nil || pendingFault != "" {
				reloadAfterFailure = true
			}
			// what services.reloadHAProxy does when the queue fires: Reload, and on error add itself again
			for try := 0; try < 10; try++ {
				o.QueueTries++
				if st.QueueKind == "reset" {
					if try < st.QueueFaults {
						master.ReloadMode("reset")
					}
				} else {
					master.FailResult(try < st.QueueFaults)
				}
				rerr := e.Inst.Reload(e.Timer)
				master.FailResult(false)
				master.ReloadMode("")
				if rerr == nil {
					break
				}
			}
		}
		o.Reloads = master.Reloads() - rl
		if running != "" && o.Reloads > 0 && err == nil {
			up = true
		}
		o.Disk = e.ReadDisk()
		o.Running = running
		o.RunningNR = runningNR
		o.LastFailed = e.LastFailed()
		r.Obs = append(r.Obs, o)
		where := fmt.Sprintf("step %d (%s sync, faults %v)", i, map[bool]string{true: "full", false: "partial"}[st.Full], st.Faults)
		if err != nil {
			if len(st.Faults) == 0 {
				fail("update-error", where+": fault-free update failed: "+err.Error())
			}
			if pendingFault == "" && len(st.Faults) > 0 {
				pendingFault = st.Faults[0]
				for _, f := range st.Faults {
					// name the fault that was reached: the error text says which phase failed
					if strings.Contains(err.Error(), phaseText(f)) {
						pendingFault = f
					}
				}
			}
			continue
		}
		// successful update: files and running instance must be those of the current state
		f := cfgsm.NewEnv(base, "envf", cfgsm.Options{Shards: h.Shards})
		f.Interner = e.Interner
		f.Sync(cfgsm.Step{Full: true, State: st.State})
		if ferr := f.Update(); ferr != nil {
			panic(ferr)
		}
		fresh := f.ReadDisk().Canon()
		key := "stale-without-fault"
		if pendingFault != "" {
			key = faultKey(pendingFault)
		}
		if restarted && staleShardBackend(o.Disk, st.State) {
			key = "restart-keeps-stale-shard-files"
		}
		if pendingFault != "" && pendingFault != "resp" && reloadAfterFailure && o.Disk.Canon() != fresh {
			key = "failed-update-forgotten-after-queued-reload"
		}
		reloadAfterFailure = false
		if o.Disk.Canon() != fresh {
			fail(key, where+": after the failed update(s) [first fault "+pendingFault+"] this update succeeded but the files differ from those of a fresh instance: "+firstDiff(o.Disk.Canon(), fresh))
		} else if running != fresh && !reloadPending {
			// a reload that did not happen and was not reported: name its shape
			if lostReload == "" {
				switch {
				case mode == "reset" || (st.QueueKind == "reset" && st.QueueFaults > 0 && o.ReloadAsked):
					lostReload = "reload-reset-not-reported"
				case mode == "eof" || mode == "garbage":
					lostReload = "silent-reload-drop-undetected"
				}
			}
			switch {
			case lostReload != "":
				fail(lostReload, where+": the connection carrying `reload` was "+map[string]string{"reload-reset-not-reported": "reset by the master", "silent-reload-drop-undetected": "closed / answered with garbage by the master"}[lostReload]+", haproxy did not reload and `show proc` shows the old worker, yet the update (reload) reported success and nothing is retried: the running haproxy never loads the files: "+firstDiff(running, fresh))
			case pendingFault != "":
				fail(key, where+": update succeeded but the running haproxy did not load the current files: "+firstDiff(running, fresh))
			default:
				fail("running-differs", where+": update succeeded but the running haproxy did not load the current files: "+firstDiff(running, fresh))
			}
		} else {
			lostReload = ""
		}
		pendingFault = ""
	}
	return r
}

// staleShardBackend tells whether a shard file still holds a backend that is not in the current state.
func staleShardBackend(d cfgsm.Disk, cur S) bool {
	for _, f := range d.Files {
		for _, b := range f.Backends {
			if _, ok := cur.Backends[b.Name]; !ok && f.Shard >= 0 {
				return true
			}
		}
	}
	return false
}

func phaseText(f string) string {
	switch {
	case f == "tcpmaps":
		return "tcp services maps"
	case strings.HasPrefix(f, "front:"):
		return "frontend maps"
	case f == "backmaps":
		return "backend maps"
	case f == "tcpcrt":
		return "certificates lists"
	case f == "main" || f == "resp" || strings.HasPrefix(f, "shard:"):
		return "writing configuration"
	}
	return "reloading server"
}

func firstDiff(a, b string) string {
	la, lb := strings.Split(a, "\n"), strings.Split(b, "\n")
	for i := 0; i < len(la) || i < len(lb); i++ {
		var x, y string
		if i < len(la) {
			x = la[i]
		}
		if i < len(lb) {
			y = lb[i]
		}
		if x != y {
			return fmt.Sprintf("line %d: %q vs fresh %q", i, x, y)
		}
	}
	return ""
}

// silentReload adds to the corpus the two histories where the master drops `reload` silently
// (VERIF_C12_SILENT_RELOAD=1): a fault no signal of which reaches the controller; the real code
// then reports success while haproxy never reloads. Off by default, see the report / props/C12.json.
var silentReload = os.Getenv("VERIF_C12_SILENT_RELOAD") == "1"

func main() {
	o := hx.Parse()
	rng := o.Rng()
	res := hx.NewResult("C12", "histories of 3..8 (search: ..14) syncs + updates on the real Instance (shards 0/1/3/8, inline reload through a fake master socket or reload queue), about a third of the updates with one or two armed faults out of {tcp maps, 4 frontend map files, backend maps, tcp crt-lists, main cfg, each shard file, reload request, reload result, reload connection reset by the master (inline and through the queue), reload answered by EOF / garbage by a master that does reload}, each followed by the reconciler's retry; non-trivial = at least one armed fault made an update fail; distinct by canonical JSON")
	base, _ := filepath.Abs(filepath.Join(o.Out, "scratch"))
	var inputs []History
	var loops []LoopInput
	if o.Replay != "" {
		var li LoopInput
		hx.ReadReplay(o.Replay, &li)
		if len(li.Script) > 0 {
			loops = append(loops, li)
		} else {
			var h History
			hx.ReadReplay(o.Replay, &h)
			inputs = append(inputs, h)
		}
	} else {
		loops = append(loops, loopCorpus(rng)...)
		inputs = append(inputs, corpus()...)
		n := o.Count(90, 3000)
		if o.Search {
			n = o.Count(1200, 3000)
		}
		for i := 0; i < n; i++ {
			inputs = append(inputs, gen(rng, o.Search))
		}
	}
	cw := newCaseWriter(o, res)
	for _, h := range inputs {
		r := runHistory(base, h)
		b, _ := json.Marshal(h)
		failed := 0
		for i, ob := range r.Obs {
			if ob.Err != "" {
				failed++
				for _, f := range h.Steps[i].Faults {
					if strings.Contains(ob.Err, phaseText(f)) {
						res.Count("failed_at_" + strings.SplitN(f, ":", 2)[0])
					}
				}
			} else if len(h.Steps[i].Faults) > 0 {
				res.Count("armed_fault_not_reached")
			}
			if ob.QueueTries > 1 {
				res.Count("queue_reload_retried")
			}
		}
		res.Seen(string(b), failed > 0)
		res.Count(fmt.Sprintf("shards=%d", h.Shards))
		res.Count(fmt.Sprintf("inline=%v", h.Inline))
		res.Count(fmt.Sprintf("failed_updates=%d", failed))
		res.OracleChecks += len(h.Steps) - failed
		var errs []string
		for _, ob := range r.Obs {
			errs = append(errs, ob.Err)
		}
		res.Sample(5, map[string]interface{}{"history": h, "update_errors": errs})
		if r.Key != "" {
			res.Count("oracle_fail_" + r.Key)
			res.Fail(hx.Failure{Key: "C12/" + r.Key, What: r.What, Input: h, Observed: errs})
		}
		var sts []cfgsm.Step
		for _, fs := range h.Steps {
			sts = append(sts, fs.Step)
		}
		if cfgsm.UsesAliasRe(sts) {
			res.Count("oracle_only_alias_regex_or_contended")
		} else if !o.Search {
			cw.add(h, r)
		}
	}
	// retry-loop level: real watchers + Reconcile + ReconcileIngress
	if o.Replay == "" {
		nl := o.Count(24, 600)
		if o.Search {
			nl = o.Count(150, 600)
		}
		for i := 0; i < nl; i++ {
			loops = append(loops, genLoop(rng, o.Search))
		}
	}
	for _, in := range loops {
		r := runLoop(filepath.Join(base, "loop"), in)
		b, _ := json.Marshal(in)
		res.Seen("loop "+string(b), r.Failed > 0)
		res.Count("loop_histories")
		res.Count(fmt.Sprintf("loop_failed_attempts=%d", r.Failed))
		res.Distribution["loop_attempts"] += r.Attempts
		res.Distribution["loop_requeues"] += r.Requeues
		res.Distribution["loop_twin_stale_partial_sync_a_equals_fresh"] += r.TwinStale
		res.OracleChecks += r.Attempts - r.Failed + 1
		if r.Key != "" {
			res.Count("oracle_fail_" + r.Key)
			res.Fail(hx.Failure{Key: "C12/" + r.Key, What: r.What, Input: in})
		}
		if !o.Search {
			cw.addLoop(in, r)
		}
	}
	cw.flush()
	_ = os.Chdir("/")
	_ = os.RemoveAll(base)
	res.Write(o)
}
