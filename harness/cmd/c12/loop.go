// Retry-loop level of C12: the REAL watchers, IngressReconciler.Reconcile and
// Services.ReconcileIngress (hooks verif_c12.go) over the real converters and instance
// (lib/pipeline builds them), a work queue that does with the results of Reconcile what
// client-go's does (set of rparam items, ready / delayed), cluster changes delivered through
// the real event handlers at arbitrary moments, write faults planted during some attempts.
// A twin controller receives the same events and runs the same reconciliations without any
// fault: theorem C12_eventually_fault_free_converges says the files end up meaning the same.
package main

import (
	"context"
	"fmt"
	"math/rand"
	"os"
	"path/filepath"

	networking "k8s.io/api/networking/v1"
	"k8s.io/apimachinery/pkg/util/intstr"
	"sigs.k8s.io/controller-runtime/pkg/client"

	"github.com/jcmoraisjr/haproxy-ingress/pkg/controller/reconciler"
	"github.com/jcmoraisjr/haproxy-ingress/pkg/controller/services"
	"github.com/jcmoraisjr/haproxy-ingress/pkg/haproxy"
	"github.com/jcmoraisjr/haproxy-ingress/pkg/utils"

	"verif/harness/lib/cfgnorm"
	"verif/harness/lib/cfgsm"
	"verif/harness/lib/hx"
	"verif/harness/lib/pipeline"
	"verif/harness/lib/world"
)

// LoopEv is one scheduled event.
type LoopEv struct {
	Kind  string `json:"kind"` // deliver (next batch of cluster changes) | tick | attempt | leader | reload (the reload queue fires)
	Full  bool   `json:"full,omitempty"`
	Fault string `json:"fault,omitempty"` // attempt: "" | main | crt
}

// LoopInput is the replayable input of the loop level.
type LoopInput struct {
	Shards  int                  `json:"shards"`
	Cluster [][]world.ChangeJSON `json:"cluster"` // first batch = initial objects
	Script  []LoopEv             `json:"script"`
}

// recInst records what HAProxyUpdate returned (Reconcile only logs it).
type recInst struct {
	haproxy.Instance
	lastErr error
}

func (r *recInst) HAProxyUpdate(timer *utils.Timer) error {
	r.lastErr = r.Instance.HAProxyUpdate(timer)
	return r.lastErr
}

type controller struct {
	p      *pipeline.Pipeline
	inst   *recInst
	svc    *services.Services
	rec    *reconciler.IngressReconciler
	master *cfgsm.Master
	fired  int // reloads of the reload queue already served
}

// newController: external haproxy behind a (fake) master socket, reloads through the reload queue.
func newController(dir, sock string, shards int) *controller {
	master := cfgsm.NewMaster(sock)
	p := pipeline.New(pipeline.Options{Dir: dir, WatchWithoutClass: true, BackendShards: shards, MasterSocket: sock})
	inst := &recInst{Instance: p.Instance}
	svc := services.VerifNewServices(p.Cfg, inst, p.ConvOpt, p.Reload)
	return &controller{p: p, inst: inst, svc: svc, rec: reconciler.VerifNewReconciler(p.Cfg, svc, p.Watchers), master: master}
}

func (c *controller) close() {
	c.master.Close()
	c.p.Close()
}

// reloadPending: the reload queue holds an item (enqueued by HAProxyUpdate, or again by a failed reloadHAProxy)
func (c *controller) reloadPending() bool { return c.p.Reload.Count() > c.fired }

// fireReload is the reload queue handing its item to Services.reloadHAProxy.
func (c *controller) fireReload() {
	c.fired = c.p.Reload.Count()
	_ = c.svc.VerifReloadHAProxy(context.Background())
}

// set of rparam values
type rset struct{ p, f bool }

func (s *rset) add(full bool) {
	if full {
		s.f = true
	} else {
		s.p = true
	}
}
func (s *rset) del(full bool) {
	if full {
		s.f = false
	} else {
		s.p = false
	}
}
func (s rset) mem(full bool) bool {
	if full {
		return s.f
	}
	return s.p
}

type loopObs struct {
	Ev      string // coq term of the event
	RP, RF  bool
	DP, DF  bool
	Same    string // "None" | "(Some true)" | "(Some false)"
	Comment string
}

type loopResult struct {
	TwinStale int // comparisons where the fault-free twin's files were behind its model (C01) and a equals a fresh controller
	Obs       []loopObs
	Key       string
	What      string
	Attempts  int
	Failed    int
	Requeues  int
}

func genLoop(rng *rand.Rand, wide bool) LoopInput {
	cfg := world.Config{MaxIngresses: 4, Annotations: true, ConfigMap: true, DefaultBackend: true}
	nb := 2 + rng.Intn(3)
	if wide {
		nb = 3 + rng.Intn(5)
	}
	h := world.GenHistory(rng, cfg, nb, 2)
	in := LoopInput{Shards: []int{0, 3, 8}[rng.Intn(3)], Cluster: world.EncodeHistory(h)}
	faults := []string{"main", "crt"}
	for range h {
		in.Script = append(in.Script, LoopEv{Kind: "deliver"})
		for k := rng.Intn(5); k > 0; k-- {
			switch rng.Intn(8) {
			case 0, 1, 2:
				in.Script = append(in.Script, LoopEv{Kind: "tick", Full: rng.Intn(2) == 0})
			case 3, 4, 5, 6:
				ev := LoopEv{Kind: "attempt", Full: rng.Intn(2) == 0}
				if rng.Intn(2) == 0 {
					ev.Fault = faults[rng.Intn(len(faults))]
				}
				in.Script = append(in.Script, ev)
			case 7:
				in.Script = append(in.Script, LoopEv{Kind: "leader"})
			}
			if rng.Intn(3) == 0 {
				in.Script = append(in.Script, LoopEv{Kind: "reload"})
			}
		}
	}
	return in
}

// loopCorpus: the interleavings the task names, on a tiny cluster.
func loopCorpus(rng *rand.Rand) []LoopInput {
	// a service with one endpoint and an ingress; then two more hosts, one at a time: each needs a reload
	ing := func(name, host string, stamp int) *networking.Ingress {
		return world.Ingress("ns1", name, stamp, world.IngRule{Host: host,
			Paths: []world.IngPath{{Path: "/", Type: "Prefix", Service: "svc1", PortNum: 80}}})
	}
	create := func(objs ...client.Object) []pipeline.Change {
		var b []pipeline.Change
		for _, o := range objs {
			b = append(b, pipeline.Change{Op: pipeline.Create, Obj: o})
		}
		return b
	}
	c := world.EncodeHistory([][]pipeline.Change{
		create(world.Service("ns1", "svc1", world.SvcPort{Name: "http", Port: 80, TargetPort: intstr.FromInt(8080)}),
			world.Endpoints("ns1", "svc1", world.EpPort{Name: "http", Port: 8080, Ready: []string{"10.0.0.1"}}),
			ing("ing1", "a.example", 10)),
		create(ing("ing2", "b.example", 11)),
		create(ing("ing3", "sub.a.example", 12)),
	})
	defIng := world.Ingress("ns1", "ing2", 11)
	defIng.Spec.DefaultBackend = &networking.IngressBackend{}
	*defIng.Spec.DefaultBackend = world.Backend("svc2", "", 80)
	cdef := world.EncodeHistory([][]pipeline.Change{
		create(world.Service("ns1", "svc1", world.SvcPort{Name: "http", Port: 80, TargetPort: intstr.FromInt(8080)}),
			world.Endpoints("ns1", "svc1", world.EpPort{Name: "http", Port: 8080, Ready: []string{"10.0.0.1"}}),
			world.Service("ns1", "svc2", world.SvcPort{Name: "http", Port: 80, TargetPort: intstr.FromInt(8080)}),
			world.Endpoints("ns1", "svc2", world.EpPort{Name: "http", Port: 8080, Ready: []string{"10.0.0.2"}}),
			world.Ingress("ns1", "ing1", 10, world.IngRule{Host: "",
				Paths: []world.IngPath{{Path: "/app", Type: "Prefix", Service: "svc1", PortNum: 80}}})),
		create(defIng),
	})
	return []LoopInput{
		// failure, then the scheduled retry with an empty batch
		{Shards: 3, Cluster: c, Script: []LoopEv{{Kind: "deliver"}, {Kind: "tick"}, {Kind: "tick", Full: true}, {Kind: "attempt", Full: true}, {Kind: "attempt"},
			{Kind: "deliver"}, {Kind: "tick"}, {Kind: "attempt", Fault: "main"}, {Kind: "tick"}, {Kind: "attempt"}}},
		// new events arrive between the failure and the retry, and are taken by another request first
		{Shards: 3, Cluster: c, Script: []LoopEv{{Kind: "deliver"}, {Kind: "tick"}, {Kind: "tick", Full: true}, {Kind: "attempt", Full: true}, {Kind: "attempt"},
			{Kind: "deliver"}, {Kind: "tick"}, {Kind: "attempt", Fault: "crt"}, {Kind: "deliver"}, {Kind: "leader"}, {Kind: "tick", Full: true}, {Kind: "attempt", Full: true, Fault: "main"}}},
		// a queued reload fires and succeeds between a failed update and its retry (empty batch)
		{Shards: 3, Cluster: c, Script: []LoopEv{{Kind: "deliver"}, {Kind: "tick"}, {Kind: "tick", Full: true}, {Kind: "attempt", Full: true}, {Kind: "attempt"},
			{Kind: "deliver"}, {Kind: "tick"}, {Kind: "attempt", Fault: "main"}, {Kind: "reload"}, {Kind: "tick"}, {Kind: "attempt"}}},
		{Shards: 0, Cluster: c, Script: []LoopEv{{Kind: "deliver"}, {Kind: "tick"}, {Kind: "tick", Full: true}, {Kind: "attempt", Full: true}, {Kind: "attempt"}, {Kind: "reload"},
			{Kind: "deliver"}, {Kind: "tick"}, {Kind: "attempt"}, {Kind: "deliver"}, {Kind: "tick"}, {Kind: "attempt", Fault: "crt"}, {Kind: "reload"}, {Kind: "tick"}, {Kind: "attempt"}}},
		// the retry that rewrites everything is right where the fault-free twin is behind its own model
		// (known finding C01/ingress-default-backend-not-pretracked: an ingress with only
		// spec.defaultBackend added by a partial sync while the default host exists leaves the
		// frontend maps unwritten): not a change lost by the retry layer
		{Shards: 0, Cluster: cdef, Script: []LoopEv{{Kind: "deliver"}, {Kind: "tick"}, {Kind: "attempt", Fault: "crt"},
			{Kind: "deliver"}, {Kind: "tick"}, {Kind: "attempt"}}},
		// two failures in a row of the same request
		{Shards: 0, Cluster: c, Script: []LoopEv{{Kind: "deliver"}, {Kind: "tick"}, {Kind: "attempt", Fault: "main"}, {Kind: "tick"}, {Kind: "attempt", Fault: "crt"}, {Kind: "deliver"}}},
	}
}

func plant(path string) func() {
	bak := ""
	if st, err := os.Lstat(path); err == nil && !st.IsDir() {
		bak = path + ".saved"
		if err := os.Rename(path, bak); err != nil {
			panic(err)
		}
	}
	if err := os.Mkdir(path, 0o755); err != nil {
		panic(err)
	}
	return func() {
		_ = os.Remove(path)
		if bak != "" {
			if err := os.Rename(bak, path); err != nil {
				panic(err)
			}
		}
	}
}

func runLoop(base string, in LoopInput) loopResult {
	_ = os.Chdir("/")
	_ = os.RemoveAll(base)
	_ = os.MkdirAll(base, 0o755)
	a := newController(filepath.Join(base, "loopa"), filepath.Join(base, "ma.sock"), in.Shards)
	defer a.close()
	t := newController(filepath.Join(base, "loopt"), filepath.Join(base, "mt.sock"), in.Shards) // the fault-free twin
	defer t.close()
	batches := world.DecodeHistory(in.Cluster)
	next := 0
	var ready, delay rset
	res := loopResult{}
	attempted := false
	fail := func(key, what string) {
		if res.Key == "" {
			res.Key, res.What = key, what
		}
	}
	// same: the files of a mean what those of the twin mean.  The twin ran the same partial /
	// full reconciliations without fault; when a partial sync leaves the twin's own files behind
	// its model (findings of C01: e.g. a path added to a host that is not in the changed set),
	// the rewrite-everything retry of a is the one that is right: a is then compared with a
	// controller started from scratch on the same cluster, and only a difference with both is a
	// change lost by the retry layer.
	same := func() bool {
		na, ea := cfgnorm.Load(a.p.Dir(), a.p.Prefix())
		nt, et := cfgnorm.Load(t.p.Dir(), t.p.Prefix())
		if ea != nil || et != nil {
			return ea != nil && et != nil
		}
		if cfgnorm.Equal(na, nt) {
			return true
		}
		q, err := a.p.Fresh(filepath.Join(base, "loopf"))
		if err != nil {
			return false
		}
		defer q.Close()
		nq, eq := cfgnorm.Load(q.Dir(), q.Prefix())
		if eq == nil && cfgnorm.Equal(na, nq) {
			res.TwinStale++
			return true
		}
		return false
	}
	record := func(ev, sameS string) {
		res.Obs = append(res.Obs, loopObs{Ev: ev, RP: ready.p, RF: ready.f, DP: delay.p, DF: delay.f, Same: sameS})
	}
	attempt := func(i int, full bool, fault string) {
		ready.del(full)
		var unplant func()
		switch fault {
		case "main":
			unplant = plant(filepath.Join(a.p.CfgDir(), "haproxy.cfg"))
		case "crt":
			unplant = plant(filepath.Join(a.p.MapsDir(), "_front_bind_crt.list"))
		}
		a.inst.lastErr = nil
		after, rerr := a.rec.VerifReconcile(context.Background(), full)
		if unplant != nil {
			unplant()
		}
		if rerr != nil {
			fail("loop-reconcile-error", fmt.Sprintf("event %d: Reconcile returned an error: %v", i, rerr))
		}
		err := a.inst.lastErr != nil
		requeue := after > 0
		if requeue {
			// controller-runtime: Forget(req); AddAfter(req, RequeueAfter)
			delay.add(full)
			res.Requeues++
		}
		res.Attempts++
		attempted = true
		// the twin runs the same reconciliation, without fault
		if _, terr := t.rec.VerifReconcile(context.Background(), full); terr != nil || t.inst.lastErr != nil {
			panic(fmt.Sprintf("twin failed: %v %v", terr, t.inst.lastErr))
		}
		sameS := "None"
		if err {
			res.Failed++
			if !requeue {
				fail("loop-failure-not-requeued", fmt.Sprintf("event %d: HAProxyUpdate failed (%v) and Reconcile asked for no retry", i, a.inst.lastErr))
			}
		} else {
			ok := same()
			sameS = "(Some " + hx.Bool(ok) + ")"
			if !ok {
				fail("loop-lost-change", fmt.Sprintf("event %d: attempt rparam{fullsync:%v} succeeded but the files do not mean what those of the controller that ran the same reconciliations without fault mean", i, full))
			}
		}
		record(fmt.Sprintf("AAttempt %s %s %s", hx.Bool(full), hx.Bool(err), hx.Bool(requeue)), sameS)
	}
	for i, ev := range in.Script {
		switch ev.Kind {
		case "deliver":
			if next >= len(batches) {
				continue
			}
			a.p.Deliver(batches[next])
			t.p.Deliver(batches[next])
			next++
			_ = t.p.Watchers.Notifications()
			for _, full := range a.p.Watchers.Notifications() {
				// hdlr.notify: q.AddRateLimited(rparam{fullsync: h.full})
				delay.add(full)
				record("AChange "+hx.Bool(full), "None")
			}
		case "leader":
			delay.add(true)
			record("ALeader", "None")
		case "tick":
			if !delay.mem(ev.Full) {
				continue
			}
			delay.del(ev.Full)
			ready.add(ev.Full)
			record("ATick "+hx.Bool(ev.Full), "None")
		case "attempt":
			if !ready.mem(ev.Full) {
				continue
			}
			attempt(i, ev.Full, ev.Fault)
		case "reload":
			// the reload queue fires (rate limiter / retry timer elapsed)
			if !a.reloadPending() {
				continue
			}
			a.fireReload()
			if t.reloadPending() {
				t.fireReload()
			}
			record("AReload", "None")
		}
	}
	// the remaining changes are delivered and the queue is drained without fault
	for next < len(batches) {
		a.p.Deliver(batches[next])
		t.p.Deliver(batches[next])
		next++
		_ = t.p.Watchers.Notifications()
		for _, full := range a.p.Watchers.Notifications() {
			delay.add(full)
			record("AChange "+hx.Bool(full), "None")
		}
	}
	for round := 0; round < 10 && (ready.p || ready.f || delay.p || delay.f); round++ {
		for _, full := range []bool{false, true} {
			if delay.mem(full) {
				delay.del(full)
				ready.add(full)
				record("ATick "+hx.Bool(full), "None")
			}
		}
		for _, full := range []bool{true, false} {
			if ready.mem(full) {
				attempt(len(in.Script)+round, full, "")
			}
		}
	}
	for k := 0; k < 3 && a.reloadPending(); k++ {
		a.fireReload()
		record("AReload", "None")
	}
	for k := 0; k < 3 && t.reloadPending(); k++ {
		t.fireReload()
	}
	if ready.p || ready.f || delay.p || delay.f {
		fail("loop-never-drains", "requests are still pending after 10 fault-free rounds")
	}
	// safety on the real code: nothing pending => converged to the fault-free twin
	if attempted && !same() {
		fail("loop-lost-change", "nothing is pending any more and the files do not mean what those of the fault-free controller mean")
	}
	return res
}

func loopCase(id int, r loopResult) string {
	var evs []string
	for _, o := range r.Obs {
		evs = append(evs, fmt.Sprintf("(%s, {| ob_rp := %s; ob_rf := %s; ob_dp := %s; ob_df := %s; ob_same := %s |})",
			o.Ev, hx.Bool(o.RP), hx.Bool(o.RF), hx.Bool(o.DP), hx.Bool(o.DF), o.Same))
	}
	return fmt.Sprintf("CLoop {| lc_id := %s; lc_evs := %s |}", hx.N(id), hx.List(evs))
}
