package main

import (
	"verif/harness/lib/cfgsm"
	"verif/harness/lib/hx"
)

type caseWriter struct{ cw *hx.CaseWriter }

func newCaseWriter(o *hx.Opts, res *hx.Result) *caseWriter {
	return &caseWriter{cw: hx.NewCaseWriter(o, res, "From HI Require Import Corr.Corr_C12.", "c12case", 30)}
}

func (c *caseWriter) add(h History, r runResult) {
	c.cw.Add(func(id int) string {
		var steps []string
		for i, ob := range r.Obs {
			runeq := ob.RunningNR == ob.Disk.CanonNoResp()
			steps = append(steps, cfgsm.CoqStep(h.Steps[i].Restart, ob.Ops, h.Steps[i].Faults, h.Steps[i].QueueFaults, h.Steps[i].DeferReload,
				cfgsm.CoqObs(ob.Disk, ob.Err != "", ob.ReloadAsked, runeq, ob.LastFailed)))
		}
		return "CInst (" + cfgsm.CoqCase(id, h.Shards, h.Inline, steps) + ")"
	}, h)
}

func (c *caseWriter) addLoop(in LoopInput, r loopResult) {
	c.cw.Add(func(id int) string { return loopCase(id, r) }, in)
}

func (c *caseWriter) flush() { c.cw.Flush() }
