package main

// The real tracker (pkg/converters/tracker) driven through its public API on random link
// graphs over a small pool of references: TrackNames / TrackRefs, QueryLinks with and
// without removal, ClearLinks. Every QueryLinks answer is recorded and compared in Coq
// with Model/Tracker.v (the function the reachability theorem is about); the oracle here
// re-computes reachability independently (breadth first over the links tracked so far).

import (
	"fmt"
	"math/rand"
	"sort"
	"strings"

	"github.com/jcmoraisjr/haproxy-ingress/pkg/converters/tracker"
	convtypes "github.com/jcmoraisjr/haproxy-ingress/pkg/converters/types"

	"verif/harness/lib/hx"
)

var trackerKinds = []convtypes.ResourceType{
	convtypes.ResourceIngress, convtypes.ResourceIngressClass, convtypes.ResourceConfigMap, convtypes.ResourceService,
	convtypes.ResourceEndpoints, convtypes.ResourceSecret, convtypes.ResourcePod, convtypes.ResourceHAHostname, convtypes.ResourceHABackend,
}

var trackerKindName = map[convtypes.ResourceType]string{
	convtypes.ResourceIngress: "KIngress", convtypes.ResourceIngressClass: "KClass", convtypes.ResourceConfigMap: "KConfigMap",
	convtypes.ResourceService: "KService", convtypes.ResourceEndpoints: "KEndpoints", convtypes.ResourceSecret: "KSecret",
	convtypes.ResourcePod: "KPod", convtypes.ResourceHAHostname: "KHost", convtypes.ResourceHABackend: "KBackend",
}

type tnode = convtypes.TrackingRef

func tnodeCoq(n tnode) string { return hx.Tuple(trackerKindName[n.Context], hx.Str(n.UniqueName)) }

func genTNode(rng *rand.Rand) tnode {
	k := trackerKinds[rng.Intn(len(trackerKinds))]
	return tnode{Context: k, UniqueName: fmt.Sprintf("n%d", rng.Intn(4))}
}

type trackerOp struct {
	Op     string   `json:"op"`
	A      string   `json:"a,omitempty"`
	B      string   `json:"b,omitempty"`
	Input  []string `json:"input,omitempty"`
	Remove bool     `json:"remove,omitempty"`
	Out    []string `json:"out,omitempty"`
}

// trackerCase runs one random sequence on a fresh real tracker. It returns the Coq term of
// the ops, their JSON form, and an oracle failure text ("" when fine).
func trackerCase(rng *rand.Rand) (string, []trackerOp, string) {
	t := tracker.NewTracker()
	links := map[tnode]map[tnode]bool{}
	link := func(a, b tnode) {
		if links[a] == nil {
			links[a] = map[tnode]bool{}
		}
		links[a][b] = true
	}
	var ops []string
	var js []trackerOp
	fail := ""
	n := 3 + rng.Intn(25)
	for i := 0; i < n; i++ {
		switch r := rng.Intn(10); {
		case r < 6:
			a, b := genTNode(rng), genTNode(rng)
			if rng.Intn(2) == 0 {
				t.TrackNames(a.Context, a.UniqueName, b.Context, b.UniqueName)
			} else {
				t.TrackRefs(a, b)
			}
			link(a, b)
			link(b, a)
			ops = append(ops, fmt.Sprintf("TTrack %s %s", tnodeCoq(a), tnodeCoq(b)))
			js = append(js, trackerOp{Op: "track", A: fmt.Sprint(a), B: fmt.Sprint(b)})
		case r < 9:
			var input []tnode
			in := convtypes.TrackingLinks{}
			for j, m := 0, 1+rng.Intn(3); j < m; j++ {
				x := genTNode(rng)
				input = append(input, x)
				in[x.Context] = append(in[x.Context], x.UniqueName)
			}
			remove := rng.Intn(2) == 0
			out := t.QueryLinks(in, remove)
			var flat []tnode
			for ctx, names := range out {
				for _, nm := range names {
					flat = append(flat, tnode{Context: ctx, UniqueName: nm})
				}
				if !sort.StringsAreSorted(names) && fail == "" {
					fail = "QueryLinks output not sorted: " + strings.Join(names, ",")
				}
			}
			sort.Slice(flat, func(i, j int) bool { return fmt.Sprint(flat[i]) < fmt.Sprint(flat[j]) })
			// independent reachability (at least one link)
			reach := map[tnode]bool{}
			var queue []tnode
			for _, x := range input {
				for y := range links[x] {
					if !reach[y] {
						reach[y] = true
						queue = append(queue, y)
					}
				}
			}
			for len(queue) > 0 {
				x := queue[0]
				queue = queue[1:]
				for y := range links[x] {
					if !reach[y] {
						reach[y] = true
						queue = append(queue, y)
					}
				}
			}
			got := map[tnode]bool{}
			for _, x := range flat {
				got[x] = true
			}
			if fail == "" && (len(got) != len(reach) || len(got) != len(flat)) {
				fail = fmt.Sprintf("QueryLinks(%v) returned %v, the references linked to the input are %d", input, flat, len(reach))
			}
			for x := range reach {
				if fail == "" && !got[x] {
					fail = fmt.Sprintf("QueryLinks(%v) misses %v which is linked to the input", input, x)
				}
			}
			if remove {
				for x := range reach {
					for y := range links[x] {
						delete(links[y], x)
					}
					delete(links, x)
				}
			}
			var ci, co []string
			var ji, jo []string
			for _, x := range input {
				ci = append(ci, tnodeCoq(x))
				ji = append(ji, fmt.Sprint(x))
			}
			for _, x := range flat {
				co = append(co, tnodeCoq(x))
				jo = append(jo, fmt.Sprint(x))
			}
			ops = append(ops, fmt.Sprintf("TQuery %s %s %s", hx.List(ci), hx.Bool(remove), hx.List(co)))
			js = append(js, trackerOp{Op: "query", Input: ji, Remove: remove, Out: jo})
		default:
			t.ClearLinks()
			links = map[tnode]map[tnode]bool{}
			ops = append(ops, "TClear")
			js = append(js, trackerOp{Op: "clear"})
		}
	}
	return hx.List(ops), js, fail
}
