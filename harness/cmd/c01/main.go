// c01: oracle and correspondence for C01 (partial resync == full sync).
//
// Oracle (no model): histories over all watched kinds run through the real pipeline; after
// every batch the behaviour (lib/sem) of the files written is compared with the behaviour
// of a fresh pipeline fed the current cluster. A divergence is shrunk (delta debugging) and
// classified into a cause key.
//
// Correspondence: histories restricted to the feature subset of coq/Model/Conv.v; after every
// reconciliation the hosts of the real haproxy model (paths, servers reached, certificate)
// are recorded next to the real batch (ChangedObjects) and the cluster, and coqc checks
// that Model/Conv.v computes the same.
package main

import (
	"encoding/json"
	"fmt"
	"os"
	"path/filepath"
	"sort"
	"strconv"
	"strings"

	api "k8s.io/api/core/v1"
	networking "k8s.io/api/networking/v1"
	"k8s.io/apimachinery/pkg/util/intstr"
	"sigs.k8s.io/controller-runtime/pkg/client"
	gatewayv1 "sigs.k8s.io/gateway-api/apis/v1"

	ingconv "github.com/jcmoraisjr/haproxy-ingress/pkg/converters/ingress"
	convtypes "github.com/jcmoraisjr/haproxy-ingress/pkg/converters/types"
	convutils "github.com/jcmoraisjr/haproxy-ingress/pkg/converters/utils"
	hatypes "github.com/jcmoraisjr/haproxy-ingress/pkg/haproxy/types"

	"verif/harness/lib/cfgnorm"
	"verif/harness/lib/hx"
	"verif/harness/lib/pipeline"
	"verif/harness/lib/sem"
	"verif/harness/lib/world"
)

var workdir string

func popts(dir string, wide bool) pipeline.Options {
	o := pipeline.Options{Dir: dir, WatchWithoutClass: true}
	if wide {
		o.DefaultService = "ns1/svc1"
	}
	return o
}

var universe = sem.DefaultUniverse(append(append([]string{}, world.Hosts...), world.GatewayHosts[:2]...), world.Paths)

func behaviour(p *pipeline.Pipeline) (*sem.Behaviour, error) {
	nf, err := cfgnorm.Load(p.Dir(), p.Prefix())
	if err != nil {
		return nil, err
	}
	return sem.Of(nf, universe), nil
}

// diverges runs a history and compares, after the last batch (and after every batch when
// every is set), with a fresh pipeline. It returns the index of the first diverging batch.
// lastConvLog holds the converter's warnings of the last batch applied by diverges.
var lastConvLog []string

func diverges(h [][]pipeline.Change, every bool, tag string) (int, []string, error) {
	dir := filepath.Join(workdir, "o"+tag)
	os.RemoveAll(dir)
	po := popts(dir+"/p", true)
	po.HasGatewayV1 = world.HasGatewayObjects(h)
	p, err := pipeline.NewE(po)
	if err != nil {
		return -1, nil, err
	}
	defer p.Close()
	for i, b := range h {
		if err := p.Apply(b); err != nil {
			return -1, nil, fmt.Errorf("apply: %v", err)
		}
		lastConvLog = p.ConvLog.Take()
		if !every && i < len(h)-1 {
			continue
		}
		b1, err := behaviour(p)
		if err != nil {
			return -1, nil, err
		}
		q, err := p.Fresh(dir + "/q")
		if err != nil {
			return -1, nil, err
		}
		b2, err := behaviour(q)
		q.Close()
		os.RemoveAll(dir + "/q")
		if err != nil {
			return -1, nil, err
		}
		if !sem.Equal(b1, b2) {
			return i, sem.Diff(b1, b2, 6), nil
		}
	}
	return -1, nil, nil
}

// stable tells whether a divergence is reproducible (the real code has map-iteration
// dependent corners, which belong to C06; C01 only reports what reproduces 3 times).
func reproducible(h [][]pipeline.Change, tag string) bool {
	for k := 0; k < 3; k++ {
		i, _, err := diverges(h, false, tag)
		if err != nil || i < 0 {
			return false
		}
	}
	return true
}

func describe(h [][]pipeline.Change) []string {
	var out []string
	for i, b := range h {
		var parts []string
		for _, c := range b {
			parts = append(parts, fmt.Sprintf("%s %s", c.Op, world.Key(c.Obj)))
		}
		out = append(out, fmt.Sprintf("batch %d: %s", i, strings.Join(parts, "; ")))
	}
	return out
}

// classify names the cause of a (minimal) diverging history. Known causes get a specific
// key; anything else is keyed by the shape of the history so that it is never mistaken
// for a known finding.
// untrackedTerminatingPodCause: with drain-support a terminating pod selected by a service
// is rendered as a weight-0 server, but only pods that GetTerminatingPods already returned
// are tracked: a pod that was never an endpoint and starts terminating (or is first seen
// terminating) has no link, so its event rebuilds nothing. Narrow and causal: the last batch
// has an event of a terminating pod, every difference is a weight-0 server with the address
// of such a pod on one side only, and the divergence vanishes when those pods are delivered
// not terminating.
func untrackedTerminatingPodCause(h [][]pipeline.Change, diff []string) bool {
	if len(h) < 2 || len(diff) == 0 {
		return false
	}
	ips := map[string]bool{}
	for _, c := range h[len(h)-1] {
		if pod, ok := c.Obj.(*api.Pod); ok && c.Op != pipeline.Delete && pod.DeletionTimestamp != nil && pod.Status.PodIP != "" {
			ips[pod.Status.PodIP] = true
		}
	}
	if len(ips) == 0 {
		return false
	}
	for _, d := range diff {
		if !strings.HasPrefix(d, "backend ") && !strings.HasPrefix(d, "route ") {
			return false
		}
		i := strings.Index(d, ": ")
		sides := strings.SplitN(d[i+2:], "  VS  ", 2)
		if i < 0 || len(sides) != 2 {
			return false
		}
		var a, b map[string]interface{}
		if json.Unmarshal([]byte(sides[0]), &a) != nil || json.Unmarshal([]byte(sides[1]), &b) != nil {
			return false
		}
		count := map[string]int{}
		for _, x := range []struct {
			m map[string]interface{}
			d int
		}{{a, 1}, {b, -1}} {
			if l, ok := x.m["servers"].([]interface{}); ok {
				for _, sv := range l {
					count[fmt.Sprint(sv)] += x.d
				}
			}
			delete(x.m, "servers")
		}
		ra, _ := json.Marshal(a)
		rb, _ := json.Marshal(b)
		if string(ra) != string(rb) {
			return false
		}
		for sv, n := range count {
			if n == 0 {
				continue
			}
			ip := sv
			if k := strings.Index(sv, ":"); k > 0 {
				ip = sv[:k]
			}
			if !ips[ip] || !strings.Contains(sv, " w0 ") {
				return false
			}
		}
	}
	stripped := append([][]pipeline.Change{}, h[:len(h)-1]...)
	var last []pipeline.Change
	for _, c := range h[len(h)-1] {
		if pod, ok := c.Obj.(*api.Pod); ok && c.Op != pipeline.Delete && pod.DeletionTimestamp != nil {
			cp := pod.DeepCopy()
			cp.DeletionTimestamp = nil
			cp.Finalizers = nil
			last = append(last, pipeline.Change{Op: c.Op, Obj: cp})
		} else {
			last = append(last, c)
		}
	}
	stripped = append(stripped, last)
	i, _, err := diverges(stripped, false, "k")
	return err == nil && i < 0
}

func classify(h [][]pipeline.Change, diff []string) string {
	// cause: an ingress with spec.defaultBackend that is added / updated / becomes valid while
	// the default host is not dirty: trackAddedIngress does not pre-track the default host, so
	// the root path of the default host is not (re)assigned (skipped as already defined, or
	// written into a host nobody rebuilds). Recognised causally: only requests answered through
	// the default host differ, and the divergence vanishes when the spec.defaultBackend
	// fields are taken out of the history.
	onlyDefaultHost := len(diff) > 0
	for _, d := range diff {
		isRoute := strings.HasPrefix(d, "route ")
		isBack := strings.HasPrefix(d, "backend ")
		if !isRoute && !isBack {
			onlyDefaultHost = false
			break
		}
		if isRoute && (strings.Contains(d, "\"req.backend\"") || strings.Contains(d, "\"req.hostbackend\"")) {
			onlyDefaultHost = false // a declared host answered
			break
		}
	}
	if onlyDefaultHost {
		has := false
		var stripped [][]pipeline.Change
		for _, b := range h {
			var nb []pipeline.Change
			for _, c := range b {
				if ing, ok := c.Obj.(*networking.Ingress); ok && ing.Spec.DefaultBackend != nil {
					has = true
					cp := ing.DeepCopy()
					cp.Spec.DefaultBackend = nil
					nb = append(nb, pipeline.Change{Op: c.Op, Obj: cp})
				} else {
					nb = append(nb, c)
				}
			}
			stripped = append(stripped, nb)
		}
		if has {
			if i, _, err := diverges(stripped, false, "k"); err == nil && i < 0 {
				return "C01/ingress-default-backend-not-pretracked"
			}
		}
	}
	if unskippedPathCause(h, diff) {
		return "C01/unskipped-path-acquires-untracked-backend"
	}
	if untrackedTerminatingPodCause(h, diff) {
		return "C01/untracked-pod-starts-terminating"
	}
	var shape []string
	for _, b := range h {
		var parts []string
		for _, c := range b {
			parts = append(parts, c.Op.String()+" "+world.KindOf(c.Obj))
		}
		shape = append(shape, strings.Join(parts, ","))
	}
	kind := "other"
	if len(diff) > 0 {
		kind = strings.SplitN(diff[0], " ", 2)[0]
	}
	return "C01/unclassified[" + kind + "]:" + strings.Join(shape, "|")
}

// ---- cause: a redeclared path that becomes effective acquires an untracked backend ----

type pathKey struct{ host, path, ptype string }

// pathOwners returns, for the cluster, the ingress (ns/name) that owns every declared path
// (the first in sortIngress order) and the declarations of every ingress.
func pathOwners(objs []client.Object) (map[pathKey]string, map[string][]pathKey, map[string]*networking.Ingress) {
	var ings []*networking.Ingress
	for _, o := range objs {
		if ing, ok := o.(*networking.Ingress); ok {
			ings = append(ings, ing)
		}
	}
	ingconv.VerifSortIngress(ings)
	owner := map[pathKey]string{}
	decl := map[string][]pathKey{}
	byName := map[string]*networking.Ingress{}
	for _, ing := range ings {
		name := ing.Namespace + "/" + ing.Name
		byName[name] = ing
		for _, r := range ing.Spec.Rules {
			if r.HTTP == nil {
				continue
			}
			for _, p := range r.HTTP.Paths {
				pt := ""
				if p.PathType != nil {
					pt = string(*p.PathType)
				}
				path := p.Path
				if path == "" {
					path = "/"
				}
				k := pathKey{r.Host, path, pt}
				decl[name] = append(decl[name], k)
				if _, taken := owner[k]; !taken {
					owner[k] = name
				}
			}
		}
	}
	return owner, decl, byName
}

// backendIDOf resolves the backend id (ns_service_targetPort) of a path of an ingress.
func backendIDOf(objs []client.Object, ing *networking.Ingress, k pathKey) string {
	for _, r := range ing.Spec.Rules {
		if r.HTTP == nil || r.Host != k.host {
			continue
		}
		for _, p := range r.HTTP.Paths {
			path := p.Path
			if path == "" {
				path = "/"
			}
			pt := ""
			if p.PathType != nil {
				pt = string(*p.PathType)
			}
			if path != k.path || pt != k.ptype || p.Backend.Service == nil {
				continue
			}
			port := p.Backend.Service.Port.Name
			if port == "" {
				port = strconv.Itoa(int(p.Backend.Service.Port.Number))
			}
			for _, o := range objs {
				if svc, ok := o.(*api.Service); ok && svc.Namespace == ing.Namespace && svc.Name == p.Backend.Service.Name {
					if sp := convutils.FindServicePort(svc, port); sp != nil {
						return svc.Namespace + "_" + svc.Name + "_" + sp.TargetPort.String()
					}
				}
			}
		}
	}
	return ""
}

// unskippedPathCause recognises, from the objects alone and then causally, the finding
// C01/unskipped-path-acquires-untracked-backend: only backends differ; each of them is the
// backend of a path of an unchanged ingress that another ingress owned before the last batch
// (redeclared path, skipped) and that is effective after it; the divergence vanishes when
// the annotations that ingress (and the services of those backends) contributes are taken
// out of the history, or when the formerly skipped path is.
func unskippedPathCause(h [][]pipeline.Change, diff []string) bool {
	if len(h) < 2 || len(diff) == 0 {
		return false
	}
	differing := map[string]bool{}
	for _, d := range diff {
		if !strings.HasPrefix(d, "backend ") {
			return false
		}
		id := strings.TrimPrefix(d, "backend ")
		if i := strings.Index(id, ":"); i > 0 {
			id = id[:i]
		}
		differing[id] = true
	}
	before := world.Final(h[:len(h)-1])
	after := world.Final(h)
	ownB, declB, ingB := pathOwners(before)
	ownA, _, ingA := pathOwners(after)
	usedBefore := map[string]bool{}
	for k, name := range ownB {
		usedBefore[backendIDOf(before, ingB[name], k)] = true
	}
	usedBefore["ns1_svc1_8080"] = true // the backend of --default-backend-service (wide options)
	type unsk struct {
		name string
		key  pathKey
		id   string
	}
	var found []unsk
	for name, keys := range declB {
		a, still := ingA[name]
		if !still {
			continue
		}
		bj, _ := json.Marshal(ingB[name])
		aj, _ := json.Marshal(a)
		if string(bj) != string(aj) {
			continue // changed in the batch: trackAddedIngress pre-tracks it
		}
		for _, k := range keys {
			if ownB[k] != name && ownA[k] == name {
				if id := backendIDOf(after, a, k); id != "" && usedBefore[id] {
					found = append(found, unsk{name, k, id})
				}
			}
		}
	}
	if len(found) == 0 {
		return false
	}
	for id := range differing {
		ok := false
		for _, u := range found {
			if u.id == id {
				ok = true
			}
		}
		if !ok {
			return false
		}
	}
	// causal check 1: strip the annotations of the newly effective ingresses and of the
	// services of the differing backends
	strip := func(dropPath bool) [][]pipeline.Change {
		var out [][]pipeline.Change
		for _, b := range h {
			var nb []pipeline.Change
			for _, c := range b {
				switch x := c.Obj.(type) {
				case *networking.Ingress:
					cp := x.DeepCopy()
					for _, u := range found {
						if u.name != x.Namespace+"/"+x.Name {
							continue
						}
						if !dropPath {
							cp.Annotations = nil
							continue
						}
						for ri := range cp.Spec.Rules {
							r := &cp.Spec.Rules[ri]
							if r.HTTP == nil || r.Host != u.key.host {
								continue
							}
							var keep []networking.HTTPIngressPath
							for _, p := range r.HTTP.Paths {
								path := p.Path
								if path == "" {
									path = "/"
								}
								pt := ""
								if p.PathType != nil {
									pt = string(*p.PathType)
								}
								if path == u.key.path && pt == u.key.ptype {
									continue
								}
								keep = append(keep, p)
							}
							r.HTTP.Paths = keep
						}
					}
					nb = append(nb, pipeline.Change{Op: c.Op, Obj: cp})
				case *api.Service:
					cp := x.DeepCopy()
					if !dropPath {
						for id := range differing {
							if strings.HasPrefix(id, x.Namespace+"_"+x.Name+"_") {
								cp.Annotations = nil
							}
						}
					}
					nb = append(nb, pipeline.Change{Op: c.Op, Obj: cp})
				default:
					nb = append(nb, c)
				}
			}
			out = append(out, nb)
		}
		return out
	}
	if i, _, err := diverges(strip(false), false, "u"); err == nil && i < 0 {
		return true
	}
	if i, _, err := diverges(strip(true), false, "u"); err == nil && i < 0 {
		return true
	}
	return false
}

// ---- orchestration (Model/ConvOrch.v): Gateway API objects next to the ingresses ----
var gwHostPool = []string{"g1.gw.example", "g2.gw.example"}

func coqHostrec(host *hatypes.Host, defHash string) string {
	var paths []string
	for _, hp := range host.Paths {
		paths = append(paths, fmt.Sprintf("{| hp_path := %s; hp_type := %s; hp_back := %s |}", hx.Str(hp.Path()), coqMatch(hp.Match()), hx.Str(hp.Backend.ID)))
	}
	tls := "None"
	if host.TLS.TLSHash != "" {
		hash := host.TLS.TLSHash
		if hash == defHash {
			hash = "DEFAULT"
		}
		tls = "(Some " + hx.Str(hash) + ")"
	}
	return fmt.Sprintf("{| h_paths := %s; h_tls := %s |}", hx.List(paths), tls)
}

// coqGout prints what the gateway converter builds for the current cluster, read from a
// fresh controller (q), and the references it tracks, read from the gateway objects.
func coqGout(p, q *pipeline.Pipeline) string {
	hosts := q.Config().Hosts().Items()
	backs := q.Config().Backends().Items()
	var gh, gb, refs []string
	seenB := map[string]bool{}
	for _, h := range gwHostPool {
		host, found := hosts[h]
		if !found {
			continue
		}
		gh = append(gh, hx.Tuple(hx.Str(h), coqHostrec(host, q.FakeCrt.SHA1Hash)))
		for _, hp := range host.Paths {
			if b := backs[hp.Backend.ID]; b != nil && !seenB[b.ID] {
				seenB[b.ID] = true
				var srv []string
				for _, ep := range b.Endpoints {
					if ep.IsEmpty() || !ep.Enabled {
						continue
					}
					srv = append(srv, hx.Tuple(hx.Str(ep.IP), hx.Z(int64(ep.Port))))
				}
				gb = append(gb, hx.Tuple(hx.Str(b.ID), "{| b_servers := "+hx.List(srv)+" |}"))
			}
		}
	}
	seenR := map[string]bool{}
	addRef := func(kind, name string) {
		k := hx.Tuple(kind, hx.Str(name))
		if !seenR[k] {
			seenR[k] = true
			refs = append(refs, k)
		}
	}
	objs := p.Objects()
	sort.Slice(objs, func(i, j int) bool { return p.Key(objs[i]) < p.Key(objs[j]) })
	for _, o := range objs {
		switch x := o.(type) {
		case *gatewayv1.HTTPRoute:
			for _, r := range x.Spec.Rules {
				for _, br := range r.BackendRefs {
					addRef("KService", x.Namespace+"/"+string(br.Name))
					addRef("KEndpoints", x.Namespace+"/"+string(br.Name))
				}
			}
		case *gatewayv1.Gateway:
			for _, l := range x.Spec.Listeners {
				if l.TLS != nil {
					for _, c := range l.TLS.CertificateRefs {
						addRef("KSecret", x.Namespace+"/"+string(c.Name))
					}
				}
			}
		}
	}
	return fmt.Sprintf("{| og_hosts := %s; og_backs := %s; og_refs := %s |}", hx.List(gh), hx.List(gb), hx.List(refs))
}

// runOrch runs one history with gateway objects on the real pipeline and records, after
// every reconciliation, the cluster, G's output for it, the batch and the hosts of both owners.
func runOrch(h [][]pipeline.Change, res *hx.Result, cw *hx.CaseWriter, sample bool) {
	dir := filepath.Join(workdir, "g")
	os.RemoveAll(dir)
	po := popts(dir+"/p", false)
	po.HasGatewayV1 = true
	p, err := pipeline.NewE(po)
	if err != nil {
		panic(err)
	}
	defer p.Close()
	var steps []string
	var jsteps []interface{}
	fulls, partials := 0, 0
	savedObs := obsHosts
	obsHosts = append(append([]string{}, obsHosts...), gwHostPool...)
	defer func() { obsHosts = savedObs }()
	for bi, b := range h {
		if err := p.Apply(b); err != nil {
			res.Count("corrorch_skipped_apply_error")
			return
		}
		if len(p.Last.Runs) == 0 || !inModel(p, false) {
			res.Count("corrorch_skipped_outside_model")
			return
		}
		q, err := p.Fresh(dir + "/q")
		if err != nil {
			res.Count("corrorch_skipped_fresh_error")
			return
		}
		g := coqGout(p, q)
		q.Close()
		os.RemoveAll(dir + "/q")
		obs, jobs := coqObs(p)
		w := fmt.Sprintf("{| ow_base := %s; ow_g := %s |}", coqWorld(p, false), g)
		// one batch may wake the controller twice (a full sync item and a plain one): every
		// reconciliation is a step, the hosts are observed after the last one
		for ri, run := range p.Last.Runs {
			o := "[]"
			if ri == len(p.Last.Runs)-1 {
				o = obs
			}
			if bi == 0 && ri == 0 {
				steps = append(steps, hx.Tuple("OFull "+w, o))
				continue
			}
			lenientLinks = true // links of gateway kinds name objects, never the tracker node (Gateway, "gw")
			bt, okb := coqBatch(run.Changed, false)
			lenientLinks = false
			if !okb {
				res.Count("corrorch_skipped_link_kind")
				return
			}
			full := "false"
			if run.Changed.NeedFullSync {
				full = "true"
				fulls++
			} else {
				partials++
			}
			steps = append(steps, hx.Tuple(fmt.Sprintf("OStep %s {| ob_base := %s; ob_full := %s |}", w, bt, full), o))
		}
		run := p.Last.Runs[len(p.Last.Runs)-1]
		jsteps = append(jsteps, map[string]interface{}{"changes": describe([][]pipeline.Change{b})[0], "full_requested": run.Changed.NeedFullSync, "observed": jobs})
	}
	if len(steps) == 0 {
		return
	}
	res.Count(fmt.Sprintf("corrorch_steps=%d", len(steps)))
	res.Count(fmt.Sprintf("corrorch_full_requested=%d", min(fulls, 3)))
	canon, _ := json.Marshal(world.EncodeHistory(h))
	res.Seen("corrorch:"+string(canon), partials > 0)
	if sample {
		res.Sample(5, map[string]interface{}{"corrorch_history": describe(h), "steps": jsteps})
	}
	st := steps
	cw.Add(func(id int) string {
		return fmt.Sprintf("CO {| oid := %s; osteps := %s |}", hx.N(id), hx.List(st))
	}, map[string]interface{}{"history": world.EncodeHistory(h), "steps": jsteps})
}

type oracleInput struct {
	History [][]world.ChangeJSON `json:"history"`
	Wide    bool                 `json:"wide"`
}

// ---------------------------------------------------------------- correspondence

func coqPtype(p networking.HTTPIngressPath) string {
	if p.PathType != nil {
		switch *p.PathType {
		case networking.PathTypeExact:
			return "Exact"
		case networking.PathTypePrefix:
			return "Prefix"
		}
	}
	return "Begin"
}

func coqMatch(m hatypes.MatchType) string {
	switch m {
	case hatypes.MatchExact:
		return "Exact"
	case hatypes.MatchPrefix:
		return "Prefix"
	case hatypes.MatchRegex:
		return "Regex"
	}
	return "Begin"
}

func coqIngress(ing *networking.Ingress) string {
	var rules []string
	for _, r := range ing.Spec.Rules {
		if r.HTTP == nil {
			continue
		}
		var paths []string
		for _, p := range r.HTTP.Paths {
			if p.Backend.Service == nil {
				continue
			}
			port := p.Backend.Service.Port.Name
			if port == "" {
				port = strconv.Itoa(int(p.Backend.Service.Port.Number))
			}
			paths = append(paths, fmt.Sprintf("{| r_path := %s; r_type := %s; r_svc := %s; r_port := %s |}",
				hx.Str(p.Path), coqPtype(p), hx.Str(p.Backend.Service.Name), hx.Str(port)))
		}
		rules = append(rules, hx.Tuple(hx.Str(r.Host), hx.List(paths)))
	}
	var tls []string
	for _, t := range ing.Spec.TLS {
		var hs []string
		for _, h := range t.Hosts {
			hs = append(hs, hx.Str(h))
		}
		tls = append(tls, hx.Tuple(hx.List(hs), hx.Str(t.SecretName)))
	}
	class := "None"
	if ing.Spec.IngressClassName != nil {
		class = "(Some " + hx.Str(*ing.Spec.IngressClassName) + ")"
	}
	return fmt.Sprintf("{| i_ns := %s; i_name := %s; i_stamp := %s; i_class := %s; i_rules := %s; i_tls := %s |}",
		hx.Str(ing.Namespace), hx.Str(ing.Name), hx.Z(ing.CreationTimestamp.Unix()), class, hx.List(rules), hx.List(tls))
}

// coqDIngress prints an ingress of Model/ConvDB.v: the ingress of Conv.v and spec.defaultBackend.
func coqDIngress(ing *networking.Ingress) string {
	db := "None"
	if b := ing.Spec.DefaultBackend; b != nil && b.Service != nil {
		port := b.Service.Port.Name
		if port == "" {
			port = strconv.Itoa(int(b.Service.Port.Number))
		}
		db = "(Some " + hx.Tuple(hx.Str(b.Service.Name), hx.Str(port)) + ")"
	}
	return fmt.Sprintf("{| d_ing := %s; d_db := %s |}", coqIngress(ing), db)
}

// coqWorld prints the cluster as the model sees it (db: as a dworld of Model/ConvDB.v).
func coqWorld(p *pipeline.Pipeline, db bool) string {
	var ings, svcs, eps, secs []string
	objs := p.Objects()
	sort.Slice(objs, func(i, j int) bool { return p.Key(objs[i]) < p.Key(objs[j]) })
	for _, o := range objs {
		switch x := o.(type) {
		case *networking.Ingress:
			if p.IsValidIngress(x) {
				if db {
					ings = append(ings, coqDIngress(x))
				} else {
					ings = append(ings, coqIngress(x))
				}
			}
		case *api.Service:
			var ports []string
			for _, sp := range x.Spec.Ports {
				ports = append(ports, fmt.Sprintf("{| sp_name := %s; sp_port := %s; sp_target := %s |}",
					hx.Str(sp.Name), hx.Z(int64(sp.Port)), hx.Str(sp.TargetPort.String())))
			}
			svcs = append(svcs, fmt.Sprintf("{| s_ns := %s; s_name := %s; s_ports := %s |}", hx.Str(x.Namespace), hx.Str(x.Name), hx.List(ports)))
		case *api.Endpoints:
			var subs []string
			for _, ss := range x.Subsets {
				for _, pt := range ss.Ports {
					if pt.Protocol != api.ProtocolTCP {
						continue
					}
					var ips []string
					for _, a := range ss.Addresses {
						ips = append(ips, hx.Str(a.IP))
					}
					subs = append(subs, fmt.Sprintf("{| ss_name := %s; ss_port := %s; ss_ready := %s |}", hx.Str(pt.Name), hx.Z(int64(pt.Port)), hx.List(ips)))
				}
			}
			eps = append(eps, hx.Tuple(hx.Str(x.Namespace+"/"+x.Name), hx.List(subs)))
		case *api.Secret:
			// the content hash the real cache computes; no tracking (nil track list)
			if f, err := p.Cache.GetTLSSecretPath(x.Namespace, x.Name, nil); err == nil {
				secs = append(secs, hx.Tuple(hx.Str(x.Namespace+"/"+x.Name), hx.Str(f.SHA1Hash)))
			}
		}
	}
	if db {
		return fmt.Sprintf("{| dw_ings := %s; dw_svcs := %s; dw_eps := %s; dw_secrets := %s |}", hx.List(ings), hx.List(svcs), hx.List(eps), hx.List(secs))
	}
	return fmt.Sprintf("{| w_ings := %s; w_svcs := %s; w_eps := %s; w_secrets := %s |}", hx.List(ings), hx.List(svcs), hx.List(eps), hx.List(secs))
}

var kindName = map[convtypes.ResourceType]string{
	convtypes.ResourceIngress: "KIngress", convtypes.ResourceIngressClass: "KClass", convtypes.ResourceConfigMap: "KConfigMap",
	convtypes.ResourceService: "KService", convtypes.ResourceEndpoints: "KEndpoints", convtypes.ResourceSecret: "KSecret", convtypes.ResourcePod: "KPod",
}

// lenientLinks lets coqBatch drop the links of kinds the models do not have.
var lenientLinks bool

func coqBatch(ch *convtypes.ChangedObjects, db bool) (string, bool) {
	pi := coqIngress
	if db {
		pi = coqDIngress
	}
	var links []string
	var kinds []string
	for k := range ch.Links {
		kinds = append(kinds, string(k))
	}
	sort.Strings(kinds)
	for _, k := range kinds {
		kn, ok := kindName[convtypes.ResourceType(k)]
		if !ok {
			if lenientLinks {
				continue // gateway kinds: the batch asks for a full sync, which reads no link
			}
			return "", false
		}
		for _, n := range ch.Links[convtypes.ResourceType(k)] {
			links = append(links, hx.Tuple(kn, hx.Str(n)))
		}
	}
	var add, upd, del []string
	for _, i := range ch.IngressesAdd {
		add = append(add, pi(i))
	}
	for _, i := range ch.IngressesUpd {
		upd = append(upd, pi(i))
	}
	for _, i := range ch.IngressesDel {
		del = append(del, hx.Str(i.Namespace+"/"+i.Name))
	}
	if db {
		return fmt.Sprintf("{| db_links := %s; db_add := %s; db_upd := %s; db_del := %s |}", hx.List(links), hx.List(add), hx.List(upd), hx.List(del)), true
	}
	return fmt.Sprintf("{| b_links := %s; b_add := %s; b_upd := %s; b_del := %s |}", hx.List(links), hx.List(add), hx.List(upd), hx.List(del)), true
}

var obsHosts = []string{"a.example", "b.example", "sub.a.example", "*.wild.example", "<default>", "alias.example", "unknown.example"}

// coqObs prints what the real haproxy model holds for the observed hosts.
func coqObs(p *pipeline.Pipeline) (string, map[string]interface{}) {
	var out []string
	js := map[string]interface{}{}
	hosts := p.Config().Hosts().Items()
	backs := p.Config().Backends().Items()
	defHash := p.FakeCrt.SHA1Hash
	for _, h := range obsHosts {
		host, found := hosts[h]
		if !found {
			out = append(out, hx.Tuple(hx.Str(h), "None"))
			js[h] = nil
			continue
		}
		var paths []string
		var jp []string
		for _, hp := range host.Paths {
			var srv []string
			if b := backs[hp.Backend.ID]; b != nil {
				for _, ep := range b.Endpoints {
					if ep.IsEmpty() || !ep.Enabled {
						continue
					}
					srv = append(srv, hx.Tuple(hx.Str(ep.IP), hx.Z(int64(ep.Port))))
				}
			}
			paths = append(paths, hx.Tuple(hx.Str(hp.Path()), coqMatch(hp.Match()), hx.List(srv)))
			jp = append(jp, fmt.Sprintf("%s %s -> %s %v", hp.Path(), hp.Match(), hp.Backend.ID, srv))
		}
		tls := "None"
		if host.TLS.TLSHash != "" {
			hash := host.TLS.TLSHash
			if hash == defHash {
				hash = "DEFAULT"
			}
			tls = "(Some " + hx.Str(hash) + ")"
		}
		out = append(out, hx.Tuple(hx.Str(h), fmt.Sprintf("(Some (%s, %s))", hx.List(paths), tls)))
		js[h] = map[string]interface{}{"paths": jp, "tls": tls}
	}
	return hx.List(out), js
}

func modelConfig() world.Config {
	return world.Config{MaxIngresses: 6, TLS: true, PortClash: true, EqualStamps: true, PathTypes: true}
}

// inModel tells whether the real run stayed inside the feature subset of the model
// (db: Model/ConvDB.v, which has spec.defaultBackend).
func inModel(p *pipeline.Pipeline, db bool) bool {
	for _, o := range p.Objects() {
		if ing, ok := o.(*networking.Ingress); ok {
			if len(ing.Annotations) > 0 {
				return false
			}
			if b := ing.Spec.DefaultBackend; b != nil && (!db || b.Service == nil) {
				return false
			}
		}
	}
	return true
}

// ---- annotations (Model/ConvAnn.v): the keys of the stream and their scope ----
var annHostKeys = []string{"app-root"}
var annBackKeys = []string{"balance-algorithm", "hsts-max-age"}
var annSubset = [][]string{
	{"app-root", "/app", "/root"},
	{"balance-algorithm", "leastconn", "roundrobin"},
	{"hsts-max-age", "100", "200"},
}

func coqAmap(ann map[string]string, keys []string) (string, bool) {
	var out []string
	for _, k := range keys {
		if v, ok := ann[world.AnnPrefix+k]; ok {
			out = append(out, hx.Tuple(hx.Str(k), hx.Str(v)))
		}
	}
	return hx.List(out), len(out) > 0
}

func annInSubset(ann map[string]string) bool {
	for k := range ann {
		ok := false
		for _, a := range annSubset {
			if k == world.AnnPrefix+a[0] {
				ok = true
			}
		}
		if !ok {
			return false
		}
	}
	return true
}

// coqAWorld prints the cluster of Model/ConvAnn.v.
func coqAWorld(p *pipeline.Pipeline) string {
	var iann, sann []string
	objs := p.Objects()
	sort.Slice(objs, func(i, j int) bool { return p.Key(objs[i]) < p.Key(objs[j]) })
	for _, o := range objs {
		switch x := o.(type) {
		case *networking.Ingress:
			if p.IsValidIngress(x) && len(x.Annotations) > 0 {
				h, _ := coqAmap(x.Annotations, annHostKeys)
				b, _ := coqAmap(x.Annotations, annBackKeys)
				iann = append(iann, hx.Tuple(hx.Str(x.Namespace+"/"+x.Name), hx.Tuple(h, b)))
			}
		case *api.Service:
			if b, any := coqAmap(x.Annotations, annBackKeys); any {
				sann = append(sann, hx.Tuple(hx.Str(x.Namespace+"/"+x.Name), b))
			}
		}
	}
	return fmt.Sprintf("{| aw_base := %s; aw_iann := %s; aw_sann := %s |}", coqWorld(p, false), hx.List(iann), hx.List(sann))
}

// coqAObs prints the resolved values of the observed keys on the real hosts and backends.
func coqAObs(p *pipeline.Pipeline) (string, map[string]interface{}) {
	var out []string
	js := map[string]interface{}{}
	hosts := p.Config().Hosts().Items()
	backs := p.Config().Backends().Items()
	for _, h := range obsHosts {
		host, found := hosts[h]
		if !found {
			out = append(out, hx.Tuple(hx.Str(h), "None"))
			continue
		}
		hkv := hx.List([]string{hx.Tuple(hx.Str("app-root"), hx.Str(host.RootRedirect))})
		var paths []string
		var jp []string
		for _, hp := range host.Paths {
			var bkv, lkv []string
			if b := backs[hp.Backend.ID]; b != nil {
				bkv = append(bkv, hx.Tuple(hx.Str("balance-algorithm"), hx.Str(b.BalanceAlgorithm)))
				if bp := b.FindBackendPath(hp.Link); bp != nil {
					lkv = append(lkv, hx.Tuple(hx.Str("hsts-max-age"), hx.Str(strconv.Itoa(bp.HSTS.MaxAge))))
				}
			}
			paths = append(paths, hx.Tuple(hx.Str(hp.Path()), coqMatch(hp.Match()), hx.List(bkv), hx.List(lkv)))
			jp = append(jp, fmt.Sprintf("%s %s %v %v", hp.Path(), hp.Match(), bkv, lkv))
		}
		out = append(out, hx.Tuple(hx.Str(h), fmt.Sprintf("(Some (%s, %s))", hkv, hx.List(paths))))
		js[h] = map[string]interface{}{"app-root": host.RootRedirect, "paths": jp}
	}
	return hx.List(out), js
}

// inModelAnn: the feature subset of Model/ConvAnn.v.
func inModelAnn(p *pipeline.Pipeline) bool {
	for _, o := range p.Objects() {
		switch x := o.(type) {
		case *networking.Ingress:
			if x.Spec.DefaultBackend != nil || !annInSubset(x.Annotations) {
				return false
			}
		case *api.Service:
			if !annInSubset(x.Annotations) {
				return false
			}
		}
	}
	return true
}

// knownAnnHistory: the in-model history of the finding "a redeclared path that becomes
// effective acquires a backend that the partial sync did not remove": ing0 owns a.example /,
// ing1 redeclares it (service svc1, with backend annotations) and is skipped, ing2 uses svc1
// on b.example. ing0 is deleted.
func knownAnnHistory() [][]pipeline.Change {
	svc1, ep1 := world.Service("ns1", "svc1", world.SvcPort{Name: "http", Port: 80, TargetPort: intstr.FromInt(8080)}),
		world.Endpoints("ns1", "svc1", world.EpPort{Name: "http", Port: 8080, Ready: []string{"10.1.0.1"}})
	svc2, ep2 := world.Service("ns1", "svc2", world.SvcPort{Name: "http", Port: 80, TargetPort: intstr.FromInt(9090)}),
		world.Endpoints("ns1", "svc2", world.EpPort{Name: "http", Port: 9090, Ready: []string{"10.1.0.2"}})
	rule := func(host, svc string) world.IngRule {
		return world.IngRule{Host: host, Paths: []world.IngPath{{Path: "/", Type: "Prefix", Service: svc, PortNum: 80}}}
	}
	ing0 := world.Ingress("ns1", "ing0", 1, rule("a.example", "svc2"))
	ing1 := world.Ingress("ns1", "ing1", 5, rule("a.example", "svc1"))
	ing1.Annotations = map[string]string{world.AnnPrefix + "balance-algorithm": "leastconn", world.AnnPrefix + "hsts-max-age": "100"}
	ing2 := world.Ingress("ns1", "ing2", 9, rule("b.example", "svc1"))
	mk := func(op pipeline.Op, o ...client.Object) []pipeline.Change {
		var out []pipeline.Change
		for _, x := range o {
			out = append(out, pipeline.Change{Op: op, Obj: x})
		}
		return out
	}
	return [][]pipeline.Change{mk(pipeline.Create, svc1, ep1, svc2, ep2, ing0, ing1, ing2), mk(pipeline.Delete, ing0)}
}

// knownDefaultBackendHistory is the minimal in-model history of the known finding
// C01/ingress-default-backend-not-pretracked: ingress ing2 owns the root path of the
// default host through its spec.defaultBackend; ing1, which sorts before it, is created
// with a spec.defaultBackend of its own. A fresh controller gives the root path to ing1.
// builtinOracleHistories are fixed histories of the oracle stream (they run first on every
// check, after the corpus files): situations the random generator reaches too rarely in
// the quick tier.
func builtinOracleHistories() [][][]pipeline.Change {
	mk := func(o ...client.Object) []pipeline.Change {
		var out []pipeline.Change
		for _, x := range o {
			out = append(out, pipeline.Change{Op: pipeline.Create, Obj: x})
		}
		return out
	}
	svc := func(name, ip string) (client.Object, client.Object) {
		return world.Service("ns1", name, world.SvcPort{Name: "http", Port: 80, TargetPort: intstr.FromInt(8080)}),
			world.Endpoints("ns1", name, world.EpPort{Name: "http", Port: 8080, Ready: []string{ip}})
	}
	s1, e1 := svc("svc1", "10.1.0.1")
	s2, e2 := svc("svc2", "10.1.0.2")
	// the default host exists (host-less rule of ing1); later ing2 arrives with ONLY a
	// host-less rule towards a service nobody else uses: nothing but the default host changes
	ing1 := world.Ingress("ns1", "ing1", 10, world.IngRule{Host: "", Paths: []world.IngPath{{Path: "/", Type: "Prefix", Service: "svc1", PortNum: 80}}},
		world.IngRule{Host: "a.example", Paths: []world.IngPath{{Path: "/", Type: "Prefix", Service: "svc1", PortNum: 80}}})
	ing2 := world.Ingress("ns1", "ing2", 20, world.IngRule{Host: "", Paths: []world.IngPath{{Path: "/app", Type: "Prefix", Service: "svc2", PortNum: 80}}})
	h1 := [][]pipeline.Change{mk(s1, e1, s2, e2, ing1), mk(ing2)}
	// the same with an update: ing2 exists with a declared host and GAINS the host-less rule
	ing2a := world.Ingress("ns1", "ing2", 20, world.IngRule{Host: "b.example", Paths: []world.IngPath{{Path: "/", Type: "Prefix", Service: "svc2", PortNum: 80}}})
	ing2b := world.Ingress("ns1", "ing2", 20, world.IngRule{Host: "b.example", Paths: []world.IngPath{{Path: "/", Type: "Prefix", Service: "svc2", PortNum: 80}}},
		world.IngRule{Host: "", Paths: []world.IngPath{{Path: "/app", Type: "Prefix", Service: "svc2", PortNum: 80}}})
	h2 := [][]pipeline.Change{mk(s1, e1, s2, e2, ing1, ing2a), {{Op: pipeline.Update, Obj: ing2b}}}
	// drain-support: an address moves from ready to not ready (same address set), then back:
	// only the WEIGHT of one server changes, the rebuilt backend must not be taken for unchanged
	cm := &api.ConfigMap{}
	cm.Namespace, cm.Name = "ingress-controller", "haproxy-ingress"
	cm.Data = map[string]string{"drain-support": "true"}
	e1two := world.Endpoints("ns1", "svc1", world.EpPort{Name: "http", Port: 8080, Ready: []string{"10.1.0.1", "10.1.0.3"}})
	e1flip := world.Endpoints("ns1", "svc1", world.EpPort{Name: "http", Port: 8080, Ready: []string{"10.1.0.1"}, NotReady: []string{"10.1.0.3"}})
	inga := world.Ingress("ns1", "ing1", 10, world.IngRule{Host: "a.example", Paths: []world.IngPath{{Path: "/", Type: "Prefix", Service: "svc1", PortNum: 80}}})
	h3 := [][]pipeline.Change{mk(s1, e1two, cm, inga), {{Op: pipeline.Update, Obj: e1flip}}, {{Op: pipeline.Update, Obj: e1two}}}
	// two events for one ingress in ONE batch: ing2 is created for b.example -> svc2 with a per
	// path policy and, before the reconciliation, updated to also route b.example/admin to
	// svc1, a backend that already exists through ing1: the references of the NEWEST version
	// must be pre-tracked
	pol := map[string]string{world.AnnPrefix + "whitelist-source-range": "10.0.0.0/8"}
	ing2v1 := world.Ingress("ns1", "ing2", 20, world.IngRule{Host: "b.example", Paths: []world.IngPath{{Path: "/", Type: "Prefix", Service: "svc2", PortNum: 80}}})
	ing2v1.Annotations = pol
	ing2v2 := world.Ingress("ns1", "ing2", 20, world.IngRule{Host: "b.example", Paths: []world.IngPath{{Path: "/", Type: "Prefix", Service: "svc2", PortNum: 80},
		{Path: "/admin", Type: "Prefix", Service: "svc1", PortNum: 80}}})
	ing2v2.Annotations = pol
	h4 := [][]pipeline.Change{mk(s1, e1, s2, e2, inga), {{Op: pipeline.Create, Obj: ing2v1}, {Op: pipeline.Update, Obj: ing2v2}}}
	return [][][]pipeline.Change{h1, h2, h3, h4}
}

func knownDefaultBackendHistory() [][]pipeline.Change {
	svc1, ep1 := world.Service("ns1", "svc1", world.SvcPort{Name: "http", Port: 80, TargetPort: intstr.FromInt(8080)}),
		world.Endpoints("ns1", "svc1", world.EpPort{Name: "http", Port: 8080, Ready: []string{"10.1.0.1"}})
	svc2, ep2 := world.Service("ns1", "svc2", world.SvcPort{Name: "http", Port: 80, TargetPort: intstr.FromInt(9090)}),
		world.Endpoints("ns1", "svc2", world.EpPort{Name: "http", Port: 9090, Ready: []string{"10.1.0.2"}})
	a := world.Ingress("ns1", "ing2", 20)
	ba := world.Backend("svc1", "", 80)
	a.Spec.DefaultBackend = &ba
	b := world.Ingress("ns1", "ing1", 10)
	bb := world.Backend("svc2", "", 80)
	b.Spec.DefaultBackend = &bb
	mk := func(o ...client.Object) []pipeline.Change {
		var out []pipeline.Change
		for _, x := range o {
			out = append(out, pipeline.Change{Op: pipeline.Create, Obj: x})
		}
		return out
	}
	return [][]pipeline.Change{mk(svc1, ep1, svc2, ep2, a), mk(b)}
}

func main() {
	o := hx.Parse()
	workdir = filepath.Join(o.Out, "scratch")
	os.MkdirAll(workdir, 0o755)
	defer os.RemoveAll(workdir)
	rng := o.Rng()
	res := hx.NewResult("C01", "oracle: generated histories (initial cluster + 1..5 batches of 1..3 changes over Ingress/IngressClass/Service/Endpoints/Secret/ConfigMap/Pod, with second events for one object inside a batch) through the real watchers+converter+instance, behaviour of the written files vs a fresh pipeline; correspondence: histories in the model's feature subset, every reconciliation compared with coq/Model/Conv.v; non-trivial = at least one partial reconciliation that changed a host or backend; distinct by history text")
	cw := hx.NewCaseWriter(o, res, "From HI Require Import Corr.Corr_C01.", "acase", 15)

	var histories [][][]pipeline.Change
	var isCorpus []bool
	if o.Replay != "" {
		var in oracleInput
		hx.ReadReplay(o.Replay, &in)
		histories = append(histories, world.DecodeHistory(in.History))
		isCorpus = append(isCorpus, true)
	} else {
		files, _ := filepath.Glob("/verif/corpus/C01/*.json")
		sort.Strings(files)
		for _, f := range files {
			var in oracleInput
			hx.ReadReplay(f, &in)
			histories = append(histories, world.DecodeHistory(in.History))
			isCorpus = append(isCorpus, true)
		}
	}
	if o.Replay == "" {
		for _, h := range builtinOracleHistories() {
			histories = append(histories, h)
			isCorpus = append(isCorpus, true)
		}
	}
	nOracle := o.Count(70, 4000)
	nCorr := o.Count(40, 1500)
	if o.Search {
		nOracle, nCorr = o.Count(600, 8000), 0
	}
	if o.Replay != "" {
		nOracle, nCorr = 0, 0
	}
	for i := 0; i < nOracle; i++ {
		cfg := world.Full()
		if i%4 == 1 {
			cfg.Annotations = false
		}
		// Gateway API objects sharing services and secrets with the ingresses
		cfg.Gateway = i%4 == 2
		// TCP services: ingresses sharing a tcp-service-port with port-level settings
		cfg.TCP = i%4 == 3
		histories = append(histories, world.GenHistory(rng, cfg, 1+rng.Intn(5), 3))
		isCorpus = append(isCorpus, false)
	}

	// ---- oracle ----
	seenKeys := map[string]bool{}
	for hi, h := range histories {
		canon, _ := json.Marshal(world.EncodeHistory(h))
		nChanges := 0
		for _, b := range h[min(1, len(h)):] {
			nChanges += len(b)
		}
		res.Seen(string(canon), len(h) > 1 && nChanges > 0)
		res.Count(fmt.Sprintf("oracle_batches=%d", len(h)))
		for _, b := range h[min(1, len(h)):] {
			for _, c := range b {
				res.Count("oracle_change_" + c.Op.String() + "_" + world.KindOf(c.Obj))
			}
		}
		res.OracleChecks++
		if hi < 2 {
			res.Sample(3, map[string]interface{}{"oracle_history": describe(h)})
		}
		idx, diff, err := diverges(h, true, "")
		if err != nil {
			res.Count("oracle_harness_error")
			res.Fail(hx.Failure{Key: "C01/update-error", What: "the update of the history failed: " + err.Error(), Input: oracleInput{History: world.EncodeHistory(h), Wide: true}})
			continue
		}
		if idx < 0 {
			continue
		}
		h = h[:idx+1]
		if !reproducible(h, "") {
			res.Count("oracle_nondeterministic_divergence")
			continue
		}
		m := world.Shrink(h, func(x [][]pipeline.Change) bool {
			i, _, err := diverges(x, false, "s")
			return err == nil && i >= 0 && reproducible(x, "s")
		}, 300)
		_, mdiff, _ := diverges(m, false, "")
		if len(mdiff) == 0 {
			mdiff = diff
		}
		key := classify(m, mdiff)
		res.Count("oracle_fail")
		if !seenKeys[key] || isCorpus[hi] {
			seenKeys[key] = true
			res.Fail(hx.Failure{Key: key, What: "configuration after the history differs from the one of a fresh controller: " + strings.Join(describe(m), " / "),
				Input: oracleInput{History: world.EncodeHistory(m), Wide: true}, Observed: mdiff})
		}
	}

	// ---- correspondence ----
	// stream 1: the feature subset of Model/Conv.v; stream 2: with spec.defaultBackend,
	// against Model/ConvDB.v, the in-model history of the known finding first
	runCorr := func(h [][]pipeline.Change, db bool, sample bool, annArg ...bool) {
		ann := len(annArg) > 0 && annArg[0]
		tag := "corr"
		if db {
			tag = "corrdb"
		}
		if ann {
			tag = "corrann"
		}
		dir := filepath.Join(workdir, "c")
		os.RemoveAll(dir)
		p, err := pipeline.NewE(popts(dir, false))
		if err != nil {
			panic(err)
		}
		var steps []string
		var jsteps []interface{}
		ok := true
		partials := 0
		for bi, b := range h {
			if err := p.Apply(b); err != nil {
				ok = false
				break
			}
			if len(p.Last.Runs) != 1 || (!ann && !inModel(p, db)) || (ann && !inModelAnn(p)) {
				ok = false
				break
			}
			run := p.Last.Runs[0]
			obs, jobs := coqObs(p)
			w := coqWorld(p, db)
			if ann {
				w = coqAWorld(p)
				aobs, ajobs := coqAObs(p)
				obs = obs + ", " + aobs
				jobs["annotations"] = ajobs
			}
			if bi == 0 {
				if ann {
					steps = append(steps, "(AFull "+w+", "+obs+")")
				} else if db {
					steps = append(steps, hx.Tuple("DFull "+w, obs))
				} else {
					steps = append(steps, hx.Tuple("SFull "+w, obs))
				}
			} else {
				if run.Changed.NeedFullSync {
					ok = false
					break
				}
				bt, okb := coqBatch(run.Changed, db)
				if !okb {
					ok = false
					break
				}
				if ann {
					steps = append(steps, "(APartial "+w+" "+bt+", "+obs+")")
				} else if db {
					steps = append(steps, hx.Tuple("DPartial "+w+" "+bt, obs))
				} else {
					steps = append(steps, hx.Tuple("SPartial "+w+" "+bt, obs))
				}
				partials++
			}
			jsteps = append(jsteps, map[string]interface{}{"changes": describe([][]pipeline.Change{b})[0], "objects": run.Changed.Objects, "observed": jobs})
		}
		p.Close()
		if !ok || len(steps) == 0 {
			res.Count(tag + "_skipped_outside_model")
			return
		}
		res.Count(fmt.Sprintf("%s_steps=%d", tag, len(steps)))
		if db {
			ndb := 0
			for _, o := range world.Final(h) {
				if ing, isIng := o.(*networking.Ingress); isIng && ing.Spec.DefaultBackend != nil {
					ndb++
				}
			}
			res.Count(fmt.Sprintf("corrdb_final_default_backends=%d", min(ndb, 3)))
		}
		canon, _ := json.Marshal(world.EncodeHistory(h))
		res.Seen(tag+":"+string(canon), partials > 0)
		if sample {
			res.Sample(5, map[string]interface{}{tag + "_history": describe(h), "steps": jsteps})
		}
		st := steps
		cw.Add(func(id int) string {
			if ann {
				return fmt.Sprintf("CA {| xid := %s; xsteps := %s |}", hx.N(id), hx.List(st))
			}
			if db {
				return fmt.Sprintf("CD {| did := %s; dsteps := %s |}", hx.N(id), hx.List(st))
			}
			return fmt.Sprintf("CH {| cid := %s; csteps := %s |}", hx.N(id), hx.List(st))
		}, map[string]interface{}{"history": world.EncodeHistory(h), "steps": jsteps})
	}
	for i := 0; i < nCorr; i++ {
		runCorr(world.GenHistory(rng, modelConfig(), 1+rng.Intn(5), 3), false, i < 2)
	}
	if nCorr > 0 {
		// the model must reproduce the divergence of the real code on the known finding:
		// the real incremental state differs from a fresh controller (checked here on the
		// real pipeline), and the case file makes coqc check that ConvDB computes the very
		// hosts the real incremental run holds
		kh := knownDefaultBackendHistory()
		if idx, _, err := diverges(kh, false, "kdb"); err == nil && idx >= 0 {
			res.Count("corrdb_known_finding_diverges_on_real_code")
		} else {
			res.Count("corrdb_known_finding_does_not_diverge")
		}
		runCorr(kh, true, true)
		nDB := o.Count(16, 1000)
		for i := 0; i < nDB; i++ {
			cfg := modelConfig()
			cfg.DefaultBackend = true
			runCorr(world.GenHistory(rng, cfg, 1+rng.Intn(5), 3), true, i < 1)
		}
		// stream 3: annotations (three keys: host-scoped app-root, backend-scoped
		// balance-algorithm, per-path hsts-max-age) against Model/ConvAnn.v; first the
		// in-model history of the finding, which must diverge on the real code
		ka := knownAnnHistory()
		if idx, _, err := diverges(ka, false, "kann"); err == nil && idx >= 0 {
			res.Count("corrann_known_finding_diverges_on_real_code")
		} else {
			res.Count("corrann_known_finding_does_not_diverge")
		}
		runCorr(ka, false, true, true)
		saved := world.AnnWhitelist
		world.AnnWhitelist = annSubset
		nAnn := o.Count(16, 1000)
		for i := 0; i < nAnn; i++ {
			cfg := modelConfig()
			cfg.Annotations = true
			runCorr(world.GenHistory(rng, cfg, 1+rng.Intn(5), 3), false, i < 1, true)
		}
		world.AnnWhitelist = saved
		// stream 4: Gateway API objects sharing Services and Secrets with the ingresses,
		// against Model/ConvOrch.v (gateway hostnames disjoint from the ingress ones)
		savedGH := world.GatewayHosts
		world.GatewayHosts = gwHostPool
		nOrch := o.Count(10, 600)
		for i := 0; i < nOrch; i++ {
			cfg := modelConfig()
			cfg.Gateway = true
			runOrch(world.GenHistory(rng, cfg, 1+rng.Intn(4), 3), res, cw, i < 1)
		}
		world.GatewayHosts = savedGH
	}
	// ---- the tracker alone ----
	if o.Replay == "" {
		nt := o.Count(400, 20000)
		for i := 0; i < nt; i++ {
			term, js, fail := trackerCase(rng)
			res.Seen(fmt.Sprintf("tracker:%v", js), len(js) > 5)
			res.Count("tracker_cases")
			res.OracleChecks++
			if fail != "" {
				res.Count("oracle_fail_tracker")
				res.Fail(hx.Failure{Key: "C01/tracker-query-links", What: fail, Input: js})
			}
			if !o.Search {
				t := term
				cw.Add(func(id int) string { return fmt.Sprintf("CT {| tid := %s; tops := %s |}", hx.N(id), t) }, js)
			}
		}
	}
	cw.Flush()
	res.Write(o)
}
