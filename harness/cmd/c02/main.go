// c02: correspondence and oracle for C02 (running HAProxy never diverges from the files
// after runtime updates; anything else reloads).
package main

import (
	"verif/harness/lib/dyndrv"
	"verif/harness/lib/hx"
)

func main() {
	dyndrv.Main("C02", true, false, dyndrv.CorpusC02(), func(o *hx.Opts) dyndrv.Profile {
		p := dyndrv.Profile{Faults: 25, NonEndpoint: 25, Dups: 8, Special: 30, Hosts: true, MaxSteps: 5}
		if o.Search {
			p.Wide = true
			p.MaxSteps = 9
			p.Dups = 15
		}
		return p
	}, 220, 4000, "From HI Require Import Corr.Corr_C02.")
}
