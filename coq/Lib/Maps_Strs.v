(* Byte strings as lists of ascii, with the few operations the map model needs:
   ASCII lower-casing, prefix test, byte-wise order (Go's < on strings), and the
   lemmas about them. Used by Model/HAMatch.v and Model/Maps.v (property C04). *)
From Coq Require Import Ascii String.
From Coq Require Import List Bool Arith NArith Lia.
Import ListNotations.

Definition str := list ascii.
Definition s2l (s : string) : str := list_ascii_of_string s.

(* ---------- lower-casing (ASCII, what HAProxy's `lower` converter does per byte and
   what Go's strings.ToLower does on ASCII input) *)
Definition lower_ascii (c : ascii) : ascii :=
  let n := N_of_ascii c in
  if (N.leb 65 n && N.leb n 90)%bool then ascii_of_N (n + 32) else c.
Definition lower (s : str) : str := map lower_ascii s.

(* ---------- equality, prefix, order *)
Fixpoint str_eqb (a b : str) : bool :=
  match a, b with
  | [], [] => true
  | x :: a', y :: b' => Ascii.eqb x y && str_eqb a' b'
  | _, _ => false
  end.

Fixpoint is_prefix (p s : str) : bool :=
  match p, s with
  | [], _ => true
  | x :: p', y :: s' => Ascii.eqb x y && is_prefix p' s'
  | _ :: _, [] => false
  end.

(* Go: a < b on strings (byte-wise lexicographic) *)
Fixpoint str_ltb (a b : str) : bool :=
  match a, b with
  | [], [] => false
  | [], _ :: _ => true
  | _ :: _, [] => false
  | x :: a', y :: b' =>
      let nx := N_of_ascii x in let ny := N_of_ascii y in
      if N.ltb nx ny then true else if N.ltb ny nx then false else str_ltb a' b'
  end.

Definition nonempty (s : str) : bool := match s with [] => false | _ => true end.

(* ---------- lemmas *)
Lemma str_eqb_eq : forall a b, str_eqb a b = true <-> a = b.
Proof.
  induction a as [|x a IH]; destruct b as [|y b]; cbn; split; intro H; try congruence; auto.
  - apply andb_true_iff in H as [H1 H2]. apply Ascii.eqb_eq in H1. apply IH in H2. congruence.
  - inversion H; subst. rewrite Ascii.eqb_refl. cbn. apply IH. reflexivity.
Qed.

Lemma str_eqb_refl : forall a, str_eqb a a = true.
Proof. intro a. apply str_eqb_eq. reflexivity. Qed.

Lemma str_eqb_neq : forall a b, str_eqb a b = false <-> a <> b.
Proof.
  intros a b. split; intro H.
  - intro E. apply str_eqb_eq in E. congruence.
  - destruct (str_eqb a b) eqn:E; auto. apply str_eqb_eq in E. contradiction.
Qed.

Lemma is_prefix_spec : forall p s, is_prefix p s = true <-> exists r, s = p ++ r.
Proof.
  induction p as [|x p IH]; intros s; cbn.
  - split; eauto.
  - destruct s as [|y s].
    + split; [discriminate|]. intros [r H]. discriminate.
    + rewrite andb_true_iff, Ascii.eqb_eq, IH. split.
      * intros [-> [r ->]]. eauto.
      * intros [r H]. inversion H; subst. eauto.
Qed.

Lemma is_prefix_app : forall p r, is_prefix p (p ++ r) = true.
Proof. intros. apply is_prefix_spec. eauto. Qed.

Lemma is_prefix_refl : forall p, is_prefix p p = true.
Proof. intro p. apply is_prefix_spec. exists []. now rewrite app_nil_r. Qed.

Lemma is_prefix_nil_r : forall p, is_prefix p [] = true -> p = [].
Proof. destruct p; cbn; congruence. Qed.

Lemma is_prefix_length : forall p s, is_prefix p s = true -> length p <= length s.
Proof. intros p s H. apply is_prefix_spec in H as [r ->]. rewrite app_length. lia. Qed.

Lemma is_prefix_trans : forall a b c, is_prefix a b = true -> is_prefix b c = true -> is_prefix a c = true.
Proof.
  intros a b c H1 H2. apply is_prefix_spec in H1 as [r1 ->]. apply is_prefix_spec in H2 as [r2 ->].
  rewrite <- app_assoc. apply is_prefix_app.
Qed.

(* two prefixes of one string are comparable *)
Lemma is_prefix_both : forall a b s, is_prefix a s = true -> is_prefix b s = true ->
  length a <= length b -> is_prefix a b = true.
Proof.
  induction a as [|x a IH]; intros b s Ha Hb L; cbn; auto.
  destruct b as [|y b]; cbn in L; [lia|].
  destruct s as [|z s]; cbn in *; [discriminate|].
  apply andb_true_iff in Ha as [Ha1 Ha2]. apply andb_true_iff in Hb as [Hb1 Hb2].
  apply Ascii.eqb_eq in Ha1, Hb1. subst. rewrite Ascii.eqb_refl. cbn. eapply IH; eauto. lia.
Qed.

Lemma is_prefix_same_length : forall a b, is_prefix a b = true -> length a = length b -> a = b.
Proof.
  intros a b H L. apply is_prefix_spec in H as [r ->]. rewrite app_length in L.
  destruct r; [now rewrite app_nil_r|]. cbn in L. lia.
Qed.

Lemma is_prefix_app_inv : forall a b s, is_prefix (a ++ b) s = true ->
  exists s', s = a ++ s' /\ is_prefix b s' = true.
Proof.
  intros a b s H. apply is_prefix_spec in H as [r ->]. exists (b ++ r). split.
  - now rewrite app_assoc.
  - apply is_prefix_app.
Qed.

Lemma is_prefix_app_same : forall a b s, is_prefix (a ++ b) (a ++ s) = is_prefix b s.
Proof. induction a as [|x a IH]; intros; cbn; auto. rewrite Ascii.eqb_refl. cbn. apply IH. Qed.

Lemma is_prefix_skipn : forall p s, is_prefix p s = true -> s = p ++ skipn (length p) s.
Proof.
  intros p s H. apply is_prefix_spec in H as [r ->].
  rewrite skipn_app, skipn_all, Nat.sub_diag. cbn. reflexivity.
Qed.

(* lower *)
Lemma lower_ascii_idem : forall c, lower_ascii (lower_ascii c) = lower_ascii c.
Proof. intros [[] [] [] [] [] [] [] []]; vm_compute; reflexivity. Qed.

Lemma lower_app : forall a b, lower (a ++ b) = lower a ++ lower b.
Proof. intros. apply map_app. Qed.

Lemma lower_length : forall a, length (lower a) = length a.
Proof. intros. apply map_length. Qed.

Lemma lower_idem : forall a, lower (lower a) = lower a.
Proof. intro a. unfold lower. rewrite map_map. apply map_ext. apply lower_ascii_idem. Qed.

Lemma lower_prefix : forall p s, is_prefix p s = true -> is_prefix (lower p) (lower s) = true.
Proof. intros p s H. apply is_prefix_spec in H as [r ->]. rewrite lower_app. apply is_prefix_app. Qed.

(* the three bytes the key format cares about are fixed by, and only come from,
   themselves under lower-casing *)
Definition c_hash : ascii := "#"%char.
Definition c_slash : ascii := "/"%char.
Definition c_quest : ascii := "?"%char.

Lemma lower_ascii_hash : forall c, lower_ascii c = c_hash <-> c = c_hash.
Proof. intros [[] [] [] [] [] [] [] []]; vm_compute; split; congruence. Qed.
Lemma lower_ascii_slash : forall c, lower_ascii c = c_slash <-> c = c_slash.
Proof. intros [[] [] [] [] [] [] [] []]; vm_compute; split; congruence. Qed.
Lemma lower_ascii_quest : forall c, lower_ascii c = c_quest <-> c = c_quest.
Proof. intros [[] [] [] [] [] [] [] []]; vm_compute; split; congruence. Qed.

(* order *)
Lemma str_ltb_irrefl : forall a, str_ltb a a = false.
Proof. induction a as [|x a IH]; cbn; auto. rewrite N.ltb_irrefl. exact IH. Qed.

Lemma str_ltb_trans : forall a b c, str_ltb a b = true -> str_ltb b c = true -> str_ltb a c = true.
Proof.
  induction a as [|x a IH]; intros [|y b] [|z c]; cbn; try congruence.
  destruct (N.ltb_spec (N_of_ascii x) (N_of_ascii y)), (N.ltb_spec (N_of_ascii y) (N_of_ascii z)),
    (N.ltb_spec (N_of_ascii y) (N_of_ascii x)), (N.ltb_spec (N_of_ascii z) (N_of_ascii y)),
    (N.ltb_spec (N_of_ascii x) (N_of_ascii z)), (N.ltb_spec (N_of_ascii z) (N_of_ascii x));
    try lia; try congruence; eauto.
Qed.

Lemma N_of_ascii_inj : forall x y, N_of_ascii x = N_of_ascii y -> x = y.
Proof. intros x y H. rewrite <- (ascii_N_embedding x), <- (ascii_N_embedding y). now f_equal. Qed.

Lemma str_ltb_total : forall a b, str_ltb a b = false -> str_ltb b a = false -> a = b.
Proof.
  induction a as [|x a IH]; intros [|y b]; cbn; try congruence.
  destruct (N.ltb_spec (N_of_ascii x) (N_of_ascii y)), (N.ltb_spec (N_of_ascii y) (N_of_ascii x));
    try congruence; try lia.
  intros H1 H2. f_equal; [apply N_of_ascii_inj; lia | auto].
Qed.

Lemma str_ltb_asym : forall a b, str_ltb a b = true -> str_ltb b a = false.
Proof.
  intros a b H. destruct (str_ltb b a) eqn:E; auto.
  pose proof (str_ltb_trans _ _ _ H E) as T. rewrite str_ltb_irrefl in T. discriminate.
Qed.

(* a proper extension is greater *)
Lemma str_ltb_prefix : forall p r, r <> [] -> str_ltb p (p ++ r) = true.
Proof.
  induction p as [|x p IH]; intros r Hr; cbn.
  - destruct r; congruence.
  - rewrite N.ltb_irrefl. auto.
Qed.
