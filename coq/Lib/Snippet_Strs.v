(* String helpers used by the C19 (Snippet) model and by its generated case files.
   `of_codes` decodes the byte lists that hx.Str prints for strings holding
   bytes outside printable ASCII. *)
From Coq Require Import String Ascii List NArith Bool.
Import ListNotations.

Fixpoint of_codes (l : list N) : string :=
  match l with
  | [] => EmptyString
  | n :: r => String (ascii_of_N n) (of_codes r)
  end.

Definition is_empty (s : string) : bool :=
  match s with EmptyString => true | _ => false end.

Fixpoint str_list_eqb (a b : list string) : bool :=
  match a, b with
  | [], [] => true
  | x :: a', y :: b' => String.eqb x y && str_list_eqb a' b'
  | _, _ => false
  end.

Lemma str_list_eqb_eq : forall a b, str_list_eqb a b = true <-> a = b.
Proof.
  induction a as [|x a IH]; destruct b as [|y b]; cbn; try (split; congruence).
  rewrite andb_true_iff, String.eqb_eq, IH. split.
  - intros [-> ->]; reflexivity.
  - intros H; inversion H; auto.
Qed.
