(* String helpers shared by Model/ClassSel.v and Model/XNs.v (properties C08, C09):
   Go's strings.Split on a one-byte separator, client-go's
   cache.SplitMetaNamespaceKey, and the byte-code string reader used by generated
   case files. Definitions and the few lemmas about them. *)
From Coq Require Import String Ascii List Bool NArith.
Import ListNotations.
Open Scope string_scope.

(* strings.Split(s, sep) for a one-byte sep: never returns an empty list *)
Fixpoint split_on (c : ascii) (s : string) : list string :=
  match s with
  | EmptyString => [EmptyString]
  | String a r =>
      if Ascii.eqb a c then EmptyString :: split_on c r
      else match split_on c r with
           | h :: t => String a h :: t
           | [] => [String a EmptyString]
           end
  end.

Fixpoint contains_char (c : ascii) (s : string) : bool :=
  match s with
  | EmptyString => false
  | String a r => Ascii.eqb a c || contains_char c r
  end.

Definition slash : ascii := "/"%char.

(* cache.SplitMetaNamespaceKey: one part -> ("", name); two -> (ns, name); else error *)
Definition split_key (k : string) : option (string * string) :=
  match split_on slash k with
  | [n] => Some (EmptyString, n)
  | [ns; n] => Some (ns, n)
  | _ => None
  end.

Definition of_codes (l : list N) : string :=
  fold_right (fun n s => String (ascii_of_N n) s) EmptyString l.

Lemma split_on_nonempty c s : split_on c s <> [].
Proof.
  destruct s as [|a r]; cbn [split_on]; [discriminate|].
  destruct (Ascii.eqb a c); [discriminate|]. destruct (split_on c r); discriminate.
Qed.

Lemma split_on_absent c s : contains_char c s = false -> split_on c s = [s].
Proof.
  induction s as [|a r IH]; cbn [split_on contains_char]; intros H; [reflexivity|].
  apply orb_false_iff in H as [H1 H2]. rewrite H1, (IH H2). reflexivity.
Qed.

Lemma split_key_absent k : contains_char slash k = false -> split_key k = Some (EmptyString, k).
Proof. intros H. unfold split_key. rewrite (split_on_absent _ _ H). reflexivity. Qed.

Lemma split_on_length c s :
  length (split_on c s) = S (length (filter (Ascii.eqb c) (list_ascii_of_string s))).
Proof.
  induction s as [|a r IH]; cbn [split_on list_ascii_of_string filter length]; [reflexivity|].
  rewrite (Ascii.eqb_sym c a).
  destruct (Ascii.eqb a c); cbn [length]; [rewrite IH; reflexivity|].
  destruct (split_on c r) eqn:E; [destruct (split_on_nonempty c r E)|].
  cbn [length] in *. exact IH.
Qed.
