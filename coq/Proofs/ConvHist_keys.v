(* Which Track calls a sync makes for the Services and Secrets an ingress reads.

   addBackendWithClass tracks Service-Host (and Endpoints-Host) for every path that is not
   skipped as redeclared; addTLS tracks Ingress-Secret for every tls host.  A path is not
   skipped when no path with the same (host, uri, match type) is in the host yet; the
   paths in a host come from the path declarations synced since the host was created
   ([covered]).  So when the declarations that are synced have pairwise distinct keys and
   none of them is in the state yet, every one of them gets its Service-Host link
   (fold_sync_svc_links).  [no_redecl w] says that all the path declarations of the
   cluster have distinct keys. *)
From Coq Require Import List Bool String ZArith Lia Relations Permutation.
From HI Require Import Model.Tracker Model.Conv Proofs.Tracker Proofs.IncSync Proofs.Conv
                       Proofs.ConvSort Proofs.ConvHist_base.
Import ListNotations.
Open Scope string_scope.

Definition key := (string * string * ptype)%type.
Definition uri_of (r : prule) : string := if String.eqb (r_path r) "" then "/" else r_path r.
Definition pkey (hn : string) (r : prule) : key := (hn, uri_of r, r_type r).
Definition rule_keys (rule : string * list prule) : list key :=
  flat_map (fun r => [pkey (norm_host (fst rule)) r]) (snd rule).
Definition ing_keys (i : ingress) : list key := flat_map rule_keys (i_rules i).
Definition world_keys (w : world) : list key := flat_map ing_keys (w_ings w).

(* no path (host, uri, match type) is declared twice in the cluster *)
Definition no_redecl (w : world) : Prop := NoDup (world_keys w).

Definition svc_link (i : ingress) (hn : string) (r : prule) : node * node :=
  ((KService, i_ns i ++ "/" ++ r_svc r), (KHost, hn)).
Definition sec_link (i : ingress) (sec : string) : node * node :=
  ((KIngress, i_full i), (KSecret, i_ns i ++ "/" ++ sec)).

Definition svc_links_ok (w : world) (T : ctracker) : Prop :=
  forall i rule r, In i (w_ings w) -> In rule (i_rules i) -> In r (snd rule) ->
    In (svc_link i (norm_host (fst rule)) r) T.
Definition sec_links_ok (w : world) (T : ctracker) : Prop :=
  forall i blk, In i (w_ings w) -> In blk (i_tls i) -> fst blk <> [] -> snd blk <> "" ->
    In (sec_link i (snd blk)) T.

(* ---------- lists ---------- *)
Lemma NoDup_app_inv {A} (l1 l2 : list A) :
  NoDup (l1 ++ l2) -> NoDup l1 /\ NoDup l2 /\ (forall x, In x l1 -> ~ In x l2).
Proof.
  induction l1 as [|a l1 IH]; cbn; intros H.
  - split; [constructor|]. split; [exact H|]. intros x [].
  - inversion H as [|? ? Hna Hnd]; subst. destruct (IH Hnd) as (H1 & H2 & H3).
    split; [constructor; [intros Hc; apply Hna; apply in_or_app; left; exact Hc|exact H1]|].
    split; [exact H2|]. intros x [<-|Hx]; [intros Hc; apply Hna; apply in_or_app; right; exact Hc|apply H3; exact Hx].
Qed.

Lemma NoDup_app_intro {A} (l1 l2 : list A) :
  NoDup l1 -> NoDup l2 -> (forall x, In x l1 -> ~ In x l2) -> NoDup (l1 ++ l2).
Proof.
  induction l1 as [|a l1 IH]; cbn; intros H1 H2 Hd; [exact H2|].
  inversion H1 as [|? ? Hna Hnd]; subst. constructor.
  - intros Hc. apply in_app_or in Hc as [Hc|Hc]; [contradiction|]. apply (Hd a); [left; reflexivity|exact Hc].
  - apply IH; [exact Hnd|exact H2|]. intros x Hx. apply Hd. right. exact Hx.
Qed.

Lemma nodup_flat_split {A B} (K : A -> list B) l1 a l2 :
  NoDup (flat_map K (l1 ++ a :: l2)) ->
  NoDup (K a) /\ (forall k, In k (K a) -> ~ In k (flat_map K l1)).
Proof.
  rewrite flat_map_app. cbn [flat_map]. intros H.
  destruct (NoDup_app_inv _ _ H) as (_ & H2 & H3).
  destruct (NoDup_app_inv _ _ H2) as (Hka & _ & _).
  split; [exact Hka|]. intros k Hk Hc. apply (H3 k Hc). apply in_or_app. left. exact Hk.
Qed.

Lemma NoDup_flat_map_filter {A B} (K : A -> list B) (p : A -> bool) l :
  NoDup (flat_map K l) -> NoDup (flat_map K (filter p l)).
Proof.
  induction l as [|a l IH]; cbn [flat_map filter]; intros H; [constructor|].
  destruct (NoDup_app_inv _ _ H) as (H1 & H2 & H3).
  destruct (p a); cbn [flat_map]; [|apply IH; exact H2].
  apply NoDup_app_intro; [exact H1|apply IH; exact H2|].
  intros x Hx Hc. apply (H3 x Hx). apply in_flat_map in Hc as (y & Hy & Hxy).
  apply filter_In in Hy as [Hy _]. apply in_flat_map. exists y. split; assumption.
Qed.

Lemma fold_pres {S A} (I : S -> Prop) (f : S -> A -> S) l :
  (forall x a, In a l -> I x -> I (f x a)) -> forall x, I x -> I (fold_left f l x).
Proof.
  induction l as [|a l IH]; intros Hf x Hx; cbn; [exact Hx|].
  apply IH; [intros; apply Hf; [right|]; assumption|]. apply Hf; [left; reflexivity|exact Hx].
Qed.

Lemma ptype_eqb_eq a c : ptype_eqb a c = true -> a = c.
Proof. destruct a, c; cbn; intros H; try reflexivity; discriminate. Qed.

(* ---------- covered: where the paths of the hosts come from ---------- *)
Definition covered (P : key -> Prop) (x : st) : Prop :=
  forall hn hr p, get_host (fst x) hn = Some hr -> In p (h_paths hr) -> P (hn, hp_path p, hp_type p).

Lemma covered_mono (P Q : key -> Prop) x : (forall k, P k -> Q k) -> covered P x -> covered Q x.
Proof. intros H Hc hn hr p Hg Hp. apply H. eapply Hc; eassumption. Qed.

Lemma covered_same_hosts P x y :
  (forall h, get_host (fst y) h = get_host (fst x) h) -> covered P x -> covered P y.
Proof. intros H Hc hn hr p Hg Hp. rewrite H in Hg. eapply Hc; eassumption. Qed.

Lemma get_host_upd_host s hn c h :
  get_host (upd s (THost hn) (CHost c)) h = if String.eqb h hn then Some c else get_host s h.
Proof. unfold get_host, upd. cbn [tgt_eqb]. destruct (String.eqb h hn); reflexivity. Qed.

Lemma get_host_upd_back s bk c h : get_host (upd s (TBack bk) c) h = get_host s h.
Proof. unfold get_host, upd. cbn [tgt_eqb]. reflexivity. Qed.

Lemma add_host_get i hn x h :
  get_host (fst (add_host i hn x)) h
  = match get_host (fst x) hn with
    | Some _ => get_host (fst x) h
    | None => if String.eqb h hn then Some empty_host else get_host (fst x) h
    end.
Proof.
  destruct x as [s T]. unfold add_host. cbn [fst].
  destruct (get_host s hn); cbn [fst]; [reflexivity|]. apply get_host_upd_host.
Qed.

Lemma add_host_covered P i hn x : covered P x -> covered P (add_host i hn x).
Proof.
  intros Hc h hr p Hg Hp. rewrite add_host_get in Hg.
  destruct (get_host (fst x) hn); [eapply Hc; eassumption|].
  destruct (String.eqb h hn); [|eapply Hc; eassumption].
  injection Hg as <-. cbn in Hp. contradiction.
Qed.

Lemma add_backend_get w i hn r x h :
  get_host (fst (fst (add_backend w i hn r x))) h = get_host (fst x) h.
Proof. unfold get_host. rewrite (proj2 (add_backend_spec w i hn r x) h). reflexivity. Qed.

Lemma add_backend_link w i hn r x : In (svc_link i hn r) (snd (fst (add_backend w i hn r x))).
Proof.
  destruct x as [s T]. unfold add_backend, svc_link.
  assert (H1 : In ((KService, i_ns i ++ "/" ++ r_svc r), (KHost, hn))
                  (track (track T (KService, i_ns i ++ "/" ++ r_svc r) (KHost, hn))
                         (KEndpoints, i_ns i ++ "/" ++ r_svc r) (KHost, hn)))
    by (right; right; left; reflexivity).
  destruct (find_svc w _) as [svc|]; [|exact H1].
  destruct (pick_port svc _) as [p|]; [|exact H1].
  cbn [fst snd]. right. right. exact H1.
Qed.

Lemma sync_path_covered P w i hn x r :
  covered P x -> covered (fun k => P k \/ In k [pkey hn r]) (sync_path w i hn x r).
Proof.
  intros Hc. assert (Hm : covered (fun k => P k \/ In k [pkey hn r]) x)
    by (eapply covered_mono; [|exact Hc]; intros; left; assumption).
  unfold sync_path. destruct (get_host (fst x) hn) as [hr|] eqn:E; [|exact Hm].
  destruct (has_path hr _ _); [exact Hm|].
  pose proof (add_backend_get w i hn r x) as Hg.
  destruct (add_backend w i hn r x) as [x1 ob]. cbn [fst] in Hg.
  assert (Hm1 : covered (fun k => P k \/ In k [pkey hn r]) x1)
    by (eapply covered_same_hosts; [exact Hg|exact Hm]).
  destruct ob as [bid|]; [|exact Hm1]. destruct x1 as [s1 T1]. cbn [fst] in Hg.
  destruct (get_host s1 hn) as [hr1|] eqn:E1; [|exact Hm1].
  intros h hr' p Hgh Hp. cbn [fst] in Hgh. rewrite get_host_upd_host in Hgh.
  destruct (String.eqb_spec h hn) as [->|Hne].
  - injection Hgh as <-. cbn [h_paths] in Hp. apply in_app_or in Hp as [Hp|[<-|[]]].
    + apply (Hm1 hn hr1 p); [exact E1|exact Hp].
    + right. left. reflexivity.
  - apply (Hm1 h hr' p); [exact Hgh|exact Hp].
Qed.

Lemma sync_path_link P w i hn x r :
  covered P x -> get_host (fst x) hn <> None -> (forall k, In k [pkey hn r] -> ~ P k) ->
  In (svc_link i hn r) (snd (sync_path w i hn x r)).
Proof.
  intros Hc Hpres Hfresh. unfold sync_path.
  destruct (get_host (fst x) hn) as [hr|] eqn:E; [|contradiction].
  destruct (has_path hr _ _) eqn:Ehp.
  - exfalso. unfold has_path in Ehp. apply existsb_exists in Ehp as (p & Hp & He).
    apply andb_true_iff in He as [He1 He2]. apply String.eqb_eq in He1. apply ptype_eqb_eq in He2.
    apply (Hfresh (pkey hn r) (or_introl eq_refl)).
    pose proof (Hc hn hr p E Hp) as Hk. unfold pkey, uri_of. rewrite <- He1, <- He2. exact Hk.
  - pose proof (add_backend_link w i hn r x) as Hl.
    destruct (add_backend w i hn r x) as [x1 ob]. cbn [fst] in Hl.
    destruct ob as [bid|]; [|exact Hl]. destruct x1 as [s1 T1].
    destruct (get_host s1 hn); exact Hl.
Qed.

Lemma sync_path_present w i hn x r h :
  get_host (fst x) h <> None -> get_host (fst (sync_path w i hn x r)) h <> None.
Proof.
  intros Hp. unfold sync_path. destruct (get_host (fst x) hn) as [hr|] eqn:E; [|exact Hp].
  destruct (has_path hr _ _); [exact Hp|].
  pose proof (add_backend_get w i hn r x) as Hg.
  destruct (add_backend w i hn r x) as [x1 ob]. cbn [fst] in Hg.
  destruct ob as [bid|]; [|rewrite Hg; exact Hp]. destruct x1 as [s1 T1]. cbn [fst] in Hg.
  destruct (get_host s1 hn) as [hr1|]; [|cbn [fst]; rewrite Hg; exact Hp].
  cbn [fst]. rewrite get_host_upd_host. destruct (String.eqb h hn); [discriminate|rewrite Hg; exact Hp].
Qed.

(* ---------- folds of keyed steps ---------- *)
Section Keyed.
  Context {A : Type}.
  Variables (f : st -> A -> st) (K : A -> list key) (Q : st -> Prop) (L : A -> node * node -> Prop).
  Hypothesis f_cov : forall P x a, covered P x -> covered (fun k => P k \/ In k (K a)) (f x a).
  Hypothesis f_grows : forall x a, sgrows x (f x a).
  Hypothesis f_Q : forall x a, Q x -> Q (f x a).
  Hypothesis f_links : forall P x a e, covered P x -> Q x -> NoDup (K a) ->
    (forall k, In k (K a) -> ~ P k) -> L a e -> In e (snd (f x a)).

  Lemma kfold_cov l : forall P x, covered P x ->
    covered (fun k => P k \/ In k (flat_map K l)) (fold_left f l x).
  Proof.
    induction l as [|a l IH]; intros P x Hc; cbn [fold_left flat_map].
    - eapply covered_mono; [|exact Hc]. intros; left; assumption.
    - eapply covered_mono; [|apply (IH _ _ (f_cov P x a Hc))].
      intros k [[Hk|Hk]|Hk]; [left; exact Hk|right; apply in_or_app; left; exact Hk|right; apply in_or_app; right; exact Hk].
  Qed.

  Lemma kfold_Q l : forall x, Q x -> Q (fold_left f l x).
  Proof. apply fold_pres. intros; apply f_Q; assumption. Qed.

  Lemma kfold_grows l x : sgrows x (fold_left f l x).
  Proof. apply (fold_rel sgrows f l sgrows_refl sgrows_trans). intros; apply f_grows. Qed.

  Lemma kfold_links l P x a e :
    covered P x -> Q x -> NoDup (flat_map K l) -> (forall k, In k (flat_map K l) -> ~ P k) ->
    In a l -> L a e -> In e (snd (fold_left f l x)).
  Proof.
    intros Hc HQ Hnd Hf Ha HL. apply in_split in Ha as (l1 & l2 & ->).
    rewrite fold_left_app. cbn [fold_left].
    apply (proj1 (kfold_grows l2 _)).
    destruct (nodup_flat_split K l1 a l2 Hnd) as [Hka Hdis].
    apply (f_links (fun k => P k \/ In k (flat_map K l1))); [apply kfold_cov; exact Hc|apply kfold_Q; exact HQ|exact Hka| |exact HL].
    intros k Hk [Hp|Hin]; [|exact (Hdis k Hk Hin)].
    apply (Hf k); [|exact Hp]. rewrite flat_map_app. apply in_or_app. right. cbn [flat_map].
    apply in_or_app. left. exact Hk.
  Qed.
End Keyed.

(* ---------- rule level ---------- *)
Lemma class_step_covered P (i : ingress) (x : st) :
  covered P x ->
  covered P (match i_class i with
             | Some c => (fst x, track (snd x) (KClass, c) (KIngress, i_full i))
             | None => x end).
Proof. intros Hc. destruct (i_class i); exact Hc. Qed.

Lemma sync_rule_covered P w i x rule :
  covered P x -> covered (fun k => P k \/ In k (rule_keys rule)) (sync_rule w i x rule).
Proof.
  intros Hc. unfold sync_rule, rule_keys.
  apply (kfold_cov (sync_path w i (norm_host (fst rule))) (fun r => [pkey (norm_host (fst rule)) r])).
  - intros P0 y r. apply sync_path_covered.
  - apply add_host_covered. apply class_step_covered. exact Hc.
Qed.

Lemma sync_rule_links P w i x rule r :
  covered P x -> NoDup (rule_keys rule) -> (forall k, In k (rule_keys rule) -> ~ P k) ->
  In r (snd rule) -> In (svc_link i (norm_host (fst rule)) r) (snd (sync_rule w i x rule)).
Proof.
  intros Hc Hnd Hf Hr. unfold sync_rule.
  apply (kfold_links (sync_path w i (norm_host (fst rule))) (fun r => [pkey (norm_host (fst rule)) r])
           (fun y => get_host (fst y) (norm_host (fst rule)) <> None)
           (fun r e => e = svc_link i (norm_host (fst rule)) r)) with (P := P) (a := r).
  - intros P0 y a. apply sync_path_covered.
  - intros y a. apply sync_path_sgrows.
  - intros y a. apply sync_path_present.
  - intros P0 y a e Hc0 Hq _ Hf0 ->. eapply sync_path_link; eassumption.
  - apply add_host_covered. apply class_step_covered. exact Hc.
  - apply add_host_present.
  - exact Hnd.
  - exact Hf.
  - exact Hr.
  - reflexivity.
Qed.

(* ---------- tls does not touch the paths ---------- *)
Lemma sync_tls_host_covered P w i sec x hn : covered P x -> covered P (sync_tls_host w i sec x hn).
Proof.
  intros Hc. pose proof (add_host_covered P i hn x Hc) as Hc1. unfold sync_tls_host.
  destruct (add_host i hn x) as [s1 T1]. destruct (tls_of w i sec T1) as [hash T2].
  destruct (get_host s1 hn) as [hr|] eqn:E; [|exact Hc1].
  destruct (h_tls hr); [exact Hc1|].
  intros h hr' p Hg Hp. cbn [fst] in Hg. rewrite get_host_upd_host in Hg.
  destruct (String.eqb_spec h hn) as [->|Hne].
  - injection Hg as <-. cbn [h_paths] in Hp. apply (Hc1 hn hr p); [exact E|exact Hp].
  - apply (Hc1 h hr' p); [exact Hg|exact Hp].
Qed.

Lemma sync_tls_covered P w i x blk : covered P x -> covered P (sync_tls w i x blk).
Proof. unfold sync_tls. apply fold_pres. intros; apply sync_tls_host_covered; assumption. Qed.

(* ---------- ingress level ---------- *)
Lemma sync_ingress_covered P w x i :
  covered P x -> covered (fun k => P k \/ In k (ing_keys i)) (sync_ingress w x i).
Proof.
  intros Hc. unfold sync_ingress, ing_keys.
  apply fold_pres; [intros; apply sync_tls_covered; assumption|].
  apply (kfold_cov (sync_rule w i) rule_keys); [|exact Hc].
  intros P0 y rule. apply sync_rule_covered.
Qed.

Lemma sync_ingress_links P w x i rule r :
  covered P x -> NoDup (ing_keys i) -> (forall k, In k (ing_keys i) -> ~ P k) ->
  In rule (i_rules i) -> In r (snd rule) ->
  In (svc_link i (norm_host (fst rule)) r) (snd (sync_ingress w x i)).
Proof.
  intros Hc Hnd Hf Hrule Hr. unfold sync_ingress.
  match goal with |- In _ (snd (fold_left ?g ?l ?x0)) =>
    assert (G2 : sgrows x0 (fold_left g l x0))
      by (apply (fold_rel sgrows g l sgrows_refl sgrows_trans); intros; apply sync_tls_sgrows)
  end.
  apply (proj1 G2).
  apply (kfold_links (sync_rule w i) rule_keys (fun _ => True)
           (fun rule e => exists r, In r (snd rule) /\ e = svc_link i (norm_host (fst rule)) r))
    with (P := P) (a := rule).
  - intros P0 y a. apply sync_rule_covered.
  - intros y a. apply sync_rule_sgrows.
  - intros; exact I.
  - intros P0 y a e Hc0 _ Hnd0 Hf0 (r0 & Hr0 & ->). eapply sync_rule_links; eassumption.
  - exact Hc.
  - exact I.
  - exact Hnd.
  - exact Hf.
  - exact Hrule.
  - exists r. split; [exact Hr|reflexivity].
Qed.

Theorem fold_sync_svc_links P w l x i rule r :
  covered P x -> NoDup (flat_map ing_keys l) -> (forall k, In k (flat_map ing_keys l) -> ~ P k) ->
  In i l -> In rule (i_rules i) -> In r (snd rule) ->
  In (svc_link i (norm_host (fst rule)) r) (snd (fold_left (sync_ingress w) l x)).
Proof.
  intros Hc Hnd Hf Hi Hrule Hr.
  apply (kfold_links (sync_ingress w) ing_keys (fun _ => True)
           (fun i e => exists rule r, In rule (i_rules i) /\ In r (snd rule) /\
                                      e = svc_link i (norm_host (fst rule)) r))
    with (P := P) (a := i).
  - intros P0 y a. apply sync_ingress_covered.
  - intros y a. apply sync_ingress_sgrows.
  - intros; exact I.
  - intros P0 y a e Hc0 _ Hnd0 Hf0 (rule0 & r0 & Hrule0 & Hr0 & ->). eapply sync_ingress_links; eassumption.
  - exact Hc.
  - exact I.
  - exact Hnd.
  - exact Hf.
  - exact Hi.
  - exists rule, r. repeat split; assumption.
Qed.

(* the keys of an ingress are on hosts it declares *)
Lemma ing_keys_host i k : In k (ing_keys i) -> In (fst (fst k)) (declared i).
Proof.
  unfold ing_keys, rule_keys. intros H. apply in_flat_map in H as (rule & Hrule & Hk).
  apply in_flat_map in Hk as (r & Hr & [<-|[]]). cbn [pkey fst].
  unfold declared. apply in_or_app. left. apply in_map_iff. exists rule. split; [reflexivity|exact Hrule].
Qed.

Lemma rule_host_declared i rule : In rule (i_rules i) -> In (norm_host (fst rule)) (declared i).
Proof.
  intros H. unfold declared. apply in_or_app. left. apply in_map_iff. exists rule. split; [reflexivity|exact H].
Qed.

Lemma tls_host_declared i blk h : In blk (i_tls i) -> In h (fst blk) -> In h (declared i).
Proof.
  intros Hb Hh. unfold declared. apply in_or_app. right. apply in_flat_map. exists blk. split; assumption.
Qed.

(* NoDup of the keys survives sorting and filtering *)
Lemma no_redecl_sorted_filter w (p : ingress -> bool) :
  no_redecl w -> NoDup (flat_map ing_keys (filter p (sort_ings (w_ings w)))).
Proof.
  intros H. apply NoDup_flat_map_filter.
  eapply Permutation_NoDup; [|exact H]. unfold world_keys.
  apply Permutation_flat_map. apply sort_ings_permutation.
Qed.

(* ---------- secrets ---------- *)
Lemma sync_tls_host_sec w i sec x hn : sec <> "" -> In (sec_link i sec) (snd (sync_tls_host w i sec x hn)).
Proof.
  intros Hne. rewrite sync_tls_host_snd. unfold tls_of, sec_link.
  destruct (String.eqb_spec sec ""); [contradiction|].
  destruct (assoc _ _); cbn [snd]; apply track_In.
Qed.

Lemma sync_tls_sec w i x blk : fst blk <> [] -> snd blk <> "" -> In (sec_link i (snd blk)) (snd (sync_tls w i x blk)).
Proof.
  intros Hh Hs. unfold sync_tls. destruct (fst blk) as [|hn r] eqn:E; [contradiction|].
  destruct (fold_rel_at sgrows (sync_tls_host w i (snd blk)) (hn :: r) hn sgrows_refl sgrows_trans
              (fun y a _ => sync_tls_host_sgrows w i (snd blk) y a) (or_introl eq_refl) x) as [y G].
  apply (proj1 G). apply sync_tls_host_sec. exact Hs.
Qed.

Lemma sync_ingress_sec w x i blk : In blk (i_tls i) -> fst blk <> [] -> snd blk <> "" ->
  In (sec_link i (snd blk)) (snd (sync_ingress w x i)).
Proof.
  intros Hb Hh Hs. unfold sync_ingress.
  match goal with |- In _ (snd (fold_left ?g ?l ?x0)) =>
    destruct (fold_rel_at sgrows g l blk sgrows_refl sgrows_trans
                (fun y a _ => sync_tls_sgrows w i y a) Hb x0) as [y G]
  end.
  apply (proj1 G). apply sync_tls_sec; assumption.
Qed.

Lemma fold_sync_sec w l x i blk : In i l -> In blk (i_tls i) -> fst blk <> [] -> snd blk <> "" ->
  In (sec_link i (snd blk)) (snd (fold_left (sync_ingress w) l x)).
Proof.
  intros Hi Hb Hh Hs.
  destruct (fold_rel_at sgrows (sync_ingress w) l i sgrows_refl sgrows_trans
              (fun y a _ => sync_ingress_sgrows w y a) Hi x) as [y G].
  apply (proj1 G). apply sync_ingress_sec; assumption.
Qed.

(* ---------- what an ingress reads of the world ---------- *)
Lemma resolve_same_svc w w' i r :
  find_svc w (i_ns i ++ "/" ++ r_svc r) = find_svc w' (i_ns i ++ "/" ++ r_svc r) ->
  resolve w i r = resolve w' i r.
Proof. intros H. unfold resolve. rewrite H. reflexivity. Qed.

Lemma tls_hash_same_sec w w' i sec :
  assoc (i_ns i ++ "/" ++ sec) (w_secrets w) = assoc (i_ns i ++ "/" ++ sec) (w_secrets w') ->
  tls_hash w i sec = tls_hash w' i sec.
Proof. intros H. unfold tls_hash, tls_of. rewrite H. reflexivity. Qed.

Lemma tls_hash_empty w w' i : tls_hash w i "" = tls_hash w' i "".
Proof. reflexivity. Qed.

Lemma opt_service_eq_dec (a c : option service) : {a = c} + {a <> c}.
Proof. decide equality. apply service_eq_dec. Defined.

Lemma opt_string_eq_dec (a c : option string) : {a = c} + {a <> c}.
Proof. decide equality. apply string_dec. Defined.
