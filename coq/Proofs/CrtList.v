(* Proofs for C15 (Model/CrtList.v): the certificate label of every host after a full sync
   is the one of the first tls declaration in (creation, ns/name) order; the crt-list
   lookup; the characterisation of `served`; the C15 theorems; rotation; histories; the
   runtime decision. *)
From Coq Require Import List Bool String Ascii ZArith Sorted Permutation Lia.
From HI Require Import Model.Tracker Model.Conv Model.CrtList
                       Proofs.IncSync Proofs.Conv Proofs.ConvSort Proofs.ConvHist.
From HI Require Proofs.ConvHist_multi.
Import ListNotations.
Open Scope string_scope.

(* ================================================================== *)
(* A. the tls label of a host through the sync                         *)
(* ================================================================== *)
Lemma htls_state_eq s1 s2 h : s1 (THost h) = s2 (THost h) -> htls s1 h = htls s2 h.
Proof. intros H. unfold htls, get_host. rewrite H. reflexivity. Qed.

Lemma add_host_htls i hn x h : htls (fst (add_host i hn x)) h = htls (fst x) h.
Proof.
  destruct (String.eqb_spec h hn) as [->|Hne].
  - destruct x as [s T]. unfold add_host. cbn [fst].
    destruct (get_host s hn) eqn:E; cbn [fst]; [reflexivity|].
    unfold htls. rewrite E. unfold get_host. rewrite upd_same. reflexivity.
  - apply htls_state_eq. apply add_host_other. exact Hne.
Qed.

Lemma sync_path_htls w i hn x r h : htls (fst (sync_path w i hn x r)) h = htls (fst x) h.
Proof.
  destruct (String.eqb_spec h hn) as [->|Hne];
    [|apply htls_state_eq; apply sync_path_other; exact Hne].
  unfold sync_path.
  destruct (get_host (fst x) hn) as [hr|] eqn:E; [|reflexivity].
  destruct (has_path hr _ _); [reflexivity|].
  pose proof (add_backend_spec w i hn r x) as [_ Hh].
  destruct (add_backend w i hn r x) as [x1 ob]. cbn [fst] in Hh.
  destruct ob as [bid|]; [|apply htls_state_eq; apply Hh].
  destruct x1 as [s1 T1]. cbn [fst] in Hh.
  assert (Hg : get_host s1 hn = Some hr) by (unfold get_host in *; rewrite Hh; exact E).
  rewrite Hg. cbn [fst]. unfold htls at 1. unfold get_host at 1. rewrite upd_same. cbn.
  unfold htls. rewrite E. reflexivity.
Qed.

Lemma fold_htls {A} (f : st -> A -> st) (l : list A) h :
  (forall a x, htls (fst (f x a)) h = htls (fst x) h) ->
  forall x, htls (fst (fold_left f l x)) h = htls (fst x) h.
Proof.
  intros Hf. induction l as [|a l IH]; intros x; cbn [fold_left]; [reflexivity|].
  rewrite IH. apply Hf.
Qed.

Lemma sync_rule_htls w i x rule h : htls (fst (sync_rule w i x rule)) h = htls (fst x) h.
Proof.
  unfold sync_rule. rewrite fold_htls by (intros; apply sync_path_htls).
  rewrite add_host_htls. destruct (i_class i); reflexivity.
Qed.

Definition first_some (a b : option string) : option string :=
  match a with Some _ => a | None => b end.

Lemma first_some_assoc a b c : first_some (first_some a b) c = first_some a (first_some b c).
Proof. destruct a; reflexivity. Qed.

Lemma assoc_app {A} h (a b : list (string * A)) :
  assoc h (a ++ b) = match assoc h a with Some c => Some c | None => assoc h b end.
Proof.
  induction a as [|[k v] a IH]; cbn; [reflexivity|].
  destruct (String.eqb h k); [reflexivity|exact IH].
Qed.

Lemma append_slash_ne a b : String.eqb (a ++ "/" ++ b) "" = false.
Proof. destruct a; reflexivity. Qed.

Lemma tls_of_ref w i sec T : fst (tls_of w i sec T) = ref_cert w (secret_ref i sec).
Proof.
  unfold tls_of, ref_cert, secret_ref.
  destruct (String.eqb sec ""); [reflexivity|].
  rewrite append_slash_ne. destruct (assoc _ _); reflexivity.
Qed.

Lemma sync_tls_host_htls w i sec x hn h :
  htls (fst (sync_tls_host w i sec x hn)) h =
  if String.eqb h hn
  then first_some (htls (fst x) h) (Some (ref_cert w (secret_ref i sec)))
  else htls (fst x) h.
Proof.
  destruct (String.eqb_spec h hn) as [->|Hne];
    [|apply htls_state_eq; apply sync_tls_host_other; exact Hne].
  unfold sync_tls_host.
  pose proof (add_host_htls i hn x hn) as Ha.
  pose proof (add_host_present i hn x) as Hp.
  destruct (add_host i hn x) as [s1 T1]. cbn [fst] in *.
  pose proof (tls_of_ref w i sec T1) as Hr.
  destruct (tls_of w i sec T1) as [hash T2]. cbn [fst] in Hr. subst hash.
  destruct (get_host s1 hn) as [hr|] eqn:E; [|contradiction].
  assert (Hs : htls s1 hn = h_tls hr) by (unfold htls; rewrite E; reflexivity).
  rewrite <- Ha, Hs.
  destruct (h_tls hr) as [c|] eqn:Et; cbn [fst first_some].
  - rewrite Hs. reflexivity.
  - unfold htls, get_host. rewrite upd_same. reflexivity.
Qed.

(* the (host, reference) pairs of one tls block *)
Definition blk_refs (i : ingress) (blk : list string * string) : list (string * string) :=
  map (fun h => (h, secret_ref i (snd blk))) (fst blk).

Lemma ing_refs_eq i : ing_refs i = flat_map (blk_refs i) (i_tls i).
Proof. reflexivity. Qed.

Definition ref_opt (w : world) (o : option string) : option string :=
  match o with Some r => Some (ref_cert w r) | None => None end.

Lemma ref_opt_first w a b : ref_opt w (match a with Some c => Some c | None => b end)
  = first_some (ref_opt w a) (ref_opt w b).
Proof. destruct a; reflexivity. Qed.

Lemma sync_tls_htls w i blk h : forall x,
  htls (fst (sync_tls w i x blk)) h
  = first_some (htls (fst x) h) (ref_opt w (assoc h (blk_refs i blk))).
Proof.
  unfold sync_tls, blk_refs. destruct blk as [hosts sec]. cbn [fst snd].
  induction hosts as [|hn hosts IH]; intros x; cbn [fold_left map assoc].
  - destruct (htls (fst x) h); reflexivity.
  - rewrite IH. rewrite sync_tls_host_htls.
    destruct (String.eqb h hn); cbn [ref_opt].
    + destruct (htls (fst x) h); reflexivity.
    + reflexivity.
Qed.

Lemma fold_sync_tls_htls w i h : forall blks x,
  htls (fst (fold_left (sync_tls w i) blks x)) h
  = first_some (htls (fst x) h) (ref_opt w (assoc h (flat_map (blk_refs i) blks))).
Proof.
  induction blks as [|blk blks IH]; intros x; cbn [fold_left flat_map].
  - cbn. destruct (htls (fst x) h); reflexivity.
  - rewrite IH, sync_tls_htls, assoc_app, ref_opt_first. apply first_some_assoc.
Qed.

Lemma sync_ingress_htls w i x h :
  htls (fst (sync_ingress w x i)) h = first_some (htls (fst x) h) (ref_opt w (assoc h (ing_refs i))).
Proof.
  unfold sync_ingress. rewrite fold_sync_tls_htls.
  rewrite fold_htls by (intros; apply sync_rule_htls). reflexivity.
Qed.

Lemma fold_sync_ingress_htls w h : forall l x,
  htls (fst (fold_left (sync_ingress w) l x)) h
  = first_some (htls (fst x) h) (ref_opt w (assoc h (flat_map ing_refs l))).
Proof.
  induction l as [|i l IH]; intros x; cbn [fold_left flat_map].
  - cbn. destruct (htls (fst x) h); reflexivity.
  - rewrite IH, sync_ingress_htls, assoc_app, ref_opt_first. apply first_some_assoc.
Qed.

(* the label of every host after a full sync: the first declaration, resolved *)
Theorem htls_sync_full w h : htls (fst (sync_full w)) h = ref_opt w (winner_ref w h).
Proof. unfold sync_full. rewrite fold_sync_ingress_htls. reflexivity. Qed.

(* ================================================================== *)
(* B. looking a name up in the generated crt-list                      *)
(* ================================================================== *)
Lemma find_app {A} (f : A -> bool) (a b : list A) :
  find f (a ++ b) = match find f a with Some x => Some x | None => find f b end.
Proof. induction a as [|x a IH]; cbn; [reflexivity|]. destruct (f x); [reflexivity|exact IH]. Qed.

Definition mem_str (x : string) (l : list string) : bool := existsb (String.eqb x) l.

Lemma mem_str_In x l : mem_str x l = true <-> In x l.
Proof.
  unfold mem_str. rewrite existsb_exists. split.
  - intros (y & Hy & He). apply String.eqb_eq in He. subst. exact Hy.
  - intros H. exists x. split; [exact H|apply String.eqb_refl].
Qed.

Lemma find_filter_lines s n : is_neg n = false -> forall l,
  find_filter n (flat_map (host_lines s) l) = if mem_str n l then line_crt s n else None.
Proof.
  intros Hn. unfold find_filter. induction l as [|a l IH]; cbn [flat_map mem_str existsb]; [reflexivity|].
  rewrite find_app. unfold host_lines at 1.
  destruct (String.eqb_spec n a) as [<-|Hne]; cbn [orb].
  - destruct (line_crt s n) as [c|] eqn:El; cbn [find cl_filter cl_crt].
    + rewrite Hn, String.eqb_refl. reflexivity.
    + fold (mem_str n l). rewrite IH. destruct (mem_str n l); reflexivity.
  - fold (mem_str n l).
    destruct (line_crt s a) as [c|]; cbn [find cl_filter cl_crt]; [|exact IH].
    assert (He : String.eqb a n = false) by (apply String.eqb_neq; congruence).
    rewrite He, andb_false_r. exact IH.
Qed.

Definition real_names (names : list string) : list string :=
  filter (fun h => negb (String.eqb h default_host)) names.

Lemma find_filter_crt_list names s n : is_neg n = false ->
  find_filter n (crt_list names s) = if mem_str n (real_names names) then line_crt s n else None.
Proof.
  intros Hn. unfold crt_list. fold (real_names names).
  rewrite <- (find_filter_lines s n Hn). unfold find_filter. cbn [find cl_filter neg_default is_neg].
  reflexivity.
Qed.

Definition crt_or_default (o : option string) : string :=
  match o with Some c => c | None => default_crt end.

Definition lookup (names : list string) (s : cstate) (n : string) : option string :=
  if mem_str n (real_names names) then line_crt s n else None.

Lemma wild_of_neg n wn : wild_of n = Some wn -> is_neg wn = false.
Proof. unfold wild_of. destruct (after_dot n); [|discriminate]. intros [= <-]. reflexivity. Qed.

Lemma wild_of_not_default n wn : wild_of n = Some wn -> wn <> default_host.
Proof. unfold wild_of. destruct (after_dot n); [|discriminate]. intros [= <-]. discriminate. Qed.

Lemma served_in_lookup names s n : is_neg n = false ->
  served_in names s n =
  match lookup names s n with
  | Some c => c
  | None => match wild_of n with
            | Some wn => crt_or_default (lookup names s wn)
            | None => default_crt
            end
  end.
Proof.
  intros Hn. unfold served_in, sni_select. rewrite (find_filter_crt_list names s n Hn).
  fold (lookup names s n). destruct (lookup names s n); [reflexivity|].
  destruct (wild_of n) as [wn|] eqn:Ew; [|reflexivity].
  rewrite (find_filter_crt_list names s wn (wild_of_neg n wn Ew)).
  fold (lookup names s wn). destruct (lookup names s wn); reflexivity.
Qed.

(* ---- the sorted, duplicate free list of names has the same elements ---- *)
Lemma insert_str_In x y l : In y (insert_str x l) <-> y = x \/ In y l.
Proof.
  induction l as [|z l IH]; cbn; [intuition congruence|].
  destruct (str_ltb z x); cbn; [rewrite IH|]; intuition congruence.
Qed.

Lemma sort_strs_In y l : In y (sort_strs l) <-> In y l.
Proof.
  induction l as [|x l IH]; cbn; [reflexivity|]. rewrite insert_str_In, IH. intuition congruence.
Qed.

Lemma dedup_In y l : In y (dedup l) <-> In y l.
Proof.
  induction l as [|x l IH]; cbn; [reflexivity|].
  destruct (existsb (String.eqb x) l) eqn:E.
  - rewrite IH. split; [auto|]. intros [->|H]; [|exact H].
    apply existsb_exists in E. destruct E as (z & Hz & He). apply String.eqb_eq in He. subst. exact Hz.
  - cbn. rewrite IH. reflexivity.
Qed.

Lemma host_names_In w h : In h (host_names w) <-> In h (flat_map ing_hosts (w_ings w)).
Proof. unfold host_names. rewrite sort_strs_In, dedup_In. reflexivity. Qed.

Lemma assoc_In_fst {A} h (l : list (string * A)) v : assoc h l = Some v -> In h (map fst l).
Proof.
  induction l as [|[k x] l IH]; cbn; [discriminate|].
  destruct (String.eqb_spec h k) as [->|_]; [left; reflexivity|]. intros H. right. apply IH. exact H.
Qed.

Lemma assoc_None_iff {A} h (l : list (string * A)) : assoc h l = None <-> ~ In h (map fst l).
Proof.
  induction l as [|[k x] l IH]; cbn; [intuition|].
  destruct (String.eqb_spec h k) as [->|Hne].
  - split; [discriminate|]. intros H. exfalso. apply H. left. reflexivity.
  - rewrite IH. intuition congruence.
Qed.

Lemma ing_refs_hosts i : map fst (ing_refs i) = flat_map fst (i_tls i).
Proof.
  unfold ing_refs. induction (i_tls i) as [|blk l IH]; cbn [flat_map map]; [reflexivity|].
  rewrite map_app, IH. f_equal. rewrite map_map. cbn. apply map_id.
Qed.

Lemma tls_refs_hosts_In w h :
  In h (map fst (tls_refs w)) <-> exists i blk, In i (w_ings w) /\ In blk (i_tls i) /\ In h (fst blk).
Proof.
  unfold tls_refs. split.
  - intros H. apply in_map_iff in H. destruct H as ([h' r] & <- & Hin).
    apply in_flat_map in Hin. destruct Hin as (i & Hi & Hr).
    apply (proj1 (sort_ings_In _ _)) in Hi. exists i.
    assert (Hh : In h' (map fst (ing_refs i))) by (apply in_map_iff; exists (h', r); split; [reflexivity|exact Hr]).
    rewrite ing_refs_hosts in Hh. apply in_flat_map in Hh. destruct Hh as (blk & Hb & Hh).
    exists blk. cbn [fst] in *. repeat split; assumption.
  - intros (i & blk & Hi & Hb & Hh).
    assert (Hx : In h (map fst (ing_refs i))).
    { rewrite ing_refs_hosts. apply in_flat_map. exists blk. split; assumption. }
    apply in_map_iff in Hx. destruct Hx as ([h' r] & <- & Hr).
    apply in_map_iff. exists (h', r). split; [reflexivity|].
    apply in_flat_map. exists i. split; [apply sort_ings_In; exact Hi|exact Hr].
Qed.

Lemma winner_host_name w h r : winner_ref w h = Some r -> In h (host_names w).
Proof.
  intros H. apply assoc_In_fst in H. apply tls_refs_hosts_In in H.
  destruct H as (i & blk & Hi & Hb & Hh).
  apply host_names_In. apply in_flat_map. exists i. split; [exact Hi|].
  unfold ing_hosts. apply in_or_app. right. apply in_flat_map. exists blk. split; assumption.
Qed.

Definition S0 (w : world) : cstate := fst (sync_full w).

(* the line of a host in the crt-list of the full sync *)
Lemma lookup_full w n : n <> default_host ->
  lookup (host_names w) (S0 w) n = line_crt (S0 w) n.
Proof.
  intros Hd. unfold lookup, S0. destruct (mem_str n (real_names (host_names w))) eqn:E; [reflexivity|].
  unfold line_crt. rewrite htls_sync_full.
  destruct (winner_ref w n) as [r|] eqn:Ew; [|reflexivity].
  exfalso. apply winner_host_name in Ew.
  assert (Hm : mem_str n (real_names (host_names w)) = true).
  { apply mem_str_In. unfold real_names. apply filter_In. split; [exact Ew|].
    apply negb_true_iff. apply String.eqb_neq. exact Hd. }
  congruence.
Qed.

Lemma line_crt_cases w h :
  line_crt (S0 w) h =
  match winner_ref w h with
  | None => None
  | Some r =>
      if negb (String.eqb (ref_cert w r) default_crt) then Some (ref_cert w r)
      else if wild_custom (S0 w) h then Some default_crt else None
  end.
Proof. unfold line_crt, S0. rewrite htls_sync_full. destruct (winner_ref w h); reflexivity. Qed.

Lemma crt_or_default_line w h :
  crt_or_default (line_crt (S0 w) h)
  = match winner_ref w h with Some r => ref_cert w r | None => default_crt end.
Proof.
  rewrite line_crt_cases. destruct (winner_ref w h) as [r|]; [|reflexivity].
  destruct (String.eqb_spec (ref_cert w r) default_crt) as [E|E]; cbn [negb].
  - rewrite E. destruct (wild_custom (S0 w) h); reflexivity.
  - reflexivity.
Qed.

Lemma custom_tls_full w h :
  custom_tls (S0 w) h =
  match winner_ref w h with Some r => negb (String.eqb (ref_cert w r) default_crt) | None => false end.
Proof. unfold custom_tls, S0. rewrite htls_sync_full. destruct (winner_ref w h); reflexivity. Qed.

(* THE characterisation: the certificate served for a name is the one its own first tls
   declaration resolves to; a name without declaration belongs to the wildcard host
   covering it; else the default certificate *)
Theorem served_spec w n : name_ok n ->
  served w n = match effective_ref w n with Some r => ref_cert w r | None => default_crt end.
Proof.
  intros [Hd Hn]. unfold served. fold (S0 w). rewrite (served_in_lookup _ _ n Hn).
  rewrite (lookup_full w n Hd). unfold effective_ref.
  rewrite line_crt_cases.
  destruct (winner_ref w n) as [r|] eqn:Ew.
  - destruct (String.eqb_spec (ref_cert w r) default_crt) as [E|E]; cbn [negb]; [|reflexivity].
    destruct (wild_custom (S0 w) n) eqn:Ec; [symmetry; exact E|].
    destruct (wild_of n) as [wn|] eqn:Ewn; [|symmetry; exact E].
    rewrite (lookup_full w wn (wild_of_not_default n wn Ewn)).
    rewrite crt_or_default_line.
    unfold wild_custom in Ec. rewrite Ewn, custom_tls_full in Ec.
    destruct (winner_ref w wn) as [r'|]; [|symmetry; exact E].
    apply negb_false_iff, String.eqb_eq in Ec. rewrite Ec, E. reflexivity.
  - destruct (wild_of n) as [wn|] eqn:Ewn; [|reflexivity].
    rewrite (lookup_full w wn (wild_of_not_default n wn Ewn)).
    apply crt_or_default_line.
Qed.

(* ================================================================== *)
(* C. the statements of C15                                            *)
(* ================================================================== *)
Definition declares_tls (j : ingress) (h : string) : Prop :=
  exists b, In b (i_tls j) /\ In h (fst b).

Definition no_tls_entry (w : world) (h : string) : Prop :=
  forall i blk, In i (w_ings w) -> In blk (i_tls i) -> ~ In h (fst blk).

Lemma SSorted_app_before {A} (R : A -> A -> Prop) l1 x l2 :
  StronglySorted R (l1 ++ x :: l2) -> Forall (fun y => R y x) l1.
Proof.
  induction l1 as [|a l1 IH]; cbn; intros H; [constructor|].
  inversion H as [|? ? Hs Hf]; subst. constructor.
  - rewrite Forall_forall in Hf. apply Hf. apply in_or_app. right. left. reflexivity.
  - apply IH. exact Hs.
Qed.

Lemma assoc_map_const h (r : string) (l : list string) :
  In h l -> assoc h (map (fun x => (x, r)) l) = Some r.
Proof.
  induction l as [|a l IH]; cbn; [contradiction|].
  destruct (String.eqb_spec h a) as [_|Hne]; [reflexivity|].
  intros [->|H]; [contradiction|apply IH; exact H].
Qed.

Lemma blk_refs_hosts i blk : map fst (blk_refs i blk) = fst blk.
Proof. unfold blk_refs. rewrite map_map. cbn. apply map_id. Qed.

Lemma refs_hosts_flat i blks h :
  In h (map fst (flat_map (blk_refs i) blks)) <-> exists b, In b blks /\ In h (fst b).
Proof.
  induction blks as [|b blks IH]; cbn [flat_map map].
  - split; [contradiction|intros (b & [] & _)].
  - rewrite map_app, in_app_iff, blk_refs_hosts, IH. split.
    + intros [H|(b' & Hb & Hh)]; [exists b; split; [left; reflexivity|exact H]|exists b'; split; [right; exact Hb|exact Hh]].
    + intros (b' & [<-|Hb] & Hh); [left; exact Hh|right; exists b'; split; assumption].
Qed.

Lemma ing_refs_declares i h : In h (map fst (ing_refs i)) <-> declares_tls i h.
Proof. rewrite ing_refs_eq. apply refs_hosts_flat. Qed.

(* the first ingress, in (creation, ns/name) order, declaring tls for h -- and its first
   block naming h -- is the winner *)
Lemma winner_first w i pre blk post h :
  NoDup (map i_full (w_ings w)) ->
  In i (w_ings w) -> i_tls i = (pre ++ blk :: post)%list -> In h (fst blk) ->
  (forall b, In b pre -> ~ In h (fst b)) ->
  (forall j, In j (w_ings w) -> j <> i -> declares_tls j h -> ing_ltb i j = true) ->
  winner_ref w h = Some (secret_ref i (snd blk)).
Proof.
  intros Hnd Hi Htls Hh Hpre Hfirst. unfold winner_ref, tls_refs.
  pose proof (sort_ings_sorted _ Hnd) as Hs.
  assert (Hin : In i (sort_ings (w_ings w))) by (apply sort_ings_In; exact Hi).
  apply in_split in Hin. destruct Hin as (l1 & l2 & El). rewrite El in *.
  rewrite flat_map_app, assoc_app.
  assert (Hn1 : assoc h (flat_map ing_refs l1) = None).
  { apply assoc_None_iff. intros Hx. apply in_map_iff in Hx. destruct Hx as ([h' r] & Eh & Hx).
    cbn in Eh. subst h'. apply in_flat_map in Hx. destruct Hx as (j & Hj & Hr).
    pose proof (SSorted_app_before _ _ _ _ Hs) as Hb. rewrite Forall_forall in Hb.
    specialize (Hb j Hj). unfold ing_lt in Hb.
    assert (Hjw : In j (w_ings w)).
    { apply (proj1 (sort_ings_In _ _)). rewrite El. apply in_or_app. left. exact Hj. }
    assert (Hne : j <> i) by (intros ->; rewrite ing_ltb_irrefl in Hb; discriminate).
    assert (Hd : declares_tls j h).
    { apply ing_refs_declares. apply in_map_iff. exists (h, r). split; [reflexivity|exact Hr]. }
    pose proof (Hfirst j Hjw Hne Hd) as Hlt.
    pose proof (ing_ltb_trans _ _ _ Hb Hlt) as Hjj. rewrite ing_ltb_irrefl in Hjj. discriminate. }
  rewrite Hn1. cbn [flat_map]. rewrite assoc_app.
  rewrite ing_refs_eq, Htls, flat_map_app, assoc_app.
  assert (Hn2 : assoc h (flat_map (blk_refs i) pre) = None).
  { apply assoc_None_iff. intros Hx. apply refs_hosts_flat in Hx. destruct Hx as (b & Hb & Hhb).
    exact (Hpre b Hb Hhb). }
  rewrite Hn2. cbn [flat_map]. rewrite assoc_app.
  unfold blk_refs at 1. rewrite (assoc_map_const h _ _ Hh). reflexivity.
Qed.

Theorem sni_serves_declared : forall w i pre blk post h,
  NoDup (map i_full (w_ings w)) ->
  In i (w_ings w) -> i_tls i = (pre ++ blk :: post)%list -> In h (fst blk) ->
  (forall b, In b pre -> ~ In h (fst b)) ->
  (forall j, In j (w_ings w) -> j <> i -> (exists b, In b (i_tls j) /\ In h (fst b)) -> ing_ltb i j = true) ->
  name_ok h ->
  served w h = ref_cert w (secret_ref i (snd blk)).
Proof.
  intros w i pre blk post h Hnd Hi Ht Hh Hpre Hfirst Hok.
  rewrite (served_spec w h Hok). unfold effective_ref.
  rewrite (winner_first w i pre blk post h Hnd Hi Ht Hh Hpre Hfirst). reflexivity.
Qed.

Lemma no_tls_entry_winner w h : no_tls_entry w h <-> winner_ref w h = None.
Proof.
  unfold winner_ref. rewrite assoc_None_iff, tls_refs_hosts_In. unfold no_tls_entry. split.
  - intros H (i & blk & Hi & Hb & Hh). exact (H i blk Hi Hb Hh).
  - intros H i blk Hi Hb Hh. apply H. exists i, blk. auto.
Qed.

Definition u_ing1 : ingress :=
  {| i_ns := "ns1"; i_name := "ing1"; i_stamp := 10; i_class := None;
     i_rules := []; i_tls := [(["*.wild.example"], "tls-1")] |}.
Definition x_world_u : world :=
  {| w_ings := [u_ing1]; w_svcs := []; w_eps := []; w_secrets := [("ns1/tls-1", "HASH-ns1-tls-1")] |}.

(* a name without tls declaration belongs to the wildcard host covering it *)
Theorem sni_undeclared : forall w n, name_ok n -> no_tls_entry w n ->
  served w n = match wild_of n with
               | Some wn => match winner_ref w wn with Some r => ref_cert w r | None => default_crt end
               | None => default_crt
               end.
Proof.
  intros w n Hok Hno. rewrite (served_spec w n Hok). unfold effective_ref.
  apply no_tls_entry_winner in Hno. rewrite Hno.
  destruct (wild_of n) as [wn|]; [|reflexivity]. reflexivity.
Qed.

(* the hypotheses are satisfiable: nobody declares tls for c.wild.example (not even a host)
   and it belongs to the wildcard host of ns1 *)
Example sni_undeclared_example :
  name_ok "c.wild.example" /\ no_tls_entry x_world_u "c.wild.example" /\
  served x_world_u "c.wild.example" = "HASH-ns1-tls-1".
Proof.
  assert (Hok : name_ok "c.wild.example") by (split; [discriminate|reflexivity]).
  assert (Hno : no_tls_entry x_world_u "c.wild.example").
  { intros i blk [<-|[]]. cbn. intros [<-|[]]. cbn. intros [H|[]]. discriminate. }
  refine (conj Hok (conj Hno _)). rewrite (sni_undeclared _ _ Hok Hno). vm_compute. reflexivity.
Qed.

(* H: no wildcard host with a custom certificate covers the name *)
Definition no_custom_wildcard (w : world) (n : string) : Prop :=
  forall wn r, wild_of n = Some wn -> winner_ref w wn = Some r -> ref_cert w r = default_crt.

Theorem sni_default_otherwise_under_H : forall w h, name_ok h ->
  no_tls_entry w h -> no_custom_wildcard w h -> served w h = default_crt.
Proof.
  intros w h Hok Hno HH. rewrite (sni_undeclared w h Hok Hno).
  destruct (wild_of h) as [wn|] eqn:Ew; [|reflexivity].
  destruct (winner_ref w wn) as [r|] eqn:Er; [|reflexivity]. exact (HH wn r Ew Er).
Qed.

(* the witness: ns1 declares *.wild.example with its own certificate, ns2 has rules for
   a.wild.example and no tls entry *)
Definition xrule : prule := {| r_path := "/"; r_type := Prefix; r_svc := "svc1"; r_port := "80" |}.
Definition x_ing1 : ingress :=
  {| i_ns := "ns1"; i_name := "ing1"; i_stamp := 10; i_class := None;
     i_rules := [("*.wild.example", [xrule])]; i_tls := [(["*.wild.example"], "tls-1")] |}.
Definition x_ing2 : ingress :=
  {| i_ns := "ns2"; i_name := "ing2"; i_stamp := 11; i_class := None;
     i_rules := [("a.wild.example", [xrule])]; i_tls := [] |}.
Definition x_world : world :=
  {| w_ings := [x_ing1; x_ing2]; w_svcs := []; w_eps := []; w_secrets := [("ns1/tls-1", "HASH-ns1-tls-1")] |}.

Lemma x_served : served x_world "a.wild.example" = "HASH-ns1-tls-1".
Proof. vm_compute. reflexivity. Qed.

Lemma x_no_entry : no_tls_entry x_world "a.wild.example".
Proof.
  intros i blk [<-|[<-|[]]]; cbn; [|contradiction].
  intros [<-|[]]. cbn. intros [H|[]]. discriminate.
Qed.

Lemma x_name_ok : name_ok "a.wild.example".
Proof. split; [discriminate|reflexivity]. Qed.

Lemma x_has_rules : has_rules x_world "a.wild.example".
Proof. exists x_ing2, ("a.wild.example", [xrule]). cbn. auto. Qed.

Theorem sni_default_otherwise_refuted :
  exists w h, name_ok h /\ has_rules w h /\ no_tls_entry w h /\ served w h <> default_crt.
Proof.
  exists x_world, "a.wild.example".
  refine (conj x_name_ok (conj x_has_rules (conj x_no_entry _))). rewrite x_served. discriminate.
Qed.

(* the hypotheses of the under_H variant are satisfiable (and the conclusion is not void) *)
Example sni_default_otherwise_under_H_example :
  name_ok "a.example" /\ no_tls_entry x_world "a.example" /\ no_custom_wildcard x_world "a.example"
  /\ served x_world "a.example" = default_crt.
Proof.
  assert (Hok : name_ok "a.example") by (split; [discriminate|reflexivity]).
  assert (Hno : no_tls_entry x_world "a.example").
  { intros i blk [<-|[<-|[]]]; cbn; [|contradiction]. intros [<-|[]]. cbn. intros [H|[]]. discriminate. }
  assert (HH : no_custom_wildcard x_world "a.example").
  { intros wn r Hw. vm_compute in Hw. injection Hw as <-. vm_compute. discriminate. }
  refine (conj Hok (conj Hno (conj HH _))). exact (sni_default_otherwise_under_H _ _ Hok Hno HH).
Qed.

(* ---- never another tenant's ---- *)
Lemma assoc_In {A} h (l : list (string * A)) v : assoc h l = Some v -> In (h, v) l.
Proof.
  induction l as [|[k x] l IH]; cbn; [discriminate|].
  destruct (String.eqb_spec h k) as [->|_]; [intros [= ->]; left; reflexivity|].
  intros H. right. apply IH. exact H.
Qed.

Lemma winner_ref_decl w d r : winner_ref w d = Some r ->
  exists i blk, In i (w_ings w) /\ In blk (i_tls i) /\ In d (fst blk) /\ r = secret_ref i (snd blk).
Proof.
  intros H. apply assoc_In in H. unfold tls_refs in H. apply in_flat_map in H.
  destruct H as (i & Hi & Hr). apply (proj1 (sort_ings_In _ _)) in Hi.
  rewrite ing_refs_eq in Hr. apply in_flat_map in Hr. destruct Hr as (blk & Hb & Hr).
  unfold blk_refs in Hr. apply in_map_iff in Hr. destruct Hr as (h' & E & Hh).
  injection E as E1 E2. subst h'. exists i, blk. auto.
Qed.

(* unconditional: the certificate served for a name is the default one, or the secret --
   of the namespace of that ingress -- named by an ingress that declares tls for the name
   itself or for the wildcard host covering it *)
Theorem never_unrelated : forall w n, name_ok n ->
  served w n = default_crt \/
  exists i blk d, In i (w_ings w) /\ In blk (i_tls i) /\ In d (fst blk) /\
                  (d = n \/ wild_of n = Some d) /\
                  served w n = ref_cert w (secret_ref i (snd blk)).
Proof.
  intros w n Hok. rewrite (served_spec w n Hok). unfold effective_ref.
  destruct (winner_ref w n) as [r|] eqn:Ew.
  - right. destruct (winner_ref_decl w n r Ew) as (i & blk & Hi & Hb & Hd & ->).
    exists i, blk, n. auto 10.
  - destruct (wild_of n) as [wn|] eqn:Ewn; [|left; reflexivity].
    destruct (winner_ref w wn) as [r|] eqn:Er; [|left; reflexivity].
    right. destruct (winner_ref_decl w wn r Er) as (i & blk & Hi & Hb & Hd & ->).
    exists i, blk, wn. auto 10.
Qed.

Theorem never_foreign_under_H : forall w n, name_ok n ->
  (no_tls_entry w n -> no_custom_wildcard w n) ->
  served w n = default_crt \/
  exists i blk, In i (w_ings w) /\ In blk (i_tls i) /\ In n (fst blk) /\
                served w n = ref_cert w (secret_ref i (snd blk)).
Proof.
  intros w n Hok HH.
  destruct (winner_ref w n) as [r|] eqn:Ew.
  - right. rewrite (served_spec w n Hok). unfold effective_ref. rewrite Ew.
    destruct (winner_ref_decl w n r Ew) as (i & blk & Hi & Hb & Hd & ->). exists i, blk. auto.
  - left. apply no_tls_entry_winner in Ew. exact (sni_default_otherwise_under_H w n Hok Ew (HH Ew)).
Qed.

Theorem never_foreign_refuted :
  exists w n, name_ok n /\
    ~ (served w n = default_crt \/
       exists i blk, In i (w_ings w) /\ In blk (i_tls i) /\ In n (fst blk) /\
                     served w n = ref_cert w (secret_ref i (snd blk))).
Proof.
  exists x_world, "a.wild.example". split; [exact x_name_ok|].
  intros [H|(i & blk & Hi & Hb & Hn & _)].
  - rewrite x_served in H. discriminate.
  - exact (x_no_entry i blk Hi Hb Hn).
Qed.

Example never_foreign_under_H_example :
  name_ok "*.wild.example" /\ (no_tls_entry x_world "*.wild.example" -> no_custom_wildcard x_world "*.wild.example")
  /\ served x_world "*.wild.example" = "HASH-ns1-tls-1".
Proof.
  split; [split; [discriminate|reflexivity]|]. split; [|vm_compute; reflexivity].
  intros Hno. exfalso. apply (Hno x_ing1 (["*.wild.example"], "tls-1")); cbn; auto.
Qed.

(* the hypotheses of sni_serves_declared are satisfiable: two namespaces declare tls for
   one host with different secrets, the older ingress wins *)
Definition y_ing_a : ingress :=
  {| i_ns := "ns1"; i_name := "inga"; i_stamp := 10; i_class := None;
     i_rules := [("h.example", [xrule])]; i_tls := [(["other.example"], "tls-9"); (["h.example"], "tls-1")] |}.
Definition y_ing_b : ingress :=
  {| i_ns := "ns2"; i_name := "ingb"; i_stamp := 11; i_class := None;
     i_rules := []; i_tls := [(["h.example"], "tls-2")] |}.
Definition y_world : world :=
  {| w_ings := [y_ing_b; y_ing_a]; w_svcs := []; w_eps := [];
     w_secrets := [("ns1/tls-1", "HASH-A"); ("ns2/tls-2", "HASH-B")] |}.

Example sni_serves_declared_example : served y_world "h.example" = "HASH-A".
Proof.
  refine (sni_serves_declared y_world y_ing_a [(["other.example"], "tls-9")] (["h.example"], "tls-1") [] "h.example" _ _ _ _ _ _ _).
  - cbn. constructor; [intros [H|[]]; discriminate|]. constructor; [intros []|constructor].
  - right. left. reflexivity.
  - reflexivity.
  - left. reflexivity.
  - intros b [<-|[]]. cbn. intros [H|[]]. discriminate.
  - intros j [<-|[<-|[]]] Hne _; [reflexivity|contradiction].
  - split; [discriminate|reflexivity].
Qed.

(* ================================================================== *)
(* D. rotation                                                         *)
(* ================================================================== *)
Lemma winner_ref_ings w w' h : w_ings w' = w_ings w -> winner_ref w' h = winner_ref w h.
Proof. intros H. unfold winner_ref, tls_refs. rewrite H. reflexivity. Qed.

Lemma effective_ref_ings w w' n : w_ings w' = w_ings w -> effective_ref w' n = effective_ref w n.
Proof.
  intros H. unfold effective_ref. rewrite (winner_ref_ings w w' n H).
  destruct (wild_of n) as [wn|]; [rewrite (winner_ref_ings w w' wn H)|]; reflexivity.
Qed.

(* two clusters with the same ingresses whose secrets differ at most at k: the certificate
   served changes exactly for the names whose deciding declaration refers to k *)
Theorem rotation_local : forall w w' k,
  w_ings w' = w_ings w ->
  (forall k', k' <> k -> assoc k' (w_secrets w') = assoc k' (w_secrets w)) ->
  forall n, name_ok n ->
    (effective_ref w n = Some k -> served w' n = ref_cert w' k) /\
    (effective_ref w n <> Some k -> served w' n = served w n).
Proof.
  intros w w' k Hi Hs n Hok.
  rewrite (served_spec w' n Hok), (served_spec w n Hok), (effective_ref_ings w w' n Hi).
  destruct (effective_ref w n) as [r|]; split.
  - intros [= ->]. reflexivity.
  - intros Hne. assert (Hr : r <> k) by congruence.
    unfold ref_cert. destruct (String.eqb r ""); [reflexivity|]. rewrite (Hs r Hr). reflexivity.
  - discriminate.
  - reflexivity.
Qed.

(* replacing the content of one secret *)
Fixpoint set_secret (k c : string) (l : list (string * string)) : list (string * string) :=
  match l with
  | [] => [(k, c)]
  | (k', v) :: r => if String.eqb k k' then (k, c) :: r else (k', v) :: set_secret k c r
  end.

Lemma assoc_set_secret_same k c l : assoc k (set_secret k c l) = Some c.
Proof.
  induction l as [|[k' v] l IH]; cbn; [rewrite String.eqb_refl; reflexivity|].
  destruct (String.eqb k k') eqn:E; cbn; [rewrite String.eqb_refl; reflexivity|]. rewrite E. exact IH.
Qed.

Lemma assoc_set_secret_other k c l k' : k' <> k -> assoc k' (set_secret k c l) = assoc k' l.
Proof.
  intros Hne. induction l as [|[k2 v] l IH]; cbn.
  - destruct (String.eqb_spec k' k); [contradiction|reflexivity].
  - destruct (String.eqb_spec k k2) as [<-|H2]; cbn.
    + destruct (String.eqb_spec k' k); [contradiction|reflexivity].
    + destruct (String.eqb k' k2); [reflexivity|exact IH].
Qed.

Definition with_secret (w : world) (k c : string) : world :=
  {| w_ings := w_ings w; w_svcs := w_svcs w; w_eps := w_eps w; w_secrets := set_secret k c (w_secrets w) |}.

Theorem rotation_replace : forall w k c n, name_ok n -> k <> "" ->
  (effective_ref w n = Some k -> served (with_secret w k c) n = c) /\
  (effective_ref w n <> Some k -> served (with_secret w k c) n = served w n).
Proof.
  intros w k c n Hok Hk.
  destruct (rotation_local w (with_secret w k c) k eq_refl
              (fun k' H => assoc_set_secret_other k c (w_secrets w) k' H) n Hok) as [H1 H2].
  split; [|exact H2]. intros He. rewrite (H1 He). unfold ref_cert.
  destruct (String.eqb_spec k ""); [contradiction|].
  cbn [with_secret w_secrets]. rewrite assoc_set_secret_same. reflexivity.
Qed.

(* rotation on the conflict example: ns1/tls-1 is replaced; h.example follows, the other
   names do not; replacing the loser ns2/tls-2 changes nothing *)
Example rotation_example :
  effective_ref y_world "h.example" = Some "ns1/tls-1" /\
  served (with_secret y_world "ns1/tls-1" "HASH-A2") "h.example" = "HASH-A2" /\
  served (with_secret y_world "ns2/tls-2" "HASH-B2") "h.example" = "HASH-A" /\
  served (with_secret y_world "ns1/tls-1" "HASH-A2") "other.example" = default_crt.
Proof. vm_compute. auto. Qed.

(* ================================================================== *)
(* E. histories: after any well formed history of partial syncs the    *)
(*    certificates served are those of a fresh full sync               *)
(* ================================================================== *)
Lemma htls_hosts_eq s1 s2 : hosts_eq s1 s2 -> forall h, htls s1 h = htls s2 h.
Proof. intros H h. apply htls_state_eq. apply H. Qed.

Lemma line_crt_hosts_eq s1 s2 : hosts_eq s1 s2 -> forall h, line_crt s1 h = line_crt s2 h.
Proof.
  intros H h. unfold line_crt, wild_custom, custom_tls. rewrite (htls_hosts_eq s1 s2 H h).
  destruct (wild_of h) as [wn|]; [rewrite (htls_hosts_eq s1 s2 H wn)|]; reflexivity.
Qed.

Lemma crt_list_hosts_eq names s1 s2 : hosts_eq s1 s2 -> crt_list names s1 = crt_list names s2.
Proof.
  intros H. unfold crt_list. f_equal. apply flat_map_ext. intros h. unfold host_lines.
  rewrite (line_crt_hosts_eq s1 s2 H h). reflexivity.
Qed.

Theorem history_served : forall (w0 : world) (h : list (batch * world)),
  hist_ok_g w0 h ->
  exists x', run_hist (sync_full w0) h = Some x' /\
             forall n, served_in (host_names (last_w w0 h)) (fst x') n = served (last_w w0 h) n.
Proof.
  intros w0 h Hok. destruct (model_history_general w0 h Hok) as (x' & Hr & He).
  exists x'. split; [exact Hr|]. intros n. unfold served, served_in.
  rewrite (crt_list_hosts_eq _ _ _ He). reflexivity.
Qed.

(* ... hence rotation through the incremental path: the history ends in a cluster that
   differs from w at most in secret k *)
Theorem history_rotation_local : forall (w0 : world) (h : list (batch * world)) (w : world) (k : string),
  hist_ok_g w0 h ->
  w_ings (last_w w0 h) = w_ings w ->
  (forall k', k' <> k -> assoc k' (w_secrets (last_w w0 h)) = assoc k' (w_secrets w)) ->
  exists x', run_hist (sync_full w0) h = Some x' /\
    forall n, name_ok n ->
      (effective_ref w n = Some k ->
         served_in (host_names (last_w w0 h)) (fst x') n = ref_cert (last_w w0 h) k) /\
      (effective_ref w n <> Some k ->
         served_in (host_names (last_w w0 h)) (fst x') n = served w n).
Proof.
  intros w0 h w k Hok Hi Hs. destruct (history_served w0 h Hok) as (x' & Hr & He).
  exists x'. split; [exact Hr|]. intros n Hn. rewrite He.
  exact (rotation_local w (last_w w0 h) k Hi Hs n Hn).
Qed.

(* the premise is satisfiable: on the conflict example, secret ns1/tls-1 is replaced, then
   deleted; then the winning ingress is deleted (the loser takes over) *)
Definition rot_b : batch := {| b_links := [(KSecret, "ns1/tls-1")]; b_add := []; b_upd := []; b_del := [] |}.
Definition rot_w1 : world := with_secret y_world "ns1/tls-1" "HASH-A2".
Definition rot_w2 : world :=
  {| w_ings := w_ings y_world; w_svcs := []; w_eps := []; w_secrets := [("ns2/tls-2", "HASH-B")] |}.
Definition rot_b3 : batch := {| b_links := [(KIngress, "ns1/inga")]; b_add := []; b_upd := []; b_del := ["ns1/inga"] |}.
Definition rot_w3 : world :=
  {| w_ings := [y_ing_b]; w_svcs := []; w_eps := []; w_secrets := [("ns2/tls-2", "HASH-B")] |}.
Definition rot_hist : list (batch * world) := [(rot_b, rot_w1); (rot_b, rot_w2); (rot_b3, rot_w3)].

Example history_served_example : hist_ok_g y_world rot_hist.
Proof.
  unfold rot_hist. cbn [hist_ok_g].
  refine (conj _ (conj _ (conj _ (conj _ (conj _ (conj _ I))))));
    first [apply ConvHist_multi.batch_wfb_sound; vm_compute; reflexivity
          |apply ConvHist_multi.batch_links_okb_sound; vm_compute; reflexivity].
Qed.

Definition served_after (x : option st) (names : list string) (n : string) : option string :=
  match x with Some x' => Some (served_in names (fst x') n) | None => None end.

Example history_served_eval :
  served_after (run_hist (sync_full y_world) [(rot_b, rot_w1)]) (host_names rot_w1) "h.example" = Some "HASH-A2" /\
  served_after (run_hist (sync_full y_world) [(rot_b, rot_w1); (rot_b, rot_w2)]) (host_names rot_w2) "h.example" = Some default_crt /\
  served_after (run_hist (sync_full y_world) rot_hist) (host_names rot_w3) "h.example" = Some "HASH-B".
Proof. vm_compute. auto. Qed.

(* ================================================================== *)
(* F. runtime: the certificate is replaced through the socket exactly  *)
(*    when nothing but its content differs                             *)
(* ================================================================== *)
Section DynProofs.
  Context {A : Type} (eqA : A -> A -> bool).
  Context (eqA_spec : forall a b, eqA a b = true <-> a = b).

  Lemma hv_hastls_iff (v : hostview A) : hv_hastls v = true <-> hv_file v <> "".
  Proof.
    unfold hv_hastls. rewrite negb_true_iff. split.
    - intros H E. rewrite E in H. discriminate.
    - intros H. apply String.eqb_neq. exact H.
  Qed.

  Theorem cert_cmd_sent_iff (old new : hostview A) :
    cert_cmd_sent old new = true <->
    hv_file new <> "" /\ hv_hash old <> hv_hash new /\ hv_file old = hv_file new.
  Proof.
    unfold cert_cmd_sent. rewrite !andb_true_iff, hv_hastls_iff, negb_true_iff, String.eqb_neq, String.eqb_eq.
    tauto.
  Qed.

  Theorem cert_update_dynamic_iff (old new : hostview A) (ok : bool) :
    cert_update_dynamic eqA old new ok = true <->
    hv_other old = hv_other new /\ hv_file old = hv_file new /\
    (cert_cmd_sent old new = true -> ok = true).
  Proof.
    unfold cert_update_dynamic. rewrite !andb_true_iff, eqA_spec, String.eqb_eq.
    destruct (cert_cmd_sent old new); intuition congruence.
  Qed.

  (* no reload AND the certificate replaced at run time <-> only the content differs (and
     HAProxy accepted it) *)
  Theorem cert_update_dynamic_sent_iff (old new : hostview A) (ok : bool) :
    (cert_update_dynamic eqA old new ok = true /\ cert_cmd_sent old new = true) <->
    (hv_other old = hv_other new /\ hv_file old = hv_file new /\ hv_file new <> "" /\
     hv_hash old <> hv_hash new /\ ok = true).
  Proof. rewrite cert_update_dynamic_iff, cert_cmd_sent_iff. tauto. Qed.

  (* no reload and nothing sent <-> nothing differs (or the host has no certificate file) *)
  Theorem cert_update_dynamic_quiet_iff (old new : hostview A) (ok : bool) :
    (cert_update_dynamic eqA old new ok = true /\ cert_cmd_sent old new = false) <->
    (hv_other old = hv_other new /\ hv_file old = hv_file new /\
     (hv_hash old = hv_hash new \/ hv_file new = "")).
  Proof.
    rewrite cert_update_dynamic_iff. split.
    - intros ((Ho & Hf & _) & Hs). refine (conj Ho (conj Hf _)).
      destruct (String.eqb_spec (hv_hash old) (hv_hash new)) as [E|E]; [left; exact E|].
      destruct (String.eqb_spec (hv_file new) "") as [E2|E2]; [right; exact E2|].
      exfalso. assert (cert_cmd_sent old new = true) by (apply cert_cmd_sent_iff; auto). congruence.
    - intros (Ho & Hf & Hd).
      assert (Hs : cert_cmd_sent old new = false).
      { destruct (cert_cmd_sent old new) eqn:E; [|reflexivity].
        apply cert_cmd_sent_iff in E. destruct E as (E1 & E2 & _). destruct Hd; contradiction. }
      split; [|exact Hs]. refine (conj Ho (conj Hf _)). rewrite Hs. discriminate.
  Qed.
End DynProofs.

Example cert_update_dynamic_example :
  let old := {| hv_other := "h.example paths"; hv_file := "/crt/ns1_tls-1.pem"; hv_hash := "A" |} in
  let new := {| hv_other := "h.example paths"; hv_file := "/crt/ns1_tls-1.pem"; hv_hash := "B" |} in
  let new2 := {| hv_other := "h.example paths"; hv_file := "/crt/ns1_tls-2.pem"; hv_hash := "B" |} in
  cert_update_dynamic String.eqb old new true = true /\ cert_cmd_sent old new = true /\
  cert_update_dynamic String.eqb old new false = false /\
  cert_update_dynamic String.eqb old new2 true = false /\ cert_cmd_sent old new2 = false.
Proof. vm_compute. auto. Qed.
