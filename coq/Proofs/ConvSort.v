(* Sorting facts about Model/Conv.v: str_ltb / ing_ltb are strict total orders (on strings,
   on the key (creation stamp, ns/name)), sort_ings sorts and permutes, and on lists with
   pairwise distinct names the result depends on the set of elements only (the order in
   which the API lists the ingresses does not matter: C06), commutes with filter, and a
   full sync only reads services, endpoints and secrets of the world besides that list. *)
From Coq Require Import List Bool String ZArith Ascii Arith Lia Sorted Permutation.
From HI Require Import Model.Tracker Model.Conv.
Import ListNotations.
Open Scope string_scope.

(* ------------------------------------------------------------------ *)
(* A1: str_ltb is a strict total order                                 *)
(* ------------------------------------------------------------------ *)
Lemma nat_of_ascii_inj x y : nat_of_ascii x = nat_of_ascii y -> x = y.
Proof.
  intros H. rewrite <- (ascii_nat_embedding x), <- (ascii_nat_embedding y), H. reflexivity.
Qed.

Lemma str_ltb_irrefl a : str_ltb a a = false.
Proof.
  induction a as [|x a IH]; cbn [str_ltb]; [reflexivity|].
  rewrite Nat.ltb_irrefl. exact IH.
Qed.

Lemma str_ltb_trans a : forall b c, str_ltb a b = true -> str_ltb b c = true -> str_ltb a c = true.
Proof.
  induction a as [|x a IH]; intros b c Hab Hbc.
  - destruct b as [|y b]; [discriminate|]. destruct c as [|z c]; [discriminate|reflexivity].
  - destruct b as [|y b]; [discriminate|]. destruct c as [|z c]; [discriminate|].
    cbn [str_ltb] in *.
    destruct (Nat.ltb_spec (nat_of_ascii x) (nat_of_ascii y)) as [Hxy|Hxy];
    destruct (Nat.ltb_spec (nat_of_ascii y) (nat_of_ascii z)) as [Hyz|Hyz].
    + destruct (Nat.ltb_spec (nat_of_ascii x) (nat_of_ascii z)); [reflexivity|lia].
    + destruct (Nat.ltb_spec (nat_of_ascii z) (nat_of_ascii y)); [discriminate|].
      destruct (Nat.ltb_spec (nat_of_ascii x) (nat_of_ascii z)); [reflexivity|lia].
    + destruct (Nat.ltb_spec (nat_of_ascii y) (nat_of_ascii x)); [discriminate|].
      destruct (Nat.ltb_spec (nat_of_ascii x) (nat_of_ascii z)); [reflexivity|lia].
    + destruct (Nat.ltb_spec (nat_of_ascii y) (nat_of_ascii x)); [discriminate|].
      destruct (Nat.ltb_spec (nat_of_ascii z) (nat_of_ascii y)); [discriminate|].
      destruct (Nat.ltb_spec (nat_of_ascii x) (nat_of_ascii z)); [reflexivity|].
      destruct (Nat.ltb_spec (nat_of_ascii z) (nat_of_ascii x)); [lia|].
      eapply IH; eassumption.
Qed.

Lemma str_ltb_trich a : forall b, str_ltb a b = false -> str_ltb b a = false -> a = b.
Proof.
  induction a as [|x a IH]; intros b Hab Hba.
  - destruct b; [reflexivity|discriminate].
  - destruct b as [|y b]; [discriminate|]. cbn [str_ltb] in *.
    destruct (Nat.ltb_spec (nat_of_ascii x) (nat_of_ascii y)); [discriminate|].
    destruct (Nat.ltb_spec (nat_of_ascii y) (nat_of_ascii x)); [discriminate|].
    assert (x = y) by (apply nat_of_ascii_inj; lia). subst y.
    f_equal. apply IH; assumption.
Qed.

Lemma str_ltb_asym a b : str_ltb a b = true -> str_ltb b a = false.
Proof.
  intros H. destruct (str_ltb b a) eqn:E; [|reflexivity].
  pose proof (str_ltb_trans a b a H E) as Hc. rewrite str_ltb_irrefl in Hc. discriminate.
Qed.

Theorem str_ltb_strict_total :
  (forall a, str_ltb a a = false) /\
  (forall a b c, str_ltb a b = true -> str_ltb b c = true -> str_ltb a c = true) /\
  (forall a b, str_ltb a b = false -> str_ltb b a = false -> a = b).
Proof. exact (conj str_ltb_irrefl (conj str_ltb_trans str_ltb_trich)). Qed.

(* ------------------------------------------------------------------ *)
(* ing_ltb: strict order on records, total on the key (stamp, ns/name) *)
(* ------------------------------------------------------------------ *)
Definition ing_lt (a b : ingress) : Prop := ing_ltb a b = true.

Lemma ing_ltb_irrefl a : ing_ltb a a = false.
Proof. unfold ing_ltb. rewrite Z.eqb_refl. apply str_ltb_irrefl. Qed.

Lemma ing_ltb_trans a b c : ing_ltb a b = true -> ing_ltb b c = true -> ing_ltb a c = true.
Proof.
  unfold ing_ltb.
  destruct (Z.eqb_spec (i_stamp a) (i_stamp b)) as [Eab|Nab];
  destruct (Z.eqb_spec (i_stamp b) (i_stamp c)) as [Ebc|Nbc];
  destruct (Z.eqb_spec (i_stamp a) (i_stamp c)) as [Eac|Nac];
  rewrite ?Z.ltb_lt; intros H1 H2; try lia.
  eapply str_ltb_trans; eassumption.
Qed.

Lemma ing_ltb_trich a b :
  ing_ltb a b = false -> ing_ltb b a = false -> i_stamp a = i_stamp b /\ i_full a = i_full b.
Proof.
  unfold ing_ltb.
  destruct (Z.eqb_spec (i_stamp a) (i_stamp b)) as [Eab|Nab];
  destruct (Z.eqb_spec (i_stamp b) (i_stamp a)) as [Eba|Nba]; try congruence;
  rewrite ?Z.ltb_ge; intros H1 H2; try lia.
  split; [exact Eab|]. apply str_ltb_trich; assumption.
Qed.

Lemma ing_ltb_total a b : i_full a <> i_full b -> ing_ltb a b = false -> ing_ltb b a = true.
Proof.
  intros Hne H. destruct (ing_ltb b a) eqn:E; [reflexivity|].
  destruct (ing_ltb_trich a b H E) as [_ Hf]. contradiction.
Qed.

(* ------------------------------------------------------------------ *)
(* A2: sort_ings permutes and sorts                                    *)
(* ------------------------------------------------------------------ *)
Lemma insert_ing_perm i l : Permutation (i :: l) (insert_ing i l).
Proof.
  induction l as [|j r IH]; cbn [insert_ing]; [apply Permutation_refl|].
  destruct (ing_ltb j i); [|apply Permutation_refl].
  eapply perm_trans; [apply perm_swap|]. apply perm_skip. exact IH.
Qed.

Theorem sort_ings_permutation l : Permutation l (sort_ings l).
Proof.
  induction l as [|i l IH]; cbn; [constructor|].
  eapply perm_trans; [apply perm_skip; exact IH|]. apply insert_ing_perm.
Qed.

Lemma sort_ings_In l i : In i (sort_ings l) <-> In i l.
Proof.
  split; intros H.
  - eapply Permutation_in; [apply Permutation_sym; apply sort_ings_permutation|exact H].
  - eapply Permutation_in; [apply sort_ings_permutation|exact H].
Qed.

(* non-strict order: b is not before a *)
Definition ing_le (a b : ingress) : Prop := ing_ltb b a = false.

Lemma ing_le_trans a b c : ing_le a b -> ing_le b c -> ing_le a c.
Proof.
  unfold ing_le. intros Hab Hbc. destruct (ing_ltb c a) eqn:E; [|reflexivity].
  (* c < a, not b < a, so ... *)
  destruct (ing_ltb a b) eqn:E1.
  - pose proof (ing_ltb_trans c a b E E1) as H. congruence.
  - destruct (ing_ltb_trich a b E1 Hab) as [Hs Hf].
    (* a and b have the same key: c < a gives c < b *)
    exfalso. revert E Hbc. unfold ing_ltb. rewrite Hs, Hf. congruence.
Qed.

Lemma insert_ing_le_sorted i l :
  StronglySorted ing_le l -> StronglySorted ing_le (insert_ing i l).
Proof.
  induction l as [|j r IH]; intros Hs; cbn [insert_ing].
  - constructor; constructor.
  - inversion Hs as [|? ? Hr Hall]; subst. destruct (ing_ltb j i) eqn:E.
    + constructor; [apply IH; exact Hr|].
      rewrite Forall_forall in *. intros x Hx.
      apply (Permutation_in _ (Permutation_sym (insert_ing_perm i r))) in Hx.
      destruct Hx as [<-|Hx]; [|apply Hall; exact Hx].
      unfold ing_le. destruct (ing_ltb i j) eqn:E2; [|reflexivity].
      pose proof (ing_ltb_trans i j i E2 E) as Hc. rewrite ing_ltb_irrefl in Hc. discriminate.
    + constructor; [exact Hs|]. constructor; [exact E|].
      rewrite Forall_forall in *. intros x Hx. eapply ing_le_trans; [exact E|apply Hall; exact Hx].
Qed.

Theorem sort_ings_le_sorted l : StronglySorted ing_le (sort_ings l).
Proof.
  induction l as [|i l IH]; cbn; [constructor|]. apply insert_ing_le_sorted. exact IH.
Qed.

(* strictly sorted, when the names are pairwise distinct *)
Lemma insert_ing_sorted i l :
  StronglySorted ing_lt l -> ~ In (i_full i) (map i_full l) -> StronglySorted ing_lt (insert_ing i l).
Proof.
  induction l as [|j r IH]; intros Hs Hn; cbn [insert_ing].
  - constructor; constructor.
  - inversion Hs as [|? ? Hr Hall]; subst. destruct (ing_ltb j i) eqn:E.
    + constructor; [apply IH; [exact Hr|intros Hc; apply Hn; right; exact Hc]|].
      rewrite Forall_forall in *. intros x Hx.
      apply (Permutation_in _ (Permutation_sym (insert_ing_perm i r))) in Hx.
      destruct Hx as [<-|Hx]; [exact E|apply Hall; exact Hx].
    + assert (Hij : ing_ltb i j = true).
      { apply ing_ltb_total; [|exact E]. intros Hc. apply Hn. left. exact Hc. }
      constructor; [exact Hs|]. constructor; [exact Hij|].
      rewrite Forall_forall in *. intros x Hx. eapply ing_ltb_trans; [exact Hij|apply Hall; exact Hx].
Qed.

Lemma NoDup_map_perm {A B} (f : A -> B) l1 l2 :
  Permutation l1 l2 -> NoDup (map f l1) -> NoDup (map f l2).
Proof. intros Hp Hn. eapply Permutation_NoDup; [apply Permutation_map; exact Hp|exact Hn]. Qed.

Theorem sort_ings_sorted l : NoDup (map i_full l) -> StronglySorted ing_lt (sort_ings l).
Proof.
  induction l as [|i l IH]; intros Hn; cbn; [constructor|].
  inversion Hn as [|? ? Hni Hn']; subst. apply insert_ing_sorted; [apply IH; exact Hn'|].
  intros Hc. apply Hni. apply in_map_iff in Hc as (x & Hx & Hin). apply in_map_iff.
  exists x. split; [exact Hx|]. apply sort_ings_In. exact Hin.
Qed.

Lemma sort_ings_NoDup_names l : NoDup (map i_full l) -> NoDup (map i_full (sort_ings l)).
Proof. apply NoDup_map_perm. apply sort_ings_permutation. Qed.

(* ------------------------------------------------------------------ *)
(* A3: a strictly sorted list is determined by its set of elements     *)
(* ------------------------------------------------------------------ *)
Lemma sorted_unique (l1 : list ingress) : forall l2,
  StronglySorted ing_lt l1 -> StronglySorted ing_lt l2 ->
  (forall x, In x l1 <-> In x l2) -> l1 = l2.
Proof.
  induction l1 as [|a l1 IH]; intros l2 H1 H2 Hiff.
  - destruct l2 as [|b l2]; [reflexivity|]. exfalso. apply (proj2 (Hiff b)). left. reflexivity.
  - destruct l2 as [|b l2]; [exfalso; apply (proj1 (Hiff a)); left; reflexivity|].
    inversion H1 as [|? ? Hs1 Ha]; subst. inversion H2 as [|? ? Hs2 Hb]; subst.
    rewrite Forall_forall in Ha, Hb.
    assert (Hab : a = b).
    { destruct (proj1 (Hiff a) (or_introl eq_refl)) as [Hc|Hc]; [symmetry; exact Hc|].
      destruct (proj2 (Hiff b) (or_introl eq_refl)) as [Hd|Hd]; [exact Hd|].
      pose proof (ing_ltb_trans a b a (Ha b Hd) (Hb a Hc)) as He.
      rewrite ing_ltb_irrefl in He. discriminate. }
    subst b. f_equal. apply IH; [exact Hs1|exact Hs2|].
    intros x. split; intros Hx.
    + destruct (proj1 (Hiff x) (or_intror Hx)) as [<-|Hc]; [|exact Hc].
      pose proof (Ha a Hx) as He. unfold ing_lt in He. rewrite ing_ltb_irrefl in He. discriminate.
    + destruct (proj2 (Hiff x) (or_intror Hx)) as [<-|Hc]; [|exact Hc].
      pose proof (Hb a Hx) as He. unfold ing_lt in He. rewrite ing_ltb_irrefl in He. discriminate.
Qed.

Theorem sort_ings_same_elements l1 l2 :
  NoDup (map i_full l1) -> NoDup (map i_full l2) ->
  (forall x, In x l1 <-> In x l2) -> sort_ings l1 = sort_ings l2.
Proof.
  intros H1 H2 Hiff. apply sorted_unique; [apply sort_ings_sorted; exact H1|apply sort_ings_sorted; exact H2|].
  intros x. rewrite !sort_ings_In. apply Hiff.
Qed.

Theorem sort_ings_perm l1 l2 :
  Permutation l1 l2 -> NoDup (map i_full l1) -> sort_ings l1 = sort_ings l2.
Proof.
  intros Hp Hn. apply sort_ings_same_elements; [exact Hn|eapply NoDup_map_perm; eassumption|].
  intros x. split; intros Hx; [eapply Permutation_in; [exact Hp|exact Hx]|].
  eapply Permutation_in; [apply Permutation_sym; exact Hp|exact Hx].
Qed.

(* a sorted list is a fixed point *)
Lemma sort_ings_id l : StronglySorted ing_lt l -> NoDup (map i_full l) -> sort_ings l = l.
Proof.
  intros Hs Hn. apply sorted_unique; [apply sort_ings_sorted; exact Hn|exact Hs|].
  intros x. apply sort_ings_In.
Qed.

(* ------------------------------------------------------------------ *)
(* A4: sorting commutes with filter; sorted sublists                   *)
(* ------------------------------------------------------------------ *)
Lemma filter_sorted {A} (R : A -> A -> Prop) (p : A -> bool) l :
  StronglySorted R l -> StronglySorted R (filter p l).
Proof.
  induction 1 as [|a l Hs IH Ha]; cbn [filter]; [constructor|].
  destruct (p a); [|exact IH]. constructor; [exact IH|].
  rewrite Forall_forall in *. intros x Hx. apply filter_In in Hx as [Hx _]. apply Ha. exact Hx.
Qed.

Lemma NoDup_map_filter {A B} (f : A -> B) (p : A -> bool) l :
  NoDup (map f l) -> NoDup (map f (filter p l)).
Proof.
  induction l as [|a l IH]; intros Hn; cbn [filter map]; [constructor|].
  cbn [map] in Hn. inversion Hn as [|? ? Hna Hn']; subst.
  destruct (p a); cbn [map]; [|apply IH; exact Hn'].
  constructor; [|apply IH; exact Hn'].
  intros Hc. apply Hna. apply in_map_iff in Hc as (x & Hx & Hin). apply filter_In in Hin as [Hin _].
  apply in_map_iff. exists x. split; assumption.
Qed.

Theorem sort_filter (p : ingress -> bool) l :
  NoDup (map i_full l) -> sort_ings (filter p l) = filter p (sort_ings l).
Proof.
  intros Hn. apply sorted_unique.
  - apply sort_ings_sorted. apply NoDup_map_filter. exact Hn.
  - apply filter_sorted. apply sort_ings_sorted. exact Hn.
  - intros x. rewrite sort_ings_In, !filter_In, sort_ings_In. reflexivity.
Qed.

(* the names of a list with distinct names identify its records *)
Lemma NoDup_names_inj l i j :
  NoDup (map i_full l) -> In i l -> In j l -> i_full i = i_full j -> i = j.
Proof.
  induction l as [|a l IH]; intros Hn Hi Hj He; [contradiction|].
  cbn [map] in Hn. inversion Hn as [|? ? Hna Hn']; subst.
  destruct Hi as [<-|Hi], Hj as [<-|Hj].
  - reflexivity.
  - exfalso. apply Hna. rewrite He. apply in_map. exact Hj.
  - exfalso. apply Hna. rewrite <- He. apply in_map. exact Hi.
  - apply IH; assumption.
Qed.

Lemma NoDup_names_records l : NoDup (map i_full l) -> NoDup l.
Proof. apply NoDup_map_inv. Qed.

(* two lists with distinct names and the same elements are permutations *)
Lemma same_elements_perm (l1 l2 : list ingress) :
  NoDup (map i_full l1) -> NoDup (map i_full l2) ->
  (forall x, In x l1 <-> In x l2) -> Permutation l1 l2.
Proof.
  intros H1 H2 Hiff. apply NoDup_Permutation; [apply NoDup_names_records; exact H1|apply NoDup_names_records; exact H2|exact Hiff].
Qed.

(* ------------------------------------------------------------------ *)
(* a sync reads the world through services, endpoints and secrets only *)
(* ------------------------------------------------------------------ *)
Definition world_ext (w1 w2 : world) : Prop :=
  w_svcs w1 = w_svcs w2 /\ w_eps w1 = w_eps w2 /\ w_secrets w1 = w_secrets w2.

Lemma add_backend_wext w1 w2 i hn r x : world_ext w1 w2 -> add_backend w1 i hn r x = add_backend w2 i hn r x.
Proof.
  intros (Hs & He & Hc). destruct x as [s T]. unfold add_backend, find_svc, servers. rewrite Hs, He. reflexivity.
Qed.

Lemma sync_path_wext w1 w2 i hn x r : world_ext w1 w2 -> sync_path w1 i hn x r = sync_path w2 i hn x r.
Proof. intros H. unfold sync_path. rewrite (add_backend_wext w1 w2 i hn r x H). reflexivity. Qed.

Lemma fold_left_ext_in {A B} (f g : A -> B -> A) l :
  (forall a b, In b l -> f a b = g a b) -> forall a, fold_left f l a = fold_left g l a.
Proof.
  induction l as [|b l IH]; intros H a; cbn; [reflexivity|].
  rewrite H by (left; reflexivity). apply IH. intros; apply H; right; assumption.
Qed.

Lemma sync_rule_wext w1 w2 i x rule : world_ext w1 w2 -> sync_rule w1 i x rule = sync_rule w2 i x rule.
Proof. intros H. unfold sync_rule. apply fold_left_ext_in. intros a r _. apply sync_path_wext. exact H. Qed.

Lemma tls_of_wext w1 w2 i sec T : world_ext w1 w2 -> tls_of w1 i sec T = tls_of w2 i sec T.
Proof. intros (Hs & He & Hc). unfold tls_of. rewrite Hc. reflexivity. Qed.

Lemma sync_tls_wext w1 w2 i x blk : world_ext w1 w2 -> sync_tls w1 i x blk = sync_tls w2 i x blk.
Proof.
  intros H. unfold sync_tls. apply fold_left_ext_in. intros a hn _. unfold sync_tls_host.
  destruct (add_host i hn a) as [s1 T1]. rewrite (tls_of_wext w1 w2 i (snd blk) T1 H). reflexivity.
Qed.

Lemma sync_ingress_wext w1 w2 x i : world_ext w1 w2 -> sync_ingress w1 x i = sync_ingress w2 x i.
Proof.
  intros H. unfold sync_ingress.
  rewrite (fold_left_ext_in (sync_rule w1 i) (sync_rule w2 i)) by (intros; apply sync_rule_wext; exact H).
  apply fold_left_ext_in. intros; apply sync_tls_wext; exact H.
Qed.

(* C06: the order in which the API lists the ingresses does not matter *)
Theorem sync_full_perm w1 w2 :
  Permutation (w_ings w1) (w_ings w2) -> NoDup (map i_full (w_ings w1)) ->
  w_svcs w1 = w_svcs w2 -> w_eps w1 = w_eps w2 -> w_secrets w1 = w_secrets w2 ->
  sync_full w1 = sync_full w2.
Proof.
  intros Hp Hn Hs He Hc. unfold sync_full. rewrite (sort_ings_perm _ _ Hp Hn).
  apply fold_left_ext_in. intros x i _. apply sync_ingress_wext. repeat split; assumption.
Qed.

(* the hypothesis is satisfiable and the conclusion is not vacuous *)
Example sort_ings_perm_example :
  let a := {| i_ns := "d"; i_name := "a"; i_stamp := 2; i_class := None; i_rules := []; i_tls := [] |} in
  let b := {| i_ns := "d"; i_name := "b"; i_stamp := 1; i_class := None; i_rules := []; i_tls := [] |} in
  let c := {| i_ns := "d"; i_name := "c"; i_stamp := 2; i_class := None; i_rules := []; i_tls := [] |} in
  sort_ings [a; b; c] = [b; a; c] /\ sort_ings [c; a; b] = [b; a; c].
Proof. vm_compute. split; reflexivity. Qed.
