(* Proofs about Model/XNs.v (property C09) *)
From Coq Require Import String Ascii List Bool NArith Lia.
From HI Require Import Lib.XNs_Strs Model.XNs.
Import ListNotations.
Open Scope string_scope.
Open Scope list_scope.

Local Notation "a +++ b" := (String.append a b) (at level 60, right associativity).

(* ====================================================================== *)
(* strings *)

Lemma app_nil_r_s s : s +++ "" = s.
Proof. induction s as [|a r IH]; cbn; [reflexivity|rewrite IH; reflexivity]. Qed.

Lemma app_assoc_s a b c : (a +++ b) +++ c = a +++ (b +++ c).
Proof. induction a as [|x r IH]; cbn; [reflexivity|rewrite IH; reflexivity]. Qed.

Lemma contains_app c a b : contains_char c (a +++ b) = contains_char c a || contains_char c b.
Proof.
  induction a as [|x r IH]; cbn [String.append contains_char]; [reflexivity|].
  rewrite IH, orb_assoc. reflexivity.
Qed.

Fixpoint join (c : ascii) (l : list string) : string :=
  match l with
  | [] => ""
  | [a] => a
  | a :: r => a +++ String c (join c r)
  end.

Lemma join_cons2 c a b t : join c (a :: b :: t) = a +++ String c (join c (b :: t)).
Proof. reflexivity. Qed.

Lemma split_on_join c s : join c (split_on c s) = s.
Proof.
  induction s as [|a r IH]; cbn [split_on]; [reflexivity|].
  pose proof (split_on_nonempty c r) as Hn.
  destruct (split_on c r) as [|h t] eqn:E; [contradiction|].
  destruct (Ascii.eqb_spec a c) as [->|Hne].
  - rewrite join_cons2, IH. reflexivity.
  - destruct t as [|h2 t2].
    + cbn [join] in *. rewrite IH. reflexivity.
    + rewrite join_cons2. rewrite join_cons2 in IH. cbn [String.append]. rewrite IH. reflexivity.
Qed.

Lemma split_on_parts c s p : In p (split_on c s) -> contains_char c p = false.
Proof.
  revert p. induction s as [|a r IH]; cbn [split_on]; intros p Hp.
  - destruct Hp as [<-|[]]. reflexivity.
  - destruct (Ascii.eqb_spec a c) as [->|Hne].
    + destruct Hp as [<-|Hp]; [reflexivity|apply IH; exact Hp].
    + destruct (split_on c r) as [|h t] eqn:E; [destruct (split_on_nonempty c r E)|].
      destruct Hp as [<-|Hp].
      * cbn [contains_char]. rewrite (IH h (or_introl eq_refl)).
        destruct (Ascii.eqb_spec a c); [contradiction|reflexivity].
      * apply IH. right. exact Hp.
Qed.

Lemma split_on_one c s a : split_on c s = [a] -> s = a /\ contains_char c a = false.
Proof.
  intros H. split.
  - rewrite <- (split_on_join c s), H. reflexivity.
  - apply (split_on_parts c s). rewrite H. left. reflexivity.
Qed.

Lemma split_on_two c s a b :
  split_on c s = [a; b] -> s = a +++ String c b /\ contains_char c a = false /\ contains_char c b = false.
Proof.
  intros H. split; [|split].
  - rewrite <- (split_on_join c s), H. reflexivity.
  - apply (split_on_parts c s). rewrite H. left. reflexivity.
  - apply (split_on_parts c s). rewrite H. right. left. reflexivity.
Qed.

Lemma split_key_some k ns n :
  split_key k = Some (ns, n) ->
  contains_char slash n = false /\
  ((ns = "" /\ k = n) \/ (k = ns +++ String slash n /\ contains_char slash ns = false)).
Proof.
  unfold split_key. destruct (split_on slash k) as [|a [|b [|x t]]] eqn:E; try discriminate.
  - intros H. injection H as <- <-. destruct (split_on_one _ _ _ E) as [-> Hn]. split; [exact Hn|left; auto].
  - intros H. injection H as <- <-. destruct (split_on_two _ _ _ _ E) as (-> & Ha & Hb). split; [exact Hb|right; auto].
Qed.

Lemma strip_prefix_app p r : strip_prefix p (p +++ r) = Some r.
Proof. induction p as [|a p IH]; cbn; [reflexivity|rewrite Ascii.eqb_refl; exact IH]. Qed.

Lemma strip_prefix_some p s r : strip_prefix p s = Some r -> s = p +++ r.
Proof.
  revert s. induction p as [|a p IH]; intros s; cbn [strip_prefix String.append].
  - intros H. injection H as ->. reflexivity.
  - destruct s as [|b s]; [discriminate|]. destruct (Ascii.eqb_spec a b) as [->|]; [|discriminate].
    intros H. rewrite (IH s H). reflexivity.
Qed.

Lemma lower_prefix_app s p r : lower_prefix s = (p, r) -> s = p +++ r.
Proof.
  revert p r. induction s as [|a s IH]; cbn [lower_prefix]; intros p r H.
  - injection H as <- <-. reflexivity.
  - destruct (is_lower a).
    + destruct (lower_prefix s) as [p' q'] eqn:E. injection H as <- <-.
      cbn [String.append]. rewrite (IH p' q' eq_refl). reflexivity.
    + injection H as <- <-. reflexivity.
Qed.

Lemma replace_first_slash_app a b :
  contains_char slash a = false -> replace_first_slash (a +++ String slash b) = a +++ String "_"%char b.
Proof.
  induction a as [|x r IH]; cbn [String.append replace_first_slash contains_char]; intros H.
  - rewrite Ascii.eqb_refl. reflexivity.
  - apply orb_false_iff in H as [H1 H2]. rewrite H1, (IH H2). reflexivity.
Qed.

Definition underscore : ascii := "_"%char.

Lemma app_sep_inj c a b a' b' :
  contains_char c a = false -> contains_char c a' = false ->
  a +++ String c b = a' +++ String c b' -> a = a' /\ b = b'.
Proof.
  revert a'. induction a as [|x r IH]; intros a' Ha Ha' H.
  - destruct a' as [|y r']; cbn [String.append] in H.
    + injection H as ->. auto.
    + injection H as <- _. cbn [contains_char] in Ha'. rewrite Ascii.eqb_refl in Ha'. discriminate.
  - destruct a' as [|y r']; cbn [String.append] in H.
    + injection H as -> _. cbn [contains_char] in Ha. rewrite Ascii.eqb_refl in Ha. discriminate.
    + injection H as <- H. cbn [contains_char] in Ha, Ha'.
      apply orb_false_iff in Ha as [_ Ha]. apply orb_false_iff in Ha' as [_ Ha'].
      destruct (IH r' Ha Ha' H) as [-> ->]. auto.
Qed.

(* ====================================================================== *)
(* buildResourceName *)

(* with the check on, a default namespace and a successful resolution: the object is in
   the default namespace *)
Lemma brn_deny_local defns name ns n :
  defns <> "" -> build_resource_name defns name false = inl (ns, n) -> ns = defns.
Proof.
  intros Hd. unfold build_resource_name.
  destruct (split_key name) as [[ns0 n0]|]; [|discriminate].
  destruct (String.eqb_spec defns "") as [E|_]; [contradiction|].
  destruct (String.eqb_spec ns0 "") as [_|_]; [intros H; injection H as <- <-; reflexivity|].
  cbn [orb]. destruct (String.eqb_spec ns0 defns) as [->|_]; [intros H; injection H as <- <-; reflexivity|discriminate].
Qed.

Lemma brn_same_ns_any_bit defns name b1 b2 ns n :
  build_resource_name defns name b1 = inl (ns, n) -> ns = defns ->
  build_resource_name defns name b2 = inl (ns, n).
Proof.
  unfold build_resource_name. destruct (split_key name) as [[ns0 n0]|]; [|discriminate].
  destruct (String.eqb defns ""); [auto|]. destruct (String.eqb ns0 ""); [auto|].
  destruct (String.eqb_spec ns0 defns) as [->|Hne]; [rewrite !orb_true_r; auto|].
  rewrite !orb_false_r. destruct b1; [|discriminate]. intros H. injection H as <- <-. intros E. contradiction.
Qed.

Lemma secret_lookup_ok w good r ns n :
  secret_lookup w good r = ROk ns n -> r = inl (ns, n).
Proof.
  unfold secret_lookup. destruct r as [[a b]|e]; [|discriminate].
  destruct (find_secret (w_secrets w) a b) as [k|]; [|discriminate].
  destruct (good k); [|discriminate]. intros H. injection H as <- <-. reflexivity.
Qed.

Lemma secret_lookup_not_file w good r fl : secret_lookup w good r <> RFile fl.
Proof.
  unfold secret_lookup. destruct r as [[a b]|e]; [|discriminate].
  destruct (find_secret (w_secrets w) a b) as [k|]; [|discriminate].
  destruct (good k); discriminate.
Qed.

(* ---------- 1. deny is local, getter by getter ---------- *)

Theorem get_tls_deny_local d w defns ref ns n :
  defns <> "" -> d_crt d = false -> get_tls d w defns ref = ROk ns n -> ns = defns.
Proof.
  intros Hd Hb. unfold get_tls. destruct (content_protocol ref) as [p c].
  destruct (String.eqb p "file"); [destruct (file_exists w c); discriminate|].
  destruct (negb (String.eqb p "secret")); [discriminate|].
  rewrite Hb. intros H. apply secret_lookup_ok in H. eapply brn_deny_local; eauto.
Qed.

Theorem get_ca_deny_local d w defns ref ns n :
  defns <> "" -> d_ca d = false -> get_ca d w defns ref = ROk ns n -> ns = defns.
Proof.
  intros Hd Hb. unfold get_ca. destruct (content_protocol ref) as [p c].
  destruct (String.eqb p "file").
  { destruct (String.eqb c ""); [discriminate|].
    destruct (split_on comma c) as [|f1 [|f2 [|x t]]]; try discriminate;
      repeat (destruct (file_exists w _)); discriminate. }
  destruct (negb (String.eqb p "secret")); [discriminate|].
  rewrite Hb. intros H. apply secret_lookup_ok in H. eapply brn_deny_local; eauto.
Qed.

Theorem get_passwd_deny_local d w defns ref ns n :
  defns <> "" -> d_passwd d = false -> get_passwd d w defns ref = ROk ns n -> ns = defns.
Proof.
  intros Hd Hb. unfold get_passwd. destruct (content_protocol ref) as [p c].
  destruct (String.eqb p "file"); [destruct (file_exists w c); discriminate|].
  destruct (negb (String.eqb p "secret")); [discriminate|].
  rewrite Hb. intros H. apply secret_lookup_ok in H. eapply brn_deny_local; eauto.
Qed.

Theorem get_service_deny_local d w defns ref ns n :
  defns <> "" -> d_svc d = false -> get_service d w defns ref = ROk ns n -> ns = defns.
Proof.
  intros Hd Hb. unfold get_service. rewrite Hb.
  destruct (build_resource_name defns ref false) as [[a b]|e] eqn:E; [|discriminate].
  destruct (has_service w a b); [|discriminate]. intros H. injection H as <- <-.
  eapply brn_deny_local; eauto.
Qed.

(* all in one statement *)
Theorem deny_is_local d w defns ref ns n :
  defns <> "" ->
  (d_crt d = false -> get_tls d w defns ref = ROk ns n -> ns = defns) /\
  (d_ca d = false -> get_ca d w defns ref = ROk ns n -> ns = defns) /\
  (d_passwd d = false -> get_passwd d w defns ref = ROk ns n -> ns = defns) /\
  (d_svc d = false -> get_service d w defns ref = ROk ns n -> ns = defns).
Proof.
  intros Hd. repeat split; intros.
  - eapply get_tls_deny_local; eauto.
  - eapply get_ca_deny_local; eauto.
  - eapply get_passwd_deny_local; eauto.
  - eapply get_service_deny_local; eauto.
Qed.

(* ---------- 2. each getter reads its own bit only ---------- *)

Theorem bit_separation d d' w defns ref :
  (d_crt d = d_crt d' -> get_tls d w defns ref = get_tls d' w defns ref) /\
  (d_ca d = d_ca d' -> get_ca d w defns ref = get_ca d' w defns ref) /\
  (d_passwd d = d_passwd d' -> get_passwd d w defns ref = get_passwd d' w defns ref) /\
  (d_svc d = d_svc d' -> get_service d w defns ref = get_service d' w defns ref) /\
  get_dh d w defns ref = get_dh d' w defns ref.
Proof.
  unfold get_tls, get_ca, get_passwd, get_service, get_dh.
  repeat split; try (intros ->); reflexivity.
Qed.

(* ---------- 3. the permission bits ---------- *)

(* case-insensitive match of a lower-case pattern, character by character *)
Definition upper_of (a : ascii) : ascii := ascii_of_nat (nat_of_ascii a - 32).

Fixpoint ci_match (v pat : string) : bool :=
  match v, pat with
  | EmptyString, EmptyString => true
  | String a r, String p q => (Ascii.eqb a p || Ascii.eqb a (upper_of p)) && ci_match r q
  | _, _ => false
  end.

Definition all_ascii : list ascii := map ascii_of_nat (seq 0 256).

Lemma all_ascii_complete a : In a all_ascii.
Proof.
  unfold all_ascii. apply in_map_iff. exists (nat_of_ascii a). split; [apply ascii_nat_embedding|].
  apply in_seq. pose proof (nat_ascii_bounded a). lia.
Qed.

Definition letter_ok (p a : ascii) : bool :=
  Bool.eqb (Ascii.eqb (lower_ascii a) p) (Ascii.eqb a p || Ascii.eqb a (upper_of p)).

Lemma lower_letter p a :
  In p ["a"%char; "l"%char; "o"%char; "w"%char] ->
  Ascii.eqb (lower_ascii a) p = (Ascii.eqb a p || Ascii.eqb a (upper_of p)).
Proof.
  intros Hp.
  assert (H : forallb (fun p => forallb (letter_ok p) all_ascii) ["a"%char; "l"%char; "o"%char; "w"%char] = true)
    by (vm_compute; reflexivity).
  rewrite forallb_forall in H. specialize (H p Hp). rewrite forallb_forall in H.
  specialize (H a (all_ascii_complete a)). apply Bool.eqb_prop in H. exact H.
Qed.

Lemma lower_eq_ci pat : Forall (fun p => In p ["a"%char; "l"%char; "o"%char; "w"%char]) (list_ascii_of_string pat) ->
  forall v, String.eqb (to_lower v) pat = ci_match v pat.
Proof.
  induction pat as [|p q IH]; intros Hp v.
  - destruct v; reflexivity.
  - cbn [list_ascii_of_string] in Hp. inversion Hp as [|? ? Hp1 Hp2]; subst.
    destruct v as [|a r]; [reflexivity|].
    cbn [to_lower String.eqb ci_match]. rewrite (lower_letter p a Hp1), (IH Hp2 r). reflexivity.
Qed.

Lemma is_allow_ci v : is_allow v = ci_match v "allow".
Proof.
  unfold is_allow. apply lower_eq_ci. cbn [list_ascii_of_string].
  repeat (constructor; [cbn; tauto|]). constructor.
Qed.

Theorem global_dynamic_spec static vcrt vca vpasswd vsvc :
  let d := build_global_dynamic static vcrt vca vpasswd vsvc in
  d_crt d = static || ci_match vcrt "allow" /\
  d_ca d = static || ci_match vca "allow" /\
  d_passwd d = static || ci_match vpasswd "allow" /\
  d_svc d = ci_match vsvc "allow".
Proof. cbn. rewrite !is_allow_ci. auto. Qed.

Definition word (b : bool) : string := if b then "allow" else "deny".

(* all 2^4 allow/deny settings x the static flag *)
Theorem global_dynamic_table static b1 b2 b3 b4 :
  build_global_dynamic static (word b1) (word b2) (word b3) (word b4) =
  {| d_crt := static || b1; d_ca := static || b2; d_passwd := static || b3; d_svc := b4 |}.
Proof. destruct static, b1, b2, b3, b4; vm_compute; reflexivity. Qed.

(* a value that is not "allow" in some letter case is deny, the absent key included *)
Theorem invalid_is_deny v : ci_match v "allow" = false ->
  forall v1 v2 v3, d_svc (build_global_dynamic false v1 v2 v3 v) = false /\
                   d_crt (build_global_dynamic false v v1 v2 v3) = false /\
                   d_ca (build_global_dynamic false v1 v v2 v3) = false /\
                   d_passwd (build_global_dynamic false v1 v2 v v3) = false.
Proof. intros H v1 v2 v3. cbn. rewrite is_allow_ci, H. auto. Qed.

Example allow_spellings :
  is_allow "allow" = true /\ is_allow "ALLOW" = true /\ is_allow "Allow" = true /\
  is_allow "" = false /\ is_allow "deny" = false /\ is_allow "allow " = false /\
  is_allow "yes" = false /\ is_allow "true" = false /\ is_allow "allowed" = false.
Proof. vm_compute. repeat split. Qed.

(* ====================================================================== *)
(* 4. non-interference of the reference sites *)

Definition all_deny (d : dyn) : Prop :=
  d_crt d = false /\ d_ca d = false /\ d_passwd d = false /\ d_svc d = false.

(* the two clusters hold the same secrets, services, backends outside namespace B and
   the same local files *)
Definition agree_outside (B : string) (w1 w2 : world) : Prop :=
  (forall ns n, ns <> B -> find_secret (w_secrets w1) ns n = find_secret (w_secrets w2) ns n) /\
  (forall ns n, ns <> B -> has_service w1 ns n = has_service w2 ns n) /\
  (forall ns n p, ns <> B -> has_backend w1 ns n p = has_backend w2 ns n p) /\
  (forall f, file_exists w1 f = file_exists w2 f).

(* a namespace name is a DNS label: not empty, no '/', no '_' *)
Definition ns_ok (r : string) : Prop :=
  r <> "" /\ contains_char slash r = false /\ contains_char underscore r = false.

(* a site carried by an Ingress or Service has the namespace of that object as its
   source; auth-secret cannot come from the global ConfigMap (no Source to read) *)
Definition wf_site (s : site) : Prop :=
  match st_src s with
  | Some r => ns_ok r
  | None => st_key s <> SAuthSecret
  end.

(* the reader is not in namespace B *)
Definition outside (B : string) (s : site) : Prop := exists r, st_src s = Some r /\ r <> B.

Lemma secret_lookup_agree B w1 w2 good defns c :
  agree_outside B w1 w2 -> defns <> "" -> defns <> B ->
  secret_lookup w1 good (build_resource_name defns c false) =
  secret_lookup w2 good (build_resource_name defns c false).
Proof.
  intros (Hs & _) Hd HB.
  destruct (build_resource_name defns c false) as [[ns n]|e] eqn:E; [|reflexivity].
  pose proof (brn_deny_local _ _ _ _ Hd E) as ->. cbn [secret_lookup]. rewrite (Hs defns n HB). reflexivity.
Qed.

Lemma get_tls_agree B d w1 w2 defns ref :
  agree_outside B w1 w2 -> d_crt d = false -> defns <> "" -> defns <> B ->
  get_tls d w1 defns ref = get_tls d w2 defns ref.
Proof.
  intros Ha Hb Hd HB. unfold get_tls. destruct (content_protocol ref) as [p c]. rewrite Hb.
  destruct Ha as (Hs & Hsv & Hbk & Hf). rewrite (Hf c).
  rewrite (secret_lookup_agree B w1 w2 is_tls defns c (conj Hs (conj Hsv (conj Hbk Hf))) Hd HB). reflexivity.
Qed.

Lemma get_service_agree B d w1 w2 defns ref :
  agree_outside B w1 w2 -> d_svc d = false -> defns <> "" -> defns <> B ->
  get_service d w1 defns ref = get_service d w2 defns ref.
Proof.
  intros (_ & Hsv & _) Hb Hd HB. unfold get_service. rewrite Hb.
  destruct (build_resource_name defns ref false) as [[ns n]|e] eqn:E; [|reflexivity].
  pose proof (brn_deny_local _ _ _ _ Hd E) as ->. rewrite (Hsv defns n HB). reflexivity.
Qed.

Lemma get_passwd_agree B d w1 w2 defns ref :
  agree_outside B w1 w2 -> d_passwd d = false -> defns <> "" -> defns <> B ->
  get_passwd d w1 defns ref = get_passwd d w2 defns ref.
Proof.
  intros Ha Hb Hd HB. unfold get_passwd. destruct (content_protocol ref) as [p c]. rewrite Hb.
  destruct Ha as (Hs & Hsv & Hbk & Hf). rewrite (Hf c).
  rewrite (secret_lookup_agree B w1 w2 is_auth defns c (conj Hs (conj Hsv (conj Hbk Hf))) Hd HB). reflexivity.
Qed.

Lemma get_ca_agree B d w1 w2 defns ref :
  agree_outside B w1 w2 -> d_ca d = false -> defns <> "" -> defns <> B ->
  get_ca d w1 defns ref = get_ca d w2 defns ref.
Proof.
  intros Ha Hb Hd HB. unfold get_ca. destruct (content_protocol ref) as [p c]. rewrite Hb.
  rewrite (secret_lookup_agree B w1 w2 is_ca defns c Ha Hd HB).
  destruct Ha as (Hs & Hsv & Hbk & Hf).
  destruct (split_on comma c) as [|f1 [|f2 [|x t]]]; try reflexivity.
  - rewrite (Hf f1). reflexivity.
  - rewrite (Hf f1), (Hf f2). reflexivity.
Qed.

(* ---------- the name of a userlist identifies where its users come from ---------- *)

Definition canonical_name (r : res) : string :=
  match r with
  | ROk ns n => ns +++ String underscore n
  | RFile [f] => "file:_/" +++ f
  | _ => ""
  end.

Definition wf_origin (r : res) : Prop :=
  match r with
  | ROk ns n => contains_char underscore ns = false /\ contains_char slash n = false
  | RFile [f] => True
  | _ => False
  end.

Lemma canonical_inj x y : wf_origin x -> wf_origin y -> canonical_name x = canonical_name y -> x = y.
Proof.
  destruct x as [ns n|[|f [|f' t]]|e]; cbn [wf_origin]; try contradiction;
  destruct y as [ns' n'|[|g [|g' t']]|e']; cbn [wf_origin]; try contradiction; cbn [canonical_name].
  - intros [H1 _] [H2 _] H. destruct (app_sep_inj underscore ns n ns' n' H1 H2 H) as [-> ->]. reflexivity.
  - intros [H1 H2] _ H. exfalso.
    change ("file:_/" +++ g) with ("file:" +++ String underscore ("/" +++ g)) in H.
    destruct (app_sep_inj underscore ns n "file:" ("/" +++ g) H1 eq_refl H) as [_ ->].
    cbn in H2. discriminate.
  - intros _ [H1 H2] H. exfalso. symmetry in H.
    change ("file:_/" +++ f) with ("file:" +++ String underscore ("/" +++ f)) in H.
    destruct (app_sep_inj underscore ns' n' "file:" ("/" +++ f) H1 eq_refl H) as [_ ->].
    cbn in H2. discriminate.
  - intros _ _ H. cbn in H. injection H as ->. reflexivity.
Qed.

Lemma content_protocol_cases s p c :
  content_protocol s = (p, c) -> s = p +++ "://" +++ c \/ (p = "secret" /\ c = s).
Proof.
  unfold content_protocol. destruct (lower_prefix s) as [p0 r0] eqn:El.
  destruct p0 as [|a p0]; [intros H; injection H as <- <-; auto|].
  destruct (strip_prefix "://" r0) as [c0|] eqn:Es; [|intros H; injection H as <- <-; auto].
  destruct (contains_char newline c0); intros H; injection H as <- <-; [auto|].
  left. rewrite (lower_prefix_app _ _ _ El), (strip_prefix_some _ _ _ Es). reflexivity.
Qed.

Lemma split_on_double_slash a b :
  (3 <= length (split_on slash (a +++ String slash (String slash b))))%nat.
Proof.
  induction a as [|x r IH]; cbn [String.append split_on].
  - rewrite !Ascii.eqb_refl.
    pose proof (split_on_nonempty slash b). destruct (split_on slash b); [contradiction|cbn [length]; lia].
  - destruct (Ascii.eqb x slash).
    + cbn [length]. apply le_S. exact IH.
    + destruct (split_on slash (r +++ String slash (String slash b))); cbn [length] in *; [lia|exact IH].
Qed.

Lemma split_key_double_slash a b : split_key (a +++ "//" +++ b) = None.
Proof.
  unfold split_key. pose proof (split_on_double_slash a b) as H.
  change ("//" +++ b) with (String slash (String slash b)).
  destruct (split_on slash (a +++ String slash (String slash b))) as [|x [|y [|z t]]]; cbn [length] in H; try lia.
  reflexivity.
Qed.

Lemma trim_slash_noslash c : contains_char slash c = false -> trim_prefix "/" c = c.
Proof.
  unfold trim_prefix. destruct c as [|a r]; [reflexivity|]. cbn [contains_char strip_prefix].
  intros H. apply orb_false_iff in H as [H _]. rewrite Ascii.eqb_sym in H. fold slash. rewrite H. reflexivity.
Qed.

Lemma trim_slash_ns r t : r <> "" -> contains_char slash r = false -> trim_prefix "/" (r +++ t) = r +++ t.
Proof.
  intros Hr Hs. destruct r as [|a r']; [contradiction|]. unfold trim_prefix.
  cbn [String.append strip_prefix contains_char] in *. apply orb_false_iff in Hs as [H _].
  rewrite Ascii.eqb_sym in H. fold slash. rewrite H. reflexivity.
Qed.

(* reading the secret under deny fixes the name of the userlist *)
Lemma passwd_userlist_name d w s r x :
  d_passwd d = false -> st_src s = Some r -> ns_ok r ->
  get_passwd d w r (st_val s) = x -> (forall e, x <> RErr e) ->
  userlist_name s = canonical_name x /\ wf_origin x.
Proof.
  intros Hb Hsrc (Hr & Hrs & Hru) Hx Hok.
  unfold userlist_name, src_ns. rewrite Hsrc.
  unfold get_passwd in Hx. destruct (content_protocol (st_val s)) as [p c] eqn:Ecp.
  assert (Hcommon : forall c0, c0 = c ->
            secret_lookup w is_auth (build_resource_name r c0 false) = x ->
            let v := trim_prefix "/" c0 in
            replace_first_slash (if contains_char slash v then v else r +++ "/" +++ v) = canonical_name x /\ wf_origin x).
  { intros c0 -> Hl. cbn zeta.
    destruct x as [ns n|fl|e].
    2:{ exfalso. revert Hl. apply secret_lookup_not_file. }
    2:{ exfalso. apply (Hok e). reflexivity. }
    apply secret_lookup_ok in Hl.
    pose proof (brn_deny_local _ _ _ _ Hr Hl) as ->.
    unfold build_resource_name in Hl. destruct (split_key c) as [[ns0 n0]|] eqn:Esk; [|discriminate].
    destruct (split_key_some _ _ _ Esk) as (Hn0 & Hshape).
    assert (n = n0).
    { destruct (String.eqb r ""); [injection Hl as _ <-; reflexivity|].
      destruct (String.eqb ns0 ""); [injection Hl as <-; reflexivity|].
      destruct (false || String.eqb ns0 r); [injection Hl as _ <-; reflexivity|discriminate]. }
    subst n0. cbn [canonical_name wf_origin]. split; [|auto].
    destruct Hshape as [[-> ->]|[-> Hns0]].
    - rewrite (trim_slash_noslash n Hn0), Hn0.
      change (r +++ "/" +++ n) with (r +++ String slash n). apply replace_first_slash_app. exact Hrs.
    - destruct (String.eqb_spec ns0 "") as [->|Hne].
      + cbn [String.append]. unfold trim_prefix. cbn [strip_prefix]. fold slash. rewrite Ascii.eqb_refl.
        rewrite Hn0. change (r +++ "/" +++ n) with (r +++ String slash n). apply replace_first_slash_app. exact Hrs.
      + assert (ns0 = r).
        { destruct (String.eqb_spec r "") as [E|_]; [contradiction|].
          destruct (String.eqb_spec ns0 "") as [E|_]; [contradiction|].
          cbn [orb] in Hl. destruct (String.eqb_spec ns0 r) as [E|_]; [exact E|discriminate]. }
        subst ns0. rewrite (trim_slash_ns r (String slash n) Hr Hrs).
        rewrite contains_app. cbn [contains_char]. rewrite Ascii.eqb_refl, orb_true_r.
        apply replace_first_slash_app. exact Hrs. }
  destruct (content_protocol_cases _ _ _ Ecp) as [Eval|[-> ->]].
  - (* the protocol was recognised *)
    destruct (String.eqb_spec p "file") as [->|Hnf].
    + destruct (file_exists w c); [|exfalso; eapply Hok; symmetry; exact Hx].
      subst x. rewrite Eval. cbn [canonical_name wf_origin]. split; [|exact I].
      cbn. reflexivity.
    + destruct (String.eqb_spec p "secret") as [->|Hns]; cbn [negb] in Hx;
        [|exfalso; eapply Hok; symmetry; exact Hx].
      rewrite Hb in Hx. rewrite Eval.
      change ("secret" +++ "://" +++ c) with ("secret://" +++ c).
      assert (Et : trim_prefix "secret://" ("secret://" +++ c) = c)
        by (unfold trim_prefix; rewrite strip_prefix_app; reflexivity).
      rewrite Et. apply (Hcommon c eq_refl Hx).
  - (* no protocol: the whole value is the resource name *)
    cbn [String.eqb Ascii.eqb Bool.eqb negb] in Hx. rewrite Hb in Hx.
    destruct (strip_prefix "secret://" (st_val s)) as [c'|] eqn:Esp.
    + exfalso. apply strip_prefix_some in Esp.
      assert (Hk : split_key (st_val s) = None).
      { rewrite Esp. change ("secret://" +++ c') with ("secret:" +++ "//" +++ c'). apply split_key_double_slash. }
      unfold build_resource_name in Hx. rewrite Hk in Hx. cbn in Hx. eapply Hok. symmetry. exact Hx.
    + assert (Et : trim_prefix "secret://" (st_val s) = st_val s)
        by (unfold trim_prefix; rewrite Esp; reflexivity).
      rewrite Et. apply (Hcommon (st_val s) eq_refl Hx).
Qed.

(* ---------- the userlists in the model are named after their origin ---------- *)

Definition inv_u (u : userlists) : Prop :=
  forall L x, find_userlist u L = Some x -> L = canonical_name x /\ wf_origin x.

Lemma find_userlist_snoc u L x L' :
  find_userlist (u ++ [(L, x)]) L' =
  match find_userlist u L' with
  | Some y => Some y
  | None => if String.eqb L L' then Some x else None
  end.
Proof.
  induction u as [|[m y] t IH]; cbn [app find_userlist]; [reflexivity|].
  destruct (String.eqb m L'); [reflexivity|exact IH].
Qed.

Lemma resolve_site_keeps_u d w u s :
  st_key s <> SAuthSecret -> snd (resolve_site d w u s) = u.
Proof.
  unfold resolve_site. destruct (st_key s); intros H; try reflexivity; try contradiction.
  - destruct (st_src s); reflexivity.
  - destruct (namespaced_name s) as [[a b]|]; reflexivity.
  - destruct (namespaced_name s) as [[a b]|]; reflexivity.
  - repeat (match goal with |- context [if ?b then _ else _] => destruct b end); reflexivity.
Qed.

(* a route's backendRef is looked up as "<route namespace>/<name>" with an empty default
   namespace: it can only name a service of the route's namespace *)
Lemma get_service_gw_agree B d w1 w2 r v :
  agree_outside B w1 w2 -> r <> B -> contains_char slash r = false ->
  get_service d w1 "" (r +++ "/" +++ v) = get_service d w2 "" (r +++ "/" +++ v).
Proof.
  intros (_ & Hsv & _) HB Hr. unfold get_service, build_resource_name.
  destruct (split_key (r +++ "/" +++ v)) as [[ns n]|] eqn:E; [|reflexivity].
  cbn [String.eqb]. destruct (split_key_some _ _ _ E) as (Hn & [[-> Hk]|[Hk Hns]]).
  - exfalso. rewrite <- Hk in Hn. change (r +++ "/" +++ v) with (r +++ String slash v) in Hn.
    rewrite contains_app in Hn. cbn [contains_char] in Hn. rewrite Ascii.eqb_refl, orb_true_r in Hn. discriminate.
  - change (r +++ "/" +++ v) with (r +++ String slash v) in Hk.
    destruct (app_sep_inj slash r v ns n Hr Hns Hk) as [<- <-]. rewrite (Hsv r v HB). reflexivity.
Qed.

Lemma resolve_site_inv d w u s :
  all_deny d -> wf_site s -> inv_u u -> inv_u (snd (resolve_site d w u s)).
Proof.
  intros (_ & _ & Hp & _) Hwf Hinv.
  destruct (st_key s) eqn:Ek; try (rewrite resolve_site_keeps_u by (rewrite Ek; discriminate); exact Hinv).
  unfold wf_site in Hwf. unfold resolve_site. rewrite Ek.
  destruct (st_src s) as [r|] eqn:Es; [|contradiction].
  unfold src_ns. rewrite Es.
  destruct (get_passwd d w r (st_val s)) as [ns n|fl|e] eqn:Eg; cbn [snd]; try exact Hinv.
  - assert (Hk := passwd_userlist_name d w s r _ Hp Es Hwf Eg ltac:(discriminate)).
    destruct (find_userlist u (userlist_name s)) eqn:Ef; cbn [snd]; [exact Hinv|].
    intros L x. rewrite find_userlist_snoc. destruct (find_userlist u L) eqn:EL.
    + intros H. injection H as <-. apply Hinv. exact EL.
    + destruct (String.eqb_spec (userlist_name s) L) as [<-|]; [|discriminate].
      intros H. injection H as <-. exact Hk.
  - assert (Hk := passwd_userlist_name d w s r _ Hp Es Hwf Eg ltac:(discriminate)).
    destruct (find_userlist u (userlist_name s)) eqn:Ef; cbn [snd]; [exact Hinv|].
    intros L x. rewrite find_userlist_snoc. destruct (find_userlist u L) eqn:EL.
    + intros H. injection H as <-. apply Hinv. exact EL.
    + destruct (String.eqb_spec (userlist_name s) L) as [<-|]; [|discriminate].
      intros H. injection H as <-. exact Hk.
Qed.

(* one site: the reader outside B gets the same answer in both clusters *)
Lemma resolve_site_agree B d w1 w2 u1 u2 s :
  all_deny d -> agree_outside B w1 w2 -> wf_site s -> outside B s -> inv_u u1 -> inv_u u2 ->
  fst (resolve_site d w1 u1 s) = fst (resolve_site d w2 u2 s).
Proof.
  intros (Hc & Hca & Hp & Hsv) Ha Hwf (r & Es & HB) H1 H2.
  unfold wf_site in Hwf. rewrite Es in Hwf. destruct Hwf as (Hr & Hrs & Hru).
  unfold resolve_site, src_ns. rewrite Es.
  destruct (st_key s) eqn:Ek; cbn [fst].
  - apply (get_tls_agree B); auto.
  - apply (get_ca_agree B); auto.
  - destruct (namespaced_name s) as [[a b]|]; cbn [fst]; [apply (get_tls_agree B); auto|reflexivity].
  - destruct (namespaced_name s) as [[a b]|]; cbn [fst]; [apply (get_ca_agree B); auto|reflexivity].
  - rewrite <- (get_passwd_agree B d w1 w2 r (st_val s) Ha Hp Hr HB).
    destruct (get_passwd d w1 r (st_val s)) as [ns n|fl|e] eqn:Eg; cbn [fst]; [| |reflexivity].
    + assert (Hwf' : wf_site s) by (unfold wf_site; rewrite Es; repeat split; assumption).
      destruct (passwd_userlist_name d w1 s r _ Hp Es (conj Hr (conj Hrs Hru)) Eg ltac:(discriminate)) as [Hn Ho].
      assert (Hu : forall u, inv_u u ->
                fst (match find_userlist u (userlist_name s) with
                     | Some r0 => (r0, u)
                     | None => (ROk ns n, u ++ [(userlist_name s, ROk ns n)])
                     end) = ROk ns n).
      { intros u Hu. destruct (find_userlist u (userlist_name s)) as [x0|] eqn:Ef; [|reflexivity].
        cbn [fst]. destruct (Hu _ _ Ef) as [Hx0 Hw0]. apply canonical_inj; [exact Hw0|exact Ho|].
        rewrite <- Hx0. exact Hn. }
      rewrite (Hu u1 H1), (Hu u2 H2). reflexivity.
    + destruct (passwd_userlist_name d w1 s r _ Hp Es (conj Hr (conj Hrs Hru)) Eg ltac:(discriminate)) as [Hn Ho].
      assert (Hu : forall u, inv_u u ->
                fst (match find_userlist u (userlist_name s) with
                     | Some r0 => (r0, u)
                     | None => (RFile fl, u ++ [(userlist_name s, RFile fl)])
                     end) = RFile fl).
      { intros u Hu. destruct (find_userlist u (userlist_name s)) as [x0|] eqn:Ef; [|reflexivity].
        cbn [fst]. destruct (Hu _ _ Ef) as [Hx0 Hw0]. apply canonical_inj; [exact Hw0|exact Ho|].
        rewrite <- Hx0. exact Hn. }
      rewrite (Hu u1 H1), (Hu u2 H2). reflexivity.
  - (* auth-url svc:// *)
    rewrite Hsv. destruct (String.eqb (st_port s) ""); [reflexivity|].
    destruct Ha as (_ & _ & Hbk & _).
    destruct (split_on slash (st_val s)) as [|h [|n [|z t]]]; cbn [is_some_str andb negb fst];
      try (rewrite String.eqb_refl; cbn [negb andb];
           destruct (String.eqb r ""); [reflexivity|]; rewrite (Hbk r _ _ HB);
           match goal with |- context [has_backend ?w ?a ?b ?c] => destruct (has_backend w a b c) end; reflexivity).
    destruct (String.eqb h ""); [reflexivity|].
    destruct (String.eqb_spec h r) as [->|Hne]; cbn [negb andb]; [|reflexivity].
    rewrite (Hbk r _ _ HB). destruct (has_backend w2 r n (st_port s)); reflexivity.
  - (* Gateway API backendRef *)
    apply (get_service_gw_agree B); auto.
  - (* Gateway API certificateRef *)
    apply (get_tls_agree B); auto.
  - (* the Service lookup of a backend *)
    apply (get_service_agree B); auto.
Qed.

(* all the sites, whatever the other namespaces (B included) reference before or after *)
Lemma noninterference_gen B d w1 w2 sites :
  all_deny d -> agree_outside B w1 w2 -> Forall wf_site sites ->
  forall u1 u2, inv_u u1 -> inv_u u2 ->
  forall i s, nth_error sites i = Some s -> outside B s ->
  nth_error (resolve_all d w1 u1 sites) i = nth_error (resolve_all d w2 u2 sites) i.
Proof.
  intros Hd Ha Hwf.
  induction Hwf as [|s0 sites Hs0 Hrest IH]; intros u1 u2 H1 H2 i s Hi Ho.
  - destruct i; discriminate.
  - cbn [resolve_all].
    destruct (resolve_site d w1 u1 s0) as [x1 u1'] eqn:E1.
    destruct (resolve_site d w2 u2 s0) as [x2 u2'] eqn:E2.
    destruct i as [|i]; cbn [nth_error] in *.
    + injection Hi as ->.
      pose proof (resolve_site_agree B d w1 w2 u1 u2 s Hd Ha Hs0 Ho H1 H2) as E.
      rewrite E1, E2 in E. cbn [fst] in E. rewrite E. reflexivity.
    + apply (IH u1' u2') with (s := s); auto.
      * pose proof (resolve_site_inv d w1 u1 s0 Hd Hs0 H1) as H. rewrite E1 in H. exact H.
      * pose proof (resolve_site_inv d w2 u2 s0 Hd Hs0 H2) as H. rewrite E2 in H. exact H.
Qed.

Theorem noninterference B d w1 w2 sites :
  all_deny d -> agree_outside B w1 w2 -> Forall wf_site sites ->
  forall i s, nth_error sites i = Some s -> outside B s ->
  nth_error (resolve_all d w1 [] sites) i = nth_error (resolve_all d w2 [] sites) i.
Proof.
  intros Hd Ha Hwf. apply (noninterference_gen B d w1 w2 sites Hd Ha Hwf); intros L x H; discriminate.
Qed.

(* the hypotheses are satisfiable, and the conclusion is not trivial: namespace b's own
   site resolves differently in the two clusters while namespace a's sites do not *)
Example noninterference_nonvacuous :
  let d := build_global_dynamic false "" "deny" "DENY" "" in
  let w1 := {| w_secrets := [("b", "pw", KAuth); ("a", "pw", KAuth)]; w_services := []; w_backends := [("b", "auth", "8080")]; w_files := [] |} in
  let w2 := {| w_secrets := [("a", "pw", KAuth)]; w_services := []; w_backends := []; w_files := [] |} in
  let mk k r v p := {| st_key := k; st_src := Some r; st_val := v; st_port := p |} in
  let sites := [mk SAuthSecret "b" "secret://pw" ""; mk SAuthSecret "a" "b/pw" ""; mk SAuthSecret "a" "secret://pw" "";
                mk SAuthURL "a" "b/auth" "8080"; mk SSecureCrt "a" "b/pw" ""] in
  all_deny d /\ agree_outside "b" w1 w2 /\ Forall wf_site sites /\
  resolve_all d w1 [] sites = [ROk "b" "pw"; RErr ECross; ROk "a" "pw"; RErr ECross; RErr ECross] /\
  resolve_all d w2 [] sites = [RErr ENotFound; RErr ECross; ROk "a" "pw"; RErr ECross; RErr ECross].
Proof.
  cbn zeta. split; [vm_compute; auto|]. split; [|split; [|split; vm_compute; reflexivity]].
  - unfold agree_outside, has_service, has_backend, file_exists.
    cbn [w_secrets w_services w_backends w_files find_secret existsb fst snd].
    split; [|split; [|split]]; intros; try reflexivity.
    + destruct (String.eqb_spec "b" ns) as [<-|_]; [contradiction|reflexivity].
    + destruct (String.eqb_spec "b" ns) as [<-|_]; [contradiction|reflexivity].
  - repeat constructor; cbn; try discriminate.
Qed.

(* deny_is_local is not vacuous: under deny the plain, the qualified, the "/name" and the
   secret:// forms of the reader's own namespace resolve, the foreign ones do not *)
Example deny_is_local_example :
  let d := build_global_dynamic false "" "" "" "" in
  let w := {| w_secrets := [("a", "crt", KTLS); ("b", "crt", KTLS)]; w_services := [("a", "svc"); ("b", "svc")];
              w_backends := []; w_files := [] |} in
  get_tls d w "a" "crt" = ROk "a" "crt" /\ get_tls d w "a" "a/crt" = ROk "a" "crt" /\
  get_tls d w "a" "/crt" = ROk "a" "crt" /\ get_tls d w "a" "secret://crt" = ROk "a" "crt" /\
  get_tls d w "a" "b/crt" = RErr ECross /\ get_tls d w "a" "secret://b/crt" = RErr ECross /\
  get_tls d w "a" "a/b/crt" = RErr EKey /\ get_tls d w "a" "ftp://crt" = RErr EProto /\
  get_service d w "a" "b/svc" = RErr ECross /\ get_service d w "a" "svc" = ROk "a" "svc" /\
  get_tls (build_global_dynamic false "allow" "" "" "") w "a" "b/crt" = ROk "b" "crt" /\
  get_tls d w "" "b/crt" = ROk "b" "crt".
Proof. vm_compute. repeat split. Qed.
