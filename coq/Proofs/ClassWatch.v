(* Proofs about Model/ClassWatch.v: whatever the history of creations, updates and
   deletions of ingresses and wherever the reconciliations fall, after a reconciliation
   the converted ingresses are exactly the existing ingresses that are valid. *)
From Coq Require Import String List Bool NArith Lia.
From HI Require Import Lib.XNs_Strs Model.ClassSel Model.ClassWatch Proofs.ClassSel.
Import ListNotations.
Open Scope string_scope.
Open Scope list_scope.

(* ---------- small facts ---------- *)

Lemma mem_In n l : mem n l = true <-> In n l.
Proof.
  unfold mem. rewrite existsb_exists. split.
  - intros (x & Hx & E). apply String.eqb_eq in E. subst. exact Hx.
  - intros H. exists n. split; [exact H|apply String.eqb_refl].
Qed.

Lemma mem_app n a b : mem n (a ++ b) = mem n a || mem n b.
Proof. unfold mem. apply existsb_app. Qed.

Lemma mem_single n m : mem n [m] = String.eqb n m.
Proof. unfold mem. cbn. apply orb_false_r. Qed.

Lemma mem_names_snoc n l o : mem n (names (l ++ [o])) = mem n (names l) || String.eqb n (i_name o).
Proof. unfold names. rewrite map_app, mem_app. cbn [map]. rewrite mem_single. reflexivity. Qed.

Lemma mem_append_dedup n l m : mem n (append_dedup l m) = mem n l || String.eqb n m.
Proof.
  unfold append_dedup. fold (mem m l). destruct (mem m l) eqn:E.
  - destruct (String.eqb_spec n m) as [->|_]; [rewrite E; reflexivity|rewrite orb_false_r; reflexivity].
  - rewrite mem_app, mem_single. reflexivity.
Qed.

Lemma mem_filter n f l : mem n (filter f l) = mem n l && f n.
Proof.
  induction l as [|h t IH]; cbn [filter]; [reflexivity|].
  unfold mem in *. destruct (f h) eqn:Ef; cbn [existsb].
  - rewrite IH. destruct (String.eqb_spec n h) as [->|_]; cbn [orb]; [rewrite Ef; reflexivity|reflexivity].
  - rewrite IH. destruct (String.eqb_spec n h) as [->|_]; cbn [orb]; [|reflexivity].
    rewrite Ef. rewrite !andb_false_r. reflexivity.
Qed.

Lemma mem_fold_dedup n l acc : mem n (fold_left append_dedup l acc) = mem n acc || mem n l.
Proof.
  revert acc. induction l as [|h t IH]; intros acc; cbn [fold_left].
  - cbn. rewrite orb_false_r. reflexivity.
  - rewrite IH, mem_append_dedup. unfold mem at 4. cbn [existsb]. fold (mem n t).
    rewrite orb_assoc. reflexivity.
Qed.

Lemma mem_dedup_names n l : mem n (dedup_names l) = mem n l.
Proof. unfold dedup_names. rewrite mem_fold_dedup. reflexivity. Qed.

Lemma opt_string_eqb_eq a b : opt_string_eqb a b = true -> a = b.
Proof.
  destruct a, b; cbn; intros H; try discriminate; [|reflexivity].
  apply String.eqb_eq in H. subst. reflexivity.
Qed.

(* the decision only reads the class annotation and ingressClassName *)
Lemma is_valid_ext c cls a b : i_ann a = i_ann b -> i_cls a = i_cls b -> is_valid c cls a = is_valid c cls b.
Proof. intros H1 H2. unfold is_valid. rewrite H1, H2. reflexivity. Qed.

(* ---------- the store ---------- *)

Lemma find_ingress_name objs n i : find_ingress objs n = Some i -> i_name i = n.
Proof.
  induction objs as [|h t IH]; cbn [find_ingress]; [discriminate|].
  destruct (String.eqb_spec (i_name h) n) as [E|_]; [intros H; injection H as <-; exact E|exact IH].
Qed.

Lemma find_ingress_snoc objs o n :
  find_ingress (objs ++ [o]) n =
  match find_ingress objs n with
  | Some i => Some i
  | None => if String.eqb (i_name o) n then Some o else None
  end.
Proof.
  induction objs as [|h t IH]; cbn [app find_ingress]; [reflexivity|].
  destruct (String.eqb (i_name h) n); [reflexivity|exact IH].
Qed.

Lemma find_ingress_remove objs m n :
  find_ingress (remove_ingress objs m) n = if String.eqb m n then None else find_ingress objs n.
Proof.
  induction objs as [|h t IH]; cbn [remove_ingress find_ingress]; [destruct (String.eqb m n); reflexivity|].
  destruct (String.eqb_spec (i_name h) m) as [E|Hne].
  - rewrite IH. destruct (String.eqb_spec m n) as [E2|Hne2]; [reflexivity|].
    destruct (String.eqb_spec (i_name h) n) as [E3|_]; [congruence|reflexivity].
  - cbn [find_ingress]. destruct (String.eqb_spec (i_name h) n) as [E3|_].
    + destruct (String.eqb_spec m n) as [E2|_]; [congruence|reflexivity].
    + exact IH.
Qed.

(* validity of the current object named n; false when there is none *)
Definition cur_valid (c : cfg) (cls : classes) (objs : list ingress) (n : string) : bool :=
  is_some (get_ingress c cls objs n).

Lemma cur_valid_find c cls objs n :
  cur_valid c cls objs n = match find_ingress objs n with Some i => is_valid c cls i | None => false end.
Proof.
  unfold cur_valid, get_ingress. destruct (find_ingress objs n) as [i|]; [|reflexivity].
  destruct (is_valid c cls i); reflexivity.
Qed.

(* ---------- the per-name invariant between two reconciliations ---------- *)

Section Inv.
  Variable c : cfg.
  Variable cls : classes.

  Definition fA (b : batch) n := mem n (names (b_add b)).
  Definition fU (b : batch) n := mem n (names (b_upd b)).
  Definition fD (b : batch) n := mem n (names (b_del b)).
  Definition fL (b : batch) n := mem n (b_links b).

  (* v0 = converted before the batch started; v = valid now *)
  Definition inv_flags (A U D L v0 v : bool) : Prop :=
    (A = false -> D = false -> v = v0) /\
    (A = false -> D = false -> L = true -> v = true) /\
    (A = true -> D = false -> U = false -> v = true) /\
    (A = false -> D = true -> v = false).

  Definition inv_name (s : wstate) (n : string) : Prop :=
    inv_flags (fA (w_batch s) n) (fU (w_batch s) n) (fD (w_batch s) n) (fL (w_batch s) n)
              (mem n (w_view s)) (cur_valid c cls (w_objs s) n).

  Definition inv (s : wstate) : Prop := forall n, inv_name s n.

  (* flags after handling one event, as functions of the flags before *)
  Lemma handle_create_flags b o n :
    let b' := handle c cls b (WCreate o) in
    let hit := is_valid c cls o && String.eqb n (i_name o) in
    fA b' n = fA b n || hit /\ fU b' n = fU b n /\ fD b' n = fD b n /\ fL b' n = fL b n || hit.
  Proof.
    cbn zeta. unfold handle, accepts, fA, fU, fD, fL.
    destruct (is_valid c cls o); cbn [b_add b_upd b_del b_links andb ev_name].
    - rewrite mem_names_snoc, mem_append_dedup. auto.
    - rewrite !orb_false_r. auto.
  Qed.

  Lemma handle_delete_flags b o n :
    let b' := handle c cls b (WDelete o) in
    let hit := is_valid c cls o && String.eqb n (i_name o) in
    fA b' n = fA b n /\ fU b' n = fU b n /\ fD b' n = fD b n || hit /\ fL b' n = fL b n || hit.
  Proof.
    cbn zeta. unfold handle, accepts, fA, fU, fD, fL.
    destruct (is_valid c cls o); cbn [b_add b_upd b_del b_links andb ev_name].
    - rewrite mem_names_snoc, mem_append_dedup. auto.
    - rewrite !orb_false_r. auto.
  Qed.

  Lemma handle_update_flags b old new n :
    i_name old = i_name new ->
    let b' := handle c cls b (WUpdate old new) in
    let vo := is_valid c cls old in
    let vn := is_valid c cls new in
    let acc := changed_pred old new && (vo || vn) in
    let hit := String.eqb n (i_name new) in
    fA b' n = fA b n || (acc && negb vo && vn && hit) /\
    fU b' n = fU b n || (acc && vo && vn && hit) /\
    fD b' n = fD b n || (acc && vo && negb vn && hit) /\
    fL b' n = fL b n || (acc && hit).
  Proof.
    intros Hname. cbn zeta. unfold handle, accepts, fA, fU, fD, fL.
    destruct (changed_pred old new); cbn [andb];
      [|rewrite !orb_false_r; auto].
    destruct (is_valid c cls old) eqn:Evo, (is_valid c cls new) eqn:Evn;
      cbn [andb orb negb b_add b_upd b_del b_links ev_name];
      rewrite ?mem_names_snoc, ?mem_append_dedup, ?Hname, ?orb_false_r; auto.
  Qed.

  (* an update that the changed-predicate drops cannot change validity: the
     annotations are equal, and so is the generation, hence (API server) the spec *)
  Lemma dropped_update_same_validity old i rv :
    let g := if spec_equal old i then i_gen old else (i_gen old + 1)%N in
    let new := with_gen_rv i g rv in
    changed_pred old new = false -> is_valid c cls new = is_valid c cls old.
  Proof.
    cbn zeta. unfold changed_pred, ann_equal. intros H.
    apply orb_false_iff in H as [H1 H2].
    apply negb_false_iff in H1. apply negb_false_iff in H2.
    apply andb_true_iff in H1 as [Ha _]. cbn [with_gen_rv i_ann i_oann i_gen] in *.
    destruct (spec_equal old i) eqn:Es.
    - unfold spec_equal in Es. apply andb_true_iff in Es as [Ec _].
      apply is_valid_ext; cbn [with_gen_rv i_ann i_cls].
      + symmetry. apply opt_string_eqb_eq. exact Ha.
      + symmetry. apply opt_string_eqb_eq. exact Ec.
    - apply N.eqb_eq in H2. lia.
  Qed.

  Lemma inv_flags_same A U D L v0 v : inv_flags A U D L v0 v -> inv_flags A U D L v0 v.
  Proof. auto. Qed.

  (* one step preserves the invariant *)
  Lemma step_inv s o : inv s -> inv (step c cls s o).
  Proof.
    intros Hinv n. specialize (Hinv n). unfold inv_name in *.
    destruct o as [i|m|].
    - (* OPut *)
      cbn [step]. unfold store_put.
      destruct (find_ingress (w_objs s) (i_name i)) as [old|] eqn:Ef.
      + (* update *)
        set (g := if spec_equal old i then i_gen old else (i_gen old + 1)%N).
        set (new := with_gen_rv i g (w_rv s)).
        cbn [w_objs w_batch w_view].
        assert (Hn : i_name old = i_name new) by (apply find_ingress_name in Ef; exact Ef).
        destruct (handle_update_flags (w_batch s) old new n Hn) as (EA & EU & ED & EL).
        rewrite EA, EU, ED, EL. clear EA EU ED EL.
        rewrite !cur_valid_find in *. rewrite find_ingress_snoc, find_ingress_remove.
        change (i_name new) with (i_name i).
        destruct (String.eqb_spec n (i_name i)) as [->|Hne].
        * rewrite String.eqb_refl. rewrite Ef in Hinv.
          destruct (changed_pred old new) eqn:Ep.
          -- destruct (is_valid c cls old), (is_valid c cls new);
               cbn [andb orb negb]; rewrite ?orb_false_r, ?orb_true_r;
               destruct Hinv as (H1 & H2 & H3 & H4);
               destruct (fA (w_batch s) (i_name i)), (fD (w_batch s) (i_name i)),
                        (fU (w_batch s) (i_name i)), (fL (w_batch s) (i_name i));
               repeat split; intros; try discriminate; auto;
               try (symmetry; auto; fail); try (rewrite <- H1 by reflexivity; reflexivity).
          -- cbn [andb]. rewrite !orb_false_r.
             pose proof (dropped_update_same_validity old i (w_rv s)) as Hd.
             cbn zeta in Hd. fold g in Hd. fold new in Hd. rewrite (Hd Ep). exact Hinv.
        * rewrite !andb_false_r, !orb_false_r.
          destruct (String.eqb_spec (i_name i) n) as [E|_]; [congruence|].
          destruct (find_ingress (w_objs s) n); exact Hinv.
      + (* create *)
        set (new := with_gen_rv i 1 (w_rv s)).
        cbn [w_objs w_batch w_view].
        destruct (handle_create_flags (w_batch s) new n) as (EA & EU & ED & EL).
        rewrite EA, EU, ED, EL. clear EA EU ED EL.
        rewrite !cur_valid_find in *. rewrite find_ingress_snoc.
        change (i_name new) with (i_name i).
        destruct (String.eqb_spec n (i_name i)) as [->|Hne].
        * rewrite Ef in *. rewrite String.eqb_refl.
          destruct (is_valid c cls new); cbn [andb]; rewrite ?orb_false_r, ?orb_true_r;
            destruct Hinv as (H1 & H2 & H3 & H4);
            destruct (fA (w_batch s) (i_name i)), (fD (w_batch s) (i_name i)),
                     (fU (w_batch s) (i_name i)), (fL (w_batch s) (i_name i));
            repeat split; intros; try discriminate; auto.
        * rewrite !andb_false_r, !orb_false_r.
          destruct (String.eqb_spec (i_name i) n) as [E|_]; [congruence|].
          destruct (find_ingress (w_objs s) n); exact Hinv.
    - (* ODelete *)
      cbn [step]. destruct (find_ingress (w_objs s) m) as [old|] eqn:Ef; [|exact Hinv].
      cbn [w_objs w_batch w_view].
      destruct (handle_delete_flags (w_batch s) old n) as (EA & EU & ED & EL).
      rewrite EA, EU, ED, EL. clear EA EU ED EL.
      rewrite !cur_valid_find in *. rewrite find_ingress_remove.
      pose proof (find_ingress_name _ _ _ Ef) as Hn. rewrite Hn.
      destruct (String.eqb_spec n m) as [->|Hne].
      + rewrite String.eqb_refl. rewrite Ef in Hinv.
        destruct (is_valid c cls old); cbn [andb]; rewrite ?orb_false_r, ?orb_true_r;
          destruct Hinv as (H1 & H2 & H3 & H4);
          destruct (fA (w_batch s) m), (fD (w_batch s) m), (fU (w_batch s) m), (fL (w_batch s) m);
          repeat split; intros; try discriminate; auto;
          try (symmetry; auto; fail).
      + rewrite !andb_false_r, !orb_false_r.
        destruct (String.eqb_spec m n) as [E|_]; [congruence|]. exact Hinv.
    - (* OSwap *)
      cbn [step w_objs w_batch w_view].
      unfold fA, fU, fD, fL. cbn [batch0 b_add b_upd b_del b_links names map mem existsb].
      assert (E : mem n (apply_batch c cls (w_objs s) (w_batch s) (w_view s)) = cur_valid c cls (w_objs s) n).
      { unfold apply_batch. rewrite mem_filter, mem_dedup_names, mem_app.
        unfold converted_after. fold (cur_valid c cls (w_objs s) n).
        fold (fA (w_batch s) n) (fU (w_batch s) n) (fD (w_batch s) n) (fL (w_batch s) n).
        destruct Hinv as (H1 & H2 & H3 & H4).
        destruct (fA (w_batch s) n), (fD (w_batch s) n), (fU (w_batch s) n), (fL (w_batch s) n),
                 (mem n (w_view s)), (cur_valid c cls (w_objs s) n);
          cbn [andb orb]; try reflexivity;
          try (specialize (H1 eq_refl eq_refl); discriminate);
          try (specialize (H2 eq_refl eq_refl eq_refl); discriminate);
          try (specialize (H3 eq_refl eq_refl eq_refl); discriminate);
          try (specialize (H4 eq_refl eq_refl); discriminate). }
      rewrite E. repeat split; intros; try discriminate; reflexivity.
  Qed.

  Lemma inv0 : inv wstate0.
  Proof.
    intros n. unfold inv_name, fA, fU, fD, fL. cbn.
    repeat split; intros; try discriminate; reflexivity.
  Qed.

  Lemma fold_inv ops : forall s, inv s -> inv (fold_left (step c cls) ops s).
  Proof.
    induction ops as [|o r IH]; intros s H; cbn [fold_left]; [exact H|].
    apply IH, step_inv, H.
  Qed.

  Lemma run_inv ops : inv (run c cls ops).
  Proof. apply fold_inv, inv0. Qed.

  (* right after a reconciliation the view is exactly the valid current ingresses *)
  Lemma view_after_swap ops n :
    let s := run c cls (ops ++ [OSwap]) in
    mem n (w_view s) = cur_valid c cls (w_objs s) n.
  Proof.
    cbn zeta. pose proof (run_inv (ops ++ [OSwap]) n) as H.
    unfold inv_name in H. destruct H as (H1 & _).
    unfold run in *. rewrite fold_left_app in *. cbn [fold_left step] in *.
    cbn [w_batch w_view w_objs] in *.
    symmetry. apply H1; reflexivity.
  Qed.
End Inv.

Theorem view_tracks_validity c cls ops n :
  let s := run c cls (ops ++ [OSwap]) in
  In n (w_view s) <-> exists i, find_ingress (w_objs s) n = Some i /\ is_valid c cls i = true.
Proof.
  cbn zeta. rewrite <- mem_In, view_after_swap, cur_valid_find.
  destruct (find_ingress (w_objs (run c cls (ops ++ [OSwap]))) n) as [i|].
  - split; [intros H; exists i; auto|intros (j & Hj & Hv); injection Hj as <-; exact Hv].
  - split; [discriminate|intros (j & Hj & _); discriminate].
Qed.

(* every stored ingress keeps the class name it was given *)
Lemma step_objs_wf c cls s o :
  (forall i, In i (w_objs s) -> wf_ingress i) ->
  (forall i, o = OPut i -> wf_ingress i) ->
  forall i, In i (w_objs (step c cls s o)) -> wf_ingress i.
Proof.
  intros Hs Ho. destruct o as [j|m|]; cbn [step].
  - unfold store_put. destruct (find_ingress (w_objs s) (i_name j)) as [old|]; cbn [w_objs];
      intros i Hin; apply in_app_or in Hin as [Hin|[<-|[]]].
    + apply Hs. clear -Hin. induction (w_objs s) as [|h t IH]; cbn [remove_ingress] in Hin; [destruct Hin|].
      destruct (String.eqb (i_name h) (i_name j)); [right; apply IH; exact Hin|].
      destruct Hin as [<-|Hin]; [left; reflexivity|right; apply IH; exact Hin].
    + intros k Hk. apply (Ho j eq_refl k). exact Hk.
    + apply Hs. exact Hin.
    + intros k Hk. apply (Ho j eq_refl k). exact Hk.
  - destruct (find_ingress (w_objs s) m) as [old|]; [|exact Hs]. cbn [w_objs]. intros i Hin. apply Hs.
    clear -Hin. induction (w_objs s) as [|h t IH]; cbn [remove_ingress] in Hin; [destruct Hin|].
    destruct (String.eqb (i_name h) m); [right; apply IH; exact Hin|].
    destruct Hin as [<-|Hin]; [left; reflexivity|right; apply IH; exact Hin].
  - exact Hs.
Qed.

Lemma run_objs_wf c cls ops :
  (forall i, In (OPut i) ops -> wf_ingress i) ->
  forall i, In i (w_objs (run c cls ops)) -> wf_ingress i.
Proof.
  unfold run. assert (H0 : forall i, In i (w_objs wstate0) -> wf_ingress i) by (intros i []).
  revert H0. generalize wstate0. induction ops as [|o r IH]; intros s Hs Hops; cbn [fold_left]; [exact Hs|].
  apply IH.
  - apply step_objs_wf; [exact Hs|]. intros j Ej. apply Hops. left. exact Ej.
  - intros j Hj. apply Hops. right. exact Hj.
Qed.

(* the same, in the terms of the documented rule *)
Theorem view_tracks_selection c cls ops n :
  wf_cfg c -> wf_classes cls -> (forall i, In (OPut i) ops -> wf_ingress i) ->
  let s := run c cls (ops ++ [OSwap]) in
  In n (w_view s) <-> exists i, find_ingress (w_objs s) n = Some i /\ selected c cls i.
Proof.
  intros Hc Hw Hops. cbn zeta. rewrite view_tracks_validity.
  assert (Hwf : forall i, In i (w_objs (run c cls (ops ++ [OSwap]))) -> wf_ingress i).
  { apply run_objs_wf. intros i Hi. apply in_app_or in Hi as [Hi|[Hi|[]]]; [auto|discriminate]. }
  assert (Hin : forall l m i, find_ingress l m = Some i -> In i l).
  { induction l as [|h t IH]; cbn [find_ingress]; intros m i H; [discriminate|].
    destruct (String.eqb (i_name h) m); [injection H as <-; left; reflexivity|right; eapply IH; exact H]. }
  split; intros (i & Hf & Hv); exists i; (split; [exact Hf|]);
    apply (is_valid_iff_selected c cls i Hc Hw (Hwf i (Hin _ _ _ Hf))); exact Hv.
Qed.

(* non-vacuity: a history with every kind of transition in one batch *)
Example view_example :
  let c := {| c_class := "haproxy"; c_controller := "ctl"; c_watch := false; c_prec := false |} in
  let mk n a := {| i_name := n; i_ann := a; i_cls := None; i_oann := 0; i_spec := 0; i_gen := 0; i_rv := 0 |} in
  let ops := [OSwap; OPut (mk "a/i1" (Some "haproxy")); OPut (mk "a/i1" (Some "nginx"));
              OPut (mk "a/i2" (Some "haproxy")); ODelete "a/i2"; OPut (mk "b/i3" (Some "haproxy"))] in
  w_view (run c [] (ops ++ [OSwap])) = ["b/i3"].
Proof. vm_compute. reflexivity. Qed.
