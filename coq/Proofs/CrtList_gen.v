(* C15, hosts level: the crt-list generated from ANY hosts model (Model/CrtList.v part 6:
   certificates from ingress tls blocks, Gateway listeners, default certificate, bind
   options of auth-tls / ciphers / alpn, ssl-passthrough hosts) and HAProxy's selection on
   it: every TLS host is served with its own certificate file whatever options, wildcards
   and other hosts exist; passthrough hosts have no line; the converter-level crt_list of
   Model/CrtList.v is the special case of hosts without options. *)
From Coq Require Import List Bool String Ascii ZArith Sorted Permutation Lia.
From HI Require Import Model.Tracker Model.Conv Model.CrtList
                       Proofs.Conv Proofs.ConvSort Proofs.CrtList Proofs.CrtList_e2e.
Import ListNotations.
Open Scope string_scope.

(* ---- find_hcfg ---- *)
Lemma find_hcfg_some n l h : find_hcfg n l = Some h -> In h l /\ hc_name h = n.
Proof.
  unfold find_hcfg. intros H. apply find_some in H as [Hi He]. apply String.eqb_eq in He. auto.
Qed.

Lemma find_hcfg_none_iff n l : find_hcfg n l = None <-> ~ In n (map hc_name l).
Proof.
  unfold find_hcfg. induction l as [|a l IH]; cbn; [intuition|].
  destruct (String.eqb_spec (hc_name a) n) as [E|E].
  - split; [discriminate|]. intros H. exfalso. apply H. left. exact E.
  - rewrite IH. intuition.
Qed.

Lemma find_hcfg_unique l h : NoDup (map hc_name l) -> In h l -> find_hcfg (hc_name h) l = Some h.
Proof.
  unfold find_hcfg. induction l as [|a l IH]; cbn; intros Hnd Hin; [contradiction|].
  inversion Hnd as [|? ? Hn Hnd']; subst.
  destruct (String.eqb_spec (hc_name a) (hc_name h)) as [E|E].
  - destruct Hin as [->|Hin]; [reflexivity|]. exfalso. apply Hn. rewrite E. apply in_map. exact Hin.
  - destruct Hin as [->|Hin]; [contradiction|]. apply IH; assumption.
Qed.

(* ---- sorting keeps the elements ---- *)
Lemma insert_hcfg_perm x l : Permutation (x :: l) (insert_hcfg x l).
Proof.
  induction l as [|y l IH]; cbn; [apply Permutation_refl|].
  destruct (str_ltb (hc_name y) (hc_name x)); [|apply Permutation_refl].
  eapply Permutation_trans; [apply perm_swap|]. apply perm_skip. exact IH.
Qed.

Lemma sort_hcfg_perm l : Permutation l (sort_hcfg l).
Proof.
  induction l as [|x l IH]; cbn; [constructor|].
  eapply Permutation_trans; [apply perm_skip; exact IH|]. apply insert_hcfg_perm.
Qed.

Definition real_hosts (l : list hcfg) : list hcfg :=
  sort_hcfg (filter (fun h => negb (String.eqb (hc_name h) default_host)) l).

Lemma real_hosts_In l h : In h (real_hosts l) <-> In h l /\ hc_name h <> default_host.
Proof.
  unfold real_hosts. split.
  - intros H. apply (Permutation_in _ (Permutation_sym (sort_hcfg_perm _))) in H.
    apply filter_In in H as [Hi Hn]. split; [exact Hi|].
    apply negb_true_iff in Hn. apply String.eqb_neq. exact Hn.
  - intros [Hi Hn]. apply (Permutation_in _ (sort_hcfg_perm _)). apply filter_In. split; [exact Hi|].
    apply negb_true_iff. apply String.eqb_neq. exact Hn.
Qed.

Lemma real_hosts_NoDup l : NoDup (map hc_name l) -> NoDup (map hc_name (real_hosts l)).
Proof.
  intros H. unfold real_hosts.
  eapply Permutation_NoDup; [apply Permutation_map; apply sort_hcfg_perm|].
  apply NoDup_map_filter. exact H.
Qed.

Lemma find_hcfg_real l n : NoDup (map hc_name l) -> n <> default_host ->
  find_hcfg n (real_hosts l) = find_hcfg n l.
Proof.
  intros Hnd Hn. destruct (find_hcfg n l) as [h|] eqn:E.
  - apply find_hcfg_some in E as [Hi He]. subst n.
    apply find_hcfg_unique; [apply real_hosts_NoDup; exact Hnd|]. apply real_hosts_In. auto.
  - apply find_hcfg_none_iff. apply find_hcfg_none_iff in E. intros Hc. apply E.
    apply in_map_iff in Hc as (h & He & Hi). apply real_hosts_In in Hi as [Hi _].
    apply in_map_iff. exists h. auto.
Qed.

(* ---- looking a name up in the generated list ---- *)
Lemma gen_line_filter d l h g : gen_line d l h = Some g -> gl_filter g = hc_name h.
Proof.
  unfold gen_line. destruct (hc_pass h); [discriminate|].
  destruct (hc_custom d h); [intros [= <-]; reflexivity|].
  destruct (hc_hastls h && gen_wild_custom d l h); [intros [= <-]; reflexivity|discriminate].
Qed.

Definition line_of (d : string) (l : list hcfg) (n : string) : option string :=
  match find_hcfg n l with
  | Some h => match gen_line d l h with Some g => Some (gl_crt g) | None => None end
  | None => None
  end.

Lemma find_filter_gen_lines d l n : is_neg n = false -> forall l',
  NoDup (map hc_name l') ->
  find_filter n (map plain (flat_map (fun h => opt_list_g (gen_line d l h)) l'))
  = match find_hcfg n l' with
    | Some h => match gen_line d l h with Some g => Some (gl_crt g) | None => None end
    | None => None
    end.
Proof.
  intros Hn. unfold find_filter. induction l' as [|a l' IH]; intros Hnd; cbn [flat_map map]; [reflexivity|].
  inversion Hnd as [|? ? Hna Hnd']; subst. rewrite map_app, find_app.
  unfold find_hcfg. cbn [find]. fold (find_hcfg n l').
  destruct (String.eqb_spec (hc_name a) n) as [E|E].
  - destruct (gen_line d l a) as [g|] eqn:Eg; cbn [opt_list_g map find plain cl_filter cl_crt].
    + rewrite (gen_line_filter d l a g Eg), E, Hn, String.eqb_refl. reflexivity.
    + rewrite (IH Hnd').
      assert (Hx : find_hcfg n l' = None) by (apply find_hcfg_none_iff; rewrite <- E; exact Hna).
      rewrite Hx. reflexivity.
  - destruct (gen_line d l a) as [g|] eqn:Eg; cbn [opt_list_g map find plain cl_filter cl_crt].
    + rewrite (gen_line_filter d l a g Eg).
      assert (Hx : String.eqb (hc_name a) n = false) by (apply String.eqb_neq; exact E).
      rewrite Hx, andb_false_r. exact (IH Hnd').
    + exact (IH Hnd').
Qed.

Lemma find_filter_skip_neg n e r : is_neg (cl_filter e) = true -> find_filter n (e :: r) = find_filter n r.
Proof. intros H. unfold find_filter. cbn [find]. rewrite H. reflexivity. Qed.

Lemma find_filter_gen d l n : NoDup (map hc_name l) -> is_neg n = false -> n <> default_host ->
  find_filter n (map plain (crt_list_gen d l)) = line_of d l n.
Proof.
  intros Hnd Hn Hd. unfold crt_list_gen. fold (real_hosts l). cbn [map].
  rewrite find_filter_skip_neg by reflexivity.
  rewrite (find_filter_gen_lines d l n Hn _ (real_hosts_NoDup l Hnd)).
  rewrite (find_hcfg_real l n Hnd Hd). reflexivity.
Qed.

Lemma served_gen_lookup d l n : NoDup (map hc_name l) -> name_ok n ->
  served_gen d l n =
  match line_of d l n with
  | Some c => c
  | None => match wild_of n with
            | Some wn => match line_of d l wn with Some c => c | None => d end
            | None => d
            end
  end.
Proof.
  intros Hnd [Hd Hn]. unfold served_gen, sni_select.
  rewrite (find_filter_gen d l n Hnd Hn Hd).
  destruct (line_of d l n); [reflexivity|].
  destruct (wild_of n) as [wn|] eqn:Ew; [|reflexivity].
  rewrite (find_filter_gen d l wn Hnd (wild_of_neg n wn Ew) (wild_of_not_default n wn Ew)).
  destruct (line_of d l wn); reflexivity.
Qed.

(* ---- the theorems ---- *)
Lemma not_custom_crtfile d h : hc_custom d h = false -> gen_crtfile d h = d.
Proof.
  unfold hc_custom, gen_crtfile. intros H. repeat (apply orb_false_iff in H as [H _]).
  destruct (nonempty (hc_crt h)); [|reflexivity]. cbn in H. apply negb_false_iff, String.eqb_eq in H. exact H.
Qed.

Lemma line_of_not_custom d l wn wh :
  find_hcfg wn l = Some wh -> (hc_pass wh = true \/ hc_custom d wh = false) ->
  match line_of d l wn with Some c => c | None => d end = d.
Proof.
  intros Hf Hc. unfold line_of. rewrite Hf. unfold gen_line.
  destruct (hc_pass wh); [reflexivity|]. destruct Hc as [Hc|Hc]; [discriminate|]. rewrite Hc.
  destruct (hc_hastls wh && gen_wild_custom d l wh); [|reflexivity].
  cbn [gl_crt]. apply not_custom_crtfile. exact Hc.
Qed.

(* every host that terminates TLS is served with its own certificate file (the default
   one if it has none), whatever bind options it carries and whatever the other hosts are *)
Theorem gen_serves_own : forall d l h,
  NoDup (map hc_name l) -> In h l -> name_ok (hc_name h) ->
  hc_pass h = false -> (hc_hastls h = true \/ hc_custom d h = true) ->
  served_gen d l (hc_name h) = gen_crtfile d h.
Proof.
  intros d l h Hnd Hin Hok Hp Ht.
  rewrite (served_gen_lookup d l _ Hnd Hok). unfold line_of at 1.
  rewrite (find_hcfg_unique l h Hnd Hin). unfold gen_line. rewrite Hp.
  destruct (hc_custom d h) eqn:Ec; [reflexivity|].
  destruct Ht as [Ht|Ht]; [|discriminate]. rewrite Ht. cbn [andb].
  destruct (gen_wild_custom d l h) eqn:Ew; [reflexivity|].
  rewrite (not_custom_crtfile d h Ec).
  destruct (wild_of (hc_name h)) as [wn|] eqn:Ewn; [|reflexivity].
  unfold gen_wild_custom in Ew. rewrite Ewn in Ew.
  destruct (find_hcfg wn l) as [wh|] eqn:Ef.
  - apply (line_of_not_custom d l wn wh Ef).
    destruct (hc_pass wh); [left; reflexivity|right].
    destruct (String.eqb_spec (hc_name wh) (hc_name h)) as [E|E]; cbn in Ew; [|exact Ew].
    apply find_hcfg_some in Ef as [Hi _].
    assert (wh = h).
    { pose proof (find_hcfg_unique l wh Hnd Hi) as H1. pose proof (find_hcfg_unique l h Hnd Hin) as H2.
      rewrite E in H1. congruence. }
    subst wh. exact Ec.
  - unfold line_of. rewrite Ef. reflexivity.
Qed.

(* an ssl-passthrough host has no line: its SNI is routed raw by the TCP frontend *)
Theorem gen_passthrough_no_line : forall d l h g,
  NoDup (map hc_name l) -> In h l -> hc_pass h = true -> is_neg (hc_name h) = false ->
  In g (crt_list_gen d l) -> gl_filter g <> hc_name h.
Proof.
  intros d l h g Hnd Hin Hp Hn Hg. unfold crt_list_gen in Hg. fold (real_hosts l) in Hg.
  destruct Hg as [<-|Hg].
  - cbn. intros E. rewrite <- E in Hn. discriminate.
  - apply in_flat_map in Hg as (h' & Hh' & Hg).
    destruct (gen_line d l h') as [g'|] eqn:Eg; cbn in Hg; [|contradiction].
    destruct Hg as [<-|[]]. rewrite (gen_line_filter d l h' g' Eg). intros E.
    apply real_hosts_In in Hh' as [Hh' _].
    assert (h' = h).
    { pose proof (find_hcfg_unique l h' Hnd Hh') as H1. pose proof (find_hcfg_unique l h Hnd Hin) as H2.
      rewrite E in H1. congruence. }
    subst h'. unfold gen_line in Eg. rewrite Hp in Eg. discriminate.
Qed.

(* the line of a host with bind options carries them, with its own certificate *)
Theorem gen_line_options : forall d l h,
  hc_pass h = false -> hc_custom d h = true ->
  gen_line d l h = Some {| gl_crt := gen_crtfile d h; gl_opts := hc_bind h; gl_filter := hc_name h |}.
Proof. intros d l h Hp Hc. unfold gen_line. rewrite Hp, Hc. reflexivity. Qed.

(* a name that is no host: the wildcard host covering it, else the default certificate *)
Theorem gen_not_a_host : forall d l n,
  NoDup (map hc_name l) -> name_ok n -> ~ In n (map hc_name l) ->
  served_gen d l n = match wild_of n with
                     | Some wn => match line_of d l wn with Some c => c | None => d end
                     | None => d
                     end.
Proof.
  intros d l n Hnd Hok Hno. rewrite (served_gen_lookup d l n Hnd Hok). unfold line_of at 1.
  apply find_hcfg_none_iff in Hno. rewrite Hno. reflexivity.
Qed.

(* ================================================================== *)
(* the converter-level crt_list is the special case                    *)
(* ================================================================== *)
Lemma find_hcfg_of s names n :
  find_hcfg n (map (hcfg_of s) names) = if mem_str n names then Some (hcfg_of s n) else None.
Proof.
  unfold find_hcfg, mem_str. induction names as [|a l IH]; cbn; [reflexivity|].
  rewrite (String.eqb_sym n a).
  destruct (String.eqb_spec a n) as [->|E]; [reflexivity|exact IH].
Qed.

Lemma map_hcfg_names s names : map hc_name (map (hcfg_of s) names) = names.
Proof. rewrite map_map. cbn. apply map_id. Qed.

Lemma hc_custom_of s h : htls s h <> Some "" ->
  hc_custom default_crt (hcfg_of s h) = custom_tls s h.
Proof.
  intros Hne. unfold hc_custom, custom_tls, hcfg_of, nonempty. cbn.
  destruct (htls s h) as [c|]; cbn; [|reflexivity].
  rewrite !orb_false_r. destruct (String.eqb_spec c ""); [subst; contradiction|reflexivity].
Qed.

Lemma gen_line_of_state s names h :
  (forall x, htls s x <> Some "") -> (forall x, htls s x <> None -> In x names) ->
  match gen_line default_crt (map (hcfg_of s) names) (hcfg_of s h) with
  | Some g => Some (gl_crt g) | None => None end = line_crt s h.
Proof.
  intros Hne Hcov. unfold gen_line, line_crt. cbn [hc_pass hcfg_of].
  rewrite (hc_custom_of s h (Hne h)). unfold custom_tls.
  destruct (htls s h) as [c|] eqn:Eh; cbn [hc_hastls hcfg_of]; [|rewrite Eh; reflexivity].
  destruct (String.eqb_spec c default_crt) as [E|E]; cbn [negb].
  - rewrite Eh. cbn [andb].
    assert (Hw : gen_wild_custom default_crt (map (hcfg_of s) names) (hcfg_of s h) = wild_custom s h).
    { unfold gen_wild_custom, wild_custom. cbn [hc_name hcfg_of].
      destruct (wild_of h) as [wn|] eqn:Ew; [|reflexivity].
      rewrite find_hcfg_of. destruct (mem_str wn names) eqn:Em.
      - cbn [hc_name hc_pass hcfg_of negb andb]. rewrite (hc_custom_of s wn (Hne wn)).
        destruct (String.eqb_spec wn h) as [->|Hx]; cbn [negb andb]; [|reflexivity].
        unfold custom_tls. rewrite Eh, E, String.eqb_refl. reflexivity.
      - unfold custom_tls. destruct (htls s wn) as [c'|] eqn:Ec; [|reflexivity].
        exfalso. assert (Hin : In wn names) by (apply Hcov; rewrite Ec; discriminate).
        apply mem_str_In in Hin. congruence. }
    rewrite Hw. destruct (wild_custom s h); cbn [gl_crt]; [|reflexivity].
    unfold gen_crtfile, nonempty. cbn [hc_crt hcfg_of]. rewrite Eh.
    destruct (String.eqb c ""); cbn; [reflexivity|rewrite E; reflexivity].
  - cbn [gl_crt]. unfold gen_crtfile, nonempty. cbn [hc_crt hcfg_of]. rewrite Eh.
    destruct (String.eqb_spec c ""); [subst; exfalso; exact (Hne h Eh)|reflexivity].
Qed.

Lemma mem_real_names names n : n <> default_host -> mem_str n (real_names names) = mem_str n names.
Proof.
  intros Hd. unfold real_names, mem_str. induction names as [|a l IH]; cbn; [reflexivity|].
  destruct (String.eqb_spec a default_host) as [->|E]; cbn.
  - destruct (String.eqb_spec n default_host); [contradiction|exact IH].
  - rewrite IH. reflexivity.
Qed.

Theorem gen_refines : forall names s,
  NoDup names -> (forall x, htls s x <> Some "") -> (forall x, htls s x <> None -> In x names) ->
  forall n, name_ok n ->
    served_gen default_crt (map (hcfg_of s) names) n = served_in names s n.
Proof.
  intros names s Hnd Hne Hcov n Hok.
  assert (HndL : NoDup (map hc_name (map (hcfg_of s) names))) by (rewrite map_hcfg_names; exact Hnd).
  rewrite (served_gen_lookup _ _ n HndL Hok). destruct Hok as [Hd Hn].
  rewrite (served_in_lookup names s n Hn).
  assert (Hl : forall m, m <> default_host ->
            line_of default_crt (map (hcfg_of s) names) m = lookup names s m).
  { intros m Hm. unfold line_of, lookup. rewrite find_hcfg_of, (mem_real_names names m Hm).
    destruct (mem_str m names); [|reflexivity]. apply gen_line_of_state; assumption. }
  rewrite (Hl n Hd). destruct (lookup names s n); [reflexivity|].
  destruct (wild_of n) as [wn|] eqn:Ew; [|reflexivity].
  rewrite (Hl wn (wild_of_not_default n wn Ew)). reflexivity.
Qed.

(* ... for the full sync of a cluster whose secrets have non empty hashes *)
Lemma insert_str_NoDup x l : NoDup l -> ~ In x l -> NoDup (insert_str x l).
Proof.
  induction l as [|y l IH]; cbn; intros Hnd Hn; [constructor; [intros []|constructor]|].
  inversion Hnd as [|? ? Hy Hnd']; subst.
  destruct (str_ltb y x).
  - constructor.
    + rewrite insert_str_In. intros [->|H]; [apply Hn; left; reflexivity|contradiction].
    + apply IH; [exact Hnd'|]. intros H. apply Hn. right. exact H.
  - constructor; [exact Hn|exact Hnd].
Qed.

Lemma dedup_NoDup l : NoDup (dedup l).
Proof.
  induction l as [|x l IH]; cbn; [constructor|].
  destruct (existsb (String.eqb x) l) eqn:E; [exact IH|].
  constructor; [|exact IH]. rewrite dedup_In. intros H.
  assert (existsb (String.eqb x) l = true) by (apply existsb_exists; exists x; split; [exact H|apply String.eqb_refl]).
  congruence.
Qed.

Lemma sort_strs_NoDup l : NoDup l -> NoDup (sort_strs l).
Proof.
  induction l as [|x l IH]; cbn; intros H; [constructor|].
  inversion H as [|? ? Hx Hl]; subst. apply insert_str_NoDup; [apply IH; exact Hl|].
  rewrite sort_strs_In. exact Hx.
Qed.

Lemma host_names_NoDup w : NoDup (host_names w).
Proof. unfold host_names. apply sort_strs_NoDup. apply dedup_NoDup. Qed.

Theorem gen_refines_full : forall w,
  (forall k c, In (k, c) (w_secrets w) -> c <> "") ->
  forall n, name_ok n ->
    served_gen default_crt (map (hcfg_of (fst (sync_full w))) (host_names w)) n = served w n.
Proof.
  intros w Hs n Hok. unfold served. apply gen_refines; [apply host_names_NoDup| | |exact Hok].
  - intros x. rewrite htls_sync_full. destruct (winner_ref w x) as [r|]; cbn; [|discriminate].
    intros [= E]. unfold ref_cert in E. destruct (String.eqb r ""); [discriminate|].
    destruct (assoc r (w_secrets w)) as [c|] eqn:Ea; [|discriminate].
    apply assoc_In in Ea. exact (Hs r c Ea E).
  - intros x Hx. rewrite htls_sync_full in Hx. destruct (winner_ref w x) as [r|] eqn:Er; [|contradiction].
    exact (winner_host_name w x r Er).
Qed.

(* an executable witness with every kind of host: custom certificate + client
   certificate options, a host on the default certificate under a custom wildcard,
   a passthrough host, a host without tls *)
Definition mk (n crt : string) (tls pass : bool) (ca : string) : hcfg :=
  {| hc_name := n; hc_crt := crt; hc_hastls := tls; hc_pass := pass; hc_alpn := ""; hc_ca := ca;
     hc_crl := ""; hc_ciphers := ""; hc_suites := ""; hc_options := "" |}.
Definition g_hosts : list hcfg :=
  [ mk "p.wild.example" "P" true true "";  mk "*.wild.example" "W" true false "CA1";
    mk "a.wild.example" "" true false "";  mk "b.wild.example" "B" true false "";
    mk "c.wild.example" "" false false ""; mk "<default>" "" false false "" ].

Example gen_example :
  crt_list_gen "D" g_hosts =
  [ {| gl_crt := "D"; gl_opts := []; gl_filter := "!*" |};
    {| gl_crt := "W"; gl_opts := ["ca-file"; "CA1"; "verify"; "optional"]; gl_filter := "*.wild.example" |};
    {| gl_crt := "D"; gl_opts := []; gl_filter := "a.wild.example" |};
    {| gl_crt := "B"; gl_opts := []; gl_filter := "b.wild.example" |} ] /\
  map (served_gen "D" g_hosts) ["a.wild.example"; "b.wild.example"; "c.wild.example"; "z.wild.example"; "other"]
  = ["D"; "B"; "W"; "W"; "D"].
Proof. vm_compute. split; reflexivity. Qed.
