(* Proofs about Model/Snippet.v (C19). *)
From Coq Require Import String Ascii List Bool NArith Lia.
From HI Require Import Lib.Snippet_Strs Model.Snippet.
Import ListNotations.
Open Scope string_scope.

(* ------------------------------------------------------------------ *)
(* basic string facts *)

Lemma app_empty_r : forall s, s ++ EmptyString = s.
Proof. induction s; cbn; congruence. Qed.

Lemma app_assoc_s : forall a b c : string, (a ++ b) ++ c = a ++ b ++ c.
Proof. induction a; cbn; intros; congruence. Qed.

Lemma is_empty_true : forall s, is_empty s = true <-> s = EmptyString.
Proof. destruct s; cbn; split; congruence. Qed.

Lemma is_nl_eq : forall c, is_nl c = true -> c = nl.
Proof.
  intros c H. unfold is_nl in H. apply N.eqb_eq in H.
  unfold nl. rewrite <- H. symmetry. apply ascii_N_embedding.
Qed.

Lemma is_nl_nl : is_nl nl = true.
Proof. reflexivity. Qed.

Lemma is_nl_space : forall c, is_nl c = true -> is_space c = true.
Proof. intros c H. apply is_nl_eq in H. subst. reflexivity. Qed.

(* ------------------------------------------------------------------ *)
(* firstToken *)

Lemma take_word_spec : forall tok rest,
  no_space tok = true -> starts_space rest -> take_word (tok ++ rest) = tok.
Proof.
  induction tok as [|c t IH]; cbn; intros rest Ht Hr.
  - destruct Hr as [->|(c & r & -> & Hc)]; cbn; [reflexivity|now rewrite Hc].
  - apply andb_true_iff in Ht as [Hc Ht]. apply negb_true_iff in Hc.
    rewrite Hc. f_equal. now apply IH.
Qed.

Lemma skip_spaces_app : forall ws s,
  all_space ws = true -> skip_spaces (ws ++ s) = skip_spaces s.
Proof.
  induction ws as [|c w IH]; cbn; intros s H; [reflexivity|].
  apply andb_true_iff in H as [Hc Hw]. rewrite Hc. now apply IH.
Qed.

Lemma skip_spaces_id : forall c r, is_space c = false -> skip_spaces (String c r) = String c r.
Proof. intros; cbn; now rewrite H. Qed.

Lemma skip_all_space : forall ws, all_space ws = true -> skip_spaces ws = EmptyString.
Proof.
  induction ws as [|c w IH]; cbn; intros H; [reflexivity|].
  apply andb_true_iff in H as [Hc Hw]. rewrite Hc. auto.
Qed.

(* the specification of firstToken: blanks, then the token, then end or a blank *)
Lemma first_token_spec : forall ws tok rest,
  all_space ws = true -> no_space tok = true -> starts_space rest ->
  (tok <> EmptyString \/ rest = EmptyString) ->
  first_token (ws ++ tok ++ rest) = tok.
Proof.
  intros ws tok rest Hw Ht Hr Hne. unfold first_token.
  rewrite skip_spaces_app by assumption.
  destruct tok as [|c t].
  - destruct Hne as [Hne| ->]; [congruence|]. reflexivity.
  - cbn in Ht. apply andb_true_iff in Ht as [Hc Ht]. apply negb_true_iff in Hc.
    change (String c t ++ rest) with (String c (t ++ rest)).
    rewrite skip_spaces_id by assumption.
    change (String c (t ++ rest)) with (String c t ++ rest).
    apply take_word_spec; [cbn; now rewrite Hc, Ht|assumption].
Qed.

Lemma take_word_decomp : forall s,
  exists rest, s = take_word s ++ rest /\ no_space (take_word s) = true /\ starts_space rest.
Proof.
  induction s as [|c r (rest & E & N & S)]; cbn.
  - exists EmptyString. repeat split; auto. now left.
  - destruct (is_space c) eqn:Hc.
    + exists (String c r). cbn. repeat split; auto. right. eauto.
    + exists rest. cbn. rewrite Hc, N. repeat split; auto. now rewrite <- E.
Qed.

Lemma skip_spaces_decomp : forall s,
  exists ws, s = ws ++ skip_spaces s /\ all_space ws = true /\
    (skip_spaces s = EmptyString \/ exists c r, skip_spaces s = String c r /\ is_space c = false).
Proof.
  induction s as [|c r (ws & E & A & T)]; cbn.
  - exists EmptyString. repeat split; auto.
  - destruct (is_space c) eqn:Hc.
    + exists (String c ws). cbn. rewrite Hc, A. repeat split; auto. now rewrite <- E.
    + exists EmptyString. cbn. repeat split; auto. right. eauto.
Qed.

(* every string decomposes that way around its first token (so the token is unique) *)
Lemma first_token_decomp : forall s,
  exists ws rest, s = ws ++ first_token s ++ rest /\
    all_space ws = true /\ no_space (first_token s) = true /\ starts_space rest.
Proof.
  intros s. unfold first_token.
  destruct (skip_spaces_decomp s) as (ws & E & A & _).
  destruct (take_word_decomp (skip_spaces s)) as (rest & E2 & N & S).
  exists ws, rest. repeat split; auto. now rewrite <- E2.
Qed.

Lemma first_token_no_space : forall s, no_space (first_token s) = true.
Proof. intros s. destruct (first_token_decomp s) as (? & ? & ? & ? & ? & ?); auto. Qed.

(* ------------------------------------------------------------------ *)
(* LineToSlice *)

Lemma split_nl_nonempty : forall s, split_nl s <> [].
Proof.
  induction s as [|c r IH]; cbn; [congruence|].
  destruct (is_nl c); [congruence|]. destruct (split_nl r); congruence.
Qed.

Lemma split_nl_app : forall a b, split_nl (a ++ NL ++ b) = (split_nl a ++ split_nl b)%list.
Proof.
  induction a as [|c a IH]; intros b.
  - cbn. reflexivity.
  - change (String c a ++ NL ++ b) with (String c (a ++ NL ++ b)).
    cbn [split_nl]. rewrite IH.
    destruct (is_nl c); [reflexivity|].
    destruct (split_nl a) eqn:E; [now apply split_nl_nonempty in E|]. reflexivity.
Qed.

Lemma split_nl_single : forall l, no_nl l = true -> split_nl l = [l].
Proof.
  induction l as [|c l IH]; cbn; intros H; [reflexivity|].
  apply andb_true_iff in H as [Hc Hl]. apply negb_true_iff in Hc.
  rewrite Hc, IH by assumption. reflexivity.
Qed.

Lemma split_nl_no_nl : forall s l, In l (split_nl s) -> no_nl l = true.
Proof.
  induction s as [|c r IH]; cbn; intros l H.
  - destruct H as [<-|[]]. reflexivity.
  - destruct (is_nl c) eqn:Hc.
    + destruct H as [<-|H]; [reflexivity|auto].
    + destruct (split_nl r) as [|h t] eqn:E.
      * destruct H as [<-|[]]. cbn. now rewrite Hc.
      * destruct H as [<-|H].
        -- cbn. rewrite Hc. cbn. apply IH. now left.
        -- apply IH. now right.
Qed.

Lemma join_split_nl : forall s, join_nl (split_nl s) = s.
Proof.
  induction s as [|c r IH]; cbn; [reflexivity|].
  destruct (is_nl c) eqn:Hc.
  - apply is_nl_eq in Hc. subst c.
    destruct (split_nl r) as [|h t] eqn:E; [now apply split_nl_nonempty in E|].
    change (join_nl (EmptyString :: h :: t)) with (NL ++ join_nl (h :: t)).
    rewrite IH. reflexivity.
  - destruct (split_nl r) as [|h t] eqn:E; [now apply split_nl_nonempty in E|].
    destruct t as [|h2 t].
    + cbn in *. now rewrite IH.
    + change (join_nl (String c h :: h2 :: t)) with (String c (h ++ NL ++ join_nl (h2 :: t))).
      change (join_nl (h :: h2 :: t)) with (h ++ NL ++ join_nl (h2 :: t)) in IH.
      now rewrite IH.
Qed.

Lemma split_nls : forall n, split_nl (nls n) = repeat EmptyString (S n).
Proof. induction n; cbn; [reflexivity|]. now rewrite IHn. Qed.

Lemma split_nl_trailing : forall t n, split_nl (t ++ nls n) = (split_nl t ++ repeat EmptyString n)%list.
Proof.
  intros t [|n].
  - cbn. now rewrite app_empty_r, app_nil_r.
  - change (nls (S n)) with (NL ++ nls n). rewrite split_nl_app, split_nls. reflexivity.
Qed.

Lemma trim_right_nl_decomp : forall s, exists n, s = trim_right_nl s ++ nls n.
Proof.
  induction s as [|c r (n & E)]; cbn.
  - exists O. reflexivity.
  - destruct (is_nl c && is_empty (trim_right_nl r)) eqn:H.
    + apply andb_true_iff in H as [Hc He]. apply is_nl_eq in Hc. apply is_empty_true in He.
      subst c. rewrite He in E. cbn in E. exists (S n). cbn. now rewrite <- E.
    + exists n. cbn. now rewrite <- E.
Qed.

Lemma trim_right_nl_empty : forall s, trim_right_nl s = EmptyString -> exists n, s = nls n.
Proof.
  intros s H. destruct (trim_right_nl_decomp s) as (n & E). rewrite H in E. eauto.
Qed.

(* lines of a non-empty value: newline-free, and joined by newlines they give back
   the value minus its trailing newlines *)
Lemma line_to_slice_lines : forall v l, In l (line_to_slice v) -> no_nl l = true.
Proof.
  unfold line_to_slice. intros v l. destruct (is_empty v); [intros []|]. apply split_nl_no_nl.
Qed.

Lemma line_to_slice_join : forall v,
  exists n, v = join_nl (line_to_slice v) ++ nls n.
Proof.
  intros v. unfold line_to_slice. destruct v as [|c r].
  - exists O. reflexivity.
  - cbn [is_empty]. rewrite join_split_nl. apply trim_right_nl_decomp.
Qed.

Lemma line_to_slice_nil : forall v, line_to_slice v = [] <-> v = EmptyString.
Proof.
  intros v. unfold line_to_slice. destruct v; cbn [is_empty]; split; try congruence.
  intros H. now apply split_nl_nonempty in H.
Qed.

(* a non-empty line standing anywhere in the value is one of the lines looked at *)
Lemma line_in_split : forall pre l post,
  ends_line pre -> begins_line post -> no_nl l = true ->
  In l (split_nl (pre ++ l ++ post)).
Proof.
  intros pre l post Hpre Hpost Hl.
  assert (Hlp : In l (split_nl (l ++ post))).
  { destruct Hpost as [->|(p & ->)].
    - rewrite app_empty_r, split_nl_single by assumption. now left.
    - rewrite split_nl_app, split_nl_single by assumption. now left. }
  destruct Hpre as [->|(p & ->)]; [assumption|].
  rewrite app_assoc_s. rewrite split_nl_app. apply in_or_app. now right.
Qed.

Lemma line_in_slice : forall pre l post,
  ends_line pre -> begins_line post -> no_nl l = true -> l <> EmptyString ->
  In l (line_to_slice (pre ++ l ++ post)).
Proof.
  intros pre l post Hpre Hpost Hl Hne.
  pose proof (line_in_split pre l post Hpre Hpost Hl) as Hin.
  set (v := pre ++ l ++ post) in *.
  unfold line_to_slice. destruct (is_empty v) eqn:Ev.
  - apply is_empty_true in Ev. rewrite Ev in Hin. destruct Hin as [<-|[]]. congruence.
  - destruct (trim_right_nl_decomp v) as (n & E). rewrite E in Hin.
    rewrite split_nl_trailing in Hin. apply in_app_or in Hin as [H|H]; [assumption|].
    apply repeat_spec in H. congruence.
Qed.

(* ------------------------------------------------------------------ *)
(* the keyword loop *)

Lemma blocked_iff : forall kws lines, blocked kws lines = true <-> hits kws lines.
Proof.
  induction kws as [|k ks IH]; intros lines; cbn.
  - split; [congruence|]. intros (k & [] & _).
  - destruct (is_empty k) eqn:Ek.
    + apply is_empty_true in Ek. subst k. rewrite IH. split.
      * intros (k & Hin & Hne & H). exists k. repeat split; auto. now right.
      * intros (k & [<-|Hin] & Hne & H); [congruence|]. exists k. auto.
    + assert (Hk : k <> EmptyString) by (intros ->; discriminate).
      destruct (String.eqb k "*") eqn:Es.
      * apply String.eqb_eq in Es. split; [|reflexivity]. intros _.
        exists k. split; [now left|]. split; [assumption|]. now left.
      * apply String.eqb_neq in Es.
        destruct (existsb (fun l => String.eqb (first_token l) k) lines) eqn:Ex.
        -- split; [|reflexivity]. intros _. apply existsb_exists in Ex as (l & Hl & Hf).
           apply String.eqb_eq in Hf. exists k. split; [now left|]. split; [assumption|].
           right. eauto.
        -- rewrite IH. split.
           ++ intros (k' & Hin & Hne & H). exists k'. repeat split; auto. now right.
           ++ intros (k' & [<-|Hin] & Hne & H).
              ** destruct H as [H|(l & Hl & Hf)]; [congruence|].
                 assert (existsb (fun l => String.eqb (first_token l) k) lines = true).
                 { apply existsb_exists. exists l. split; auto. now apply String.eqb_eq. }
                 congruence.
              ** exists k'. auto.
Qed.

(* dropped <-> `*` or a first token is listed (for a non-empty value) *)
Lemma dropped_iff : forall kws v, v <> EmptyString ->
  (custom_config kws v = None <-> hits kws (line_to_slice v)).
Proof.
  intros kws v Hv. unfold custom_config.
  destruct (line_to_slice v) as [|l ls] eqn:E.
  - apply line_to_slice_nil in E. congruence.
  - rewrite <- blocked_iff. destruct (blocked kws (l :: ls)); split; congruence.
Qed.

Lemma emitted_safe : forall kws v ls, custom_config kws v = Some ls ->
  ls = line_to_slice v /\ ls <> [] /\
  forall k, In k kws -> k <> EmptyString ->
    k <> "*" /\ forall l, In l ls -> first_token l <> k.
Proof.
  intros kws v ls. unfold custom_config.
  destruct (line_to_slice v) as [|l0 l1] eqn:E; [congruence|].
  destruct (blocked kws (l0 :: l1)) eqn:B; [congruence|].
  intros [= <-]. split; [reflexivity|]. split; [congruence|].
  intros k Hin Hne. split.
  - intros ->. assert (blocked kws (l0 :: l1) = true); [|congruence].
    apply blocked_iff. exists "*". repeat split; auto.
  - intros l Hl Hf. assert (blocked kws (l0 :: l1) = true); [|congruence].
    apply blocked_iff. exists k. repeat split; auto. right. eauto.
Qed.

Lemma star_blocks : forall kws v, In "*" kws -> custom_config kws v = None.
Proof.
  intros kws v H. unfold custom_config.
  destruct (line_to_slice v) as [|l0 l1] eqn:E; [reflexivity|].
  assert (blocked kws (l0 :: l1) = true) as ->; [|reflexivity].
  apply blocked_iff. exists "*". repeat split; auto. congruence.
Qed.

(* no way of spelling the line escapes: blanks before the keyword, anything after a
   blank behind it, the line anywhere in a multi-line value *)
Lemma no_bypass : forall kws k pre ws rest post,
  In k kws -> k <> EmptyString -> no_space k = true ->
  all_space ws = true -> no_nl ws = true ->
  starts_space rest -> no_nl rest = true ->
  ends_line pre -> begins_line post ->
  custom_config kws (pre ++ (ws ++ k ++ rest) ++ post) = None.
Proof.
  intros kws k pre ws rest post Hin Hne Hk Hws Hwn Hrest Hrn Hpre Hpost.
  set (l := ws ++ k ++ rest).
  assert (Hft : first_token l = k) by (apply first_token_spec; auto).
  assert (Hlne : l <> EmptyString).
  { intros E. rewrite E in Hft. cbn in Hft. congruence. }
  assert (Hnl : no_nl l = true).
  { assert (forall a b, no_nl a = true -> no_nl b = true -> no_nl (a ++ b) = true) as Happ.
    { induction a; cbn; intros; auto. apply andb_true_iff in H as [? ?].
      apply andb_true_iff; split; auto. }
    assert (no_nl k = true).
    { clear - Hk. induction k; cbn in *; auto. apply andb_true_iff in Hk as [A B].
      apply andb_true_iff; split; auto. apply negb_true_iff. apply negb_true_iff in A.
      destruct (is_nl a) eqn:E; auto. apply is_nl_space in E. congruence. }
    unfold l. auto. }
  apply dropped_iff.
  - intros E. destruct pre; [|discriminate]. cbn in E.
    destruct l; [congruence|discriminate].
  - exists k. repeat split; auto. right. exists l. split; auto.
    apply line_in_slice; auto.
Qed.

(* ------------------------------------------------------------------ *)
(* several annotations for one backend *)

Lemma mapper_get_first : forall p v adds d, mapper_get ((p, v) :: adds) d = v.
Proof. intros. unfold mapper_get. cbn. reflexivity. Qed.

Lemma mapper_get_none : forall d, mapper_get [] d = match d with Some v => v | None => EmptyString end.
Proof. reflexivity. Qed.

Lemma backend_custom_cases : forall kws adds d,
  backend_custom kws adds d = [] \/
  (backend_custom kws adds d = line_to_slice (mapper_get adds d) /\
   custom_config kws (mapper_get adds d) = Some (backend_custom kws adds d)).
Proof.
  intros. unfold backend_custom.
  destruct (custom_config kws (mapper_get adds d)) as [ls|] eqn:E; [right|now left].
  apply emitted_safe in E as H. destruct H as (-> & _). auto.
Qed.

(* what reaches the backend section is, whole, the snippet that won the merge, and
   none of its lines starts with a listed keyword; `*` listed -> nothing *)
Lemma backend_emitted_safe : forall kws adds d l,
  In l (backend_custom kws adds d) ->
  backend_custom kws adds d = line_to_slice (mapper_get adds d) /\
  ~ In "*" kws /\
  forall k, In k kws -> k <> EmptyString ->
    forall l', In l' (backend_custom kws adds d) -> first_token l' <> k.
Proof.
  intros kws adds d l Hl.
  destruct (backend_custom_cases kws adds d) as [E|(E1 & E2)].
  - rewrite E in Hl. destruct Hl.
  - split; [assumption|]. apply emitted_safe in E2 as (_ & _ & H). split.
    + intros Hs. destruct (H "*" Hs) as (Hne & _); congruence.
    + intros k Hk Hne. now apply H.
Qed.

Lemma backend_star_nothing : forall kws adds d, In "*" kws -> backend_custom kws adds d = [].
Proof. intros. unfold backend_custom. now rewrite star_blocks. Qed.

Lemma backend_keyword_nothing : forall kws adds d k l,
  In k kws -> k <> EmptyString -> In l (line_to_slice (mapper_get adds d)) ->
  first_token l = k -> backend_custom kws adds d = [].
Proof.
  intros kws adds d k l Hk Hne Hl Hf. unfold backend_custom.
  assert (custom_config kws (mapper_get adds d) = None) as ->; [|reflexivity].
  apply dropped_iff.
  - intros E. rewrite E in Hl. destruct Hl.
  - exists k. repeat split; auto. right. eauto.
Qed.

(* no keyword -> nothing is filtered (the filter is not vacuous) *)
Lemma backend_unfiltered : forall adds d,
  backend_custom [] adds d = line_to_slice (mapper_get adds d).
Proof.
  intros. unfold backend_custom, custom_config.
  destruct (line_to_slice (mapper_get adds d)); reflexivity.
Qed.

(* ------------------------------------------------------------------ *)
(* TCP service snippets *)

Lemma by_key_first : forall p v adds, by_key [] ((p, v) :: adds) = v :: by_key [p] adds.
Proof. reflexivity. Qed.

Lemma by_key_nil : forall adds, by_key [] adds = [] -> adds = [].
Proof. destruct adds as [|[p v] r]; cbn; congruence. Qed.

(* an annotation is registered: whatever is emitted is its whole snippet and is safe *)
Lemma tcp_emitted_safe : forall kws adds d l, adds <> [] ->
  In l (tcp_custom kws adds d) ->
  tcp_custom kws adds d = line_to_slice (mapper_get adds d) /\
  ~ In "*" kws /\
  forall k, In k kws -> k <> EmptyString ->
    forall l', In l' (tcp_custom kws adds d) -> first_token l' <> k.
Proof.
  intros kws adds d l Hne. unfold tcp_custom, mapper_get.
  destruct (by_key [] adds) as [|v r] eqn:E; [apply by_key_nil in E; congruence|].
  destruct (custom_config kws v) as [ls|] eqn:C; [|intros []].
  intros _. apply emitted_safe in C as (-> & _ & H). split; [reflexivity|]. split.
  - intros Hs. destruct (H "*" Hs) as (Hx & _); congruence.
  - intros k Hk Hk0. now apply H.
Qed.

Lemma tcp_star_nothing : forall kws adds d, adds <> [] -> In "*" kws -> tcp_custom kws adds d = [].
Proof.
  intros kws adds d Hne Hs. unfold tcp_custom.
  destruct (by_key [] adds) as [|v r] eqn:E; [apply by_key_nil in E; congruence|].
  now rewrite star_blocks.
Qed.

Lemma tcp_keyword_nothing : forall kws adds d k l, adds <> [] ->
  In k kws -> k <> EmptyString -> In l (line_to_slice (mapper_get adds d)) ->
  first_token l = k -> tcp_custom kws adds d = [].
Proof.
  intros kws adds d k l Hne Hk Hk0. unfold tcp_custom, mapper_get.
  destruct (by_key [] adds) as [|v r] eqn:E; [apply by_key_nil in E; congruence|].
  intros Hl Hf.
  assert (custom_config kws v = None) as ->; [|reflexivity].
  apply dropped_iff.
  - intros Ev. rewrite Ev in Hl. destruct Hl.
  - exists k. repeat split; auto. right. eauto.
Qed.

(* no annotation: the global ConfigMap value is used whatever the keywords *)
Lemma tcp_default_unaffected : forall kws d,
  tcp_custom kws [] d = line_to_slice (match d with Some v => v | None => EmptyString end).
Proof. reflexivity. Qed.

Lemma lines_cover : forall v,
  (forall l, In l (line_to_slice v) -> no_nl l = true) /\
  exists n, v = join_nl (line_to_slice v) ++ nls n.
Proof. intros v. split; [apply line_to_slice_lines|apply line_to_slice_join]. Qed.

(* ------------------------------------------------------------------ *)
(* global-scope keys *)

Lemma global_unaffected : forall kws g,
  global_custom kws g = global_custom [] g /\
  o_global (global_custom kws g) = line_to_slice (g_global g) /\
  o_defaults (global_custom kws g) = line_to_slice (g_defaults g) /\
  o_fe_early (global_custom kws g) = line_to_slice (g_fe_early g) /\
  o_sections (global_custom kws g) = line_to_slice (g_sections g) /\
  o_tcp (global_custom kws g) = line_to_slice (g_tcp g) /\
  (o_fe_late (global_custom kws g) = line_to_slice (g_fe_late g) \/
   (line_to_slice (g_fe_late g) = [] /\
    o_fe_late (global_custom kws g) = line_to_slice (g_fe g))).
Proof.
  intros. unfold global_custom. cbn. repeat split.
  destruct (line_to_slice (g_fe_late g)); auto.
Qed.

(* ------------------------------------------------------------------ *)
(* the hypotheses above are satisfiable / the functions compute what is meant *)

Definition TAB : string := String (ascii_of_N 9) EmptyString.

Example ex_first_token :
  first_token (TAB ++ "  server srv001 127.0.0.1:8080") = "server".
Proof. reflexivity. Qed.

Example ex_prefix_not_keyword : first_token "  http-request deny" <> "http".
Proof. cbn. congruence. Qed.

Example ex_lines : line_to_slice (NL ++ "  acl a path /" ++ NL ++ NL ++ " server s 1.1.1.1:80" ++ NL ++ NL)
  = [""; "  acl a path /"; ""; " server s 1.1.1.1:80"].
Proof. reflexivity. Qed.

Example ex_dropped : custom_config ["http-response"; ""; "server"]
  (NL ++ "  acl a path /" ++ NL ++ TAB ++ "server s 1.1.1.1:80" ++ NL) = None.
Proof. reflexivity. Qed.

Example ex_no_bypass_hyps :
  In "server" ["acl"; "server"] /\ no_space "server" = true /\
  all_space (TAB ++ " ") = true /\ no_nl (TAB ++ " ") = true /\
  starts_space " s 1.1.1.1:80" /\ no_nl " s 1.1.1.1:80" = true /\
  ends_line ("acl x" ++ NL) /\ begins_line (NL ++ "mode tcp").
Proof.
  repeat split; cbn; auto.
  - right. exists " "%char, "s 1.1.1.1:80". auto.
  - right. exists "acl x". reflexivity.
  - right. exists "mode tcp". reflexivity.
Qed.

Example ex_emitted : custom_config ["http"; "Server"] "  server s 1.1.1.1:80"
  = Some ["  server s 1.1.1.1:80"].
Proof. reflexivity. Qed.

Example ex_merge : backend_custom ["server"]
  [(1%N, " acl a path /"); (2%N, " server s 1.1.1.1:80"); (1%N, "x")] (Some "mode tcp")
  = [" acl a path /"].
Proof. reflexivity. Qed.

Example ex_default_filtered : backend_custom ["*"] [] (Some "mode tcp") = [].
Proof. reflexivity. Qed.

Example ex_tcp : tcp_custom ["tcp-request"] [(0%N, "  tcp-request content reject")] (Some " option tcplog") = []
  /\ tcp_custom ["tcp-request"] [] (Some " tcp-request content reject") = [" tcp-request content reject"].
Proof. split; reflexivity. Qed.

(* ------------------------------------------------------------------ *)
(* what is written, and how HAProxy reads it *)

Lemma is_cr_space : forall c, is_cr c = true -> is_space c = true.
Proof.
  intros c H. unfold is_cr in H. unfold is_space. apply N.eqb_eq in H. rewrite H. reflexivity.
Qed.

Lemma is_sptab_space : forall c, is_sptab c = true -> is_space c = true.
Proof.
  intros c H. unfold is_sptab in H. unfold is_space. apply orb_true_iff in H as [H|H];
    apply N.eqb_eq in H; rewrite H; reflexivity.
Qed.

Lemma take_sptab_take_word : forall s k,
  take_sptab (cut_cr s) = k -> no_space k = true -> take_word s = k.
Proof.
  induction s as [|c r IH]; cbn; intros k H Hk; [assumption|].
  destruct (is_cr c) eqn:Ecr.
  - cbn in H. subst k. now rewrite (is_cr_space _ Ecr).
  - cbn in H. destruct (is_sptab c) eqn:Est.
    + subst k. now rewrite (is_sptab_space _ Est).
    + subst k. cbn in Hk. apply andb_true_iff in Hk as (Hc & Hk'). apply negb_true_iff in Hc.
      rewrite Hc. f_equal. now apply IH.
Qed.

(* the first word HAProxy reads on a line, when it is a blank-free non-empty word, is the
   first token the filter saw *)
Lemma haproxy_word_first_token : forall l k,
  haproxy_word l = k -> k <> EmptyString -> no_space k = true -> first_token l = k.
Proof.
  unfold haproxy_word, first_token.
  induction l as [|c r IH]; cbn; intros k H Hne Hk; [congruence|].
  destruct (is_cr c) eqn:Ecr.
  - cbn in H. congruence.
  - cbn in H. destruct (is_sptab c) eqn:Est.
    + rewrite (is_sptab_space _ Est). now apply IH.
    + destruct (is_space c) eqn:Esp.
      * (* \v \f \n in front: the word HAProxy reads starts with it, it is not blank-free *)
        cbn in H. rewrite Est in H. subst k. cbn in Hk. rewrite Esp in Hk. discriminate.
      * apply (take_sptab_take_word (String c r)); [|assumption].
        cbn. now rewrite Ecr.
Qed.

Lemma LF_NL : LF = NL.
Proof. reflexivity. Qed.

Lemma no_nl_indent : forall l, no_nl l = true -> no_nl ("    " ++ l) = true.
Proof. intros l H. cbn. exact H. Qed.

Lemma written_lines : forall ls, (forall l, In l ls -> no_nl l = true) ->
  split_nl (written ls) = (map (fun l : string => ("    " ++ l)%string) ls ++ [EmptyString])%list.
Proof.
  induction ls as [|l r IH]; intros H; [reflexivity|].
  cbn [written map]. unfold write_line. rewrite LF_NL.
  replace (("    " ++ l ++ NL) ++ written r) with (("    " ++ l) ++ NL ++ written r)
    by (now rewrite !app_assoc_s).
  rewrite split_nl_app, split_nl_single by (apply no_nl_indent, H; now left).
  rewrite IH by (intros x Hx; apply H; now right). reflexivity.
Qed.

Lemma first_token_indent : forall l, first_token ("    " ++ l) = first_token l.
Proof. intros l. unfold first_token. now rewrite skip_spaces_app. Qed.

Lemma haproxy_word_indent : forall l, haproxy_word ("    " ++ l) = haproxy_word l.
Proof. reflexivity. Qed.

(* C19 on the written file (write = identity): cut at LF as HAProxy does, no line of the
   block written for an emitted snippet starts with a listed keyword, neither for the
   filter's reading of blanks nor for HAProxy's (space, tab, CR ends the statement) *)
Lemma written_safe : forall kws v ls, custom_config kws v = Some ls ->
  forall line, In line (split_nl (written ls)) ->
  forall k, In k kws -> k <> EmptyString -> no_space k = true ->
    first_token line <> k /\ haproxy_word line <> k.
Proof.
  intros kws v ls Hc line Hin k Hk Hne Hns.
  destruct (emitted_safe _ _ _ Hc) as (Hls & _ & Hsafe).
  rewrite written_lines in Hin by (intros l Hl; subst ls; eapply line_to_slice_lines; eauto).
  assert (Hft : first_token line <> k).
  { apply in_app_or in Hin as [Hin|[<-|[]]].
    - apply in_map_iff in Hin as (l & <- & Hl). rewrite first_token_indent.
      destruct (Hsafe k Hk Hne) as (_ & H). now apply H.
    - cbn. congruence. }
  split; [assumption|]. intros Hw. apply Hft. now apply haproxy_word_first_token.
Qed.

Example ex_written :
  written ["  acl a path /"; "  deny"] = "      acl a path /" ++ LF ++ "      deny" ++ LF.
Proof. reflexivity. Qed.

Example ex_haproxy_word_cr :
  haproxy_word ("    acl is_root path /" ++ String (ascii_of_N 13) "use-server s1") = "acl".
Proof. reflexivity. Qed.
