(* Batches as sequences of watcher events.

   Between two reconciliations the Ingress watcher receives any sequence of events: an
   object is added (its name must be absent), updated (its name must be present; the
   new object replaces the old) or deleted (its name must be present).  The add handler
   appends the object to changed.IngressesAdd, the update handler the new object to
   IngressesUpd, the delete handler the name to IngressesDel, and each records the name
   in changed.Links.  (An update that makes an ingress valid / invalid is reported by the
   watcher as an add / a delete: it is an add / delete event here.)

   events_wf: whatever the sequence -- several events for one Ingress included -- the
   batch it builds satisfies batch_wf between the cluster before and the cluster after.
   Hence model_partial_step_events: the partial sync of ANY sequence of Ingress events
   re-establishes the invariant. *)
From Coq Require Import List Bool String ZArith Lia Relations.
From HI Require Import Model.Tracker Model.Conv Proofs.Tracker Proofs.IncSync Proofs.Conv
                       Proofs.ConvSort Proofs.ConvHist_base Proofs.ConvHist_keys Proofs.ConvHist.
Import ListNotations.
Open Scope string_scope.
Open Scope list_scope.

Inductive event := EAdd (i : ingress) | EUpd (i : ingress) | EDel (n : string).

Definition ev_name (e : event) : string :=
  match e with EAdd i => i_full i | EUpd i => i_full i | EDel n => n end.

Definition remove_name (n : string) (l : list ingress) : list ingress :=
  filter (fun j => negb (String.eqb (i_full j) n)) l.

(* the cluster after one event; None when the event is impossible in that cluster *)
Definition apply_ev (l : list ingress) (e : event) : option (list ingress) :=
  match e with
  | EAdd i => if namein (i_full i) (map i_full l) then None else Some (i :: l)
  | EUpd i => if namein (i_full i) (map i_full l) then Some (i :: remove_name (i_full i) l) else None
  | EDel n => if namein n (map i_full l) then Some (remove_name n l) else None
  end.

Definition run_evs (l : list ingress) (es : list event) : option (list ingress) :=
  fold_left (fun o e => match o with Some l => apply_ev l e | None => None end) es (Some l).

Definition adds (es : list event) : list ingress :=
  flat_map (fun e => match e with EAdd i => [i] | _ => [] end) es.
Definition upds (es : list event) : list ingress :=
  flat_map (fun e => match e with EUpd i => [i] | _ => [] end) es.
Definition dels (es : list event) : list string :=
  flat_map (fun e => match e with EDel n => [n] | _ => [] end) es.

Lemma run_evs_snoc l es e :
  run_evs l (es ++ [e]) = match run_evs l es with Some l1 => apply_ev l1 e | None => None end.
Proof. unfold run_evs. rewrite fold_left_app. reflexivity. Qed.

(* ---- remove_name ---- *)
Lemma remove_name_In n l j : In j (remove_name n l) <-> In j l /\ i_full j <> n.
Proof.
  unfold remove_name. rewrite filter_In, negb_true_iff. split; intros [H1 H2]; (split; [exact H1|]).
  - intros E. apply String.eqb_eq in E. congruence.
  - destruct (String.eqb_spec (i_full j) n); [contradiction|reflexivity].
Qed.

Lemma remove_name_names n l m : In m (map i_full (remove_name n l)) <-> In m (map i_full l) /\ m <> n.
Proof.
  rewrite !in_map_iff. split.
  - intros (j & Hj & Hin). apply remove_name_In in Hin as [Hin Hne]. subst m. split; [exists j; tauto|exact Hne].
  - intros [(j & Hj & Hin) Hne]. exists j. split; [exact Hj|]. apply remove_name_In. subst m. tauto.
Qed.

(* ---- the invariant of a run ---- *)
Record run_inv (l0 l1 : list ingress) (es : list event) : Prop := {
  ri_nodup : NoDup (map i_full l1);
  ri_new : forall i, In i l1 -> ~ In i l0 -> In i (adds es) \/ In i (upds es);
  ri_gone : forall n, In n (map i_full l0) -> ~ In n (map i_full l1) -> In n (dels es);
  ri_readd : forall n, In n (dels es) -> In n (map i_full l1) -> In n (map i_full (adds es));
  ri_added_current : forall i, In i (adds es) -> ~ In (i_full i) (dels es) ->
                       ~ In (i_full i) (map i_full (upds es)) -> In i l1
}.

Lemma adds_snoc es e : adds (es ++ [e]) = adds es ++ match e with EAdd i => [i] | _ => [] end.
Proof. unfold adds. rewrite flat_map_app. cbn. rewrite app_nil_r. reflexivity. Qed.
Lemma upds_snoc es e : upds (es ++ [e]) = upds es ++ match e with EUpd i => [i] | _ => [] end.
Proof. unfold upds. rewrite flat_map_app. cbn. rewrite app_nil_r. reflexivity. Qed.
Lemma dels_snoc es e : dels (es ++ [e]) = dels es ++ match e with EDel n => [n] | _ => [] end.
Proof. unfold dels. rewrite flat_map_app. cbn. rewrite app_nil_r. reflexivity. Qed.

Lemma run_inv_step l0 l1 l2 es e :
  run_inv l0 l1 es -> apply_ev l1 e = Some l2 -> run_inv l0 l2 (es ++ [e]).
Proof.
  intros [Hnd Hnew Hgone Hre Hcur] He.
  destruct e as [i|i|n]; cbn [apply_ev] in He.
  - (* add *)
    destruct (namein (i_full i) (map i_full l1)) eqn:E; [discriminate|]. injection He as <-.
    apply namein_false in E.
    constructor; rewrite ?adds_snoc, ?upds_snoc, ?dels_snoc, ?app_nil_r.
    + cbn [map]. constructor; assumption.
    + intros j [<-|Hj] Hn; [left; apply in_or_app; right; left; reflexivity|].
      destruct (Hnew j Hj Hn) as [H|H]; [left; apply in_or_app; left; exact H|right; exact H].
    + intros m Hm Hn. apply Hgone; [exact Hm|]. intros Hc. apply Hn. cbn [map]. right. exact Hc.
    + intros m Hm Hin. rewrite map_app. apply in_or_app. cbn [map] in Hin. destruct Hin as [<-|Hin].
      * right. left. reflexivity.
      * left. apply Hre; assumption.
    + intros j Hj Hd Hu. apply in_app_or in Hj as [Hj|[<-|[]]]; [right; apply Hcur; assumption|left; reflexivity].
  - (* update *)
    destruct (namein (i_full i) (map i_full l1)) eqn:E; [|discriminate]. injection He as <-.
    apply namein_In in E.
    constructor; rewrite ?adds_snoc, ?upds_snoc, ?dels_snoc, ?app_nil_r.
    + cbn [map]. constructor.
      * intros Hc. apply remove_name_names in Hc as [_ Hc]. apply Hc. reflexivity.
      * unfold remove_name. apply NoDup_map_filter. exact Hnd.
    + intros j [<-|Hj] Hn; [right; apply in_or_app; right; left; reflexivity|].
      apply remove_name_In in Hj as [Hj _].
      destruct (Hnew j Hj Hn) as [H|H]; [left; exact H|right; apply in_or_app; left; exact H].
    + intros m Hm Hn. apply Hgone; [exact Hm|]. intros Hc. apply Hn. cbn [map].
      destruct (string_dec m (i_full i)) as [->|Hne]; [left; reflexivity|].
      right. apply remove_name_names. split; assumption.
    + intros m Hm Hin. apply Hre; [exact Hm|]. cbn [map] in Hin. destruct Hin as [<-|Hin]; [exact E|].
      apply remove_name_names in Hin. tauto.
    + intros j Hj Hd Hu. rewrite map_app in Hu. right. apply remove_name_In. split.
      * apply Hcur; [exact Hj|exact Hd|]. intros Hc. apply Hu. apply in_or_app. left. exact Hc.
      * intros Hc. apply Hu. apply in_or_app. right. left. symmetry. exact Hc.
  - (* delete *)
    destruct (namein n (map i_full l1)) eqn:E; [|discriminate]. injection He as <-.
    apply namein_In in E.
    constructor; rewrite ?adds_snoc, ?upds_snoc, ?dels_snoc, ?app_nil_r.
    + unfold remove_name. apply NoDup_map_filter. exact Hnd.
    + intros j Hj Hn. apply remove_name_In in Hj as [Hj _]. apply Hnew; assumption.
    + intros m Hm Hn. apply in_or_app. destruct (string_dec m n) as [->|Hne]; [right; left; reflexivity|].
      left. apply Hgone; [exact Hm|]. intros Hc. apply Hn. apply remove_name_names. split; assumption.
    + intros m Hm Hin. apply remove_name_names in Hin as [Hin Hne].
      apply in_app_or in Hm as [Hm|[Hm|[]]]; [apply Hre; assumption|congruence].
    + intros j Hj Hd Hu. apply remove_name_In. split.
      * apply Hcur; [exact Hj| |exact Hu]. intros Hc. apply Hd. apply in_or_app. left. exact Hc.
      * intros Hc. apply Hd. apply in_or_app. right. left. symmetry. exact Hc.
Qed.

Lemma run_inv_start l0 : NoDup (map i_full l0) -> run_inv l0 l0 [].
Proof.
  intros Hn. constructor; cbn.
  - exact Hn.
  - intros; contradiction.
  - intros; contradiction.
  - intros n [].
  - intros i [].
Qed.

Lemma run_evs_inv l0 : NoDup (map i_full l0) ->
  forall es l1, run_evs l0 es = Some l1 -> run_inv l0 l1 es.
Proof.
  intros Hn es. induction es as [|e es IH] using rev_ind; intros l1 Hr.
  - cbn in Hr. injection Hr as <-. apply run_inv_start. exact Hn.
  - rewrite run_evs_snoc in Hr. destruct (run_evs l0 es) as [lm|] eqn:E; [|discriminate].
    eapply run_inv_step; [apply IH; reflexivity|exact Hr].
Qed.

(* the batch the handlers build from the events (b_links may hold more) *)
Definition batch_of_events (es : list event) (b : batch) : Prop :=
  b_add b = adds es /\ b_upd b = upds es /\ b_del b = dels es /\
  (forall e, In e es -> In (KIngress, ev_name e) (b_links b)).

Lemma adds_In es i : In i (adds es) <-> In (EAdd i) es.
Proof.
  unfold adds. rewrite in_flat_map. split.
  - intros (e & He & Hi). destruct e; cbn in Hi; try contradiction. destruct Hi as [<-|[]]. exact He.
  - intros H. exists (EAdd i). split; [exact H|left; reflexivity].
Qed.
Lemma upds_In es i : In i (upds es) <-> In (EUpd i) es.
Proof.
  unfold upds. rewrite in_flat_map. split.
  - intros (e & He & Hi). destruct e; cbn in Hi; try contradiction. destruct Hi as [<-|[]]. exact He.
  - intros H. exists (EUpd i). split; [exact H|left; reflexivity].
Qed.
Lemma dels_In es n : In n (dels es) <-> In (EDel n) es.
Proof.
  unfold dels. rewrite in_flat_map. split.
  - intros (e & He & Hi). destruct e; cbn in Hi; try contradiction. destruct Hi as [<-|[]]. exact He.
  - intros H. exists (EDel n). split; [exact H|left; reflexivity].
Qed.

Theorem events_wf (w w' : world) (es : list event) (b : batch) :
  NoDup (map i_full (w_ings w)) ->
  run_evs (w_ings w) es = Some (w_ings w') ->
  batch_of_events es b ->
  batch_wf w w' b.
Proof.
  intros Hn Hr (Ha & Hu & Hd & Hl).
  destruct (run_evs_inv (w_ings w) Hn es (w_ings w') Hr) as [Hnd Hnew Hgone Hre Hcur].
  constructor; rewrite ?Ha, ?Hu, ?Hd; try assumption.
  - intros i Hi. apply in_app_or in Hi as [Hi|Hi].
    + apply adds_In in Hi. apply (Hl _ Hi).
    + apply upds_In in Hi. apply (Hl _ Hi).
  - intros n Hi. apply dels_In in Hi. apply (Hl _ Hi).
Qed.

(* one partial step, for any sequence of Ingress events in the batch *)
Theorem model_partial_step_events (w w' : world) (x : st) (es : list event) (b : batch) :
  Inv w x ->
  NoDup (map i_full (w_ings w)) ->
  run_evs (w_ings w) es = Some (w_ings w') ->
  batch_of_events es b ->
  H_view w w' x b ->
  exists x', sync_partial w' x b = Some x' /\ Inv w' x'.
Proof.
  intros HI Hn Hr Hb Hv. apply (model_partial_step_wf w w' x b HI (events_wf w w' es b Hn Hr Hb) Hv).
Qed.

Theorem model_partial_step_events_tracked (w w' : world) (x : st) (es : list event) (b : batch) :
  InvT w x ->
  NoDup (map i_full (w_ings w)) ->
  run_evs (w_ings w) es = Some (w_ings w') ->
  batch_of_events es b ->
  batch_links_ok w w' b -> no_redecl w' ->
  exists x', sync_partial w' x b = Some x' /\ InvT w' x'.
Proof.
  intros HI Hn Hr Hb Hbl Hnr.
  apply (model_partial_step_tracked w w' x b HI (events_wf w w' es b Hn Hr Hb) Hbl Hnr).
Qed.

(* the runs are not vacuous: create, update, delete and re-create one Ingress in a batch *)
Example run_evs_example :
  let a1 := {| i_ns := "d"; i_name := "a"; i_stamp := 1%Z; i_class := None; i_rules := [("h1", [])]; i_tls := [] |} in
  let a2 := {| i_ns := "d"; i_name := "a"; i_stamp := 1%Z; i_class := None; i_rules := [("h2", [])]; i_tls := [] |} in
  let a3 := {| i_ns := "d"; i_name := "a"; i_stamp := 9%Z; i_class := None; i_rules := [("h3", [])]; i_tls := [] |} in
  run_evs [] [EAdd a1; EUpd a2; EDel "d/a"; EAdd a3] = Some [a3] /\
  run_evs [] [EAdd a1; EAdd a2] = None.
Proof. vm_compute. split; reflexivity. Qed.
