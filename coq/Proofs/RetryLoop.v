(* Proofs about Model/RetryLoop.v: a retry is pending until files and running haproxy are
   those of the model, whatever the interleaving of events, attempts, faults and reloads. *)
From Coq Require Import NArith List Bool Lia.
From HI Require Import Model.ConfigSM Model.ConfigSM_Faults Model.RetryLoop Proofs.ConfigSM Proofs.ConfigSM_Faults.
Import ListNotations.
Open Scope N_scope.

(* a trace the controller can produce: the worker only takes ready items; the calls of each
   reconciliation follow the converters' protocol; a request for a full sync is served by a
   full sync (changed.NeedFullSync = req.fullsync => Clear); no silent reload drop *)
Fixpoint wf_trace (e : env) (L : loop) (tr : list lev) : Prop :=
  match tr with
  | [] => True
  | ev :: tr' =>
    enabled L ev = true /\
    match ev with
    | LAttempt full l fs =>
      wf_batch e (i_cfg (l_inst L)) l /\ armed fs FReloadSilent = false /\
      (full = true -> exists acqs, l = OClear :: acqs)
    | _ => True
    end /\
    wf_trace e (lstep e L ev) tr'
  end.

(* nothing was ever reconciled *)
Definition untouched (s : inst) : Prop := i_cfg s = config_empty /\ i_disk s = disk_empty /\ i_pending s = false.

Definition linv (e : env) (L : loop) : Prop :=
  reach e (l_inst L) /\
  (q_wch (l_q L) = true -> q_pending (l_q L) = true) /\
  (i_failed (l_inst L) = true -> q_pending (l_q L) = true) /\
  (i_failed (l_inst L) = false -> good e (l_inst L) \/ untouched (l_inst L)).

Lemma rset_any_add : forall q f, rset_any (rset_add q f) = true.
Proof. intros [p fl] []; cbn; auto. apply orb_true_r. Qed.
Lemma rset_mem_any : forall q f, rset_mem q f = true -> rset_any q = true.
Proof. intros [p fl] []; cbn; intros ->; auto. apply orb_true_r. Qed.

(* the reload queue's reload does not touch model nor files *)
Lemma reload_once_reach : forall e ok s, reach e s -> reach e (reload_once ok s).
Proof.
  intros e ok s R. unfold reload_once. destruct (i_pending s) eqn:P; auto. destruct ok; auto.
  destruct R as [D [C [Dp [G [NH St]]]]]. unfold reach. cbn [i_cfg i_disk i_failed i_clean].
  split; auto. split; auto. split; auto. split; auto. split; auto.
  destruct St as [F|[F [I [Rn [Gf [Hs Hv]]]]]]; [left; auto|right].
  split; auto. split; auto. split; [|auto].
  intros _ Go. cbn [i_running]. eexists. split; [reflexivity|].
  destruct (i_clean s) eqn:Cl.
  - split; [apply NH; auto|]. split; [apply Hs; auto|exact I].
  - exfalso. destruct (Hv eq_refl) as [Hv' _]. cbn in Go. congruence.
Qed.
Lemma reload_once_good : forall e ok s, good e s -> good e (reload_once ok s).
Proof.
  intros e ok s G. unfold reload_once. destruct (i_pending s) eqn:P; auto. destruct ok; auto.
  destruct G as [D [C [Dp [Gl [F [Cl [NH [Sh [I [Rn [Go Fo]]]]]]]]]]].
  unfold good. cbn [i_cfg i_disk i_failed i_clean].
  repeat (split; [solve [auto]|]). split; [|auto].
  intros _ _. cbn [i_running]. eexists. split; [reflexivity|]. auto.
Qed.
Lemma reload_once_untouched : forall ok s, untouched s -> reload_once ok s = s.
Proof. intros ok s [_ [_ P]]. unfold reload_once. rewrite P. reflexivity. Qed.
Lemma reload_once_failed : forall ok s, i_failed (reload_once ok s) = i_failed s.
Proof. intros ok s. unfold reload_once. destruct (i_pending s); destruct ok; reflexivity. Qed.

Lemma linv_init : forall e, linv e loop_init.
Proof.
  intros e. split; [apply reach_empty|]. split; [discriminate|]. split; [discriminate|].
  intros _. right. repeat split.
Qed.

Lemma q_pending_change : forall q f, q_pending (q_change q f) = true.
Proof. intros [w [a b] [c d]] []; destruct a, b, c, d; reflexivity. Qed.
Lemma q_pending_leader : forall q, q_pending (q_leader q) = true.
Proof. intros [w [a b] [c d]]; destruct a, b, c, d; reflexivity. Qed.
Lemma q_pending_tick : forall q f, q_pending (q_tick q f) = q_pending q.
Proof. intros [w [a b] [c d]] []; destruct a, b, c, d; reflexivity. Qed.
Lemma q_wch_tick : forall q f, q_wch (q_tick q f) = q_wch q.
Proof. intros [w [a b] [c d]] []; destruct c, d; reflexivity. Qed.
Lemma q_pending_attempt_err : forall q f, q_pending (q_attempt q f true) = true.
Proof. intros [w [a b] [c d]] []; destruct a, b, c, d; reflexivity. Qed.

Lemma linv_step : forall e L ev, shard_range e -> linv e L -> wf_trace e L [ev] -> linv e (lstep e L ev).
Proof.
  intros e L ev SR [R [Hw [Hf Hg]]] [En [W _]]. destruct ev as [full| |full|full l fs|ok]; cbn [lstep].
  - (* change *) unfold linv. cbn [l_inst l_q]. split; [exact R|]. rewrite q_pending_change. auto.
  - (* leader *) unfold linv. cbn [l_inst l_q]. split; [exact R|]. rewrite q_pending_leader. auto.
  - (* tick *) unfold linv. cbn [l_inst l_q]. split; [exact R|]. rewrite q_pending_tick, q_wch_tick. auto.
  - (* attempt *)
    cbn in En. rewrite En. destruct W as [Wb [NS _]]. cbv zeta. unfold linv. cbn [l_inst l_q].
    destruct (snd (step_f e fs (l_inst L) l)) eqn:Err.
    + (* failed: same request again, later *)
      split; [apply step_reach; auto|]. rewrite q_pending_attempt_err.
      split; [auto|]. split; [auto|].
      intros F. exfalso.
      assert (i_failed (fst (step_f e fs (l_inst L) l)) = true).
      { apply (failure_is_remembered e fs (l_inst L) l). rewrite (surjective_pairing (step_f e fs (l_inst L) l)), Err. reflexivity. }
      congruence.
    + assert (G : good e (fst (step_f e fs (l_inst L) l))).
      { apply (update_good e fs (l_inst L) l); auto. unfold step_f in *.
        rewrite (surjective_pairing (update_f e fs (sync e (l_inst L) l))), Err. reflexivity. }
      split; [apply good_reach; auto|]. split; [cbn; discriminate|].
      split; [|intros _; left; exact G].
      intros F. destruct G as [_ [_ [_ [_ [F' _]]]]]. congruence.
  - (* reload *) unfold linv. cbn [l_inst l_q]. split; [apply reload_once_reach; auto|]. split; [exact Hw|].
    rewrite reload_once_failed. split; [exact Hf|].
    intros F. destruct (Hg F) as [G|U]; [left; apply reload_once_good; auto|right].
    rewrite (reload_once_untouched ok _ U). exact U.
Qed.

Lemma wf_trace_app : forall e tr1 L tr2, wf_trace e L (tr1 ++ tr2) <-> wf_trace e L tr1 /\ wf_trace e (lrun e L tr1) tr2.
Proof.
  intros e. induction tr1 as [|ev tr1 IH]; cbn [app wf_trace lrun fold_left]; intros L tr2.
  - tauto.
  - rewrite (IH (lstep e L ev) tr2). unfold lrun. tauto.
Qed.

Lemma linv_run : forall e, shard_range e -> forall tr L, linv e L -> wf_trace e L tr -> linv e (lrun e L tr).
Proof.
  intros e SR. induction tr as [|ev tr IH]; cbn [lrun fold_left]; intros L I W; auto.
  destruct W as [En [W1 W2]]. apply IH; auto. apply linv_step; auto. cbn [wf_trace]. auto.
Qed.

(* (1) safety: while files or running haproxy are not those of the model - or while the
   watchers hold a change - something is pending *)
Theorem pending_until_converged : forall e, shard_range e ->
  forall tr, wf_trace e loop_init tr ->
    let L := lrun e loop_init tr in
    pending L = false ->
    q_wch (l_q L) = false /\
    (untouched (l_inst L) \/
     (i_failed (l_inst L) = false /\ disk_ok e (i_cfg (l_inst L)) (i_disk (l_inst L)) /\
      exists r, i_running (l_inst L) = Some r /\ disk_ok e (i_cfg (l_inst L)) r)).
Proof.
  intros e SR tr W L P.
  destruct (linv_run e SR tr loop_init (linv_init e) W) as [R [Hw [Hf Hg]]]. fold L in R, Hw, Hf, Hg.
  unfold pending in P. apply orb_false_iff in P. destruct P as [Pq Pi].
  split; [destruct (q_wch (l_q L)); auto; rewrite Hw in Pq; auto; discriminate|].
  assert (F : i_failed (l_inst L) = false) by (destruct (i_failed (l_inst L)); auto; rewrite Hf in Pq; auto; discriminate).
  destruct (Hg F) as [G|U]; [right|left; exact U].
  split; auto. split; [apply good_disk_ok; auto|apply good_loaded_ok; auto].
Qed.

(* (2) a failed attempt schedules the same request again ... *)
Theorem failed_attempt_is_requeued : forall e L full l fs,
  rset_mem (q_ready (l_q L)) full = true -> snd (step_f e fs (l_inst L) l) = true ->
  let L' := lstep e L (LAttempt full l fs) in
  rset_mem (q_delay (l_q L')) full = true /\ i_failed (l_inst L') = true.
Proof.
  intros e L full l fs En Err L'. unfold L'. cbn [lstep]. rewrite En. cbn [l_inst l_q q_attempt q_delay].
  rewrite Err. split.
  - destruct full; destruct (q_delay (l_q L)); reflexivity.
  - apply (failure_is_remembered e fs (l_inst L) l). rewrite (surjective_pairing (step_f e fs (l_inst L) l)), Err. reflexivity.
Qed.

(* ... and whatever happens meanwhile (events, ticks, other attempts failing, reloads), the
   next attempt without fault - full or partial, whatever it is handed - converges *)
Theorem attempt_after_failure_converges : forall e, shard_range e ->
  forall tr, wf_trace e loop_init tr ->
    let L := lrun e loop_init tr in
    (i_failed (l_inst L) = true -> q_pending (l_q L) = true) /\
    forall full l, wf_trace e L [LAttempt full l []] ->
      let L' := lstep e L (LAttempt full l []) in
      i_failed (l_inst L') = false /\ disk_ok e (i_cfg (l_inst L')) (i_disk (l_inst L')) /\
      ((inline e = true \/ i_pending (l_inst L') = false) ->
         exists r, i_running (l_inst L') = Some r /\ disk_ok e (i_cfg (l_inst L')) r).
Proof.
  intros e SR tr W L.
  destruct (linv_run e SR tr loop_init (linv_init e) W) as [R [Hw [Hf Hg]]]. fold L in R, Hw, Hf, Hg.
  split; [exact Hf|]. intros full l [En [[Wb _] _]] L'. cbn in En. unfold L'. cbn [lstep]. rewrite En. cbn [l_inst].
  assert (G : good e (fst (step_f e [] L.(l_inst) l))).
  { apply (update_good e [] (l_inst L) l); auto. apply update_nofault_eq. }
  split; [apply G|]. split; [apply good_disk_ok; auto|]. intros P. apply good_loaded_ok; auto.
Qed.

(* (3) the model after a trace is the one of the execution without any fault *)
Lemma loop_follows : forall e, shard_range e -> forall tr L s',
  reach e (l_inst L) -> reach e s' -> ieq (i_cfg (l_inst L)) (i_cfg s') -> wf_trace e L tr ->
  wf_hist e s' (erase (attempts e L tr)) /\
  ieq (i_cfg (l_inst (lrun e L tr))) (i_cfg (run_f e s' (erase (attempts e L tr)))) /\
  reach e (l_inst (lrun e L tr)) /\ reach e (run_f e s' (erase (attempts e L tr))).
Proof.
  intros e SR. induction tr as [|ev tr IH]; intros L s' R R' I W.
  - cbn. auto.
  - destruct W as [En [W1 W2]]. cbn [lrun fold_left]. fold (lrun e (lstep e L ev) tr).
    destruct ev as [full| |full|full l fs|ok]; cbn [attempts].
    + apply IH; auto.
    + apply IH; auto.
    + apply IH; auto.
    + cbn in En. rewrite En. destruct W1 as [Wb [NS _]].
      assert (C : clean (i_cfg (l_inst L))) by apply R. assert (C' : clean (i_cfg s')) by apply R'.
      assert (Wb' : wf_batch e (i_cfg s') l) by (apply (wf_batch_ieq e (i_cfg (l_inst L))); auto).
      assert (R1 : reach e (l_inst (lstep e L (LAttempt full l fs)))).
      { cbn [lstep]. rewrite En. cbn [l_inst]. apply step_reach; auto. }
      assert (R1' : reach e (fst (step_f e [] s' l))) by (apply step_reach; auto).
      assert (I1 : ieq (i_cfg (l_inst (lstep e L (LAttempt full l fs)))) (i_cfg (fst (step_f e [] s' l)))).
      { cbn [lstep]. rewrite En. cbn [l_inst]. apply step_ieq; auto. }
      destruct (IH _ _ R1 R1' I1 W2) as [A [B [Cc D]]].
      cbn [erase map run_f fold_left wf_hist fst snd]. fold (erase (attempts e (lstep e L (LAttempt full l fs)) tr)).
      split; [split; [auto|split; [reflexivity|auto]]|]. split; auto.
    + apply IH; auto.
      * cbn [lstep l_inst]. apply reload_once_reach; auto.
      * cbn [lstep l_inst]. destruct (reload_once_keeps ok (l_inst L)) as [E _]. rewrite E. exact I.
Qed.

(* Any trace - any interleaving of events, ticks, reloads and attempts, any faults - that ends
   with an attempt reporting success: files (and the haproxy it reloads) are exactly the
   state the execution of the same reconciliations without any fault is in. *)
Theorem eventually_fault_free_converges : forall e, shard_range e ->
  forall tr full l fs, wf_trace e loop_init (tr ++ [LAttempt full l fs]) ->
    let L := lrun e loop_init (tr ++ [LAttempt full l fs]) in
    let FF := run_f e inst_empty (erase (attempts e loop_init (tr ++ [LAttempt full l fs]))) in
    i_failed (l_inst L) = false ->
    disk_ok e (i_cfg (l_inst L)) (i_disk (l_inst L)) /\
    disk_ok e (i_cfg FF) (i_disk (l_inst L)) /\ disk_ok e (i_cfg FF) (i_disk FF) /\
    ((inline e = true \/ i_pending (l_inst L) = false) ->
       exists r, i_running (l_inst L) = Some r /\ disk_ok e (i_cfg FF) r).
Proof.
  intros e SR tr full l fs W L FF F.
  assert (I0 : ieq (i_cfg (l_inst loop_init)) (i_cfg inst_empty)) by (repeat split; auto).
  destruct (loop_follows e SR _ loop_init inst_empty (reach_empty e) (reach_empty e) I0 W) as [Wh [I [R R']]].
  fold L in I, R. fold FF in I, R'.
  destruct (linv_run e SR _ loop_init (linv_init e) W) as [_ [_ [_ Hg]]]. fold L in Hg.
  assert (G : good e (l_inst L)).
  { destruct (Hg F) as [G|[U1 [U2 _]]]; auto. exfalso.
    (* the last event is an enabled attempt: the instance is not untouched *)
    apply wf_trace_app in W. destruct W as [_ [En _]]. cbn in En.
    unfold L in U1. unfold lrun in U1. rewrite fold_left_app in U1. cbn [fold_left lstep] in U1.
    fold (lrun e loop_init tr) in U1, En. rewrite En in U1. cbn [l_inst] in U1.
    pose proof (update_items e fs (sync e (l_inst (lrun e loop_init tr)) l)) as Hi.
    fold (step_f e fs (l_inst (lrun e loop_init tr)) l) in Hi. rewrite U1 in Hi.
    destruct (update_f_shape e fs (sync e (l_inst (lrun e loop_init tr)) l)) as [c [d [cl [r [p [U _]]]]]].
    fold (step_f e fs (l_inst (lrun e loop_init tr)) l) in U. rewrite U in U1. cbn in U1. discriminate. }
  (* the fault-free execution ends with the same fault-free attempt: it is good as well *)
  assert (GF : good e FF).
  { unfold FF. clear I R'. revert Wh.
    assert (A : exists h, attempts e loop_init (tr ++ [LAttempt full l fs]) = h ++ [(l, fs)]).
    { apply wf_trace_app in W. destruct W as [_ [En _]]. cbn in En. clear -En.
      revert En. generalize loop_init. induction tr as [|ev tr IH]; intros L0 En.
      - cbn in *. rewrite En. exists []. reflexivity.
      - cbn [app attempts]. cbn [lrun fold_left] in En. fold (lrun e (lstep e L0 ev) tr) in En.
        destruct (IH _ En) as [h Hh]. rewrite Hh.
        destruct ev; try (exists h; reflexivity).
        destruct (rset_mem (q_ready (l_q L0)) full0); [exists ((l0, fs0) :: h)|exists h]; reflexivity. }
    destruct A as [h ->]. unfold erase. rewrite map_app. cbn [map fst]. fold (erase h).
    intros Wh. unfold run_f. rewrite fold_left_app. cbn [fold_left fst snd]. fold (run_f e inst_empty (erase h)).
    assert (Wh' : wf_hist e inst_empty (erase h) /\ wf_batch e (i_cfg (run_f e inst_empty (erase h))) l).
    { clear -Wh. revert Wh. generalize inst_empty. induction (erase h) as [|st g IH]; cbn; intros s W.
      - destruct W as [W _]. auto.
      - destruct W as [W1 [NS W2]]. destruct (IH _ W2) as [A B]. auto. }
    destruct Wh' as [Wh1 Wh2].
    apply (update_good e [] (run_f e inst_empty (erase h)) l); auto.
    - apply reach_hist; auto using reach_empty.
    - apply update_nofault_eq. }
  split; [apply good_disk_ok; auto|]. split; [apply (disk_ok_ieq e (i_cfg (l_inst L))); auto; apply good_disk_ok; auto|].
  split; [apply good_disk_ok; auto|].
  intros P. destruct (good_loaded_ok e (l_inst L) SR G P) as [r [Hr Dr]]. exists r. split; auto.
  apply (disk_ok_ieq e (i_cfg (l_inst L))); auto.
Qed.

(* the hypotheses are satisfiable: a change, the rate limiter's delay, a reconciliation whose
   main file cannot be written, the retry delay, and the retry with an empty batch *)
Definition w_retry : list op := [OTcpRemove []; OHostsRemove []; OBacksRemove []].
Definition w_L2 : loop := lrun w_env loop_init [LChange false; LTick false].
Definition w_L3 : loop := lstep w_env w_L2 (LAttempt false w_full2 [FMain]).
Example wf_trace_example :
  wf_trace w_env loop_init [LChange false; LTick false; LAttempt false w_full2 [FMain]] /\
  snd (step_f w_env [FMain] (l_inst w_L2) w_full2) = true /\
  wf_trace w_env (lstep w_env w_L3 (LTick false)) [LAttempt false w_retry []].
Proof.
  split; [|split].
  - cbn [wf_trace enabled]. split; [reflexivity|]. split; [exact I|]. split; [reflexivity|]. split; [exact I|].
    split; [reflexivity|]. split; [|exact I]. split; [exact w_wf1|]. split; [reflexivity|discriminate].
  - vm_compute. reflexivity.
  - cbn [wf_trace enabled]. split; [vm_compute; reflexivity|]. split; [|exact I].
    split; [|split; [reflexivity|discriminate]].
    split; [apply shape_partial; reflexivity|]. split; [repeat constructor|].
    assert (R : reach w_env (fst (step_f w_env [FMain] inst_empty w_full2))).
    { exact (step_reach w_env [FMain] inst_empty w_full2 w_range (reach_empty w_env) w_wf1 eq_refl). }
    split.
    + apply (ready_b_sound w_env); [|vm_compute; reflexivity].
      apply dom_apply_ops; [repeat constructor|]. exact (proj1 R).
    + apply (tracked_b_sound w_env); [|vm_compute; reflexivity].
      apply dom_apply_ops; [repeat constructor|]. exact (proj1 R).
Qed.
