(* Backend-scoped annotation keys of Model/ConvAnn.v: the step and history theorems under H.

   H (on every cluster of the history):
     no_redecl   no (host, path, match type) is declared twice -- so no path is ever skipped
                 as redeclared, and none can "become effective" later: this excludes the
                 finding (Proofs/ConvAnn.annotations_refuted), and more;
     ports_ok    every path names its service port (as every Ingress path does: the
                 conversion never sees an empty port there), so that findBackend of
                 trackAddedIngress and addBackendWithClass pick the same port;
     ids_inj     two services never share a backend id (ns_name_port is ambiguous only
                 with "_" inside the names, which Kubernetes does not allow).
   Under H, for every history of well formed batches that name what changed (Services,
   Endpoints, Secrets, the annotations of ingresses and services), the partial syncs end
   with the whole observation obs_ann of a full sync: model_history_a_obs. *)
From Coq Require Import List Bool String ZArith Lia Relations Permutation.
From HI Require Import Model.Tracker Model.Conv Model.ConvAnn Proofs.Tracker Proofs.IncSync Proofs.Conv
                       Proofs.ConvSort Proofs.ConvHist_base Proofs.ConvHist_keys Proofs.ConvHist_sim
                       Proofs.ConvBack Proofs.ConvHist Proofs.ConvAnn Proofs.ConvAnn_hist Proofs.ConvAnn_back.
Import ListNotations.
Open Scope string_scope.
Open Scope list_scope.

Definition back_links_ok (w : world) (x : st) : Prop :=
  forall i rule r bid, In i (w_ings w) -> In rule (i_rules i) -> In r (snd rule) ->
    resolve w i r = Some bid -> blinked (i_full i, bid) x.

Definition bspec (w : aworld) (bid : string) : amap * list (plink * amap) :=
  cfgs (run_b (flat_map (bentries w bid) (sort_ings (w_ings (aw_base w)))) blank).

Definition backA_ok (w : aworld) (y : ast) : Prop :=
  forall bid, get_back (fst (fst y)) bid <> None -> cfgs (snd y (TBack bid)) = bspec w bid.

Definition ports_ok (w : world) : Prop :=
  forall i rule r, In i (w_ings w) -> In rule (i_rules i) -> In r (snd rule) -> r_port r <> "".

Definition ids_inj (w : world) : Prop :=
  forall svc svc' p p', In svc (w_svcs w) -> In svc' (w_svcs w) -> In p (s_ports svc) -> In p' (s_ports svc') ->
    bid_of svc p = bid_of svc' p' -> s_full svc = s_full svc'.

Definition ann_svc_ok (w w' : aworld) (b : batch) : Prop :=
  forall n, sann w n <> sann w' n -> In (KService, n) (b_links b).

Definition InvAB (w : aworld) (y : ast) : Prop :=
  InvAH w y /\ svc_links_ok (aw_base w) (snd (fst y)) /\ back_links_ok (aw_base w) (fst y) /\ backA_ok w y.

Lemma bentries_In w bid i e : In e (bentries w bid i) ->
  exists rule r, In rule (i_rules i) /\ In r (snd rule) /\ resolve (aw_base w) i r = Some bid.
Proof.
  unfold bentries, rentries, bentry. intros H. apply in_flat_map in H as (rule & Hrule & H).
  apply in_flat_map in H as (r & Hr & H). exists rule, r. split; [exact Hrule|]. split; [exact Hr|].
  destruct (resolve (aw_base w) i r) as [bb|] eqn:E; [|contradiction].
  destruct (String.eqb_spec bb bid) as [Eb|]; [rewrite Eb; reflexivity|contradiction].
Qed.

Lemma bentries_nil w bid i :
  (forall rule r, In rule (i_rules i) -> In r (snd rule) -> resolve (aw_base w) i r <> Some bid) ->
  bentries w bid i = [].
Proof.
  intros H. destruct (bentries w bid i) as [|e l] eqn:E; [reflexivity|].
  exfalso. destruct (bentries_In w bid i e) as (rule & r & H1 & H2 & H3); [rewrite E; left; reflexivity|].
  exact (H rule r H1 H2 H3).
Qed.

Lemma amap1_eq_dec (a c : amap) : {a = c} + {a <> c}.
Proof. repeat decide equality. Defined.

Lemma track_added_blink w s T i rule r bid : In rule (i_rules i) -> In r (snd rule) ->
  find_backend w s i r = Some bid -> In ((KIngress, i_full i), (KBackend, bid)) (track_added_ing w s T i).
Proof.
  intros Hrule Hr Hf. unfold track_added_ing.
  match goal with |- In _ (fold_left ?g (i_tls i) ?T0) =>
    assert (G2 : grows T0 (fold_left g (i_tls i) T0))
  end.
  { apply fold_grows. intros T0 blk _. apply fold_grows. intros T3 hn _. apply grows_track. }
  apply (proj1 G2).
  apply (fold_grows_at _ (i_rules i) rule); [|exact Hrule|].
  - intros T0 a _. eapply grows_trans; [apply grows_track|apply track_added_paths_grows].
  - intros T0. cbv beta.
    apply (fold_grows_at _ (snd rule) r); [|exact Hr|].
    + intros T3 r0 _. destruct (find_backend w s i r0); [apply grows_track|apply grows_refl].
    + intros T3. rewrite Hf. apply track_In.
Qed.

Lemma find_backend_pick w s i r bid : r_port r <> "" ->
  resolve w i r = Some bid -> get_back s bid <> None -> find_backend w s i r = Some bid.
Proof.
  intros Hp Hres Hg. unfold resolve in Hres. unfold find_backend.
  destruct (find_svc w _) as [svc|]; [|discriminate].
  unfold pick_port in Hres. destruct (String.eqb_spec (r_port r) ""); [contradiction|].
  destruct (find_port svc _ _) as [p|]; [|discriminate]. injection Hres as <-.
  destruct (get_back s _); [reflexivity|contradiction].
Qed.

Section StepA.
  Variables (w w' : aworld) (s : cstate) (T : ctracker) (A : astore) (b : batch).
  Hypothesis Hok : batch_wf (aw_base w) (aw_base w') b.
  Hypothesis Hs : symmetric node T.
  Hypothesis Hl : links_ok (aw_base w) T.
  Variables (out : list node) (T2 : ctracker).
  Hypothesis Hq : query_remove node_eqb (T1_of (aw_base w') (s, T) b) (b_links b) = Some (out, T2).
  Hypothesis Hsvc : svc_links_ok (aw_base w) T.
  Hypothesis Hsec : sec_links_ok (aw_base w) T.
  Hypothesis Hbl : batch_links_ok_e (aw_base w) (aw_base w') b.
  Hypothesis HJ : J (aw_base w) (s, T).
  Hypothesis Hblk : back_links_ok (aw_base w) (s, T).
  Hypothesis HAb : backA_ok w ((s, T), A).
  Hypothesis Hnr : no_redecl (aw_base w').
  Hypothesis Hports : ports_ok (aw_base w').
  Hypothesis Hinj : ids_inj (aw_base w').
  Hypothesis Han : ann_ing_ok w w' b.
  Hypothesis Hsann : ann_svc_ok w w' b.

  Notation T1 := (T1_of (aw_base w') (s, T) b).
  Notation C := (reach node T1 (b_links b)).
  Notation dirty := (dirty_of out b).
  Notation dirtyM := (dirtyM_of out b).
  Notation ord := (sort_ings (w_ings (aw_base w))).
  Notation ord' := (sort_ings (w_ings (aw_base w'))).
  Notation l' := (filter dirtyM ord').
  Notation x0 := (remove_all s out, T2).

  Let Hcomp := comp (aw_base w') s T b Hs out T2 Hq.

  Lemma sa_in_out m : C m -> In m out.
  Proof. apply (proj1 Hcomp). Qed.
  Lemma sa_out_C m : In m out -> C m.
  Proof. apply (proj1 Hcomp). Qed.

  Lemma sa_closed a c : C a -> In (a, c) T -> C c.
  Proof. intros Hc He. eapply C_closed; [exact Hc|]. apply T1_incl. exact He. Qed.

  Lemma sa_back a c : C c -> In (a, c) T -> C a.
  Proof. intros Hc He. eapply C_closed; [exact Hc|]. apply T1_sym; [exact Hs|]. apply T1_incl. exact He. Qed.

  Lemma sa_dirty_C i m : dirty i = true -> edge node T1 (nS i) m -> C (nS i).
  Proof.
    intros Hd He. apply dirty_cases in Hd. destruct Hd as [Hd|Hd]; [apply sa_out_C; exact Hd|].
    eapply C_input; [exact Hs|exact Hq|apply (name_in_links _ _ _ Hok); exact Hd|exact He].
  Qed.

  (* an ingress with a rule that the model does not re-sync is clean *)
  Lemma sa_clean i rule : In i (w_ings (aw_base w')) -> In rule (i_rules i) -> dirtyM i = false -> dirty i = false.
  Proof.
    intros Hi Hrule HdM. destruct (dirty i) eqn:ED; [|reflexivity]. exfalso.
    exact (nohost _ _ _ _ _ Hok Hs Hl _ _ Hq i Hi ED HdM _ (rule_host_declared i rule Hrule)).
  Qed.

  Lemma sa_view i : In i (w_ings (aw_base w)) -> In i (w_ings (aw_base w')) -> dirty i = false ->
    view_eq (aw_base w) (aw_base w') i.
  Proof.
    intros Hi Hi' Hd.
    apply (derived_view _ _ _ _ _ Hs Hl _ _ Hq Hsvc Hsec (ble_base _ _ _ Hbl) i Hi Hi').
    apply (clean_not_C _ _ _ _ Hs _ _ Hq). exact Hd.
  Qed.

  Lemma P0_covered : covered (fun k => ~ In (KHost, fst (fst k)) out) x0.
  Proof.
    intros hn hr p Hg _ Hc. cbn [fst] in *. unfold get_host, remove_all in Hg.
    apply (mem_In node node_eqb node_eqb_spec) in Hc. rewrite Hc in Hg. discriminate.
  Qed.

  Lemma P0_fresh k : In k (flat_map ing_keys l') -> ~ ~ In (KHost, fst (fst k)) out.
  Proof.
    intros Hk Hp. apply Hp. apply in_flat_map in Hk as (d & Hd & Hkd).
    apply filter_In in Hd as [Hd HdM]. apply (proj1 (sort_ings_In _ _)) in Hd.
    apply (dirty_host_out _ _ _ _ _ Hok Hs Hl _ _ Hq d); [exact Hd|apply dirtyM_dirty; exact HdM|apply ing_keys_host; exact Hkd].
  Qed.

  Definition y1 : ast := fold_left (async_ingress w') l' (x0, prep (remove_all s out) A).

  Lemma y1_fst : fst y1 = step_result (aw_base w') s b out T2.
  Proof. unfold y1. rewrite fold_async_fst. reflexivity. Qed.

  (* ---- Ingress-Backend links ---- *)
  Lemma step_back_links : back_links_ok (aw_base w') (step_result (aw_base w') s b out T2).
  Proof.
    intros i rule r bid Hi Hrule Hr Hres. unfold step_result. destruct (dirtyM i) eqn:EM.
    - apply (fold_sync_blinked (fun k => ~ In (KHost, fst (fst k)) out) (aw_base w') l' x0 i rule r bid);
        [exact P0_covered|apply no_redecl_sorted_filter; exact Hnr|exact P0_fresh| |exact Hrule|exact Hr|exact Hres].
      apply filter_In. split; [apply sort_ings_In; exact Hi|exact EM].
    - pose proof (sa_clean i rule Hi Hrule EM) as Hcl.
      pose proof (clean_new_in_old _ _ _ Hok out i Hi Hcl) as Hiw.
      pose proof (proj1 (sa_view i Hiw Hi Hcl) rule r Hrule Hr) as Hv. rewrite <- Hv in Hres.
      destruct (Hblk i rule r bid Hiw Hrule Hr Hres) as [Hlink Hpres]. cbn [fst snd] in *.
      pose proof (clean_not_C _ _ _ _ Hs _ _ Hq i Hcl) as NC.
      apply fold_sync_blinked_keep. split; cbn [fst snd].
      + apply (keep _ _ _ _ Hs _ _ Hq); assumption.
      + unfold get_back, remove_all. destruct (mem node_eqb (KBackend, bid) out) eqn:Em; [|exact Hpres].
        exfalso. apply NC. apply (mem_In node node_eqb node_eqb_spec) in Em.
        eapply sa_back; [apply sa_out_C; exact Em|exact Hlink].
  Qed.

  (* ---- the store at a backend ---- *)
  Lemma y1_back bid :
    snd y1 (TBack bid) = run_b (flat_map (bentries w' bid) l') (prep (remove_all s out) A (TBack bid)).
  Proof.
    unfold y1.
    apply (fold_async_back (fun k => ~ In (KHost, fst (fst k)) out) w' l' (x0, prep (remove_all s out) A) bid);
      [exact P0_covered|apply no_redecl_sorted_filter; exact Hnr|exact P0_fresh].
  Qed.

  (* a clean ingress of the new cluster resolving to bid did so before: linked, backend present *)
  Lemma clean_contrib i rule r bid :
    In i (w_ings (aw_base w')) -> dirty i = false -> In rule (i_rules i) -> In r (snd rule) ->
    resolve (aw_base w') i r = Some bid ->
    In (nS i, (KBackend, bid)) T /\ get_back s bid <> None /\ ~ C (KBackend, bid).
  Proof.
    intros Hi Hcl Hrule Hr Hres.
    pose proof (clean_new_in_old _ _ _ Hok out i Hi Hcl) as Hiw.
    pose proof (proj1 (sa_view i Hiw Hi Hcl) rule r Hrule Hr) as Hv. rewrite <- Hv in Hres.
    destruct (Hblk i rule r bid Hiw Hrule Hr Hres) as [Hlink Hpres]. cbn [fst snd] in *.
    split; [exact Hlink|]. split; [exact Hpres|].
    intros Hc. apply (clean_not_C _ _ _ _ Hs _ _ Hq i Hcl). eapply sa_back; eassumption.
  Qed.

  (* a path that resolves differently in the two clusters cannot land on a backend that survives *)
  Lemma svc_changed i rule r bid :
    In i (w_ings (aw_base w)) -> In rule (i_rules i) -> In r (snd rule) ->
    resolve (aw_base w') i r = Some bid -> get_back s bid <> None -> ~ C (KBackend, bid) ->
    resolve (aw_base w) i r <> resolve (aw_base w') i r -> False.
  Proof.
    intros Hi Hrule Hr Hres Hpres NB Hdiff.
    set (n := (i_ns i ++ "/" ++ r_svc r)%string) in *.
    assert (Hsv : find_svc (aw_base w) n <> find_svc (aw_base w') n).
    { intros E. apply Hdiff. apply resolve_same_svc. exact E. }
    pose proof (bl_svc _ _ _ (ble_base _ _ _ Hbl) n Hsv) as Hlk.
    destruct (get_back s bid) as [br|] eqn:Eg; [|contradiction].
    destruct (proj1 HJ bid br Eg) as (k & hn & svc & p & F & P & B & _ & L1 & L2 & L3 & L4). cbn [snd] in *.
    assert (NI : ~ C (KIngress, i_full k)) by (apply (notC_edge _ _ _ _ _ _ L1 NB)).
    assert (NH : ~ C (KHost, hn)) by (apply (notC_edge_r _ _ _ _ Hs _ _ L2 NI)).
    assert (NS : ~ C (KService, s_full svc)) by (apply (notC_edge _ _ _ _ _ _ L3 NH)).
    assert (F' : find_svc (aw_base w') (s_full svc) = Some svc).
    { destruct (opt_service_eq_dec (find_svc (aw_base w) (s_full svc)) (find_svc (aw_base w') (s_full svc))) as [E|E];
        [rewrite <- E; exact F|].
      exfalso. apply NS. eapply C_input; [exact Hs|exact Hq|apply (bl_svc _ _ _ (ble_base _ _ _ Hbl)); exact E|apply T1_incl; exact L3]. }
    unfold resolve in Hres. fold n in Hres.
    destruct (find_svc (aw_base w') n) as [svc'|] eqn:Es'; [|discriminate].
    destruct (pick_port svc' (r_port r)) as [p'|] eqn:Ep'; [|discriminate]. injection Hres as Hb.
    destruct (find_svc_some _ _ _ F') as [Hin1 _]. destruct (find_svc_some _ _ _ Es') as [Hin2 Hn2].
    assert (Hsame : s_full svc = s_full svc').
    { apply (Hinj svc svc' p p' Hin1 Hin2 P (pick_port_In _ _ _ Ep')). transitivity bid; [symmetry; exact B|symmetry; exact Hb]. }
    apply NS. rewrite Hsame, Hn2.
    eapply C_input; [exact Hs|exact Hq|exact Hlk|]. apply T1_incl. rewrite <- Hn2, <- Hsame. exact L3.
  Qed.

  (* a dirty ingress of the new cluster does not resolve to a backend that survives *)
  Lemma dirty_no_contrib i rule r bid :
    In i (w_ings (aw_base w')) -> dirty i = true -> In rule (i_rules i) -> In r (snd rule) ->
    resolve (aw_base w') i r = Some bid -> get_back s bid <> None -> ~ C (KBackend, bid) -> False.
  Proof.
    intros Hi Hd Hrule Hr Hres Hpres NB.
    destruct (new_cases _ _ _ Hok i Hi) as [Hiw|Hnew].
    - (* the same record as before *)
      destruct (resolve (aw_base w) i r) as [b0|] eqn:Eold.
      + destruct (String.eqb_spec b0 bid) as [->|Hne].
        * destruct (Hblk i rule r bid Hiw Hrule Hr Eold) as [Hlink _]. cbn [snd] in Hlink.
          apply NB. eapply sa_closed; [|exact Hlink].
          apply (sa_dirty_C i (KBackend, bid) Hd). apply T1_incl. exact Hlink.
        * apply (svc_changed i rule r bid Hiw Hrule Hr Hres Hpres NB). rewrite Eold, Hres. congruence.
      + apply (svc_changed i rule r bid Hiw Hrule Hr Hres Hpres NB). rewrite Eold, Hres. discriminate.
    - (* added or updated: trackAddedIngress linked it to the existing backend *)
      assert (Hin : In i (b_add b ++ b_upd b)) by (apply in_or_app; exact Hnew).
      assert (Hf : find_backend (aw_base w') s i r = Some bid).
      { apply find_backend_pick; [apply (Hports i rule r Hi Hrule Hr)|exact Hres|exact Hpres]. }
      assert (He : edge node T1 (nS i) (KBackend, bid)).
      { unfold edge, T1_of. cbn [fst snd]. apply (fold_grows_at _ _ i); [|exact Hin|].
        - intros; apply track_added_grows.
        - intros T0. eapply track_added_blink; eassumption. }
      apply NB. eapply C_closed; [apply (sa_dirty_C i _ Hd He)|exact He].
  Qed.

  (* what a clean ingress contributes to a backend is the same in both clusters *)
  Lemma clean_bentries i bid : In i (w_ings (aw_base w)) -> In i (w_ings (aw_base w')) -> dirty i = false ->
    bentries w bid i = bentries w' bid i.
  Proof.
    intros Hi Hi' Hcl. pose proof (sa_view i Hi Hi' Hcl) as [Hv _].
    unfold bentries. apply flat_map_ext_in'. intros rule Hrule. unfold rentries.
    apply flat_map_ext_in'. intros r Hr. unfold bentry. rewrite (Hv rule r Hrule Hr).
    destruct (resolve (aw_base w') i r) as [b0|]; [|reflexivity]. destruct (String.eqb b0 bid); [|reflexivity].
    assert (E1 : iann w i = iann w' i).
    { destruct (amap_eq_dec (iann w i) (iann w' i)) as [E|E]; [exact E|]. exfalso.
      assert (Hd' : dirty i = true) by (apply dirty_cases; right; apply (Han i Hi Hi' E)). congruence. }
    set (n := (i_ns i ++ "/" ++ r_svc r)%string) in *.
    assert (E2 : sann w n = sann w' n).
    { destruct (amap1_eq_dec (sann w n) (sann w' n)) as [E|E]; [exact E|].
      exfalso. apply (clean_not_C _ _ _ _ Hs _ _ Hq i Hcl).
      pose proof (Hsvc i rule r Hi Hrule Hr) as Hlk. unfold svc_link in Hlk.
      assert (Hc : C (KService, n)).
      { eapply C_input; [exact Hs|exact Hq|apply Hsann; exact E|apply T1_incl; exact Hlk]. }
      eapply sa_back; [eapply sa_closed; [exact Hc|exact Hlk]|].
      apply Hl; [exact Hi|apply rule_host_declared; exact Hrule]. }
    rewrite E1, E2. reflexivity.
  Qed.

  Lemma step_backA : backA_ok w' y1.
  Proof.
    intros bid Hpres. rewrite y1_fst in Hpres. rewrite y1_back, run_b_cfgs. unfold prep. cbn [present].
    destruct (get_back (remove_all s out) bid) as [c|] eqn:Es1.
    - (* the backend survives: its declarations are those of the old cluster = those of the new one *)
      cbn [ar_new]. unfold cfgs at 1. cbn [ar_cfg ar_pcfg].
      assert (Hm : mem node_eqb (KBackend, bid) out = false).
      { unfold get_back, remove_all in Es1. destruct (mem node_eqb (KBackend, bid) out); [discriminate|reflexivity]. }
      assert (Hsb : get_back s bid <> None).
      { unfold get_back, remove_all in Es1. rewrite Hm in Es1. unfold get_back. intros Hc. rewrite Hc in Es1. discriminate. }
      assert (NB : ~ C (KBackend, bid)).
      { intros Hc. apply sa_in_out in Hc. apply (mem_In node node_eqb node_eqb_spec) in Hc. congruence. }
      pose proof (HAb bid Hsb) as HA0. cbn [fst snd] in HA0. unfold cfgs in HA0. rewrite HA0.
      unfold bspec. f_equal. f_equal.
      rewrite <- (flat_map_filter_skip (bentries w bid) (fun i => negb (dirty i)) ord).
      2:{ intros i Hi Hd. apply negb_false_iff in Hd. apply (proj1 (sort_ings_In _ _)) in Hi.
          apply bentries_nil. intros rule r Hrule Hr Hres.
          destruct (Hblk i rule r bid Hi Hrule Hr Hres) as [Hlink _]. cbn [snd] in Hlink.
          apply NB. eapply sa_closed; [|exact Hlink].
          apply (sa_dirty_C i (KBackend, bid) Hd). apply T1_incl. exact Hlink. }
      rewrite <- (flat_map_filter_skip (bentries w' bid) (fun i => negb (dirty i)) ord').
      2:{ intros i Hi Hd. apply negb_false_iff in Hd. apply (proj1 (sort_ings_In _ _)) in Hi.
          apply bentries_nil. intros rule r Hrule Hr Hres.
          exact (dirty_no_contrib i rule r bid Hi Hd Hrule Hr Hres Hsb NB). }
      rewrite (HK _ _ _ Hok out). apply flat_map_ext_in'. intros i Hi.
      apply filter_In in Hi as [Hi Hd]. apply negb_true_iff in Hd. apply (proj1 (sort_ings_In _ _)) in Hi.
      apply clean_bentries; [apply (clean_new_in_old _ _ _ Hok out i Hi Hd)|exact Hi|exact Hd].
    - (* created by this sync: every ingress that contributes to it is re-synced *)
      cbn [blank ar_new ar_cfg ar_pcfg app]. unfold bspec. rewrite run_b_cfgs. cbn [blank ar_new ar_cfg ar_pcfg app].
      rewrite (flat_map_filter_skip (bentries w' bid) dirtyM ord'); [reflexivity|].
      intros i Hi HdM. apply (proj1 (sort_ings_In _ _)) in Hi.
      apply bentries_nil. intros rule r Hrule Hr Hres.
      pose proof (sa_clean i rule Hi Hrule HdM) as Hcl.
      destruct (clean_contrib i rule r bid Hi Hcl Hrule Hr Hres) as (_ & Hsb & NB).
      assert (Hm : mem node_eqb (KBackend, bid) out = false).
      { apply (mem_false node node_eqb node_eqb_spec). intros Hc. apply NB. apply sa_out_C. exact Hc. }
      unfold get_back, remove_all in Es1. rewrite Hm in Es1. apply Hsb. exact Es1.
  Qed.
End StepA.

(* ------------------------------------------------------------------ *)
(* the step                                                             *)
(* ------------------------------------------------------------------ *)
Definition H_ann (w : world) : Prop := no_redecl w /\ ports_ok w /\ ids_inj w.

Theorem model_partial_step_a_obs w w' y b :
  InvAB w y -> batch_wf (aw_base w) (aw_base w') b -> batch_links_ok_e (aw_base w) (aw_base w') b ->
  ann_ing_ok w w' b -> ann_svc_ok w w' b -> H_ann (aw_base w') ->
  exists y', sync_partial_a w' y b = Some y' /\ InvAB w' y'.
Proof.
  destruct y as [[s T] A]. intros (HAH & Hsvc & Hblk & HAb) Hok Hbl Han Hsann (Hnr & Hports & Hinj). cbn [fst snd] in *.
  destruct (model_partial_step_a_hostkeys w w' _ b HAH Hok Hbl Han) as (y' & Hp & HAH').
  destruct HAH as [HO _]. destruct HO as [((Hh & Hs & Hl) & Hrun & Hsec) HJ]. cbn [fst snd] in *.
  unfold sync_partial_a in Hp.
  destruct (query_remove node_eqb (fold_left (track_added_ing (aw_base w') s) (b_add b ++ b_upd b) T) (b_links b))
    as [[out T2]|] eqn:Hq; [|discriminate].
  assert (Hq' : query_remove node_eqb (T1_of (aw_base w') (s, T) b) (b_links b) = Some (out, T2)) by exact Hq.
  rewrite (ings_ok _ _ _ Hok out) in Hp. injection Hp as Hy.
  assert (Hy1 : y' = y1 w' s A b out T2) by (symmetry; exact Hy).
  exists y'. split.
  - unfold sync_partial_a. rewrite Hq, (ings_ok _ _ _ Hok out). f_equal. exact Hy.
  - split; [exact HAH'|]. rewrite Hy1. split; [|split].
    + rewrite (y1_fst w' s A b out T2). eapply step_svc_links; eassumption.
    + rewrite (y1_fst w' s A b out T2). eapply step_back_links; eassumption.
    + eapply step_backA; eassumption.
Qed.

Theorem sync_full_InvAB w : no_redecl (aw_base w) -> InvAB w (sync_full_a w).
Proof.
  intros Hnr. split; [apply sync_full_InvAH|]. rewrite sync_full_a_fst.
  assert (Hnd : NoDup (flat_map ing_keys (sort_ings (w_ings (aw_base w))))).
  { eapply Permutation_NoDup; [|exact Hnr]. unfold world_keys. apply Permutation_flat_map. apply sort_ings_permutation. }
  assert (Hc0 : covered (fun _ => False) (empty_state, @nil (node * node))).
  { intros hn hr p Hg. cbn in Hg. discriminate. }
  split; [|split].
  - exact (proj1 (proj2 (sync_full_InvT (aw_base w) Hnr))).
  - intros i rule r bid Hi Hrule Hr Hres. unfold sync_full.
    apply (fold_sync_blinked (fun _ => False) (aw_base w) _ _ i rule r bid); [exact Hc0|exact Hnd|intros k _ []|apply sort_ings_In; exact Hi|exact Hrule|exact Hr|exact Hres].
  - intros bid _. unfold sync_full_a, bspec.
    rewrite (fold_async_back (fun _ => False)); [reflexivity|exact Hc0|exact Hnd|intros k _ []].
Qed.

(* the whole observation *)
Theorem InvAB_obs w y1 y2 : InvAB w y1 -> InvAB w y2 -> forall hn, obs_ann y1 hn = obs_ann y2 hn.
Proof.
  intros ([HO1 HA1] & _ & _ & HB1) ([HO2 HA2] & _ & _ & HB2) hn. unfold obs_ann.
  assert (Hg : get_host (fst (fst y1)) hn = get_host (fst (fst y2)) hn).
  { unfold get_host. rewrite (proj1 (proj1 (proj1 HO1)) hn), (proj1 (proj1 (proj1 HO2)) hn). reflexivity. }
  rewrite <- Hg. destruct (get_host (fst (fst y1)) hn) as [hr|] eqn:E; [|reflexivity].
  assert (E2 : get_host (fst (fst y2)) hn = Some hr) by (symmetry; exact Hg).
  f_equal. f_equal.
  - rewrite HA1 by (rewrite E; discriminate). rewrite HA2 by (rewrite E2; discriminate). reflexivity.
  - apply map_ext_in. intros p Hp. unfold obs_apath.
    destruct (proj2 (proj2 HO1) hn hr p E Hp) as [Hx _].
    destruct (proj2 (proj2 HO2) hn hr p E2 Hp) as [Hy _].
    pose proof (HB1 _ Hx) as H1. pose proof (HB2 _ Hy) as H2. unfold cfgs in H1, H2.
    rewrite <- H2 in H1. injection H1 as Hc Hpc. rewrite Hc, Hpc. reflexivity.
Qed.

(* ------------------------------------------------------------------ *)
(* histories                                                            *)
(* ------------------------------------------------------------------ *)
Fixpoint hist_ok_ab (w : aworld) (h : list (batch * aworld)) : Prop :=
  match h with
  | [] => True
  | (b, w') :: r =>
      batch_wf (aw_base w) (aw_base w') b /\ batch_links_ok_e (aw_base w) (aw_base w') b /\
      ann_ing_ok w w' b /\ ann_svc_ok w w' b /\ H_ann (aw_base w') /\ hist_ok_ab w' r
  end.

Theorem model_history_ab_from : forall h w y,
  InvAB w y -> hist_ok_ab w h -> exists y', run_hist_a y h = Some y' /\ InvAB (last_aw w h) y'.
Proof.
  induction h as [|[b w'] r IH]; intros w y HI Hh; cbn [run_hist_a last_aw].
  - exists y. split; [reflexivity|exact HI].
  - destruct Hh as (Hok & Hbl & Han & Hsa & HH & Hrest).
    destruct (model_partial_step_a_obs w w' y b HI Hok Hbl Han Hsa HH) as (y' & Hp & HI').
    rewrite Hp. apply IH; [exact HI'|exact Hrest].
Qed.

Lemma H_ann_last : forall h w, H_ann (aw_base w) -> hist_ok_ab w h -> H_ann (aw_base (last_aw w h)).
Proof.
  induction h as [|[b w'] r IH]; intros w Hw Hh; cbn [last_aw]; [exact Hw|].
  destruct Hh as (_ & _ & _ & _ & HH & Hrest). apply IH; assumption.
Qed.

Theorem model_history_a_obs w0 h :
  H_ann (aw_base w0) -> hist_ok_ab w0 h ->
  exists y', run_hist_a (sync_full_a w0) h = Some y' /\
             forall hn, obs_ann y' hn = obs_ann (sync_full_a (last_aw w0 h)) hn.
Proof.
  intros H0 Hh.
  destruct (model_history_ab_from h w0 _ (sync_full_InvAB w0 (proj1 H0)) Hh) as (y' & Hr & HI).
  exists y'. split; [exact Hr|]. apply (InvAB_obs (last_aw w0 h)); [exact HI|].
  apply sync_full_InvAB. exact (proj1 (H_ann_last h w0 H0 Hh)).
Qed.
