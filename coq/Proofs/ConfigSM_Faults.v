(* C12: what follows a failed update - the retry, the reload queue, a restart. *)
From Coq Require Import NArith List Bool Lia.
From HI Require Import Model.ConfigSM Model.ConfigSM_Faults Proofs.ConfigSM.
Import ListNotations.
Open Scope N_scope.

(* ================================================================ the retry *)

(* Whatever faults hit the updates of a history (any number of failed updates in a row, the
   last one included), one more reconciliation without fault - the retry scheduled by the
   reconciler, whose batch may be empty, or the next event - reports success and leaves the
   files, and the haproxy reloaded by the update, exactly those of the current state. *)
Theorem retry_converges : forall e, shard_range e ->
  forall h, wf_hist e inst_empty h ->
  forall l, wf_batch e (i_cfg (run_f e inst_empty h)) l ->
    let r := step_f e [] (run_f e inst_empty h) l in
    snd r = false /\ i_failed (fst r) = false /\
    disk_ok e (i_cfg (fst r)) (i_disk (fst r)) /\
    (inline e = true -> exists run, i_running (fst r) = Some run /\ disk_ok e (i_cfg (fst r)) run).
Proof.
  intros e SR h W l Wl r.
  assert (E : snd r = false) by (unfold r, step_f; apply update_nofault_ok).
  split; auto.
  assert (U : step_f e [] (run_f e inst_empty h) l = (fst r, false)).
  { unfold r in *. destruct (step_f e [] (run_f e inst_empty h) l) as [s' err]. cbn in *. subst. reflexivity. }
  apply (success_is_convergence e SR h W l [] (fst r) Wl eq_refl U).
Qed.

(* ================================================================ the reload queue *)

(* A reload enqueued by an update is retried by the queue until it succeeds; the failed
   attempts touch neither the files nor the model, and the successful one loads the files. *)
Lemma reload_once_keeps : forall ok s, i_cfg (reload_once ok s) = i_cfg s /\ i_disk (reload_once ok s) = i_disk s /\
  i_failed (reload_once ok s) = i_failed s.
Proof. intros ok s. unfold reload_once. destruct (i_pending s); destruct ok; cbn; auto. Qed.
Lemma reload_attempts_keeps : forall results s,
  i_cfg (reload_attempts results s) = i_cfg s /\ i_disk (reload_attempts results s) = i_disk s /\
  i_failed (reload_attempts results s) = i_failed s.
Proof.
  unfold reload_attempts. induction results as [|ok l IH]; cbn; intros s; auto.
  destruct (IH (reload_once ok s)) as [A [B C]]. destruct (reload_once_keeps ok s) as [A' [B' C']].
  repeat split; congruence.
Qed.
Lemma reload_done_stays : forall results s, i_pending s = false -> reload_attempts results s = s.
Proof.
  unfold reload_attempts. induction results as [|ok l IH]; cbn; intros s P; auto.
  assert (reload_once ok s = s) by (unfold reload_once; rewrite P; reflexivity). rewrite H. apply IH; auto.
Qed.
Theorem reload_queue_retries : forall results s, i_pending s = true -> In true results ->
  i_running (reload_attempts results s) = Some (i_disk s) /\ i_pending (reload_attempts results s) = false /\
  i_cfg (reload_attempts results s) = i_cfg s /\ i_disk (reload_attempts results s) = i_disk s.
Proof.
  unfold reload_attempts. induction results as [|ok l IH]; cbn; intros s P I; [contradiction|].
  destruct ok.
  - assert (E : reload_once true s = {| i_cfg := i_cfg s; i_disk := i_disk s; i_failed := i_failed s; i_clean := i_clean s;
                                         i_running := Some (i_disk s); i_pending := false |})
      by (unfold reload_once; rewrite P; reflexivity).
    rewrite E. fold (reload_attempts l). rewrite reload_done_stays by reflexivity. cbn. auto.
  - assert (E : reload_once false s = s) by (unfold reload_once; rewrite P; reflexivity). rewrite E.
    destruct I as [I|I]; [discriminate|]. apply IH; auto.
Qed.

(* with the reload queue: a successful update that asked for a reload, then the queue firing
   until one reload succeeds: the running haproxy has loaded the files of the current state *)
Theorem retry_converges_reload_queue : forall e, shard_range e -> inline e = false ->
  forall h, wf_hist e inst_empty h ->
  forall l fs s', wf_batch e (i_cfg (run_f e inst_empty h)) l -> armed fs FReloadSilent = false ->
    step_f e fs (run_f e inst_empty h) l = (s', false) ->
  forall results, i_pending s' = true -> In true results ->
    let s'' := reload_attempts results s' in
    exists run, i_running s'' = Some run /\ disk_ok e (i_cfg s'') run /\ disk_ok e (i_cfg s'') (i_disk s'') /\
                i_pending s'' = false.
Proof.
  intros e SR Q h W l fs s' Wl NS U results P I s''.
  destruct (success_is_convergence e SR h W l fs s' Wl NS U) as [_ [D _]].
  destruct (reload_queue_retries results s' P I) as [R [Pn [C Dk]]].
  exists (i_disk s'). unfold s''. rewrite C, Dk. auto.
Qed.

Lemma step_nofault : forall e s l, step_f e [] s l = (fst (step_f e [] s l), false).
Proof.
  intros e s l. rewrite (surjective_pairing (step_f e [] s l)) at 1. unfold step_f. rewrite update_nofault_ok. reflexivity.
Qed.

Lemma update_nofault_eq : forall e s l, update_f e [] (sync e s l) = (fst (step_f e [] s l), false).
Proof. intros e s l. exact (step_nofault e s l). Qed.

(* ================================================================ a restart of the controller *)

(* Crash points.  A crash at any point of an update, or a plain restart, gives a new
   instance (nothing committed, nothing remembered) over whatever the directory holds -
   files of an interrupted update, shard files of backends that are gone meanwhile, files of
   shards beyond a smaller --backend-shards.  Its first reconciliation is a full sync, and
   the first configuration it writes removes the backend files it did not write: whatever
   the directory held, the reconciliations that follow converge like any other. *)
Lemma restart_reach : forall e s, reach e (restart s).
Proof. intros e s. apply (reach_new e (i_disk s) (i_running s)). Qed.

Theorem restart_converges : forall e, shard_range e ->
  forall s l fs s', wf_batch e (i_cfg (restart s)) l -> armed fs FReloadSilent = false ->
    step_f e fs (restart s) l = (s', false) ->
    disk_ok e (i_cfg s') (i_disk s') /\
    (inline e = true -> exists r, i_running s' = Some r /\ disk_ok e (i_cfg s') r).
Proof.
  intros e SR s l fs s' W NS U.
  assert (G : good e s') by (apply (update_good e fs (restart s) l); auto; apply restart_reach).
  split; [apply (good_disk_ok e); auto|apply (good_running_ok e); auto].
Qed.
(* ... and so do the histories that follow a restart, faults included *)
Theorem restart_then_history : forall e, shard_range e ->
  forall s h, wf_hist e (restart s) h ->
  forall l fs s', wf_batch e (i_cfg (run_f e (restart s) h)) l -> armed fs FReloadSilent = false ->
    step_f e fs (run_f e (restart s) h) l = (s', false) ->
    disk_ok e (i_cfg s') (i_disk s').
Proof.
  intros e SR s h W l fs s' Wl NS U.
  assert (R : reach e (run_f e (restart s) h)) by (apply reach_hist; auto using restart_reach).
  apply (good_disk_ok e); auto. apply (update_good e fs (run_f e (restart s) h) l); auto.
Qed.

(* A concrete world (used to show that the hypotheses are satisfiable, and as the witness of
   what was wrong before fix 7d37a3e): two shards, backends 0 (shard 0) and 1 (shard 1); the
   controller restarts and the cluster now only has backend 0. *)
Definition w_env : env :=
  {| nsh := 2; sh := fun x => x mod 2; UB := [0; 1]; UH := [0; 1]; UT := []; inline := false |}.
Definition w_b (x : N) : bcont := {| bver := x + 1; bacl := false; bpaths := [(x, 0)]; brssl := [] |}.
Definition w_h (x : N) : hcont := {| hver := x + 10; htls := false; hpaths := [(0, x)]; halias := [] |}.
Definition w_full2 : list op :=
  [OClear; OGlobal 0; OBackAcquire 0 (w_b 0); OBackAcquire 1 (w_b 1); OHostAcquire 0 (w_h 0); OHostAcquire 1 (w_h 1); ODefault None].
Definition w_full1 : list op := [OClear; OGlobal 0; OBackAcquire 0 (w_b 0); OHostAcquire 0 (w_h 0); ODefault None].
Definition w_part : list op := [OTcpRemove []; OHostsRemove [1]; OBacksRemove [1]].
Definition w_s1 : inst := fst (step_f w_env [] inst_empty w_full2).
Definition w_s2 : inst := fst (step_f w_env [] (restart w_s1) w_full1).

Lemma w_range : shard_range w_env.
Proof.
  intros x _ _. cbn [sh nsh w_env]. apply N.mod_lt. discriminate.
Qed.

(* a decidable form of [ready], to build examples *)
Definition ready_b (e : env) (c : config) : bool :=
  forallb (fun h => match h_items (c_h c) h with
                    | Some hc => match hroot hc with Some b => isSome (b_items (c_b c) b) | None => true end
                    | None => true end) (UH e).
Lemma ready_b_sound : forall e c, dom e c -> ready_b e c = true -> ready c.
Proof.
  intros e c [_ [Dh _]] H2. unfold ready_b in H2.
  intros h hc b Hh Hr. assert (Ih : In h (UH e)) by (apply Dh; left; congruence).
  rewrite forallb_forall in H2. specialize (H2 h Ih). rewrite Hh, Hr in H2. apply isSome_true. exact H2.
Qed.

(* a decidable form of [tracked] *)
Definition opt_hcont_eqb (a b : option hcont) : bool :=
  match a, b with Some x, Some y => hcont_eqb x y | None, None => true | _, _ => false end.
Definition tracked_b (e : env) (c0 c : config) : bool :=
  forallb (fun x => match b_items (c_b c) x, b_add (c_b c) x with
                    | Some bc, None =>
                      negb (needs_map bc) ||
                      forallb (fun hp : N * N => opt_hcont_eqb (h_items (c_h c) (fst hp)) (h_items (c_h c0) (fst hp))) (bpaths bc)
                    | _, _ => true end) (UB e).
Lemma tracked_b_sound : forall e c0 c, dom e c -> tracked_b e c0 c = true -> tracked c0 c.
Proof.
  intros e c0 c [Db _] H x bc Hx Hn A hp Hp. unfold tracked_b in H.
  assert (Ix : In x (UB e)) by (apply Db; left; congruence).
  rewrite forallb_forall in H. specialize (H x Ix). rewrite Hx, A, Hn in H. cbn [negb orb] in H.
  rewrite forallb_forall in H. specialize (H hp Hp). unfold opt_hcont_eqb in H.
  destruct (h_items (c_h c) (fst hp)) as [a|]; destruct (h_items (c_h c0) (fst hp)) as [b|]; try discriminate; auto.
  apply hcont_eqb_eq in H. congruence.
Qed.

Ltac solve_in := repeat (apply Forall_cons; [cbn; auto 10|]); apply Forall_nil.
Ltac solve_wf D :=
  split; [first [apply shape_full; reflexivity | apply shape_partial; reflexivity]|];
  split; [solve_in|];
  split; [apply (ready_b_sound w_env); [apply dom_apply_ops; [solve_in|exact D]|vm_compute; reflexivity]|
         apply (tracked_b_sound w_env); [apply dom_apply_ops; [solve_in|exact D]|vm_compute; reflexivity]].

Lemma w_wf1 : wf_batch w_env (i_cfg inst_empty) w_full2.
Proof. solve_wf (dom_empty w_env). Qed.
Lemma w_dom_s1 : dom w_env (i_cfg w_s1).
Proof.
  assert (R : reach w_env (fst (step_f w_env [] inst_empty w_full2))).
  { exact (step_reach w_env [] inst_empty w_full2 w_range (reach_empty w_env) w_wf1 eq_refl). }
  unfold w_s1. apply R.
Qed.
Lemma w_wf2 : wf_batch w_env (i_cfg (restart w_s1)) w_full1.
Proof. solve_wf (dom_empty w_env). Qed.
Lemma w_wf_part : wf_batch w_env (i_cfg w_s1) w_part.
Proof. solve_wf w_dom_s1. Qed.

(* the hypotheses of the theorems are satisfiable: a full sync, then a partial sync that
   removes the only backend of shard 1, with or without faults *)
Example wf_hist_example :
  wf_hist w_env inst_empty [(w_full2, [])] /\ wf_batch w_env (i_cfg w_s1) w_part.
Proof. exact (conj (conj w_wf1 (conj eq_refl I)) w_wf_part). Qed.

(* A second world: host 0 with the paths / and /a on backend 0, which needs per path acls (maps);
   the host answers to alias 100.  A partial sync renames the alias to 101: host and backend are
   removed and built again, the backend with the very same content.  The batch follows the
   protocol and the idpath map of the backend holds the new alias afterwards. *)
Definition w_ba : bcont := {| bver := 1; bacl := true; bpaths := [(0, 0); (0, 1)]; brssl := [] |}.
Definition w_ha (a : N) : hcont := {| hver := 10; htls := false; hpaths := [(0, 0); (1, 0)]; halias := [a] |}.
Definition w_afull : list op := [OClear; OGlobal 0; OBackAcquire 0 w_ba; OHostAcquire 0 (w_ha 100); ODefault None].
Definition w_apart : list op :=
  [OTcpRemove []; OHostsRemove [0]; OBacksRemove [0]; OBackAcquire 0 w_ba; OHostAcquire 0 (w_ha 101)].
Definition w_a1 : inst := fst (step_f w_env [] inst_empty w_afull).
Definition w_a2 : inst := fst (step_f w_env [] w_a1 w_apart).
Lemma w_awf1 : wf_batch w_env (i_cfg inst_empty) w_afull.
Proof. solve_wf (dom_empty w_env). Qed.
Lemma w_dom_a1 : dom w_env (i_cfg w_a1).
Proof.
  assert (R : reach w_env (fst (step_f w_env [] inst_empty w_afull))).
  { exact (step_reach w_env [] inst_empty w_afull w_range (reach_empty w_env) w_awf1 eq_refl). }
  unfold w_a1. apply R.
Qed.
Lemma w_awf2 : wf_batch w_env (i_cfg w_a1) w_apart.
Proof. solve_wf w_dom_a1. Qed.
Example alias_rename_witness :
  wf_hist w_env inst_empty [(w_afull, [])] /\ wf_batch w_env (i_cfg w_a1) w_apart /\
  d_backmap (i_disk w_a1) 0 = Some [(0, 0); (100, 0); (0, 1); (100, 1)] /\
  d_backmap (i_disk w_a2) 0 = Some [(0, 0); (101, 0); (0, 1); (101, 1)].
Proof.
  split; [|split; [|split]].
  - exact (conj w_awf1 (conj eq_refl I)).
  - exact w_awf2.
  - vm_compute. reflexivity.
  - vm_compute. reflexivity.
Qed.

(* the stale shard file of the witness is removed by the restarted instance *)
Example restart_witness_converges :
  disk_ok w_env (i_cfg w_s2) (i_disk w_s2) /\ d_shard (i_disk w_s2) 1 = None /\ d_shard (i_disk w_s1) 1 <> None.
Proof.
  split; [|split].
  - assert (U : step_f w_env [] (restart w_s1) w_full1 = (w_s2, false)).
    { unfold w_s2. exact (step_nofault w_env (restart w_s1) w_full1). }
    apply (restart_converges w_env w_range w_s1 w_full1 [] w_s2 w_wf2 eq_refl U).
  - vm_compute. reflexivity.
  - vm_compute. discriminate.
Qed.

(* ================================================================ the same model as the fault-free execution *)

(* Faults never change what the model holds: the history with its faults and the same history
   without any reach configurations with the same items (the files differ, until an update
   succeeds).  So "exactly the current state" after the retry is also "exactly the state the
   fault-free execution is in". *)
Definition beq (b b' : backends) : Prop :=
  (forall x, b_items b x = b_items b' x) /\ (forall x, b_add b x = b_add b' x) /\
  (forall x, b_del b x = b_del b' x) /\ b_def b = b_def b'.
Definition heq (h h' : hosts) : Prop :=
  (forall x, h_items h x = h_items h' x) /\ (forall x, h_add h x = h_add h' x) /\ (forall x, h_del h x = h_del h' x).
Definition teq (t t' : tcps) : Prop := forall x, t_items t x = t_items t' x.
Definition ceq (c c' : config) : Prop :=
  beq (c_b c) (c_b c') /\ heq (c_h c) (c_h c') /\ teq (c_t c) (c_t c') /\ c_glob c = c_glob c'.
(* only what Commit keeps *)
Definition ieq (c c' : config) : Prop :=
  (forall x, b_items (c_b c) x = b_items (c_b c') x) /\ b_def (c_b c) = b_def (c_b c') /\
  (forall x, h_items (c_h c) x = h_items (c_h c') x) /\ (forall x, t_items (c_t c) x = t_items (c_t c') x) /\
  c_glob c = c_glob c'.

Lemma ieq_clean_ceq : forall c c', clean c -> clean c' -> ieq c c' -> ceq c c'.
Proof.
  intros c c' [A [D [_ [Ha [Hd _]]]]] [A' [D' [_ [Ha' [Hd' _]]]]] [I1 [I2 [I3 [I4 I5]]]].
  repeat split; auto; intros x; congruence.
Qed.
Lemma ceq_ieq : forall c c', ceq c c' -> ieq c c'.
Proof. intros c c' [[B1 [_ [_ B4]]] [[H1 _] [T G]]]. repeat split; auto. Qed.

Lemma beq_remove1 : forall e b b' x, beq b b' -> beq (backs_remove1 e b x) (backs_remove1 e b' x).
Proof.
  intros e b b' x [I [A [D F]]]. unfold backs_remove1. rewrite <- I. destruct (b_items b x) eqn:E.
  - repeat split; cbn; auto.
    + intros y. unfold fdel. rewrite I. reflexivity.
    + intros y. unfold fset. rewrite D. reflexivity.
    + rewrite F. reflexivity.
  - repeat split; auto.
Qed.
Lemma beq_remove : forall e l b b', beq b b' -> beq (backs_remove e b l) (backs_remove e b' l).
Proof. unfold backs_remove. induction l; cbn; intros; auto. apply IHl. apply beq_remove1; auto. Qed.
Lemma beq_acquire : forall e b b' x c, beq b b' -> beq (backs_acquire e b x c) (backs_acquire e b' x c).
Proof.
  intros e b b' x c [I [A [D F]]]. unfold backs_acquire. rewrite <- I. destruct (b_items b x) eqn:E.
  - repeat split; auto.
  - repeat split; cbn; auto; intros y; unfold fset; [rewrite I|rewrite A]; reflexivity.
Qed.
Lemma heq_remove1 : forall h h' x, heq h h' -> heq (hosts_remove1 h x) (hosts_remove1 h' x).
Proof.
  intros h h' x [I [A D]]. unfold hosts_remove1. rewrite <- I. destruct (h_items h x) eqn:E.
  - repeat split; cbn; auto; intros y; [unfold fdel; rewrite I|unfold fset; rewrite D]; reflexivity.
  - repeat split; auto.
Qed.
Lemma heq_remove : forall l h h', heq h h' -> heq (hosts_remove h l) (hosts_remove h' l).
Proof. unfold hosts_remove. induction l; cbn; intros; auto. apply IHl. apply heq_remove1; auto. Qed.
Lemma heq_acquire : forall h h' x c, heq h h' -> heq (hosts_acquire h x c) (hosts_acquire h' x c).
Proof.
  intros h h' x c [I [A D]]. unfold hosts_acquire. rewrite <- I. destruct (h_items h x) eqn:E.
  - repeat split; auto.
  - repeat split; cbn; auto; intros y; unfold fset; [rewrite I|rewrite A]; reflexivity.
Qed.
Lemma teq_remove1 : forall t t' x, teq t t' -> teq (tcps_remove1 t x) (tcps_remove1 t' x).
Proof.
  intros t t' x I. unfold tcps_remove1. rewrite <- I. destruct (t_items t x) eqn:E; auto.
  intros y. cbn. unfold fdel. rewrite I. reflexivity.
Qed.
Lemma teq_remove : forall l t t', teq t t' -> teq (tcps_remove t l) (tcps_remove t' l).
Proof. unfold tcps_remove. induction l; cbn; intros; auto. apply IHl. apply teq_remove1; auto. Qed.
Lemma teq_acquire : forall t t' x c, teq t t' -> teq (tcps_acquire t x c) (tcps_acquire t' x c).
Proof.
  intros t t' x c I. unfold tcps_acquire. rewrite <- I. destruct (t_items t x) eqn:E; auto.
  intros y. cbn. unfold fset. rewrite I. reflexivity.
Qed.

Lemma ceq_apply_op : forall e c c' o, ceq c c' -> ceq (apply_op e c o) (apply_op e c' o).
Proof.
  intros e c c' o [B [H [T G]]]. destruct o; cbn.
  - (* clear *) destruct B as [I _]. repeat split; cbn; auto.
  - repeat split; cbn; auto; try apply B; try apply H.
  - split; [exact B|]. split; [exact H|]. split; [apply teq_remove; auto|exact G].
  - split; [exact B|]. split; [apply heq_remove; auto|]. split; auto.
  - split; [apply beq_remove; auto|]. split; auto.
  - split; [apply beq_acquire; auto|]. split; auto.
  - split; [exact B|]. split; [apply heq_acquire; auto|]. split; auto.
  - split; [exact B|]. split; [exact H|]. split; [apply teq_acquire; auto|exact G].
  - destruct B as [I [A [D F]]]. repeat split; cbn; auto; apply H.
Qed.
Lemma ceq_apply_ops : forall e l c c', ceq c c' -> ceq (apply_ops e c l) (apply_ops e c' l).
Proof. unfold apply_ops. induction l; cbn; intros; auto. apply IHl. apply ceq_apply_op; auto. Qed.

Lemma ceq_shrink : forall e e' c c', ceq c c' -> ceq (config_shrink e c) (config_shrink e' c').
Proof.
  intros e e' c c' [[I [A [D F]]] [[Hi [Ha Hd]] [T G]]].
  assert (Mb : forall x, bmatch (c_b c) x = bmatch (c_b c') x) by (intros x; unfold bmatch; rewrite A, D; reflexivity).
  assert (Mh : forall x, hmatch (c_h c) x = hmatch (c_h c') x) by (intros x; unfold hmatch; rewrite Ha, Hd; reflexivity).
  repeat split; cbn; auto; intros x; rewrite ?Mb, ?Mh, ?I, ?A, ?D, ?Hi, ?Ha, ?Hd; reflexivity.
Qed.

Lemma ready_ieq : forall c c', ieq c c' -> ready c -> ready c'.
Proof.
  intros c c' [I1 [I2 [I3 [I4 I5]]]] R2.
  intros h hc b Hh Hr. rewrite <- I1. apply (R2 h hc b); auto. rewrite I3. exact Hh.
Qed.

(* what the model holds after an update does not depend on the faults *)
Lemma update_items : forall e fs s,
  ieq (i_cfg (fst (update_f e fs s))) (config_shrink e (i_cfg s)).
Proof.
  intros e fs s. destruct (update_f_shape e fs s) as [c [d [cl [r [p [U [Hb [Hh [Ht [Hg _]]]]]]]]]].
  rewrite U. cbn [fst mk_inst i_cfg]. unfold ieq. cbn [config_commit c_b c_h c_t c_glob backs_commit hosts_commit b_items b_def h_items t_items].
  rewrite Hb, Hh, Ht, Hg. unfold pre_cfg. destruct (i_failed s); cbn; repeat split; auto.
Qed.
Lemma ieq_trans : forall a b c, ieq a b -> ieq b c -> ieq a c.
Proof. intros a b c [A1 [A2 [A3 [A4 A5]]]] [B1 [B2 [B3 [B4 B5]]]]. repeat split; intros; congruence. Qed.
Lemma ieq_sym : forall a b, ieq a b -> ieq b a.
Proof. intros a b [A1 [A2 [A3 [A4 A5]]]]. repeat split; intros; congruence. Qed.

Lemma step_ieq : forall e fs fs' s s' l, clean (i_cfg s) -> clean (i_cfg s') -> ieq (i_cfg s) (i_cfg s') ->
  ieq (i_cfg (fst (step_f e fs s l))) (i_cfg (fst (step_f e fs' s' l))).
Proof.
  intros e fs fs' s s' l C C' I. unfold step_f.
  apply (ieq_trans _ (config_shrink e (i_cfg (sync e s l)))); [apply update_items|].
  apply (ieq_trans _ (config_shrink e (i_cfg (sync e s' l)))); [|apply ieq_sym; apply update_items].
  apply ceq_ieq. apply ceq_shrink. cbn [sync i_cfg]. apply ceq_apply_ops. apply ieq_clean_ceq; auto.
Qed.

Definition erase (h : list (list op * list fpoint)) : list (list op * list fpoint) := map (fun st => (fst st, [])) h.

Lemma wf_batch_ieq : forall e c c' l, clean c -> clean c' -> ieq c c' -> wf_batch e c l -> wf_batch e c' l.
Proof.
  intros e c c' l C C' I [S [O [R T]]]. split; auto. split; auto.
  assert (Q : ceq (apply_ops e c l) (apply_ops e c' l)) by (apply ceq_apply_ops; apply ieq_clean_ceq; auto).
  split.
  - apply (ready_ieq (apply_ops e c l)); auto. apply ceq_ieq. exact Q.
  - destruct Q as [[Qi [Qa _]] [[Qh _] _]]. destruct I as [_ [_ [Ih _]]].
    intros x bc Hx Hn A hp Hp. rewrite <- Qh, <- Ih. apply (T x bc); auto; congruence.
Qed.

Lemma erase_follows : forall e, shard_range e -> forall h s s', reach e s -> reach e s' ->
  ieq (i_cfg s) (i_cfg s') -> wf_hist e s h ->
  wf_hist e s' (erase h) /\ ieq (i_cfg (run_f e s h)) (i_cfg (run_f e s' (erase h))) /\
  reach e (run_f e s h) /\ reach e (run_f e s' (erase h)).
Proof.
  intros e SR. induction h as [|[l fs] h IH]; cbn [wf_hist erase map run_f fold_left fst snd]; intros s s' R R' I W.
  - auto.
  - destruct W as [W1 [NS W2]].
    assert (C : clean (i_cfg s)) by apply R. assert (C' : clean (i_cfg s')) by apply R'.
    assert (W1' : wf_batch e (i_cfg s') l) by (apply (wf_batch_ieq e (i_cfg s)); auto).
    assert (R1 : reach e (fst (step_f e fs s l))) by (apply step_reach; auto).
    assert (R1' : reach e (fst (step_f e [] s' l))) by (apply step_reach; auto).
    assert (I1 : ieq (i_cfg (fst (step_f e fs s l))) (i_cfg (fst (step_f e [] s' l)))) by (apply step_ieq; auto).
    destruct (IH _ _ R1 R1' I1 W2) as [A [B [Cc D]]]. fold (erase h) in *.
    split; [split; [auto|split; [reflexivity|auto]]|]. split; auto.
Qed.

Lemma disk_ok_ieq : forall e c c' d, ieq c c' -> disk_ok e c d -> disk_ok e c' d.
Proof.
  intros e c c' d [I1 [I2 [I3 [I4 I5]]]] O.
  assert (Er : forall h, rssl c' h = rssl c h) by (apply rssl_ext; intros; symmetry; auto).
  destruct O as [O1 [m [M1 [M2 [M3 M4]]]] O3 O4 O5 O6 O7 O8 O9]. constructor.
  - intros j x. rewrite O1. rewrite I1. reflexivity.
  - exists m. split; auto. split; [congruence|]. split; [congruence|]. intros t. rewrite M4. apply I4.
  - intros h. rewrite O3. apply I3.
  - intros h. rewrite O4. apply I3.
  - intros h. rewrite O5. apply I3.
  - intros h. rewrite O6. symmetry. apply Er.
  - intros x bc Hx Hn. rewrite (bmap_keys_ext _ (h_items (c_h c)) x bc (fun hp _ => eq_sym (I3 (fst hp)))).
    apply O7; auto. rewrite I1. exact Hx.
  - intros t. rewrite O8. apply I4.
  - intros t. rewrite O9. rewrite (port_tls_ext e _ _ (tport t) I4). rewrite I4. reflexivity.
Qed.

(* After the retry, the files (and the reloaded haproxy) of the execution that suffered the
   faults are exactly the state in which the execution without any fault is - whose own
   files are exactly that state too. *)
Theorem retry_equals_fault_free : forall e, shard_range e ->
  forall h, wf_hist e inst_empty h ->
  forall l, wf_batch e (i_cfg (run_f e inst_empty h)) l ->
    let faulty := fst (step_f e [] (run_f e inst_empty h) l) in
    let faultfree := fst (step_f e [] (run_f e inst_empty (erase h)) l) in
    disk_ok e (i_cfg faultfree) (i_disk faulty) /\ disk_ok e (i_cfg faultfree) (i_disk faultfree) /\
    (inline e = true -> exists r, i_running faulty = Some r /\ disk_ok e (i_cfg faultfree) r).
Proof.
  intros e SR h W l Wl faulty faultfree.
  assert (I0 : ieq (i_cfg inst_empty) (i_cfg inst_empty)) by (repeat split; auto).
  destruct (erase_follows e SR h inst_empty inst_empty (reach_empty e) (reach_empty e) I0 W) as [W' [I [R R']]].
  assert (C : clean (i_cfg (run_f e inst_empty h))) by apply R.
  assert (C' : clean (i_cfg (run_f e inst_empty (erase h)))) by apply R'.
  assert (Wl' : wf_batch e (i_cfg (run_f e inst_empty (erase h))) l) by (apply (wf_batch_ieq e (i_cfg (run_f e inst_empty h))); auto).
  destruct (retry_converges e SR h W l Wl) as [_ [_ [D Rn]]].
  destruct (retry_converges e SR (erase h) W' l Wl') as [_ [_ [D' _]]].
  assert (I1 : ieq (i_cfg faulty) (i_cfg faultfree)) by (apply step_ieq; auto).
  split; [apply (disk_ok_ieq e (i_cfg faulty)); auto|]. split; [exact D'|].
  intros Inl. destruct (Rn Inl) as [r [Hr Dr]]. exists r. split; auto. apply (disk_ok_ieq e (i_cfg faulty)); auto.
Qed.

(* ================================================================ a reload dropped without any sign *)

(* The hypothesis [armed fs FReloadSilent = false] cannot be removed.  If the master reads
   `reload`, closes the connection (or answers garbage) without reloading, and `show proc` then
   shows its old healthy worker, reloadWorker and waitWorker see nothing wrong: the update
   reports success, nothing is retried, and the running haproxy keeps a backend that is gone.
   (A connection that is *reset* is an error of Send and is reported: FReloadReset.) *)
Definition w_env_inline : env :=
  {| nsh := 2; sh := fun x => x mod 2; UB := [0; 1]; UH := [0; 1]; UT := []; inline := true |}.

Lemma armed_silent_only : forall p, p <> FReloadSilent -> armed [FReloadSilent] p = false.
Proof. intros p H. destruct p; try reflexivity. congruence. Qed.
Lemma shard_fails_silent : forall e c u, shard_fails e [FReloadSilent] c u = false.
Proof. reflexivity. Qed.

(* with that fault alone the update does exactly what it does without fault, except that the
   running haproxy stays what it was *)
Lemma silent_same_files : forall e s,
  i_cfg (fst (update_f e [FReloadSilent] s)) = i_cfg (fst (update_f e [] s)) /\
  i_disk (fst (update_f e [FReloadSilent] s)) = i_disk (fst (update_f e [] s)) /\
  snd (update_f e [FReloadSilent] s) = snd (update_f e [] s) /\
  i_running (fst (update_f e [FReloadSilent] s)) = i_running s.
Proof.
  intros e s.
  assert (P1 : forall c d, ph_tcpmaps e [FReloadSilent] c d = ph_tcpmaps e [] c d) by reflexivity.
  assert (P2 : forall c d, ph_front e [FReloadSilent] c d = ph_front e [] c d) by reflexivity.
  assert (P3 : forall c d, ph_backmaps e [FReloadSilent] c d = ph_backmaps e [] c d) by reflexivity.
  assert (P4 : forall c d, ph_tcpcrt e [FReloadSilent] c d = ph_tcpcrt e [] c d) by reflexivity.
  assert (P5 : forall cl c d, ph_config e [FReloadSilent] cl c d = ph_config e [] cl c d) by reflexivity.
  unfold update_f. rewrite P1.
  destruct (ph_tcpmaps e [] _ (i_disk s)) as [d1 e1]. destruct e1; [cbn; repeat split; reflexivity|].
  rewrite P2. destruct (ph_front e [] _ d1) as [[c2 d2] e2]. destruct e2; [cbn; repeat split; reflexivity|].
  rewrite P3. destruct (ph_backmaps e [] c2 d2) as [d3 e3]. destruct e3; [cbn; repeat split; reflexivity|].
  rewrite P4. destruct (ph_tcpcrt e [] c2 d3) as [d4 e4]. destruct e4; [cbn; repeat split; reflexivity|].
  destruct (updated e c2); [cbn; repeat split; reflexivity|].
  rewrite P5. destruct (ph_config e [] (i_clean s) c2 d4) as [d5 e5]. destruct e5; [cbn; repeat split; reflexivity|].
  destruct (inline e); cbn; repeat split; reflexivity.
Qed.

(* the general shape of the refutation: from any good state, inline *)
Lemma silent_drop_general : forall e s l, shard_range e -> inline e = true -> good e s -> wf_batch e (i_cfg s) l ->
  step_f e [FReloadSilent] s l = (fst (step_f e [FReloadSilent] s l), false) /\
  disk_ok e (i_cfg (fst (step_f e [FReloadSilent] s l))) (i_disk (fst (step_f e [FReloadSilent] s l))) /\
  i_cfg (fst (step_f e [FReloadSilent] s l)) = i_cfg (fst (step_f e [] s l)) /\
  exists r0, i_running (fst (step_f e [FReloadSilent] s l)) = Some r0 /\ disk_ok e (i_cfg s) r0.
Proof.
  intros e s l SR Inl G W.
  destruct (silent_same_files e (sync e s l)) as [Ec [Ed [Ee Er]]].
  assert (G2 : good e (fst (step_f e [] s l))).
  { exact (update_good e [] s l _ SR (good_reach e s G) W eq_refl (update_nofault_eq e s l)). }
  unfold step_f in *. split; [|split; [|split]].
  - rewrite (surjective_pairing (update_f e [FReloadSilent] (sync e s l))) at 1. rewrite Ee, update_nofault_ok. reflexivity.
  - rewrite Ec, Ed. apply (good_disk_ok e); auto.
  - exact Ec.
  - rewrite Er. cbn [sync i_running]. destruct (good_running_ok e s SR G Inl) as [r0 [H1 H2]]. exists r0. auto.
Qed.

Theorem silent_reload_drop_refuted :
  exists e h l fs s',
    shard_range e /\ inline e = true /\ wf_hist e inst_empty h /\
    wf_batch e (i_cfg (run_f e inst_empty h)) l /\
    step_f e fs (run_f e inst_empty h) l = (s', false) /\
    disk_ok e (i_cfg s') (i_disk s') /\
    forall r, i_running s' = Some r -> ~ disk_ok e (i_cfg s') r.
Proof.
  exists w_env_inline, [(w_full2, [])], w_part, [FReloadSilent].
  cbn [run_f fold_left fst snd].
  set (s1 := fst (step_f w_env_inline [] inst_empty w_full2)).
  exists (fst (step_f w_env_inline [FReloadSilent] s1 w_part)).
  assert (SR : shard_range w_env_inline) by (intros x _ _; cbn [sh nsh w_env_inline]; apply N.mod_lt; discriminate).
  assert (W1 : wf_batch w_env_inline (i_cfg inst_empty) w_full2).
  { split; [apply shape_full; reflexivity|]. split; [solve_in|].
    split; [apply (ready_b_sound w_env_inline); [apply dom_apply_ops; [solve_in|apply dom_empty]|vm_compute; reflexivity]|
           apply (tracked_b_sound w_env_inline); [apply dom_apply_ops; [solve_in|apply dom_empty]|vm_compute; reflexivity]]. }
  assert (G1 : good w_env_inline s1).
  { exact (update_good w_env_inline [] inst_empty w_full2 _ SR (reach_empty w_env_inline) W1 eq_refl (update_nofault_eq w_env_inline inst_empty w_full2)). }
  assert (W2 : wf_batch w_env_inline (i_cfg s1) w_part).
  { split; [apply shape_partial; reflexivity|]. split; [solve_in|].
    split; [apply (ready_b_sound w_env_inline); [apply dom_apply_ops; [solve_in|apply G1]|vm_compute; reflexivity]|
           apply (tracked_b_sound w_env_inline); [apply dom_apply_ops; [solve_in|apply G1]|vm_compute; reflexivity]]. }
  destruct (silent_drop_general w_env_inline s1 w_part SR eq_refl G1 W2) as [U [D [Ec [r0 [Hr0 D0]]]]].
  split; [exact SR|]. split; [reflexivity|].
  split; [cbn [wf_hist fst snd]; split; [exact W1|split; [reflexivity|exact I]]|].
  split; [exact W2|]. split; [exact U|]. split; [exact D|].
  intros r Hr H. rewrite Hr0 in Hr. inversion Hr; subst r0.
  pose proof (ok_backends _ _ _ D0 2 1) as B0. pose proof (ok_backends _ _ _ H 2 1) as B.
  rewrite B0 in B. rewrite Ec in B. vm_compute in B. discriminate.
Qed.
