(* C12: what follows a failed update - the retry, the reload queue, a restart. *)
From Coq Require Import NArith List Bool Lia.
From HI Require Import Model.ConfigSM Model.ConfigSM_Faults Proofs.ConfigSM.
Import ListNotations.
Open Scope N_scope.

(* ================================================================ the retry *)

(* Whatever faults hit the updates of a history (any number of failed updates in a row, the
   last one included), one more reconciliation without fault - the retry scheduled by the
   reconciler, whose batch may be empty, or the next event - reports success and leaves the
   files, and the haproxy reloaded by the update, exactly those of the current state. *)
Theorem retry_converges : forall e dn, shard_range e ->
  forall h, wf_hist e dn inst_empty h ->
  forall l, wf_batch e dn (i_cfg (run_f e inst_empty h)) l ->
    let r := step_f e [] (run_f e inst_empty h) l in
    snd r = false /\ i_failed (fst r) = false /\
    disk_ok e (i_cfg (fst r)) (i_disk (fst r)) /\
    (inline e = true -> exists run, i_running (fst r) = Some run /\ disk_ok e (i_cfg (fst r)) run).
Proof.
  intros e dn SR h W l Wl r.
  assert (E : snd r = false) by (unfold r, step_f; apply update_nofault_ok).
  split; auto.
  assert (U : step_f e [] (run_f e inst_empty h) l = (fst r, false)).
  { unfold r in *. destruct (step_f e [] (run_f e inst_empty h) l) as [s' err]. cbn in *. subst. reflexivity. }
  apply (success_is_convergence e dn SR h W l [] (fst r) Wl U).
Qed.

(* ================================================================ the reload queue *)

(* A reload enqueued by an update is retried by the queue until it succeeds; the failed
   attempts touch neither the files nor the model, and the successful one loads the files. *)
Lemma reload_once_keeps : forall ok s, i_cfg (reload_once ok s) = i_cfg s /\ i_disk (reload_once ok s) = i_disk s /\
  i_failed (reload_once ok s) = i_failed s.
Proof. intros ok s. unfold reload_once. destruct (i_pending s); destruct ok; cbn; auto. Qed.
Lemma reload_attempts_keeps : forall results s,
  i_cfg (reload_attempts results s) = i_cfg s /\ i_disk (reload_attempts results s) = i_disk s /\
  i_failed (reload_attempts results s) = i_failed s.
Proof.
  unfold reload_attempts. induction results as [|ok l IH]; cbn; intros s; auto.
  destruct (IH (reload_once ok s)) as [A [B C]]. destruct (reload_once_keeps ok s) as [A' [B' C']].
  repeat split; congruence.
Qed.
Lemma reload_done_stays : forall results s, i_pending s = false -> reload_attempts results s = s.
Proof.
  unfold reload_attempts. induction results as [|ok l IH]; cbn; intros s P; auto.
  assert (reload_once ok s = s) by (unfold reload_once; rewrite P; reflexivity). rewrite H. apply IH; auto.
Qed.
Theorem reload_queue_retries : forall results s, i_pending s = true -> In true results ->
  i_running (reload_attempts results s) = Some (i_disk s) /\ i_pending (reload_attempts results s) = false /\
  i_cfg (reload_attempts results s) = i_cfg s /\ i_disk (reload_attempts results s) = i_disk s.
Proof.
  unfold reload_attempts. induction results as [|ok l IH]; cbn; intros s P I; [contradiction|].
  destruct ok.
  - assert (E : reload_once true s = {| i_cfg := i_cfg s; i_disk := i_disk s; i_failed := i_failed s; i_clean := i_clean s;
                                         i_running := Some (i_disk s); i_pending := false |})
      by (unfold reload_once; rewrite P; reflexivity).
    rewrite E. fold (reload_attempts l). rewrite reload_done_stays by reflexivity. cbn. auto.
  - assert (E : reload_once false s = s) by (unfold reload_once; rewrite P; reflexivity). rewrite E.
    destruct I as [I|I]; [discriminate|]. apply IH; auto.
Qed.

(* with the reload queue: a successful update that asked for a reload, then the queue firing
   until one reload succeeds: the running haproxy has loaded the files of the current state *)
Theorem retry_converges_reload_queue : forall e dn, shard_range e -> inline e = false ->
  forall h, wf_hist e dn inst_empty h ->
  forall l fs s', wf_batch e dn (i_cfg (run_f e inst_empty h)) l ->
    step_f e fs (run_f e inst_empty h) l = (s', false) ->
  forall results, i_pending s' = true -> In true results ->
    let s'' := reload_attempts results s' in
    exists run, i_running s'' = Some run /\ disk_ok e (i_cfg s'') run /\ disk_ok e (i_cfg s'') (i_disk s'') /\
                i_pending s'' = false.
Proof.
  intros e dn SR Q h W l fs s' Wl U results P I s''.
  destruct (success_is_convergence e dn SR h W l fs s' Wl U) as [_ [D _]].
  destruct (reload_queue_retries results s' P I) as [R [Pn [C Dk]]].
  exists (i_disk s'). unfold s''. rewrite C, Dk. auto.
Qed.

(* ================================================================ a restart of the controller *)

(* Crash points.  A crash at any point of an update, or a plain restart, gives a new
   instance (nothing committed, nothing remembered) over whatever the directory holds -
   files of an interrupted update, shard files of backends that are gone meanwhile, files of
   shards beyond a smaller --backend-shards.  Its first reconciliation is a full sync, and
   the first configuration it writes removes the backend files it did not write: whatever
   the directory held, the reconciliations that follow converge like any other. *)
Lemma restart_reach : forall e dn s, reach e dn (restart s).
Proof. intros e dn s. apply (reach_new e dn (i_disk s) (i_running s)). Qed.

Theorem restart_converges : forall e dn, shard_range e ->
  forall s l fs s', wf_batch e dn (i_cfg (restart s)) l -> step_f e fs (restart s) l = (s', false) ->
    disk_ok e (i_cfg s') (i_disk s') /\
    (inline e = true -> exists r, i_running s' = Some r /\ disk_ok e (i_cfg s') r).
Proof.
  intros e dn SR s l fs s' W U.
  assert (G : good e dn s') by (apply (update_good e dn fs (restart s) l); auto; apply restart_reach).
  split; [apply (good_disk_ok e dn); auto|apply (good_running_ok e dn); auto].
Qed.
(* ... and so do the histories that follow a restart, faults included *)
Theorem restart_then_history : forall e dn, shard_range e ->
  forall s h, wf_hist e dn (restart s) h ->
  forall l fs s', wf_batch e dn (i_cfg (run_f e (restart s) h)) l ->
    step_f e fs (run_f e (restart s) h) l = (s', false) ->
    disk_ok e (i_cfg s') (i_disk s').
Proof.
  intros e dn SR s h W l fs s' Wl U.
  assert (R : reach e dn (run_f e (restart s) h)) by (apply reach_hist; auto using restart_reach).
  apply (good_disk_ok e dn); auto. apply (update_good e dn fs (run_f e (restart s) h) l); auto.
Qed.

(* A concrete world (used to show that the hypotheses are satisfiable, and as the witness of
   what was wrong before fix 7d37a3e): two shards, backends 0 (shard 0) and 1 (shard 1); the
   controller restarts and the cluster now only has backend 0. *)
Definition w_env : env :=
  {| nsh := 2; sh := fun x => x mod 2; UB := [0; 1]; UH := [0; 1]; UT := []; inline := false |}.
Definition w_b (x : N) : bcont := {| bver := x + 1; bacl := false; bpaths := [(x, 0)]; brssl := [] |}.
Definition w_h (x : N) : hcont := {| hver := x + 10; htls := false; hpaths := [(0, x)] |}.
Definition w_full2 : list op :=
  [OClear; OGlobal 0; OBackAcquire 0 (w_b 0); OBackAcquire 1 (w_b 1); OHostAcquire 0 (w_h 0); OHostAcquire 1 (w_h 1); ODefault None].
Definition w_full1 : list op := [OClear; OGlobal 0; OBackAcquire 0 (w_b 0); OHostAcquire 0 (w_h 0); ODefault None].
Definition w_part : list op := [OTcpRemove []; OHostsRemove [1]; OBacksRemove [1]].
Definition w_s1 : inst := fst (step w_env inst_empty w_full2).
Definition w_s2 : inst := fst (step w_env (restart w_s1) w_full1).

Lemma w_range : shard_range w_env.
Proof.
  intros x _ _. cbn [sh nsh w_env]. apply N.mod_lt. discriminate.
Qed.

(* a decidable form of [ready], to build examples *)
Definition ready_b (e : env) (dn : N) (c : config) : bool :=
  (match b_def (c_b c), (if isSome (b_items (c_b c) dn) then Some dn else None) with
   | Some a, Some b => a =? b | None, None => true | _, _ => false end) &&
  forallb (fun h => match h_items (c_h c) h with
                    | Some hc => match hroot hc with Some b => isSome (b_items (c_b c) b) | None => true end
                    | None => true end) (UH e).
Lemma ready_b_sound : forall e dn c, dom e c -> ready_b e dn c = true -> ready dn c.
Proof.
  intros e dn c [_ [Dh _]] H. unfold ready_b in H. apply andb_true_iff in H. destruct H as [H1 H2]. split.
  - destruct (b_def (c_b c)) as [a|]; destruct (if isSome (b_items (c_b c) dn) then Some dn else None) as [b|];
      try discriminate; auto. apply N.eqb_eq in H1. congruence.
  - intros h hc b Hh Hr. assert (Ih : In h (UH e)) by (apply Dh; left; congruence).
    rewrite forallb_forall in H2. specialize (H2 h Ih). rewrite Hh, Hr in H2. apply isSome_true. exact H2.
Qed.
Ltac solve_in := repeat (apply Forall_cons; [cbn; auto 10|]); apply Forall_nil.
Ltac solve_wf D :=
  split; [first [apply shape_full; reflexivity | apply shape_partial; reflexivity]|];
  split; [solve_in|];
  apply (ready_b_sound w_env); [apply dom_apply_ops; [solve_in|exact D]|vm_compute; reflexivity].

Lemma w_wf1 : wf_batch w_env 7 (i_cfg inst_empty) w_full2.
Proof. solve_wf (dom_empty w_env). Qed.
Lemma w_dom_s1 : dom w_env (i_cfg w_s1).
Proof.
  assert (R : reach w_env 7 w_s1).
  { apply (step_reach w_env 7 [] inst_empty w_full2); [apply w_range|apply reach_empty|apply w_wf1]. }
  apply R.
Qed.
Lemma w_wf2 : wf_batch w_env 7 (i_cfg (restart w_s1)) w_full1.
Proof. solve_wf (dom_empty w_env). Qed.
Lemma w_wf_part : wf_batch w_env 7 (i_cfg w_s1) w_part.
Proof. solve_wf w_dom_s1. Qed.

(* the hypotheses of the theorems are satisfiable: a full sync, then a partial sync that
   removes the only backend of shard 1, with or without faults *)
Example wf_hist_example : wf_hist w_env 7 inst_empty [(w_full2, []); (w_part, [FShard 1])].
Proof. cbn [wf_hist fst snd]. split; [apply w_wf1|]. split; [apply w_wf_part|exact I]. Qed.

(* the stale shard file of the witness is removed by the restarted instance *)
Example restart_witness_converges :
  disk_ok w_env (i_cfg w_s2) (i_disk w_s2) /\ d_shard (i_disk w_s2) 1 = None /\ d_shard (i_disk w_s1) 1 <> None.
Proof.
  split; [|split].
  - assert (U : step_f w_env [] (restart w_s1) w_full1 = (w_s2, false)).
    { unfold w_s2, step_f, step, update.
      rewrite (surjective_pairing (update_f w_env [] (sync w_env (restart w_s1) w_full1))) at 1.
      rewrite update_nofault_ok. reflexivity. }
    apply (restart_converges w_env 7 w_range w_s1 w_full1 [] w_s2 w_wf2 U).
  - vm_compute. reflexivity.
  - vm_compute. discriminate.
Qed.
