(* Proofs for Model/TmplRefs.v (C07, generative side). *)
From Coq Require Import String List NArith ZArith Bool Arith Lia.
From HI Require Import Model.CfgRefs Proofs.CfgRefs Model.TmplRefs.
Import ListNotations.
Open Scope string_scope.
Open Scope list_scope.

(* ------------------------------------------------------------------ identifiers *)

Lemma sid_eqb_eq : forall a b, sid_eqb a b = true <-> a = b.
Proof.
  intros [x|x|x|x|x] [y|y|y|y|y]; cbn [sid_eqb];
    first [ rewrite String.eqb_eq; split; intro H; [subst; reflexivity | inversion H; reflexivity]
          | split; intro H; [discriminate H | inversion H] ].
Qed.

Lemma sid_mem_In : forall x l, sid_mem x l = true <-> In x l.
Proof.
  intros x l. unfold sid_mem. rewrite existsb_exists. split.
  - intros [y [Hy He]]. apply sid_eqb_eq in He. subst. exact Hy.
  - intros H. exists x. split; [exact H | now apply sid_eqb_eq].
Qed.

Lemma sid_nodupb_NoDup : forall l, sid_nodupb l = true <-> NoDup l.
Proof.
  induction l as [|x l IH]; cbn [sid_nodupb].
  - split; [constructor | reflexivity].
  - rewrite andb_true_iff, negb_true_iff, IH. split.
    + intros [Hm Hn]. constructor; [|exact Hn]. intro Hin. apply sid_mem_In in Hin. congruence.
    + intros H. inversion H; subst. split; [|assumption].
      destruct (sid_mem x l) eqn:E; [|reflexivity]. apply sid_mem_In in E. contradiction.
Qed.

Lemma nonempty_true : forall s, nonempty s = true <-> s <> "".
Proof.
  intros s. unfold nonempty. rewrite negb_true_iff. split.
  - intros H E. subst. discriminate.
  - intros H. destruct (String.eqb_spec s ""); [contradiction|reflexivity].
Qed.

(* ------------------------------------------------------------------ what is emitted *)

Section Emitted.
  Variable st : tstate.

  Lemma em_back : forall n, known_back st n = true -> In (SBack n) (emitted_sections st).
  Proof.
    intros n H. apply mem_In in H. unfold emitted_sections.
    do 3 (apply in_or_app; right). apply in_or_app. left. now apply in_map.
  Qed.

  Lemma em_support : forall x, In x (support_backs st) -> In x (emitted_sections st).
  Proof.
    intros x H. unfold emitted_sections. do 4 (apply in_or_app; right). apply in_or_app. now left.
  Qed.

  Lemma em_redirect : ts_haspass st = true -> In (SBack "_redirect_https") (emitted_sections st).
  Proof. intros H. apply em_support. unfold support_backs. rewrite H. now left. Qed.

  Lemma em_acme : ts_acme st = true -> In (SBack "_acme_challenge") (emitted_sections st).
  Proof.
    intros H. apply em_support. unfold support_backs. rewrite H. apply in_or_app. right.
    apply in_or_app. left. now left.
  Qed.

  Lemma em_error404 : negb (is_some (ts_default st)) || has_error404 st = true ->
    In (SBack "_error404") (emitted_sections st).
  Proof.
    intros H. apply em_support. unfold support_backs. rewrite H. apply in_or_app. right.
    apply in_or_app. right. now left.
  Qed.

  Lemma em_bind : forall n, mem n (map ab_name (ts_binds st)) = true -> In (SBack n) (emitted_sections st).
  Proof.
    intros n H. apply mem_In in H. unfold emitted_sections. do 5 (apply in_or_app; right).
    apply in_or_app. left. unfold auth_sections. destruct (ts_binds st) as [|b bs] eqn:E; [destruct H|].
    apply in_or_app. left. rewrite in_map_iff in H. destruct H as [x [Hx Hin]]. subst.
    apply in_map_iff. exists x. split; [reflexivity|exact Hin].
  Qed.

  Lemma em_userlist : forall u, mem u (ts_userlists st) = true -> In (SUserlist u) (emitted_sections st).
  Proof.
    intros u H. apply mem_In in H. unfold emitted_sections. apply in_or_app. right.
    apply in_or_app. left. now apply in_map.
  Qed.

  Lemma em_resolvers : forall r, mem r (ts_resolvers st) = true -> In (SResolvers r) (emitted_sections st).
  Proof.
    intros r H. apply mem_In in H. unfold emitted_sections. apply in_or_app. left. now apply in_map.
  Qed.

  Lemma em_known_or_bind : forall n,
    known_back st n || mem n (map ab_name (ts_binds st)) = true -> In (SBack n) (emitted_sections st).
  Proof. intros n H. apply orb_true_iff in H. destruct H; [now apply em_back | now apply em_bind]. Qed.

  (* a backend named by a path of a host that satisfies host_ok *)
  Lemma em_path_back : forall h p, In h (all_hosts st) -> host_ok st h = true -> In p (th_paths h) ->
    nonempty (tp_back p) = true -> In (SBack (tp_back p)) (emitted_sections st).
  Proof.
    intros h p Hh Hok Hp Hne. unfold host_ok in Hok. apply andb_true_iff in Hok. destruct Hok as [Hps _].
    rewrite forallb_forall in Hps. specialize (Hps p Hp). unfold path_ok in Hps.
    apply andb_true_iff in Hps. destruct Hps as [Hb _]. rewrite Hne in Hb. cbn [negb orb] in Hb.
    apply orb_true_iff in Hb. destruct Hb as [He|Hk]; [|now apply em_back].
    apply String.eqb_eq in He. rewrite He. apply em_error404. apply orb_true_iff. right.
    unfold has_error404. apply existsb_exists. exists h. split; [exact Hh|].
    apply existsb_exists. exists p. split; [exact Hp|]. rewrite He. reflexivity.
  Qed.

  Lemma em_path_auth : forall h p a n, host_ok st h = true -> In p (th_paths h) ->
    tp_auth p = Some a -> In n (auth_target a) -> In (SBack n) (emitted_sections st).
  Proof.
    intros h p a n Hok Hp Ha Hn. unfold host_ok in Hok. apply andb_true_iff in Hok. destruct Hok as [Hps _].
    rewrite forallb_forall in Hps. specialize (Hps p Hp). unfold path_ok in Hps.
    apply andb_true_iff in Hps. destruct Hps as [_ Hau]. rewrite Ha in Hau.
    rewrite forallb_forall in Hau. apply em_known_or_bind. auto.
  Qed.
End Emitted.

(* ------------------------------------------------------------------ closure *)

Definition refs_closed (st : tstate) : Prop :=
  forall r, In r (references st) -> In (snd r) (emitted_sections st).

Lemma in_flat_map_if : forall (A B : Type) (c : A -> bool) (f : A -> list B) (l : list A) (y : B),
  In y (flat_map (fun x => if c x then f x else []) l) -> exists x, In x l /\ c x = true /\ In y (f x).
Proof.
  intros A B c f l y H. apply in_flat_map in H. destruct H as [x [Hx Hy]].
  exists x. destruct (c x); [auto | destruct Hy].
Qed.

Theorem template_refs_closed : forall st, st_inv st = true ->
  refs_closed st /\ NoDup (emitted_sections st).
Proof.
  intros st Hinv. unfold st_inv in Hinv. apply andb_true_iff in Hinv. destruct Hinv as [Hhosts Hrest].
  unfold inv_hostrefs in Hhosts. rewrite forallb_forall in Hhosts.
  unfold inv_rest in Hrest. repeat rewrite andb_true_iff in Hrest.
  destruct Hrest as [[[[[[Hpass Hbacks] Hbinds] Hdefault] Htcp] Hnodup] _].
  apply Bool.eqb_prop in Hpass.
  rewrite forallb_forall in Hbacks, Hbinds, Hdefault, Htcp.
  split; [|now apply sid_nodupb_NoDup].
  assert (Hsub : forall h, In h (ts_hosts st) -> In h (all_hosts st))
    by (intros h Hh; unfold all_hosts; apply in_or_app; now left).
  assert (Hdh : forall dh, ts_defhost st = Some dh -> In dh (all_hosts st))
    by (intros dh E; unfold all_hosts; rewrite E; apply in_or_app; right; now left).
  assert (Hhaspass : forall h, In h (all_hosts st) -> th_pass h = true -> ts_haspass st = true).
  { intros h Hh Hp. rewrite Hpass. apply existsb_exists. eauto. }
  assert (Hdefref : forall site r, In r (default_backend_ref site st) -> In (snd r) (emitted_sections st)).
  { intros site r [<-|[]]. cbn [snd]. destruct (ts_default st) as [d|] eqn:E.
    - apply em_back. apply Hdefault. now left.
    - apply em_error404. rewrite E. reflexivity. }
  assert (Hdhref : forall site r, In r (defaulthost_refs site st) -> In (snd r) (emitted_sections st)).
  { intros site r H. unfold defaulthost_refs in H. destruct (ts_defhost st) as [dh|] eqn:E; [|destruct H].
    destruct (th_pass dh); [destruct H|]. apply in_flat_map_if in H. destruct H as [p [Hp [Hne [<-|[]]]]].
    cbn [snd]. eapply em_path_back; eauto. }
  assert (Hauthref : forall site r, In r (auth_front_refs site st) -> In (snd r) (emitted_sections st)).
  { intros site r H. unfold auth_front_refs in H. apply in_flat_map in H. destruct H as [h [Hh H]].
    apply in_flat_map in H. destruct H as [p [Hp H]]. destruct (tp_auth p) as [a|] eqn:Ea; [|destruct H].
    apply in_map_iff in H. destruct H as [n [<- Hn]]. cbn [snd]. eapply em_path_auth; eauto. }
  intros r Hr. unfold references in Hr.
  apply in_app_or in Hr. destruct Hr as [Hr|Hr].
  { (* backends *)
    apply in_flat_map in Hr. destruct Hr as [b [Hb Hr]]. specialize (Hbacks b Hb).
    unfold back_ok in Hbacks. repeat rewrite andb_true_iff in Hbacks. destruct Hbacks as [[Hul Hau] Hres].
    rewrite forallb_forall in Hul, Hau.
    unfold backend_refs_of in Hr. apply in_app_or in Hr. destruct Hr as [Hr|Hr].
    - destruct (tb_tcp b); [destruct Hr|]. apply in_app_or in Hr. destruct Hr as [Hr|Hr].
      + apply in_map_iff in Hr. destruct Hr as [u [<- Hu]]. cbn [snd]. apply em_userlist. auto.
      + apply in_flat_map in Hr. destruct Hr as [a [Ha Hr]]. apply in_map_iff in Hr.
        destruct Hr as [n [<- Hn]]. cbn [snd]. apply em_known_or_bind.
        specialize (Hau a Ha). rewrite forallb_forall in Hau. auto.
    - destruct (nonempty (tb_resolver b)) eqn:E; [|destruct Hr]. destruct Hr as [<-|[]]. cbn [snd].
      rewrite ?E in Hres. cbn [negb orb] in Hres. now apply em_resolvers. }
  apply in_app_or in Hr. destruct Hr as [Hr|Hr].
  { (* auth proxy frontend *)
    unfold authproxy_refs in Hr. apply in_map_iff in Hr. destruct Hr as [b [<- Hb]]. cbn [snd].
    apply em_back. auto. }
  apply in_app_or in Hr. destruct Hr as [Hr|Hr].
  { (* tcp service frontends *)
    unfold tcp_front_refs in Hr. apply in_flat_map in Hr. destruct Hr as [t [Ht Hr]].
    specialize (Htcp t Ht). unfold tcp_ok in Htcp. apply andb_true_iff in Htcp. destruct Htcp as [H1 H2].
    rewrite forallb_forall in H1, H2. apply in_app_or in Hr. destruct Hr as [Hr|Hr];
      apply in_map_iff in Hr; destruct Hr as [x [<- Hx]]; cbn [snd]; apply em_back; auto. }
  apply in_app_or in Hr. destruct Hr as [Hr|Hr].
  { (* _front__tls *)
    unfold tls_front_refs in Hr. destruct (ts_haspass st); [|destruct Hr].
    apply in_app_or in Hr. destruct Hr as [Hr|Hr].
    - unfold sslpass_map_refs in Hr. apply in_flat_map_if in Hr. destruct Hr as [h [Hh [_ Hr]]].
      apply in_flat_map_if in Hr. destruct Hr as [p [Hp [Hc [<-|[]]]]]. cbn [snd].
      apply andb_true_iff in Hc. destruct Hc as [Hne _]. eapply em_path_back; eauto.
    - destruct (ts_defhost st) as [dh|] eqn:E; [|destruct Hr].
      destruct (th_pass dh) eqn:Ep; [|destruct Hr].
      apply in_flat_map_if in Hr. destruct Hr as [p [Hp [Hc [<-|[]]]]]. cbn [snd].
      apply andb_true_iff in Hc. destruct Hc as [_ Hne].
      eapply em_path_back; eauto. }
  apply in_app_or in Hr. destruct Hr as [Hr|Hr].
  { (* _front_http *)
    unfold http_front_refs in Hr. destruct (ts_fmaps st); [|destruct Hr].
    apply in_app_or in Hr. destruct Hr as [Hr|Hr].
    { destruct (ts_acme st) eqn:E; [|destruct Hr]. destruct Hr as [<-|[]]. cbn [snd]. now apply em_acme. }
    apply in_app_or in Hr. destruct Hr as [Hr|Hr].
    { unfold http_map_refs in Hr. apply in_flat_map in Hr. destruct Hr as [h [Hh Hr]].
      apply in_flat_map_if in Hr. destruct Hr as [p [Hp [Hne [<-|[]]]]]. cbn [snd].
      unfold http_value. destruct (th_pass h && is_root p) eqn:Ec.
      - apply andb_true_iff in Ec. destruct Ec as [Epass _].
        destruct (nonempty (th_httppass h)) eqn:Eh.
        + apply em_back. specialize (Hhosts h (Hsub h Hh)). unfold host_ok in Hhosts.
          apply andb_true_iff in Hhosts. destruct Hhosts as [_ Hk]. rewrite Eh in Hk. exact Hk.
        + apply em_redirect. eapply Hhaspass; eauto.
      - eapply em_path_back; eauto. }
    apply in_app_or in Hr. destruct Hr as [Hr|Hr]; [eauto|].
    apply in_app_or in Hr. destruct Hr as [Hr|Hr]; [eauto|].
    apply in_app_or in Hr. destruct Hr as [Hr|Hr]; [|eauto].
    destruct (ts_defhost st) as [dh|] eqn:E; [|destruct Hr].
    destruct (nonempty (th_httppass dh)) eqn:Eh; [|destruct Hr]. destruct Hr as [<-|[]]. cbn [snd].
    apply em_back. assert (Hin : In dh (all_hosts st)) by (apply Hdh; first [exact E | reflexivity]).
    specialize (Hhosts dh Hin). unfold host_ok in Hhosts.
    apply andb_true_iff in Hhosts. destruct Hhosts as [_ Hk]. rewrite Eh in Hk. exact Hk. }
  { (* the https frontend *)
    unfold https_front_refs in Hr. destruct (ts_fmaps st); [|destruct Hr].
    apply in_app_or in Hr. destruct Hr as [Hr|Hr].
    { unfold https_map_refs in Hr. apply in_flat_map_if in Hr. destruct Hr as [h [Hh [_ Hr]]].
      apply in_flat_map_if in Hr. destruct Hr as [p [Hp [Hne [<-|[]]]]]. cbn [snd].
      eapply em_path_back; eauto. }
    apply in_app_or in Hr. destruct Hr as [Hr|Hr]; [eauto|].
    apply in_app_or in Hr. destruct Hr as [Hr|Hr]; eauto. }
Qed.

(* every crt-list a bind names is a file the instance writes for that very state: the two
   emission conditions (template: HasTLS / $fmaps; writers: len(TLS) > 0 / the frontend maps) agree *)
Theorem template_crtlists_written : forall st r, In r (file_refs st) -> In (snd r) (written_files st).
Proof.
  intros st r H. unfold file_refs in H. unfold written_files. apply in_app_or in H. apply in_or_app.
  destruct H as [H|H].
  - left. apply in_flat_map in H. destruct H as [t [Ht H]]. apply in_flat_map. exists t. split; [exact Ht|].
    destruct (tt_tls t); [|destruct H]. destruct H as [<-|[]]. now left.
  - right. destruct (ts_fmaps st); [|destruct H]. destruct H as [<-|[]]. now left.
Qed.

(* ------------------------------------------------------------------ Hosts bookkeeping *)

Section Assoc.
  Context {A : Type}.

  Lemma lookup_aset : forall k k' (v : A) l,
    lookup k' (aset k v l) = if String.eqb k' k then Some v else lookup k' l.
  Proof.
    intros k k' v l. induction l as [|[k0 v0] l IH]; cbn [aset lookup].
    - destruct (String.eqb k' k); reflexivity.
    - destruct (String.eqb_spec k k0) as [->|Hne]; cbn [lookup].
      + destruct (String.eqb k' k0); reflexivity.
      + rewrite IH. destruct (String.eqb_spec k' k0) as [->|Hne'].
        * destruct (String.eqb_spec k0 k); [congruence|reflexivity].
        * reflexivity.
  Qed.

  Lemma lookup_adel_other : forall k k' (l : list (string * A)), k' <> k ->
    lookup k' (adel k l) = lookup k' l.
  Proof.
    intros k k' l Hne. induction l as [|[k0 v0] l IH]; cbn [adel lookup]; [reflexivity|].
    destruct (String.eqb_spec k k0) as [->|Hk]; cbn [lookup].
    - destruct (String.eqb_spec k' k0); [congruence|reflexivity].
    - rewrite IH. reflexivity.
  Qed.

  Lemma lookup_aupd : forall k k' (f : A -> A) l,
    lookup k' (aupd k f l) = if String.eqb k' k then option_map f (lookup k' l) else lookup k' l.
  Proof.
    intros k k' f l. induction l as [|[k0 v0] l IH]; cbn [aupd lookup].
    - destruct (String.eqb k' k); reflexivity.
    - destruct (String.eqb_spec k k0) as [->|Hne]; cbn [lookup].
      + destruct (String.eqb k' k0); reflexivity.
      + rewrite IH. destruct (String.eqb_spec k' k0) as [->|Hne'].
        * destruct (String.eqb_spec k0 k); [congruence|reflexivity].
        * reflexivity.
  Qed.

  Lemma keys_aupd : forall k (f : A -> A) l, map fst (aupd k f l) = map fst l.
  Proof.
    intros k f l. induction l as [|[k0 v0] l IH]; cbn [aupd map fst]; [reflexivity|].
    destruct (String.eqb k k0); cbn [map fst]; [reflexivity | now rewrite IH].
  Qed.

  Lemma lookup_None_keys : forall k (l : list (string * A)), lookup k l = None <-> ~ In k (map fst l).
  Proof.
    intros k l. induction l as [|[k0 v0] l IH]; cbn [lookup map fst]; [tauto|].
    destruct (String.eqb_spec k k0) as [->|Hne].
    - split; [discriminate | intros H; exfalso; apply H; now left].
    - rewrite IH. split; [intros H [E|Hin]; [congruence | contradiction] | intros H Hin; apply H; now right].
  Qed.

  Lemma keys_aset_new : forall k (v : A) l, lookup k l = None -> map fst (aset k v l) = map fst l ++ [k].
  Proof.
    intros k v l. induction l as [|[k0 v0] l IH]; cbn [aset lookup map fst app]; [reflexivity|].
    destruct (String.eqb k k0); [discriminate|]. intros H. cbn [map fst]. now rewrite IH.
  Qed.

  Lemma keys_aset_old : forall k (v : A) l, lookup k l <> None -> map fst (aset k v l) = map fst l.
  Proof.
    intros k v l. induction l as [|[k0 v0] l IH]; cbn [aset lookup map fst]; [congruence|].
    destruct (String.eqb_spec k k0) as [->|Hne]; cbn [map fst]; [reflexivity|].
    intros H. now rewrite IH.
  Qed.

  Lemma keys_adel_NoDup : forall k (l : list (string * A)), NoDup (map fst l) -> NoDup (map fst (adel k l)).
  Proof.
    intros k l. induction l as [|[k0 v0] l IH]; cbn [adel map fst]; [auto|].
    intros H. inversion H; subst. destruct (String.eqb k k0); [assumption|]. cbn [map fst].
    constructor; [|auto]. intro Hin. apply H2. clear -Hin.
    induction l as [|[k1 v1] l IH]; cbn [adel map fst] in *; [destruct Hin|].
    destruct (String.eqb k k1); [now right|]. destruct Hin as [E|Hin]; [now left | right; auto].
  Qed.
End Assoc.

Lemma pass_count_cons : forall k v l,
  pass_count ((k, v) :: l) = ((if th_pass v then 1 else 0) + pass_count l)%Z.
Proof. intros k v l. unfold pass_count. cbn [filter snd]. destruct (th_pass v); cbn [length]; lia. Qed.

Lemma pass_count_aupd_same : forall n f l, (forall h, th_pass (f h) = th_pass h) ->
  pass_count (aupd n f l) = pass_count l.
Proof.
  intros n f l Hf. induction l as [|[k v] l IH]; cbn [aupd]; [reflexivity|].
  destruct (String.eqb n k); rewrite !pass_count_cons; [now rewrite Hf | now rewrite IH].
Qed.

Lemma pass_count_aupd_flip : forall n v l h, lookup n l = Some h -> th_pass h <> v ->
  pass_count (aupd n (set_pass v) l) = (if v then pass_count l + 1 else pass_count l - 1)%Z.
Proof.
  intros n v l h. induction l as [|[k x] l IH]; cbn [lookup aupd]; [discriminate|].
  destruct (String.eqb n k).
  - intros E Hne. inversion E; subst. rewrite !pass_count_cons. cbn [set_pass th_pass].
    destruct v, (th_pass h); try congruence; lia.
  - intros E Hne. rewrite !pass_count_cons, (IH E Hne). destruct v; lia.
Qed.

Lemma pass_count_adel : forall n l h, lookup n l = Some h ->
  pass_count (adel n l) = (if th_pass h then pass_count l - 1 else pass_count l)%Z.
Proof.
  intros n l h. induction l as [|[k x] l IH]; cbn [lookup adel]; [discriminate|].
  destruct (String.eqb n k).
  - intros E. inversion E; subst. rewrite pass_count_cons. destruct (th_pass h); lia.
  - intros E. rewrite !pass_count_cons, (IH E). destruct (th_pass h); lia.
Qed.

Lemma pass_count_aset_new : forall n h l, lookup n l = None ->
  pass_count (aset n h l) = (pass_count l + (if th_pass h then 1 else 0))%Z.
Proof.
  intros n h l. induction l as [|[k x] l IH]; cbn [lookup aset].
  - intros _. rewrite pass_count_cons. unfold pass_count. cbn. lia.
  - destruct (String.eqb n k); [discriminate|]. intros E. rewrite !pass_count_cons, (IH E). lia.
Qed.

Lemma pass_count_aset_same : forall n h h' l, lookup n l = Some h' -> th_pass h = th_pass h' ->
  pass_count (aset n h l) = pass_count l.
Proof.
  intros n h h' l. induction l as [|[k x] l IH]; cbn [lookup aset]; [discriminate|].
  destruct (String.eqb n k).
  - intros E Hp. inversion E; subst. rewrite !pass_count_cons, Hp. reflexivity.
  - intros E Hp. rewrite !pass_count_cons, (IH E Hp). reflexivity.
Qed.

Lemma lookup_adel_same : forall (A : Type) k (l : list (string * A)), NoDup (map fst l) -> lookup k (adel k l) = None.
Proof.
  intros A k l. induction l as [|[k0 v0] l IH]; cbn [adel lookup map fst]; [reflexivity|].
  intros H. inversion H; subst. destruct (String.eqb_spec k k0) as [->|Hne].
  - now apply lookup_None_keys.
  - cbn [lookup]. destruct (String.eqb_spec k k0); [congruence|]. auto.
Qed.

(* the invariant while a reconciliation runs *)
Definition hinv (s : hstate) : Prop :=
  NoDup (map fst (hs_items s)) /\
  NoDup (map fst (hs_add s)) /\
  hs_count s = pass_count (hs_items s) /\
  (forall n a, lookup n (hs_add s) = Some a -> lookup n (hs_items s) = Some a).

Lemma hinv_remove_one : forall s n, hinv s -> hs_add s = [] -> hinv (remove_one s n) /\ hs_add (remove_one s n) = [].
Proof.
  intros s n [Hn [Hna [Hc Hm]]] Ha. unfold remove_one. destruct (lookup n (hs_items s)) as [h|] eqn:E.
  - split; [|exact Ha]. split; [|split; [|split]]; cbn [hs_items hs_count hs_add].
    + now apply keys_adel_NoDup.
    + exact Hna.
    + rewrite (pass_count_adel _ _ _ E), Hc. destruct (th_pass h); reflexivity.
    + rewrite Ha. cbn. discriminate.
  - split; [split; [|split; [|split]]; assumption | exact Ha].
Qed.

Lemma hinv_remove_all : forall ns s, hinv s -> hs_add s = [] -> hinv (remove_all s ns) /\ hs_add (remove_all s ns) = [].
Proof.
  induction ns as [|n ns IH]; intros s H Ha; cbn [remove_all fold_left]; [auto|].
  destruct (hinv_remove_one s n H Ha) as [H' Ha']. apply (IH _ H' Ha').
Qed.

Lemma hinv_mut : forall s m, hinv s -> hinv (hmut_step s m).
Proof.
  intros s m [Hn [Hna [Hc Hm]]]. destruct m as [n|n v|n hp tls ps]; cbn [hmut_step].
  - destruct (lookup n (hs_items s)) eqn:E; [split; [|split; [|split]]; assumption|].
    assert (Ea : lookup n (hs_add s) = None).
    { destruct (lookup n (hs_add s)) as [a|] eqn:Ea; [|reflexivity]. rewrite (Hm _ _ Ea) in E. discriminate. }
    split; [|split; [|split]]; cbn [hs_items hs_count hs_add].
    + rewrite (keys_aset_new _ _ _ E). apply NoDup_snoc; [exact Hn|]. now apply lookup_None_keys.
    + rewrite (keys_aset_new _ _ _ Ea). apply NoDup_snoc; [exact Hna|]. now apply lookup_None_keys.
    + rewrite (pass_count_aset_new _ _ _ E). cbn [new_host th_pass]. lia.
    + intros k a. rewrite !lookup_aset. destruct (String.eqb k n); [auto|]. apply Hm.
  - destruct (lookup n (hs_items s)) as [h|] eqn:E; [|split; [|split; [|split]]; assumption].
    destruct (Bool.eqb (th_pass h) v) eqn:Eb; [split; [|split; [|split]]; assumption|].
    apply eqb_false_iff in Eb.
    split; [|split; [|split]]; cbn [hs_items hs_count hs_add].
    + now rewrite keys_aupd.
    + now rewrite keys_aupd.
    + rewrite (pass_count_aupd_flip _ _ _ _ E Eb), Hc. destruct v; reflexivity.
    + intros k a. rewrite !lookup_aupd. destruct (String.eqb k n); [|apply Hm].
      destruct (lookup k (hs_add s)) as [a0|] eqn:Ea; cbn [option_map]; [|discriminate].
      rewrite (Hm _ _ Ea). cbn [option_map]. auto.
  - split; [|split; [|split]]; cbn [hs_items hs_count hs_add].
    + now rewrite keys_aupd.
    + now rewrite keys_aupd.
    + rewrite pass_count_aupd_same; [exact Hc | reflexivity].
    + intros k a. rewrite !lookup_aupd. destruct (String.eqb k n); [|apply Hm].
      destruct (lookup k (hs_add s)) as [a0|] eqn:Ea; cbn [option_map]; [|discriminate].
      rewrite (Hm _ _ Ea). cbn [option_map]. auto.
Qed.

Lemma hinv_muts : forall ms s, hinv s -> hinv (fold_left hmut_step ms s).
Proof. induction ms as [|m ms IH]; intros s H; cbn [fold_left]; [exact H|]. apply IH. now apply hinv_mut. Qed.

Lemma thost_eqb_pass : forall a b, thost_eqb a b = true -> th_pass a = th_pass b.
Proof.
  intros a b H. unfold thost_eqb in H. repeat rewrite andb_true_iff in H.
  destruct H as [[[[_ Hp] _] _] _]. now apply eqb_prop.
Qed.

Lemma hinv_shrink_one : forall s nd, hinv s -> hinv (shrink_one s nd).
Proof.
  intros s [n d] [Hn [Hna [Hc Hm]]]. unfold shrink_one. cbn [fst snd].
  destruct (lookup n (hs_add s)) as [a|] eqn:Ea; [|split; [|split; [|split]]; assumption].
  destruct (thost_eqb a d) eqn:Ee; [|split; [|split; [|split]]; assumption].
  pose proof (Hm _ _ Ea) as Hi. apply thost_eqb_pass in Ee.
  split; [|split; [|split]]; cbn [hs_items hs_count hs_add].
  - rewrite keys_aset_old; [exact Hn | congruence].
  - now apply keys_adel_NoDup.
  - rewrite (pass_count_aset_same n d a); [exact Hc | exact Hi | congruence].
  - intros k x Hk. rewrite lookup_aset. destruct (String.eqb_spec k n) as [->|Hne].
    + rewrite lookup_adel_same in Hk by exact Hna. discriminate.
    + rewrite lookup_adel_other in Hk by exact Hne. auto.
Qed.

Lemma hinv_shrink_fold : forall l s, hinv s -> hinv (fold_left shrink_one l s).
Proof. induction l as [|x l IH]; intros s H; cbn [fold_left]; [exact H|]. apply IH. now apply hinv_shrink_one. Qed.

(* the state between two reconciliations *)
Definition hrest (s : hstate) : Prop :=
  NoDup (map fst (hs_items s)) /\ hs_count s = pass_count (hs_items s) /\ hs_add s = [] /\ hs_del s = [].

Lemma hrest_hinv : forall s, hrest s -> hinv s /\ hs_add s = [].
Proof.
  intros s [Hn [Hc [Ha Hd]]]. split; [|exact Ha]. split; [exact Hn|]. rewrite Ha.
  split; [constructor|]. split; [exact Hc|]. cbn. discriminate.
Qed.

Lemma hrest_cycle : forall s c, hrest s -> hrest (run_cycle s c).
Proof.
  intros s c Hr. unfold run_cycle.
  assert (H1 : hinv (if hc_full c then hs0 else remove_all s (hc_remove c))).
  { destruct (hc_full c).
    - split; [constructor|]. split; [constructor|]. split; [reflexivity|]. cbn. discriminate.
    - destruct (hrest_hinv s Hr) as [Hi Ha]. apply (hinv_remove_all _ _ Hi Ha). }
  pose proof (hinv_muts (hc_muts c) _ H1) as H2.
  pose proof (hinv_shrink_fold (hs_del (fold_left hmut_step (hc_muts c) (if hc_full c then hs0 else remove_all s (hc_remove c)))) _ H2) as H3.
  fold (shrink (fold_left hmut_step (hc_muts c) (if hc_full c then hs0 else remove_all s (hc_remove c)))) in H3.
  destruct H3 as [Hn [_ [Hc _]]]. split; [exact Hn|]. split; [exact Hc|]. split; reflexivity.
Qed.

(* for every sequence of reconciliations (full or partial, any hosts removed, acquired,
   switched to or from ssl-passthrough, edited) the counter is the number of
   ssl-passthrough hosts of the model *)
Theorem hosts_counter : forall cs,
  let s := run_cycles cs in
  NoDup (map fst (hs_items s)) /\ hs_count s = pass_count (hs_items s) /\ hs_add s = [] /\ hs_del s = [].
Proof.
  intros cs. unfold run_cycles.
  assert (H : forall l s, hrest s -> hrest (fold_left run_cycle l s)).
  { induction l as [|c l IH]; intros s Hs; cbn [fold_left]; [exact Hs|]. apply IH. now apply hrest_cycle. }
  apply H. split; [constructor|]. split; [reflexivity|]. split; reflexivity.
Qed.

Lemma pass_count_pos : forall l, (0 <? pass_count l)%Z = existsb th_pass (map snd l).
Proof.
  induction l as [|[k v] l IH]; [reflexivity|]. rewrite pass_count_cons. cbn [map snd existsb].
  destruct (th_pass v); cbn [orb].
  - unfold pass_count. apply Z.ltb_lt. lia.
  - rewrite <- IH. reflexivity.
Qed.

(* Hosts.HasSSLPassthrough() = some host of the model has ssl-passthrough *)
Theorem has_passthrough_exact : forall cs,
  let s := run_cycles cs in
  (0 <? hs_count s)%Z = existsb th_pass (map snd (hs_items s)).
Proof.
  intros cs s. destruct (hosts_counter cs) as [_ [Hc _]]. fold s in Hc. rewrite Hc. apply pass_count_pos.
Qed.

(* the counter does move: the hypothesis-free statement is not vacuous *)
Example hosts_counter_example :
  let s := run_cycles
    [ {| hc_full := true; hc_remove := []; hc_muts := [HAcquire "a"; HSetPass "a" true; HAcquire "b"] |};
      {| hc_full := false; hc_remove := ["a"]; hc_muts := [HAcquire "a"; HSetPass "a" true] |};
      {| hc_full := false; hc_remove := ["a"]; hc_muts := [HAcquire "a"; HSetPass "a" true] |} ] in
  hs_count s = 1%Z /\ map fst (hs_items s) = ["b"; "a"].
Proof. vm_compute. split; reflexivity. Qed.

(* ------------------------------------------------------------------ the generated structure is wellformed *)

Lemma gen_section_inv : forall st s, In s (gen_sections st) -> exists k n, s = gen_section st k n.
Proof.
  intros st s H. unfold gen_sections in H. apply in_flat_map in H. destruct H as [x [_ H]].
  destruct x; try (destruct H as [<-|[]]; eauto); destruct H.
Qed.

Lemma gen_backend_names : forall st, backend_names (gen_cfg st) = backlike_names st.
Proof.
  intros st. unfold backend_names, backlike_names, gen_cfg, gen_sections. cbn [c_sections].
  induction (emitted_sections st) as [|x l IH]; cbn [flat_map]; [reflexivity|].
  rewrite filter_app, map_app, IH. destruct x; reflexivity.
Qed.

Lemma site_backs_ref : forall st site n, In n (site_backs st site) -> In (site, SBack n) (references st).
Proof.
  intros st site n H. unfold site_backs in H. apply in_flat_map in H. destruct H as [[s t] [Hr H]].
  cbn [fst snd] in H. destruct (String.eqb_spec s site) as [->|]; [|destruct H].
  destruct t; try destruct H as [<-|[]]; try destruct H. exact Hr.
Qed.

Lemma site_userlists_ref : forall st site n, In n (site_userlists st site) -> In (site, SUserlist n) (references st).
Proof.
  intros st site n H. unfold site_userlists in H. apply in_flat_map in H. destruct H as [[s t] [Hr H]].
  cbn [fst snd] in H. destruct (String.eqb_spec s site) as [->|]; [|destruct H].
  destruct t; try destruct H as [<-|[]]; try destruct H. exact Hr.
Qed.

Ltac inv_emitted H :=
  unfold emitted_sections, support_backs, auth_sections in H;
  repeat (apply in_app_or in H; destruct H as [H|H]);
  repeat match goal with
  | H : In _ (map _ _) |- _ => apply in_map_iff in H; destruct H as [? [? ?]]
  | H : In _ (if ?c then _ else _) |- _ => destruct c
  | H : In _ (match ?x with [] => _ | _ :: _ => _ end) |- _ => destruct x
  | H : In _ (_ ++ _) |- _ => apply in_app_or in H; destruct H as [H|H]
  | H : In _ [] |- _ => destruct H
  | H : In _ (_ :: _) |- _ => destruct H as [H|H]
  end; try discriminate.

Lemma emitted_userlist_inv : forall st u, In (SUserlist u) (emitted_sections st) -> In u (ts_userlists st).
Proof.
  intros st u H. inv_emitted H.
  match goal with E : SUserlist _ = SUserlist _ |- _ => inversion E; subst; assumption end.
Qed.

Lemma emitted_back_backlike : forall st n, In (SBack n) (emitted_sections st) -> In n (backlike_names st).
Proof.
  intros st n H. unfold backlike_names. apply in_flat_map. exists (SBack n). split; [exact H | now left].
Qed.

Lemma NoDup_app_l : forall (A : Type) (a b : list A), NoDup (a ++ b) -> NoDup a.
Proof.
  intros A a b. induction a as [|x a IH]; cbn; intros H; [constructor|].
  inversion H; subst. constructor; [|auto]. intro Hin. apply H2. apply in_or_app. now left.
Qed.
Lemma NoDup_app_r : forall (A : Type) (a b : list A), NoDup (a ++ b) -> NoDup b.
Proof.
  intros A a b. induction a as [|x a IH]; cbn; intros H; [exact H|]. inversion H; subst. auto.
Qed.
Lemma NoDup_app_mid : forall (A : Type) (a b c : list A), NoDup (a ++ b ++ c) -> NoDup b.
Proof. intros A a b c H. apply NoDup_app_r in H. apply NoDup_app_l in H. exact H. Qed.

Theorem template_generates_wellformed : forall st, st_inv st = true -> wellformed (gen_cfg st) = true.
Proof.
  intros st Hinv. destruct (template_refs_closed st Hinv) as [Hclosed Hnd].
  assert (Hbl : NoDup (backlike_names st)).
  { unfold st_inv in Hinv. apply andb_true_iff in Hinv. destruct Hinv as [_ Hr]. unfold inv_rest in Hr.
    apply andb_true_iff in Hr. destruct Hr as [_ Hr]. now apply nodupb_NoDup. }
  assert (Hul : NoDup (ts_userlists st)).
  { unfold emitted_sections in Hnd. apply NoDup_app_mid in Hnd.
    eapply NoDup_map_inv. exact Hnd. }
  apply wellformed_complete. unfold loadable. split; [|split; [|split; [|split]]].
  - intros s n Hs Hn. cbn [gen_cfg c_sections] in Hs. destruct (gen_section_inv st s Hs) as [k [name ->]].
    unfold backend_refs in Hn. cbn [gen_section s_use s_default s_authback s_usedyn flat_map] in Hn.
    rewrite !app_nil_r in Hn. apply site_backs_ref in Hn. apply Hclosed in Hn. cbn [snd] in Hn.
    unfold exactly_one. rewrite gen_backend_names. apply NoDup_count_occ'; [exact Hbl|].
    now apply emitted_back_backlike.
  - intros s Hs. cbn [gen_cfg c_sections] in Hs. destruct (gen_section_inv st s Hs) as [k [name ->]].
    cbn [gen_section gen_cfg s_userlists s_maps s_usedyn s_crtlists s_files c_userlists In].
    split; [|split; [intros f Hf; destruct Hf|split; [intros d f Hd; destruct Hd|split; intros f Hf; destruct Hf]]].
    intros u Hu. apply site_userlists_ref in Hu. apply Hclosed in Hu. cbn [snd] in Hu.
    apply NoDup_count_occ'; [exact Hul|]. now apply emitted_userlist_inv.
  - intros s Hs. cbn [gen_cfg c_sections] in Hs. destruct (gen_section_inv st s Hs) as [k [name ->]].
    cbn [gen_section s_servers s_useserver map filter]. split; [constructor|]. split; [constructor|]. intros ? [].
  - intros s id Hs Hid. cbn [gen_cfg c_sections] in Hs. destruct (gen_section_inv st s Hs) as [k [name ->]].
    destruct Hid.
  - unfold auth_ports_unique. cbn [gen_cfg c_authbinds c_authids c_authservers filter].
    split; [constructor|]. split; [constructor|]. intros ? ? [].
Qed.

(* ------------------------------------------------------------------ witnesses *)

(* the hypotheses are satisfiable: a state with every kind of section and reference *)
Definition tmpl_example : tstate :=
  {| ts_hosts :=
       [ {| th_name := "a.example"; th_pass := false; th_httppass := ""; th_tls := true;
            th_paths := [ {| tp_path := "/"; tp_back := "ns1_svc1_8080"; tp_auth := Some (false, "_auth_14415") |};
                          {| tp_path := "/old"; tp_back := ""; tp_auth := None |} ] |};
         {| th_name := "p.example"; th_pass := true; th_httppass := ""; th_tls := false;
            th_paths := [ {| tp_path := "/"; tp_back := "ns1_svc2_8080"; tp_auth := None |} ] |};
         {| th_name := "s.example"; th_pass := false; th_httppass := ""; th_tls := false;
            th_paths := [ {| tp_path := "/"; tp_back := "_error404"; tp_auth := None |} ] |} ];
     ts_defhost := Some {| th_name := "<default>"; th_pass := false; th_httppass := ""; th_tls := false;
                           th_paths := [ {| tp_path := "/"; tp_back := "ns1_svc1_8080"; tp_auth := None |} ] |};
     ts_haspass := true;
     ts_backs := [ {| tb_id := "_auth_backend001_8000"; tb_tcp := false; tb_userlists := []; tb_auth := []; tb_resolver := "" |};
                   {| tb_id := "ns1_svc1_8080"; tb_tcp := false; tb_userlists := ["ns1_basic"];
                      tb_auth := [(false, "_auth_14415"); (true, "")]; tb_resolver := "kube" |};
                   {| tb_id := "ns1_svc2_8080"; tb_tcp := true; tb_userlists := []; tb_auth := []; tb_resolver := "" |} ];
     ts_default := Some "ns1_svc1_8080";
     ts_userlists := ["ns1_basic"]; ts_resolvers := ["kube"];
     ts_tcpbacks := [("ns1_svc1", 5432%N)];
     ts_tcp := [ {| tt_port := 7000%N; tt_hosts := [("t.example", "ns1_svc2_8080")]; tt_default := Some "ns1_svc1_8080"; tt_tls := true |} ];
     ts_authname := "_front__auth"; ts_binds := [ {| ab_name := "_auth_14415"; ab_backend := "_auth_backend001_8000" |} ];
     ts_fmaps := true; ts_httpsname := "_front_https__local"; ts_crtlist := "/etc/haproxy/maps/_front_bind_crt.list";
     ts_acme := true; ts_modsec := true; ts_prom := true |}.

Example tmpl_example_inv : st_inv tmpl_example = true.
Proof. vm_compute. reflexivity. Qed.

Example tmpl_example_sections :
  emitted_sections tmpl_example =
  [SResolvers "kube"; SUserlist "ns1_basic"; SListen "_tcp_ns1_svc1_5432";
   SBack "_auth_backend001_8000"; SBack "ns1_svc1_8080"; SBack "ns1_svc2_8080";
   SBack "_redirect_https"; SBack "_acme_challenge"; SBack "_error404";
   SBack "_auth_14415"; SFront "_front__auth"; SFront "_front_tcp_7000"; SListen "_front__tls";
   SFront "_front_http"; SFront "_front_https__local"; SListen "stats"; SFront "prometheus";
   SFront "healthz"; SBack "spoe-modsecurity"].
Proof. vm_compute. reflexivity. Qed.

Example tmpl_example_wellformed : wellformed (gen_cfg tmpl_example) = true.
Proof. vm_compute. reflexivity. Qed.

(* The strict-host finding (repaired in /repo by 423708d: the root path SyncConfig gives to
   the hosts without one is now re-evaluated on every update; the witness stays as a
   model-level regression): SyncConfig gave b.example the root backend of the default host;
   the service of that backend was deleted and the backend went away in a partial sync that
   did not visit b.example. Every invariant but "the paths of the hosts name backends of the
   model" holds, and the map value is a dangling reference. *)
Definition strict_host_state : tstate :=
  {| ts_hosts :=
       [ {| th_name := "b.example"; th_pass := false; th_httppass := ""; th_tls := false;
            th_paths := [ {| tp_path := "/app"; tp_back := "ns1_svc3_8080"; tp_auth := None |};
                          {| tp_path := "/"; tp_back := "ns1_svc2_8080"; tp_auth := None |} ] |} ];
     ts_defhost := None; ts_haspass := false;
     ts_backs := [ {| tb_id := "ns1_svc3_8080"; tb_tcp := false; tb_userlists := []; tb_auth := []; tb_resolver := "" |} ];
     ts_default := None; ts_userlists := []; ts_resolvers := []; ts_tcpbacks := []; ts_tcp := [];
     ts_authname := "_front__auth__local"; ts_binds := []; ts_fmaps := true; ts_httpsname := "_front_https"; ts_crtlist := "/etc/haproxy/maps/_front_bind_crt.list";
     ts_acme := false; ts_modsec := false; ts_prom := false |}.

Theorem template_refs_closed_without_host_backends_refuted :
  exists st, inv_rest st = true /\ ~ refs_closed st.
Proof.
  exists strict_host_state. split; [vm_compute; reflexivity|].
  intros H. specialize (H ("_front_http", SBack "ns1_svc2_8080")).
  assert (Hin : In ("_front_http", SBack "ns1_svc2_8080") (references strict_host_state))
    by (vm_compute; right; left; reflexivity).
  specialize (H Hin). cbn [snd] in H. apply sid_mem_In in H. vm_compute in H. discriminate.
Qed.

(* the same state is rejected by the checker on the structure it generates *)
Example strict_host_state_not_wellformed : wellformed (gen_cfg strict_host_state) = false.
Proof. vm_compute. reflexivity. Qed.

Example tmpl_example_crtlists :
  file_refs tmpl_example = [("_front_tcp_7000", "/etc/haproxy/crtlist_tcp_7000.list");
                            ("_front_https__local", "/etc/haproxy/maps/_front_bind_crt.list")].
Proof. vm_compute. reflexivity. Qed.

