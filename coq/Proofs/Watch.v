(* Proofs about Model/Watch.v *)
From Coq Require Import ZArith NArith List Bool String Lia.
From HI Require Import Model.Watch.
Import ListNotations.
Open Scope string_scope.
Open Scope list_scope.

(* ---------- appenddedup, links ---------- *)

Lemma appenddedup_in l s x : In x (appenddedup l s) <-> In x l \/ x = s.
Proof.
  induction l as [|y l IH]; cbn [appenddedup].
  - cbn. intuition.
  - destruct (String.eqb_spec y s) as [->|Hne].
    + cbn [In]. intuition (subst; auto).
    + cbn [In]. rewrite IH. intuition.
Qed.

Lemma appenddedup_nodup l s : NoDup l -> NoDup (appenddedup l s).
Proof.
  induction l as [|y l IH]; cbn [appenddedup]; intros H.
  - constructor; [intros []|constructor].
  - destruct (String.eqb_spec y s) as [->|Hne]; [exact H|].
    inversion H as [|? ? Hy Hl]; subst. constructor; [|apply IH; exact Hl].
    rewrite appenddedup_in. intros [Hin|E]; [contradiction|]. now apply Hne.
Qed.

Lemma links_get_add r r' n m :
  links_get r (links_add r' n m) =
  if String.eqb r' r then appenddedup (links_get r m) n else links_get r m.
Proof.
  induction m as [|[r0 ns] m IH]; cbn [links_add links_get].
  - destruct (String.eqb_spec r' r); reflexivity.
  - destruct (String.eqb_spec r0 r') as [->|Hne]; cbn [links_get].
    + destruct (String.eqb_spec r' r); reflexivity.
    + destruct (String.eqb_spec r0 r) as [->|Hne2].
      * destruct (String.eqb_spec r' r) as [->|]; [contradiction|reflexivity].
      * exact IH.
Qed.

(* one entry per resource type *)
Lemma links_add_keys r n m : NoDup (map fst m) -> NoDup (map fst (links_add r n m)).
Proof.
  assert (Hk : forall m x, In x (map fst (links_add r n m)) -> In x (map fst m) \/ x = r).
  { induction m0 as [|[r0 ns] m0 IH0]; cbn [links_add map fst In]; intros x Hx.
    - destruct Hx as [<-|[]]. now right.
    - destruct (String.eqb_spec r0 r) as [->|]; cbn [map fst In] in Hx; [now left|].
      destruct Hx as [<-|Hx]; [left; now left|]. destruct (IH0 _ Hx); [left; now right|now right]. }
  induction m as [|[r0 ns] m IH]; cbn [links_add map fst]; intros H.
  - constructor; [intros []|constructor].
  - inversion H as [|? ? Hr0 Hm]; subst.
    destruct (String.eqb_spec r0 r) as [->|Hne]; cbn [map fst]; [constructor; assumption|].
    constructor; [|apply IH; exact Hm].
    intros Hin. destruct (Hk _ _ Hin) as [?|E]; [contradiction|]. now apply Hne.
Qed.

(* ---------- one offered event ---------- *)

Definition is_generic (e : event) : bool :=
  match e_type e with EGeneric => true | _ => false end.

Lemma cm_change_same cfg e ch :
  c_desc (cm_change cfg e ch) = c_desc ch /\ c_full (cm_change cfg e ch) = c_full ch /\
  c_objects (cm_change cfg e ch) = c_objects ch /\ c_links (cm_change cfg e ch) = c_links ch /\
  c_gcur (cm_change cfg e ch) = c_gcur ch /\ c_tcur (cm_change cfg e ch) = c_tcur ch.
Proof.
  unfold cm_change. destruct (e_kind e), (e_type e); try (repeat split; reflexivity);
    destruct (String.eqb _ _); try (repeat split; reflexivity);
    destruct (String.eqb _ _); repeat split; reflexivity.
Qed.

Lemma offer_desc cfg ch e :
  c_desc (offer cfg ch e) = c_desc ch ++ (if accepted cfg e then descr e else []).
Proof.
  unfold offer. destruct (accepted cfg e); [|now rewrite app_nil_r].
  unfold handle. destruct (cm_change_same cfg e ch) as (Hd & _).
  destruct (e_type e) eqn:Et; cbn [c_desc]; try (now rewrite Hd).
  unfold descr. rewrite Et. destruct (lists_of (e_kind e)) as [[[? ?] ?]|]; now rewrite app_nil_r.
Qed.

Lemma offer_cur cfg ch e :
  c_gcur (offer cfg ch e) = c_gcur ch /\ c_tcur (offer cfg ch e) = c_tcur ch.
Proof.
  unfold offer. destruct (accepted cfg e); [|split; reflexivity].
  unfold handle. destruct (cm_change_same cfg e ch) as (_ & _ & _ & _ & Hg & Ht).
  destruct (e_type e); cbn [c_gcur c_tcur]; auto.
Qed.

Lemma offer_full cfg ch e :
  c_full (offer cfg ch e) = c_full ch || (accepted cfg e && (full_of (e_kind e) || is_generic e)).
Proof.
  unfold offer, is_generic. destruct (accepted cfg e); cbn [andb]; [|now rewrite orb_false_r].
  unfold handle. destruct (e_type e); cbn [c_full]; rewrite ?orb_false_r, ?orb_true_r; reflexivity.
Qed.

Lemma offer_links cfg ch e r :
  links_get r (c_links (offer cfg ch e)) =
  match (if accepted cfg e then link_of e else None) with
  | Some (r', n) => if String.eqb r' r then appenddedup (links_get r (c_links ch)) n
                    else links_get r (c_links ch)
  | None => links_get r (c_links ch)
  end.
Proof.
  unfold offer. destruct (accepted cfg e); [|reflexivity].
  unfold handle, link_of. destruct (cm_change_same cfg e ch) as (_ & _ & _ & Hl & _).
  destruct (e_type e); cbn [c_links]; try reflexivity; now rewrite links_get_add, Hl.
Qed.

Lemma offer_links_keys cfg ch e :
  NoDup (map fst (c_links ch)) -> NoDup (map fst (c_links (offer cfg ch e))).
Proof.
  unfold offer. destruct (accepted cfg e); [|trivial].
  unfold handle. destruct (cm_change_same cfg e ch) as (_ & _ & _ & Hl & _).
  destruct (e_type e); cbn [c_links]; trivial; rewrite Hl; apply links_add_keys.
Qed.

Lemma offer_objects cfg ch e :
  c_objects (offer cfg ch e) =
  if accepted cfg e && negb (is_generic e) then appenddedup (c_objects ch) (obj_entry e)
  else c_objects ch.
Proof.
  unfold offer, is_generic. destruct (accepted cfg e); [|reflexivity].
  unfold handle. destruct (cm_change_same cfg e ch) as (_ & _ & Ho & _).
  destruct (e_type e); cbn [c_objects andb negb]; try reflexivity; now rewrite Ho.
Qed.

(* ConfigMap data captured by one event *)
Definition cm_new (cfg : config) (global : bool) (e : event) : bool :=
  accepted cfg e &&
  match e_kind e, e_type e with
  | KConfigMap, (ECreate | EUpdate | EDelete) =>
      if String.eqb (key (e_new e)) (cm_name cfg) then global
      else if String.eqb (key (e_new e)) (tcp_name cfg) then negb global else false
  | _, _ => false
  end.

Lemma offer_gnew cfg ch e :
  c_gnew (offer cfg ch e) = if cm_new cfg true e then cm_payload e else c_gnew ch.
Proof.
  unfold offer, cm_new. destruct (accepted cfg e); cbn [andb]; [|reflexivity].
  unfold handle, cm_change.
  destruct (e_kind e), (e_type e); cbn [c_gnew]; try reflexivity;
    destruct (String.eqb (key (e_new e)) (cm_name cfg)); cbn [c_gnew]; try reflexivity;
    destruct (String.eqb (key (e_new e)) (tcp_name cfg)); reflexivity.
Qed.

Lemma offer_tnew cfg ch e :
  c_tnew (offer cfg ch e) = if cm_new cfg false e then cm_payload e else c_tnew ch.
Proof.
  unfold offer, cm_new. destruct (accepted cfg e); cbn [andb]; [|reflexivity].
  unfold handle, cm_change.
  destruct (e_kind e), (e_type e); cbn [c_tnew]; try reflexivity;
    destruct (String.eqb (key (e_new e)) (cm_name cfg)); cbn [c_tnew negb]; try reflexivity;
    destruct (String.eqb (key (e_new e)) (tcp_name cfg)); reflexivity.
Qed.

(* ---------- what a batch must contain, given the events of its segment ---------- *)

(* the last ConfigMap data captured in a segment, None when there was none *)
Definition last_cm (cfg : config) (global : bool) (evs : list event) : option N :=
  fold_left (fun acc e => if cm_new cfg global e then cm_payload e else acc) evs None.

Record content (cfg : config) (evs : list event) (b : chg) : Prop := {
  (* change descriptions: exactly those of the accepted events, in order, nothing twice *)
  ct_desc : c_desc b = flat_map descr (filter (accepted cfg) evs);
  (* links: exactly the names left by accepted events, each once, one entry per resource type *)
  ct_links : forall r n, In n (links_get r (c_links b)) <->
               exists e, In e evs /\ accepted cfg e = true /\ link_of e = Some (r, n);
  ct_links_nodup : forall r, NoDup (links_get r (c_links b));
  ct_links_keys : NoDup (map fst (c_links b));
  (* object entries *)
  ct_objects : forall s, In s (c_objects b) <->
               exists e, In e evs /\ accepted cfg e = true /\ is_generic e = false /\ obj_entry e = s;
  ct_objects_nodup : NoDup (c_objects b);
  (* full sync flag *)
  ct_full : c_full b = existsb (fun e => accepted cfg e && (full_of (e_kind e) || is_generic e)) evs;
  (* new ConfigMap data: the last one captured in the segment *)
  ct_gnew : c_gnew b = last_cm cfg true evs;
  ct_tnew : c_tnew b = last_cm cfg false evs
}.

(* generalised to any starting accumulator *)
Lemma fold_offer_spec cfg evs : forall ch0,
  let ch := fold_left (offer cfg) evs ch0 in
  c_desc ch = c_desc ch0 ++ flat_map descr (filter (accepted cfg) evs) /\
  (forall r n, In n (links_get r (c_links ch)) <->
     In n (links_get r (c_links ch0)) \/
     exists e, In e evs /\ accepted cfg e = true /\ link_of e = Some (r, n)) /\
  (forall r, NoDup (links_get r (c_links ch0)) -> NoDup (links_get r (c_links ch))) /\
  (NoDup (map fst (c_links ch0)) -> NoDup (map fst (c_links ch))) /\
  (forall s, In s (c_objects ch) <->
     In s (c_objects ch0) \/
     exists e, In e evs /\ accepted cfg e = true /\ is_generic e = false /\ obj_entry e = s) /\
  (NoDup (c_objects ch0) -> NoDup (c_objects ch)) /\
  c_full ch = c_full ch0 || existsb (fun e => accepted cfg e && (full_of (e_kind e) || is_generic e)) evs /\
  c_gnew ch = fold_left (fun acc e => if cm_new cfg true e then cm_payload e else acc) evs (c_gnew ch0) /\
  c_tnew ch = fold_left (fun acc e => if cm_new cfg false e then cm_payload e else acc) evs (c_tnew ch0) /\
  c_gcur ch = c_gcur ch0 /\ c_tcur ch = c_tcur ch0.
Proof.
  induction evs as [|e evs IH]; intros ch0; cbn zeta.
  - cbn [fold_left flat_map filter existsb]. rewrite app_nil_r, orb_false_r.
    repeat split; auto; try tauto.
    + intros [H|(e & [] & _)]; exact H.
    + intros [H|(e & [] & _)]; exact H.
  - cbn [fold_left]. specialize (IH (offer cfg ch0 e)). cbn zeta in IH.
    destruct IH as (Hd & Hl & Hln & Hlk & Ho & Hon & Hf & Hg & Ht & Hgc & Htc).
    set (ch := fold_left (offer cfg) evs (offer cfg ch0 e)) in *.
    split; [|split; [|split; [|split; [|split; [|split; [|split; [|split; [|split; [|split]]]]]]]]].
    + rewrite Hd, offer_desc. cbn [filter]. destruct (accepted cfg e); cbn [flat_map].
      * now rewrite app_assoc.
      * now rewrite app_nil_r.
    + intros r n. rewrite Hl, offer_links. clear Hl.
      destruct (accepted cfg e) eqn:Ea.
      * destruct (link_of e) as [[r' n']|] eqn:El.
        -- destruct (String.eqb_spec r' r) as [->|Hne].
           ++ rewrite appenddedup_in. split.
              ** intros [[H| ->]|(e' & Hin & Ha & Hl')]; [now left| |].
                 --- right. exists e. repeat split; [now left|exact Ea|exact El].
                 --- right. exists e'. repeat split; [now right|exact Ha|exact Hl'].
              ** intros [H|(e' & [<-|Hin] & Ha & Hl')]; [left; now left| |].
                 --- rewrite El in Hl'. injection Hl' as <-. left. now right.
                 --- right. exists e'. auto.
           ++ split.
              ** intros [H|(e' & Hin & Ha & Hl')]; [now left|].
                 right. exists e'. repeat split; [now right|exact Ha|exact Hl'].
              ** intros [H|(e' & [<-|Hin] & Ha & Hl')]; [now left| |].
                 --- rewrite El in Hl'. injection Hl' as -> _. contradiction.
                 --- right. exists e'. auto.
        -- split.
           ** intros [H|(e' & Hin & Ha & Hl')]; [now left|].
              right. exists e'. repeat split; [now right|exact Ha|exact Hl'].
           ** intros [H|(e' & [<-|Hin] & Ha & Hl')]; [now left| |].
              --- rewrite El in Hl'. discriminate.
              --- right. exists e'. auto.
      * split.
        -- intros [H|(e' & Hin & Ha & Hl')]; [now left|].
           right. exists e'. repeat split; [now right|exact Ha|exact Hl'].
        -- intros [H|(e' & [<-|Hin] & Ha & Hl')]; [now left| |].
           ++ rewrite Ea in Ha. discriminate.
           ++ right. exists e'. auto.
    + intros r H. apply Hln. rewrite offer_links.
      destruct (if accepted cfg e then link_of e else None) as [[r' n']|]; [|exact H].
      destruct (String.eqb r' r); [apply appenddedup_nodup|]; exact H.
    + intros H. apply Hlk, offer_links_keys, H.
    + intros s. rewrite Ho, offer_objects. clear Ho.
      destruct (accepted cfg e) eqn:Ea; cbn [andb].
      * destruct (is_generic e) eqn:Eg; cbn [negb].
        -- split.
           ++ intros [H|(e' & Hin & Ha & Hg' & Hs)]; [now left|].
              right. exists e'. repeat split; [now right|exact Ha|exact Hg'|exact Hs].
           ++ intros [H|(e' & [<-|Hin] & Ha & Hg' & Hs)]; [now left| |].
              ** rewrite Eg in Hg'. discriminate.
              ** right. exists e'. auto.
        -- rewrite appenddedup_in. split.
           ++ intros [[H| ->]|(e' & Hin & Ha & Hg' & Hs)]; [now left| |].
              ** right. exists e. repeat split; [now left|exact Ea|exact Eg].
              ** right. exists e'. repeat split; [now right|exact Ha|exact Hg'|exact Hs].
           ++ intros [H|(e' & [<-|Hin] & Ha & Hg' & Hs)]; [left; now left| |].
              ** left. now right.
              ** right. exists e'. auto.
      * split.
        -- intros [H|(e' & Hin & Ha & Hg' & Hs)]; [now left|].
           right. exists e'. repeat split; [now right|exact Ha|exact Hg'|exact Hs].
        -- intros [H|(e' & [<-|Hin] & Ha & Hg' & Hs)]; [now left| |].
           ++ rewrite Ea in Ha. discriminate.
           ++ right. exists e'. auto.
    + intros H. apply Hon. rewrite offer_objects.
      destruct (accepted cfg e && negb (is_generic e)); [apply appenddedup_nodup|]; exact H.
    + rewrite Hf, offer_full. cbn [existsb]. now rewrite orb_assoc.
    + rewrite Hg, offer_gnew. reflexivity.
    + rewrite Ht, offer_tnew. reflexivity.
    + rewrite Hgc. apply offer_cur.
    + rewrite Htc. apply offer_cur.
Qed.

Lemma summary_content cfg g t evs : content cfg evs (summary cfg g t evs).
Proof.
  unfold summary.
  destruct (fold_offer_spec cfg evs (init_ch g t)) as (Hd & Hl & Hln & Hlk & Ho & Hon & Hf & Hg & Ht & _).
  cbn [init_ch c_desc c_links c_objects c_full c_gnew c_tnew links_get app orb map] in *.
  constructor.
  - exact Hd.
  - intros r n. rewrite Hl. split; [intros [[]|H]; exact H|now right].
  - intros r. apply Hln. constructor.
  - apply Hlk. constructor.
  - intros s. rewrite Ho. split; [intros [[]|H]; exact H|now right].
  - apply Hon. constructor.
  - exact Hf.
  - exact Hg.
  - exact Ht.
Qed.

Lemma summary_cur cfg g t evs :
  c_gcur (summary cfg g t evs) = g /\ c_tcur (summary cfg g t evs) = t.
Proof.
  unfold summary.
  destruct (fold_offer_spec cfg evs (init_ch g t)) as (_ & _ & _ & _ & _ & _ & _ & _ & _ & Hg & Ht).
  split; assumption.
Qed.

(* ---------- histories: batches are the summaries of the segments ---------- *)

(* batch k is the summary of segment k, started from the ConfigMap data carried so far *)
Fixpoint deliver (cfg : config) (g t : option N) (segs : list (list event)) : list chg :=
  match segs with
  | [] => []
  | s :: rest =>
      let b := summary cfg g t s in
      b :: deliver cfg (carry (c_gcur b) (c_gnew b)) (carry (c_tcur b) (c_tnew b)) rest
  end.

(* ConfigMap data current after the closed segments *)
Fixpoint carried (cfg : config) (g t : option N) (segs : list (list event)) : option N * option N :=
  match segs with
  | [] => (g, t)
  | s :: rest =>
      let b := summary cfg g t s in
      carried cfg (carry (c_gcur b) (c_gnew b)) (carry (c_tcur b) (c_tnew b)) rest
  end.

Lemma wrun_gen cfg steps : forall st g t cur,
  w_ch st = summary cfg g t cur ->
  let p := segments_from cur steps in
  let st' := fold_left (wstep cfg) steps st in
  w_batches st' = w_batches st ++ deliver cfg g t (fst p) /\
  w_ch st' = summary cfg (fst (carried cfg g t (fst p))) (snd (carried cfg g t (fst p))) (snd p).
Proof.
  induction steps as [|s steps IH]; intros st g t cur Hch; cbn zeta.
  - cbn [segments_from fold_left fst snd deliver carried]. rewrite app_nil_r. auto.
  - destruct s as [e|]; cbn [fold_left segments_from].
    + specialize (IH (wstep cfg st (Ev e)) g t (cur ++ [e])). cbn zeta in IH.
      destruct IH as (Hb & Hc).
      * cbn [wstep w_ch]. rewrite Hch. unfold summary. now rewrite fold_left_app.
      * split; [rewrite Hb; reflexivity|exact Hc].
    + cbn [fst snd deliver carried].
      specialize (IH (wstep cfg st Swap)
                     (carry (c_gcur (w_ch st)) (c_gnew (w_ch st)))
                     (carry (c_tcur (w_ch st)) (c_tnew (w_ch st))) []).
      cbn zeta in IH. destruct IH as (Hb & Hc); [reflexivity|].
      rewrite <- Hch. split.
      * rewrite Hb. cbn [wstep w_batches swap fst]. now rewrite <- app_assoc.
      * exact Hc.
Qed.

Lemma wrun_batches cfg steps :
  w_batches (wrun cfg steps) = deliver cfg None None (segments steps).
Proof.
  destruct (wrun_gen cfg steps w_init None None [] eq_refl) as (H & _). exact H.
Qed.

Lemma wrun_pending cfg steps :
  let c := carried cfg None None (segments steps) in
  w_ch (wrun cfg steps) = summary cfg (fst c) (snd c) (open_segment steps).
Proof.
  destruct (wrun_gen cfg steps w_init None None [] eq_refl) as (_ & H). exact H.
Qed.

Lemma deliver_nth cfg segs : forall g t k b,
  nth_error (deliver cfg g t segs) k = Some b ->
  exists seg g' t', nth_error segs k = Some seg /\ b = summary cfg g' t' seg.
Proof.
  induction segs as [|s segs IH]; intros g t k b H; cbn [deliver] in H.
  - destruct k; discriminate.
  - destruct k as [|k]; cbn [nth_error] in *.
    + injection H as <-. eauto.
    + eapply IH; exact H.
Qed.

Lemma deliver_length cfg segs : forall g t, List.length (deliver cfg g t segs) = List.length segs.
Proof. induction segs as [|s segs IH]; intros g t; cbn [deliver List.length]; [reflexivity|now rewrite IH]. Qed.

Lemma deliver_chain cfg segs : forall g t k b b',
  nth_error (deliver cfg g t segs) k = Some b ->
  nth_error (deliver cfg g t segs) (S k) = Some b' ->
  c_gcur b' = carry (c_gcur b) (c_gnew b) /\ c_tcur b' = carry (c_tcur b) (c_tnew b).
Proof.
  induction segs as [|s segs IH]; intros g t k b b' H H'; cbn [deliver] in H, H'.
  - destruct k; discriminate.
  - destruct k as [|k]; cbn [nth_error] in H, H'.
    + injection H as <-. destruct segs as [|s2 segs]; cbn [deliver nth_error] in H'; [discriminate|].
      injection H' as <-. apply summary_cur.
    + eapply IH; eassumption.
Qed.

Lemma deliver_first cfg segs g t b :
  nth_error (deliver cfg g t segs) 0 = Some b -> c_gcur b = g /\ c_tcur b = t.
Proof.
  destruct segs as [|s segs]; cbn [deliver nth_error]; [discriminate|].
  intros [= <-]. apply summary_cur.
Qed.

(* all events of a history, in order *)
Fixpoint events_of (steps : list step) : list event :=
  match steps with
  | [] => []
  | Ev e :: r => e :: events_of r
  | Swap :: r => events_of r
  end.

Lemma segments_from_partition steps : forall cur,
  List.concat (fst (segments_from cur steps)) ++ snd (segments_from cur steps) = cur ++ events_of steps.
Proof.
  induction steps as [|s steps IH]; intros cur; cbn [segments_from events_of].
  - cbn [fst snd List.concat app]. now rewrite app_nil_r.
  - destruct s as [e|].
    + rewrite IH. now rewrite <- app_assoc.
    + cbn [fst snd List.concat]. rewrite <- app_assoc. f_equal. apply (IH []).
Qed.

Lemma segments_count steps : forall cur,
  List.length (fst (segments_from cur steps)) = List.length (filter (fun s => match s with Swap => true | _ => false end) steps).
Proof.
  induction steps as [|s steps IH]; intros cur; cbn [segments_from filter]; [reflexivity|].
  destruct s; [apply IH|]. cbn [fst List.length]. now rewrite IH.
Qed.

(* ---------- main statements ---------- *)

(* every event of the history is in exactly one segment: the segments between swaps (and the
   open one after the last swap) are the history cut at the swaps *)
Theorem segments_partition steps :
  List.concat (segments steps) ++ open_segment steps = events_of steps.
Proof. apply (segments_from_partition steps []). Qed.

(* the k-th delivered batch holds exactly what the events between swap k-1 and swap k left *)
Theorem batches_partition cfg steps k b :
  nth_error (w_batches (wrun cfg steps)) k = Some b ->
  exists seg, nth_error (segments steps) k = Some seg /\ content cfg seg b.
Proof.
  rewrite wrun_batches. intros H.
  destruct (deliver_nth _ _ _ _ _ _ H) as (seg & g & t & Hs & ->).
  exists seg. split; [exact Hs|apply summary_content].
Qed.

(* one batch per swap *)
Theorem batches_count cfg steps :
  List.length (w_batches (wrun cfg steps)) = List.length (segments steps).
Proof. rewrite wrun_batches. apply deliver_length. Qed.

(* events after the last swap are not lost: they are what the accumulator holds, i.e. what
   the next swap will deliver *)
Theorem pending_not_lost cfg steps :
  content cfg (open_segment steps) (w_ch (wrun cfg steps)).
Proof. rewrite wrun_pending. apply summary_content. Qed.

Theorem next_swap_delivers_pending cfg steps :
  w_batches (wrun cfg (steps ++ [Swap])) = w_batches (wrun cfg steps) ++ [w_ch (wrun cfg steps)].
Proof. unfold wrun. rewrite fold_left_app. reflexivity. Qed.

(* a delivered batch does not depend on what happens after its swap: later steps only append
   batches *)
Lemma wstep_batches_grow cfg steps : forall st,
  exists l, w_batches (fold_left (wstep cfg) steps st) = w_batches st ++ l.
Proof.
  induction steps as [|s steps IH]; intros st; cbn [fold_left].
  - exists []. now rewrite app_nil_r.
  - destruct (IH (wstep cfg st s)) as [l Hl]. rewrite Hl.
    destruct s as [e|]; cbn [wstep w_batches]; [exists l; reflexivity|].
    exists (fst (swap (w_ch st)) :: l). now rewrite <- app_assoc.
Qed.

Theorem delivered_batches_stable cfg steps more k b :
  nth_error (w_batches (wrun cfg steps)) k = Some b ->
  nth_error (w_batches (wrun cfg (steps ++ more))) k = Some b.
Proof.
  intros H. unfold wrun in *. rewrite fold_left_app.
  destruct (wstep_batches_grow cfg more (fold_left (wstep cfg) steps w_init)) as [l ->].
  rewrite nth_error_app1; [exact H|]. apply nth_error_Some. rewrite H. discriminate.
Qed.

(* ConfigMap data chain *)
Theorem configmap_chain cfg steps k b b' :
  nth_error (w_batches (wrun cfg steps)) k = Some b ->
  nth_error (w_batches (wrun cfg steps)) (S k) = Some b' ->
  c_gcur b' = carry (c_gcur b) (c_gnew b) /\ c_tcur b' = carry (c_tcur b) (c_tnew b).
Proof. rewrite wrun_batches. apply deliver_chain. Qed.

Theorem configmap_chain_first cfg steps b :
  nth_error (w_batches (wrun cfg steps)) 0 = Some b -> c_gcur b = None /\ c_tcur b = None.
Proof. rewrite wrun_batches. apply deliver_first. Qed.

(* ... and the accumulator continues the chain after the last batch *)
Theorem configmap_chain_pending cfg steps b :
  List.last (map Some (w_batches (wrun cfg steps))) None = Some b ->
  c_gcur (w_ch (wrun cfg steps)) = carry (c_gcur b) (c_gnew b) /\
  c_tcur (w_ch (wrun cfg steps)) = carry (c_tcur b) (c_tnew b).
Proof.
  intros Hl.
  assert (E : w_batches (wrun cfg (steps ++ [Swap])) = w_batches (wrun cfg steps) ++ [w_ch (wrun cfg steps)])
    by apply next_swap_delivers_pending.
  set (bs := w_batches (wrun cfg steps)) in *.
  assert (Hk : exists k, nth_error bs k = Some b /\ S k = List.length bs).
  { clearbody bs. clear E. induction bs as [|x bs IH]; [discriminate|].
    destruct bs as [|y bs].
    - cbn in Hl. injection Hl as ->. exists 0%nat. auto.
    - destruct IH as (k & Hk & Hlen); [exact Hl|]. exists (S k). split; [exact Hk|cbn [List.length] in *; lia]. }
  destruct Hk as (k & Hk & Hlen).
  apply (configmap_chain cfg (steps ++ [Swap]) k b (w_ch (wrun cfg steps))).
  - rewrite E. rewrite nth_error_app1; [exact Hk|]. apply nth_error_Some. rewrite Hk. discriminate.
  - rewrite E. rewrite nth_error_app2 by lia. rewrite Hlen, Nat.sub_diag. reflexivity.
Qed.

(* a captured ConfigMap value is never nil, so an accepted create / update / delete of the
   global (tcp) ConfigMap in a segment always shows as new data in its batch, and becomes
   the current data of the next one *)
Lemma cm_payload_some e : exists d, cm_payload e = Some d.
Proof.
  unfold cm_payload. destruct (e_type e); try (destruct (o_data (e_new e)); eauto); eauto.
Qed.

Lemma last_cm_keeps_some cfg global evs : forall d, exists d',
  fold_left (fun acc e => if cm_new cfg global e then cm_payload e else acc) evs (Some d) = Some d'.
Proof.
  induction evs as [|e evs IH]; intros d; cbn [fold_left]; [eauto|].
  destruct (cm_new cfg global e); [|apply IH].
  destruct (cm_payload_some e) as [d1 ->]. apply IH.
Qed.

Lemma last_cm_some cfg global evs : forall acc,
  (exists e, In e evs /\ cm_new cfg global e = true) ->
  exists d, fold_left (fun acc e => if cm_new cfg global e then cm_payload e else acc) evs acc = Some d.
Proof.
  induction evs as [|e0 evs IH]; intros acc (e & Hin & Hc); [destruct Hin|].
  cbn [fold_left]. destruct (cm_new cfg global e0) eqn:E0.
  - destruct (cm_payload_some e0) as [d ->]. apply last_cm_keeps_some.
  - destruct Hin as [<-|Hin]; [congruence|]. apply IH. eauto.
Qed.

Theorem configmap_event_delivers_data cfg seg b :
  content cfg seg b ->
  ((exists e, In e seg /\ cm_new cfg true e = true) -> exists d, c_gnew b = Some d) /\
  ((exists e, In e seg /\ cm_new cfg false e = true) -> exists d, c_tnew b = Some d).
Proof.
  intros C. rewrite (ct_gnew _ _ _ C), (ct_tnew _ _ _ C). unfold last_cm.
  split; apply last_cm_some.
Qed.

(* class transitions of an Ingress update *)
Theorem class_transition cfg e :
  e_kind e = KIngress -> e_type e = EUpdate ->
  let ov := o_valid (e_old e) in let nv := o_valid (e_new e) in
  (ov = true -> nv = false -> descr e = [(IngDel, o_id (e_old e))]) /\
  (ov = false -> nv = true -> descr e = [(IngAdd, o_id (e_new e))]) /\
  (ov = true -> nv = true -> descr e = [(IngUpd, o_id (e_new e))]) /\
  (ov = false -> nv = false -> accepted cfg e = false /\ descr e = []) /\
  (* and it is looked at iff an annotation or the generation changed and either side is valid *)
  accepted cfg e = (ann_changed e || gen_changed e) && (ov || nv).
Proof.
  intros Hk Ht. cbn zeta. unfold descr, accepted, preds, enabled, valid_pred. rewrite Hk, Ht.
  cbn [lists_of andb].
  repeat split; try (intros -> ->; cbn; rewrite ?andb_false_r; reflexivity).
  - rewrite H, H0. cbn. apply andb_false_r.
  - rewrite H, H0. reflexivity.
Qed.

(* what an accepted event leaves is delivered by the batch of its segment *)
Corollary accepted_event_in_its_batch cfg steps k b seg e :
  nth_error (w_batches (wrun cfg steps)) k = Some b ->
  nth_error (segments steps) k = Some seg ->
  In e seg -> accepted cfg e = true ->
  (forall d, In d (descr e) -> In d (c_desc b)) /\
  (forall r n, link_of e = Some (r, n) -> In n (links_get r (c_links b))) /\
  (is_generic e = false -> In (obj_entry e) (c_objects b)).
Proof.
  intros Hb Hs Hin Ha. destruct (batches_partition cfg steps k b Hb) as (seg' & Hs' & C).
  rewrite Hs in Hs'. injection Hs' as <-.
  split; [|split].
  - intros d Hd. rewrite (ct_desc _ _ _ C). apply in_flat_map. exists e. split; [|exact Hd].
    apply filter_In. auto.
  - intros r n Hl. apply (ct_links _ _ _ C). exists e. auto.
  - intros Hg. apply (ct_objects _ _ _ C). exists e. auto.
Qed.

(* every accepted event puts one notification on the queue *)
Theorem notifications cfg steps :
  w_notifs (wrun cfg steps) = map (fun e => full_of (e_kind e)) (filter (accepted cfg) (events_of steps)).
Proof.
  unfold wrun.
  assert (G : forall st, w_notifs (fold_left (wstep cfg) steps st) =
                         w_notifs st ++ map (fun e => full_of (e_kind e)) (filter (accepted cfg) (events_of steps))).
  { induction steps as [|s steps IH]; intros st; cbn [fold_left events_of filter map].
    - now rewrite app_nil_r.
    - destruct s as [e|]; rewrite IH; cbn [wstep w_notifs]; [|reflexivity].
      cbn [filter]. destruct (accepted cfg e); cbn [map]; [now rewrite <- app_assoc|reflexivity]. }
  apply (G w_init).
Qed.

(* ---------- non-vacuity ---------- *)

Definition ex_obj (ns name : string) (id : N) (gen : Z) (valid : bool) (data : option N) : object :=
  {| o_ns := ns; o_name := name; o_svc := ""; o_id := id; o_gen := gen; o_ann := 0%N; o_body := 0%N;
     o_valid := valid; o_data := data |}.
Definition ex_cfg : config :=
  {| cm_name := "ingress/cfg"; tcp_name := "ingress/tcp"; publish := ""; slice_api := true;
     has_a2 := false; has_b1 := true; has_v1 := true; has_tcp := false |}.

(* an ingress is created, the global ConfigMap changes, swap; the ingress leaves the class
   (generation changed), a secret changes, swap; the ConfigMap changes again, swap *)
Definition ex_history : list step :=
  let i1 := ex_obj "default" "app" 1 1 true None in
  let i2 := ex_obj "default" "app" 2 2 false None in
  let c1 := ex_obj "ingress" "cfg" 3 1 false (Some 10%N) in
  let c2 := ex_obj "ingress" "cfg" 4 1 false (Some 11%N) in
  let s1 := ex_obj "default" "tls" 5 0 false None in
  [Ev {| e_kind := KIngress; e_type := ECreate; e_old := i1; e_new := i1 |};
   Ev {| e_kind := KConfigMap; e_type := EUpdate; e_old := c1; e_new := c1 |};
   Swap;
   Ev {| e_kind := KIngress; e_type := EUpdate; e_old := i1; e_new := i2 |};
   Ev {| e_kind := KSecret; e_type := EUpdate; e_old := s1; e_new := s1 |};
   Swap;
   Ev {| e_kind := KConfigMap; e_type := EUpdate; e_old := c1; e_new := c2 |};
   Swap].

Example ex_history_batches :
  map (fun b => (c_gcur b, c_gnew b, c_desc b, c_objects b)) (w_batches (wrun ex_cfg ex_history)) =
  [ (None, Some 10%N, [(IngAdd, 1%N)], ["add/Ingress:default/app"; "update/ConfigMap:ingress/cfg"]);
    (Some 10%N, None, [(IngDel, 1%N)], ["update/Ingress:default/app"; "update/Secret:default/tls"]);
    (Some 10%N, Some 11%N, [], ["update/ConfigMap:ingress/cfg"]) ].
Proof. vm_compute. reflexivity. Qed.
