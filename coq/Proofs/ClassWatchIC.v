(* Proofs about Model/ClassWatchIC.v: histories of Ingress and IngressClass events.
   After every reconciliation the converted ingresses are exactly the existing
   ingresses that are valid against the IngressClass objects that exist at that
   moment. *)
From Coq Require Import String List Bool NArith Lia.
From HI Require Import Lib.XNs_Strs Model.ClassSel Model.ClassWatch Model.ClassWatchIC
  Proofs.ClassSel Proofs.ClassWatch.
Import ListNotations.
Open Scope string_scope.
Open Scope list_scope.

(* ====================================================================== *)
(* validity reads the class table only through the class the ingress names *)

Definition cvs (c : cfg) (cls : classes) (k : string) : bool :=
  is_valid_class c (match find_class cls k with Some x => x | None => "" end).

Lemma is_valid_cvs c cls cls' o :
  wf_ingress o ->
  (forall k, i_cls o = Some k -> cvs c cls k = cvs c cls' k) ->
  is_valid c cls o = is_valid c cls' o.
Proof.
  intros Hw H. unfold is_valid. destruct (i_cls o) as [k|] eqn:E; [|reflexivity].
  rewrite !(get_class_controller_noslash _ k (Hw k E)).
  specialize (H k eq_refl). unfold cvs, is_valid_class in *. rewrite H. reflexivity.
Qed.

(* ---------- the IngressClass store ---------- *)

Lemma find_class_to_classes ks k :
  find_class (to_classes ks) k = option_map k_ctrl (find_iclass ks k).
Proof.
  induction ks as [|h t IH]; cbn [to_classes map find_class find_iclass option_map]; [reflexivity|].
  destruct (String.eqb (k_name h) k); [reflexivity|exact IH].
Qed.

Lemma find_iclass_snoc ks o n :
  find_iclass (ks ++ [o]) n =
  match find_iclass ks n with
  | Some i => Some i
  | None => if String.eqb (k_name o) n then Some o else None
  end.
Proof.
  induction ks as [|h t IH]; cbn [app find_iclass]; [reflexivity|].
  destruct (String.eqb (k_name h) n); [reflexivity|exact IH].
Qed.

Lemma find_iclass_remove ks m n :
  find_iclass (remove_iclass ks m) n = if String.eqb m n then None else find_iclass ks n.
Proof.
  induction ks as [|h t IH]; cbn [remove_iclass find_iclass]; [destruct (String.eqb m n); reflexivity|].
  destruct (String.eqb_spec (k_name h) m) as [E|Hne].
  - rewrite IH. destruct (String.eqb_spec m n) as [E2|Hne2]; [reflexivity|].
    destruct (String.eqb_spec (k_name h) n) as [E3|_]; [congruence|reflexivity].
  - cbn [find_iclass]. destruct (String.eqb_spec (k_name h) n) as [E3|_].
    + destruct (String.eqb_spec m n) as [E2|_]; [congruence|reflexivity].
    + exact IH.
Qed.

Lemma find_iclass_name ks n k : find_iclass ks n = Some k -> k_name k = n.
Proof.
  induction ks as [|h t IH]; cbn [find_iclass]; [discriminate|].
  destruct (String.eqb_spec (k_name h) n) as [E|_]; [intros H; injection H as <-; exact E|exact IH].
Qed.

Lemma cvs_to_classes c ks k :
  cvs c (to_classes ks) k =
  is_valid_class c (match find_iclass ks k with Some x => k_ctrl x | None => "" end).
Proof. unfold cvs. rewrite find_class_to_classes. destruct (find_iclass ks k); reflexivity. Qed.

Section IC.
  Variable c : cfg.
  Hypothesis Hc : wf_cfg c.

  Lemma invalid_empty : is_valid_class c "" = false.
  Proof.
    unfold is_valid_class. destruct (String.eqb_spec "" (c_controller c)) as [E|_]; [|reflexivity].
    exfalso. apply Hc. symmetry. exact E.
  Qed.

  (* the effect of one IngressClass operation on the table: other names keep their
     status; the name itself keeps it too when the watcher drops the event *)
  Lemma kput_effect ks k :
    let '(e, ks') := kstore_put ks k in
    cev_name e = k_name k /\
    (forall k', k' <> k_name k -> cvs c (to_classes ks') k' = cvs c (to_classes ks) k') /\
    (accepts_k c e = false -> cvs c (to_classes ks') (k_name k) = cvs c (to_classes ks) (k_name k)).
  Proof.
    unfold kstore_put. destruct (find_iclass ks (k_name k)) as [old|] eqn:Ef.
    - set (g := if kspec_equal old k then k_gen old else (k_gen old + 1)%N).
      split; [reflexivity|]. split.
      + intros k' Hne. rewrite !cvs_to_classes, find_iclass_snoc, find_iclass_remove.
        cbn [with_kgen k_name]. destruct (String.eqb_spec (k_name k) k') as [E|_]; [congruence|].
        destruct (find_iclass ks k'); reflexivity.
      + intros Hacc. rewrite !cvs_to_classes, find_iclass_snoc, find_iclass_remove, Ef.
        cbn [with_kgen k_name k_ctrl]. rewrite String.eqb_refl.
        cbn [accepts_k with_kgen k_gen k_ctrl] in Hacc.
        apply andb_false_iff in Hacc as [Hg|Hv].
        * apply negb_false_iff in Hg. apply N.eqb_eq in Hg. unfold g in Hg.
          destruct (kspec_equal old k) eqn:Es; [|lia].
          unfold kspec_equal in Es. apply andb_true_iff in Es as [Es _]. apply String.eqb_eq in Es.
          cbn [with_kgen k_ctrl]. rewrite Es. reflexivity.
        * apply orb_false_iff in Hv as [H1 H2]. cbn [with_kgen k_ctrl]. rewrite H1, H2. reflexivity.
    - split; [reflexivity|]. split.
      + intros k' Hne. rewrite !cvs_to_classes, find_iclass_snoc.
        cbn [with_kgen k_name]. destruct (String.eqb_spec (k_name k) k') as [E|_]; [congruence|].
        destruct (find_iclass ks k'); reflexivity.
      + intros Hacc. rewrite !cvs_to_classes, find_iclass_snoc, Ef.
        cbn [with_kgen k_name k_ctrl]. rewrite String.eqb_refl.
        cbn [accepts_k with_kgen k_ctrl] in Hacc. cbn [with_kgen k_ctrl]. rewrite Hacc, invalid_empty. reflexivity.
  Qed.

  Lemma kdel_effect ks n old :
    find_iclass ks n = Some old ->
    (forall k', k' <> n -> cvs c (to_classes (remove_iclass ks n)) k' = cvs c (to_classes ks) k') /\
    (accepts_k c (KDelete old) = false -> cvs c (to_classes (remove_iclass ks n)) n = cvs c (to_classes ks) n).
  Proof.
    intros Ef. split.
    - intros k' Hne. rewrite !cvs_to_classes, find_iclass_remove.
      destruct (String.eqb_spec n k') as [E|_]; [congruence|reflexivity].
    - intros Hacc. rewrite !cvs_to_classes, find_iclass_remove, Ef, String.eqb_refl.
      cbn [accepts_k] in Hacc. rewrite Hacc, invalid_empty. reflexivity.
  Qed.

  (* ====================================================================== *)
  (* the per-name invariant between two reconciliations *)

  Definition val (s : state2) (o : ingress) : bool := is_valid c (to_classes (s_ks s)) o.
  Definition cur (s : state2) (n : string) : option ingress := find_ingress (s_objs s) n.
  Definition CLs (s : state2) : list string := q_cl (s_batch s).
  Definition bs (s : state2) : batch := q_b (s_batch s).

  (* expected converted, from a version naming class rc, unless rc has a pending event *)
  Definition ET (s : state2) (n : string) (rc : option string) : Prop :=
    opt_mem rc (CLs s) = false -> exists x, cur s n = Some x /\ i_cls x = rc /\ val s x = true.

  (* expected not converted, unless the class it names has a pending event *)
  Definition EF (s : state2) (n : string) : Prop :=
    forall x, cur s n = Some x -> opt_mem (i_cls x) (CLs s) = false -> val s x = false.

  Record invn (s : state2) (n : string) : Prop := {
    J1 : fD (bs s) n = false -> fU (bs s) n = false ->
         forall o, In o (b_add (bs s)) -> i_name o = n -> ET s n (i_cls o);
    J2 : fA (bs s) n = false -> fU (bs s) n = false -> fD (bs s) n = true -> EF s n;
    J3 : fA (bs s) n = false -> fU (bs s) n = false -> fD (bs s) n = false ->
         lookup (s_view s) n = None -> EF s n;
    J4 : fA (bs s) n = false -> fU (bs s) n = false -> fD (bs s) n = false ->
         forall sc, lookup (s_view s) n = Some sc -> ET s n sc;
    J5 : fL (bs s) n = false -> fA (bs s) n = false /\ fU (bs s) n = false /\ fD (bs s) n = false }.

  (* store facts: names are unique; everything stored or pending is well formed *)
  Record invg (s : state2) : Prop := {
    GS : forall x, In x (s_objs s) -> find_ingress (s_objs s) (i_name x) = Some x;
    GW : forall x, In x (s_objs s) -> wf_ingress x;
    GA : forall o, In o (b_add (bs s)) -> wf_ingress o }.

  Definition inv2 (s : state2) : Prop := invg s /\ forall n, invn s n.

  (* ---------- store lemmas ---------- *)

  Lemma find_ingress_In objs n x : find_ingress objs n = Some x -> In x objs.
  Proof.
    induction objs as [|h t IH]; cbn [find_ingress]; [discriminate|].
    destruct (String.eqb (i_name h) n); [intros H; injection H as <-; left; reflexivity|right; auto].
  Qed.

  Lemma In_remove_ingress objs m x : In x (remove_ingress objs m) -> In x objs /\ i_name x <> m.
  Proof.
    induction objs as [|h t IH]; cbn [remove_ingress]; [intros []|].
    destruct (String.eqb_spec (i_name h) m) as [E|Hne].
    - intros H. destruct (IH H). split; [right|]; assumption.
    - intros [<-|H]; [split; [left; reflexivity|exact Hne]|].
      destruct (IH H). split; [right|]; assumption.
  Qed.

  Lemma store_put_unique objs rv i :
    (forall x, In x objs -> find_ingress objs (i_name x) = Some x) ->
    forall x, In x (snd (store_put objs rv i)) ->
    find_ingress (snd (store_put objs rv i)) (i_name x) = Some x.
  Proof.
    intros HS x. unfold store_put. destruct (find_ingress objs (i_name i)) as [old|] eqn:Ef; cbn [snd].
    - intros Hin. rewrite find_ingress_snoc, find_ingress_remove. cbn [with_gen_rv i_name].
      apply in_app_or in Hin as [Hin|[<-|[]]].
      + apply In_remove_ingress in Hin as [Hin Hne].
        destruct (String.eqb_spec (i_name i) (i_name x)) as [E|_]; [congruence|]. rewrite (HS x Hin). reflexivity.
      + cbn [with_gen_rv i_name]. rewrite !String.eqb_refl. reflexivity.
    - intros Hin. rewrite find_ingress_snoc. apply in_app_or in Hin as [Hin|[<-|[]]].
      + rewrite (HS x Hin). reflexivity.
      + cbn [with_gen_rv i_name]. rewrite Ef, String.eqb_refl. reflexivity.
  Qed.

  Lemma remove_unique objs m :
    (forall x, In x objs -> find_ingress objs (i_name x) = Some x) ->
    forall x, In x (remove_ingress objs m) -> find_ingress (remove_ingress objs m) (i_name x) = Some x.
  Proof.
    intros HS x Hin. apply In_remove_ingress in Hin as [Hin Hne]. rewrite find_ingress_remove.
    destruct (String.eqb_spec m (i_name x)) as [E|_]; [congruence|]. apply HS. exact Hin.
  Qed.

  (* ---------- the Ingress batch after an event, by name ---------- *)

  Lemma wf_with_gen_rv i g rv : wf_ingress i -> wf_ingress (with_gen_rv i g rv).
  Proof. intros H k Hk. apply (H k). exact Hk. Qed.

  Lemma handle_add_list cls b e o :
    In o (b_add (handle c cls b e)) ->
    In o (b_add b) \/
    (accepts c cls e = true /\
     match e with
     | WCreate x => o = x
     | WUpdate old new => o = new /\ is_valid c cls old = false /\ is_valid c cls new = true
     | WDelete _ => False
     end).
  Proof.
    unfold handle. destruct (accepts c cls e) eqn:Ea; [|auto].
    destruct e as [x|old new|x]; cbn [b_add].
    - intros H. apply in_app_or in H as [H|[<-|[]]]; auto.
    - destruct (is_valid c cls old) eqn:Evo, (is_valid c cls new) eqn:Evn; cbn [andb negb b_add]; auto.
      intros H. apply in_app_or in H as [H|[<-|[]]]; auto.
    - auto.
  Qed.

  Lemma handle_add_keeps cls b e o : In o (b_add b) -> In o (b_add (handle c cls b e)).
  Proof.
    intros H. unfold handle. destruct (accepts c cls e); [|exact H].
    destruct e as [x|old new|x]; cbn [b_add].
    - apply in_or_app. left. exact H.
    - destruct (is_valid c cls old), (is_valid c cls new); cbn [andb negb b_add]; try exact H.
      apply in_or_app. left. exact H.
    - exact H.
  Qed.

  (* ---------- class operations ---------- *)

  Lemma opt_mem_append k l m : opt_mem k l = true -> opt_mem k (append_dedup l m) = true.
  Proof. destruct k as [x|]; cbn [opt_mem]; [|auto]. rewrite mem_append_dedup. intros ->. reflexivity. Qed.

  (* a class operation: flags, objects and view stay; pending classes only grow; the
     validity of a well formed ingress whose class has no pending event stays *)
  Definition class_step (s s' : state2) : Prop :=
    s_objs s' = s_objs s /\ s_view s' = s_view s /\
    b_add (bs s') = b_add (bs s) /\ b_upd (bs s') = b_upd (bs s) /\
    b_del (bs s') = b_del (bs s) /\ b_links (bs s') = b_links (bs s) /\
    (forall k, opt_mem k (CLs s) = true -> opt_mem k (CLs s') = true) /\
    (forall o, wf_ingress o -> opt_mem (i_cls o) (CLs s') = false -> val s' o = val s o).

  Lemma class_step_inv s s' : class_step s s' -> inv2 s -> inv2 s'.
  Proof.
    intros (Eo & Ev & Ea & Eu & Ed & El & Hmono & Hval) [[HS HW HA] Hn].
    assert (HfA : forall n, fA (bs s') n = fA (bs s) n) by (intros; unfold fA; rewrite Ea; reflexivity).
    assert (HfU : forall n, fU (bs s') n = fU (bs s) n) by (intros; unfold fU; rewrite Eu; reflexivity).
    assert (HfD : forall n, fD (bs s') n = fD (bs s) n) by (intros; unfold fD; rewrite Ed; reflexivity).
    assert (HfL : forall n, fL (bs s') n = fL (bs s) n) by (intros; unfold fL; rewrite El; reflexivity).
    assert (Hmono' : forall k, opt_mem k (CLs s') = false -> opt_mem k (CLs s) = false).
    { intros k H. destruct (opt_mem k (CLs s)) eqn:E; [|reflexivity]. rewrite (Hmono k E) in H. discriminate. }
    assert (HET : forall n rc, ET s n rc -> ET s' n rc).
    { intros n rc H Hrc. destruct (H (Hmono' _ Hrc)) as (x & Hx & Hcl & Hv).
      exists x. unfold cur in *. rewrite Eo. split; [exact Hx|]. split; [exact Hcl|].
      rewrite Hval; [exact Hv| |rewrite Hcl; exact Hrc].
      apply HW. eapply find_ingress_In. exact Hx. }
    assert (HEF : forall n, EF s n -> EF s' n).
    { intros n H x Hx Hk. unfold cur in Hx. rewrite Eo in Hx.
      rewrite Hval; [|apply HW; eapply find_ingress_In; exact Hx|exact Hk].
      apply H; [exact Hx|apply Hmono'; exact Hk]. }
    split.
    - split; rewrite ?Eo, ?Ea; assumption.
    - intros n. destruct (Hn n) as [H1 H2 H3 H4 H5]. split; rewrite ?HfA, ?HfU, ?HfD, ?HfL, ?Ea, ?Ev.
      + intros a b o Ho Hname. apply HET. apply H1; assumption.
      + intros a b d. apply HEF. apply H2; assumption.
      + intros a b d l. apply HEF. apply H3; assumption.
      + intros a b d sc l. apply HET. apply (H4 a b d sc l).
      + exact H5.
  Qed.

  Lemma kput_class_step s k :
    class_step s (step2 c s (KPut k)).
  Proof.
    cbn [step2]. pose proof (kput_effect (s_ks s) k) as H.
    destruct (kstore_put (s_ks s) k) as [e ks'] eqn:E. destruct H as (Hname & Hother & Hdrop).
    unfold class_step, bs, CLs, val. cbn [s_objs s_view s_batch s_ks].
    unfold handle_k. destruct (accepts_k c e) eqn:Ea; cbn [q_b q_cl bump_notes b_add b_upd b_del b_links].
    - repeat split; try reflexivity.
      + intros k0. apply opt_mem_append.
      + intros o Hw Hk. apply is_valid_cvs; [exact Hw|]. intros k1 Hk1. apply Hother.
        intros ->. rewrite Hk1 in Hk. cbn [opt_mem] in Hk. rewrite mem_append_dedup, Hname, String.eqb_refl, orb_true_r in Hk.
        discriminate.
    - repeat split; try reflexivity; [auto|].
      intros o Hw Hk. apply is_valid_cvs; [exact Hw|]. intros k1 Hk1.
      destruct (String.eqb_spec k1 (k_name k)) as [->|Hne]; [apply Hdrop; reflexivity|apply Hother; exact Hne].
  Qed.

  Lemma kdel_class_step s n :
    class_step s (step2 c s (KDel n)).
  Proof.
    cbn [step2]. destruct (find_iclass (s_ks s) n) as [old|] eqn:Ef.
    2:{ unfold class_step. repeat split; auto. }
    destruct (kdel_effect (s_ks s) n old Ef) as (Hother & Hdrop).
    pose proof (find_iclass_name _ _ _ Ef) as Hname.
    unfold class_step, bs, CLs, val. cbn [s_objs s_view s_batch s_ks].
    unfold handle_k. destruct (accepts_k c (KDelete old)) eqn:Ea; cbn [q_b q_cl bump_notes b_add b_upd b_del b_links cev_name].
    - repeat split; try reflexivity.
      + intros k0. apply opt_mem_append.
      + intros o Hw Hk. apply is_valid_cvs; [exact Hw|]. intros k1 Hk1. apply Hother.
        intros ->. rewrite Hk1 in Hk. cbn [opt_mem] in Hk. rewrite mem_append_dedup, Hname, String.eqb_refl, orb_true_r in Hk.
        discriminate.
    - repeat split; try reflexivity; [auto|].
      intros o Hw Hk. apply is_valid_cvs; [exact Hw|]. intros k1 Hk1.
      destruct (String.eqb_spec k1 n) as [->|Hne]; [apply Hdrop; reflexivity|apply Hother; exact Hne].
  Qed.
End IC.

Section IC2.
  Variable c : cfg.
  Hypothesis Hc : wf_cfg c.

  Local Notation val := (val c).
  Local Notation ET := (ET c).
  Local Notation EF := (EF c).
  Local Notation invn := (invn c).
  Local Notation inv2 := (inv2 c).

  (* an Ingress operation changes objects and the Ingress part of the batch only *)
  Definition ing_step (s s' : state2) : Prop :=
    s_ks s' = s_ks s /\ s_view s' = s_view s /\ CLs s' = CLs s.

  Lemma ET_transfer s s' n rc :
    ing_step s s' -> cur s' n = cur s n -> ET s n rc -> ET s' n rc.
  Proof.
    intros (Ek & _ & Ecl) Ecur H Hrc. unfold ET, CLs, cur, Proofs.ClassWatchIC.val in *.
    rewrite Ecl in Hrc. destruct (H Hrc) as (x & Hx & Hk & Hv). exists x. rewrite Ecur, Ek. auto.
  Qed.

  Lemma EF_transfer s s' n :
    ing_step s s' -> cur s' n = cur s n -> EF s n -> EF s' n.
  Proof.
    intros (Ek & _ & Ecl) Ecur H x Hx Hk. unfold EF, CLs, cur, Proofs.ClassWatchIC.val in *.
    rewrite Ecur in Hx. rewrite Ecl in Hk. rewrite Ek. apply H; assumption.
  Qed.

  (* names other than the one the operation touches *)
  Lemma other_name_inv s s' n :
    ing_step s s' -> cur s' n = cur s n ->
    fA (bs s') n = fA (bs s) n -> fU (bs s') n = fU (bs s) n ->
    fD (bs s') n = fD (bs s) n -> fL (bs s') n = fL (bs s) n ->
    (forall o, In o (b_add (bs s')) -> i_name o = n -> In o (b_add (bs s))) ->
    invn s n -> invn s' n.
  Proof.
    intros Hst Ecur EA EU ED EL Hadd [H1 H2 H3 H4 H5].
    pose proof Hst as (_ & Ev & _).
    split; rewrite ?EA, ?EU, ?ED, ?EL, ?Ev.
    - intros a b o Ho Hn. apply (ET_transfer s s'); auto.
    - intros a b d. apply (EF_transfer s s'); auto.
    - intros a b d l. apply (EF_transfer s s'); auto.
    - intros a b d sc l. apply (ET_transfer s s'); auto.
    - exact H5.
  Qed.

  Lemma eqb_neq_false a b : a <> b -> String.eqb a b = false.
  Proof. intros H. destruct (String.eqb_spec a b); [contradiction|reflexivity]. Qed.

  (* ---------- IPut ---------- *)

  Lemma iput_inv s i : wf_ingress i -> inv2 s -> inv2 (step2 c s (IPut i)).
  Proof.
    intros Hwi [[HS HW HA] Hn].
    set (cls := to_classes (s_ks s)).
    cbn [step2]. fold cls.
    pose proof (store_put_unique (s_objs s) (s_rv s) i HS) as HS'.
    unfold store_put in *.
    destruct (find_ingress (s_objs s) (i_name i)) as [old|] eqn:Ef.
    - (* update *)
      set (g := if spec_equal old i then i_gen old else (i_gen old + 1)%N) in *.
      set (new := with_gen_rv i g (s_rv s)) in *.
      cbn [snd] in HS'.
      assert (Hnn : i_name old = i_name new) by (apply find_ingress_name in Ef; exact Ef).
      assert (Hwn : wf_ingress new) by (apply wf_with_gen_rv; exact Hwi).
      set (s' := {| s_objs := remove_ingress (s_objs s) (i_name i) ++ [new]; s_ks := s_ks s;
                    s_batch := handle_i c cls (s_batch s) (WUpdate old new); s_view := s_view s;
                    s_rv := (s_rv s + 1)%N; s_obs := s_obs s |}).
      assert (Hst : ing_step s s') by (repeat split).
      assert (Hb : bs s' = handle c cls (bs s) (WUpdate old new)) by reflexivity.
      assert (Hcur : forall n, cur s' n = if String.eqb (i_name i) n then Some new else cur s n).
      { intros n. unfold cur. cbn [s' s_objs]. rewrite find_ingress_snoc, find_ingress_remove.
        change (i_name new) with (i_name i).
        destruct (String.eqb (i_name i) n); [reflexivity|]. destruct (find_ingress (s_objs s) n); reflexivity. }
      split.
      + split.
        * exact HS'.
        * intros x Hx. cbn [s' s_objs] in Hx. apply in_app_or in Hx as [Hx|[<-|[]]]; [|exact Hwn].
          apply In_remove_ingress in Hx as [Hx _]. apply HW. exact Hx.
        * intros o Ho. rewrite Hb in Ho. apply handle_add_list in Ho as [Ho|[_ [-> _]]]; [apply HA; exact Ho|exact Hwn].
      + intros n. specialize (Hn n).
        destruct (handle_update_flags c cls (bs s) old new n Hnn) as (EA & EU & ED & EL).
        rewrite <- Hb in EA, EU, ED, EL.
        destruct (String.eqb_spec n (i_name new)) as [En|Hne].
        2:{ (* another name *)
            rewrite !andb_false_r, !orb_false_r in EA, EU, ED, EL.
            apply (other_name_inv s s'); auto.
            - rewrite Hcur. change (i_name new) with (i_name i) in Hne.
              rewrite eqb_neq_false; [reflexivity|congruence].
            - intros o Ho Hname. rewrite Hb in Ho. apply handle_add_list in Ho as [Ho|[_ [-> _]]]; [exact Ho|congruence]. }
        subst n. rewrite !andb_true_r in EA, EU, ED, EL.
        assert (Hc' : cur s' (i_name new) = Some new) by (rewrite Hcur; change (i_name new) with (i_name i); rewrite String.eqb_refl; reflexivity).
        assert (Hc0 : cur s (i_name new) = Some old) by exact Ef.
        set (vo := is_valid c cls old) in *. set (vn := is_valid c cls new) in *.
        assert (Hvo : val s old = vo) by reflexivity.
        assert (Hvn : val s' new = vn) by reflexivity.
        (* a dropped update that the generation/annotation predicate rejects keeps class and validity *)
        assert (Hsame : changed_pred old new = false -> i_cls new = i_cls old /\ vn = vo).
        { intros Hp. split.
          - unfold changed_pred, ann_equal in Hp. apply orb_false_iff in Hp as [_ H2].
            apply negb_false_iff in H2. apply N.eqb_eq in H2.
            unfold new in H2 |- *. cbn [with_gen_rv i_gen i_cls] in H2 |- *. unfold g in H2.
            destruct (spec_equal old i) eqn:Es.
            + unfold spec_equal in Es. apply andb_true_iff in Es as [Ec _]. symmetry. apply opt_string_eqb_eq. exact Ec.
            + lia.
          - apply (dropped_update_same_validity c cls old i (s_rv s)). exact Hp. }
        destruct Hn as [H1 H2 H3 H4 H5].
        assert (HETnew : forall rc, i_cls new = rc -> vn = true -> ET s' (i_name new) rc).
        { intros rc Hrc Hv _. exists new. auto. }
        split.
        * (* J1 *)
          rewrite ED, EU. intros Hd Hu o Ho Hname.
          apply orb_false_iff in Hd as [Hd Hd']. apply orb_false_iff in Hu as [Hu Hu'].
          rewrite Hb in Ho. apply handle_add_list in Ho as [Ho|[_ (-> & _ & Hv)]]; [|apply HETnew; auto].
          intros Hrc. assert (Hrc0 : opt_mem (i_cls o) (CLs s) = false) by exact Hrc.
          destruct (H1 Hd Hu o Ho Hname Hrc0) as (x & Hx & Hk & Hv).
          rewrite Hc0 in Hx. injection Hx as <-. rewrite Hvo in Hv.
          destruct (changed_pred old new) eqn:Ep.
          -- rewrite Hv in Hu', Hd'. cbn [andb orb negb] in Hu', Hd'. destruct vn; discriminate.
          -- destruct (Hsame eq_refl) as [Hcl Hvv]. exists new. rewrite Hc'. split; [reflexivity|].
             split; [congruence|]. rewrite Hvn, Hvv. exact Hv.
        * (* J2 *)
          rewrite EA, EU, ED. intros Ha Hu Hd x Hx Hk. rewrite Hc' in Hx. injection Hx as <-. rewrite Hvn.
          apply orb_false_iff in Ha as [Ha Ha']. apply orb_false_iff in Hu as [Hu Hu'].
          destruct (changed_pred old new) eqn:Ep; cbn [andb] in *.
          -- destruct vo, vn; cbn [andb orb negb] in *; try discriminate; try reflexivity.
          -- rewrite orb_false_r in Hd. destruct (Hsame eq_refl) as [Hcl Hvv]. rewrite Hvv.
             apply (H2 Ha Hu Hd old Hc0). rewrite <- Hcl. exact Hk.
        * (* J3 *)
          rewrite EA, EU, ED. intros Ha Hu Hd Hl x Hx Hk. rewrite Hc' in Hx. injection Hx as <-. rewrite Hvn.
          apply orb_false_iff in Ha as [Ha Ha']. apply orb_false_iff in Hu as [Hu Hu']. apply orb_false_iff in Hd as [Hd Hd'].
          destruct (changed_pred old new) eqn:Ep; cbn [andb] in *.
          -- destruct vo, vn; cbn [andb orb negb] in *; try discriminate; reflexivity.
          -- destruct (Hsame eq_refl) as [Hcl Hvv]. rewrite Hvv.
             apply (H3 Ha Hu Hd Hl old Hc0). rewrite <- Hcl. exact Hk.
        * (* J4 *)
          rewrite EA, EU, ED. intros Ha Hu Hd sc Hl Hrc.
          apply orb_false_iff in Ha as [Ha Ha']. apply orb_false_iff in Hu as [Hu Hu']. apply orb_false_iff in Hd as [Hd Hd'].
          destruct (H4 Ha Hu Hd sc Hl Hrc) as (x & Hx & Hk & Hv).
          rewrite Hc0 in Hx. injection Hx as <-. rewrite Hvo in Hv.
          destruct (changed_pred old new) eqn:Ep; cbn [andb] in *.
          -- rewrite Hv in *. destruct vn; cbn [andb orb negb] in *; discriminate.
          -- destruct (Hsame eq_refl) as [Hcl Hvv]. exists new. rewrite Hc'. split; [reflexivity|].
             split; [congruence|]. rewrite Hvn, Hvv. exact Hv.
        * (* J5 *)
          rewrite EL, EA, EU, ED. intros Hl. apply orb_false_iff in Hl as [Hl Hl'].
          destruct (H5 Hl) as (Ha & Hu & Hd). rewrite Ha, Hu, Hd, Hl'. cbn [andb orb]. auto.
    - (* create *)
      set (new := with_gen_rv i 1 (s_rv s)) in *.
      cbn [snd] in HS'.
      assert (Hwn : wf_ingress new) by (apply wf_with_gen_rv; exact Hwi).
      set (s' := {| s_objs := s_objs s ++ [new]; s_ks := s_ks s;
                    s_batch := handle_i c cls (s_batch s) (WCreate new); s_view := s_view s;
                    s_rv := (s_rv s + 1)%N; s_obs := s_obs s |}).
      assert (Hst : ing_step s s') by (repeat split).
      assert (Hb : bs s' = handle c cls (bs s) (WCreate new)) by reflexivity.
      assert (Hcur : forall n, cur s' n = match cur s n with Some x => Some x | None => if String.eqb (i_name i) n then Some new else None end).
      { intros n. unfold cur. cbn [s' s_objs]. rewrite find_ingress_snoc. reflexivity. }
      split.
      + split.
        * exact HS'.
        * intros x Hx. cbn [s' s_objs] in Hx. apply in_app_or in Hx as [Hx|[<-|[]]]; [apply HW; exact Hx|exact Hwn].
        * intros o Ho. rewrite Hb in Ho. apply handle_add_list in Ho as [Ho|[_ ->]]; [apply HA; exact Ho|exact Hwn].
      + intros n. specialize (Hn n).
        destruct (handle_create_flags c cls (bs s) new n) as (EA & EU & ED & EL).
        rewrite <- Hb in EA, EU, ED, EL.
        destruct (String.eqb_spec n (i_name new)) as [En|Hne].
        2:{ rewrite !andb_false_r, !orb_false_r in EA, EL.
            apply (other_name_inv s s'); auto.
            - rewrite Hcur. change (i_name new) with (i_name i) in Hne.
              rewrite eqb_neq_false; [destruct (cur s n); reflexivity|congruence].
            - intros o Ho Hname. rewrite Hb in Ho. apply handle_add_list in Ho as [Ho|[_ ->]]; [exact Ho|congruence]. }
        subst n. rewrite !andb_true_r in EA, EL.
        assert (Hc0 : cur s (i_name new) = None) by exact Ef.
        assert (Hc' : cur s' (i_name new) = Some new).
        { rewrite Hcur, Hc0. change (i_name new) with (i_name i). rewrite String.eqb_refl. reflexivity. }
        set (vn := is_valid c cls new) in *.
        assert (Hvn : val s' new = vn) by reflexivity.
        destruct Hn as [H1 H2 H3 H4 H5].
        split.
        * rewrite ED, EU. intros Hd Hu o Ho Hname.
          rewrite Hb in Ho. apply handle_add_list in Ho as [Ho|[Hacc ->]].
          -- intros Hrc. destruct (H1 Hd Hu o Ho Hname Hrc) as (x & Hx & _). rewrite Hc0 in Hx. discriminate.
          -- intros _. exists new. cbn [accepts] in Hacc. auto.
        * rewrite EA, EU, ED. intros Ha Hu Hd x Hx Hk. rewrite Hc' in Hx. injection Hx as <-.
          apply orb_false_iff in Ha as [_ Ha]. rewrite Hvn. exact Ha.
        * rewrite EA, EU, ED. intros Ha Hu Hd Hl x Hx Hk. rewrite Hc' in Hx. injection Hx as <-.
          apply orb_false_iff in Ha as [_ Ha]. rewrite Hvn. exact Ha.
        * rewrite EA, EU, ED. intros Ha Hu Hd sc Hl Hrc. apply orb_false_iff in Ha as [Ha _].
          destruct (H4 Ha Hu Hd sc Hl Hrc) as (x & Hx & _). rewrite Hc0 in Hx. discriminate.
        * rewrite EL, EA, EU, ED. intros Hl. apply orb_false_iff in Hl as [Hl Hl'].
          destruct (H5 Hl) as (Ha & Hu & Hd). rewrite Ha, Hu, Hd, Hl'. auto.
  Qed.
End IC2.

Section IC3.
  Variable c : cfg.
  Hypothesis Hc : wf_cfg c.

  Local Notation val := (val c).
  Local Notation ET := (ET c).
  Local Notation EF := (EF c).
  Local Notation invn := (invn c).
  Local Notation inv2 := (inv2 c).

  (* ---------- IDelete ---------- *)

  Lemma idelete_inv s m : inv2 s -> inv2 (step2 c s (IDelete m)).
  Proof.
    intros [[HS HW HA] Hn]. cbn [step2].
    destruct (find_ingress (s_objs s) m) as [old|] eqn:Ef; [|split; [split|]; assumption].
    set (cls := to_classes (s_ks s)).
    set (s' := {| s_objs := remove_ingress (s_objs s) m; s_ks := s_ks s;
                  s_batch := handle_i c cls (s_batch s) (WDelete old); s_view := s_view s;
                  s_rv := s_rv s; s_obs := s_obs s |}).
    assert (Hst : ing_step s s') by (repeat split).
    assert (Hb : bs s' = handle c cls (bs s) (WDelete old)) by reflexivity.
    pose proof (find_ingress_name _ _ _ Ef) as Hname.
    assert (Hcur : forall n, cur s' n = if String.eqb m n then None else cur s n).
    { intros n. unfold cur. cbn [s' s_objs]. apply find_ingress_remove. }
    assert (Hadd : forall o, In o (b_add (bs s')) -> In o (b_add (bs s))).
    { intros o Ho. rewrite Hb in Ho. apply handle_add_list in Ho as [Ho|[_ []]]. exact Ho. }
    split.
    - split.
      + apply remove_unique. exact HS.
      + intros x Hx. apply In_remove_ingress in Hx as [Hx _]. apply HW. exact Hx.
      + intros o Ho. apply HA, Hadd, Ho.
    - intros n. specialize (Hn n).
      destruct (handle_delete_flags c cls (bs s) old n) as (EA & EU & ED & EL).
      rewrite <- Hb in EA, EU, ED, EL. rewrite Hname in ED, EL.
      destruct (String.eqb_spec n m) as [->|Hne].
      2:{ rewrite !andb_false_r, !orb_false_r in ED, EL.
          apply (other_name_inv c s s'); auto.
          rewrite Hcur, eqb_neq_false; [reflexivity|congruence]. }
      rewrite !andb_true_r in ED, EL.
      assert (Hc' : cur s' m = None) by (rewrite Hcur, String.eqb_refl; reflexivity).
      assert (Hc0 : cur s m = Some old) by exact Ef.
      set (vo := is_valid c cls old) in *.
      assert (Hvo : val s old = vo) by reflexivity.
      destruct Hn as [H1 H2 H3 H4 H5].
      split.
      + rewrite ED, EU. intros Hd Hu o Ho Hnm Hrc. apply orb_false_iff in Hd as [Hd Hd'].
        destruct (H1 Hd Hu o (Hadd o Ho) Hnm Hrc) as (x & Hx & _ & Hv).
        rewrite Hc0 in Hx. injection Hx as <-. rewrite Hvo in Hv. congruence.
      + intros _ _ _ x Hx. rewrite Hc' in Hx. discriminate.
      + intros _ _ _ _ x Hx. rewrite Hc' in Hx. discriminate.
      + rewrite EA, EU, ED. intros Ha Hu Hd sc Hl Hrc. apply orb_false_iff in Hd as [Hd Hd'].
        destruct (H4 Ha Hu Hd sc Hl Hrc) as (x & Hx & _ & Hv).
        rewrite Hc0 in Hx. injection Hx as <-. rewrite Hvo in Hv. congruence.
      + rewrite EL, EA, EU, ED. intros Hl. apply orb_false_iff in Hl as [Hl Hl'].
        destruct (H5 Hl) as (Ha & Hu & Hd). rewrite Ha, Hu, Hd, Hl'. auto.
  Qed.

  (* ---------- the reconciliation ---------- *)

  Lemma last_named_some l n o : last_named l n = Some o -> In o l /\ i_name o = n.
  Proof.
    induction l as [|h t IH]; cbn [last_named]; [discriminate|].
    destruct (last_named t n) as [x|] eqn:E.
    - intros H. injection H as <-. destruct (IH eq_refl). split; [right|]; assumption.
    - destruct (String.eqb_spec (i_name h) n) as [En|_]; [|discriminate].
      intros H. injection H as <-. split; [left; reflexivity|exact En].
  Qed.

  Lemma last_named_none l n : last_named l n = None -> forall o, In o l -> i_name o <> n.
  Proof.
    induction l as [|h t IH]; cbn [last_named]; [intros _ o []|].
    destruct (last_named t n) as [x|] eqn:E; [discriminate|].
    destruct (String.eqb_spec (i_name h) n) as [En|Hne]; [discriminate|].
    intros _ o [<-|Ho]; [exact Hne|apply IH; auto].
  Qed.

  Lemma mem_names_In n l : mem n (names l) = true <-> exists o, In o l /\ i_name o = n.
  Proof.
    rewrite mem_In. unfold names. rewrite in_map_iff. split; intros (o & H1 & H2); exists o; auto.
  Qed.

  Lemma not_named_mem n l : (forall o, In o l -> i_name o <> n) -> mem n (names l) = false.
  Proof.
    intros H. destruct (mem n (names l)) eqn:E; [|reflexivity].
    apply mem_names_In in E as (o & Ho & Hn). destruct (H o Ho Hn).
  Qed.

  Lemma in_adds1 cls objs cl adds o :
    In o (adds1 c cls objs cl adds) ->
    exists o', In o' adds /\
      ((has_cc cl o' = false /\ o = o') \/ (has_cc cl o' = true /\ get_ingress c cls objs (i_name o') = Some o)).
  Proof.
    unfold adds1. rewrite in_flat_map. intros (o' & Ho' & H). exists o'. split; [exact Ho'|].
    destruct (has_cc cl o'); [right|left].
    - destruct (get_ingress c cls objs (i_name o')) as [x|]; [|destruct H].
      destruct H as [<-|[]]. auto.
    - destruct H as [<-|[]]. auto.
  Qed.

  Lemma adds1_in cls objs cl adds o' :
    In o' adds ->
    (has_cc cl o' = false -> In o' (adds1 c cls objs cl adds)) /\
    (has_cc cl o' = true -> forall x, get_ingress c cls objs (i_name o') = Some x -> In x (adds1 c cls objs cl adds)).
  Proof.
    intros Ho'. unfold adds1. split.
    - intros H. apply in_flat_map. exists o'. split; [exact Ho'|]. rewrite H. left. reflexivity.
    - intros H x Hx. apply in_flat_map. exists o'. split; [exact Ho'|]. rewrite H, Hx. left. reflexivity.
  Qed.

  Lemma get_ingress_cur cls objs n :
    get_ingress c cls objs n =
    match find_ingress objs n with
    | Some i => if is_valid c cls i then Some i else None
    | None => None
    end.
  Proof. reflexivity. Qed.

  Definition reread (s : state2) (n : string) : option (option string) :=
    match get_ingress c (to_classes (s_ks s)) (s_objs s) n with Some x => Some (i_cls x) | None => None end.

  Lemma lookup_none_mem v n : lookup v n = None <-> mem n (map fst v) = false.
  Proof.
    induction v as [|[m k] t IH]; cbn [lookup map fst]; [unfold mem; cbn; tauto|].
    unfold mem in *. cbn [existsb]. rewrite (String.eqb_sym n m).
    destruct (String.eqb m n); cbn [orb]; [split; discriminate|exact IH].
  Qed.

  (* nothing named n was added although n is valid: impossible when an add event for n is
     pending, or when n is expected not to be converted *)
  Lemma not_added_invalid s n :
    invg s ->
    (forall o, In o (adds2 c (to_classes (s_ks s)) (s_objs s) (s_batch s)) -> i_name o <> n) ->
    (fA (bs s) n = true \/ EF s n) ->
    get_ingress c (to_classes (s_ks s)) (s_objs s) n = None.
  Proof.
    intros [HS HW HA] Hno Hor. set (cls := to_classes (s_ks s)) in *.
    destruct (get_ingress c cls (s_objs s) n) as [x|] eqn:Eg; [exfalso|reflexivity].
    destruct (get_ingress_valid _ _ _ _ _ Eg) as (Hv & Hnm & Hin).
    unfold adds2 in Hno. fold cls in Hno.
    set (a1 := adds1 c cls (s_objs s) (q_cl (s_batch s)) (b_add (q_b (s_batch s)))) in *.
    destruct Hor as [Ha|Hef].
    - apply mem_names_In in Ha as (o' & Ho' & Hn').
      destruct (adds1_in cls (s_objs s) (q_cl (s_batch s)) _ o' Ho') as [Hk Hr].
      destruct (has_cc (q_cl (s_batch s)) o') eqn:Ecc.
      + apply (Hno x); [|exact Hnm]. apply in_or_app. left. apply Hr; [reflexivity|]. rewrite Hn'. exact Eg.
      + apply (Hno o'); [|exact Hn']. apply in_or_app. left. apply Hk. reflexivity.
    - assert (Hcur : cur s n = Some x).
      { unfold cur. rewrite get_ingress_cur in Eg. destruct (find_ingress (s_objs s) n) as [y|]; [|discriminate].
        destruct (is_valid c cls y); [|discriminate]. exact Eg. }
      destruct (opt_mem (i_cls x) (CLs s)) eqn:Ecc.
      + apply (Hno x); [|exact Hnm]. apply in_or_app. right. unfold scan. apply filter_In. split.
        * apply get_ingress_list_spec. auto.
        * unfold has_cc. unfold CLs, opt_mem in Ecc. rewrite Ecc. cbn [andb]. apply negb_true_iff.
          rewrite Hnm. apply not_named_mem. intros o Ho. apply Hno. apply in_or_app. left. exact Ho.
      + specialize (Hef x Hcur Ecc). unfold Proofs.ClassWatchIC.val in Hef. fold cls in Hef. congruence.
  Qed.

  Lemma decide_exact s extra n :
    inv2 s ->
    decide c (to_classes (s_ks s)) (s_objs s) (s_batch s) (s_view s) extra n = reread s n.
  Proof.
    intros [Hg Hn]. destruct (Hn n) as [H1 H2 H3 H4 H5]. pose proof Hg as [HS HW HA].
    set (cls := to_classes (s_ks s)). unfold decide, reread. fold cls.
    change (q_b (s_batch s)) with (bs s). change (q_cl (s_batch s)) with (CLs s).
    fold (fD (bs s) n) (fU (bs s) n) (fL (bs s) n).
    destruct (last_named (adds2 c cls (s_objs s) (s_batch s)) n) as [o|] eqn:El.
    - apply last_named_some in El as [Ho Hname].
      destruct (fD (bs s) n) eqn:Ed; [reflexivity|]. destruct (fU (bs s) n) eqn:Eu; [reflexivity|]. cbn [orb].
      unfold adds2 in Ho. fold cls in Ho. apply in_app_or in Ho as [Ho|Ho].
      + apply in_adds1 in Ho as (o' & Ho' & [[Hcc ->]|[Hcc Hr]]).
        * destruct (H1 eq_refl eq_refl o' Ho' Hname Hcc) as (x & Hx & Hk & Hv).
          rewrite get_ingress_cur. unfold cur in Hx. rewrite Hx.
          unfold Proofs.ClassWatchIC.val in Hv. fold cls in Hv. rewrite Hv, Hk. reflexivity.
        * destruct (get_ingress_valid _ _ _ _ _ Hr) as (_ & Hnm & _). rewrite <- Hname, Hnm, Hr. reflexivity.
      + unfold scan in Ho. apply filter_In in Ho as [Ho _]. apply get_ingress_list_spec in Ho as [Hin Hv].
        rewrite get_ingress_cur, <- Hname, (HS o Hin), Hv. reflexivity.
    - pose proof (last_named_none _ _ El) as Hno.
      destruct (fU (bs s) n) eqn:Eu; [reflexivity|].
      destruct (fD (bs s) n) eqn:Ed.
      + pose proof (not_added_invalid s n Hg Hno) as Hna. fold cls in Hna. rewrite Hna; [reflexivity|].
        destruct (fA (bs s) n) eqn:Ea; [left; reflexivity|right; apply H2; auto].
      + destruct (lookup (s_view s) n) as [sc|] eqn:Elk.
        * destruct (fL (bs s) n) eqn:Elnk; [reflexivity|]. cbn [orb].
          destruct (opt_mem sc (CLs s)) eqn:Ecc; [reflexivity|]. cbn [orb].
          destruct (mem n extra); [reflexivity|].
          destruct (H5 eq_refl) as (Ea & _ & _).
          destruct (H4 Ea eq_refl eq_refl sc eq_refl Ecc) as (x & Hx & Hk & Hv).
          rewrite get_ingress_cur. unfold cur in Hx. rewrite Hx.
          unfold Proofs.ClassWatchIC.val in Hv. fold cls in Hv. rewrite Hv, Hk. reflexivity.
        * pose proof (not_added_invalid s n Hg Hno) as Hna. fold cls in Hna. rewrite Hna; [reflexivity|].
          destruct (fA (bs s) n) eqn:Ea; [left; reflexivity|right; apply H3; auto].
  Qed.

  Lemma lookup_flat_map (g : string -> option (option string)) l n :
    lookup (flat_map (fun m => match g m with Some k => [(m, k)] | None => [] end) l) n =
    if mem n l then g n else None.
  Proof.
    induction l as [|m t IH]; cbn [flat_map]; [reflexivity|].
    unfold mem in *. cbn [existsb]. destruct (g m) as [k|] eqn:Eg; cbn [app lookup].
    - rewrite (String.eqb_sym n m). destruct (String.eqb_spec m n) as [->|_]; cbn [orb]; [symmetry; exact Eg|exact IH].
    - rewrite IH. destruct (String.eqb_spec n m) as [->|_]; cbn [orb]; [|reflexivity].
      rewrite Eg. destruct (existsb (String.eqb m) t); reflexivity.
  Qed.

  Lemma lookup_apply s extra n :
    inv2 s ->
    lookup (apply_batch2 c (to_classes (s_ks s)) (s_objs s) (s_batch s) (s_view s) extra) n = reread s n.
  Proof.
    intros Hi. unfold apply_batch2. rewrite lookup_flat_map, mem_dedup_names, !mem_app.
    rewrite (decide_exact s extra n Hi).
    destruct (mem n (map fst (s_view s))) eqn:E1; [reflexivity|].
    destruct (mem n (names (adds2 c (to_classes (s_ks s)) (s_objs s) (s_batch s)))) eqn:E2; [reflexivity|].
    destruct (mem n (names (b_upd (q_b (s_batch s))))) eqn:E3; [reflexivity|]. cbn [orb].
    (* not a candidate: decide says None *)
    rewrite <- (decide_exact s extra n Hi). unfold decide.
    assert (El : last_named (adds2 c (to_classes (s_ks s)) (s_objs s) (s_batch s)) n = None).
    { destruct (last_named _ n) as [o|] eqn:E; [|reflexivity]. apply last_named_some in E as [Ho Hn].
      assert (mem n (names (adds2 c (to_classes (s_ks s)) (s_objs s) (s_batch s))) = true) by (apply mem_names_In; eauto).
      congruence. }
    rewrite El, E3. apply lookup_none_mem in E1. rewrite E1.
    destruct (mem n (names (b_del (q_b (s_batch s))))); reflexivity.
  Qed.

  Lemma iswap_inv s extra : inv2 s -> inv2 (step2 c s (ISwap extra)).
  Proof.
    intros Hi. pose proof Hi as [[HS HW HA] Hn]. cbn [step2].
    split; [split; cbn [s_objs s_batch]; auto; intros o []|].
    intros n.
    pose proof (lookup_apply s extra n Hi) as Hl.
    split; unfold bs, fA, fU, fD, fL, ClassWatchIC.ET, ClassWatchIC.EF, CLs, cur, Proofs.ClassWatchIC.val;
      cbn [s_batch s_view s_objs s_ks batch2_0 q_b q_cl batch0 b_add b_upd b_del b_links names map mem existsb].
    - intros _ _ o [].
    - discriminate.
    - intros _ _ _ Hlk x Hx _. rewrite Hl in Hlk. unfold reread in Hlk. rewrite get_ingress_cur, Hx in Hlk.
      destruct (is_valid c (to_classes (s_ks s)) x); [discriminate|reflexivity].
    - intros _ _ _ sc Hlk _. rewrite Hl in Hlk. unfold reread in Hlk. rewrite get_ingress_cur in Hlk.
      destruct (find_ingress (s_objs s) n) as [x|]; [|discriminate].
      destruct (is_valid c (to_classes (s_ks s)) x) eqn:Ev; [|discriminate].
      injection Hlk as <-. exists x. auto.
    - auto.
  Qed.

  (* ---------- all histories ---------- *)

  Definition wf_op (o : op2) : Prop := match o with IPut i => wf_ingress i | _ => True end.

  Lemma step2_inv s o : wf_op o -> inv2 s -> inv2 (step2 c s o).
  Proof.
    destruct o as [i|m|k|m|extra]; intros Hw Hi.
    - apply iput_inv; assumption.
    - apply idelete_inv; assumption.
    - apply (class_step_inv c s); [apply kput_class_step; exact Hc|exact Hi].
    - apply (class_step_inv c s); [apply kdel_class_step; exact Hc|exact Hi].
    - apply iswap_inv; assumption.
  Qed.

  Lemma inv2_0 ks0 : inv2 (state2_0 ks0).
  Proof.
    split; [split; cbn; intros ? []|].
    intros n. split; unfold bs, fA, fU, fD, fL, ClassWatchIC.ET, ClassWatchIC.EF, cur; cbn; intros; try discriminate; auto.
    contradiction.
  Qed.

  Lemma run2_inv ks0 ops : Forall wf_op ops -> inv2 (run2 c ks0 ops).
  Proof.
    unfold run2. generalize (inv2_0 ks0). generalize (state2_0 ks0).
    induction ops as [|o r IH]; intros s Hi Hw; cbn [fold_left]; [exact Hi|].
    inversion Hw; subst. apply IH; [apply step2_inv; assumption|assumption].
  Qed.

  Lemma run2_app ks0 ops o : run2 c ks0 (ops ++ [o]) = step2 c (run2 c ks0 ops) o.
  Proof. unfold run2. rewrite fold_left_app. reflexivity. Qed.

  Lemma lookup_In v n : In n (map fst v) <-> lookup v n <> None.
  Proof.
    rewrite <- mem_In. destruct (lookup_none_mem v n) as [A B].
    destruct (mem n (map fst v)) eqn:E; split; intros H.
    - intros H0. apply A in H0. discriminate.
    - reflexivity.
    - discriminate.
    - exfalso. apply H. apply B. reflexivity.
  Qed.

  (* after every reconciliation: converted = existing and valid against the current classes *)
  Theorem view_tracks_validity_ic ks0 ops extra n :
    Forall wf_op ops ->
    let s := run2 c ks0 (ops ++ [ISwap extra]) in
    In n (map fst (s_view s)) <->
    exists i, find_ingress (s_objs s) n = Some i /\ is_valid c (to_classes (s_ks s)) i = true.
  Proof.
    intros Hw. cbn zeta. rewrite run2_app. set (s0 := run2 c ks0 ops).
    pose proof (run2_inv ks0 ops Hw) as Hi. fold s0 in Hi.
    rewrite lookup_In. cbn [step2 s_view s_objs s_ks]. rewrite (lookup_apply s0 extra n Hi).
    unfold reread. rewrite get_ingress_cur.
    destruct (find_ingress (s_objs s0) n) as [x|].
    - destruct (is_valid c (to_classes (s_ks s0)) x) eqn:Ev.
      + split; [intros _; exists x; auto|discriminate].
      + split; [intros H; exfalso; apply H; reflexivity|intros (i & Hi' & Hv); injection Hi' as <-; congruence].
    - split; [intros H; exfalso; apply H; reflexivity|intros (i & Hi' & _); discriminate].
  Qed.
End IC3.

(* ---------- the IngressClass names stay unique ---------- *)

Lemma remove_iclass_names ks m x :
  In x (map k_name (remove_iclass ks m)) -> In x (map k_name ks) /\ x <> m.
Proof.
  induction ks as [|h t IH]; cbn [remove_iclass map]; [intros []|].
  destruct (String.eqb_spec (k_name h) m) as [E|Hne].
  - intros H. destruct (IH H). split; [right|]; assumption.
  - cbn [map]. intros [<-|H]; [split; [left; reflexivity|exact Hne]|].
    destruct (IH H). split; [right|]; assumption.
Qed.

Lemma remove_iclass_nodup ks m : NoDup (map k_name ks) -> NoDup (map k_name (remove_iclass ks m)).
Proof.
  induction ks as [|h t IH]; cbn [remove_iclass map]; intros H; [constructor|].
  inversion H as [|? ? Hnin Hnd]; subst.
  destruct (String.eqb (k_name h) m); [apply IH; exact Hnd|].
  cbn [map]. constructor; [|apply IH; exact Hnd].
  intros Hin. apply remove_iclass_names in Hin as [Hin _]. contradiction.
Qed.

Lemma nodup_snoc {A} (l : list A) a : NoDup l -> ~ In a l -> NoDup (l ++ [a]).
Proof.
  induction l as [|h t IH]; cbn [app]; intros Hnd Hnin; [constructor; [intros []|constructor]|].
  inversion Hnd as [|? ? Hh Ht]; subst. constructor.
  - intros Hin. apply in_app_or in Hin as [Hin|[<-|[]]]; [contradiction|]. apply Hnin. left. reflexivity.
  - apply IH; [exact Ht|]. intros Hin. apply Hnin. right. exact Hin.
Qed.

Lemma find_iclass_none_names ks n : find_iclass ks n = None -> ~ In n (map k_name ks).
Proof.
  induction ks as [|h t IH]; cbn [find_iclass map]; [intros _ []|].
  destruct (String.eqb_spec (k_name h) n) as [E|Hne]; [discriminate|].
  intros H [E|Hin]; [contradiction|]. apply (IH H Hin).
Qed.

Lemma step2_nodup c s o : NoDup (map k_name (s_ks s)) -> NoDup (map k_name (s_ks (step2 c s o))).
Proof.
  intros H. destruct o as [i|m|k|m|extra]; cbn [step2].
  - destruct (store_put (s_objs s) (s_rv s) i). exact H.
  - destruct (find_ingress (s_objs s) m); exact H.
  - unfold kstore_put. destruct (find_iclass (s_ks s) (k_name k)) as [old|] eqn:Ef; cbn [s_ks].
    + rewrite map_app. cbn [map with_kgen k_name]. apply nodup_snoc; [apply remove_iclass_nodup; exact H|].
      intros Hin. apply remove_iclass_names in Hin as [_ Hne]. apply Hne. reflexivity.
    + rewrite map_app. cbn [map with_kgen k_name]. apply nodup_snoc; [exact H|].
      apply find_iclass_none_names. exact Ef.
  - destruct (find_iclass (s_ks s) m); cbn [s_ks]; [apply remove_iclass_nodup|]; exact H.
  - exact H.
Qed.

Lemma run2_nodup c ks0 ops : NoDup (map k_name ks0) -> NoDup (map k_name (s_ks (run2 c ks0 ops))).
Proof.
  unfold run2. change ks0 with (s_ks (state2_0 ks0)) at 1. generalize (state2_0 ks0).
  induction ops as [|o r IH]; intros s H; cbn [fold_left]; [exact H|].
  apply IH. apply step2_nodup. exact H.
Qed.

Lemma to_classes_names ks : map fst (to_classes ks) = map k_name ks.
Proof. unfold to_classes. rewrite map_map. reflexivity. Qed.

(* The full statement of C08 for histories with IngressClass events: after every
   reconciliation the converted ingresses are exactly the existing ingresses that the
   documented rule selects against the IngressClass objects existing at that moment. *)
Theorem view_tracks_selection_ic c ks0 ops extra n :
  wf_cfg c -> NoDup (map k_name ks0) -> Forall wf_op ops ->
  let s := run2 c ks0 (ops ++ [ISwap extra]) in
  In n (map fst (s_view s)) <->
  exists i, find_ingress (s_objs s) n = Some i /\ selected c (to_classes (s_ks s)) i.
Proof.
  intros Hc Hnd Hw. cbn zeta. rewrite (view_tracks_validity_ic c Hc ks0 ops extra n Hw).
  assert (Hw' : Forall wf_op (ops ++ [ISwap extra])) by (apply Forall_app; split; [exact Hw|repeat constructor]).
  destruct (run2_inv c Hc ks0 _ Hw') as [[_ HW _] _].
  pose proof (run2_nodup c ks0 (ops ++ [ISwap extra]) Hnd) as Hk.
  set (s := run2 c ks0 (ops ++ [ISwap extra])) in *.
  assert (Hwc : wf_classes (to_classes (s_ks s))) by (unfold wf_classes; rewrite to_classes_names; exact Hk).
  split; intros (i & Hf & Hv); exists i; (split; [exact Hf|]);
    apply (is_valid_iff_selected c _ i Hc Hwc (HW i (find_ingress_In _ _ _ Hf))); exact Hv.
Qed.

(* the four readings asked for, as corollaries of the exact characterisation: an
   existing ingress is converted after a reconciliation iff it is selected now *)
Corollary selected_now_is_converted c ks0 ops extra i :
  wf_cfg c -> NoDup (map k_name ks0) -> Forall wf_op ops ->
  let s := run2 c ks0 (ops ++ [ISwap extra]) in
  find_ingress (s_objs s) (i_name i) = Some i ->
  (selected c (to_classes (s_ks s)) i <-> In (i_name i) (map fst (s_view s))).
Proof.
  intros Hc Hnd Hw. cbn zeta. intros Hf. rewrite (view_tracks_selection_ic c ks0 ops extra (i_name i) Hc Hnd Hw).
  split; [intros H; exists i; auto|intros (j & Hj & Hs); rewrite Hf in Hj; injection Hj as <-; exact Hs].
Qed.

(* a non trivial history: IngressClass hap deleted, re-created for another controller,
   then handed back to this controller; a/i1 depends on it, a/i2 does not, a/i3 names a
   class that never exists. The views after the five reconciliations: *)
Example class_deleted_then_recreated :
  let c := {| c_class := "haproxy"; c_controller := "ctl"; c_watch := false; c_prec := false |} in
  let mk n a k := {| i_name := n; i_ann := a; i_cls := k; i_oann := 0; i_spec := 0; i_gen := 0; i_rv := 0 |} in
  let kc ctrl p m := {| k_name := "hap"; k_ctrl := ctrl; k_params := p; k_meta := m; k_gen := 0 |} in
  let ops := [IPut (mk "a/i1" None (Some "hap")); IPut (mk "a/i2" (Some "haproxy") None);
              IPut (mk "a/i3" None (Some "none")); ISwap [];
              KDel "hap"; ISwap [];
              KPut (kc "other" 0 0)%N; ISwap [];
              KPut (kc "ctl" 0 1)%N; KPut (kc "ctl" 1 1)%N; ISwap [];
              KPut (kc "ctl" 1 0)%N; IPut (mk "a/i2" (Some "nginx") None); ISwap []] in
  map (fun x => (snd (fst x), snd x)) (s_obs (run2 c [(kc "ctl" 0 0)%N] ops)) =
  [(["a/i1"; "a/i2"], ["a/i1"]); (["a/i2"], []); (["a/i2"], []); (["a/i2"; "a/i1"], ["a/i1"]); (["a/i1"], ["a/i1"])].
Proof. vm_compute. reflexivity. Qed.
