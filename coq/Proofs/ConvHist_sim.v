(* Per-host simulation of two syncs (for the general step theorem of Proofs/ConvHist.v).

   What a run of syncIngress does to one host h -- its content, and the Service-Host links
   it tracks for h -- depends on the state of h only, on which paths of h are not skipped
   (a state-of-h matter as well) and, for those, on the backend id the world resolves them
   to.  R h x1 x2: the two states agree at h and every Service-h link of x2 is in x1.

   sync_ingress_sim / fold_sync_sim: runs of the same ingresses in two worlds stay in R,
   provided the paths on h whose Service-h link ends up in the first run's tracker
   resolve alike in both worlds (and the tls blocks naming h have the same hash).
   fold_filter_R_l / _r: ingresses that do not declare h can be dropped from a run. *)
From Coq Require Import List Bool String ZArith Lia Relations.
From HI Require Import Model.Tracker Model.Conv Proofs.Tracker Proofs.IncSync Proofs.Conv
                       Proofs.ConvSort Proofs.ConvHist_base Proofs.ConvHist_keys.
Import ListNotations.
Open Scope string_scope.

Definition hsvc (n h : string) : node * node := ((KService, n), (KHost, h)).

Definition R (h : string) (x1 x2 : st) : Prop :=
  agree h x1 x2 /\ forall n, In (hsvc n h) (snd x2) -> In (hsvc n h) (snd x1).

Lemma R_refl h x : R h x x.
Proof. split; [reflexivity|auto]. Qed.

Lemma R_trans h x y z : R h x y -> R h y z -> R h x z.
Proof. intros [A1 L1] [A2 L2]. split; [unfold agree in *; congruence|auto]. Qed.

(* a path is not skipped: the host exists and has no path with that uri and match type *)
Definition nonskip (x : st) (hn : string) (r : prule) : Prop :=
  exists hr, get_host (fst x) hn = Some hr /\ has_path hr (uri_of r) (r_type r) = false.

Lemma nonskip_agree hn x1 x2 r : agree hn x1 x2 -> nonskip x2 hn r -> nonskip x1 hn r.
Proof. intros Ha (hr & Hg & Hp). exists hr. split; [rewrite (get_host_agree hn x1 x2 Ha); exact Hg|exact Hp]. Qed.

(* ---------- which Service-Host links a step adds ---------- *)
Lemma add_backend_svc_iff w i hn r x n h :
  In (hsvc n h) (snd (fst (add_backend w i hn r x))) <->
  In (hsvc n h) (snd x) \/ (h = hn /\ n = i_ns i ++ "/" ++ r_svc r).
Proof.
  destruct x as [s T]. unfold add_backend. cbn [snd].
  assert (H1 : In (hsvc n h) (track (track T (KService, i_ns i ++ "/" ++ r_svc r) (KHost, hn))
                                    (KEndpoints, i_ns i ++ "/" ++ r_svc r) (KHost, hn)) <->
               In (hsvc n h) T \/ (h = hn /\ n = i_ns i ++ "/" ++ r_svc r)).
  { unfold track, hsvc. cbn [In]. split.
    - intros [H|[H|[H|[H|H]]]]; try discriminate; [|left; exact H].
      injection H as <- <-. right. split; reflexivity.
    - intros [H|[-> ->]]; [do 4 right; exact H|right; right; left; reflexivity]. }
  destruct (find_svc w _) as [svc|]; [|exact H1].
  destruct (pick_port svc _) as [p|]; [|exact H1].
  cbn [fst snd]. rewrite <- H1. unfold track at 1, hsvc. cbn [In]. split.
  - intros [H|[H|H]]; try discriminate. exact H.
  - intros H. right. right. exact H.
Qed.

Lemma sync_path_svc_iff w i hn x r n h :
  In (hsvc n h) (snd (sync_path w i hn x r)) <->
  In (hsvc n h) (snd x) \/ (h = hn /\ n = i_ns i ++ "/" ++ r_svc r /\ nonskip x hn r).
Proof.
  unfold sync_path, nonskip. destruct (get_host (fst x) hn) as [hr|] eqn:E.
  - destruct (has_path hr _ _) eqn:Ehp.
    + split; [intros H; left; exact H|]. intros [H|(_ & _ & hr' & Hg & Hp)]; [exact H|].
      injection Hg as <-. unfold uri_of in Hp. congruence.
    + pose proof (add_backend_svc_iff w i hn r x n h) as Hb.
      destruct (add_backend w i hn r x) as [x1 ob]. cbn [fst] in Hb.
      assert (Hfin : In (hsvc n h) (snd x1) <->
                     In (hsvc n h) (snd x) \/ (h = hn /\ n = i_ns i ++ "/" ++ r_svc r /\
                       exists hr0, Some hr = Some hr0 /\ has_path hr0 (uri_of r) (r_type r) = false)).
      { rewrite Hb. split; intros [H|H]; [left; exact H| |left; exact H|right; tauto].
        right. destruct H as [H1 H2]. repeat split; [exact H1|exact H2|]. exists hr. split; [reflexivity|exact Ehp]. }
      destruct ob as [bid|]; [|exact Hfin]. destruct x1 as [s1 T1].
      destruct (get_host s1 hn); exact Hfin.
  - split; [intros H; left; exact H|]. intros [H|(_ & _ & hr' & Hg & _)]; [exact H|discriminate].
Qed.

Lemma add_host_svc_iff i hn x n h : In (hsvc n h) (snd (add_host i hn x)) <-> In (hsvc n h) (snd x).
Proof.
  rewrite add_host_snd. unfold track, hsvc. cbn [In]. split.
  - intros [H|[H|H]]; try discriminate. exact H.
  - intros H. right. right. exact H.
Qed.

Lemma tls_of_snd w i sec T :
  snd (tls_of w i sec T) = if String.eqb sec "" then T
                           else track T (KIngress, i_full i) (KSecret, i_ns i ++ "/" ++ sec).
Proof. unfold tls_of. destruct (String.eqb sec ""); [reflexivity|]. destruct (assoc _ _); reflexivity. Qed.

Lemma sync_tls_host_svc_iff w i sec x hn n h :
  In (hsvc n h) (snd (sync_tls_host w i sec x hn)) <-> In (hsvc n h) (snd x).
Proof.
  rewrite sync_tls_host_snd, tls_of_snd. destruct (String.eqb sec "").
  - unfold track, hsvc. cbn [In]. split; [intros [H|[H|H]]; try discriminate; exact H|intros H; right; right; exact H].
  - unfold track, hsvc. cbn [In]. split; [intros [H|[H|[H|[H|H]]]]; try discriminate; exact H|intros H; do 4 right; exact H].
Qed.

(* ---------- new links of a fold ---------- *)
Lemma fold_new {A} (e : node * node) (f : st -> A -> st) (Pa : A -> Prop) l :
  (forall x a, In a l -> In e (snd (f x a)) -> In e (snd x) \/ Pa a) ->
  forall x, In e (snd (fold_left f l x)) -> In e (snd x) \/ exists a, In a l /\ Pa a.
Proof.
  induction l as [|a l IH]; intros Hf x H; cbn [fold_left] in H; [left; exact H|].
  destruct (IH (fun y c Hc => Hf y c (or_intror Hc)) _ H) as [H1|(c & Hc & Hp)].
  - destruct (Hf x a (or_introl eq_refl) H1) as [H2|H2]; [left; exact H2|right; exists a; split; [left; reflexivity|exact H2]].
  - right. exists c. split; [right; exact Hc|exact Hp].
Qed.

Lemma sync_rule_new_svc w i x rule n h :
  In (hsvc n h) (snd (sync_rule w i x rule)) -> In (hsvc n h) (snd x) \/ h = norm_host (fst rule).
Proof.
  unfold sync_rule. intros H.
  apply (fold_new (hsvc n h) (sync_path w i (norm_host (fst rule))) (fun _ => h = norm_host (fst rule))) in H.
  - destruct H as [H|(_ & _ & H)]; [|right; exact H]. apply add_host_svc_iff in H.
    destruct (i_class i); [|left; exact H]. cbn [snd] in H. unfold track, hsvc in H. cbn [In] in H.
    destruct H as [H|[H|H]]; try discriminate. left. exact H.
  - intros y r _ Hy. apply sync_path_svc_iff in Hy. destruct Hy as [Hy|(Hy & _)]; [left; exact Hy|right; exact Hy].
Qed.

Lemma sync_tls_new_svc w i x blk n h : In (hsvc n h) (snd (sync_tls w i x blk)) -> In (hsvc n h) (snd x).
Proof.
  unfold sync_tls. intros H.
  apply (fold_new (hsvc n h) (sync_tls_host w i (snd blk)) (fun _ => False)) in H.
  - destruct H as [H|(_ & _ & [])]. exact H.
  - intros y hn _ Hy. left. apply sync_tls_host_svc_iff in Hy. exact Hy.
Qed.

Lemma sync_ingress_new_svc w x i n h :
  In (hsvc n h) (snd (sync_ingress w x i)) -> In (hsvc n h) (snd x) \/ In h (declared i).
Proof.
  unfold sync_ingress. intros H.
  apply (fold_new (hsvc n h) (sync_tls w i) (fun _ => False)) in H.
  2:{ intros y blk _ Hy. left. apply sync_tls_new_svc in Hy. exact Hy. }
  destruct H as [H|(_ & _ & [])].
  apply (fold_new (hsvc n h) (sync_rule w i) (fun rule => h = norm_host (fst rule))) in H.
  - destruct H as [H|(rule & Hr & ->)]; [left; exact H|right; apply rule_host_declared; exact Hr].
  - intros y rule _ Hy. apply sync_rule_new_svc in Hy. exact Hy.
Qed.

(* ---------- simulation ---------- *)
Lemma sync_path_agree3 w w' i hn r x1 x2 h :
  (h = hn -> nonskip x1 hn r -> resolve w i r = resolve w' i r) ->
  agree h x1 x2 -> agree h (sync_path w i hn x1 r) (sync_path w' i hn x2 r).
Proof.
  intros Hres Ha. unfold agree. destruct (String.eqb_spec h hn) as [->|Hne];
    [|rewrite !sync_path_other by exact Hne; exact Ha].
  pose proof (get_host_agree hn x1 x2 Ha) as Hg. unfold sync_path. rewrite <- Hg.
  destruct (get_host (fst x1) hn) as [hr|] eqn:E1; [|exact Ha].
  destruct (has_path hr _ _) eqn:Ehp; [exact Ha|].
  assert (Hr : resolve w i r = resolve w' i r)
    by (apply Hres; [reflexivity|exists hr; split; [exact E1|exact Ehp]]).
  pose proof (add_backend_spec w i hn r x1) as [Ho1 Hh1].
  pose proof (add_backend_spec w' i hn r x2) as [Ho2 Hh2].
  destruct (add_backend w i hn r x1) as [[s1 T1] ob1]. destruct (add_backend w' i hn r x2) as [[s2 T2] ob2].
  cbn [fst snd] in *. subst ob1 ob2. rewrite Hr.
  destruct (resolve w' i r) as [bid|]; cbn [fst]; [|rewrite Hh1, Hh2; exact Ha].
  assert (Hg' : get_host s1 hn = get_host s2 hn) by (unfold get_host; rewrite Hh1, Hh2, Ha; reflexivity).
  rewrite Hg'. destruct (get_host s2 hn); cbn [fst]; [|rewrite Hh1, Hh2; exact Ha].
  rewrite !upd_same. reflexivity.
Qed.

Lemma sync_path_sim w w' i hn r x1 x2 h (Tfin : ctracker) :
  R h x1 x2 -> incl (snd (sync_path w i hn x1 r)) Tfin ->
  (h = hn -> In (svc_link i hn r) Tfin -> resolve w i r = resolve w' i r) ->
  R h (sync_path w i hn x1 r) (sync_path w' i hn x2 r).
Proof.
  intros [Ha Hl] Hincl Hres. split.
  - apply sync_path_agree3; [|exact Ha]. intros -> Hns. apply Hres; [reflexivity|].
    apply Hincl. apply (sync_path_svc_iff w i hn x1 r (i_ns i ++ "/" ++ r_svc r) hn).
    right. repeat split. exact Hns.
  - intros n Hn. apply sync_path_svc_iff in Hn. apply sync_path_svc_iff.
    destruct Hn as [Hn|(-> & -> & Hns)]; [left; apply Hl; exact Hn|].
    right. repeat split. eapply nonskip_agree; eassumption.
Qed.

Lemma fold_sim {A} (f g : st -> A -> st) (l : list A) h (Tfin : ctracker) :
  (forall x a, sgrows x (f x a)) ->
  (forall a x1 x2, In a l -> R h x1 x2 -> incl (snd (f x1 a)) Tfin -> R h (f x1 a) (g x2 a)) ->
  forall x1 x2, R h x1 x2 -> incl (snd (fold_left f l x1)) Tfin ->
    R h (fold_left f l x1) (fold_left g l x2).
Proof.
  intros Hgr. induction l as [|a l IH]; intros Hstep x1 x2 HR Hincl; cbn [fold_left] in *; [exact HR|].
  apply IH; [intros; apply Hstep; [right|..]; assumption| |exact Hincl].
  apply Hstep; [left; reflexivity|exact HR|].
  eapply incl_tran; [|exact Hincl].
  apply (proj1 (fold_rel sgrows f l sgrows_refl sgrows_trans (fun y c _ => Hgr y c) (f x1 a))).
Qed.

Lemma fold_R {A} (f g : st -> A -> st) (l : list A) h :
  (forall a x1 x2, In a l -> R h x1 x2 -> R h (f x1 a) (g x2 a)) ->
  forall x1 x2, R h x1 x2 -> R h (fold_left f l x1) (fold_left g l x2).
Proof.
  induction l as [|a l IH]; intros Hstep x1 x2 HR; cbn [fold_left]; [exact HR|].
  apply IH; [intros; apply Hstep; [right|]; assumption|]. apply Hstep; [left; reflexivity|exact HR].
Qed.

Lemma R_track h (x1 x2 y1 y2 : st) (a b : node) :
  agree h y1 y2 -> snd y1 = track (snd x1) a b -> snd y2 = track (snd x2) a b ->
  (forall n, In (hsvc n h) (snd x2) -> In (hsvc n h) (snd x1)) -> R h y1 y2.
Proof.
  intros Ha E1 E2 Hl. split; [exact Ha|]. intros n. rewrite E1, E2. unfold track. cbn [In].
  intros [H|[H|H]]; [left; exact H|right; left; exact H|right; right; apply Hl; exact H].
Qed.

Lemma sync_rule_sim w w' i rule x1 x2 h (Tfin : ctracker) :
  R h x1 x2 -> incl (snd (sync_rule w i x1 rule)) Tfin ->
  (h = norm_host (fst rule) -> forall r, In r (snd rule) ->
     In (svc_link i h r) Tfin -> resolve w i r = resolve w' i r) ->
  R h (sync_rule w i x1 rule) (sync_rule w' i x2 rule).
Proof.
  intros [Ha Hl] Hincl Hres. unfold sync_rule in *.
  apply (fold_sim (sync_path w i (norm_host (fst rule))) (sync_path w' i (norm_host (fst rule)))
           (snd rule) h Tfin).
  - intros; apply sync_path_sgrows.
  - intros r y1 y2 Hr HR Hi. apply (sync_path_sim w w' i _ r y1 y2 h Tfin HR Hi).
    intros E. rewrite <- E. apply Hres; assumption.
  - set (c1 := match i_class i with
               | Some c => (fst x1, track (snd x1) (KClass, c) (KIngress, i_full i)) | None => x1 end).
    set (c2 := match i_class i with
               | Some c => (fst x2, track (snd x2) (KClass, c) (KIngress, i_full i)) | None => x2 end).
    assert (Rc : R h c1 c2).
    { unfold c1, c2. destruct (i_class i) as [c|]; [|split; assumption].
      eapply R_track; [exact Ha|reflexivity|reflexivity|exact Hl]. }
    eapply R_track; [apply add_host_agree; exact (proj1 Rc)|apply add_host_snd|apply add_host_snd|exact (proj2 Rc)].
  - exact Hincl.
Qed.

Lemma sync_tls_host_sim w w' i sec hn x1 x2 h :
  R h x1 x2 -> (h = hn -> tls_hash w i sec = tls_hash w' i sec) ->
  R h (sync_tls_host w i sec x1 hn) (sync_tls_host w' i sec x2 hn).
Proof.
  intros [Ha Hl] Hh. split.
  - destruct (String.eqb_spec h hn) as [->|Hne].
    + apply sync_tls_host_agree2; [apply Hh; reflexivity|exact Ha].
    + unfold agree. rewrite !sync_tls_host_other by exact Hne. exact Ha.
  - intros n Hn. apply sync_tls_host_svc_iff in Hn. apply sync_tls_host_svc_iff. apply Hl. exact Hn.
Qed.

Lemma sync_tls_sim w w' i blk x1 x2 h :
  R h x1 x2 -> (In h (fst blk) -> tls_hash w i (snd blk) = tls_hash w' i (snd blk)) ->
  R h (sync_tls w i x1 blk) (sync_tls w' i x2 blk).
Proof.
  intros HR Hh. unfold sync_tls. apply fold_R; [|exact HR].
  intros hn y1 y2 Hin HRy. apply sync_tls_host_sim; [exact HRy|]. intros ->. apply Hh. exact Hin.
Qed.

(* the premises on one ingress, for host h *)
Definition res_ok (w w' : world) (h : string) (Tfin : ctracker) (i : ingress) : Prop :=
  (forall rule r, In rule (i_rules i) -> h = norm_host (fst rule) -> In r (snd rule) ->
     In (svc_link i h r) Tfin -> resolve w i r = resolve w' i r) /\
  (forall blk, In blk (i_tls i) -> In h (fst blk) ->
     tls_hash w i (snd blk) = tls_hash w' i (snd blk)).

Theorem sync_ingress_sim w w' i x1 x2 h (Tfin : ctracker) :
  R h x1 x2 -> incl (snd (sync_ingress w x1 i)) Tfin -> res_ok w w' h Tfin i ->
  R h (sync_ingress w x1 i) (sync_ingress w' x2 i).
Proof.
  intros HR Hincl [Hres Htls]. unfold sync_ingress in *.
  apply fold_R.
  - intros blk y1 y2 Hb HRy. apply sync_tls_sim; [exact HRy|]. intros Hh. apply Htls; assumption.
  - apply (fold_sim (sync_rule w i) (sync_rule w' i) (i_rules i) h Tfin).
    + intros; apply sync_rule_sgrows.
    + intros rule y1 y2 Hr HRy Hi. apply (sync_rule_sim w w' i rule y1 y2 h Tfin HRy Hi).
      intros E r0 Hr0. apply (Hres rule r0 Hr E Hr0).
    + exact HR.
    + eapply incl_tran; [|exact Hincl].
      match goal with |- incl (snd ?x0) (snd (fold_left ?g ?l ?x0)) =>
        apply (proj1 (fold_rel sgrows g l sgrows_refl sgrows_trans (fun y c _ => sync_tls_sgrows w i y c) x0))
      end.
Qed.

Theorem fold_sync_sim w w' l h (Tfin : ctracker) :
  (forall i, In i l -> res_ok w w' h Tfin i) ->
  forall x1 x2, R h x1 x2 -> incl (snd (fold_left (sync_ingress w) l x1)) Tfin ->
    R h (fold_left (sync_ingress w) l x1) (fold_left (sync_ingress w') l x2).
Proof.
  intros Hok. apply (fold_sim (sync_ingress w) (sync_ingress w') l h Tfin).
  - intros; apply sync_ingress_sgrows.
  - intros i y1 y2 Hi HRy Hincl. apply (sync_ingress_sim w w' i y1 y2 h Tfin HRy Hincl). apply Hok. exact Hi.
Qed.

Lemma res_ok_same w h Tfin i : res_ok w w h Tfin i.
Proof. split; intros; reflexivity. Qed.

Lemma sync_ingress_sim_same w i x1 x2 h : R h x1 x2 -> R h (sync_ingress w x1 i) (sync_ingress w x2 i).
Proof.
  intros HR. apply (sync_ingress_sim w w i x1 x2 h (snd (sync_ingress w x1 i)) HR (incl_refl _)).
  apply res_ok_same.
Qed.

(* ---------- ingresses that do not declare h can be dropped ---------- *)
Lemma fold_filter_R_l w l h : forall x1 x2, R h x1 x2 ->
  R h (fold_left (sync_ingress w) l x1)
      (fold_left (sync_ingress w) (filter (fun i => declares i h) l) x2).
Proof.
  induction l as [|i l IH]; intros x1 x2 HR; cbn [fold_left filter]; [exact HR|].
  destruct (declares i h) eqn:E; cbn [fold_left].
  - apply IH. apply sync_ingress_sim_same. exact HR.
  - apply IH. destruct HR as [Ha Hl]. split.
    + unfold agree. rewrite (sync_ingress_frame w i x1 h E). exact Ha.
    + intros n Hn. apply (proj1 (sync_ingress_sgrows w x1 i)). apply Hl. exact Hn.
Qed.

Lemma fold_filter_R_r w l h : forall x1 x2, R h x1 x2 ->
  R h (fold_left (sync_ingress w) (filter (fun i => declares i h) l) x1)
      (fold_left (sync_ingress w) l x2).
Proof.
  induction l as [|i l IH]; intros x1 x2 HR; cbn [fold_left filter]; [exact HR|].
  destruct (declares i h) eqn:E; cbn [fold_left].
  - apply IH. apply sync_ingress_sim_same. exact HR.
  - apply IH. destruct HR as [Ha Hl]. split.
    + unfold agree. rewrite (sync_ingress_frame w i x2 h E). exact Ha.
    + intros n Hn. apply sync_ingress_new_svc in Hn. destruct Hn as [Hn|Hn]; [apply Hl; exact Hn|].
      apply declares_In in Hn. congruence.
Qed.

(* a run of ingresses none of which declares h leaves h alone *)
Lemma fold_sync_frame w l x h :
  (forall i, In i l -> declares i h = false) ->
  fst (fold_left (sync_ingress w) l x) (THost h) = fst x (THost h).
Proof.
  revert x. induction l as [|i l IH]; intros x H; cbn [fold_left]; [reflexivity|].
  rewrite IH by (intros; apply H; right; assumption).
  apply sync_ingress_frame. apply H. left. reflexivity.
Qed.
