(* Proofs about Model/WatchLegacy.v *)
From Coq Require Import ZArith NArith List Bool String Lia.
From HI Require Import Model.WatchLegacy.
Import ListNotations.
Open Scope string_scope.
Open Scope list_scope.

(* ---------- what a segment of events leaves ---------- *)

Lemma fold_lnotify cfg evs : forall ch0,
  let ch := fold_left (lnotify cfg) evs ch0 in
  lc_desc ch = lc_desc ch0 ++ flat_map ldescr evs /\
  lc_full ch = lc_full ch0 || existsb lfull evs /\
  lc_gcur ch = lc_gcur ch0 /\ lc_tcur ch = lc_tcur ch0.
Proof.
  induction evs as [|e evs IH]; intros ch0; cbn zeta; cbn [fold_left flat_map existsb].
  - rewrite app_nil_r, orb_false_r. auto.
  - destruct (IH (lnotify cfg ch0 e)) as (Hd & Hf & Hg & Ht). cbn zeta in *.
    rewrite Hd, Hf, Hg, Ht. cbn [lnotify lc_desc lc_full lc_gcur lc_tcur].
    rewrite <- app_assoc, orb_assoc. auto.
Qed.

(* the ConfigMap data a Notify captures for the global (true) / tcp (false) ConfigMap *)
Definition lcm_new (cfg : lcfg) (global : bool) (e : levent) : bool :=
  match l_kind e, l_cur e with
  | LConfigMap, Some c =>
      if String.eqb (lkey c) (lg_key cfg) then global
      else if String.eqb (lkey c) (lt_key cfg) then negb global else false
  | _, _ => false
  end.
Definition lcm_data (e : levent) : option N :=
  match l_cur e with Some c => lo_data c | None => None end.
Definition llast_cm (cfg : lcfg) (global : bool) (evs : list levent) (acc : option N) : option N :=
  fold_left (fun acc e => if lcm_new cfg global e then lcm_data e else acc) evs acc.

Lemma lnotify_new cfg ch e :
  lc_gnew (lnotify cfg ch e) = (if lcm_new cfg true e then lcm_data e else lc_gnew ch) /\
  lc_tnew (lnotify cfg ch e) = (if lcm_new cfg false e then lcm_data e else lc_tnew ch).
Proof.
  unfold lnotify, lcm_new, lcm_data. cbn [lc_gnew lc_tnew].
  destruct (l_kind e), (l_cur e) as [c|]; try (split; reflexivity).
  destruct (String.eqb (lkey c) (lg_key cfg)); cbn [negb andb]; [split; reflexivity|].
  destruct (String.eqb (lkey c) (lt_key cfg)); split; reflexivity.
Qed.

Lemma fold_lnotify_new cfg evs : forall ch0,
  lc_gnew (fold_left (lnotify cfg) evs ch0) = llast_cm cfg true evs (lc_gnew ch0) /\
  lc_tnew (fold_left (lnotify cfg) evs ch0) = llast_cm cfg false evs (lc_tnew ch0).
Proof.
  unfold llast_cm. induction evs as [|e evs IH]; intros ch0; cbn [fold_left]; [auto|].
  destruct (IH (lnotify cfg ch0 e)) as (Hg & Ht). destruct (lnotify_new cfg ch0 e) as (Eg & Et).
  rewrite Hg, Ht, Eg, Et. auto.
Qed.

(* batch b holds exactly what the Notify calls of evs left *)
Record lcontent (cfg : lcfg) (evs : list levent) (b : lchg) : Prop := {
  (* every slice: exactly the objects the events appended to it, in order, nothing twice *)
  lct_desc : lc_desc b = flat_map ldescr evs;
  lct_full : lc_full b = existsb lfull evs;
  lct_gnew : lc_gnew b = llast_cm cfg true evs None;
  lct_tnew : lc_tnew b = llast_cm cfg false evs None
}.

Lemma lsummary_content cfg g t evs : lcontent cfg evs (lsummary cfg g t evs).
Proof.
  unfold lsummary. destruct (fold_lnotify cfg evs (linit g t)) as (Hd & Hf & _).
  destruct (fold_lnotify_new cfg evs (linit g t)) as (Hg & Ht).
  constructor; assumption.
Qed.

Lemma lsummary_cur cfg g t evs :
  lc_gcur (lsummary cfg g t evs) = g /\ lc_tcur (lsummary cfg g t evs) = t.
Proof.
  unfold lsummary. destruct (fold_lnotify cfg evs (linit g t)) as (_ & _ & Hg & Ht). auto.
Qed.

(* per slice: the Go slice named ln of the batch is the concatenation of what the events
   appended to that slice *)
Lemma llist_of_app ln a b : llist_of ln (a ++ b) = llist_of ln a ++ llist_of ln b.
Proof. unfold llist_of. now rewrite filter_app, map_app. Qed.

Lemma llist_of_flat ln evs :
  llist_of ln (flat_map ldescr evs) = flat_map (fun e => llist_of ln (ldescr e)) evs.
Proof.
  induction evs as [|e evs IH]; [reflexivity|]. cbn [flat_map]. now rewrite llist_of_app, IH.
Qed.

(* ---------- histories ---------- *)

Fixpoint ldeliver (cfg : lcfg) (g t : option N) (segs : list (list levent)) : list lchg :=
  match segs with
  | [] => []
  | s :: rest =>
      let b := lsummary cfg g t s in
      b :: ldeliver cfg (lcarry (lc_gcur b) (lc_gnew b)) (lcarry (lc_tcur b) (lc_tnew b)) rest
  end.

Fixpoint lcarried (cfg : lcfg) (g t : option N) (segs : list (list levent)) : option N * option N :=
  match segs with
  | [] => (g, t)
  | s :: rest =>
      let b := lsummary cfg g t s in
      lcarried cfg (lcarry (lc_gcur b) (lc_gnew b)) (lcarry (lc_tcur b) (lc_tnew b)) rest
  end.

Definition nonempty (l : list levent) : bool := match l with [] => false | _ => true end.

Lemma lrun_gen cfg steps : forall st g t cur,
  l_ch st = lsummary cfg g t cur -> l_clear st = negb (nonempty cur) ->
  let p := lsegments_from cur steps in
  let st' := fold_left (lstepf cfg) steps st in
  l_batches st' = l_batches st ++ ldeliver cfg g t (fst p) /\
  l_ch st' = lsummary cfg (fst (lcarried cfg g t (fst p))) (snd (lcarried cfg g t (fst p))) (snd p) /\
  l_clear st' = negb (nonempty (snd p)).
Proof.
  induction steps as [|s steps IH]; intros st g t cur Hch Hcl; cbn zeta.
  - cbn [lsegments_from fold_left fst snd ldeliver lcarried]. rewrite app_nil_r. auto.
  - destruct s as [e|]; cbn [fold_left lsegments_from].
    + specialize (IH (lstepf cfg st (LEv e)) g t (cur ++ [e])). cbn zeta in IH.
      destruct IH as (Hb & Hc & Hk).
      * cbn [lstepf l_ch]. rewrite Hch. unfold lsummary. now rewrite fold_left_app.
      * cbn [lstepf l_clear]. destruct cur; reflexivity.
      * split; [rewrite Hb; reflexivity|]. split; assumption.
    + cbn [fst snd ldeliver lcarried].
      specialize (IH (lstepf cfg st LSwap)
                     (lcarry (lc_gcur (l_ch st)) (lc_gnew (l_ch st)))
                     (lcarry (lc_tcur (l_ch st)) (lc_tnew (l_ch st))) []).
      cbn zeta in IH. destruct IH as (Hb & Hc & Hk); [reflexivity|reflexivity|].
      rewrite <- Hch. split; [|split; assumption].
      rewrite Hb. cbn [lstepf l_batches lswap fst]. now rewrite <- app_assoc.
Qed.

Lemma lrun_batches cfg steps :
  l_batches (lrun cfg steps) = ldeliver cfg None None (lsegments steps).
Proof. destruct (lrun_gen cfg steps l_init None None [] eq_refl eq_refl) as (H & _). exact H. Qed.

Lemma ldeliver_nth cfg segs : forall g t k b,
  nth_error (ldeliver cfg g t segs) k = Some b ->
  exists seg g' t', nth_error segs k = Some seg /\ b = lsummary cfg g' t' seg.
Proof.
  induction segs as [|s segs IH]; intros g t k b H; cbn [ldeliver] in H.
  - destruct k; discriminate.
  - destruct k as [|k]; cbn [nth_error] in *.
    + injection H as <-. eauto.
    + eapply IH; exact H.
Qed.

Lemma ldeliver_chain cfg segs : forall g t k b b',
  nth_error (ldeliver cfg g t segs) k = Some b ->
  nth_error (ldeliver cfg g t segs) (S k) = Some b' ->
  lc_gcur b' = lcarry (lc_gcur b) (lc_gnew b) /\ lc_tcur b' = lcarry (lc_tcur b) (lc_tnew b).
Proof.
  induction segs as [|s segs IH]; intros g t k b b' H H'; cbn [ldeliver] in H, H'.
  - destruct k; discriminate.
  - destruct k as [|k]; cbn [nth_error] in H, H'.
    + injection H as <-. destruct segs as [|s2 segs]; cbn [ldeliver nth_error] in H'; [discriminate|].
      injection H' as <-. apply lsummary_cur.
    + eapply IH; eassumption.
Qed.

Lemma lsegments_from_partition steps : forall cur,
  List.concat (fst (lsegments_from cur steps)) ++ snd (lsegments_from cur steps) = cur ++ levents_of steps.
Proof.
  induction steps as [|s steps IH]; intros cur; cbn [lsegments_from levents_of].
  - cbn [fst snd List.concat app]. now rewrite app_nil_r.
  - destruct s as [e|].
    + rewrite IH. now rewrite <- app_assoc.
    + cbn [fst snd List.concat]. rewrite <- app_assoc. f_equal. apply (IH []).
Qed.

(* ---------- main statements ---------- *)

Theorem legacy_segments_partition steps :
  List.concat (lsegments steps) ++ lopen_segment steps = levents_of steps.
Proof. apply (lsegments_from_partition steps []). Qed.

(* the k-th batch a reconciliation receives holds exactly what the Notify calls between swap
   k-1 and swap k left *)
Theorem legacy_batches_partition cfg steps k b :
  nth_error (l_batches (lrun cfg steps)) k = Some b ->
  exists seg, nth_error (lsegments steps) k = Some seg /\ lcontent cfg seg b.
Proof.
  rewrite lrun_batches. intros H.
  destruct (ldeliver_nth _ _ _ _ _ _ H) as (seg & g & t & Hs & ->).
  exists seg. split; [exact Hs|apply lsummary_content].
Qed.

(* slice by slice *)
Corollary legacy_batch_slices cfg steps k b seg ln :
  nth_error (l_batches (lrun cfg steps)) k = Some b ->
  nth_error (lsegments steps) k = Some seg ->
  llist_of ln (lc_desc b) = flat_map (fun e => llist_of ln (ldescr e)) seg.
Proof.
  intros Hb Hs. destruct (legacy_batches_partition cfg steps k b Hb) as (seg' & Hs' & C).
  rewrite Hs in Hs'. injection Hs' as <-. rewrite (lct_desc _ _ _ C). apply llist_of_flat.
Qed.

(* what arrived after the last swap is held for the next one, and the flag `clear` says
   whether there is anything *)
Theorem legacy_pending_not_lost cfg steps :
  lcontent cfg (lopen_segment steps) (l_ch (lrun cfg steps)) /\
  l_clear (lrun cfg steps) = negb (nonempty (lopen_segment steps)).
Proof.
  destruct (lrun_gen cfg steps l_init None None [] eq_refl eq_refl) as (_ & H & Hk).
  cbn zeta in H, Hk. split; [|exact Hk]. unfold lrun. rewrite H. apply lsummary_content.
Qed.

Theorem legacy_next_swap_delivers_pending cfg steps :
  l_batches (lrun cfg (steps ++ [LSwap])) = l_batches (lrun cfg steps) ++ [l_ch (lrun cfg steps)].
Proof. unfold lrun. rewrite fold_left_app. reflexivity. Qed.

Theorem legacy_configmap_chain cfg steps k b b' :
  nth_error (l_batches (lrun cfg steps)) k = Some b ->
  nth_error (l_batches (lrun cfg steps)) (S k) = Some b' ->
  lc_gcur b' = lcarry (lc_gcur b) (lc_gnew b) /\ lc_tcur b' = lcarry (lc_tcur b) (lc_tnew b).
Proof. rewrite lrun_batches. apply ldeliver_chain. Qed.

Theorem legacy_configmap_chain_first cfg steps b :
  nth_error (l_batches (lrun cfg steps)) 0 = Some b -> lc_gcur b = None /\ lc_tcur b = None.
Proof.
  rewrite lrun_batches. destruct (lsegments steps) as [|s segs]; cbn [ldeliver nth_error]; [discriminate|].
  intros [= <-]. apply lsummary_cur.
Qed.

(* the first Notify after a swap (or after the start) schedules the reconciliation, the
   following ones do not: one request per non-empty segment *)
Theorem legacy_notifications cfg steps :
  l_notifs (lrun cfg steps) =
  List.length (filter nonempty (lsegments steps ++ [lopen_segment steps])).
Proof.
  unfold lrun, lsegments, lopen_segment.
  assert (G : forall steps st cur, l_clear st = negb (nonempty cur) ->
            (l_notifs (fold_left (lstepf cfg) steps st) + (if nonempty cur then 1 else 0) =
             l_notifs st + List.length (filter nonempty (fst (lsegments_from cur steps) ++ [snd (lsegments_from cur steps)])))%nat).
  { clear steps. induction steps as [|s steps IH]; intros st cur Hc; cbn [fold_left lsegments_from].
    - cbn [fst snd app filter]. destruct (nonempty cur); cbn [List.length]; lia.
    - destruct s as [e|].
      + specialize (IH (lstepf cfg st (LEv e)) (cur ++ [e])).
        assert (Hn : nonempty (cur ++ [e]) = true) by (destruct cur; reflexivity).
        rewrite Hn in IH. cbn [lstepf l_clear l_notifs] in IH |- *. specialize (IH eq_refl).
        rewrite Hc in IH |- *. destruct (nonempty cur); cbn [negb] in IH |- *; lia.
      + specialize (IH (lstepf cfg st LSwap) [] eq_refl). cbn [nonempty lstepf l_notifs] in IH |- *.
        cbn [fst snd app filter]. destruct (nonempty cur); cbn [List.length]; lia. }
  specialize (G steps l_init [] eq_refl). cbn [nonempty l_init l_notifs] in G. lia.
Qed.

(* ---------- non-vacuity ---------- *)

Definition lex_obj (ns name : string) (id : N) (data : option N) : lobj :=
  {| lo_ns := ns; lo_name := name; lo_svc := ""; lo_id := id; lo_data := data |}.

Definition lex_history : list lstep :=
  let i1 := lex_obj "default" "app" 1 None in
  let i2 := lex_obj "default" "app" 2 None in
  let c1 := lex_obj "ingress" "cfg" 3 (Some 10%N) in
  let s1 := lex_obj "default" "tls" 4 None in
  [LEv {| l_kind := LIngress; l_old := None; l_cur := Some i1 |};
   LEv {| l_kind := LConfigMap; l_old := Some c1; l_cur := Some c1 |};
   LSwap;
   LEv {| l_kind := LSecret; l_old := Some s1; l_cur := None |};
   LEv {| l_kind := LIngress; l_old := Some i1; l_cur := Some i2 |};
   LSwap; LSwap].

Example lex_history_batches :
  map (fun b => (lc_gcur b, lc_gnew b, lobjects b, llinks "Ingress" b)) (l_batches (lrun {| lg_key := "ingress/cfg"; lt_key := "ingress/tcp" |} lex_history)) =
  [ (None, Some 10%N, ["update/global"; "add/Ingress:default/app"; "update/ConfigMap:ingress/cfg"], ["default/app"]);
    (Some 10%N, None, ["update/Ingress:default/app"; "del/Secret:default/tls"], ["default/app"]);
    (Some 10%N, None, [], []) ].
Proof. vm_compute. reflexivity. Qed.
