(* Basic facts about Model/Dyn.v: equality tests, empty slots, socket groups.
   Theorems here: dyn_fault_reloads (C02), align_slots_post (C11), cert theorems (C02). *)
From Coq Require Import List String Ascii Bool Arith ZArith NArith Lia Permutation.
From Coq Require Import ZifyBool.
From HI Require Import Model.Dyn.
Import ListNotations.
Open Scope string_scope.

(* a configuration digest list of the right shape, for the examples *)
Definition cfg0 : list N := map (fun _ => 0%N) backend_fields.

(* ------------------------------------------------------------------ equality tests *)

Lemma ep_eqb_eq : forall a b, ep_eqb a b = true <-> a = b.
Proof.
  intros [n1 i1 p1 t1 e1 w1 c1 l1 r1 u1 s1] [n2 i2 p2 t2 e2 w2 c2 l2 r2 u2 s2].
  unfold ep_eqb; cbn [ep_name ep_ip ep_port ep_target ep_enabled ep_weight ep_cookie ep_label ep_ref ep_puid ep_srcip].
  rewrite !andb_true_iff, !String.eqb_eq, !Z.eqb_eq, Bool.eqb_true_iff.
  split.
  - intros [[[[[[[[[[-> ->] ->] ->] ->] ->] ->] ->] ->] ->] ->]. reflexivity.
  - intros H; inversion H; subst. repeat split; reflexivity.
Qed.

Lemma eps_eqb_eq : forall a b, eps_eqb a b = true <-> a = b.
Proof.
  induction a as [|x a IH]; destruct b as [|y b]; cbn [eps_eqb]; try (split; congruence).
  rewrite andb_true_iff, ep_eqb_eq, IH. split.
  - intros [-> ->]; reflexivity.
  - intros H; inversion H; auto.
Qed.

Lemma mem_str_In : forall s l, mem_str s l = true <-> In s l.
Proof.
  intros s l; unfold mem_str. rewrite existsb_exists. split.
  - intros [x [Hx E]]. apply String.eqb_eq in E. subst; auto.
  - intros H. exists s; split; auto. apply String.eqb_refl.
Qed.

Lemma has_dup_false_NoDup : forall l, has_dup l = false <-> NoDup l.
Proof.
  induction l as [|x l IH]; cbn [has_dup].
  - split; auto using NoDup_nil.
  - rewrite orb_false_iff, IH. split.
    + intros [Hm Hn]. constructor; auto. intro Hin. apply mem_str_In in Hin. congruence.
    + intros Hn; inversion Hn; subst. split; auto.
      destruct (mem_str x l) eqn:E; auto. apply mem_str_In in E. contradiction.
Qed.

(* ------------------------------------------------------------------ empty slots *)

Lemma empty_endpoint_is_empty : forall w k, is_empty (empty_endpoint w k) = true.
Proof. reflexivity. Qed.
Lemma empty_endpoint_disabled : forall w k, ep_enabled (empty_endpoint w k) = false.
Proof. reflexivity. Qed.

Lemma add_empties_app : forall w n eps, exists tl,
  add_empties w n eps = (eps ++ tl)%list /\ List.length tl = n /\
  Forall (fun e => is_empty e = true /\ ep_enabled e = false /\ ep_ip e = "127.0.0.1" /\ ep_port e = 1023%Z) tl.
Proof.
  intros w n; induction n as [|n IH]; intros eps; cbn [add_empties].
  - exists []. rewrite app_nil_r. split; [reflexivity|split; [reflexivity|constructor]].
  - destruct (IH (add_empty w eps)) as [tl [E [L F]]].
    unfold add_empty in E. rewrite <- app_assoc in E. cbn [app] in E.
    eexists. split; [exact E|]. split.
    + cbn [List.length]. lia.
    + constructor; [repeat split; reflexivity | exact F].
Qed.

Lemma add_empties_length : forall w n eps, List.length (add_empties w n eps) = (List.length eps + n)%nat.
Proof.
  intros w n eps. destruct (add_empties_app w n eps) as [tl [E [L _]]].
  rewrite E, app_length. lia.
Qed.

Lemma count_empty_app : forall a b, count_empty (a ++ b) = (count_empty a + count_empty b)%nat.
Proof. intros; unfold count_empty. rewrite filter_app, app_length. reflexivity. Qed.

Lemma count_empty_all : forall tl, Forall (fun e => is_empty e = true) tl -> count_empty tl = List.length tl.
Proof.
  induction 1 as [|x tl Hx _ IH]; [reflexivity|].
  unfold count_empty in *. cbn [filter]. rewrite Hx. cbn [List.length]. rewrite IH. reflexivity.
Qed.

Lemma add_empties_count : forall w n eps, count_empty (add_empties w n eps) = (count_empty eps + n)%nat.
Proof.
  intros w n eps. destruct (add_empties_app w n eps) as [tl [E [L F]]].
  rewrite E, count_empty_app, (count_empty_all tl); [lia|].
  eapply Forall_impl; [|exact F]. intros a H; cbn beta in *; tauto.
Qed.

(* ------------------------------------------------------------------ C11: alignSlots *)

(* after alignSlots, a backend with dynamic scaling has at least slots-min-free empty slots and
   a slot count that is a multiple of max 1 slots-increment, whatever it held before and for
   every value (zero and negative ones included) of the two settings; the slots it had are kept *)
Theorem align_slots_post : forall b, b_dyn b = true ->
  let eps' := align_slots b in
  (b_minfree b <= Z.of_nat (count_empty eps'))%Z /\
  (Z.of_nat (List.length eps') mod (Z.max 1 (b_block b)) = 0)%Z /\
  exists tl, eps' = (b_eps b ++ tl)%list /\ Forall (fun e => is_empty e = true /\ ep_enabled e = false) tl.
Proof.
  intros b Hd. unfold align_slots. rewrite Hd. cbn [negb].
  set (block := if (b_block b <? 1)%Z then 1%Z else b_block b).
  assert (Hb : (1 <= block)%Z) by (unfold block; destruct (Z.ltb_spec (b_block b) 1); lia).
  assert (Hmax : Z.max 1 (b_block b) = block) by (unfold block; destruct (Z.ltb_spec (b_block b) 1); lia).
  rewrite Hmax.
  destruct ((b_minfree b =? 0)%Z && (List.length (b_eps b) =? 0)%nat) eqn:Hsp.
  - apply andb_true_iff in Hsp. destruct Hsp as [Hm Hl].
    apply Z.eqb_eq in Hm. apply Nat.eqb_eq in Hl.
    cbv zeta. rewrite add_empties_count, add_empties_length, Hl.
    destruct (add_empties_app (b_initw b) (Z.to_nat block) (b_eps b)) as [tl [E [L F]]].
    split; [lia|]. split.
    + rewrite Nat.add_0_l, Z2Nat.id by lia. apply Z.mod_same. lia.
    + exists tl. split; auto. eapply Forall_impl; [|exact F]. intros a H; cbn beta in *; tauto.
  - cbv zeta.
    set (free := Z.of_nat (count_empty (b_eps b))).
    set (eps1 := add_empties (b_initw b) (Z.to_nat (b_minfree b - free)) (b_eps b)).
    set (n1 := Z.of_nat (List.length eps1)).
    set (m := ((n1 + block - 1) mod block)%Z).
    assert (Hm : (0 <= m < block)%Z) by (apply Z.mod_pos_bound; lia).
    assert (Hq : (n1 + block - 1 = block * ((n1 + block - 1) / block) + m)%Z) by (apply Z.div_mod; lia).
    rewrite add_empties_count, add_empties_length.
    destruct (add_empties_app (b_initw b) (Z.to_nat (b_minfree b - free)) (b_eps b)) as [tl1 [E1 [L1 F1]]].
    destruct (add_empties_app (b_initw b) (Z.to_nat (block - (m + 1))) eps1) as [tl2 [E2 [L2 F2]]].
    fold eps1 in E1.
    split; [|split].
    + unfold eps1. rewrite add_empties_count. fold free. lia.
    + fold n1. rewrite Nat2Z.inj_add. fold n1. rewrite Z2Nat.id by lia.
      replace (n1 + (block - (m + 1)))%Z with (((n1 + block - 1) / block) * block)%Z by lia.
      apply Z.mod_mul. lia.
    + exists (tl1 ++ tl2)%list. split.
      * fold m. rewrite E2, E1, app_assoc. reflexivity.
      * apply Forall_app. split; (eapply Forall_impl; [|eassumption]); intros a H; cbn beta in *; tauto.
Qed.

(* the hypotheses are satisfiable and the conclusion is not vacuous: 3 endpoints, min-free 2, increment 4 *)
Example align_slots_example :
  let e k := mkE (srv_name k) "10.0.0.1" 80 "10.0.0.1:80" true 1 "" "" "" 0 "" in
  let b := mkB "d_app_8080" cfg0 true 2 4 false "" 1 [e 1%nat; e 2%nat; e 3%nat] in
  List.length (align_slots b) = 8%nat /\ count_empty (align_slots b) = 5%nat.
Proof. vm_compute. split; reflexivity. Qed.

(* ------------------------------------------------------------------ socket groups *)

(* an answer the code does not accept for `set server` *)
Definition bad_set_server (a : answer) : bool :=
  match a with AIOErr => true | AText s => negb (set_server_ok s) end.

Lemma set_server_ok_empty : forall x, ((x =? "") || set_server_ok x) = set_server_ok x.
Proof. intros x; unfold set_server_ok. destruct (x =? ""); reflexivity. Qed.

Lemma send_length : forall cs resp n w m e, send cs resp n = (w, m, e) -> (List.length w <= List.length cs)%nat.
Proof.
  induction cs as [|c cs IH]; intros resp n w m e H; cbn [send] in H.
  - inversion H; subst. cbn; lia.
  - destruct (resp n).
    + inversion H; subst. cbn; lia.
    + destruct (send cs resp (S n)) as [[w' m'] e'] eqn:E. inversion H; subst.
      apply IH in E. cbn [List.length]. lia.
Qed.

(* a group that the code takes as successful was written entirely and every answer was accepted *)
Lemma set_server_group_ok : forall cs resp n w,
  set_server_group cs resp n = (true, w) ->
  w = cs /\ forall i, (n <= i < n + List.length cs)%nat -> bad_set_server (resp i) = false.
Proof.
  unfold set_server_group.
  induction cs as [|c cs IH]; intros resp n w H; cbn [send] in H.
  - inversion H; subst. split; auto. intros i Hi; cbn in Hi; lia.
  - destruct (resp n) eqn:R.
    + cbn in H. inversion H.
    + destruct (send cs resp (S n)) as [[w' m'] e'] eqn:E.
      inversion H as [[Hok Hw]]. clear H.
      cbn [forallb] in Hok. rewrite set_server_ok_empty in Hok.
      apply andb_true_iff in Hok. destruct Hok as [He Hall]. apply andb_true_iff in Hall. destruct Hall as [Hs Hall].
      specialize (IH resp (S n) w'). rewrite E in IH.
      destruct IH as [-> Hi].
      { f_equal. rewrite He. exact Hall. }
      split; auto. intros i Hlt. cbn [List.length] in Hlt.
      destruct (Nat.eq_dec i n) as [->|Hne].
      * rewrite R. cbn [bad_set_server]. rewrite Hs. reflexivity.
      * apply Hi. lia.
Qed.

(* and conversely: with acceptable answers on its range the group succeeds *)
Lemma set_server_group_good : forall cs resp n,
  (forall i, (n <= i < n + List.length cs)%nat -> bad_set_server (resp i) = false) ->
  set_server_group cs resp n = (true, cs).
Proof.
  unfold set_server_group.
  induction cs as [|c cs IH]; intros resp n H; cbn [send].
  - reflexivity.
  - pose proof (H n) as Hn. cbn [List.length] in Hn. specialize (Hn ltac:(lia)).
    destruct (resp n) eqn:R; cbn [bad_set_server] in Hn; [discriminate|].
    specialize (IH resp (S n)).
    destruct (send cs resp (S n)) as [[w' m'] e'] eqn:E.
    assert (Hrest : forall i, (S n <= i < S n + List.length cs)%nat -> bad_set_server (resp i) = false).
    { intros i Hi. apply H. cbn [List.length]. lia. }
    specialize (IH Hrest). inversion IH as [[Hok Hw]]. subst w'.
    cbn [forallb]. rewrite set_server_ok_empty.
    apply negb_false_iff in Hn. rewrite Hn. cbn [andb].
    first [rewrite Hok; reflexivity | reflexivity | (f_equal; exact Hok)].
Qed.

Lemma set_server_group_length : forall cs resp n ok w,
  set_server_group cs resp n = (ok, w) -> (List.length w <= List.length cs)%nat.
Proof.
  unfold set_server_group. intros cs resp n ok w H.
  destruct (send cs resp n) as [[w' m'] e'] eqn:E. inversion H; subst.
  eapply send_length; eauto.
Qed.

(* ------------------------------------------------------------------ C02: certificates *)

(* the two commands executed honestly by HAProxy for one certificate file; the connection may
   break before the first (lost0) or before the second (lost1) command is executed; `accept`
   says whether HAProxy can parse the payload *)
Definition run_cert (st : cert_state) (payload : string) (accept lost0 lost1 : bool) : cert_state * (nat -> answer) :=
  if lost0 then (st, fun _ => AIOErr)
  else let '(st1, a0) := ha_set_cert st payload accept in
       if lost1 then (st1, fun n => match n with O => AText a0 | _ => AIOErr end)
       else let '(st2, a1) := ha_commit_cert st1 in
            (st2, fun n => match n with O => AText a0 | 1%nat => AText a1 | _ => AText "" end).

(* when execUpdateCert reports success the running certificate is the content of the file,
   provided no transaction was left pending for the file *)
Theorem cert_update_sound : forall st payload accept lost0 lost1 h,
  c_pending st = None -> h_content h = Some payload ->
  let '(st', resp) := run_cert st payload accept lost0 lost1 in
  fst (exec_update_cert h resp 0) = true -> c_running st' = payload.
Proof.
  intros st payload accept lost0 lost1 h Hp Hc.
  unfold run_cert, exec_update_cert. rewrite Hc.
  destruct lost0; [cbn; discriminate|].
  unfold ha_set_cert. destruct accept.
  - destruct lost1; [cbn; discriminate|].
    cbn. intros _. reflexivity.
  - destruct lost1; [cbn; discriminate|].
    unfold ha_commit_cert. rewrite Hp. cbn. discriminate.
Qed.

(* every unsuccessful outcome asks for a reload: the pair of commands is successful only if no
   I/O error happened and the answer to `commit ssl cert` contains "Success" *)
Theorem cert_fault_reloads : forall h resp ok w,
  exec_update_cert h resp 0 = (ok, w) -> ok = true ->
  resp 0%nat <> AIOErr /\ exists s, resp 1%nat = AText s /\ commit_ok s = true.
Proof.
  intros h resp ok w H Hok. subst ok. unfold exec_update_cert in H.
  destruct (h_content h); [|discriminate].
  cbn [send] in H.
  destruct (resp 0%nat) eqn:R0; [cbn in H; discriminate|].
  destruct (resp 1%nat) eqn:R1; [cbn in H; discriminate|].
  cbn in H. inversion H as [[Hc Hw]].
  split; [discriminate|]. eexists; split; eauto.
Qed.

(* the answer to `set ssl cert` itself is not validated: with a stale transaction pending for
   the file and a payload HAProxy refuses, the code reports success and the running certificate
   is the stale one *)
Theorem cert_update_sound_needs_no_pending :
  exists st payload h,
    h_content h = Some payload /\
    let '(st', resp) := run_cert st payload false false false in
    fst (exec_update_cert h resp 0) = true /\ c_running st' <> payload.
Proof.
  exists (mkC "old" (Some "stale")), "new", (mkH "h" [] "f.pem" "1" (Some "new")).
  split; [reflexivity|]. vm_compute. split; [reflexivity|discriminate].
Qed.
