(* Backend-scoped annotation keys of Model/ConvAnn.v, base lemmas.

   When no path is skipped as redeclared -- the paths being synced have pairwise distinct
   (host, path, match type) keys, none of which is in the state yet: the [covered] machinery
   of Proofs/ConvHist_keys.v -- what a run of syncIngress contributes to the mapper of a
   backend is a static function of the ingresses: bentries.  (kfold_eq / fold_async_back)
   In the same situation every path that resolves gets its Ingress-Backend link and its
   backend exists afterwards (fold_sync_blinks). *)
From Coq Require Import List Bool String ZArith Lia Relations Permutation.
From HI Require Import Model.Tracker Model.Conv Model.ConvAnn Proofs.Tracker Proofs.IncSync Proofs.Conv
                       Proofs.ConvSort Proofs.ConvHist_base Proofs.ConvHist_keys Proofs.ConvHist_sim
                       Proofs.ConvBack Proofs.ConvHist Proofs.ConvAnn Proofs.ConvAnn_hist.
Import ListNotations.
Open Scope string_scope.
Open Scope list_scope.

(* ---------- the contributions to one backend ---------- *)
Definition bentry (w : aworld) (i : ingress) (hn : string) (r : prule) (bid : string) : list (plink * amap) :=
  match resolve (aw_base w) i r with
  | Some b => if String.eqb b bid
              then [((hn, uri_of r, r_type r), sann w (i_ns i ++ "/" ++ r_svc r) ++ snd (iann w i))]
              else []
  | None => []
  end.
Definition rentries (w : aworld) (i : ingress) (bid : string) (rule : string * list prule) : list (plink * amap) :=
  flat_map (fun r => bentry w i (norm_host (fst rule)) r bid) (snd rule).
Definition bentries (w : aworld) (bid : string) (i : ingress) : list (plink * amap) :=
  flat_map (rentries w i bid) (i_rules i).

Definition run_b (es : list (plink * amap)) (r : arec) : arec :=
  if ar_new r then fold_left (fun r e => add_pcfg (fst e) (snd e) r) es r else r.

Definition cfgs (r : arec) : amap * list (plink * amap) := (ar_cfg r, ar_pcfg r).

Lemma fold_add_pcfg_new es : forall r, ar_new (fold_left (fun r e => add_pcfg (fst e) (snd e) r) es r) = ar_new r.
Proof. induction es as [|a es IH]; intros r; cbn; [reflexivity|]. rewrite IH. reflexivity. Qed.

Lemma fold_add_pcfg_cfgs es : forall r,
  cfgs (fold_left (fun r e => add_pcfg (fst e) (snd e) r) es r)
  = (ar_cfg r ++ List.concat (map snd es), ar_pcfg r ++ es).
Proof.
  induction es as [|[l0 m0] es IH]; intros r; cbn [fold_left map List.concat]; [unfold cfgs; rewrite !app_nil_r; reflexivity|].
  rewrite IH. cbn [add_pcfg ar_cfg ar_pcfg fst snd]. rewrite <- !app_assoc. reflexivity.
Qed.

Lemma run_b_nil r : run_b [] r = r.
Proof. unfold run_b. destruct (ar_new r); reflexivity. Qed.

Lemma run_b_app e1 e2 r : run_b (e1 ++ e2) r = run_b e2 (run_b e1 r).
Proof.
  unfold run_b at 1 3. destruct (ar_new r) eqn:E.
  - unfold run_b. rewrite fold_add_pcfg_new, E, fold_left_app. reflexivity.
  - unfold run_b. rewrite E. reflexivity.
Qed.

Lemma run_b_cfgs es r :
  cfgs (run_b es r) = if ar_new r then (ar_cfg r ++ List.concat (map snd es), ar_pcfg r ++ es) else cfgs r.
Proof. unfold run_b. destruct (ar_new r); [apply fold_add_pcfg_cfgs|reflexivity]. Qed.

(* ---------- path level ---------- *)
Lemma a_add_host_back w i hn A bid : a_add_host w i hn A (TBack bid) = A (TBack bid).
Proof. unfold a_add_host. apply contribute_other. discriminate. Qed.

Lemma a_sync_path_back P w i hn x A r bid :
  covered P x -> get_host (fst x) hn <> None -> (forall k, In k [pkey hn r] -> ~ P k) ->
  a_sync_path w i hn x A r (TBack bid) = run_b (bentry w i hn r bid) (A (TBack bid)).
Proof.
  intros Hc Hpres Hfresh. unfold a_sync_path, bentry.
  destruct (get_host (fst x) hn) as [hr|] eqn:E; [|contradiction].
  destruct (has_path hr _ _) eqn:Ehp.
  - exfalso. unfold has_path in Ehp. apply existsb_exists in Ehp as (p & Hp & He).
    apply andb_true_iff in He as [He1 He2]. apply String.eqb_eq in He1. apply ptype_eqb_eq in He2.
    apply (Hfresh (pkey hn r) (or_introl eq_refl)).
    pose proof (Hc hn hr p E Hp) as Hk. unfold pkey, uri_of. rewrite <- He1, <- He2. exact Hk.
  - rewrite (proj1 (add_backend_spec (aw_base w) i hn r x)).
    destruct (resolve (aw_base w) i r) as [b|]; [|rewrite run_b_nil; reflexivity].
    destruct (String.eqb_spec b bid) as [->|Hne].
    + rewrite contribute_same. unfold run_b. cbn [fold_left fst snd uri_of].
      destruct (ar_new (A (TBack bid))); reflexivity.
    + rewrite contribute_other by congruence. rewrite run_b_nil. reflexivity.
Qed.

(* ---------- folds of keyed steps, equational on the store at one backend ---------- *)
Section KeyedA.
  Context {A : Type}.
  Variables (f : ast -> A -> ast) (g : st -> A -> st) (K : A -> list key) (Q : st -> Prop)
            (Ent : A -> list (plink * amap)) (t : tgt).
  Hypothesis f_fst : forall y a, fst (f y a) = g (fst y) a.
  Hypothesis g_cov : forall P x a, covered P x -> covered (fun k => P k \/ In k (K a)) (g x a).
  Hypothesis g_Q : forall x a, Q x -> Q (g x a).
  Hypothesis f_eq : forall P y a, covered P (fst y) -> Q (fst y) -> NoDup (K a) ->
    (forall k, In k (K a) -> ~ P k) -> snd (f y a) t = run_b (Ent a) (snd y t).

  Lemma kfold_eq l : forall P y,
    covered P (fst y) -> Q (fst y) -> NoDup (flat_map K l) -> (forall k, In k (flat_map K l) -> ~ P k) ->
    snd (fold_left f l y) t = run_b (flat_map Ent l) (snd y t).
  Proof.
    induction l as [|a l IH]; intros P y Hc HQ Hnd Hf; cbn [fold_left flat_map]; [rewrite run_b_nil; reflexivity|].
    cbn [flat_map] in Hnd, Hf. destruct (NoDup_app_inv _ _ Hnd) as (Hka & Hkl & Hdis).
    rewrite (IH (fun k => P k \/ In k (K a))).
    - rewrite (f_eq P y a Hc HQ Hka), run_b_app; [reflexivity|].
      intros k Hk. apply Hf. apply in_or_app. left. exact Hk.
    - rewrite f_fst. apply g_cov. exact Hc.
    - rewrite f_fst. apply g_Q. exact HQ.
    - exact Hkl.
    - intros k Hk [Hp|Hin]; [apply (Hf k); [apply in_or_app; right; exact Hk|exact Hp]|exact (Hdis k Hin Hk)].
  Qed.
End KeyedA.

Lemma async_rule_back P w i y rule bid :
  covered P (fst y) -> NoDup (rule_keys rule) -> (forall k, In k (rule_keys rule) -> ~ P k) ->
  snd (async_rule w i y rule) (TBack bid) = run_b (rentries w i bid rule) (snd y (TBack bid)).
Proof.
  intros Hc Hnd Hf. unfold async_rule, rentries. cbv zeta.
  rewrite (kfold_eq (async_path w i (norm_host (fst rule))) (sync_path (aw_base w) i (norm_host (fst rule)))
             (fun r => [pkey (norm_host (fst rule)) r])
             (fun x => get_host (fst x) (norm_host (fst rule)) <> None)
             (fun r => bentry w i (norm_host (fst rule)) r bid) (TBack bid)) with (P := P).
  - cbn [snd]. rewrite a_add_host_back. reflexivity.
  - intros; reflexivity.
  - intros P0 x r. apply sync_path_covered.
  - intros x r. apply sync_path_present.
  - intros P0 y0 r Hc0 Hq _ Hf0. unfold async_path. cbn [snd]. eapply a_sync_path_back; eassumption.
  - cbn [fst]. apply add_host_covered. apply class_step_covered. exact Hc.
  - cbn [fst]. apply add_host_present.
  - exact Hnd.
  - exact Hf.
Qed.

Lemma async_tls_back w i y blk bid : snd (async_tls w i y blk) (TBack bid) = snd y (TBack bid).
Proof.
  unfold async_tls. generalize (fst blk) as l. intros l. revert y.
  induction l as [|hn l IH]; intros y; cbn [fold_left]; [reflexivity|].
  rewrite IH. unfold async_tls_host. cbn [snd]. apply a_add_host_back.
Qed.

Lemma fold_async_tls_back w i l bid : forall y, snd (fold_left (async_tls w i) l y) (TBack bid) = snd y (TBack bid).
Proof. induction l as [|blk l IH]; intros y; cbn [fold_left]; [reflexivity|]. rewrite IH. apply async_tls_back. Qed.

Lemma async_ingress_back P w y i bid :
  covered P (fst y) -> NoDup (ing_keys i) -> (forall k, In k (ing_keys i) -> ~ P k) ->
  snd (async_ingress w y i) (TBack bid) = run_b (bentries w bid i) (snd y (TBack bid)).
Proof.
  intros Hc Hnd Hf. unfold async_ingress, bentries. rewrite fold_async_tls_back.
  apply (kfold_eq (async_rule w i) (sync_rule (aw_base w) i) rule_keys (fun _ => True)
           (rentries w i bid) (TBack bid)) with (P := P).
  - intros; apply async_rule_fst.
  - intros P0 x rule. apply sync_rule_covered.
  - intros; exact I.
  - intros P0 y0 rule Hc0 _ Hnd0 Hf0. eapply async_rule_back; eassumption.
  - exact Hc.
  - exact I.
  - exact Hnd.
  - exact Hf.
Qed.

Theorem fold_async_back P w l y bid :
  covered P (fst y) -> NoDup (flat_map ing_keys l) -> (forall k, In k (flat_map ing_keys l) -> ~ P k) ->
  snd (fold_left (async_ingress w) l y) (TBack bid) = run_b (flat_map (bentries w bid) l) (snd y (TBack bid)).
Proof.
  intros Hc Hnd Hf.
  apply (kfold_eq (async_ingress w) (sync_ingress (aw_base w)) ing_keys (fun _ => True)
           (bentries w bid) (TBack bid)) with (P := P).
  - intros; apply async_ingress_fst.
  - intros P0 x i. apply sync_ingress_covered.
  - intros; exact I.
  - intros P0 y0 i Hc0 _ Hnd0 Hf0. eapply async_ingress_back; eassumption.
  - exact Hc.
  - exact I.
  - exact Hnd.
  - exact Hf.
Qed.

(* ---------- Ingress-Backend links and existence of the backends ---------- *)
Definition blinked (e : string * string) (x : st) : Prop :=
  In ((KIngress, fst e), (KBackend, snd e)) (snd x) /\ get_back (fst x) (snd e) <> None.

Lemma add_backend_acq w i hn r x bid : snd (add_backend w i hn r x) = Some bid ->
  blinked (i_full i, bid) (fst (add_backend w i hn r x)).
Proof.
  destruct x as [s T]. unfold add_backend, blinked. cbn [fst snd].
  destruct (find_svc w _) as [svc|]; [|discriminate].
  destruct (pick_port svc _) as [p|]; [|discriminate].
  cbn [fst snd]. intros H. injection H as <-. split; [apply track_In|].
  destruct (get_back s _) eqn:E; [rewrite E; discriminate|].
  rewrite get_back_upd_back, String.eqb_refl. discriminate.
Qed.

Lemma add_backend_back_keep w i hn r x b : get_back (fst x) b <> None ->
  get_back (fst (fst (add_backend w i hn r x))) b <> None.
Proof.
  destruct x as [s T]. unfold add_backend. cbn [fst].
  destruct (find_svc w _) as [svc|]; [|auto].
  destruct (pick_port svc _) as [p|]; [|auto]. cbn [fst].
  destruct (get_back s (backend_id _ _ _)) eqn:E; [auto|].
  intros H. rewrite get_back_upd_back. destruct (String.eqb b _); [discriminate|exact H].
Qed.

Lemma sync_path_back_keep w i hn x r b : get_back (fst x) b <> None -> get_back (fst (sync_path w i hn x r)) b <> None.
Proof.
  intros H. unfold sync_path. destruct (get_host (fst x) hn); [|exact H].
  destruct (has_path _ _ _); [exact H|].
  pose proof (add_backend_back_keep w i hn r x b H) as H1.
  destruct (add_backend w i hn r x) as [x1 ob]. cbn [fst] in H1.
  destruct ob; [|exact H1]. destruct x1 as [s1 T1]. cbn [fst] in *.
  destruct (get_host s1 hn); [|exact H1]. cbn [fst]. rewrite get_back_upd_host. exact H1.
Qed.

Lemma blinked_keep_path w i hn x r e : blinked e x -> blinked e (sync_path w i hn x r).
Proof. intros [H1 H2]. split; [apply (proj1 (sync_path_sgrows w i hn x r)); exact H1|apply sync_path_back_keep; exact H2]. Qed.

Lemma sync_rule_back_keep w i x rule b : get_back (fst x) b <> None -> get_back (fst (sync_rule w i x rule)) b <> None.
Proof.
  intros H. unfold sync_rule. apply fold_pres; [intros; apply sync_path_back_keep; assumption|].
  rewrite add_host_get_back. destruct (i_class i); exact H.
Qed.

Lemma sync_tls_host_back_keep w i sec x hn b :
  get_back (fst x) b <> None -> get_back (fst (sync_tls_host w i sec x hn)) b <> None.
Proof.
  intros H. unfold sync_tls_host. pose proof (add_host_get_back i hn x b) as Hg.
  destruct (add_host i hn x) as [s1 T1]. cbn [fst] in Hg. destruct (tls_of w i sec T1) as [hash T2].
  destruct (get_host s1 hn) as [hr|]; [|cbn [fst]; rewrite Hg; exact H].
  destruct (h_tls hr); cbn [fst]; [rewrite Hg; exact H|]. rewrite get_back_upd_host, Hg. exact H.
Qed.

Lemma sync_ingress_back_keep w x i b : get_back (fst x) b <> None -> get_back (fst (sync_ingress w x i)) b <> None.
Proof.
  intros H. unfold sync_ingress.
  apply fold_pres; [intros y blk _ Hy; unfold sync_tls; apply fold_pres; [intros; apply sync_tls_host_back_keep; assumption|exact Hy]|].
  apply fold_pres; [intros; apply sync_rule_back_keep; assumption|exact H].
Qed.

Lemma blinked_keep w x i e : blinked e x -> blinked e (sync_ingress w x i).
Proof. intros [H1 H2]. split; [apply (proj1 (sync_ingress_sgrows w x i)); exact H1|apply sync_ingress_back_keep; exact H2]. Qed.

Lemma sync_path_blinked P w i hn x r bid :
  covered P x -> get_host (fst x) hn <> None -> (forall k, In k [pkey hn r] -> ~ P k) ->
  resolve w i r = Some bid -> blinked (i_full i, bid) (sync_path w i hn x r).
Proof.
  intros Hc Hpres Hfresh Hres. unfold sync_path.
  destruct (get_host (fst x) hn) as [hr|] eqn:E; [|contradiction].
  destruct (has_path hr _ _) eqn:Ehp.
  - exfalso. unfold has_path in Ehp. apply existsb_exists in Ehp as (p & Hp & He).
    apply andb_true_iff in He as [He1 He2]. apply String.eqb_eq in He1. apply ptype_eqb_eq in He2.
    apply (Hfresh (pkey hn r) (or_introl eq_refl)).
    pose proof (Hc hn hr p E Hp) as Hk. unfold pkey, uri_of. rewrite <- He1, <- He2. exact Hk.
  - pose proof (add_backend_acq w i hn r x bid) as Ha.
    rewrite (proj1 (add_backend_spec w i hn r x)) in Ha. specialize (Ha Hres).
    pose proof (proj1 (add_backend_spec w i hn r x)) as Hs. rewrite Hres in Hs.
    destruct (add_backend w i hn r x) as [x1 ob]. cbn [fst snd] in *. subst ob.
    destruct x1 as [s1 T1]. destruct (get_host s1 hn); [|exact Ha].
    destruct Ha as [H1 H2]. split; [exact H1|]. cbn [fst snd] in *. rewrite get_back_upd_host. exact H2.
Qed.

(* the same fold argument as kfold_links, for a property of the state that steps preserve *)
Section KeyedP.
  Context {A E : Type}.
  Variables (f : st -> A -> st) (K : A -> list key) (Q : st -> Prop) (L : A -> E -> Prop) (Pr : E -> st -> Prop).
  Hypothesis f_cov : forall P x a, covered P x -> covered (fun k => P k \/ In k (K a)) (f x a).
  Hypothesis f_Q : forall x a, Q x -> Q (f x a).
  Hypothesis f_keep : forall e x a, Pr e x -> Pr e (f x a).
  Hypothesis f_est : forall P x a e, covered P x -> Q x -> NoDup (K a) ->
    (forall k, In k (K a) -> ~ P k) -> L a e -> Pr e (f x a).

  Lemma pfold_cov l : forall P x, covered P x -> covered (fun k => P k \/ In k (flat_map K l)) (fold_left f l x).
  Proof.
    induction l as [|a l IH]; intros P x Hc; cbn [fold_left flat_map].
    - eapply covered_mono; [|exact Hc]. intros; left; assumption.
    - eapply covered_mono; [|apply (IH _ _ (f_cov P x a Hc))].
      intros k [[Hk|Hk]|Hk]; [left; exact Hk|right; apply in_or_app; left; exact Hk|right; apply in_or_app; right; exact Hk].
  Qed.

  Lemma pfold_est l P x a e :
    covered P x -> Q x -> NoDup (flat_map K l) -> (forall k, In k (flat_map K l) -> ~ P k) ->
    In a l -> L a e -> Pr e (fold_left f l x).
  Proof.
    intros Hc HQ Hnd Hf Ha HL. apply in_split in Ha as (l1 & l2 & ->).
    rewrite fold_left_app. cbn [fold_left].
    apply (fold_pres (Pr e) f l2); [intros; apply f_keep; assumption|].
    destruct (nodup_flat_split K l1 a l2 Hnd) as [Hka Hdis].
    apply (f_est (fun k => P k \/ In k (flat_map K l1))); [apply pfold_cov; exact Hc|apply fold_pres; [intros; apply f_Q; assumption|exact HQ]|exact Hka| |exact HL].
    intros k Hk [Hp|Hin]; [|exact (Hdis k Hk Hin)].
    apply (Hf k); [|exact Hp]. rewrite flat_map_app. apply in_or_app. right. cbn [flat_map].
    apply in_or_app. left. exact Hk.
  Qed.
End KeyedP.

Lemma sync_rule_blinked P w i x rule r bid :
  covered P x -> NoDup (rule_keys rule) -> (forall k, In k (rule_keys rule) -> ~ P k) ->
  In r (snd rule) -> resolve w i r = Some bid -> blinked (i_full i, bid) (sync_rule w i x rule).
Proof.
  intros Hc Hnd Hf Hr Hres. unfold sync_rule.
  apply (pfold_est (sync_path w i (norm_host (fst rule))) (fun r => [pkey (norm_host (fst rule)) r])
           (fun y => get_host (fst y) (norm_host (fst rule)) <> None)
           (fun r e => resolve w i r = Some (snd e) /\ fst e = i_full i) blinked) with (P := P) (a := r).
  - intros P0 y a. apply sync_path_covered.
  - intros y a. apply sync_path_present.
  - intros e y a. apply blinked_keep_path.
  - intros P0 y a [n b0] Hc0 Hq _ Hf0 [Hres0 Hn]. cbn [fst snd] in *. subst n. eapply sync_path_blinked; eassumption.
  - apply add_host_covered. apply class_step_covered. exact Hc.
  - apply add_host_present.
  - exact Hnd.
  - exact Hf.
  - exact Hr.
  - split; [exact Hres|reflexivity].
Qed.

Lemma blinked_keep_rule w i x rule e : blinked e x -> blinked e (sync_rule w i x rule).
Proof. intros [H1 H2]. split; [apply (proj1 (sync_rule_sgrows w i x rule)); exact H1|apply sync_rule_back_keep; exact H2]. Qed.

Lemma sync_ingress_blinked P w x i rule r bid :
  covered P x -> NoDup (ing_keys i) -> (forall k, In k (ing_keys i) -> ~ P k) ->
  In rule (i_rules i) -> In r (snd rule) -> resolve w i r = Some bid ->
  blinked (i_full i, bid) (sync_ingress w x i).
Proof.
  intros Hc Hnd Hf Hrule Hr Hres. unfold sync_ingress.
  apply fold_pres.
  { intros y blk _ [H1 H2]. split; [apply (proj1 (sync_tls_sgrows w i y blk)); exact H1|].
    unfold sync_tls. apply fold_pres; [intros; apply sync_tls_host_back_keep; assumption|exact H2]. }
  apply (pfold_est (sync_rule w i) rule_keys (fun _ => True)
           (fun rule e => exists r, In r (snd rule) /\ resolve w i r = Some (snd e) /\ fst e = i_full i) blinked)
    with (P := P) (a := rule).
  - intros P0 y a. apply sync_rule_covered.
  - intros; exact I.
  - intros e y a. apply blinked_keep_rule.
  - intros P0 y a [n b0] Hc0 _ Hnd0 Hf0 (r0 & Hr0 & Hres0 & Hn). cbn [fst snd] in *. subst n.
    eapply sync_rule_blinked; eassumption.
  - exact Hc.
  - exact I.
  - exact Hnd.
  - exact Hf.
  - exact Hrule.
  - exists r. repeat split; assumption.
Qed.

Theorem fold_sync_blinked P w l x i rule r bid :
  covered P x -> NoDup (flat_map ing_keys l) -> (forall k, In k (flat_map ing_keys l) -> ~ P k) ->
  In i l -> In rule (i_rules i) -> In r (snd rule) -> resolve w i r = Some bid ->
  blinked (i_full i, bid) (fold_left (sync_ingress w) l x).
Proof.
  intros Hc Hnd Hf Hi Hrule Hr Hres.
  apply (pfold_est (sync_ingress w) ing_keys (fun _ => True)
           (fun i e => exists rule r, In rule (i_rules i) /\ In r (snd rule) /\ resolve w i r = Some (snd e) /\ fst e = i_full i)
           blinked) with (P := P) (a := i).
  - intros P0 y a. apply sync_ingress_covered.
  - intros; exact I.
  - intros e y a. apply blinked_keep.
  - intros P0 y a [n b0] Hc0 _ Hnd0 Hf0 (rule0 & r0 & Hrule0 & Hr0 & Hres0 & Hn). cbn [fst snd] in *. subst n.
    eapply sync_ingress_blinked; eassumption.
  - exact Hc.
  - exact I.
  - exact Hnd.
  - exact Hf.
  - exact Hi.
  - exists rule, r. repeat split; assumption.
Qed.

Lemma fold_sync_blinked_keep w l x e : blinked e x -> blinked e (fold_left (sync_ingress w) l x).
Proof. apply fold_pres. intros; apply blinked_keep; assumption. Qed.
