(* Model/ConvDB.v (Conv.v plus spec.defaultBackend):
   - conservative: on clusters and batches without any default backend it is Model/Conv.v
     (sync_full_d_lift, sync_partial_d_lift), so every theorem of Properties/C01_model.v
     transfers (history_general_lift, history_obs_lift);
   - the known finding C01/ingress-default-backend-not-pretracked is a behaviour of the
     model: default_backend_refuted (vm_compute), on the history the harness replays on the
     real code. *)
From Coq Require Import List Bool String ZArith Lia Relations Permutation.
From HI Require Import Model.Tracker Model.Conv Model.ConvDB Proofs.Tracker Proofs.IncSync Proofs.Conv
                       Proofs.ConvSort Proofs.ConvHist_base Proofs.ConvHist_keys Proofs.ConvHist_sim
                       Proofs.ConvBack Proofs.ConvHist.
Import ListNotations.
Open Scope string_scope.

(* ------------------------------------------------------------------ *)
(* ConvDB without default backends is Conv                              *)
(* ------------------------------------------------------------------ *)
Definition lift (i : ingress) : dingress := {| d_ing := i; d_db := None |}.
Definition lift_world (w : world) : dworld :=
  {| dw_ings := map lift (w_ings w); dw_svcs := w_svcs w; dw_eps := w_eps w; dw_secrets := w_secrets w |}.
Definition lift_batch (b : batch) : dbatch :=
  {| db_links := b_links b; db_add := map lift (b_add b); db_upd := map lift (b_upd b); db_del := b_del b |}.

Lemma base_lift_ext w : world_ext (base (lift_world w)) w.
Proof. repeat split. Qed.

Lemma map_d_ing_lift l : map d_ing (map lift l) = l.
Proof. rewrite map_map. apply map_id. Qed.

Lemma base_batch_lift b : base_batch (lift_batch b) = b.
Proof. destruct b. unfold base_batch, lift_batch. cbn. rewrite !map_d_ing_lift. reflexivity. Qed.

Lemma sync_dingress_lift w x i : sync_dingress w x (lift i) = sync_ingress w x i.
Proof. reflexivity. Qed.

Lemma dinsert_lift i l : dinsert (lift i) (map lift l) = map lift (insert_ing i l).
Proof.
  induction l as [|j r IH]; cbn; [reflexivity|].
  destruct (ing_ltb j i); cbn; [rewrite IH|]; reflexivity.
Qed.

Lemma dsort_lift l : dsort (map lift l) = map lift (sort_ings l).
Proof.
  unfold dsort, sort_ings. induction l as [|i l IH]; cbn [map fold_right]; [reflexivity|].
  rewrite IH. apply dinsert_lift.
Qed.

Lemma fold_left_map {A B S} (f : S -> B -> S) (g : A -> B) l : forall x,
  fold_left f (map g l) x = fold_left (fun y a => f y (g a)) l x.
Proof. induction l as [|a l IH]; intros x; cbn; [reflexivity|]. apply IH. Qed.

Lemma fold_sync_dingress_lift w w0 l x : world_ext w w0 ->
  fold_left (sync_dingress w) (map lift l) x = fold_left (sync_ingress w0) l x.
Proof.
  intros He. rewrite fold_left_map. apply fold_left_ext_in. intros y i _.
  rewrite sync_dingress_lift. apply sync_ingress_wext. exact He.
Qed.

Theorem sync_full_d_lift w : sync_full_d (lift_world w) = sync_full w.
Proof.
  unfold sync_full_d, sync_full. cbn [dw_ings lift_world]. rewrite dsort_lift.
  apply fold_sync_dingress_lift. apply base_lift_ext.
Qed.

Lemma find_backend_wext w1 w2 s i r : world_ext w1 w2 -> find_backend w1 s i r = find_backend w2 s i r.
Proof. intros (Hs & _ & _). unfold find_backend, find_svc. rewrite Hs. reflexivity. Qed.

Lemma track_added_ing_wext w1 w2 s T i : world_ext w1 w2 -> track_added_ing w1 s T i = track_added_ing w2 s T i.
Proof.
  intros He. unfold track_added_ing. f_equal. apply fold_left_ext_in. intros T0 rule _.
  apply fold_left_ext_in. intros T1 r _. rewrite (find_backend_wext w1 w2 s i r He). reflexivity.
Qed.

Lemma fold_track_added_d_lift w w0 s l T : world_ext w w0 ->
  fold_left (track_added_d w s) (map lift l) T = fold_left (track_added_ing w0 s) l T.
Proof.
  intros He. rewrite fold_left_map. apply fold_left_ext_in. intros T0 i _.
  unfold track_added_d. cbn [d_db d_ing lift]. apply track_added_ing_wext. exact He.
Qed.

Lemma find_map_lift (f : ingress -> bool) l :
  find (fun d => f (d_ing d)) (map lift l) = option_map lift (find f l).
Proof.
  induction l as [|i l IH]; cbn; [reflexivity|]. destruct (f i); [reflexivity|exact IH].
Qed.

Lemma existsb_map_lift (f : ingress -> bool) l : existsb (fun d => f (d_ing d)) (map lift l) = existsb f l.
Proof. induction l as [|i l IH]; cbn; [reflexivity|]. rewrite IH. reflexivity. Qed.

Lemma pick_d_lift w b n : pick_d (lift_world w) (lift_batch b) n = option_map lift (pick_ing w b n).
Proof.
  unfold pick_d, pick_ing, find_d, find_ing. cbn [db_del db_upd db_add lift_batch dw_ings lift_world].
  rewrite (existsb_map_lift (fun i => String.eqb (i_full i) n)).
  rewrite <- map_rev. rewrite !(find_map_lift (fun i => String.eqb (i_full i) n)).
  destruct (_ || _); [reflexivity|].
  destruct (find _ (rev (b_add b))); reflexivity.
Qed.

Lemma picked_lift w b names :
  flat_map (fun n => opt_list (pick_d (lift_world w) (lift_batch b) n)) names
  = map lift (flat_map (fun n => opt_list (pick_ing w b n)) names).
Proof.
  induction names as [|n r IH]; cbn [flat_map map]; [reflexivity|].
  rewrite map_app, IH, pick_d_lift. destruct (pick_ing w b n); reflexivity.
Qed.

Theorem sync_partial_d_lift w' x b : sync_partial_d (lift_world w') x (lift_batch b) = sync_partial w' x b.
Proof.
  destruct x as [s T]. unfold sync_partial_d, sync_partial.
  cbn [db_add db_upd db_links lift_batch]. rewrite <- map_app.
  rewrite (fold_track_added_d_lift (base (lift_world w')) w' s _ T (base_lift_ext w')).
  destruct (query_remove _ _ _) as [[out T2]|]; [|reflexivity].
  rewrite base_batch_lift, picked_lift, dsort_lift.
  rewrite (fold_sync_dingress_lift (base (lift_world w')) w' _ _ (base_lift_ext w')). reflexivity.
Qed.

(* histories *)
Fixpoint run_hist_d (x : st) (h : list (dbatch * dworld)) : option st :=
  match h with
  | [] => Some x
  | (b, w') :: r => match sync_partial_d w' x b with Some x' => run_hist_d x' r | None => None end
  end.

Fixpoint last_dw (w : dworld) (h : list (dbatch * dworld)) : dworld :=
  match h with [] => w | (_, w') :: r => last_dw w' r end.

Definition lift_hist (h : list (batch * world)) : list (dbatch * dworld) :=
  map (fun p => (lift_batch (fst p), lift_world (snd p))) h.

Lemma run_hist_d_lift h : forall x, run_hist_d x (lift_hist h) = run_hist x h.
Proof.
  induction h as [|[b w'] r IH]; intros x; cbn; [reflexivity|].
  rewrite sync_partial_d_lift. destruct (sync_partial w' x b); [apply IH|reflexivity].
Qed.

Lemma last_dw_lift h : forall w, last_dw (lift_world w) (lift_hist h) = lift_world (last_w w h).
Proof. induction h as [|[b w'] r IH]; intros w; cbn; [reflexivity|]. apply IH. Qed.

(* the theorems of Conv transfer to ConvDB on histories without default backends *)
Theorem history_general_lift w0 h :
  hist_ok_g w0 h ->
  exists x', run_hist_d (sync_full_d (lift_world w0)) (lift_hist h) = Some x' /\
             hosts_eq (fst x') (fst (sync_full_d (last_dw (lift_world w0) (lift_hist h)))).
Proof.
  intros Hh. rewrite sync_full_d_lift, run_hist_d_lift, last_dw_lift, sync_full_d_lift.
  apply model_history_general. exact Hh.
Qed.

Theorem history_obs_lift w0 h :
  hist_ok_o w0 h -> back_det (last_w w0 h) ->
  exists x', run_hist_d (sync_full_d (lift_world w0)) (lift_hist h) = Some x' /\
             forall hn, obs_host (fst x') hn
                        = obs_host (fst (sync_full_d (last_dw (lift_world w0) (lift_hist h)))) hn.
Proof.
  intros Hh Hd. rewrite sync_full_d_lift, run_hist_d_lift, last_dw_lift, sync_full_d_lift.
  apply model_history_obs; assumption.
Qed.

(* ------------------------------------------------------------------ *)
(* the known finding, on the model                                      *)
(* ------------------------------------------------------------------ *)
Open Scope Z_scope.
(* ns1/ing2 (created at 20) owns the root path of the default host through its
   spec.defaultBackend svc1:80; ns1/ing1 (created at 10, so before ing2 in sortIngress
   order) is created with spec.defaultBackend svc2:80. *)
Definition kf_svc1 := {| s_ns := "ns1"; s_name := "svc1"; s_ports := [ {| sp_name := "http"; sp_port := 80; sp_target := "8080" |} ] |}.
Definition kf_svc2 := {| s_ns := "ns1"; s_name := "svc2"; s_ports := [ {| sp_name := "http"; sp_port := 80; sp_target := "9090" |} ] |}.
Definition kf_eps := [("ns1/svc1", [ {| ss_name := "http"; ss_port := 8080; ss_ready := ["10.1.0.1"] |} ]);
                      ("ns1/svc2", [ {| ss_name := "http"; ss_port := 9090; ss_ready := ["10.1.0.2"] |} ])].
Definition kf_ing (name : string) (stamp : Z) (svc : string) : dingress :=
  {| d_ing := {| i_ns := "ns1"; i_name := name; i_stamp := stamp; i_class := None; i_rules := []; i_tls := [] |};
     d_db := Some (svc, "80") |}.
Definition kf_ing2 := kf_ing "ing2" 20 "svc1".
Definition kf_ing1 := kf_ing "ing1" 10 "svc2".
Definition kf_world (l : list dingress) : dworld :=
  {| dw_ings := l; dw_svcs := [kf_svc1; kf_svc2]; dw_eps := kf_eps; dw_secrets := [] |}.
Definition kf_w0 := kf_world [kf_ing2].
Definition kf_w1 := kf_world [kf_ing1; kf_ing2].
Definition kf_b1 := {| db_links := [(KIngress, "ns1/ing1")]; db_add := [kf_ing1]; db_upd := []; db_del := [] |}.

Definition obs_d (o : option st) (h : string) := match o with Some x => Some (obs_host (fst x) h) | None => None end.

(* the incremental state keeps the root path on ing2's service; a full sync gives it to ing1 *)
Theorem default_backend_refuted :
  obs_d (run_hist_d (sync_full_d kf_w0) [(kf_b1, kf_w1)]) "<default>"
    = Some (Some ([("/", Begin, [("10.1.0.1", 8080)])], None)) /\
  obs_d (Some (sync_full_d (last_dw kf_w0 [(kf_b1, kf_w1)]))) "<default>"
    = Some (Some ([("/", Begin, [("10.1.0.2", 9090)])], None)).
Proof. vm_compute. split; reflexivity. Qed.
