(* C01, executable witnesses (vm_compute) around Proofs/ConvHist.v:
   - boolean checkers for batch_ok (one event per object) and batch_wf (any events), so
     that concrete batches can be shown well formed;
   - the premises of model_partial_step are satisfiable (a concrete single-event step);
   - multi-event batches:
       (i)   an Ingress created and deleted within one batch,
       (ii)  an Ingress deleted and re-created within one batch,
       (ii') an Ingress created and updated within one batch,
       (iii) a Service whose port changes so that a path now resolves to a backend id
             that exists already and is used by an ingress that did not change.
     All of them are batch_wf, so model_partial_step_wf covers them; the examples
     evaluate them as well.
   - pick_ing_old / sync_partial_old: the choice of the object in syncPartial as /repo had it before the
     commits "an Ingress added and removed within one batch stayed configured" (e942d77)
     and "an Ingress added and updated within one batch was converted from the outdated
     added object" (703d978): the added object always wins.  It coincides with
     Model/Conv.sync_partial on every batch_ok batch, and is refuted on (i) and (ii'). *)
From Coq Require Import List Bool String ZArith Lia Relations.
From HI Require Import Model.Tracker Model.Conv Proofs.Tracker Proofs.IncSync Proofs.Conv
                       Proofs.ConvSort Proofs.ConvHist_base Proofs.ConvHist_keys Proofs.ConvHist.
Import ListNotations.
Open Scope string_scope.

(* ------------------------------------------------------------------ *)
(* a checker for batch_ok                                              *)
(* ------------------------------------------------------------------ *)
Definition ing_inb (i : ingress) (l : list ingress) : bool :=
  if in_dec ingress_eq_dec i l then true else false.

Lemma ing_inb_In i l : ing_inb i l = true <-> In i l.
Proof. unfold ing_inb. destruct (in_dec ingress_eq_dec i l); split; auto; discriminate. Qed.

Lemma ing_inb_false i l : ing_inb i l = false <-> ~ In i l.
Proof. unfold ing_inb. destruct (in_dec ingress_eq_dec i l); split; auto; try discriminate. intros; contradiction. Qed.

Fixpoint nodupb (l : list string) : bool :=
  match l with [] => true | x :: r => negb (namein x r) && nodupb r end.

Lemma nodupb_sound l : nodupb l = true -> NoDup l.
Proof.
  induction l as [|x r IH]; cbn [nodupb]; intros H; [constructor|].
  apply andb_true_iff in H as [Hx Hr]. apply negb_true_iff in Hx. apply namein_false in Hx.
  constructor; [exact Hx|apply IH; exact Hr].
Qed.

Definition batch_okb (w w' : world) (b : batch) : bool :=
  let nw := map i_full (w_ings w) in
  let nw' := map i_full (w_ings w') in
  nodupb nw && nodupb nw' &&
  forallb (fun i => ing_inb i (w_ings w') && negb (namein (i_full i) nw)) (b_add b) &&
  forallb (fun i => namein (i_full i) nw || ing_inb i (b_add b)) (w_ings w') &&
  forallb (fun i => ing_inb i (w_ings w') && namein (i_full i) nw && negb (ing_inb i (w_ings w))) (b_upd b) &&
  forallb (fun i => negb (namein (i_full i) nw) || ing_inb i (w_ings w) || ing_inb i (b_upd b)) (w_ings w') &&
  forallb (fun n => namein n nw && negb (namein n nw')) (b_del b) &&
  forallb (fun n => namein n nw' || namein n (b_del b)) nw &&
  forallb (fun i => mem node_eqb (KIngress, i_full i) (b_links b)) (b_add b ++ b_upd b) &&
  forallb (fun n => mem node_eqb (KIngress, n) (b_links b)) (b_del b).

Lemma batch_okb_sound w w' b : batch_okb w w' b = true -> batch_ok w w' b.
Proof.
  unfold batch_okb. intros H.
  apply andb_true_iff in H as [H L2]. apply andb_true_iff in H as [H L1].
  apply andb_true_iff in H as [H D2]. apply andb_true_iff in H as [H D1].
  apply andb_true_iff in H as [H U2]. apply andb_true_iff in H as [H U1].
  apply andb_true_iff in H as [H A2]. apply andb_true_iff in H as [H A1].
  apply andb_true_iff in H as [N1 N2].
  rewrite forallb_forall in L2, L1, D2, D1, U2, U1, A2, A1.
  constructor.
  - apply nodupb_sound. exact N1.
  - apply nodupb_sound. exact N2.
  - intros i. split.
    + intros Hi. apply A1 in Hi. apply andb_true_iff in Hi as [Ha Hb].
      apply ing_inb_In in Ha. apply negb_true_iff in Hb. apply namein_false in Hb. tauto.
    + intros [Hi Hn]. apply A2 in Hi. apply orb_true_iff in Hi as [Hc|Hc].
      * apply namein_In in Hc. contradiction.
      * apply ing_inb_In. exact Hc.
  - intros i. split.
    + intros Hi. apply U1 in Hi. apply andb_true_iff in Hi as [Hi Hc]. apply andb_true_iff in Hi as [Ha Hb].
      apply ing_inb_In in Ha. apply namein_In in Hb. apply negb_true_iff in Hc. apply ing_inb_false in Hc. tauto.
    + intros (Hi & Hn & Hw). apply U2 in Hi. apply orb_true_iff in Hi as [Hi|Hc].
      * apply orb_true_iff in Hi as [Hc|Hc].
        -- apply negb_true_iff in Hc. apply namein_false in Hc. contradiction.
        -- apply ing_inb_In in Hc. contradiction.
      * apply ing_inb_In. exact Hc.
  - intros n. split.
    + intros Hn. apply D1 in Hn. apply andb_true_iff in Hn as [Ha Hb].
      apply namein_In in Ha. apply negb_true_iff in Hb. apply namein_false in Hb. tauto.
    + intros [Hn Hc]. apply D2 in Hn. apply orb_true_iff in Hn as [Hd|Hd].
      * apply namein_In in Hd. contradiction.
      * apply namein_In. exact Hd.
  - intros i Hi. apply L1 in Hi. apply (mem_In node node_eqb node_eqb_spec). exact Hi.
  - intros n Hn. apply L2 in Hn. apply (mem_In node node_eqb node_eqb_spec). exact Hn.
Qed.

Definition batch_wfb (w w' : world) (b : batch) : bool :=
  let nw := map i_full (w_ings w) in
  let nw' := map i_full (w_ings w') in
  nodupb nw && nodupb nw' &&
  forallb (fun i => ing_inb i (w_ings w) || ing_inb i (b_add b) || ing_inb i (b_upd b)) (w_ings w') &&
  forallb (fun n => namein n nw' || namein n (b_del b)) nw &&
  forallb (fun n => negb (namein n nw') || namein n (map i_full (b_add b))) (b_del b) &&
  forallb (fun i => namein (i_full i) (b_del b) || namein (i_full i) (map i_full (b_upd b))
                    || ing_inb i (w_ings w')) (b_add b) &&
  forallb (fun i => mem node_eqb (KIngress, i_full i) (b_links b)) (b_add b ++ b_upd b) &&
  forallb (fun n => mem node_eqb (KIngress, n) (b_links b)) (b_del b).

Lemma batch_wfb_sound w w' b : batch_wfb w w' b = true -> batch_wf w w' b.
Proof.
  unfold batch_wfb. intros H.
  apply andb_true_iff in H as [H L2]. apply andb_true_iff in H as [H L1].
  apply andb_true_iff in H as [H A1]. apply andb_true_iff in H as [H R1].
  apply andb_true_iff in H as [H G1]. apply andb_true_iff in H as [H N0].
  apply andb_true_iff in H as [N1 N2].
  rewrite forallb_forall in L2, L1, A1, R1, G1, N0.
  constructor.
  - apply nodupb_sound. exact N1.
  - apply nodupb_sound. exact N2.
  - intros i Hi Hn. apply N0 in Hi. apply orb_true_iff in Hi as [Hi|Hi].
    + apply orb_true_iff in Hi as [Hi|Hi].
      * apply ing_inb_In in Hi. contradiction.
      * left. apply ing_inb_In. exact Hi.
    + right. apply ing_inb_In. exact Hi.
  - intros n Hn Hn'. apply G1 in Hn. apply orb_true_iff in Hn as [Hc|Hc].
    + apply namein_In in Hc. contradiction.
    + apply namein_In. exact Hc.
  - intros n Hn Hn'. apply R1 in Hn. apply orb_true_iff in Hn as [Hc|Hc].
    + apply negb_true_iff in Hc. apply namein_false in Hc. contradiction.
    + apply namein_In. exact Hc.
  - intros i Hi Hd Hu. apply A1 in Hi. apply orb_true_iff in Hi as [Hi|Hi].
    + apply orb_true_iff in Hi as [Hc|Hc]; apply namein_In in Hc; contradiction.
    + apply ing_inb_In. exact Hi.
  - intros i Hi. apply L1 in Hi. apply (mem_In node node_eqb node_eqb_spec). exact Hi.
  - intros n Hn. apply L2 in Hn. apply (mem_In node node_eqb node_eqb_spec). exact Hn.
Qed.

(* when services and secrets do not change, every ingress sees the same world *)
Lemma view_eq_same w w' i :
  w_svcs w = w_svcs w' -> w_secrets w = w_secrets w' -> view_eq w w' i.
Proof.
  intros Hs Hc. split.
  - intros rule r _ _. unfold resolve, find_svc. rewrite Hs. reflexivity.
  - intros blk _ _. unfold tls_hash, tls_of. rewrite Hc. reflexivity.
Qed.

Lemma H_view_same w w' x b :
  w_svcs w = w_svcs w' -> w_secrets w = w_secrets w' -> H_view w w' x b.
Proof. intros Hs Hc i _ _ _. apply view_eq_same; assumption. Qed.

(* ------------------------------------------------------------------ *)
(* the merge of syncPartial before the two fixes in /repo              *)
(* ------------------------------------------------------------------ *)
Definition pick_ing_old (w : world) (b : batch) (name : string) : option ingress :=
  match find (fun i => String.eqb (i_full i) name) (rev (b_add b)) with
  | Some i => Some i
  | None => find_ing w name
  end.

Definition sync_partial_old (w' : world) (x : st) (b : batch) : option st :=
  let '(s, T) := x in
  let T1 := fold_left (track_added_ing w' s) (b_add b ++ b_upd b) T in
  match query_remove node_eqb T1 (b_links b) with
  | None => None
  | Some (out, T2) =>
      let s1 := remove_all s out in
      let names := merge_names (names_of KIngress out) b in
      let ings := sort_ings (flat_map (fun n => opt_list (pick_ing_old w' b n)) names) in
      Some (fold_left (sync_ingress w') ings (s1, T2))
  end.

Lemma pick_ing_old_spec w w' b n i : batch_ok w w' b ->
  pick_ing_old w' b n = Some i <-> In i (w_ings w') /\ i_full i = n.
Proof.
  intros Hok. unfold pick_ing_old.
  destruct (find _ (rev (b_add b))) as [j|] eqn:E.
  - apply find_some in E as [Hin He]. apply in_rev in Hin. apply String.eqb_eq in He.
    assert (Hjw : In j (w_ings w')) by (apply (bo_add _ _ _ Hok) in Hin; tauto).
    split.
    + intros Hj. injection Hj as <-. split; assumption.
    + intros [Hi Hn]. f_equal.
      eapply NoDup_names_inj; [apply (bo_nodup' _ _ _ Hok)|exact Hjw|exact Hi|congruence].
  - apply find_ing_spec. apply (bo_nodup' _ _ _ Hok).
Qed.

Lemma pick_ing_old_eq w w' b n : batch_ok w w' b -> pick_ing_old w' b n = pick_ing w' b n.
Proof.
  intros Hok. pose proof (batch_ok_wf w w' b Hok) as Hwf.
  destruct (pick_ing_old w' b n) as [i|] eqn:E1; destruct (pick_ing w' b n) as [j|] eqn:E2.
  - apply (pick_ing_old_spec w w' b n i Hok) in E1. apply (pick_spec w w' b Hwf) in E1. congruence.
  - apply (pick_ing_old_spec w w' b n i Hok) in E1. apply (pick_spec w w' b Hwf) in E1. congruence.
  - apply (pick_spec w w' b Hwf) in E2. apply (pick_ing_old_spec w w' b n j Hok) in E2. congruence.
  - reflexivity.
Qed.

(* on batches with one event per object the two merges coincide: the defects of the old
   one need several events for one Ingress in a batch *)
Theorem sync_partial_old_eq w w' x b :
  batch_ok w w' b -> sync_partial_old w' x b = sync_partial w' x b.
Proof.
  intros Hok. destruct x as [s T]. unfold sync_partial_old, sync_partial.
  destruct (query_remove _ _ _) as [[out T2]|]; [|reflexivity].
  do 3 f_equal. apply flat_map_ext. intros n. rewrite (pick_ing_old_eq w w' b n Hok). reflexivity.
Qed.

(* ------------------------------------------------------------------ *)
(* concrete clusters                                                    *)
(* ------------------------------------------------------------------ *)
Open Scope Z_scope.

Definition r_a := {| r_path := "/"; r_type := Prefix; r_svc := "s"; r_port := "a" |}.
Definition r_b := {| r_path := "/"; r_type := Prefix; r_svc := "s"; r_port := "b" |}.
Definition mkI (name : string) (stamp : Z) (host : string) (r : prule) : ingress :=
  {| i_ns := "d"; i_name := name; i_stamp := stamp; i_class := None;
     i_rules := [(host, [r])]; i_tls := [] |}.
(* Service d/s: port a -> 8080, port b -> 9090; then port a is changed to target 9090 *)
Definition svc1 := {| s_ns := "d"; s_name := "s"; s_ports :=
   [ {| sp_name := "a"; sp_port := 80; sp_target := "8080" |};
     {| sp_name := "b"; sp_port := 81; sp_target := "9090" |} ] |}.
Definition svc2 := {| s_ns := "d"; s_name := "s"; s_ports :=
   [ {| sp_name := "a"; sp_port := 80; sp_target := "9090" |};
     {| sp_name := "b"; sp_port := 81; sp_target := "9090" |} ] |}.
Definition eps1 := [("d/s", [ {| ss_name := "a"; ss_port := 8080; ss_ready := ["10.0.0.1"] |};
                             {| ss_name := "b"; ss_port := 9090; ss_ready := ["10.0.0.2"] |} ])].
Definition ing_k := mkI "k" 0 "k.local" r_b.       (* never changes *)
Definition ing_i1 := mkI "i1" 1 "h1.local" r_a.
Definition ing_i1' := mkI "i1" 1 "h2.local" r_a.   (* i1 moved to another host *)
Definition ing_i1r := mkI "i1" 5 "h2.local" r_a.   (* i1 re-created later, other host *)
Definition W (ings : list ingress) (svc : service) : world :=
  {| w_ings := ings; w_svcs := [svc]; w_eps := eps1; w_secrets := [] |}.

Definition HS := ["k.local"; "h1.local"; "h2.local"].
Definition BS := ["d_s_8080"; "d_s_9090"].
Definition hosts_after (o : option st) : option (list (option hostrec)) :=
  match o with Some x => Some (map (get_host (fst x)) HS) | None => None end.
Definition backs_after (o : option st) : option (list (option backrec)) :=
  match o with Some x => Some (map (get_back (fst x)) BS) | None => None end.

(* ---- the premises of model_partial_step are satisfiable: i1 is updated ---- *)
Definition b_upd1 := {| b_links := [(KIngress, "d/i1")]; b_add := []; b_upd := [ing_i1']; b_del := [] |}.

Example step_premises_satisfiable :
  Inv (W [ing_k; ing_i1] svc1) (sync_full (W [ing_k; ing_i1] svc1)) /\
  batch_ok (W [ing_k; ing_i1] svc1) (W [ing_i1'; ing_k] svc1) b_upd1 /\
  H_view (W [ing_k; ing_i1] svc1) (W [ing_i1'; ing_k] svc1) (sync_full (W [ing_k; ing_i1] svc1)) b_upd1.
Proof.
  split; [apply sync_full_Inv|]. split.
  - apply batch_okb_sound. vm_compute. reflexivity.
  - apply H_view_same; reflexivity.
Qed.

Example step_example_result :
  hosts_after (sync_partial (W [ing_i1'; ing_k] svc1) (sync_full (W [ing_k; ing_i1] svc1)) b_upd1)
  = hosts_after (Some (sync_full (W [ing_i1'; ing_k] svc1))).
Proof. vm_compute. reflexivity. Qed.

(* ---- (i) created and deleted within one batch: the cluster does not change ---- *)
Definition b_add_del := {| b_links := [(KIngress, "d/i1")]; b_add := [ing_i1]; b_upd := []; b_del := ["d/i1"] |}.

Example multi_add_then_del_wf : batch_wf (W [ing_k] svc1) (W [ing_k] svc1) b_add_del.
Proof. apply batch_wfb_sound. vm_compute. reflexivity. Qed.

Example multi_add_then_del_ok :
  let w := W [ing_k] svc1 in
  hosts_after (sync_partial w (sync_full w) b_add_del) = hosts_after (Some (sync_full w)).
Proof. vm_compute. reflexivity. Qed.

(* The merge before the fix converts the added object although it is gone: host h1.local
   is configured, a full sync of the same cluster has no such host. *)
Example multi_add_then_del_old_refuted :
  let w := W [ing_k] svc1 in
  hosts_after (sync_partial_old w (sync_full w) b_add_del)
    = Some [get_host (fst (sync_full w)) "k.local";
            Some {| h_paths := [{| hp_path := "/"; hp_type := Prefix; hp_back := "d_s_8080" |}]; h_tls := None |};
            None] /\
  hosts_after (Some (sync_full w))
    = Some [get_host (fst (sync_full w)) "k.local"; None; None].
Proof. vm_compute. split; reflexivity. Qed.

(* ---- (ii) deleted and re-created within one batch ---- *)
Definition b_del_add := {| b_links := [(KIngress, "d/i1")]; b_add := [ing_i1r]; b_upd := []; b_del := ["d/i1"] |}.

Example multi_del_then_add_wf : batch_wf (W [ing_k; ing_i1] svc1) (W [ing_k; ing_i1r] svc1) b_del_add.
Proof. apply batch_wfb_sound. vm_compute. reflexivity. Qed.

Example multi_del_then_add_ok :
  let w := W [ing_k; ing_i1] svc1 in
  let w' := W [ing_k; ing_i1r] svc1 in
  hosts_after (sync_partial w' (sync_full w) b_del_add) = hosts_after (Some (sync_full w')) /\
  hosts_after (sync_partial_old w' (sync_full w) b_del_add) = hosts_after (Some (sync_full w')).
Proof. vm_compute. split; reflexivity. Qed.

(* ---- (ii') created and then updated within one batch: the added object is outdated ---- *)
Definition b_add_upd := {| b_links := [(KIngress, "d/i1")]; b_add := [ing_i1]; b_upd := [ing_i1']; b_del := [] |}.

Example multi_add_then_upd_wf : batch_wf (W [ing_k] svc1) (W [ing_k; ing_i1'] svc1) b_add_upd.
Proof. apply batch_wfb_sound. vm_compute. reflexivity. Qed.

Example multi_add_then_upd_ok :
  let w := W [ing_k] svc1 in
  let w' := W [ing_k; ing_i1'] svc1 in
  hosts_after (sync_partial w' (sync_full w) b_add_upd) = hosts_after (Some (sync_full w')).
Proof. vm_compute. reflexivity. Qed.

Example multi_add_then_upd_old_refuted :
  let w := W [ing_k] svc1 in
  let w' := W [ing_k; ing_i1'] svc1 in
  hosts_after (sync_partial_old w' (sync_full w) b_add_upd) <> hosts_after (Some (sync_full w')).
Proof. vm_compute. discriminate. Qed.

(* the three multi-event steps, by the theorem instead of by evaluation *)
Example multi_by_theorem :
  (exists x', sync_partial (W [ing_k] svc1) (sync_full (W [ing_k] svc1)) b_add_del = Some x' /\
              Inv (W [ing_k] svc1) x') /\
  (exists x', sync_partial (W [ing_k; ing_i1r] svc1) (sync_full (W [ing_k; ing_i1] svc1)) b_del_add = Some x' /\
              Inv (W [ing_k; ing_i1r] svc1) x') /\
  (exists x', sync_partial (W [ing_k; ing_i1'] svc1) (sync_full (W [ing_k] svc1)) b_add_upd = Some x' /\
              Inv (W [ing_k; ing_i1'] svc1) x').
Proof.
  split; [|split].
  - apply (model_partial_step_wf (W [ing_k] svc1)); [apply sync_full_Inv|apply multi_add_then_del_wf|apply H_view_same; reflexivity].
  - apply (model_partial_step_wf (W [ing_k; ing_i1] svc1)); [apply sync_full_Inv|apply multi_del_then_add_wf|apply H_view_same; reflexivity].
  - apply (model_partial_step_wf (W [ing_k] svc1)); [apply sync_full_Inv|apply multi_add_then_upd_wf|apply H_view_same; reflexivity].
Qed.

(* ---- (iii) Service port a now targets 9090: the path of i1 resolves to backend
        d_s_9090, which exists and is used by k (unchanged).  Both hosts are linked to
        the Service, both ingresses are re-synced: hosts and backends are those of a full
        sync. ---- *)
Definition b_svc := {| b_links := [(KService, "d/s")]; b_add := []; b_upd := []; b_del := [] |}.

Example multi_svc_port_hosts_ok :
  let w := W [ing_k; ing_i1] svc1 in
  let w' := W [ing_k; ing_i1] svc2 in
  hosts_after (sync_partial w' (sync_full w) b_svc) = hosts_after (Some (sync_full w')).
Proof. vm_compute. reflexivity. Qed.

Example multi_svc_port_backs_ok :
  let w := W [ing_k; ing_i1] svc1 in
  let w' := W [ing_k; ing_i1] svc2 in
  backs_after (sync_partial w' (sync_full w) b_svc) = backs_after (Some (sync_full w')) /\
  backs_after (Some (sync_full w')) = Some [None; Some {| b_servers := [("10.0.0.2", 9090)] |}].
Proof. vm_compute. split; reflexivity. Qed.

(* ------------------------------------------------------------------ *)
(* a checker for batch_links_ok, and a history for the general theorem *)
(* ------------------------------------------------------------------ *)
Definition opt_svc_eqb (a c : option service) : bool := if opt_service_eq_dec a c then true else false.
Definition opt_str_eqb (a c : option string) : bool := if opt_string_eq_dec a c then true else false.

Lemma find_svc_none w n : ~ In n (map s_full (w_svcs w)) -> find_svc w n = None.
Proof.
  intros Hn. unfold find_svc. destruct (find _ (w_svcs w)) as [sv|] eqn:E; [|reflexivity].
  apply find_some in E as [Hin He]. apply String.eqb_eq in He. exfalso. apply Hn. rewrite <- He. apply in_map. exact Hin.
Qed.

Lemma assoc_none {A} n (l : list (string * A)) : ~ In n (map fst l) -> assoc n l = None.
Proof.
  induction l as [|[k v] l IH]; cbn; intros Hn; [reflexivity|].
  destruct (String.eqb_spec n k) as [->|Hne]; [exfalso; apply Hn; left; reflexivity|].
  apply IH. intros Hc. apply Hn. right. exact Hc.
Qed.

Definition batch_links_okb (w w' : world) (b : batch) : bool :=
  forallb (fun n => opt_svc_eqb (find_svc w n) (find_svc w' n) || mem node_eqb (KService, n) (b_links b))
          (map s_full (w_svcs w) ++ map s_full (w_svcs w')) &&
  forallb (fun n => opt_str_eqb (assoc n (w_secrets w)) (assoc n (w_secrets w')) || mem node_eqb (KSecret, n) (b_links b))
          (map fst (w_secrets w) ++ map fst (w_secrets w')).

Lemma batch_links_okb_sound w w' b : batch_links_okb w w' b = true -> batch_links_ok w w' b.
Proof.
  unfold batch_links_okb. intros H. apply andb_true_iff in H as [H1 H2].
  rewrite forallb_forall in H1, H2. constructor.
  - intros n Hne.
    destruct (string_in_dec n (map s_full (w_svcs w) ++ map s_full (w_svcs w'))) as [Hin|Hin].
    + apply H1 in Hin. apply orb_true_iff in Hin as [Hc|Hc].
      * unfold opt_svc_eqb in Hc. destruct (opt_service_eq_dec _ _); [contradiction|discriminate].
      * apply (mem_In node node_eqb node_eqb_spec). exact Hc.
    + exfalso. apply Hne. rewrite !find_svc_none; [reflexivity| |];
        intros Hc; apply Hin; apply in_or_app; [right|left]; exact Hc.
  - intros n Hne.
    destruct (string_in_dec n (map fst (w_secrets w) ++ map fst (w_secrets w'))) as [Hin|Hin].
    + apply H2 in Hin. apply orb_true_iff in Hin as [Hc|Hc].
      * unfold opt_str_eqb in Hc. destruct (opt_string_eq_dec _ _); [contradiction|discriminate].
      * apply (mem_In node node_eqb node_eqb_spec). exact Hc.
    + exfalso. apply Hne. rewrite !assoc_none; [reflexivity| |];
        intros Hc; apply Hin; apply in_or_app; [right|left]; exact Hc.
Qed.

(* ing_r redeclares path / of host k.local (declared by the older ing_k): it is skipped as
   long as ing_k is there, and no Service-Host link is tracked for its Service d/t *)
Definition r_t := {| r_path := "/"; r_type := Prefix; r_svc := "t"; r_port := "" |}.
Definition ing_r := mkI "r" 3 "k.local" r_t.
Definition svc_t1 := {| s_ns := "d"; s_name := "t"; s_ports := [ {| sp_name := "x"; sp_port := 70; sp_target := "7070" |} ] |}.
Definition svc_t2 := {| s_ns := "d"; s_name := "t"; s_ports := [ {| sp_name := "x"; sp_port := 70; sp_target := "7171" |} ] |}.
Definition W2 (ings : list ingress) (svcs : list service) : world :=
  {| w_ings := ings; w_svcs := svcs; w_eps := eps1; w_secrets := [] |}.

(* step 1: Service d/t changes (only the skipped path reads it) and i1 is created;
   step 2: Service d/s changes its port a; step 3: ing_k is deleted, so the path of ing_r
   is not skipped any more *)
Definition gw0 := W2 [ing_k; ing_r] [svc1; svc_t1].
Definition gw1 := W2 [ing_k; ing_r; ing_i1] [svc1; svc_t2].
Definition gw2 := W2 [ing_k; ing_r; ing_i1] [svc2; svc_t2].
Definition gw3 := W2 [ing_r; ing_i1] [svc2; svc_t2].
Definition gb1 := {| b_links := [(KService, "d/t"); (KIngress, "d/i1")]; b_add := [ing_i1]; b_upd := []; b_del := [] |}.
Definition gb2 := {| b_links := [(KService, "d/s")]; b_add := []; b_upd := []; b_del := [] |}.
Definition gb3 := {| b_links := [(KIngress, "d/k")]; b_add := []; b_upd := []; b_del := ["d/k"] |}.
Definition ghist := [(gb1, gw1); (gb2, gw2); (gb3, gw3)].

Example general_history_ok : hist_ok_g gw0 ghist.
Proof.
  unfold ghist. cbn [hist_ok_g].
  refine (conj _ (conj _ (conj _ (conj _ (conj _ (conj _ I))))));
    first [apply batch_wfb_sound; vm_compute; reflexivity
          |apply batch_links_okb_sound; vm_compute; reflexivity].
Qed.

Example general_history_by_theorem :
  exists x', run_hist (sync_full gw0) ghist = Some x' /\ hosts_eq (fst x') (fst (sync_full gw3)).
Proof. exact (model_history_general gw0 ghist general_history_ok). Qed.

(* the same by evaluation, and it is not trivial: k.local ends with the path of ing_r *)
Example general_history_eval :
  hosts_after (run_hist (sync_full gw0) ghist) = hosts_after (Some (sync_full gw3)) /\
  get_host (fst (sync_full gw3)) "k.local"
    = Some {| h_paths := [{| hp_path := "/"; hp_type := Prefix; hp_back := "d_t_7171" |}]; h_tls := None |}.
Proof. vm_compute. split; reflexivity. Qed.

(* this history is outside the reach of model_history_tracked: a path is declared twice *)
Example general_history_redeclares : ~ no_redecl gw0.
Proof.
  unfold no_redecl. intros H. vm_compute in H. inversion H as [|? ? Hn _]. apply Hn. left. reflexivity.
Qed.

(* ------------------------------------------------------------------ *)
(* an updated ingress that was not tracked yet (/repo commit 3533ecf)  *)
(* ------------------------------------------------------------------ *)
(* the merge before that commit: the updated ingresses are converted only when the tracker
   finds them; and trackAddedIngress before commit 42edb61: the hosts of the rules only *)
Definition merge_names_old (dirty : list string) (b : batch) : list string :=
  let alive := fun n => negb (existsb (String.eqb n) (b_del b)) in
  dedup (filter alive dirty ++ map i_full (b_add b)).

Definition track_added_ing_old (w : world) (s : cstate) (T : ctracker) (i : ingress) : ctracker :=
  fold_left (fun T rule =>
    let T' := track T (KIngress, i_full i) (KHost, norm_host (fst rule)) in
    fold_left (fun T r =>
      match find_backend w s i r with
      | Some bid => track T (KIngress, i_full i) (KBackend, bid)
      | None => T
      end) (snd rule) T') (i_rules i) T.

Definition sync_partial_gen
    (trk : world -> cstate -> ctracker -> ingress -> ctracker)
    (mrg : list string -> batch -> list string) (w' : world) (x : st) (b : batch) : option st :=
  let '(s, T) := x in
  let T1 := fold_left (trk w' s) (b_add b ++ b_upd b) T in
  match query_remove node_eqb T1 (b_links b) with
  | None => None
  | Some (out, T2) =>
      let s1 := remove_all s out in
      let names := mrg (names_of KIngress out) b in
      let ings := sort_ings (flat_map (fun n => opt_list (pick_ing w' b n)) names) in
      Some (fold_left (sync_ingress w') ings (s1, T2))
  end.

Lemma sync_partial_gen_model w' x b :
  sync_partial_gen track_added_ing merge_names w' x b = sync_partial w' x b.
Proof. destruct x as [s T]. reflexivity. Qed.

(* d/e has an empty spec (nothing was configured for it, no tracking link); it is updated
   and now has a tls block for t.local *)
Definition ing_e0 := {| i_ns := "d"; i_name := "e"; i_stamp := 2; i_class := None; i_rules := []; i_tls := [] |}.
Definition ing_e1 := {| i_ns := "d"; i_name := "e"; i_stamp := 2; i_class := None; i_rules := [];
                        i_tls := [(["t.local"], "")] |}.
Definition ew0 := W [ing_k; ing_e0] svc1.
Definition ew1 := W [ing_k; ing_e1] svc1.
Definition eb1 := {| b_links := [(KIngress, "d/e")]; b_add := []; b_upd := [ing_e1]; b_del := [] |}.
Definition hosts_kt (o : option st) : option (list (option hostrec)) :=
  match o with Some x => Some (map (get_host (fst x)) ["k.local"; "t.local"]) | None => None end.

Example upd_untracked_wf : batch_ok ew0 ew1 eb1.
Proof. apply batch_okb_sound. vm_compute. reflexivity. Qed.

(* the model (= the repaired code) converts it: by the theorem, and evaluated *)
Example upd_untracked_ok :
  (exists x', sync_partial ew1 (sync_full ew0) eb1 = Some x' /\ Inv ew1 x') /\
  hosts_kt (sync_partial ew1 (sync_full ew0) eb1) = hosts_kt (Some (sync_full ew1)) /\
  get_host (fst (sync_full ew1)) "t.local" = Some {| h_paths := []; h_tls := Some "DEFAULT" |}.
Proof.
  split; [|vm_compute; split; reflexivity].
  apply (model_partial_step ew0); [apply sync_full_Inv|apply upd_untracked_wf|apply H_view_same; reflexivity].
Qed.

(* the code before both commits: d/e is in changed.Links but has no link, QueryLinks does
   not return it, the merge does not add it: t.local is never configured *)
Example upd_untracked_old_refuted :
  hosts_kt (sync_partial_gen track_added_ing_old merge_names_old ew1 (sync_full ew0) eb1)
    = Some [get_host (fst (sync_full ew0)) "k.local"; None] /\
  hosts_kt (Some (sync_full ew1))
    = Some [get_host (fst (sync_full ew0)) "k.local"; Some {| h_paths := []; h_tls := Some "DEFAULT" |}].
Proof. vm_compute. split; reflexivity. Qed.

(* either repair alone is enough in the model: the new merge with the old pre-tracking
   (commit 3533ecf), or the old merge with the tls hosts pre-tracked (commit 42edb61: the
   new link makes QueryLinks return d/e).  The case of /repo that needed 3533ecf, an
   update that only sets spec.defaultBackend, is outside the model (no default backend). *)
Example upd_untracked_each_repair_ok :
  hosts_kt (sync_partial_gen track_added_ing_old merge_names ew1 (sync_full ew0) eb1)
    = hosts_kt (Some (sync_full ew1)) /\
  hosts_kt (sync_partial_gen track_added_ing merge_names_old ew1 (sync_full ew0) eb1)
    = hosts_kt (Some (sync_full ew1)).
Proof. vm_compute. split; reflexivity. Qed.
